import CopVerif.Lemmas.RngScopeGen
import CopVerif.Gen.RngScope
import CopVerif.Props.C15b
/-!
# C15c — the random-state protocol REGENERATED from the source is the hand model's

Property theorems only.  `CopVerif/Gen/RngScope.lean` is rewritten on every run by `tools/gen_rngscope.py`
from the AST of the current `copulas/utils.py` (`set_random_state`, `random_state`, `validate_random_state`:
every statement becomes a line of a `do` block of the step language `CopVerif/Model/RngStep.lean`), of the
`set_random_state` methods of the model base classes, and of the class statements of the three packages (the
table `samplerRows`: which class defines the effective `sample` of each sampler class, that method's
decorators, which class defines its effective `set_random_state`).  The theorems of `Props/C15.lean` and
`Props/C15b.lean` are about the hand-written `CopVerif.Model.Rng`.  This file proves, for all inputs, that
the generated definitions equal the model's (`gen_*_eq`), and restates the headline C15 theorems about the
generated functions.  Moving the restore before the store-back, dropping the `try/finally`, flipping the
`None` test, swapping the arms of the type dispatch, or removing `@random_state` from one `sample` changes the
generated text and a bridge or a table theorem no longer checks; a renamed local, an extra temporary, an
`isinstance` chain in another order regenerate a block with the same evaluation and `rng_eval` closes it.
-/
namespace CopVerif.Props.C15c
open CopVerif.Model.Rng CopVerif.Model.RngStep CopVerif.Gen

variable {G Draw Out : Type} {α : Type}

/-! ## bridges: generated = model -/

/-- **`validate_random_state`, the type dispatch.**  `None` passes; an `int` makes a NEW `RandomState(seed)` object
(one allocation, holding `fromSeed n`); a `RandomState` object passes **by reference** (no allocation, no copy);
anything else raises `TypeError` before any state is touched. -/
theorem gen_validate_random_state_spec (A : GenAlg G Draw Out) (w : World G) :
    RngScope.validate_random_state A .none w = (w, .ok .none) ∧
    (∀ n, RngScope.validate_random_state A (.int n) w
      = (⟨w.global, upd w.heap w.next (A.fromSeed n), w.next + 1, w.rs⟩, .ok (.rs w.next))) ∧
    (∀ r, RngScope.validate_random_state A (.rs r) w = (w, .ok (.rs r))) ∧
    RngScope.validate_random_state A .other w = (w, .error .typeError) ∧
    (∀ g, RngScope.validate_random_state A (.state g) w = (w, .error .typeError)) := by
  refine ⟨?_, fun n => ?_, fun r => ?_, ?_, fun g => ?_⟩ <;> rng_eval [RngScope.validate_random_state]

/-- non-vacuity: the three accepted forms and the refusal, in the counter algebra. -/
example :
    let w : World Nat := ⟨5, fun _ => 7, 1, fun _ => none⟩
    (RngScope.validate_random_state ctr (.int 3) w).2 = .ok (.rs 1) ∧
    (RngScope.validate_random_state ctr (.int 3) w).1.heap 1 = ctr.fromSeed 3 ∧
    (RngScope.validate_random_state ctr (.rs 0) w).2 = .ok (.rs 0) ∧
    (RngScope.validate_random_state ctr (.rs 0) w).1.next = 1 ∧
    (RngScope.validate_random_state ctr .none w).2 = .ok .none ∧
    (RngScope.validate_random_state ctr .other w).2 = .error .typeError := by decide

/-- **The `set_random_state` methods** of `Univariate`, `Bivariate`, `Multivariate` (every effective definer of
the table), applied to model `m`, are the model's `setRandomState` — for every seed form; they return `None`.
(`hs`: a caller can only pass an object that exists.) -/
theorem gen_set_random_state_method_eq (A : GenAlg G Draw Out) (owner : String)
    (ho : owner ∈ RngScope.setterOwners) (m : Nat) (s : Seed) (w : World G)
    (hs : ∀ r, s = .obj r → r < w.next) :
    RngScope.setRandomStateOf A owner (attrOf m) (seedVal s) w = (setRandomState A m s w, .ok .none) := by
  simp only [RngScope.setterOwners, List.mem_cons, List.not_mem_nil, or_false] at ho
  rcases ho with rfl | rfl | rfl <;> cases s <;>
    first
    | rng_eval [RngScope.setRandomStateOf, RngScope.Univariate_set_random_state, RngScope.Bivariate_set_random_state,
        RngScope.Multivariate_set_random_state, RngScope.validate_random_state]
    | (have := hs _ rfl
       rng_eval [RngScope.setRandomStateOf, RngScope.Univariate_set_random_state, RngScope.Bivariate_set_random_state,
        RngScope.Multivariate_set_random_state, RngScope.validate_random_state, this])

/-- the bound method `self.set_random_state` applied to a `RandomState` object — the call the context manager
makes — stores the reference and never raises. -/
theorem gen_setter_on_object (A : GenAlg G Draw Out) (owner : String)
    (ho : owner ∈ RngScope.setterOwners) (m r : Nat) (w : World G) :
    RngScope.setRandomStateOf A owner (attrOf m) (.rs r) w
      = (⟨w.global, w.heap, w.next, upd w.rs m (some r)⟩, .ok .none) := by
  simp only [RngScope.setterOwners, List.mem_cons, List.not_mem_nil, or_false] at ho
  rcases ho with rfl | rfl | rfl <;>
    rng_eval [RngScope.setRandomStateOf, RngScope.Univariate_set_random_state, RngScope.Bivariate_set_random_state,
        RngScope.Multivariate_set_random_state, RngScope.validate_random_state]

/-- **The context manager `utils.set_random_state`** translated from the source, used by the wrapper of a model
`m` (callback = `m.set_random_state`), IS the model's `withModelState` with the `storeFresh m` setter: for every
`with` body `x` (returning or raising, touching the world in any way), every world, every object `r`.  So the
order save / install / body / fresh object := current state / store it in the model / restore, and the fact
that the last four run in the `finally` arm, are what the source says now. -/
theorem gen_context_manager_eq (A : GenAlg G Draw Out) (owner : String)
    (ho : owner ∈ RngScope.setterOwners) (m r : Nat) (x : M G α) (w : World G) :
    RngScope.set_random_state A (.rs r) (RngScope.setRandomStateOf A owner (attrOf m)) x w
      = withModelState (w.heap r) (storeFresh m) x w := by
  rcases hx : x ⟨w.heap r, w.heap, w.next, w.rs⟩ with ⟨w1, res⟩
  rng_eval [RngScope.set_random_state, hx, gen_setter_on_object A owner ho]

/-- **Global state after a seeded call = before, also when the body raises** — directly about the translated
context manager, for an arbitrary callback that does not raise: the global generator is restored and the
outcome of the body (value or exception) is passed through unchanged. -/
theorem gen_global_restored (A : GenAlg G Draw Out) (r : Nat) (cb : Val G → M G (Val G))
    (hcb : ∀ v w', ∃ a, (cb v w').2 = .ok a) (x : M G α) (w : World G) :
    (RngScope.set_random_state A (.rs r) cb x w).1.global = w.global ∧
    (RngScope.set_random_state A (.rs r) cb x w).2 = (x ⟨w.heap r, w.heap, w.next, w.rs⟩).2 := by
  rcases hx : x ⟨w.heap r, w.heap, w.next, w.rs⟩ with ⟨w1, res⟩
  obtain ⟨a, ha⟩ := hcb (.rs w1.next) ⟨w1.global, upd w1.heap w1.next w1.global, w1.next + 1, w1.rs⟩
  rcases hc : cb (.rs w1.next) ⟨w1.global, upd w1.heap w1.next w1.global, w1.next + 1, w1.rs⟩ with ⟨w2, res2⟩
  rw [hc] at ha
  simp at ha
  subst ha
  simp [RngScope.set_random_state, hx, hc]

/-- non-vacuity of `gen_global_restored` (a body that draws and then raises; the model's own setter), and why
the callback must not raise: the restore is the LAST statement of the `finally` block, so a raising callback
skips it and the global generator is left at the model's state (`12`, not `5`).  The setters the library passes
(`gen_setter_on_object`, and the `pass` function of `datasets.py`) cannot raise. -/
example :
    let w : World Nat := ⟨5, fun _ => 7, 1, fun _ => some 0⟩
    let body : M Nat Unit := fun w => (⟨w.global + 5, w.heap, w.next, w.rs⟩, .error .body)
    (∀ v w', ∃ a, (RngScope.setRandomStateOf ctr "Bivariate" (attrOf 0) (.rs v) w').2 = .ok a) ∧
    (RngScope.set_random_state ctr (.rs 0) (RngScope.setRandomStateOf ctr "Bivariate" (attrOf 0)) body w).1.global = 5 ∧
    (RngScope.set_random_state ctr (.rs 0) (RngScope.setRandomStateOf ctr "Bivariate" (attrOf 0)) body w).2 = .error .body ∧
    (RngScope.set_random_state ctr (.rs 0) (RngScope.setRandomStateOf ctr "Bivariate" (attrOf 0)) body w).1.view 0 = some 12 ∧
    (RngScope.set_random_state ctr (.rs 0) (fun _ => raiseExc .valueError) body w).1.global = 12 := by
  refine ⟨fun v w' => ⟨.none, ?_⟩, by decide, by decide, by decide, by decide⟩
  rw [gen_setter_on_object ctr "Bivariate" (by decide)]

/-- **The decorator `utils.random_state`**: the translated `wrapper`, for a model `m` whose bound
`set_random_state` is any of the table's definers, is the model's `decorate m` — the `None` branch runs the
function directly, the other branch runs it inside the context manager. -/
theorem gen_wrapper_eq (A : GenAlg G Draw Out) (owner : String)
    (ho : owner ∈ RngScope.setterOwners) (m : Nat) (b : World G → World G × Result Out) (w : World G) :
    lowerBody (RngScope.random_state_wrapper A (attrOf m) (RngScope.setRandomStateOf A owner (attrOf m))
      (liftBody b)) w = decorate m b w := by
  cases hr : w.rs m <;>
    simp [RngScope.random_state_wrapper, hr, decorate, decorateWith, World.view,
      gen_context_manager_eq A owner ho, withModelState_liftBody]

/-- the `None` branch alone: for an object whose `random_state` is `None` the wrapper is the function itself,
whatever the callback. -/
theorem gen_wrapper_none_branch (A : GenAlg G Draw Out) (cb : Val G → M G (Val G)) (x : M G α) :
    RngScope.random_state_wrapper A unseededInstance cb x = x := by
  funext w
  rcases hx : x w with ⟨w1, res⟩
  cases res <;> simp [RngScope.random_state_wrapper, hx]

/-! ## the tables -/

/-- the sixteen sampler classes of the model. -/
def allClasses : List String := samplerClasses ++ ["Univariate"]

/-- row facts, class by class (decidable, finite): the effective `sample` carries `@random_state` exactly when
the model's repaired table says so (always), it delegates to `self._instance.sample` exactly when the model
classifies the class as `delegating`, its effective `set_random_state` is one of the translated methods, and its
constructor stores `validate_random_state(random_state)`. -/
def rowOk (c : String) : Bool :=
  match RngScope.rowOf c with
  | some r => r.decorated == tableDecorated repairedTable c && r.delegates == (kindOfClass c == .delegating)
      && RngScope.setterOwners.contains r.setterOwner && r.ctorValidates && r.decorated
  | none => false

/-- every class of the model has a row in the generated table, and the row is as the model says.  Removing
`@random_state` from one `sample`, overriding `set_random_state` in a subclass, or storing the raw seed in a
constructor changes a row and breaks this theorem. -/
theorem gen_rows_ok : ∀ c ∈ allClasses, rowOk c = true := by decide

/-- the generated table lists exactly the model's sixteen classes, each once (a new sampler class in the
packages, or one that disappeared, breaks this). -/
theorem gen_classes_exact :
    (RngScope.samplerRows.map (·.cls)).all (allClasses.contains ·) = true ∧
    allClasses.all ((RngScope.samplerRows.map (·.cls)).contains ·) = true ∧
    (RngScope.samplerRows.map (·.cls)).Nodup := by decide

/-- looking a listed class up returns its own row (no class is listed twice). -/
theorem gen_rowOf_self : ∀ row ∈ RngScope.samplerRows, RngScope.rowOf row.cls = some row := by decide

/-- the row facts in usable form. -/
theorem row_facts {c : String} (hc : c ∈ allClasses) :
    ∃ r, RngScope.rowOf c = some r ∧ r.decorated = true ∧ tableDecorated repairedTable c = true ∧
      r.delegates = (kindOfClass c == .delegating) ∧ r.setterOwner ∈ RngScope.setterOwners ∧
      r.ctorValidates = true := by
  have h := gen_rows_ok c hc
  unfold rowOk at h
  cases hr : RngScope.rowOf c with
  | none => simp [hr] at h
  | some r =>
    simp only [hr, Bool.and_eq_true, beq_iff_eq, List.contains_iff_mem] at h
    obtain ⟨⟨⟨⟨h1, h2⟩, h3⟩, h4⟩, h5⟩ := h
    exact ⟨r, rfl, h5, by rw [← h1, h5], h2, h3, h4⟩

/-- the configuration read off the generated tables is the model's repaired configuration. -/
theorem gen_config_eq (clsOf : Nat → String) (hall : ∀ m, clsOf m ∈ allClasses) :
    RngScope.genConfig clsOf = configOf repairedTable clsOf := by
  have hk : ∀ m, (RngScope.genConfig clsOf).kind m = kindOfClass (clsOf m) := by
    intro m
    obtain ⟨r, hr, _, _, hdel, _, _⟩ := row_facts (hall m)
    simp only [RngScope.genConfig, hr, hdel]
    cases kindOfClass (clsOf m) <;> rfl
  have hd : ∀ m, (RngScope.genConfig clsOf).decorated m = tableDecorated repairedTable (clsOf m) := by
    intro m
    obtain ⟨r, hr, hdec, htab, _, _, _⟩ := row_facts (hall m)
    simp only [RngScope.genConfig, hr, hdec, htab]
  show (⟨_, _⟩ : Config) = ⟨_, _⟩
  congr 1
  · funext m; exact hk m
  · funext m; exact hd m

/-- **`m.sample(...)`** assembled from the generated wrapper, the generated `set_random_state` method of the
class the table names and the table's decorator / delegation flags IS the model's `sample` under the repaired
table — for every class of the table, call and world. -/
theorem gen_sample_eq (A : GenAlg G Draw Out) (clsOf : Nat → String) (m : Nat) (hm : clsOf m ∈ allClasses)
    (c : Call Draw) (w : World G) :
    lowerBody (RngScope.sampleM A clsOf m c) w = sample A (configOf repairedTable clsOf) m c w := by
  obtain ⟨r, hr, hdec, htab, hdel, hown, _⟩ := row_facts hm
  have hd : (configOf repairedTable clsOf).decorated m = true := by simpa [configOf] using htab
  have hu : undecoratedSample A (configOf repairedTable clsOf) m c = drawGlobal A c :=
    funext (undecoratedSample_eq A _ m c)
  have hinner : (if r.delegates = true then RngScope.random_state_wrapper A unseededInstance
      unseededInstance.assignRandomState (liftBody (drawGlobal A c)) else liftBody (drawGlobal A c))
      = liftBody (drawGlobal (Out := Out) A c) := by
    split
    · exact gen_wrapper_none_branch A _ _
    · rfl
  simp only [RngScope.sampleM, RngScope.sampleOf, hr, hdec, hinner, if_true, sample, hd, hu]
  exact gen_wrapper_eq A r.setterOwner hown m (drawGlobal A c) w

/-- **One step of a client program**: generated = model, for every operation. -/
theorem gen_step_eq (A : GenAlg G Draw Out) (clsOf : Nat → String) (hall : ∀ m, clsOf m ∈ allClasses)
    (w : World G) (op : Op Draw) :
    RngScope.step A clsOf w op = step A (configOf repairedTable clsOf) w op := by
  have hset : ∀ m s, (∀ r, s = .obj r → r < w.next) →
      effect (RngScope.setStateM A clsOf m (seedVal s)) w = setRandomState A m s w := by
    intro m s hs
    obtain ⟨r, hr, _, _, _, hown, _⟩ := row_facts (hall m)
    simp only [RngScope.setStateM, hr, effect_run, gen_set_random_state_method_eq A r.setterOwner hown m s w hs]
  cases op with
  | sample m c =>
    simp only [RngScope.step, step, gen_sample_eq A clsOf m (hall m) c w]
  | setState m s =>
    cases s with
    | none => simp only [RngScope.step, step]; rw [hset m .none (by intro r h; cases h)]
    | int n => simp only [RngScope.step, step]; rw [hset m (.int n) (by intro r h; cases h)]
    | obj r =>
      simp only [RngScope.step, step]
      by_cases h : r < w.next
      · have := hset m (.obj r) (by intro r' h'; cases h'; exact h)
        simp only [seedVal_obj] at this
        rw [if_pos h, this]
      · simp [h, setRandomState]
  | callerNew n => simp only [RngScope.step, gen_config_eq clsOf hall]
  | callerDraw r d => simp only [RngScope.step, gen_config_eq clsOf hall]
  | seedGlobal n => simp only [RngScope.step, gen_config_eq clsOf hall]
  | dataset s ds => simp only [RngScope.step, gen_config_eq clsOf hall]
  | datasetBimodal s a b => simp only [RngScope.step, gen_config_eq clsOf hall]

theorem gen_stepW_eq (A : GenAlg G Draw Out) (clsOf : Nat → String) (hall : ∀ m, clsOf m ∈ allClasses)
    (w : World G) (op : Op Draw) :
    RngScope.stepW A clsOf w op = stepW A (configOf repairedTable clsOf) w op := by
  simp only [RngScope.stepW, stepW, gen_step_eq A clsOf hall]

/-- … hence for every history. -/
theorem gen_runW_eq (A : GenAlg G Draw Out) (clsOf : Nat → String) (hall : ∀ m, clsOf m ∈ allClasses)
    (w : World G) (h : List (Op Draw)) :
    RngScope.runW A clsOf w h = runW A (configOf repairedTable clsOf) w h := by
  induction h generalizing w with
  | nil => rfl
  | cons op h ih => simp only [RngScope.runW, runW, gen_stepW_eq A clsOf hall, ih]

theorem gen_runLog_eq (A : GenAlg G Draw Out) (clsOf : Nat → String) (hall : ∀ m, clsOf m ∈ allClasses)
    (w : World G) (h : List (Op Draw)) :
    RngScope.runLog A clsOf w h = runLog A (configOf repairedTable clsOf) w h := by
  induction h generalizing w with
  | nil => rfl
  | cons op h ih => simp only [RngScope.runLog, runLog, gen_step_eq A clsOf hall, ih]

theorem gen_outputs_eq (A : GenAlg G Draw Out) (clsOf : Nat → String) (hall : ∀ m, clsOf m ∈ allClasses)
    (m : Nat) (w : World G) (h : List (Op Draw)) :
    RngScope.outputs A clsOf m w h = outputs A (configOf repairedTable clsOf) m w h := by
  induction h generalizing w with
  | nil => rfl
  | cons op h ih =>
    cases op <;>
      simp only [RngScope.outputs, outputs, outputOp, gen_stepW_eq A clsOf hall, ih,
        gen_sample_eq A clsOf _ (hall _), List.nil_append]

theorem gen_maskedOutputs_eq (A : GenAlg G Draw Out) (clsOf : Nat → String)
    (hall : ∀ m, clsOf m ∈ allClasses) (m : Nat) (w : World G) (h : List (Op Draw)) :
    RngScope.maskedOutputs A clsOf m w h = maskedOutputs A (configOf repairedTable clsOf) m w h := by
  induction h generalizing w with
  | nil => rfl
  | cons op h ih =>
    cases op <;>
      simp only [RngScope.maskedOutputs, maskedOutputs, maskedOp, gen_stepW_eq A clsOf hall, ih,
        gen_sample_eq A clsOf _ (hall _), List.nil_append]

/-! ## the headline theorems, about the generated functions -/

/-- **Every public sampling entry point listed is scoped.**  For every row of the table generated from the
source (sixteen classes: every scipy-backed univariate, `GaussianKDE`, the selecting wrapper `Univariate`,
`Bivariate` and its four families, `GaussianMultivariate`, `VineCopula`): its effective `sample` carries
`@random_state`, its constructor stores `validate_random_state(random_state)`, its `set_random_state` is one of
the translated methods — and therefore one call of the generated `sample` on a model of that class that holds a
seed leaves the global generator exactly as it was, returns the values of the model's own stream, and stores
the advanced state in the model, for every generator algebra, call (returning or raising) and world. -/
theorem gen_every_listed_sampler_scoped :
    ∀ row ∈ RngScope.samplerRows,
      row.decorated = true ∧ row.ctorValidates = true ∧ row.setterOwner ∈ RngScope.setterOwners ∧
      ∀ (G Draw Out : Type) (A : GenAlg G Draw Out) (clsOf : Nat → String) (m : Nat), clsOf m = row.cls →
        ∀ (c : Call Draw) (w : World G) (r : Nat), w.rs m = some r →
          (lowerBody (RngScope.sampleM A clsOf m c) w).1.global = w.global ∧
          (lowerBody (RngScope.sampleM A clsOf m c) w).2 = result A (w.heap r) c ∧
          (lowerBody (RngScope.sampleM A clsOf m c) w).1.view m = some (advDraws A (w.heap r) c.draws) := by
  intro row hrow
  have hcls : row.cls ∈ allClasses := by
    have h := gen_classes_exact.1
    rw [List.all_eq_true] at h
    have := h row.cls (List.mem_map.2 ⟨row, hrow, rfl⟩)
    simpa using this
  obtain ⟨r', hr', hdec, _, _, hown, hctor⟩ := row_facts hcls
  have hrow' : RngScope.rowOf row.cls = some row := gen_rowOf_self row hrow
  have hrr : r' = row := by rw [hrow'] at hr'; exact (Option.some.inj hr').symm
  subst hrr
  refine ⟨hdec, hctor, hown, ?_⟩
  intro G Draw Out A clsOf m hm c w r hr
  have hmem : clsOf m ∈ allClasses := hm ▸ hcls
  rw [gen_sample_eq A clsOf m hmem c w]
  obtain ⟨h1, h2, h3⟩ := C15.seeded_sample_effect A _ c (C15b.all_samplers_decorated clsOf m hmem) hr
  exact ⟨h2, h1, h3⟩

/-- non-vacuity: the table is not empty, and a `VineCopula` is in it. -/
example : RngScope.samplerRows.length = 16 ∧
    (RngScope.rowOf "VineCopula").map (·.setterOwner) = some "Multivariate" := by decide

/-- **Exception safety** of the generated `sample`: a seeded model's sampler whose body raises after `c.draws`
reports the exception, leaves the global generator as it was, stores the advanced state in a fresh object and
touches no other object or model. -/
theorem gen_exception_safe (A : GenAlg G Draw Out) (clsOf : Nat → String) {m r : Nat}
    (hm : clsOf m ∈ allClasses) (c : Call Draw) {w : World G} (hr : w.rs m = some r) (hc : c.raises = true) :
    (lowerBody (RngScope.sampleM A clsOf m c) w).2 = .raised ∧
    (lowerBody (RngScope.sampleM A clsOf m c) w).1.global = w.global ∧
    (lowerBody (RngScope.sampleM A clsOf m c) w).1.view m = some (advDraws A (w.heap r) c.draws) ∧
    (∀ r', r' < w.next → (lowerBody (RngScope.sampleM A clsOf m c) w).1.heap r' = w.heap r') ∧
    (∀ m', m' ≠ m → (lowerBody (RngScope.sampleM A clsOf m c) w).1.rs m' = w.rs m') := by
  rw [gen_sample_eq A clsOf m hm c w]
  exact C15b.exception_safe_all A clsOf hm c hr hc

/-- **Without a seed** (`random_state is None`: the first arm of the wrapper) the generated `sample` is its body
run on the global stream. -/
theorem gen_unseeded_uses_global (A : GenAlg G Draw Out) (clsOf : Nat → String) {m : Nat}
    (hm : clsOf m ∈ allClasses) (c : Call Draw) {w : World G} (hn : w.rs m = none) :
    lowerBody (RngScope.sampleM A clsOf m c) w = drawGlobal A c w := by
  rw [gen_sample_eq A clsOf m hm c w]
  exact (C15b.unseeded_uses_global_all A clsOf c 0 hn).1

/-- **Global generator, every history.**  In a population of models of the table's classes, a history executed
by the generated step function in which every `sample` is issued to a model that holds a seed at that moment
and nobody calls `np.random.seed` ends with the global generator state it started with — calls that raise,
re-seeding of models with `None`/`int`/`RandomState`, caller-owned objects and dataset generators included. -/
theorem gen_global_preserved (A : GenAlg G Draw Out) (clsOf : Nat → String)
    (hall : ∀ m, clsOf m ∈ allClasses) (w : World G) (h : List (Op Draw))
    (hs : ∀ (pre : List (Op Draw)) (op : Op Draw) (post : List (Op Draw)), h = pre ++ op :: post →
      match op with
      | .sample m _ => ((RngScope.runW A clsOf w pre).rs m).isSome = true
      | .seedGlobal _ => False
      | _ => True) :
    (RngScope.runW A clsOf w h).global = w.global := by
  rw [gen_runW_eq A clsOf hall]
  refine (C15b.global_preserved_all A clsOf hall w h ?_).2
  intro pre op post e
  have := hs pre op post e
  rw [gen_runW_eq A clsOf hall] at this
  exact this

/-- non-vacuity: wrappers, a Frank copula and a vine, calls that return and calls that raise, a caller-owned
`RandomState`, dataset generators — executed by the generated step function. -/
example :
    let cls : Nat → String := fun m => if m = 1 then "Frank" else if m = 2 then "VineCopula" else "Univariate"
    let h : List (Op Nat) := [.setState 0 (.int 3), .sample 0 ⟨[5], false⟩, .callerNew 4,
      .setState 1 (.obj 1), .sample 1 ⟨[], true⟩, .dataset 42 [7], .setState 2 (.int 3),
      .sample 2 ⟨[1, 2], false⟩, .sample 0 ⟨[5], true⟩, .datasetBimodal 1 [2] [3, 4]]
    (RngScope.runW (freeAlg Nat) cls (World.init ⟨0, []⟩) h).global = ⟨0, []⟩ ∧
    (RngScope.runW (freeAlg Nat) cls (World.init ⟨0, []⟩) h).view 2 = some ⟨4, [1, 2]⟩ ∧
    RngScope.outputs (freeAlg Nat) cls 1 (World.init ⟨0, []⟩) h = [.raised] := by
  decide

/-- **Reproducibility = a function of (seed, call history).**  Two runs of the generated step function —
different populations, different worlds (prior global state, other models), different histories — in which
two models of the table's classes are (re)seeded alike (`set v` is the first own operation of each) and then
receive the same own call sequence return the same results call by call and end in the same state. -/
theorem gen_reproducible (A : GenAlg G Draw Out) (clsOf₁ clsOf₂ : Nat → String)
    (hall₁ : ∀ m, clsOf₁ m ∈ allClasses) (hall₂ : ∀ m, clsOf₂ m ∈ allClasses)
    {w₁ w₂ : World G} (hw₁ : WF w₁) (hw₂ : WF w₂) {m₁ m₂ : Nat} (h₁ h₂ : List (Op Draw))
    (hp₁ : plainFor m₁ h₁ = true) (hp₂ : plainFor m₂ h₂ = true)
    (v : Option G) (ops : List (MOp G Draw))
    (hproj₁ : proj A m₁ h₁ = .set v :: ops) (hproj₂ : proj A m₂ h₂ = .set v :: ops) :
    RngScope.maskedOutputs A clsOf₁ m₁ w₁ h₁ = RngScope.maskedOutputs A clsOf₂ m₂ w₂ h₂ ∧
    (RngScope.runW A clsOf₁ w₁ h₁).view m₁ = (RngScope.runW A clsOf₂ w₂ h₂).view m₂ := by
  rw [gen_maskedOutputs_eq A clsOf₁ hall₁, gen_maskedOutputs_eq A clsOf₂ hall₂, gen_runW_eq A clsOf₁ hall₁,
    gen_runW_eq A clsOf₂ hall₂]
  exact C15b.stream_deterministic_from_seed_all A clsOf₁ clsOf₂ hw₁ hw₂ (hall₁ m₁) (hall₂ m₂) h₁ h₂ hp₁ hp₂ v
    ops hproj₁ hproj₂

/-- … and from equal states without re-seeding: the stream is independent of the interleaving with other
models and of the global state. -/
theorem gen_stream_deterministic (A : GenAlg G Draw Out) (clsOf₁ clsOf₂ : Nat → String)
    (hall₁ : ∀ m, clsOf₁ m ∈ allClasses) (hall₂ : ∀ m, clsOf₂ m ∈ allClasses)
    {w₁ w₂ : World G} (hw₁ : WF w₁) (hw₂ : WF w₂) {m₁ m₂ : Nat} (h₁ h₂ : List (Op Draw))
    (hp₁ : plainFor m₁ h₁ = true) (hp₂ : plainFor m₂ h₂ = true)
    (hv : w₁.view m₁ = w₂.view m₂) (hproj : proj A m₁ h₁ = proj A m₂ h₂) :
    RngScope.maskedOutputs A clsOf₁ m₁ w₁ h₁ = RngScope.maskedOutputs A clsOf₂ m₂ w₂ h₂ ∧
    (RngScope.runW A clsOf₁ w₁ h₁).view m₁ = (RngScope.runW A clsOf₂ w₂ h₂).view m₂ := by
  rw [gen_maskedOutputs_eq A clsOf₁ hall₁, gen_maskedOutputs_eq A clsOf₂ hall₂, gen_runW_eq A clsOf₁ hall₁,
    gen_runW_eq A clsOf₂ hall₂]
  exact C15b.stream_deterministic_all A clsOf₁ clsOf₂ hw₁ hw₂ (hall₁ m₁) (hall₂ m₂) h₁ h₂ hp₁ hp₂ hv hproj

/-- non-vacuity: a seeded wrapper alone, and the same seed and calls interleaved with a KDE, a re-seeding of
the global generator and another prior global state — same outputs from the generated functions. -/
example :
    let cls₁ : Nat → String := fun _ => "Univariate"
    let cls₂ : Nat → String := fun m => if m = 1 then "GaussianKDE" else "Univariate"
    let h₁ : List (Op Nat) := [.setState 0 (.int 7), .sample 0 ⟨[1], false⟩, .sample 0 ⟨[2], false⟩]
    let h₂ : List (Op Nat) := [.seedGlobal 9, .setState 1 (.int 8), .setState 2 (.int 7),
      .sample 1 ⟨[5], false⟩, .sample 2 ⟨[1], false⟩, .sample 1 ⟨[1], true⟩, .sample 2 ⟨[2], false⟩]
    plainFor 0 h₁ = true ∧ plainFor 2 h₂ = true ∧
    proj (freeAlg Nat) 0 h₁ = proj (freeAlg Nat) 2 h₂ ∧
    RngScope.maskedOutputs (freeAlg Nat) cls₁ 0 (World.init ⟨0, []⟩) h₁
      = RngScope.maskedOutputs (freeAlg Nat) cls₂ 2 (World.init ⟨0, [77]⟩) h₂ := by decide

/-- **The model stream advances**: if the own call sequence of a seeded model in a history executed by the
generated step function is `sample c₁, …, sample cₙ`, call `k` is served from the state reached after the
draws of calls `1 … k−1`, and the state stored at the end is the start state advanced by all requests in
order. -/
theorem gen_stream_advances (A : GenAlg G Draw Out) (clsOf : Nat → String)
    (hall : ∀ m, clsOf m ∈ allClasses) {w : World G} (hw : WF w) {m : Nat} (h : List (Op Draw))
    (hp : plainFor m h = true) (g : G) (hv : w.view m = some g) (cs : List (Call Draw))
    (hproj : proj A m h = cs.map MOp.sample) :
    RngScope.maskedOutputs A clsOf m w h = segments A g cs ∧
    (RngScope.runW A clsOf w h).view m = some (advDraws A g (cs.flatMap Call.draws)) := by
  rw [gen_maskedOutputs_eq A clsOf hall, gen_runW_eq A clsOf hall]
  exact C15b.stream_advances_all A clsOf hw (hall m) h hp g hv cs hproj

/-- … to a *different* state whenever the call drew something (generator without short cycles) — also when
the call raised. -/
theorem gen_stream_advances_distinct (A : GenAlg G Draw Out) (hA : Acyclic A) (clsOf : Nat → String)
    {m r : Nat} (hm : clsOf m ∈ allClasses) (c : Call Draw) {w : World G} (hr : w.rs m = some r)
    (hne : c.draws ≠ []) :
    (lowerBody (RngScope.sampleM A clsOf m c) w).1.view m ≠ w.view m := by
  rw [gen_sample_eq A clsOf m hm c w]
  exact C15b.stream_advances_distinct_all A hA clsOf hm c hr hne

/-- non-vacuity: two calls on a seeded Gumbel copula in the counter algebra (acyclic) — consecutive segments. -/
example :
    let cls : Nat → String := fun _ => "Gumbel"
    let h : List (Op Nat) := [.sample 0 ⟨[1, 2], false⟩, .sample 0 ⟨[4], true⟩]
    let w : World Nat := ⟨5, fun _ => 7, 1, fun _ => some 0⟩
    WF w ∧ plainFor 0 h = true ∧ proj ctr 0 h = [Call.mk [1, 2] false, Call.mk [4] true].map MOp.sample ∧
    RngScope.maskedOutputs ctr cls 0 w h = segments ctr 7 [⟨[1, 2], false⟩, ⟨[4], true⟩] ∧
    (RngScope.runW ctr cls w h).view 0 = some (advDraws ctr 7 [1, 2, 4]) ∧
    (RngScope.runW ctr cls w h).global = 5 := by
  refine ⟨?_, by decide, by decide, by decide, by decide, by decide⟩
  intro m r h
  have : r = 0 := by simpa using h.symm
  subst this
  exact Nat.zero_lt_one

/-- **A refused seed changes nothing**: `set_random_state` of every class with a value that is neither `None`,
an `int` nor a `RandomState` raises `TypeError` and leaves the whole world as it was. -/
theorem gen_type_error (A : GenAlg G Draw Out) (owner : String) (ho : owner ∈ RngScope.setterOwners)
    (m : Nat) (w : World G) :
    RngScope.setRandomStateOf A owner (attrOf m) .other w = (w, .error .typeError) ∧
    ∀ g, RngScope.setRandomStateOf A owner (attrOf m) (.state g) w = (w, .error .typeError) := by
  simp only [RngScope.setterOwners, List.mem_cons, List.not_mem_nil, or_false] at ho
  rcases ho with rfl | rfl | rfl <;> refine ⟨?_, fun g => ?_⟩ <;>
    rng_eval [RngScope.setRandomStateOf, RngScope.Univariate_set_random_state,
      RngScope.Bivariate_set_random_state, RngScope.Multivariate_set_random_state,
      RngScope.validate_random_state]

example : "Multivariate" ∈ RngScope.setterOwners := by decide

end CopVerif.Props.C15c
