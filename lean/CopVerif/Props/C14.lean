import CopVerif.Gen.Serial
/-!
# Property C14 — serialisation round trips preserve every model's observable behaviour

Theorems about the hand-written model `CopVerif.Model.Serial` (K) instantiated with the tables
generated from the Python source (`CopVerif.Gen.Serial`, T).  Helper lemmas are `private`.

What is *not* modelled: `save`/`load` through `pickle` (the object graph is copied as is — an
assumption about `pickle`), and the numeric meaning of the parameters (two objects with the same
observable state make the same scipy calls — an assumption validated by the harness).
-/
namespace CopVerif.Props.C14
open CopVerif.Model.Serial
open CopVerif.Gen.Serial

/-- the generated tables; `upper` is Python's `str.upper`. -/
def genTables (upper : String → String) : Tables :=
  { fams := families, biv := bivTable, upper := upper, multiInstantiates := multiDispatchInstantiates,
    gaussNoArg := gaussCtorNoArgs, vineNoArg := vineCtorNoArgs }

/-! ## JSON -/
private theorem enc_head (v : V) (h : isJson v = true) :
    ∃ t r, enc v = t :: r ∧ t ≠ .rbrack ∧ t ≠ .rbrace := by
  cases v with
  | num t => exact ⟨.num t, [], by simp [enc], by simp, by simp⟩
  | str t => exact ⟨.str t, [], by simp [enc], by simp, by simp⟩
  | bool t => exact ⟨.bool t, [], by simp [enc], by simp, by simp⟩
  | none => exact ⟨.null, [], by simp [enc], by simp, by simp⟩
  | obj a b => simp [isJson] at h
  | set a => simp [isJson] at h
  | list xs =>
    cases xs with
    | nil => exact ⟨.lbrack, [.rbrack], by simp [enc], by simp, by simp⟩
    | cons x xs => exact ⟨.lbrack, enc x ++ encTail xs, by simp [enc], by simp, by simp⟩
  | dict kvs =>
    cases kvs with
    | nil => exact ⟨.lbrace, [.rbrace], by simp [enc], by simp, by simp⟩
    | cons kv kvs =>
      obtain ⟨k, v⟩ := kv
      exact ⟨.lbrace, .str k :: .colon :: (enc v ++ encMembers kvs), by simp [enc], by simp, by simp⟩

mutual
private theorem parse_enc : ∀ (v : V), isJson v = true → ∀ (n : Nat) (rest : List Tok),
    (enc v).length ≤ n → parseV n (enc v ++ rest) = some (v, rest)
  | .num t, _, n, rest, hn => by
      cases n with
      | zero => simp [enc] at hn
      | succ n => simp [enc, parseV]
  | .str t, _, n, rest, hn => by
      cases n with
      | zero => simp [enc] at hn
      | succ n => simp [enc, parseV]
  | .bool t, _, n, rest, hn => by
      cases n with
      | zero => simp [enc] at hn
      | succ n => simp [enc, parseV]
  | .none, _, n, rest, hn => by
      cases n with
      | zero => simp [enc] at hn
      | succ n => simp [enc, parseV]
  | .obj _ _, h, _, _, _ => by simp [isJson] at h
  | .set _, h, _, _, _ => by simp [isJson] at h
  | .list [], _, n, rest, hn => by
      cases n with
      | zero => simp [enc] at hn
      | succ n => simp [enc, parseV]
  | .list (x :: xs), h, n, rest, hn => by
      cases n with
      | zero => simp [enc] at hn
      | succ n =>
        simp only [isJson, isJsonL, Bool.and_eq_true] at h
        obtain ⟨t, r, he, h1, _⟩ := enc_head x h.1
        simp only [enc, List.length_cons, List.length_append] at hn
        have hx := parse_enc x h.1 n (encTail xs ++ rest) (by omega)
        have ht := parse_tail xs h.2 n rest (by omega)
        simp only [enc, List.cons_append, List.append_assoc, parseV]
        rw [he] at hx ⊢
        simp only [List.cons_append] at hx ⊢
        split
        · rename_i heq; simp at heq; exact absurd heq.1 h1
        · rw [hx]; simp [ht]
  | .dict [], _, n, rest, hn => by
      cases n with
      | zero => simp [enc] at hn
      | succ n => simp [enc, parseV]
  | .dict ((k, v) :: kvs), h, n, rest, hn => by
      cases n with
      | zero => simp [enc] at hn
      | succ n =>
        simp only [isJson, isJsonD, Bool.and_eq_true] at h
        simp only [enc, List.length_cons, List.length_append] at hn
        have hx := parse_enc v h.1 n (encMembers kvs ++ rest) (by omega)
        have ht := parse_members kvs h.2 n rest (by omega)
        simp only [enc, List.cons_append, List.append_assoc, parseV]
        rw [hx]; simp [ht]
private theorem parse_tail : ∀ (xs : List V), isJsonL xs = true → ∀ (n : Nat) (rest : List Tok),
    (encTail xs).length ≤ n → parseTail n (encTail xs ++ rest) = some (xs, rest)
  | [], _, n, rest, hn => by
      cases n with
      | zero => simp [encTail] at hn
      | succ n => simp [encTail, parseTail]
  | x :: xs, h, n, rest, hn => by
      cases n with
      | zero => simp [encTail] at hn
      | succ n =>
        simp only [isJsonL, Bool.and_eq_true] at h
        simp only [encTail, List.length_cons, List.length_append] at hn
        have hx := parse_enc x h.1 n (encTail xs ++ rest) (by omega)
        have ht := parse_tail xs h.2 n rest (by omega)
        simp only [encTail, List.cons_append, List.append_assoc, parseTail]
        rw [hx]; simp [ht]
private theorem parse_members : ∀ (kvs : List (String × V)), isJsonD kvs = true → ∀ (n : Nat) (rest : List Tok),
    (encMembers kvs).length ≤ n → parseMembers n (encMembers kvs ++ rest) = some (kvs, rest)
  | [], _, n, rest, hn => by
      cases n with
      | zero => simp [encMembers] at hn
      | succ n => simp [encMembers, parseMembers]
  | (k, v) :: kvs, h, n, rest, hn => by
      cases n with
      | zero => simp [encMembers] at hn
      | succ n =>
        simp only [isJsonD, Bool.and_eq_true] at h
        simp only [encMembers, List.length_cons, List.length_append] at hn
        have hx := parse_enc v h.1 n (encMembers kvs ++ rest) (by omega)
        have ht := parse_members kvs h.2 n rest (by omega)
        simp only [encMembers, List.cons_append, List.append_assoc, parseMembers]
        rw [hx]; simp [ht]
end


/-! ### helpers -/
private theorem lookup_insertNew_self (p : Dict) (k : String) (v : V) (h : lookup p k = Option.none) :
    lookup (insertNew p k v) k = some v := by
  induction p with
  | nil => simp [insertNew, lookup]
  | cons kv r ih =>
    obtain ⟨k', v'⟩ := kv
    simp only [lookup] at h
    by_cases hk : k' = k
    · simp [hk] at h
    · simp only [hk, if_false] at h
      simp only [insertNew, List.cons_append, lookup, hk, if_false]
      exact ih h

private theorem erase_insertNew (p : Dict) (k : String) (v : V) (h : lookup p k = Option.none) :
    erase (insertNew p k v) k = p := by
  induction p with
  | nil => simp [insertNew, erase]
  | cons kv r ih =>
    obtain ⟨k', v'⟩ := kv
    simp only [lookup] at h
    by_cases hk : k' = k
    · simp [hk] at h
    · simp only [hk, if_false] at h
      have := ih h
      simp only [insertNew, erase] at this ⊢
      rw [List.cons_append, List.filter_cons]
      simp only [ne_eq, hk, not_false_eq_true, decide_true, if_true]
      rw [this]

private theorem optionOf_default (F : Family) (u : Uni) (h : u.options = defaultOptions F) (k : String) :
    optionOf u k = V.none := by
  unfold optionOf
  rw [h]
  unfold defaultOptions
  induction F.ctorOptions with
  | nil => simp [lookup]
  | cons a r ih =>
    simp only [List.map_cons, lookup]
    by_cases ha : a = k
    · simp [ha]
    · simp [ha, ih]

/-- one univariate round trip. -/
private theorem uni_trip (fams : List Family) (u : Uni) (h : UniWF fams u) :
    ∃ d u', u.toDict = some d ∧ uniFromDict fams d = some u' ∧ u'.obs = u.obs ∧ UniWF fams u' := by
  obtain ⟨p, hp, htype, hdet⟩ := h.params
  refine ⟨V.dict (insertNew p "type" (V.str u.fam.qual)),
    { fam := u.fam, fitted := true, params := some p, constant := u.constant, options := defaultOptions u.fam },
    ?_, ?_, ?_, ?_⟩
  · simp [Uni.toDict, h.fitted, hp]
  · simp [uniFromDict, lookup_insertNew_self p "type" _ htype, h.mem, erase_insertNew p "type" _ htype,
      setParams, freshUni, hdet]
  · simp only [Uni.obs, h.fitted, hp]
    congr 1
    by_cases hm : (u.fam.usesModel && u.constant.isNone) = true
    · simp only [hm, if_true]
      congr 1
      apply List.map_congr_left
      intro k hk
      simp only [Bool.and_eq_true, Option.isNone_iff_eq_none] at hm
      rw [h.opts hm.1 hm.2 k hk, optionOf_default u.fam _ rfl k]
    · simp [hm]
  · exact ⟨h.mem, rfl, ⟨p, rfl, htype, hdet⟩, fun _ _ k _ => optionOf_default u.fam _ rfl k⟩

private theorem wrapper_trip (fams : List Family) (w : Wrapper) (h : WrapperWF fams w) :
    ∃ d u', w.toDict = some d ∧ uniFromDict fams d = some u' ∧ some u'.obs = w.obs ∧ UniWF fams u' ∧
      (∃ u, w.inst = some u ∧ u'.fam = u.fam) := by
  obtain ⟨u, hu, hwf⟩ := h.inst
  obtain ⟨d, u', hd, hf, ho, hw'⟩ := uni_trip fams u hwf
  refine ⟨d, u', ?_, hf, ?_, hw', u, hu, ?_⟩
  · simp only [Uni.toDict, hwf.fitted, if_true] at hd
    simp [Wrapper.toDict, h.fitted, hu, hd]
  · simp only [Wrapper.obs, hu, Option.map_some]
    rw [ho]
    simp [Uni.obs, hwf.fitted, h.fitted]
  · have : u'.obs.qual = u.obs.qual := by rw [ho]
    obtain ⟨p, hp, htype, hdet⟩ := hwf.params
    simp only [Uni.toDict, hwf.fitted, hp, if_true, Option.map_some, Option.some.injEq] at hd
    subst hd
    simp only [uniFromDict, lookup_insertNew_self p "type" _ htype, hwf.mem, erase_insertNew p "type" _ htype,
      setParams, freshUni, hdet, Option.map_some, Option.some.injEq] at hf
    subst hf
    rfl

private theorem uniref_trip (fams : List Family) (r : UniRef) (h : UniRefWF fams r) :
    ∃ d u', r.toDict = some d ∧ uniFromDict fams d = some u' ∧ some u'.obs = r.obs ∧ UniWF fams u' := by
  cases r with
  | plain u =>
    obtain ⟨d, u', hd, hf, ho, hw⟩ := uni_trip fams u h
    exact ⟨d, u', hd, hf, by simp [UniRef.obs, ho], hw⟩
  | wrapped w =>
    obtain ⟨d, u', hd, hf, ho, hw, _⟩ := wrapper_trip fams w h
    exact ⟨d, u', hd, hf, ho, hw⟩

private theorem unirefs_trip (fams : List Family) (rs : List UniRef) (h : ∀ r ∈ rs, UniRefWF fams r) :
    ∃ ds us, rs.mapM UniRef.toDict = some ds ∧ ds.mapM (uniFromDict fams) = some us ∧
      us.map (fun u => some u.obs) = rs.map UniRef.obs ∧ ∀ u ∈ us, UniWF fams u := by
  induction rs with
  | nil => exact ⟨[], [], by simp, by simp, by simp, by simp⟩
  | cons r rs ih =>
    obtain ⟨d, u', hd, hf, ho, hw⟩ := uniref_trip fams r (h r (by simp))
    obtain ⟨ds, us, hds, hus, hos, hws⟩ := ih (fun r' hr' => h r' (by simp [hr']))
    refine ⟨d :: ds, u' :: us, ?_, ?_, ?_, ?_⟩
    · simp [List.mapM_cons, hd, hds]
    · simp [List.mapM_cons, hf, hus]
    · simp [ho, hos]
    · intro u hu
      simp at hu
      rcases hu with rfl | hu
      · exact hw
      · exact hws u hu

private theorem gauss_trip (fams : List Family) (g : Gauss) (h : GaussWF fams g) :
    ∃ d g', g.toDict = some d ∧ gaussFromDict fams d = some g' ∧ g'.obs = g.obs ∧ GaussWF fams g' := by
  obtain ⟨ds, us, hds, hus, hos, hws⟩ := unirefs_trip fams g.univariates h.unis
  refine ⟨V.dict [("correlation", g.correlation), ("univariates", .list ds), ("columns", g.columns),
      ("type", .str gaussQual)],
    { fitted := true, columns := g.columns, univariates := us.map UniRef.plain, correlation := g.correlation },
    ?_, ?_, ?_, ?_⟩
  · simp [Gauss.toDict, h.fitted, hds]
  · simp [gaussFromDict, lookup, hus]
  · simp only [Gauss.obs, h.fitted, List.map_map]
    congr 1
  · refine ⟨rfl, ?_⟩
    intro r hr
    simp at hr
    obtain ⟨u, hu, rfl⟩ := hr
    exact hws u hu

private theorem biv_trip (T : Tables) (b : Biv) (h : BivWF T b) :
    ∃ d, b.toDict T.biv = some d ∧ bivFromDict T.upper T.biv d = some b := by
  obtain ⟨m, hm, hmem, hcls⟩ := h.member
  refine ⟨V.dict [("copula_type", .str m), ("theta", b.theta), ("tau", b.tau)], by simp [Biv.toDict, hm], ?_⟩
  have hmem' : T.upper m ∈ T.biv.members := by simpa using hmem
  simp [bivFromDict, lookup, hmem', hcls]

private theorem view_ofDict (m : V) : (ArrAttr.ofDict m).view = m := by
  cases m <;> rfl

mutual
private theorem edge_trip : ∀ (e : Edge) (n : Nat) (oid : Oid), e.depth ≤ n →
    ∃ e', edgeFromDict n oid (Edge.toDict e) = some e' ∧ e'.strip = e.strip ∧ e'.oid = oid ∧
      (∀ p ∈ e'.parents, ∃ j, p.oid = oid ++ [j]) ∧ e'.depth = e.depth
  | .mk o index L R name theta U parents D tau likelihood neighbors, n, oid, hn => by
    cases n with
    | zero => simp [Edge.depth] at hn
    | succ n =>
      simp only [Edge.depth] at hn
      obtain ⟨ps', hps, hstrip, hoids, hdep, _⟩ := edges_trip parents n oid 0 (by omega)
      cases parents with
      | nil =>
        simp only [Edge.toDictL, edgesFromDict, Option.some.injEq] at hps
        subst hps
        refine ⟨.mk oid index L R name theta (ArrAttr.ofDict U.view) [] D tau likelihood neighbors, ?_, ?_, rfl, ?_, ?_⟩
        · simp [Edge.toDict, edgeFromDict, lookup]
        · simp [Edge.strip, Edge.stripL, view_ofDict]
        · intro p hp; simp [Edge.parents] at hp
        · simp [Edge.depth, Edge.depthL]
      | cons p ps =>
        refine ⟨.mk oid index L R name theta (ArrAttr.ofDict U.view) ps' D tau likelihood neighbors, ?_, ?_, rfl, ?_, ?_⟩
        · simp only [Edge.toDictL] at hps
          simp [Edge.toDict, edgeFromDict, lookup, hps]
        · simp only [Edge.strip, view_ofDict, hstrip]
        · intro q hq; exact hoids q hq
        · simp only [Edge.depth, hdep]
private theorem edges_trip : ∀ (es : List Edge) (n : Nat) (oid : Oid) (i : Nat), Edge.depthL es ≤ n →
    ∃ es', edgesFromDict n oid i (Edge.toDictL es) = some es' ∧ Edge.stripL es' = Edge.stripL es ∧
      (∀ p ∈ es', ∃ j, p.oid = oid ++ [j]) ∧ Edge.depthL es' = Edge.depthL es ∧
      (∀ e ∈ es', ∀ p ∈ e.parents, ∃ j, p.oid = e.oid ++ [j])
  | [], n, oid, i, _ => ⟨[], by simp [Edge.toDictL, edgesFromDict], rfl, by simp, rfl, by simp⟩
  | e :: es, n, oid, i, hn => by
    simp only [Edge.depthL] at hn
    obtain ⟨e', he, hs, ho, hpar, hd⟩ := edge_trip e n (oid ++ [i]) (by omega)
    obtain ⟨es', hes, hss, hos, hds, hpars⟩ := edges_trip es n oid (i + 1) (by omega)
    refine ⟨e' :: es', ?_, ?_, ?_, ?_, ?_⟩
    · simp [Edge.toDictL, edgesFromDict, he, hes]
    · simp [Edge.stripL, hs, hss]
    · intro p hp
      simp at hp
      rcases hp with rfl | hp
      · exact ⟨i, ho⟩
      · exact hos p hp
    · simp [Edge.depthL, hd, hds]
    · intro e'' he'' p hp
      simp at he''
      rcases he'' with rfl | he''
      · rw [ho]; exact hpar p hp
      · exact hpars e'' he'' p hp
end

mutual
private theorem depth_le_vdepth : ∀ (e : Edge), e.depth ≤ vdepth (Edge.toDict e)
  | .mk o index L R name theta U parents D tau likelihood neighbors => by
    have := depthL_le_vdepthL parents
    cases parents with
    | nil => simp [Edge.depth, Edge.depthL, Edge.toDict, vdepth, vdepthD]
    | cons p ps =>
      simp only [Edge.toDictL, vdepthL] at this
      simp only [Edge.depth, Edge.toDict, vdepth, vdepthD, vdepthL]
      omega
private theorem depthL_le_vdepthL : ∀ (es : List Edge), Edge.depthL es ≤ vdepthL (Edge.toDictL es)
  | [] => by simp [Edge.depthL, Edge.toDictL, vdepthL]
  | e :: es => by
    have h1 := depth_le_vdepth e
    have h2 := depthL_le_vdepthL es
    simp only [Edge.depthL, Edge.toDictL, vdepthL]
    omega
end

/-- the link a tree at a position after `previous` must have. -/
private def linkOf (previous : Option Nat) : Prev :=
  match previous with
  | some p => Prev.link p
  | Option.none => Prev.none

private theorem tree_trip (t : Tree) (pos : Nat) (previous : Option Nat) (hf : t.fitted = true)
    (hprev : (isLevelOne t.level = true ∧ ∃ m, t.previous = Prev.matrix m) ∨
             (isLevelOne t.level = false ∧ t.previous = linkOf previous)) :
    ∃ t', treeFromDict pos previous (Tree.toDict t) = some t' ∧ t'.strip = t.strip ∧ t'.fitted = true ∧
      t'.level = t.level ∧
      ((isLevelOne t.level = true ∧ ∃ m, t'.previous = Prev.matrix m) ∨
       (isLevelOne t.level = false ∧ t'.previous = linkOf previous)) ∧
      (∀ e ∈ t'.edges, ∃ j, e.oid = [pos, j]) ∧
      (∀ e ∈ t'.edges, ∀ p ∈ e.parents, ∃ j, p.oid = e.oid ++ [j]) := by
  obtain ⟨es', hes, hss, hos, _, hpars⟩ :=
    edges_trip t.edges (vdepth (.list (Edge.toDictL t.edges))) [pos] 0
      (by have := depthL_le_vdepthL t.edges; simp only [vdepth]; omega)
  rcases hprev with ⟨hl, m, hm⟩ | ⟨hl, hp⟩
  · refine ⟨{ treeType := t.treeType, fitted := true, level := t.level, nNodes := t.nNodes,
               tauMatrix := ArrAttr.ofDict t.tauMatrix.view, previous := Prev.matrix (ArrAttr.ofDict m.view),
               edges := es' }, ?_, ?_, rfl, rfl, Or.inl ⟨hl, _, rfl⟩, ?_, hpars⟩
    · simp [Tree.toDict, hf, treeFromDict, lookup, hl, hm, hes]
    · simp [Tree.strip, hf, hm, view_ofDict, hss]
    · intro e he; obtain ⟨j, hj⟩ := hos e he; exact ⟨j, by simpa using hj⟩
  · refine ⟨{ treeType := t.treeType, fitted := true, level := t.level, nNodes := t.nNodes,
               tauMatrix := ArrAttr.ofDict t.tauMatrix.view, previous := linkOf previous,
               edges := es' }, ?_, ?_, rfl, rfl, Or.inr ⟨hl, rfl⟩, ?_, hpars⟩
    · cases previous <;> simp [Tree.toDict, hf, treeFromDict, lookup, hl, hes, linkOf]
    · cases previous <;> simp [Tree.strip, hf, view_ofDict, hss, linkOf, hp]
    · intro e he; obtain ⟨j, hj⟩ := hos e he; exact ⟨j, by simpa using hj⟩

/-- every edge object of these trees has a 2-component identity, every parent object a 3-component one. -/
private def FreshParents (ts : List Tree) : Prop :=
  ∀ t ∈ ts, (∀ e ∈ t.edges, e.oid.length = 2) ∧ (∀ e ∈ t.edges, ∀ p ∈ e.parents, p.oid.length = 3)

private theorem trees_trip : ∀ (ts : List Tree) (pos : Nat) (previous : Option Nat),
    (pos ≠ 0 → previous = some (pos - 1)) → TreesWF pos ts →
    ∃ ts', treesFromDict pos previous (ts.map Tree.toDict) = some ts' ∧ ts'.map Tree.strip = ts.map Tree.strip ∧
      TreesWF pos ts' ∧ FreshParents ts'
  | [], _, _, _, _ => ⟨[], by simp [treesFromDict], rfl, trivial, by intro t ht; simp at ht⟩
  | t :: ts, pos, previous, hpp, h => by
    obtain ⟨hf, h0, h1, hrest⟩ := h
    have hprev : (isLevelOne t.level = true ∧ ∃ m, t.previous = Prev.matrix m) ∨
        (isLevelOne t.level = false ∧ t.previous = linkOf previous) := by
      by_cases hz : pos = 0
      · exact Or.inl (h0 hz)
      · refine Or.inr ⟨(h1 hz).1, ?_⟩
        rw [(h1 hz).2, hpp hz]; rfl
    obtain ⟨t', ht, hs, hf', hl', hprev', ho, hpar⟩ := tree_trip t pos previous hf hprev
    obtain ⟨ts', hts, hss, hwf, hfresh⟩ := trees_trip ts (pos + 1) (some pos) (fun _ => by simp) hrest
    refine ⟨t' :: ts', ?_, ?_, ?_, ?_⟩
    · simp [treesFromDict, ht, hts]
    · simp [hs, hss]
    · refine ⟨hf', ?_, ?_, hwf⟩
      · intro hz
        rcases hprev' with ⟨a, b⟩ | ⟨a, _⟩
        · exact ⟨by rw [hl']; exact a, b⟩
        · rw [(h0 hz).1] at a; exact absurd a (by simp)
      · intro hz
        rcases hprev' with ⟨a, _⟩ | ⟨a, b⟩
        · rw [(h1 hz).1] at a; exact absurd a (by simp)
        · refine ⟨by rw [hl']; exact a, ?_⟩
          rw [b, hpp hz]; rfl
    · intro x hx
      simp at hx
      rcases hx with rfl | hx
      · refine ⟨?_, ?_⟩
        · intro e he; obtain ⟨j, hj⟩ := ho e he; simp [hj]
        · intro e he q hq
          obtain ⟨j, hj⟩ := ho e he
          obtain ⟨i, hi⟩ := hpar e he q hq
          simp [hi, hj]
      · exact hfresh x hx

private theorem unis_trip (fams : List Family) (us : List Uni) (h : ∀ u ∈ us, UniWF fams u) :
    ∃ ds us', us.mapM Uni.toDict = some ds ∧ ds.mapM (uniFromDict fams) = some us' ∧
      us'.map Uni.obs = us.map Uni.obs ∧ ∀ u ∈ us', UniWF fams u := by
  induction us with
  | nil => exact ⟨[], [], by simp, by simp, by simp, by simp⟩
  | cons u us ih =>
    obtain ⟨d, u', hd, hf, ho, hw⟩ := uni_trip fams u (h u (by simp))
    obtain ⟨ds, us', hds, hus, hos, hws⟩ := ih (fun r' hr' => h r' (by simp [hr']))
    refine ⟨d :: ds, u' :: us', ?_, ?_, ?_, ?_⟩
    · simp [List.mapM_cons, hd, hds]
    · simp [List.mapM_cons, hf, hus]
    · simp [ho, hos]
    · intro x hx
      simp at hx
      rcases hx with rfl | hx
      · exact hw
      · exact hws x hx

private theorem vine_trip (fams : List Family) (s : Vine) (h : VineWF fams s) :
    ∃ d s', s.toDict = some d ∧ vineFromDict fams d = some s' ∧ s'.obs = s.obs ∧ VineWF fams s' ∧
      (s.fitted = true → FreshParents s'.trees) := by
  by_cases hf : s.fitted = true
  · obtain ⟨hne, htw⟩ := h.trees hf
    obtain ⟨ds, us', hds, hus, hos, hws⟩ := unis_trip fams s.unis (h.unis hf)
    obtain ⟨ts', hts, hss, hwf, hfresh⟩ := trees_trip s.trees 0 Option.none (fun h => absurd rfl h) htw
    cases htr : s.trees with
    | nil => exact absurd htr hne
    | cons t0 ts =>
      rw [htr] at hts hss
      have hne' : ts' ≠ [] := by
        intro hnil; rw [hnil] at hss; simp at hss
      refine ⟨_, { vineType := s.vineType, fitted := true, nSample := s.nSample, nVar := s.nVar, depth := s.depth,
                   truncated := s.truncated, trees := ts', tauMat := ArrAttr.ofDict s.tauMat.view,
                   uMatrix := ArrAttr.ofDict s.uMatrix.view, unis := us', columns := s.columns },
        by simp only [Vine.toDict, hf, if_true, hds, Option.map_some]; rfl, ?_, ?_, ?_, fun _ => hfresh⟩
      · simp only [List.map_cons] at hts
        simp [vineFromDict, lookup, htr, hts, hus]
      · simp [Vine.obs, hf, view_ofDict, hss, hos, htr]
      · exact ⟨fun _ => ⟨hne', hwf⟩, fun _ => hws⟩
  · have hf' : s.fitted = false := by simpa using hf
    refine ⟨_, { vineType := s.vineType, fitted := false, nSample := .none, nVar := .none, depth := .none,
                 truncated := .none, trees := [], tauMat := .absent, uMatrix := .absent, unis := [],
                 columns := .none },
      by simp only [Vine.toDict, hf', Bool.false_eq_true, if_false]; rfl, ?_, ?_, ?_, fun h => absurd h hf⟩
    · simp [vineFromDict, lookup]
    · simp [Vine.obs, hf']
    · exact ⟨fun h => by simp at h, fun h => by simp at h⟩

private theorem lookup_fitConstant (F : Family) (c : Num) (n : Nat) (fit : Dict) (k : String) :
    lookup (fitConstantParams F c n fit) k = (lookupC F.fitConstant k).map (evalCExpr c n fit k) := by
  unfold fitConstantParams
  induction F.fitConstant with
  | nil => simp [lookup, lookupC]
  | cons kv r ih =>
    obtain ⟨k', e⟩ := kv
    simp only [List.map_cons, lookup, lookupC]
    by_cases hk : k' = k
    · simp [hk]
    · simp [hk, ih]

private theorem num_same_self (c : Num) : c.same c = true := by
  cases c with
  | f b =>
    by_cases h : (Num.f b).isNaN = true
    · simp [Num.same, h]
    · simp [Num.same, Num.eq, h]
  | i a => simp [Num.same, Num.eq]

private theorem num_eq_self (c : Num) (h : c.isNaN = false) : c.eq c = true := by
  cases c with
  | f b => simp [Num.eq, h]
  | i a => simp [Num.eq]

private theorem flatNumsL_replicate (n : Nat) (c : Num) :
    flatNumsL (List.replicate n (V.num c)) = List.replicate n c := by
  induction n with
  | zero => simp [flatNumsL]
  | succ n ih => simp [List.replicate_succ, flatNumsL, flatNums, ih]

private theorem zeroExpr_eval (e : CExpr) (h : zeroExpr e = true) (c : Num) (n : Nat) (fit : Dict) (k : String) :
    ∃ t, evalCExpr c n fit k e = V.num t ∧ t.isZero = true := by
  cases e with
  | lit t => exact ⟨t, rfl, h⟩
  | constMinusConst => exact ⟨.f 0, rfl, by decide⟩
  | theConstant => simp [zeroExpr] at h
  | repeatConstant => simp [zeroExpr] at h
  | fromFit => simp [zeroExpr] at h

/-- the parameters `_fit_constant` writes are detected as constant with the data's constant. -/
private theorem detect_fitConstant (F : Family) (hc : constCheck F = true) (c : Num) (hnan : c.isNaN = false)
    (n : Nat) (hn : 0 < n) (fit : Dict) :
    detectConstant F (fitConstantParams F c n fit) = some (some (V.num c)) := by
  unfold constCheck at hc
  unfold detectConstant evalConstRule evalExtract
  cases hr : F.isConstant with
  | keyEqZero k =>
    cases he : F.extract with
    | key k2 =>
      rw [hr, he] at hc
      simp only [Bool.and_eq_true, beq_iff_eq] at hc
      obtain ⟨h1, h2⟩ := hc
      cases hk : lookupC F.fitConstant k with
      | none => simp [hk] at h1
      | some e =>
        simp only [hk] at h1
        obtain ⟨t, ht, hz⟩ := zeroExpr_eval e h1 c n fit k
        simp only [lookup_fitConstant, hk, h2, Option.map_some, ht]
        simp [hz, evalCExpr]
    | keyFirst k2 => rw [hr, he] at hc; simp at hc
  | keysEqual a b =>
    cases he : F.extract with
    | key k2 =>
      rw [hr, he] at hc
      simp only [Bool.and_eq_true, beq_iff_eq] at hc
      obtain ⟨⟨h1, h2⟩, h3⟩ := hc
      simp [lookup_fitConstant, h1, h2, h3, evalCExpr, num_eq_self c hnan]
    | keyFirst k2 => rw [hr, he] at hc; simp at hc
  | uniqueLenOne k =>
    cases he : F.extract with
    | key k2 => rw [hr, he] at hc; simp at hc
    | keyFirst k2 =>
      rw [hr, he] at hc
      simp only [Bool.and_eq_true, beq_iff_eq] at hc
      obtain ⟨h1, h2⟩ := hc
      subst h1
      obtain ⟨m, rfl⟩ : ∃ m, n = m + 1 := ⟨n - 1, by omega⟩
      simp [lookup_fitConstant, h2, evalCExpr, flatNums, flatNumsL, flatNumsL_replicate, List.replicate_succ,
        uniqueLenOne, num_same_self]

/-! ## public theorems -/

/-! ### JSON -/

/-- `json.loads(json.dumps(v)) == v` on the JSON-able sub-grammar (numbers are opaque tokens:
    Python writes `float.__repr__`, which reads back to the same binary64). -/
theorem json_roundtrip (v : V) (h : isJson v = true) : jsonThrough v = some v := by
  have := parse_enc v h (enc v).length [] (Nat.le_refl _)
  simp only [List.append_nil] at this
  simp [jsonThrough, jsonEncode, h, jsonDecode, this]

/-- outside the sub-grammar `json.dumps` raises. -/
theorem json_rejects (v : V) (h : isJson v = false) : jsonEncode v = Option.none := by
  simp [jsonEncode, h]

private theorem isJsonD_append (a b : Dict) : isJsonD (a ++ b) = (isJsonD a && isJsonD b) := by
  induction a with
  | nil => simp [isJsonD]
  | cons kv r ih => obtain ⟨k, v⟩ := kv; simp [isJsonD, ih, Bool.and_assoc]

/-- leaves of a model's dict that come from the data / the caller: parameters, theta, tau,
    column labels, correlation entries. -/
def UniRef.params : UniRef → Option Dict
  | .plain u => u.params
  | .wrapped w => w.inst.bind (·.params)

def JsonLeaves : Model → Prop
  | .uni u => ∀ p, u.params = some p → isJsonD p = true
  | .wrapper w => ∀ u p, w.inst = some u → u.params = some p → isJsonD p = true
  | .biv b => isJson b.theta = true ∧ isJson b.tau = true
  | .gauss g => isJson g.columns = true ∧ isJson g.correlation = true ∧
      ∀ r ∈ g.univariates, ∀ p, UniRef.params r = some p → isJsonD p = true
  | .vine _ => False

private theorem uni_toDict_json (u : Uni) (d : V) (hd : u.toDict = some d)
    (h : ∀ p, u.params = some p → isJsonD p = true) : isJson d = true := by
  unfold Uni.toDict at hd
  split at hd
  · cases hp : u.params with
    | none => simp [hp] at hd
    | some p =>
      simp only [hp, Option.map_some, Option.some.injEq] at hd
      subst hd
      simp [isJson, insertNew, isJsonD_append, h p hp, isJsonD]
  · simp at hd

private theorem wrapper_toDict_json (w : Wrapper) (d : V) (hd : w.toDict = some d)
    (h : ∀ u p, w.inst = some u → u.params = some p → isJsonD p = true) : isJson d = true := by
  unfold Wrapper.toDict at hd
  split at hd
  · cases hi : w.inst with
    | none => simp [hi] at hd
    | some u =>
      cases hp : u.params with
      | none => simp [hi, hp] at hd
      | some p =>
        simp only [hi, hp, Option.map_some, Option.some.injEq] at hd
        subst hd
        simp [isJson, insertNew, isJsonD_append, h u p hi hp, isJsonD]
  · simp at hd

private theorem unirefs_toDict_json : ∀ (rs : List UniRef) (ds : List V), rs.mapM UniRef.toDict = some ds →
    (∀ r ∈ rs, ∀ p, UniRef.params r = some p → isJsonD p = true) → isJsonL ds = true
  | [], ds, hd, _ => by simp at hd; subst hd; rfl
  | r :: rs, ds, hd, h => by
    simp only [List.mapM_cons] at hd
    cases hr : r.toDict with
    | none => simp [hr] at hd
    | some d =>
      cases hrs : rs.mapM UniRef.toDict with
      | none => simp [hr, hrs] at hd
      | some ds' =>
        simp [hr, hrs] at hd
        subst hd
        have h1 : isJson d = true := by
          cases r with
          | plain u =>
            exact uni_toDict_json u d hr (fun p hp => h (UniRef.plain u) (by simp) p (by simpa [UniRef.params] using hp))
          | wrapped w =>
            exact wrapper_toDict_json w d hr
              (fun u p hi hp => h (UniRef.wrapped w) (by simp) p (by simp [UniRef.params, hi, hp]))
        have h2 := unirefs_toDict_json rs ds' hrs (fun r' hr' => h r' (by simp [hr']))
        simp [isJsonL, h1, h2]

/-- `to_dict()` of a univariate (plain or wrapper), bivariate or Gaussian-multivariate model whose
    leaves are JSON-able (floats, ints, strings, lists of them) lands in the JSON-able sub-grammar,
    hence survives `json.loads(json.dumps(·))` unchanged — and `from_dict` of the decoded dict is
    `from_dict` of the original dict. -/
theorem json_roundtrip_models (T : Tables) (m : Model) (hl : JsonLeaves m) (d : V) (hd : m.toDict T = some d) :
    isJson d = true ∧ jsonThrough d = some d ∧
      (jsonThrough d).bind (fromDict T m.entry) = fromDict T m.entry d := by
  have hj : isJson d = true := by
    cases m with
    | uni u => exact uni_toDict_json u d hd hl
    | wrapper w => exact wrapper_toDict_json w d hd hl
    | biv b =>
      simp only [Model.toDict, Biv.toDict] at hd
      cases hm : T.biv.memberOf b.cls with
      | none => simp [hm] at hd
      | some mm =>
        simp only [hm, Option.map_some, Option.some.injEq] at hd
        subst hd
        simp [isJson, isJsonD, hl.1, hl.2]
    | gauss g =>
      simp only [Model.toDict, Gauss.toDict] at hd
      split at hd
      · cases hu : g.univariates.mapM UniRef.toDict with
        | none => simp [hu] at hd
        | some us =>
          simp only [hu, Option.map_some, Option.some.injEq] at hd
          subst hd
          have := unirefs_toDict_json g.univariates us hu hl.2.2
          simp [isJson, isJsonD, hl.1, hl.2.1, this]
      · simp at hd
    | vine s => exact absurd hl (by simp [JsonLeaves])
  exact ⟨hj, json_roundtrip d hj, by simp [json_roundtrip d hj]⟩

/-- a fitted vine's dict is *not* JSON-able (`tree_type` is a `TreeTypes` member; so are the edges'
    `name` (CopulaTypes), `D` (set) and `columns` (pandas Index)): `json.dumps` raises.  The
    property demands JSON only for univariate, bivariate and Gaussian-multivariate dicts. -/
theorem vine_not_json (s : Vine) (hf : s.fitted = true) (hne : s.trees ≠ []) (d : V) (hd : s.toDict = some d) :
    isJson d = false ∧ jsonEncode d = Option.none := by
  have : isJson d = false := by
    unfold Vine.toDict at hd
    simp only [hf, if_true] at hd
    cases hu : s.unis.mapM Uni.toDict with
    | none => simp [hu] at hd
    | some us =>
      simp only [hu, Option.map_some, Option.some.injEq] at hd
      subst hd
      cases ht : s.trees with
      | nil => exact absurd ht hne
      | cons t ts =>
        have h1 : isJson (Tree.toDict t) = false := by
          unfold Tree.toDict
          split <;> simp [isJson, isJsonD]
        simp [isJson, isJsonD, isJsonL, h1]
  exact ⟨this, json_rejects d this⟩

/-! ### round trips -/

/-- **Round trip.**  For every reachable state `m` of every class (`ModelWF`: see
    `CopVerif.Model.Serial` §8), `to_dict` succeeds, the entry point of `m`'s kind
    (`Univariate.from_dict`, `Bivariate.from_dict`, `GaussianMultivariate.from_dict`,
    `VineCopula.from_dict`) rebuilds a model
    with the same observable state, and that model is again a reachable state. -/
theorem roundtrip (T : Tables) (m : Model) (h : ModelWF T m) :
    ∃ d m', m.toDict T = some d ∧ fromDict T m.entry d = some m' ∧ m'.obs = m.obs ∧ ModelWF T m' ∧
      m'.entry = m.entry := by
  cases m with
  | uni u =>
    obtain ⟨d, u', hd, hf, ho, hw⟩ := uni_trip T.fams u h
    exact ⟨d, .uni u', hd, by simp [fromDict, Model.entry, hf], by simp [Model.obs, ho], hw, rfl⟩
  | wrapper w =>
    obtain ⟨d, u', hd, hf, ho, hw, _⟩ := wrapper_trip T.fams w h
    exact ⟨d, .uni u', hd, by simp [fromDict, Model.entry, hf], by simp [Model.obs, ho], hw, rfl⟩
  | biv b =>
    obtain ⟨d, hd, hf⟩ := biv_trip T b h
    exact ⟨d, .biv b, hd, by simp [fromDict, Model.entry, hf], rfl, h, rfl⟩
  | gauss g =>
    obtain ⟨d, g', hd, hf, ho, hw⟩ := gauss_trip T.fams g h
    exact ⟨d, .gauss g', hd, by simp [fromDict, Model.entry, hf], by simp [Model.obs, ho], hw, rfl⟩
  | vine s =>
    obtain ⟨d, s', hd, hf, ho, hw, _⟩ := vine_trip T.fams s h
    exact ⟨d, .vine s', hd, by simp [fromDict, Model.entry, hf], by simp [Model.obs, ho], hw, rfl⟩

/-- **Any number of round trips** (induction on the number of trips). -/
theorem roundtrip_iter (T : Tables) (n : Nat) (m : Model) (h : ModelWF T m) :
    ∃ m', tripN T n m = some m' ∧ m'.obs = m.obs ∧ ModelWF T m' := by
  induction n generalizing m with
  | zero => exact ⟨m, rfl, rfl, h⟩
  | succ n ih =>
    obtain ⟨d, m1, hd, hf, ho, hw, he⟩ := roundtrip T m h
    obtain ⟨m2, h2, ho2, hw2⟩ := ih m1 hw
    exact ⟨m2, by simp [tripN, trip, hd, hf, h2], by rw [ho2, ho], hw2⟩

/-- the selecting `Univariate` wrapper serialises as, and is rebuilt as, the family it selected,
    with the wrapper's observable behaviour. -/
theorem wrapper_reconstructs_selected (fams : List Family) (w : Wrapper) (h : WrapperWF fams w) :
    ∃ d u' u, w.toDict = some d ∧ uniFromDict fams d = some u' ∧ w.inst = some u ∧ u'.fam = u.fam ∧
      some u'.obs = w.obs ∧ u.toDict = some d := by
  obtain ⟨d, u', hd, hf, ho, _, u, hu, hfam⟩ := wrapper_trip fams w h
  refine ⟨d, u', u, hd, hf, hu, hfam, ho, ?_⟩
  obtain ⟨u0, hu0, hwf⟩ := h.inst
  rw [hu] at hu0
  cases hu0
  simp only [Wrapper.toDict, h.fitted, if_true, hu] at hd
  simp [Uni.toDict, hwf.fitted, hd]

/-- unfitted models: a bivariate copula (`theta = None`) and an unfitted vine round-trip to
    unfitted models; `to_dict` of an unfitted univariate / Gaussian model raises `NotFittedError`
    (they can only be saved through `pickle`). -/
theorem unfitted_roundtrip (T : Tables) :
    (∀ b, BivWF T b → b.theta = V.none → ∃ d b', b.toDict T.biv = some d ∧
        bivFromDict T.upper T.biv d = some b' ∧ b'.theta = V.none ∧ b' = b) ∧
    (∀ s : Vine, s.fitted = false → ∃ d s', s.toDict = some d ∧ vineFromDict T.fams d = some s' ∧
        s'.fitted = false ∧ s'.obs = s.obs) ∧
    (∀ u : Uni, u.fitted = false → u.toDict = Option.none) ∧
    (∀ w : Wrapper, w.fitted = false → w.toDict = Option.none) ∧
    (∀ g : Gauss, g.fitted = false → g.toDict = Option.none) := by
  refine ⟨?_, ?_, ?_, ?_, ?_⟩
  · intro b hb hth
    obtain ⟨d, hd, hf⟩ := biv_trip T b hb
    exact ⟨d, b, hd, hf, hth, rfl⟩
  · intro s hs
    have hw : VineWF T.fams s := ⟨fun h => by simp [hs] at h, fun h => by simp [hs] at h⟩
    obtain ⟨d, s', hd, hf, ho, _, _⟩ := vine_trip T.fams s hw
    refine ⟨d, s', hd, hf, ?_, ho⟩
    have : s'.obs.fitted = s.obs.fitted := by rw [ho]
    simp only [Vine.obs, hs] at this
    by_cases hs' : s'.fitted = true
    · simp [hs'] at this
    · simpa using hs'
  · intro u hu; simp [Uni.toDict, hu]
  · intro w hw; simp [Wrapper.toDict, hw]
  · intro g hg; simp [Gauss.toDict, hg]

/-! ### dispatch -/

private theorem find_family_qual (fams : List Family) (q : String) (F : Family)
    (h : findFamily fams q = some F) : F.qual = q := by
  unfold findFamily at h
  have := List.find?_some h
  simpa using this

/-- **Dispatch.**  The generic entry points build the class named in the dict:
    `Univariate.from_dict` the family whose qualified name is `d['type']`,
    `Bivariate.from_dict` the subclass whose `copula_type` is the member `d['copula_type'].upper()`,
    `Multivariate.from_dict` a Gaussian or a vine according to `d['type']` (in the former
    `get_instance` shape only if the named class can be instantiated without arguments; see
    `generic_dispatch_multivariate`). -/
theorem dispatch (T : Tables) (d : V) :
    (∀ u, uniFromDict T.fams d = some u →
        ∃ kvs q, d = .dict kvs ∧ lookup kvs "type" = some (.str q) ∧ u.fam.qual = q ∧ u.fitted = true) ∧
    (∀ b, bivFromDict T.upper T.biv d = some b →
        ∃ kvs s, d = .dict kvs ∧ lookup kvs "copula_type" = some (.str s) ∧
          T.biv.classOf (T.upper s) = some b.cls) ∧
    (∀ m, multivariateFromDict T d = some m →
        ∃ kvs q, d = .dict kvs ∧ lookup kvs "type" = some (.str q) ∧
          ((q = gaussQual ∧ (!T.multiInstantiates || T.gaussNoArg) = true ∧ ∃ g, m = .gauss g) ∨
           (q = vineQual ∧ (!T.multiInstantiates || T.vineNoArg) = true ∧ ∃ s, m = .vine s))) := by
  refine ⟨?_, ?_, ?_⟩
  · intro u hu
    cases d with
    | dict kvs =>
      simp only [uniFromDict] at hu
      cases ht : lookup kvs "type" with
      | none => simp [ht] at hu
      | some tv =>
        cases tv with
        | str q =>
          simp only [ht] at hu
          cases hF : findFamily T.fams q with
          | none => simp [hF] at hu
          | some F =>
            simp only [hF, setParams, freshUni] at hu
            cases hdet : detectConstant F (erase kvs "type") with
            | none => simp [hdet] at hu
            | some c =>
              simp only [hdet, Option.map_some, Option.some.injEq] at hu
              subst hu
              exact ⟨kvs, q, rfl, ht, find_family_qual _ _ _ hF, rfl⟩
        | _ => simp [ht] at hu
    | _ => simp [uniFromDict] at hu
  · intro b hb
    cases d with
    | dict kvs =>
      simp only [bivFromDict] at hb
      cases hc : lookup kvs "copula_type" with
      | none => simp [hc] at hb
      | some cv =>
        cases cv with
        | str s =>
          cases hth : lookup kvs "theta" with
          | none => simp [hc, hth] at hb
          | some th =>
            cases hta : lookup kvs "tau" with
            | none => simp [hc, hth, hta] at hb
            | some ta =>
              simp only [hc, hth, hta] at hb
              split at hb
              · cases hcl : T.biv.classOf (T.upper s) with
                | none => simp [hcl] at hb
                | some c =>
                  simp only [hcl, Option.map_some, Option.some.injEq] at hb
                  subst hb
                  exact ⟨kvs, s, rfl, hc, hcl⟩
              · simp at hb
        | _ => simp [hc] at hb
    | _ => simp [bivFromDict] at hb
  · intro m hm
    cases d with
    | dict kvs =>
      simp only [multivariateFromDict] at hm
      cases ht : lookup kvs "type" with
      | none => simp [ht] at hm
      | some tv =>
        cases tv with
        | str q =>
          simp only [ht] at hm
          by_cases hg : q = gaussQual
          · simp only [hg, if_true] at hm
            by_cases hn : (!T.multiInstantiates || T.gaussNoArg) = true
            · simp only [hn, if_true] at hm
              cases hgf : gaussFromDict T.fams (.dict kvs) with
              | none => simp [hgf] at hm
              | some g => simp [hgf] at hm; exact ⟨kvs, q, rfl, ht, Or.inl ⟨hg, hn, g, hm.symm⟩⟩
            · simp [hn] at hm
          · simp only [hg, if_false] at hm
            by_cases hv : q = vineQual
            · simp only [hv, if_true] at hm
              by_cases hn : (!T.multiInstantiates || T.vineNoArg) = true
              · simp only [hn, if_true] at hm
                cases hvf : vineFromDict T.fams (.dict kvs) with
                | none => simp [hvf] at hm
                | some s => simp [hvf] at hm; exact ⟨kvs, q, rfl, ht, Or.inr ⟨hv, hn, s, hm.symm⟩⟩
              · simp [hn] at hm
            · simp [hv] at hm
        | _ => simp [ht] at hm
    | _ => simp [multivariateFromDict] at hm

/-- **Generic multivariate dispatch** (any tables).  `Multivariate.from_dict(d)` on the dict of a
    Gaussian model / of a vine is the class's own `from_dict(d)` — unless the entry point is of
    the former shape `get_instance(d['type']).from_dict(d)` (`multiInstantiates`), which first
    calls the named class *without arguments* and therefore raises `TypeError` for a class whose
    constructor requires one. -/
theorem generic_dispatch_multivariate (T : Tables) :
    (∀ (g : Gauss) d, g.toDict = some d →
        fromDict T .multivariate d =
          if !T.multiInstantiates || T.gaussNoArg then fromDict T .gaussian d else Option.none) ∧
    (∀ (s : Vine) d, s.toDict = some d →
        fromDict T .multivariate d =
          if !T.multiInstantiates || T.vineNoArg then fromDict T .vine d else Option.none) := by
  have hne : vineQual ≠ gaussQual := by decide
  refine ⟨?_, ?_⟩
  · intro g d hd
    unfold Gauss.toDict at hd
    split at hd
    · cases hu : g.univariates.mapM UniRef.toDict with
      | none => simp [hu] at hd
      | some us =>
        simp only [hu, Option.map_some, Option.some.injEq] at hd
        subst hd
        simp only [fromDict, multivariateFromDict, lookup]
        simp
    · simp at hd
  · intro s d hd
    unfold Vine.toDict at hd
    split at hd
    · cases hu : s.unis.mapM Uni.toDict with
      | none => simp [hu] at hd
      | some us =>
        simp only [hu, Option.map_some, Option.some.injEq] at hd
        subst hd
        simp only [fromDict, multivariateFromDict, List.cons_append, List.nil_append, lookup]
        simp [hne]
    · simp only [Option.some.injEq] at hd
      subst hd
      simp only [fromDict, multivariateFromDict, lookup]
      simp [hne]

/-- **Generic dispatch at full strength for the code as it is** (regression theorem): with the
    generated tables, `Multivariate.from_dict` equals `GaussianMultivariate.from_dict` on every
    Gaussian dict and `VineCopula.from_dict` on every vine dict (fitted or not), so the generic
    entry point round-trips every reachable Gaussian model and vine.  The first conjunct is the
    decidable fact about the source that makes it so: the entry point does not instantiate the
    class, or both constructors can be called without arguments.  If `Multivariate.from_dict`
    goes back to `get_instance(…)` while `VineCopula.__init__` requires `vine_type`, this theorem
    no longer checks. -/
theorem generic_dispatch_generated (upper : String → String) :
    ((!multiDispatchInstantiates || gaussCtorNoArgs) = true ∧ (!multiDispatchInstantiates || vineCtorNoArgs) = true) ∧
    (∀ (g : Gauss) d, g.toDict = some d →
        fromDict (genTables upper) .multivariate d = fromDict (genTables upper) .gaussian d) ∧
    (∀ (s : Vine) d, s.toDict = some d →
        fromDict (genTables upper) .multivariate d = fromDict (genTables upper) .vine d) ∧
    (∀ m, ModelWF (genTables upper) m → m.entry = .gaussian ∨ m.entry = .vine →
        ∃ d m', m.toDict (genTables upper) = some d ∧ fromDict (genTables upper) .multivariate d = some m' ∧
          m'.obs = m.obs) := by
  have hflags : (!multiDispatchInstantiates || gaussCtorNoArgs) = true ∧
      (!multiDispatchInstantiates || vineCtorNoArgs) = true := by decide
  have hg : ∀ (g : Gauss) d, g.toDict = some d →
      fromDict (genTables upper) .multivariate d = fromDict (genTables upper) .gaussian d := by
    intro g d hd
    rw [(generic_dispatch_multivariate (genTables upper)).1 g d hd]
    have : (!(genTables upper).multiInstantiates || (genTables upper).gaussNoArg) = true := hflags.1
    simp [this]
  have hv : ∀ (s : Vine) d, s.toDict = some d →
      fromDict (genTables upper) .multivariate d = fromDict (genTables upper) .vine d := by
    intro s d hd
    rw [(generic_dispatch_multivariate (genTables upper)).2 s d hd]
    have : (!(genTables upper).multiInstantiates || (genTables upper).vineNoArg) = true := hflags.2
    simp [this]
  refine ⟨hflags, hg, hv, ?_⟩
  intro m hw he
  obtain ⟨d, m', hd, hf, ho, _, _⟩ := roundtrip (genTables upper) m hw
  refine ⟨d, m', hd, ?_, ho⟩
  cases m with
  | gauss g => rw [hg g d hd]; exact hf
  | vine s => rw [hv s d hd]; exact hf
  | uni u => simp [Model.entry] at he
  | wrapper w => simp [Model.entry] at he
  | biv b => simp [Model.entry] at he

/-- **The former defect, as a statement about the former shape** (fixed in the repository: the
    entry point no longer instantiates).  With an instantiating entry point and a vine
    constructor that needs an argument, the generic entry point fails on the dict of *every* vine
    while the class's own entry point rebuilds it. -/
theorem generic_dispatch_vine_counterexample (T : Tables) (hI : T.multiInstantiates = true)
    (hT : T.vineNoArg = false) (s : Vine) (h : VineWF T.fams s) :
    ∃ d s', s.toDict = some d ∧ fromDict T .vine d = some (.vine s') ∧ fromDict T .multivariate d = Option.none := by
  obtain ⟨d, s', hd, hf, _, _, _⟩ := vine_trip T.fams s h
  refine ⟨d, s', hd, by simp [fromDict, hf], ?_⟩
  rw [(generic_dispatch_multivariate T).2 s d hd]
  simp [hI, hT]

/-- the generated tables are dispatch-complete: every family is found under its own qualified
    name (no two families share one), every `CopulaTypes` member has exactly the subclass that
    declares it, and the two multivariate names differ. -/
theorem dispatch_tables :
    (∀ F ∈ families, findFamily families F.qual = some F) ∧
    (∀ c ∈ bivClasses, bivTable.memberOf c.1 = some c.2 ∧ bivTable.classOf c.2 = some c.1 ∧ c.2 ∈ copulaMembers) ∧
    (∀ m ∈ copulaMembers, (bivTable.classOf m).isSome = true) ∧
    gaussQual ≠ vineQual ∧ univariateTypeKey = "type" ∧ multivariateDispatchKey = "type" := by
  refine ⟨by decide, by decide, by decide, by decide, rfl, by decide⟩

/-! ### constants -/

/-- **Constant models come back constant with the same value**, for every family whose
    `_fit_constant` table passes the syntactic check `constCheck` (the key `_is_constant` tests is
    written as zero / the two compared keys are both the constant / the dataset is the repeated
    constant, and the key `_extract_constant` returns holds the data's constant).
    `c` must not be NaN (`a == b` is false for NaN), the sample count is positive. -/
theorem constant_roundtrip (fams : List Family) (F : Family) (hmem : findFamily fams F.qual = some F)
    (hc : constCheck F = true) (htype : lookupC F.fitConstant "type" = Option.none)
    (opts : Dict) (c : Num) (hnan : c.isNaN = false) (n : Nat) (hn : 0 < n) (fit : Dict) :
    ∃ d u', (fitConstantState F opts c n fit).toDict = some d ∧ uniFromDict fams d = some u' ∧
      u'.constant = some (V.num c) ∧ u'.fam = F ∧ u'.fitted = true ∧
      u'.params = (fitConstantState F opts c n fit).params ∧
      u'.obs = (fitConstantState F opts c n fit).obs := by
  have hw : UniWF fams (fitConstantState F opts c n fit) := by
    refine ⟨hmem, rfl, ⟨_, rfl, ?_, ?_⟩, ?_⟩
    · simp [lookup_fitConstant, htype]
    · exact detect_fitConstant F hc c hnan n hn fit
    · intro _ h; simp [fitConstantState] at h
  obtain ⟨d, u', hd, hf, ho, hw'⟩ := uni_trip fams _ hw
  refine ⟨d, u', hd, hf, ?_, ?_, hw'.fitted, ?_, ho⟩
  · have : u'.obs.constant = (fitConstantState F opts c n fit).obs.constant := by rw [ho]
    simpa [Uni.obs, fitConstantState] using this
  · have hq : u'.obs.qual = (fitConstantState F opts c n fit).obs.qual := by rw [ho]
    simp only [Uni.obs, fitConstantState] at hq
    have h1 := hw'.mem
    rw [hq, hmem] at h1
    exact (Option.some.inj h1).symm
  · have : u'.obs.params = (fitConstantState F opts c n fit).obs.params := by rw [ho]
    simpa [Uni.obs] using this

/-- every generated family passes the check, except (as found) `StudentTUnivariate`, whose
    `_fit_constant` keeps the `loc` that `scipy.stats.t.fit` returned for the constant data.  A
    repair that makes it pass does not break this theorem. -/
theorem constant_check_table :
    (∀ F ∈ families, constCheck F = true ∨ (F.name = "StudentTUnivariate" ∧ constFromFit F = true)) ∧
    (∀ F ∈ families, lookupC F.fitConstant "type" = Option.none ∧ ¬ "type" ∈ F.fitKeys) := by
  refine ⟨by decide, by decide⟩

/-- **Counter-example (as found).**  For a family of the `constFromFit` shape the constant after a
    round trip is whatever `_fit` stored under the extracted key, not the data's constant: the
    rebuilt model's `_constant_value` (hence cdf / percent_point / sample) differs from the
    original's whenever the optimiser did not return the constant exactly. -/
theorem constant_roundtrip_counterexample (fams : List Family) (F : Family)
    (hmem : findFamily fams F.qual = some F) (hs : constFromFit F = true)
    (htype : lookupC F.fitConstant "type" = Option.none) (opts : Dict) :
    ∃ (c : Num) (fit : Dict) (d : V) (u' : Uni), c.isNaN = false ∧
      (fitConstantState F opts c 1 fit).toDict = some d ∧ uniFromDict fams d = some u' ∧
      u'.constant ≠ (fitConstantState F opts c 1 fit).constant := by
  unfold constFromFit at hs
  cases hr : F.isConstant with
  | keyEqZero k =>
    cases he : F.extract with
    | key k2 =>
      rw [hr, he] at hs
      simp only [Bool.and_eq_true, beq_iff_eq] at hs
      obtain ⟨h1, h2⟩ := hs
      cases hk : lookupC F.fitConstant k with
      | none => simp [hk] at h1
      | some e =>
        simp only [hk] at h1
        -- data constantly 7.0, the optimiser returned the next float above 7.0
        let c : Num := .f 0x401C000000000000
        let fit : Dict := [(k2, V.num (.f 0x401C000000000001))]
        obtain ⟨t, ht, hz⟩ := zeroExpr_eval e h1 c 1 fit k
        have hdet : detectConstant F (fitConstantParams F c 1 fit) = some (some (V.num (.f 0x401C000000000001))) := by
          unfold detectConstant evalConstRule evalExtract
          rw [hr, he]
          simp only [lookup_fitConstant, hk, h2, Option.map_some, ht]
          simp [hz, evalCExpr, fit, lookup]
        have htl : lookup (fitConstantParams F c 1 fit) "type" = Option.none := by
          simp [lookup_fitConstant, htype]
        refine ⟨c, fit, V.dict (insertNew (fitConstantParams F c 1 fit) "type" (V.str F.qual)),
          { fam := F, fitted := true, params := some (fitConstantParams F c 1 fit),
            constant := some (V.num (.f 0x401C000000000001)), options := defaultOptions F }, by decide, ?_, ?_, ?_⟩
        · simp [Uni.toDict, fitConstantState]
        · simp [uniFromDict, lookup_insertNew_self _ "type" _ htl, hmem, erase_insertNew _ "type" _ htl,
            setParams, freshUni, hdet]
        · simp [fitConstantState, c]
    | keyFirst k2 => rw [hr, he] at hs; simp at hs
  | keysEqual a b => rw [hr] at hs; simp at hs
  | uniqueLenOne k => rw [hr] at hs; simp at hs

/-- **Counter-example (as found): constructor options of a model-rebuilding family are not
    serialised.**  For a family whose methods use `_model` and whose `_get_model` reads the option
    `k` (`GaussianKDE`: `bw_method`, `weights`), a fitted non-constant object built with a
    non-default `k` round-trips to an object whose model is rebuilt with the default: the
    observable states differ.  `roundtrip` therefore assumes default options (`UniWF.opts`). -/
theorem options_not_serialised_counterexample (fams : List Family) (F : Family)
    (hmem : findFamily fams F.qual = some F) (hu : F.usesModel = true) (k : String) (hk : k ∈ F.modelOptions)
    (p : Dict) (hp : detectConstant F p = some Option.none) (htype : lookup p "type" = Option.none) :
    ∃ (u : Uni) (d : V) (u' : Uni), u.fam = F ∧ u.fitted = true ∧ u.params = some p ∧ u.constant = Option.none ∧
      u.toDict = some d ∧ uniFromDict fams d = some u' ∧ u'.params = u.params ∧ u'.obs ≠ u.obs := by
  -- bw_method = 0.3
  let u : Uni := { fam := F, fitted := true, params := some p, constant := Option.none,
                   options := [(k, V.num (.f 0x3FD3333333333333))] }
  let u' : Uni := { fam := F, fitted := true, params := some p, constant := Option.none, options := defaultOptions F }
  refine ⟨u, V.dict (insertNew p "type" (V.str F.qual)), u', rfl, rfl, rfl, rfl, ?_, ?_, rfl, ?_⟩
  · simp [Uni.toDict, u]
  · simp [uniFromDict, lookup_insertNew_self p "type" _ htype, hmem, erase_insertNew p "type" _ htype,
      setParams, freshUni, hp, u']
  · intro h
    have h2 : u'.obs.modelOpts = u.obs.modelOpts := by rw [h]
    simp only [Uni.obs, u, u', hu, Option.isNone_none, Bool.and_self, if_true, Option.some.injEq] at h2
    have h3 := List.map_inj_left.mp h2 k hk
    simp only [Prod.mk.injEq, true_and] at h3
    rw [optionOf_default F _ rfl k] at h3
    simp [optionOf, lookup] at h3

/-- the generated table says which families are affected: exactly those that rebuild `_model`
    from constructor options (as found: `GaussianKDE` with `bw_method`, `weights`); every family
    whose methods read `_model` does rebuild it in `_set_params`; `from_dict` sets `fitted`. -/
theorem model_option_table :
    (∀ F ∈ families, F.usesModel = true → F.rebuildsModel = true) ∧
    (∀ F ∈ families, F.modelOptions ≠ [] → F.usesModel = true) ∧
    (∀ F ∈ families, ∀ k ∈ F.modelOptions, k ∈ F.ctorOptions) ∧
    univariateFromSetsFitted = true ∧ gaussianFromSetsFitted = true := by
  refine ⟨by decide, by decide, by decide, rfl, rfl⟩

/-! ### key tables -/

/-- two (key, attribute) tables describe the same set of pairs. -/
def samePairs (a b : List (String × String)) : Bool := a.all (b.contains ·) && b.all (a.contains ·)

/-- `Bivariate.to_dict` writes exactly the (key, attribute) pairs `Bivariate.from_dict` reads. -/
theorem keys_agree_bivariate : samePairs bivariateTo bivariateFrom = true := by decide

/-- `GaussianMultivariate`: written = read + the dispatch key `type` (read by
    `Multivariate.from_dict`); the correlation goes out as `.to_numpy().tolist()` and comes back
    through `pd.DataFrame(·, index=columns, columns=columns)` — no transposition on either side. -/
theorem keys_agree_gaussian :
    samePairs gaussianTo (gaussianFrom ++ [(multivariateDispatchKey, "self")]) = true ∧
    gaussianCorrelationTo = ["to_numpy", "tolist"] ∧ gaussianCorrelationFrom = ["DataFrame"] ∧
    gaussianToChecksFit = true := by decide

/-- `VineCopula`: an unfitted vine writes `type, vine_type, fitted`; a fitted one adds exactly the
    pairs `from_dict` reads under `if fitted`; `type` is only read by `Multivariate.from_dict`. -/
theorem keys_agree_vine :
    samePairs (vineHeadTo ++ vineRestTo) (vineFrom ++ [(multivariateDispatchKey, "self")]) = true ∧
    vineHeadTo.map (·.1) = ["type", "vine_type", "fitted"] ∧ vineFromControl = ["fitted"] := by decide

/-- `Tree`: written = read + the write-only key `type` (trees are rebuilt from `tree_type`). -/
theorem keys_agree_tree :
    samePairs (treeHeadTo ++ treeRestTo) (treeFrom ++ [("type", "self")]) = true ∧
    treeHeadTo.map (·.1) = ["tree_type", "type", "fitted"] ∧ treeFromControl = ["fitted", "level"] := by decide

/-- `Edge.to_dict` writes exactly the pairs `Edge.from_dict` reads. -/
theorem keys_agree_edge : samePairs edgeTo edgeFrom = true ∧ edgeUThroughArray = true := by decide

private theorem keys_append (a b : Dict) : keys (a ++ b) = keys a ++ keys b := by simp [keys]

/-- the hand-written model writes exactly the generated key lists, in the generated order. -/
theorem model_keys_match_generated :
    (∀ (b : Biv) d, b.toDict bivTable = some d → ∃ kvs, d = .dict kvs ∧ keys kvs = bivariateTo.map (·.1)) ∧
    (∀ (g : Gauss) d, Gauss.toDict g = some d → ∃ kvs, d = .dict kvs ∧ keys kvs = gaussianTo.map (·.1)) ∧
    (∀ e : Edge, ∃ kvs, Edge.toDict e = .dict kvs ∧ keys kvs = edgeTo.map (·.1)) ∧
    (∀ t : Tree, ∃ kvs, Tree.toDict t = .dict kvs ∧
        keys kvs = if t.fitted then (treeHeadTo ++ treeRestTo).map (·.1) else treeHeadTo.map (·.1)) ∧
    (∀ (s : Vine) d, Vine.toDict s = some d → ∃ kvs, d = .dict kvs ∧
        keys kvs = if s.fitted then (vineHeadTo ++ vineRestTo).map (·.1) else vineHeadTo.map (·.1)) ∧
    (∀ (u : Uni) d p, u.toDict = some d → u.params = some p → d = .dict (p ++ [(univariateTypeKey, .str u.fam.qual)])) := by
  refine ⟨?_, ?_, ?_, ?_, ?_, ?_⟩
  · intro b d hd
    simp only [Biv.toDict] at hd
    cases hm : bivTable.memberOf b.cls with
    | none => simp [hm] at hd
    | some m =>
      simp only [hm, Option.map_some, Option.some.injEq] at hd
      subst hd
      exact ⟨_, rfl, rfl⟩
  · intro g d hd
    unfold Gauss.toDict at hd
    split at hd
    · cases hu : g.univariates.mapM UniRef.toDict with
      | none => simp [hu] at hd
      | some us =>
        simp only [hu, Option.map_some, Option.some.injEq] at hd
        subst hd
        exact ⟨_, rfl, rfl⟩
    · simp at hd
  · intro e
    cases e with
    | mk o index L R name theta U parents D tau likelihood neighbors =>
      cases parents with
      | nil =>
        refine ⟨_, by simp only [Edge.toDict]; rfl, ?_⟩
        rfl
      | cons p ps =>
        refine ⟨_, by simp only [Edge.toDict]; rfl, ?_⟩
        rfl
  · intro t
    unfold Tree.toDict
    by_cases hf : t.fitted = true
    · simp only [hf, if_true]
      exact ⟨_, rfl, rfl⟩
    · have hf' : t.fitted = false := by simpa using hf
      simp only [hf', Bool.false_eq_true, if_false]
      exact ⟨_, rfl, rfl⟩
  · intro s d hd
    unfold Vine.toDict at hd
    by_cases hf : s.fitted = true
    · simp only [hf, if_true] at hd ⊢
      cases hu : s.unis.mapM Uni.toDict with
      | none => simp [hu] at hd
      | some us =>
        simp only [hu, Option.map_some, Option.some.injEq] at hd
        subst hd
        exact ⟨_, rfl, rfl⟩
    · have hf' : s.fitted = false := by simpa using hf
      simp only [hf', Bool.false_eq_true, if_false, Option.some.injEq] at hd ⊢
      subst hd
      exact ⟨_, rfl, rfl⟩
  · intro u d p hd hp
    unfold Uni.toDict at hd
    split at hd
    · simp only [hp, Option.map_some, Option.some.injEq] at hd
      subst hd
      rfl
    · simp at hd

/-! ### vines: parents are copies -/

private theorem stripL_map_D : ∀ (ps : List Edge), (Edge.stripL ps).map Edge.D = ps.map Edge.D
  | [] => rfl
  | p :: ps => by
    cases p with
    | mk o index L R name theta U parents D tau likelihood neighbors =>
      simp [Edge.stripL, Edge.strip, Edge.D, stripL_map_D ps]

private theorem views_of_strip (e : Edge) :
    e.strip.likelihoodView = e.likelihoodView ∧ e.strip.sampleView = e.sampleView := by
  cases e with
  | mk o index L R name theta U parents D tau likelihood neighbors =>
    refine ⟨?_, ?_⟩
    · simp [Edge.likelihoodView, Edge.strip, Edge.L, Edge.R, Edge.D, Edge.name, Edge.theta, Edge.parents,
        stripL_map_D]
    · simp [Edge.sampleView, Edge.strip, Edge.L, Edge.R, Edge.D, Edge.name, Edge.theta, Edge.index]

/-- **Partial: re-linking of a deserialised vine.**  What holds: a fitted vine round-trips to a
    vine with the same observable state (`Vine.obs`: scalars, matrices, marginals, and every tree
    with its edges *by value*, identities erased), `Tree.previous_tree` of tree `k > 0` is the
    rebuilt tree `k−1` (`TreesWF`), and `get_likelihood` / `_sample_row`, which read only
    `L, R, D, index, name, theta` of an edge and `D` of its parents, see the same values
    (`likelihoodView`, `sampleView` depend only on the identity-erased edge).
    What does **not** hold (hence `_partial`): object identity.  In a fitted vine
    `edge.parents[i]` *is* an edge object of the previous tree; after `from_dict` every parent is
    a fresh copy (`Edge.from_dict(parent)`): its identity differs from that of every edge object
    of every tree of the rebuilt vine, so an in-place change of a tree-`k` edge is no longer
    visible through the parents of tree `k+1`.
    Full-strength statements: `CopVerif.Props.C14b.vine_relink` (everything observable, the dict
    returned again, re-linking of parents BY VALUE) and
    `C14b.vine_relink_identity_counterexample` (re-linking by object identity is false). -/
theorem vine_relink_partial (fams : List Family) (s : Vine) (h : VineWF fams s) (hf : s.fitted = true) :
    ∃ d s', s.toDict = some d ∧ vineFromDict fams d = some s' ∧ s'.obs = s.obs ∧
      s'.trees.map Tree.strip = s.trees.map Tree.strip ∧ TreesWF 0 s'.trees ∧
      (∀ t ∈ s'.trees, ∀ e ∈ t.edges, ∀ p ∈ e.parents, ∀ t2 ∈ s'.trees, ∀ e2 ∈ t2.edges, p.oid ≠ e2.oid) ∧
      (∀ e e' : Edge, e'.strip = e.strip →
        e'.likelihoodView = e.likelihoodView ∧ e'.sampleView = e.sampleView) := by
  obtain ⟨d, s', hd, hfd, ho, hw, hfresh⟩ := vine_trip fams s h
  have hf' : s'.fitted = true := by
    have : s'.obs.fitted = s.obs.fitted := by rw [ho]
    simp only [Vine.obs, hf, if_true] at this
    by_cases hs' : s'.fitted = true
    · exact hs'
    · simp [hs'] at this
  refine ⟨d, s', hd, hfd, ho, ?_, (hw.trees hf').2, ?_, ?_⟩
  · have : s'.obs.trees = s.obs.trees := by rw [ho]
    simpa [Vine.obs, hf, hf'] using this
  · intro t ht e he p hp t2 ht2 e2 he2 heq
    have h3 := ((hfresh hf) t ht).2 e he p hp
    have h2 := ((hfresh hf) t2 ht2).1 e2 he2
    rw [heq, h2] at h3
    exact absurd h3 (by decide)
  · intro e e' hs
    have h1 := views_of_strip e
    have h2 := views_of_strip e'
    rw [hs] at h2
    exact ⟨h2.1.symm.trans h1.1, h2.2.symm.trans h1.2⟩

/-- the quirk behind `ArrAttr`: an edge whose `U` is `None` comes back with `U = np.array(None)`
    (a 0-d object array, not `None`); `to_dict` maps both to `None`, so the dicts still agree.
    (`prepare_next_tree` sets `U` on every edge of a fitted vine, so this state is not reachable by
    `fit`.) -/
theorem edge_U_none_quirk (o oid : Oid) (index L R name theta D tau likelihood neighbors : V) :
    ∃ e', edgeFromDict 1 oid (Edge.toDict (.mk o index L R name theta .absent [] D tau likelihood neighbors)) = some e' ∧
      (match e'.U with | .arr0 => True | _ => False) ∧
      Edge.toDict e' = Edge.toDict (.mk o index L R name theta .absent [] D tau likelihood neighbors) :=
  ⟨.mk oid index L R name theta .arr0 [] D tau likelihood neighbors,
   by simp [Edge.toDict, edgeFromDict, lookup, ArrAttr.view, ArrAttr.ofDict],
   by simp [Edge.U], by simp [Edge.toDict, ArrAttr.view]⟩

/-! ### non-vacuity: concrete reachable states built from the generated tables -/

/-- a fitted Gaussian marginal `loc = 1.0, scale = 2.0`. -/
def exGaussian : Uni :=
  { fam := famGaussianUnivariate, fitted := true,
    params := some [("loc", .num (.f 0x3FF0000000000000)), ("scale", .num (.f 0x4000000000000000))],
    constant := Option.none, options := [] }

example : UniWF families exGaussian :=
  ⟨by decide, rfl, ⟨_, rfl, rfl, rfl⟩, fun h => by simp [exGaussian, famGaussianUnivariate] at h⟩

/-- a fitted KDE on `[1.0, 2.0]` with default options. -/
def exKde : Uni :=
  { fam := famGaussianKDE, fitted := true,
    params := some [("dataset", .list [.num (.f 0x3FF0000000000000), .num (.f 0x4000000000000000)])],
    constant := Option.none, options := defaultOptions famGaussianKDE }

example : UniWF families exKde :=
  ⟨by decide, rfl, ⟨_, rfl, rfl, rfl⟩, fun _ _ k _ => optionOf_default famGaussianKDE _ rfl k⟩

example (upper : String → String) (hup : ∀ m ∈ copulaMembers, upper m = m) :
    BivWF (genTables upper) { cls := "Clayton", theta := .num (.f 0x7FF0000000000000), tau := .num (.f 0x3FF0000000000000) } :=
  ⟨"CLAYTON", by show bivTable.memberOf "Clayton" = some "CLAYTON"; decide,
    by show copulaMembers.contains (upper "CLAYTON") = true; rw [hup _ (by decide)]; decide,
    by show bivTable.classOf (upper "CLAYTON") = some "Clayton"; rw [hup _ (by decide)]; decide⟩

example : GaussWF families
    { fitted := true, columns := .list [.str "a", .num (.i 5)],
      univariates := [.plain exGaussian, .wrapped { fitted := true, inst := some exKde }],
      correlation := .list [] } :=
  ⟨rfl, by
    intro r hr
    simp at hr
    rcases hr with rfl | rfl
    · exact ⟨by decide, rfl, ⟨_, rfl, rfl, rfl⟩, fun h => by simp [exGaussian, famGaussianUnivariate] at h⟩
    · exact ⟨rfl, exKde, rfl, ⟨by decide, rfl, ⟨_, rfl, rfl, rfl⟩,
        fun _ _ k _ => optionOf_default famGaussianKDE _ rfl k⟩⟩⟩

/-- `constant_roundtrip` applies to the generated Beta family; the counter-example to a family
    shaped like today's `StudentTUnivariate`; the option counter-example to one shaped like
    today's `GaussianKDE`. -/
example : constCheck famBetaUnivariate = true ∧ findFamily families famBetaUnivariate.qual = some famBetaUnivariate :=
  ⟨by decide, by decide⟩

def exStudentShape : Family :=
  { name := "T", qual := "m.T", fitKeys := ["df", "loc", "scale"],
    fitConstant := [("df", .fromFit), ("loc", .fromFit), ("scale", .lit (.i 0))],
    isConstant := .keyEqZero "scale", extract := .key "loc", usesModel := false, rebuildsModel := false,
    modelOptions := [], ctorOptions := [] }

example : constFromFit exStudentShape = true ∧ findFamily [exStudentShape] exStudentShape.qual = some exStudentShape ∧
    lookupC exStudentShape.fitConstant "type" = Option.none := ⟨by decide, by decide, by decide⟩

example : ∃ p, detectConstant famGaussianKDE p = some Option.none ∧ lookup p "type" = Option.none :=
  ⟨[("dataset", .list [.num (.f 0x3FF0000000000000), .num (.f 0x4000000000000000)])], rfl, rfl⟩

end CopVerif.Props.C14
