import CopVerif.Lemmas.SelectCopula
/-!
# C11 — `select_copula` returns a calibrated candidate (and recovers the true family)

Property theorems only.  Subject: `CopVerif.Model.SelectCopula.selectCopula` / `selectOutcome`
(hand-written model (K) of `copulas.bivariate.select_copula`), every formula, guard, constant and
order of which is read from the definitions GENERATED from the Python source
(`CopVerif.Gen.SelectCopula`, `CopVerif.Gen.{Clayton,Frank,Gumbel}`); a change of `<=`, of the class
order, of `ascending=False`, of `argmax` or of the `z_right[k]` read in /repo changes the subject of
these statements and the proofs have to go through again.

* `deterministic` (DESIGN): the model is a *function* of `(ext, base, data)` — the external
  quantities read off `X` (`kendalltau`, column ranges, Frank's calibration), the grid and the rows;
  there is no RNG and no set/dict iteration in it.  This is true by construction and is therefore
  NOT stated as a theorem (it would be `f x = f x`); the harness checks on the real code that two
  calls on the same `X` agree.
* `family_recovery` (≥ 70 % of seeds per (family, τ) cell, τ ∈ [0.3, 0.7], n ≥ 3000) is a
  statistical statement about samples; it is not modelled (listed under PARTIAL, examined by the
  failing-input search only).
* The LEFT tail needs no index argument: `L.append(left / base[k] ** 2)` reads `base[k]` directly.
-/
namespace CopVerif.Props.C11
open CopVerif CopVerif.Model CopVerif.Model.SelectCopula CopVerif.Lemmas.SelectCopula

section Generic
variable {α : Type} [Add α] [Sub α] [Mul α] [Div α] [Neg α] [LT α] [LE α]
  [DecidableLT α] [DecidableLE α] [NumFns α]

/-- Whatever `select_copula` returns is the fitted Frank object or one of the candidates built from
    the classes `[Clayton, Gumbel]` (so its class is Frank, Clayton or Gumbel), and when the generated
    guard on Frank's tau fires it is the Frank object.  Carrier-generic (reads at `Float` too). -/
theorem returns_candidate (ext : Ext α) (base : List α) (data : List (α × α)) (c : Cand α)
    (h : selectCopula ext base data = .ok c) :
    let τ := ext.fitInput.tau
    let frank : Cand α := ⟨.frank, τ, .fin (ext.frankSolve τ)⟩
    (Gen.SelectCopula.frankOnly τ = true → c = frank) ∧
    (c = frank ∨ ∃ extra, extraCandidates ext.frankSolve τ Gen.SelectCopula.extraFamilies = .ok extra ∧
      c ∈ extra) ∧
    c.fam ∈ [Family.frank, Family.clayton, Family.gumbel] := by
  intro τ frank
  unfold selectCopula at h
  split at h
  · cases h
  · rename_i o ho
    injection h with h
    subst h
    obtain ⟨st, _, hcase⟩ := selectOutcome_ok ext base data o ho
    rcases hcase with ⟨hg, ho'⟩ | ⟨hg, hrank⟩
    · subst ho'
      exact ⟨fun _ => rfl, Or.inl rfl, by simp [Outcome.cand]⟩
    · obtain ⟨extra, emp, curves, c, hextra, _, _, hc, ho'⟩ := rankPath_ok _ _ _ _ _ _ hrank
      subst ho'
      simp only [Outcome.cand]
      have hmem : c ∈ (⟨.frank, τ, .fin (ext.frankSolve τ)⟩ : Cand α) :: extra :=
        List.mem_of_getElem? hc
      refine ⟨fun hg' => ?_, ?_, ?_⟩
      · rw [hg] at hg'; cases hg'
      · rcases List.mem_cons.mp hmem with rfl | hmem
        · exact Or.inl rfl
        · exact Or.inr ⟨extra, hextra, hmem⟩
      · rcases List.mem_cons.mp hmem with rfl | hmem
        · simp
        · have := ((extraCandidates_spec _ _ _ _ hextra).1 c hmem).2.1
          have hfam : Gen.SelectCopula.extraFamilies = [Family.clayton, Family.gumbel] := rfl
          rw [hfam] at this
          simp only [List.mem_cons, List.not_mem_nil, or_false] at this ⊢
          exact Or.inr this

/-- A failing `Frank.fit` (marginal out of `[0,1]`, NaN tau, refused theta) is what `select_copula`
    raises; nothing is returned. -/
theorem fit_failure_propagates (ext : Ext α) (base : List α) (data : List (α × α)) (e : Err)
    (st : FitState α)
    (hfit : Model.fit .frank ext.frankSolve ext.fitInput { tau := none, theta := none } = (.error e, st)) :
    selectCopula ext base data = .error e := by
  simp [selectCopula, selectOutcome, hfit]

/-- **Shared tau, own calibration.**  On the ranking path the candidate list is the fitted Frank
    object followed by the candidates of the classes `[Clayton, Gumbel]` *in that order*; every
    candidate carries the Frank-fit tau (`kendalltau` of `X`); its theta is its own family's
    calibration of that tau (`computeThetaFam` = the generated `Gen.Clayton.computeTheta` /
    `Gen.Gumbel.computeTheta`, Frank: the solver) and passes `check_theta`; a class is absent exactly
    when that calibration raises `ValueError` or is refused — never half-built. -/
theorem shared_tau (ext : Ext α) (base : List α) (data : List (α × α)) (t : Trace α) (c : Cand α)
    (h : selectOutcome ext base data = .ok (.ranked t c)) :
    let τ := ext.fitInput.tau
    ∃ extra, t.cands = ⟨.frank, τ, .fin (ext.frankSolve τ)⟩ :: extra ∧
      checkThetaB Family.frank (Bound.fin (ext.frankSolve τ)) = true ∧
      (∀ c' ∈ t.cands, c'.tau = τ ∧ computeThetaFam c'.fam ext.frankSolve τ = .ok c'.theta ∧
        checkThetaB c'.fam c'.theta = true) ∧
      (t.cands.map (·.fam)).Sublist [Family.frank, Family.clayton, Family.gumbel] ∧
      (∀ f ∈ [Family.clayton, Family.gumbel], ∀ θ, computeThetaFam f ext.frankSolve τ = .ok θ →
        checkThetaB f θ = true → (⟨f, τ, θ⟩ : Cand α) ∈ t.cands) := by
  intro τ
  obtain ⟨st, hfit, hcase⟩ := selectOutcome_ok ext base data _ h
  obtain ⟨_, _, hcheck, _⟩ := fit_frank_ok _ _ _ hfit
  rcases hcase with ⟨_, ho⟩ | ⟨_, hrank⟩
  · cases ho
  · obtain ⟨extra, emp, curves, c0, hextra, _, _, _, ho⟩ := rankPath_ok _ _ _ _ _ _ hrank
    injection ho with ht _
    subst ht
    obtain ⟨h1, h2, h3⟩ := extraCandidates_spec _ _ _ _ hextra
    have hfam : Gen.SelectCopula.extraFamilies = [Family.clayton, Family.gumbel] := rfl
    rw [hfam] at h1 h2 h3
    refine ⟨extra, rfl, hcheck, ?_, ?_, ?_⟩
    · intro c' hc'
      rcases List.mem_cons.mp hc' with rfl | hc'
      · exact ⟨rfl, rfl, hcheck⟩
      · obtain ⟨a, _, b, d⟩ := h1 c' hc'
        exact ⟨a, b, d⟩
    · simpa using h2
    · intro f hf θ hθ hc
      exact List.mem_cons_of_mem _ (h3 f hf θ hθ hc)

/-- **Index safety**, for every carrier whose order is transitive and on which `count / N > 0` is
    monotone in the count (`OrderHyps`; true of `ℝ`, see `empirical_index_safe`, and of binary64):
    on every non-empty data list and every strictly increasing grid with at least `steps` points the
    loop of `_compute_empirical` — *including the Python list access `z_right[k]`* modelled as
    `Option` — never raises, and returns the four lists of the index-free specification `empSpec`, in
    which the right-tail value is computed from `base[k]` itself. -/
theorem empirical_index_safe_ordered (H : OrderHyps α) (base : List α) (data : List (α × α))
    (hlen : Gen.SelectCopula.steps ≤ base.length) (hdata : data ≠ [])
    (hinc : base.Pairwise (· < ·)) :
    computeEmpirical base data = .ok (empSpec
      (fun b => Gen.SelectCopula.ratio (countLeft data b) data.length)
      (fun b => Gen.SelectCopula.ratio (countRight data b) data.length)
      (base.take Gen.SelectCopula.steps)) :=
  computeEmpirical_safe H base data hlen hdata hinc

end Generic

/-! ## statements at ℝ -/

set_option linter.unusedTactic false in
set_option linter.unreachableTactic false in
set_option linter.unusedSimpArgs false in
/-- **The curves are the tail-concentration functions.**  At ℝ the generated formulas are
    `L(z) = left / z²`, `R(z) = right / (1 − z)²` (empirical, `left`/`right` = the two count ratios),
    `C(z,z) / z²` and `(1 − 2z + C(z,z)) / (1 − z)²` (candidates); the distance summand is the squared
    difference, the score the plain sum of the three ranks, and the grid is
    `linspace(eps, 1 − eps, 50)`. -/
theorem tail_concentration_formulas (left right b c z e l r s eps : ℝ) :
    Gen.SelectCopula.leftVal left b = left / b ^ 2 ∧
    Gen.SelectCopula.rightVal right b b = right / (1 - b) ^ 2 ∧
    Gen.SelectCopula.candLeft c z = c / z ^ 2 ∧
    Gen.SelectCopula.candRight c z = (1 - 2 * z + c) / (1 - z) ^ 2 ∧
    Gen.SelectCopula.computeTail c z = (1 - 2 * z + c) / (1 - z) ^ 2 ∧
    Gen.SelectCopula.sqDiff e c = (e - c) ^ 2 ∧
    Gen.SelectCopula.scoreSum l r s = l + r + s ∧
    Gen.SelectCopula.gridLo eps = eps ∧ Gen.SelectCopula.gridHi eps = 1 - eps ∧
    Gen.SelectCopula.gridN = 50 := by
  refine ⟨?_, ?_, ?_, ?_, ?_, ?_, ?_, ?_, ?_, ?_⟩ <;>
  simp [Gen.SelectCopula.leftVal, Gen.SelectCopula.rightVal, Gen.SelectCopula.candLeft,
    Gen.SelectCopula.candRight, Gen.SelectCopula.computeTail, Gen.SelectCopula.sqDiff,
    Gen.SelectCopula.scoreSum, Gen.SelectCopula.gridLo, Gen.SelectCopula.gridHi,
    Gen.SelectCopula.gridN, Gen.SelectCopula.steps, Real.rpow_two, Real.rpow_natCast] <;>
  first | done | ring_nf | (field_simp; ring)

/-- **What is counted.**  `left` is the fraction of rows in the closed lower-left square `[·, b]²`, `right`
    the fraction in the closed upper-right square `[b, ·]²` (both comparisons non-strict), and a tail
    point is recorded exactly when that fraction is positive. -/
theorem tail_counts_spec (u v b x : ℝ) (c n : ℕ) :
    (Gen.SelectCopula.leftPred u v b = true ↔ u ≤ b ∧ v ≤ b) ∧
    (Gen.SelectCopula.rightPred u v b = true ↔ b ≤ u ∧ b ≤ v) ∧
    (Gen.SelectCopula.ratio c n : ℝ) = (c : ℝ) / n ∧
    (Gen.SelectCopula.leftGuard x = true ↔ 0 < x) ∧
    (Gen.SelectCopula.rightGuard x = true ↔ 0 < x) := by
  simp [Gen.SelectCopula.leftPred, Gen.SelectCopula.rightPred, Gen.SelectCopula.ratio,
    Gen.SelectCopula.leftGuard, Gen.SelectCopula.rightGuard]

/-- For τ ≤ 0 (and a successful `Frank.fit`) the result is the fitted Frank object itself, whatever
    the data and the grid. -/
theorem returns_frank_when_tau_nonpositive (ext : Ext ℝ) (base : List ℝ) (data : List (ℝ × ℝ))
    (st : FitState ℝ)
    (hfit : Model.fit .frank ext.frankSolve ext.fitInput { tau := none, theta := none } = (.ok (), st))
    (hτ : ext.fitInput.tau ≤ 0) :
    selectCopula ext base data = .ok ⟨.frank, ext.fitInput.tau, .fin (ext.frankSolve ext.fitInput.tau)⟩ := by
  obtain ⟨h1, h2, _, _⟩ := fit_frank_ok _ _ _ hfit
  simp [selectCopula, selectOutcome, hfit, h1, h2, Gen.SelectCopula.frankOnly, hτ, Outcome.cand]

/-- … and for τ > 0 the early return is NOT taken (the guard is exactly `τ ≤ 0`). -/
theorem ranking_path_when_tau_positive (ext : Ext ℝ) (base : List ℝ) (data : List (ℝ × ℝ))
    (st : FitState ℝ)
    (hfit : Model.fit .frank ext.frankSolve ext.fitInput { tau := none, theta := none } = (.ok (), st))
    (hτ : 0 < ext.fitInput.tau) :
    selectOutcome ext base data =
      rankPath ext base data ext.fitInput.tau (.fin (ext.frankSolve ext.fitInput.tau)) := by
  obtain ⟨h1, h2, _, _⟩ := fit_frank_ok _ _ _ hfit
  simp [selectOutcome, hfit, h1, h2, Gen.SelectCopula.frankOnly, not_le.mpr hτ]

/-- non-vacuity of `hfit`: unit-range marginals, τ = −1/2, solver value −3. -/
example : Model.fit Family.frank (fun _ => (-3 : ℝ)) ⟨0, 1, 0, 1, -1/2, false, false⟩
    { tau := none, theta := none } = (.ok (), ⟨some (-1/2), some (.fin (-3))⟩) := by
  simp [Model.fit, marginalOk, computeThetaFam, checkThetaB, checkTheta, thetaLower, thetaUpper,
    invalidThetas, Gen.Frank.thetaLower, Gen.Frank.thetaUpper, Gen.Frank.invalidThetas,
    Bound.leVal, Bound.valLe]

/-- Concretely, for 0 < τ < 1 both extra classes are present, Clayton with θ = 2τ/(1−τ) and Gumbel with
    θ = 1/(1−τ) (the generated closed forms), in this order. -/
theorem candidates_closed_form (solve : ℝ → ℝ) (τ : ℝ) (h0 : 0 < τ) (h1 : τ < 1) :
    extraCandidates solve τ Gen.SelectCopula.extraFamilies =
      .ok [⟨.clayton, τ, .fin (2 * τ / (1 - τ))⟩, ⟨.gumbel, τ, .fin (1 / (1 - τ))⟩] := by
  have hne : τ ≠ 1 := ne_of_lt h1
  have hpos : 0 < 1 - τ := by linarith
  have hc : 0 < 2 * τ / (1 - τ) := div_pos (by linarith) hpos
  have hg : 1 ≤ 1 / (1 - τ) := by
    rw [le_div_iff₀ hpos]; linarith
  have hg' : 1 ≤ (1 - τ)⁻¹ := by simpa [one_div] using hg
  simp [extraCandidates, Gen.SelectCopula.extraFamilies, tryCandidate, computeThetaFam,
    Gen.Clayton.computeTheta, Gen.Gumbel.computeTheta, checkThetaB, checkTheta, thetaLower, thetaUpper,
    invalidThetas, Gen.Clayton.thetaLower, Gen.Clayton.thetaUpper, Gen.Clayton.invalidThetas,
    Gen.Gumbel.thetaLower, Gen.Gumbel.thetaUpper, Gen.Gumbel.invalidThetas, Bound.leVal, Bound.valLe,
    hne, hc.le, hc.ne', hg']

/-- At τ = 1 Gumbel's calibration raises `ValueError` and the class is absent; Clayton is kept with
    θ = +∞ (`check_theta` accepts `inf`). -/
theorem candidates_tau_one (solve : ℝ → ℝ) :
    extraCandidates solve (1 : ℝ) Gen.SelectCopula.extraFamilies =
      .ok [⟨.clayton, 1, .posInf⟩] := by
  simp [extraCandidates, Gen.SelectCopula.extraFamilies, tryCandidate, computeThetaFam,
    Gen.Clayton.computeTheta, Gen.Gumbel.computeTheta, checkThetaB, thetaUpper,
    Gen.Clayton.thetaUpper]

/-- **Index safety** at ℝ: for every non-empty data list and every strictly increasing grid of at
    least `steps` points `_compute_empirical` does not raise; `z_right[k]` is in range (the list holds
    exactly `k` elements before the append, because the right-tail count is non-increasing along the
    grid) and equals `base[k]`: the result is the index-free specification. -/
theorem empirical_index_safe (base : List ℝ) (data : List (ℝ × ℝ))
    (hlen : Gen.SelectCopula.steps ≤ base.length) (hdata : data ≠ [])
    (hinc : base.Pairwise (· < ·)) :
    computeEmpirical base data = .ok (empSpec
      (fun b => Gen.SelectCopula.ratio (countLeft data b) data.length)
      (fun b => Gen.SelectCopula.ratio (countRight data b) data.length)
      (base.take Gen.SelectCopula.steps)) :=
  computeEmpirical_safe orderHyps_real base data hlen hdata hinc

/-- non-vacuity: a strictly increasing grid with `steps` points exists. -/
example : ∃ base : List ℝ, Gen.SelectCopula.steps ≤ base.length ∧ base.Pairwise (· < ·) := by
  refine ⟨List.map (fun i : ℕ => (i : ℝ)) (List.range Gen.SelectCopula.steps), by simp, ?_⟩
  exact List.Pairwise.map _ (fun a b h => by exact_mod_cast h) List.pairwise_lt_range

/-- The rank used is pandas' *descending average* rank: with `g` entries strictly larger and a tie
    group of size `e` it is `g + (e+1)/2`; it lies in `[1, n]`, equal distances get equal ranks and a
    strictly smaller distance gets a strictly larger rank (so the arg-max prefers small distances). -/
theorem rank_descending_average (d : List ℝ) (x : ℝ) :
    rankOf Gen.SelectCopula.rankAscending d x = some (rankR d x) ∧
    (x ∈ d → 1 ≤ rankR d x ∧ rankR d x ≤ d.length) ∧
    (∀ y, y ∈ d → x < y → rankR d y < rankR d x) :=
  ⟨rankOf_real d x, fun hx => rankR_bounds d hx, fun _ hy hxy => rankR_strictAnti d hy hxy⟩

/-- **Rank specification.**  On the ranking path: one distance triple per candidate (left, right,
    both); the score of a candidate is the sum of its three descending average ranks; the returned
    object is the candidate at the FIRST position where the score is maximal — ties go to the earliest
    candidate, and candidates are ordered Frank, Clayton, Gumbel. -/
theorem rank_spec (ext : Ext ℝ) (base : List ℝ) (data : List (ℝ × ℝ)) (t : Trace ℝ) (c : Cand ℝ)
    (h : selectOutcome ext base data = .ok (.ranked t c)) :
    t.triples = t.curves.map (distTriple t.emp.L t.emp.R) ∧
    t.triples.length = t.cands.length ∧
    t.score = (t.triples.map (scoreR t.triples)).map some ∧
    t.cands[t.idx]? = some c ∧
    (t.cands.map (·.fam)).Sublist [Family.frank, Family.clayton, Family.gumbel] ∧
    ∃ tr, t.triples[t.idx]? = some tr ∧
      (∀ tr' ∈ t.triples, scoreR t.triples tr' ≤ scoreR t.triples tr) ∧
      (∀ j tr', j < t.idx → t.triples[j]? = some tr' → scoreR t.triples tr' < scoreR t.triples tr) := by
  have hsub := (shared_tau ext base data t c h)
  obtain ⟨_, _, _, _, hsub, _⟩ := hsub
  obtain ⟨st, hfit, hcase⟩ := selectOutcome_ok ext base data _ h
  rcases hcase with ⟨_, ho⟩ | ⟨_, hrank⟩
  · cases ho
  · obtain ⟨extra, emp, curves, c0, _, _, hcurves, hc, ho⟩ := rankPath_ok _ _ _ _ _ _ hrank
    injection ho with ht hc0
    subst ht hc0
    simp only [] at hc ⊢
    have hlen := allCurves_length _ _ _ _ _ hcurves
    set ts := curves.map (distTriple emp.L emp.R) with hts
    have hidx : pickIdx Gen.SelectCopula.pickMax (scores Gen.SelectCopula.rankAscending ts)
        = argBest (fun y x => decide (x < y)) (ts.map (scoreR ts)) := by
      rw [scores_real, pickIdx_real]
    have hne : ts.map (scoreR ts) ≠ [] := by
      intro hnil
      have : (ts.map (scoreR ts)).length = 0 := by rw [hnil]; rfl
      simp [hts, hlen] at this
    obtain ⟨m, hm, hmax, hbefore⟩ := argBest_max _ hne
    refine ⟨trivial, by simp [hts, hlen], scores_real ts, hc, hsub, ?_⟩
    rw [hidx]
    rw [List.getElem?_map] at hm
    cases htr : ts[argBest (fun y x => decide (x < y)) (ts.map (scoreR ts))]? with
    | none => rw [htr] at hm; cases hm
    | some tr =>
      rw [htr] at hm
      injection hm with hm
      subst hm
      refine ⟨tr, rfl, ?_, ?_⟩
      · intro tr' htr'
        exact hmax _ (List.mem_map_of_mem htr')
      · intro j tr' hj hjtr
        exact hbefore j _ hj (by rw [List.getElem?_map, hjtr]; rfl)

/-- **The ranking path is total.**  With both extra-candidate calibrations evaluated, a non-empty data
    set, an increasing grid and candidates whose CDF evaluates (their `check_fit` passes), the path
    returns: `_compute_empirical` does not raise and `np.argmax` of the (NaN-free) score vector is a
    valid index into `copula_candidates`. -/
theorem selection_total (ext : Ext ℝ) (base : List ℝ) (data : List (ℝ × ℝ)) (τ : ℝ) (θF : Bound ℝ)
    (extra : List (Cand ℝ))
    (hextra : extraCandidates ext.frankSolve τ Gen.SelectCopula.extraFamilies = .ok extra)
    (hlen : Gen.SelectCopula.steps ≤ base.length) (hdata : data ≠ []) (hinc : base.Pairwise (· < ·))
    (hcdf : ∀ c ∈ (⟨.frank, τ, θF⟩ : Cand ℝ) :: extra, ∀ zs, ∃ r, cdfDiag ext.inf c zs = .ok r) :
    ∃ t c, rankPath ext base data τ θF = .ok (.ranked t c) := by
  have hemp := empirical_index_safe base data hlen hdata hinc
  generalize empSpec (fun b => Gen.SelectCopula.ratio (countLeft data b) data.length)
      (fun b => Gen.SelectCopula.ratio (countRight data b) data.length)
      (base.take Gen.SelectCopula.steps) = emp at hemp
  obtain ⟨curves, hcurves⟩ := allCurves_ok ext.inf emp.zLeft emp.zRight _ hcdf
  have hl := allCurves_length _ _ _ _ _ hcurves
  have hlt := pickIdx_lt (curves.map (distTriple emp.L emp.R)) (by
    intro hnil
    have : curves.length = 0 := by simpa using congrArg List.length hnil
    simp [hl] at this)
  rw [List.length_map, hl] at hlt
  unfold rankPath
  rw [hextra]
  simp only []
  rw [hemp]
  simp only []
  rw [hcurves]
  simp only [List.getElem?_eq_getElem hlt]
  exact ⟨_, _, rfl⟩

/-- non-vacuity of the hypothesis `selectOutcome … = .ok (.ranked t c)` of `shared_tau` / `rank_spec`
    and of the hypotheses of `selection_total`: τ = 1/2, Frank θ = 5, one data row, grid 0,1,…,49. -/
example : ∃ (ext : Ext ℝ) (base : List ℝ) (data : List (ℝ × ℝ)) (t : Trace ℝ) (c : Cand ℝ),
    selectOutcome ext base data = .ok (.ranked t c) := by
  let ext : Ext ℝ := ⟨⟨0, 1, 0, 1, 1/2, false, false⟩, fun _ => 5, 0⟩
  have hfit : Model.fit Family.frank ext.frankSolve ext.fitInput { tau := none, theta := none }
      = (.ok (), ⟨some (1/2), some (.fin 5)⟩) := by
    simp [ext, Model.fit, marginalOk, computeThetaFam, checkThetaB, checkTheta, thetaLower, thetaUpper,
      invalidThetas, Gen.Frank.thetaLower, Gen.Frank.thetaUpper, Gen.Frank.invalidThetas,
      Bound.leVal, Bound.valLe]
  have hext := candidates_closed_form ext.frankSolve (1/2) (by norm_num) (by norm_num)
  obtain ⟨t, c, h⟩ := selection_total ext (List.map (fun i : ℕ => (i : ℝ)) (List.range Gen.SelectCopula.steps))
    [(1/4, 3/4)] (1/2) (.fin 5) _ hext (by simp) (by simp)
    (List.Pairwise.map _ (fun a b h => by exact_mod_cast h) List.pairwise_lt_range)
    (by
      intro c hc zs
      simp only [List.mem_cons, List.not_mem_nil, or_false] at hc
      rcases hc with rfl | rfl | rfl
      · norm_num [cdfDiag, boundVal, Gen.Frank.cdf, checkFit, checkTheta, Gen.Frank.thetaLower,
          Gen.Frank.thetaUpper, Gen.Frank.invalidThetas, Bound.leVal, Bound.valLe]
      · norm_num [cdfDiag, boundVal, Gen.Clayton.cdf, checkFit, checkTheta, Gen.Clayton.thetaLower,
          Gen.Clayton.thetaUpper, Gen.Clayton.invalidThetas, Bound.leVal, Bound.valLe]
        split <;> simp
      · norm_num [cdfDiag, boundVal, Gen.Gumbel.cdf, checkFit, checkTheta, Gen.Gumbel.thetaLower,
          Gen.Gumbel.thetaUpper, Gen.Gumbel.invalidThetas, Bound.leVal, Bound.valLe])
  refine ⟨ext, List.map (fun i : ℕ => (i : ℝ)) (List.range Gen.SelectCopula.steps), [(1/4, 3/4)], t, c, ?_⟩
  rw [ranking_path_when_tau_positive ext _ _ _ hfit (by norm_num [ext])]
  exact h

end CopVerif.Props.C11
