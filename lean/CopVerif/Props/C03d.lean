import CopVerif.Real.Families
import CopVerif.Model.Families
/-!
# C03 (continued) — the executable closed forms ARE the proved ones

`CopVerif/Model/Families.lean` holds Mathlib-free, `NumFns`-polymorphic closed forms of scipy's `uniform`,
`norm`, `loglaplace`, `truncnorm`; they are evaluated at `Float` on every run against what the library calls
(`MODEL_CLASS.<fn>(x, **model._params)`, tie obligations `tv:closed-form:<family>`).  Here: instantiated at ℝ
(with `Φ := PIT.stdPhi`, `s2pi := √(2π)`) they are literally the definitions `CopVerif.Families.*` for which
`Uni.FamilyCoherent` is proved in `Real/Families.lean` / `Props/C03c.lean`; hence the terms the tie evaluates
are coherent families.  (`Φ⁻¹` is not executable: `norm.ppf` / `truncnorm.ppf` stay `Families.normPpf` /
`truncnormPpf`, tied through `cdf(ppf(q)) = q`.)
-/
namespace CopVerif.Props.C03d
open CopVerif NumFns Uni PIT KDENormal
theorem maxN_real (a b : ℝ) : Model.Families.maxN a b = max a b := by
  unfold Model.Families.maxN
  split_ifs with h
  · exact (max_eq_right h.le).symm
  · exact (max_eq_left (not_lt.mp h)).symm

theorem minN_real (a b : ℝ) : Model.Families.minN a b = min a b := by
  unfold Model.Families.minN
  split_ifs with h
  · exact (min_eq_right h.le).symm
  · exact (min_eq_left (not_lt.mp h)).symm

theorem clamp01_real (t : ℝ) : Model.Families.clamp01 t = max 0 (min 1 t) := by
  simp [Model.Families.clamp01, maxN_real, minN_real]

theorem uniform_bridge (loc scale x q : ℝ) :
    Model.Families.uniformPdf loc scale x = Families.uniformPdf loc scale x ∧
    Model.Families.uniformCdf loc scale x = Families.uniformCdf loc scale x ∧
    Model.Families.uniformPpf loc scale q = Families.uniformPpf loc scale q ∧
    Model.Families.uniformLogpdf loc scale x = Families.uniformLogpdf loc scale x := by
  refine ⟨?_, ?_, ?_, ?_⟩
  · simp [Model.Families.uniformPdf, Families.uniformPdf]
  · simp [Model.Families.uniformCdf, Families.uniformCdf, clamp01_real]
  · simp [Model.Families.uniformPpf, Families.uniformPpf]
  · simp [Model.Families.uniformLogpdf, Families.uniformLogpdf]

theorem stdPdf_bridge (y : ℝ) : Model.Families.stdPdf (Real.sqrt (2 * Real.pi)) y = stdPdf y := by
  rw [Families.stdPdf_eq]
  simp [Model.Families.stdPdf, sq]

theorem norm_bridge (loc scale x : ℝ) :
    Model.Families.normPdf (Real.sqrt (2 * Real.pi)) loc scale x = Families.normPdf loc scale x ∧
    Model.Families.normCdf stdPhi loc scale x = Families.normCdf loc scale x ∧
    Model.Families.normLogpdf (Real.sqrt (2 * Real.pi)) loc scale x = Families.normLogpdf loc scale x := by
  refine ⟨?_, rfl, ?_⟩
  · simp [Model.Families.normPdf, Model.Families.stdPdf, Families.normPdf, sq]
  · simp [Model.Families.normLogpdf, Families.normLogpdf, sq]

theorem loglaplace_bridge (c loc scale x q : ℝ) :
    Model.Families.loglaplacePdf c loc scale x = Families.loglaplacePdf c loc scale x ∧
    Model.Families.loglaplaceCdf c loc scale x = Families.loglaplaceCdf c loc scale x ∧
    Model.Families.loglaplacePpf c loc scale q = Families.loglaplacePpf c loc scale q ∧
    Model.Families.loglaplaceLogpdf c loc scale x = Families.loglaplaceLogpdf c loc scale x := by
  refine ⟨?_, ?_, ?_, ?_⟩
  · simp [Model.Families.loglaplacePdf, Model.Families.llPdf, Families.loglaplacePdf, Families.llPdf]
  · simp [Model.Families.loglaplaceCdf, Model.Families.llCdf, Families.loglaplaceCdf, Families.llCdf]
  · simp [Model.Families.loglaplacePpf, Model.Families.llPpf, Families.loglaplacePpf, Families.llPpf]
  · simp [Model.Families.loglaplaceLogpdf, Model.Families.llPdf, Families.loglaplaceLogpdf, Families.llPdf]

theorem truncnorm_bridge (a b loc scale x : ℝ) :
    Model.Families.truncnormPdf stdPhi (Real.sqrt (2 * Real.pi)) a b loc scale x
      = Families.truncnormPdf a b loc scale x ∧
    Model.Families.truncnormCdf stdPhi a b loc scale x = Families.truncnormCdf a b loc scale x ∧
    Model.Families.truncnormLogpdf stdPhi (Real.sqrt (2 * Real.pi)) a b loc scale x
      = Families.truncnormLogpdf a b loc scale x := by
  refine ⟨?_, ?_, ?_⟩
  · simp only [Model.Families.truncnormPdf, Model.Families.tnPdf, Families.truncnormPdf, Families.tnPdf,
      stdPdf_bridge, ofNat_real, Nat.cast_zero]
  · simp [Model.Families.truncnormCdf, Model.Families.tnCdf, Families.truncnormCdf, Families.tnCdf, clamp01_real]
  · simp [Model.Families.truncnormLogpdf, Model.Families.tnLogpdf, Families.truncnormLogpdf, Families.tnLogpdf, sq]

/-! ## consequently: the executable terms are coherent families -/

theorem uniform_exec_coherent (loc : ℝ) {scale : ℝ} (hs : 0 < scale) :
    FamilyCoherent (Model.Families.uniformPdf loc scale) (Model.Families.uniformCdf loc scale)
      (Model.Families.uniformPpf loc scale) (Model.Families.uniformLogpdf loc scale) {loc, loc + scale} := by
  have e1 : Model.Families.uniformPdf loc scale = Families.uniformPdf loc scale :=
    funext fun x => (uniform_bridge loc scale x 0).1
  have e2 : Model.Families.uniformCdf loc scale = Families.uniformCdf loc scale :=
    funext fun x => (uniform_bridge loc scale x 0).2.1
  have e3 : Model.Families.uniformPpf loc scale = Families.uniformPpf loc scale :=
    funext fun q => (uniform_bridge loc scale 0 q).2.2.1
  have e4 : Model.Families.uniformLogpdf loc scale = Families.uniformLogpdf loc scale :=
    funext fun x => (uniform_bridge loc scale x 0).2.2.2
  rw [e1, e2, e3, e4]; exact Families.uniform_coherent loc hs

theorem loglaplace_exec_coherent {c : ℝ} (hc : 0 < c) (loc : ℝ) {scale : ℝ} (hs : 0 < scale) :
    FamilyCoherent (Model.Families.loglaplacePdf c loc scale) (Model.Families.loglaplaceCdf c loc scale)
      (Model.Families.loglaplacePpf c loc scale) (Model.Families.loglaplaceLogpdf c loc scale)
      {loc, loc + scale} := by
  have e1 : Model.Families.loglaplacePdf c loc scale = Families.loglaplacePdf c loc scale :=
    funext fun x => (loglaplace_bridge c loc scale x 0).1
  have e2 : Model.Families.loglaplaceCdf c loc scale = Families.loglaplaceCdf c loc scale :=
    funext fun x => (loglaplace_bridge c loc scale x 0).2.1
  have e3 : Model.Families.loglaplacePpf c loc scale = Families.loglaplacePpf c loc scale :=
    funext fun q => (loglaplace_bridge c loc scale 0 q).2.2.1
  have e4 : Model.Families.loglaplaceLogpdf c loc scale = Families.loglaplaceLogpdf c loc scale :=
    funext fun x => (loglaplace_bridge c loc scale x 0).2.2.2
  rw [e1, e2, e3, e4]; exact Families.loglaplace_coherent hc loc hs

theorem norm_exec_coherent (loc : ℝ) {scale : ℝ} (hs : 0 < scale) :
    FamilyCoherent (Model.Families.normPdf (Real.sqrt (2 * Real.pi)) loc scale)
      (Model.Families.normCdf stdPhi loc scale) (Families.normPpf loc scale)
      (Model.Families.normLogpdf (Real.sqrt (2 * Real.pi)) loc scale) ∅ := by
  have e1 : Model.Families.normPdf (Real.sqrt (2 * Real.pi)) loc scale = Families.normPdf loc scale :=
    funext fun x => (norm_bridge loc scale x).1
  have e2 : Model.Families.normCdf stdPhi loc scale = Families.normCdf loc scale :=
    funext fun x => (norm_bridge loc scale x).2.1
  have e4 : Model.Families.normLogpdf (Real.sqrt (2 * Real.pi)) loc scale = Families.normLogpdf loc scale :=
    funext fun x => (norm_bridge loc scale x).2.2
  rw [e1, e2, e4]; exact Families.norm_coherent loc hs

theorem truncnorm_exec_coherent {a b : ℝ} (hab : a < b) (loc : ℝ) {scale : ℝ} (hs : 0 < scale) :
    FamilyCoherent (Model.Families.truncnormPdf stdPhi (Real.sqrt (2 * Real.pi)) a b loc scale)
      (Model.Families.truncnormCdf stdPhi a b loc scale) (Families.truncnormPpf a b loc scale)
      (Model.Families.truncnormLogpdf stdPhi (Real.sqrt (2 * Real.pi)) a b loc scale)
      {loc + scale * a, loc + scale * b} := by
  have e1 : Model.Families.truncnormPdf stdPhi (Real.sqrt (2 * Real.pi)) a b loc scale
      = Families.truncnormPdf a b loc scale := funext fun x => (truncnorm_bridge a b loc scale x).1
  have e2 : Model.Families.truncnormCdf stdPhi a b loc scale = Families.truncnormCdf a b loc scale :=
    funext fun x => (truncnorm_bridge a b loc scale x).2.1
  have e4 : Model.Families.truncnormLogpdf stdPhi (Real.sqrt (2 * Real.pi)) a b loc scale
      = Families.truncnormLogpdf a b loc scale := funext fun x => (truncnorm_bridge a b loc scale x).2.2
  rw [e1, e2, e4]; exact Families.truncnorm_coherent hab loc hs

/-- non-vacuity of the parameter hypotheses -/
example : (0 : ℝ) < 2 ∧ (0 : ℝ) < 3 / 2 ∧ (-1 : ℝ) < 2 := by norm_num

end CopVerif.Props.C03d
