import CopVerif.Real.CondLaw
import CopVerif.Props.C12
/-!
# C12b — the conditional law of a partitioned normal vector (the classical theorem)

Property theorems only.  They supply the part that `C12.conditional_law_partial` left open:
for a jointly normal vector, "uncorrelated ⇒ independent", hence `X₁ | X₂ = z ~ N(G z, Σ̄)`.
Everything is stated for Mathlib's `ProbabilityTheory.multivariateGaussian m S`, the law `N(m, S)` on
`EuclideanSpace ℝ ι` (`ι` any finite index type, `S` any positive semi-definite matrix — singular
`S` allowed), and proved in `CopVerif/Real/CondLaw.lean`.

Setting of every theorem below.  `Z : Ω → EuclideanSpace ℝ ι` is a random vector on an arbitrary
measure space `(Ω, P)` with `HasLaw Z (multivariateGaussian m S) P`.  `e1 : α → ι`, `e2 : β → ι` are
ARBITRARY coordinate selections (`α`, `β` finite; in particular the two halves of a partition) with
`S₂₂ = S.submatrix e2 e2` invertible, and

* `X₁ ω = pick e1 (Z ω)`, `X₂ ω = pick e2 (Z ω)`  (`pick e x a = x (e a)`, `pick_eq`);
* `G = gain S e1 e2 = S₁₂ S₂₂⁻¹` (`gain_eq`), `Σ̄ = schur S e1 e2 = S₁₁ − S₁₂ S₂₂⁻¹ S₂₁` (`schur_eq`);
* `mulE M x = M x` is the matrix–vector product on Euclidean spaces (`mulE_eq`);
* `condKernel G c C` is the Markov kernel `z ↦ N(G z + c, C)` (`condKernel_eq`, for EVERY `z`).

Results: (1) `R = X₁ − G X₂` is independent of `X₂` (`resid_indep`); (2) `R ~ N(m₁ − G m₂, Σ̄)`
(`resid_law`), `X₂ ~ N(m₂, S₂₂)` (`cond_marginal_law`); (3) the disintegration of the joint law
of `(X₂, X₁)` along the kernel `z ↦ N(m₁ + G (z − m₂), Σ̄)`, as a `compProd` identity
(`conditional_law_kernel…`), as the integral identity `P(X₁ ∈ A, X₂ ∈ B) = ∫_B N(…)(A) dLaw(X₂)`
(`conditional_law_integral…`), as `condDistrib X₁ X₂ P =ᵐ …` (`conditional_law_condDistrib…`) and as
the sampling scheme "draw `R' ~ N(0, Σ̄)` independently and add the conditional mean"
(`conditional_law_sampling_scheme…`).  The un-suffixed names are the mean-zero case (the Gaussian
copula); `…_mean` is the general-mean statement.

Connection with the model of C12 (`sampler_params`, `sampler_is_conditional_law`,
`sampler_is_conditional_law_fintype`): the pair `(mean, cov)` that `_get_conditional_distribution`
hands to `np.random.multivariate_normal` is `(G z, Σ̄)` for the sub-matrices of the fitted
correlation, i.e. `N(mean, cov)` IS the value at the given scores `z` of the regular conditional
distribution of the normal scores of `columns1` given those of the conditioned columns.

Still not proved (trusted base): that numpy's generator draws from `N(mean, cov)`; binary64.
-/
set_option linter.unusedSectionVars false

namespace CopVerif.Props.C12b
open CopVerif CopVerif.GaussCond CopVerif.CondLaw
open CopVerif.Model.GaussCond hiding gain
open MeasureTheory ProbabilityTheory Matrix WithLp

/-! ## the vocabulary -/
section vocabulary
variable {ι α β : Type*} [Fintype ι] [DecidableEq ι] [Fintype α] [DecidableEq α] [Fintype β]
  [DecidableEq β]

/-- `pick e x` is the vector of the coordinates `e a` of `x`. -/
theorem pick_eq (e : α → ι) (x : EuclideanSpace ℝ ι) (a : α) : pick e x a = x (e a) :=
  pick_apply e x a

/-- `mulE M` is `x ↦ M x`. -/
theorem mulE_eq (M : Matrix α ι ℝ) (x : EuclideanSpace ℝ ι) : mulE M x = toLp 2 (M *ᵥ ofLp x) := rfl

/-- `gain S e1 e2` is `G = S₁₂ S₂₂⁻¹`. -/
theorem gain_eq (S : Matrix ι ι ℝ) (e1 : α → ι) (e2 : β → ι) :
    gain S e1 e2 = S.submatrix e1 e2 * (S.submatrix e2 e2)⁻¹ := rfl

/-- `schur S e1 e2` is the Schur complement `Σ̄ = S₁₁ − S₁₂ S₂₂⁻¹ S₂₁`. -/
theorem schur_eq (S : Matrix ι ι ℝ) (e1 : α → ι) (e2 : β → ι) :
    schur S e1 e2 = S.submatrix e1 e1 - S.submatrix e1 e2 * (S.submatrix e2 e2)⁻¹ * S.submatrix e2 e1 :=
  rfl

/-- `condKernel G c C` is the kernel `z ↦ N(G z + c, C)` — at EVERY point `z`. -/
theorem condKernel_eq (G : Matrix α β ℝ) (c : EuclideanSpace ℝ α) (C : Matrix α α ℝ)
    (z : EuclideanSpace ℝ β) : condKernel G c C z = multivariateGaussian (mulE G z + c) C :=
  condKernel_apply G c C z

/-- … for `c = 0`: `z ↦ N(G z, C)`. -/
theorem condKernel_zero_eq (G : Matrix α β ℝ) (C : Matrix α α ℝ) (z : EuclideanSpace ℝ β) :
    condKernel G 0 C z = multivariateGaussian (mulE G z) C :=
  condKernel_apply_zero G C z

/-- The image of `N(m, S)` under any linear map `x ↦ M x` (`M` rectangular) is `N(M m, M S Mᵀ)`. -/
theorem linear_image_law {Ω : Type*} {mΩ : MeasurableSpace Ω} {P : Measure Ω}
    {Z : Ω → EuclideanSpace ℝ ι} {m : EuclideanSpace ℝ ι} {S : Matrix ι ι ℝ}
    (hZ : HasLaw Z (multivariateGaussian m S) P) (hS : S.PosSemidef) (M : Matrix α ι ℝ) :
    HasLaw (fun ω => mulE M (Z ω)) (multivariateGaussian (mulE M m) (M * S * Mᵀ)) P :=
  hasLaw_mulE hZ hS M

/-- **Uncorrelated ⇒ independent** for linear images of a normal vector: if the cross-covariance
`M₁ S M₂ᵀ` vanishes, `M₁ Z` and `M₂ Z` are independent. -/
theorem linear_images_indep {Ω : Type*} {mΩ : MeasurableSpace Ω} {P : Measure Ω}
    {Z : Ω → EuclideanSpace ℝ ι} {m : EuclideanSpace ℝ ι} {S : Matrix ι ι ℝ}
    (hZ : HasLaw Z (multivariateGaussian m S) P) (hS : S.PosSemidef)
    (M1 : Matrix α ι ℝ) (M2 : Matrix β ι ℝ) (h0 : M1 * S * M2ᵀ = 0) :
    IndepFun (fun ω => mulE M1 (Z ω)) (fun ω => mulE M2 (Z ω)) P :=
  indepFun_mulE hZ hS M1 M2 h0

end vocabulary

/-! ## (1), (2): the residual -/
section residual
variable {ι α β Ω : Type*} [Fintype ι] [DecidableEq ι] [Fintype α] [DecidableEq α] [Fintype β]
  [DecidableEq β] {mΩ : MeasurableSpace Ω} {P : Measure Ω} {Z : Ω → EuclideanSpace ℝ ι}
  {m : EuclideanSpace ℝ ι} {S : Matrix ι ι ℝ}

/-- (1) The residual `R = X₁ − G X₂` is INDEPENDENT of `X₂` (any mean). -/
theorem resid_indep (hZ : HasLaw Z (multivariateGaussian m S) P) (hS : S.PosSemidef)
    (e1 : α → ι) (e2 : β → ι) (hdet : IsUnit (S.submatrix e2 e2).det) :
    IndepFun (fun ω => pick e1 (Z ω) - mulE (gain S e1 e2) (pick e2 (Z ω)))
      (fun ω => pick e2 (Z ω)) P :=
  indepFun_resid hZ hS e1 e2 hdet

/-- (2) The residual `R = X₁ − G X₂` has law `N(m₁ − G m₂, Σ̄)`. -/
theorem resid_law_mean (hZ : HasLaw Z (multivariateGaussian m S) P) (hS : S.PosSemidef)
    (e1 : α → ι) (e2 : β → ι) (hdet : IsUnit (S.submatrix e2 e2).det) :
    HasLaw (fun ω => pick e1 (Z ω) - mulE (gain S e1 e2) (pick e2 (Z ω)))
      (multivariateGaussian (pick e1 m - mulE (gain S e1 e2) (pick e2 m)) (schur S e1 e2)) P :=
  hasLaw_resid hZ hS e1 e2 hdet

/-- (2), mean zero: `R = X₁ − G X₂ ~ N(0, Σ̄)`. -/
theorem resid_law (hZ : HasLaw Z (multivariateGaussian 0 S) P) (hS : S.PosSemidef)
    (e1 : α → ι) (e2 : β → ι) (hdet : IsUnit (S.submatrix e2 e2).det) :
    HasLaw (fun ω => pick e1 (Z ω) - mulE (gain S e1 e2) (pick e2 (Z ω)))
      (multivariateGaussian 0 (schur S e1 e2)) P := by
  simpa using hasLaw_resid hZ hS e1 e2 hdet

/-- The selected coordinates `X₂` have law `N(m₂, S₂₂)` (any selection `e`, no invertibility). -/
theorem cond_marginal_law_mean (hZ : HasLaw Z (multivariateGaussian m S) P) (hS : S.PosSemidef)
    (e : β → ι) :
    HasLaw (fun ω => pick e (Z ω)) (multivariateGaussian (pick e m) (S.submatrix e e)) P :=
  hasLaw_pick hZ hS e

/-- … mean zero: `X₂ ~ N(0, S₂₂)`. -/
theorem cond_marginal_law (hZ : HasLaw Z (multivariateGaussian 0 S) P) (hS : S.PosSemidef)
    (e : β → ι) :
    HasLaw (fun ω => pick e (Z ω)) (multivariateGaussian 0 (S.submatrix e e)) P := by
  simpa using hasLaw_pick hZ hS e

end residual

/-! ## (3): the conditional law -/
section conditional
variable {ι α β Ω : Type*} [Fintype ι] [DecidableEq ι] [Fintype α] [DecidableEq α] [Fintype β]
  [DecidableEq β] {mΩ : MeasurableSpace Ω} {P : Measure Ω} {Z : Ω → EuclideanSpace ℝ ι}
  {m : EuclideanSpace ℝ ι} {S : Matrix ι ι ℝ}

/-- The textbook conditional mean: `G z + (m₁ − G m₂) = m₁ + G (z − m₂)`. -/
theorem cond_mean_forms (G : Matrix α β ℝ) (m1 : EuclideanSpace ℝ α) (m2 z : EuclideanSpace ℝ β) :
    mulE G z + (m1 - mulE G m2) = m1 + mulE G (z - m2) :=
  condMean_eq G m1 m2 z

/-- (3) **Disintegration, kernel form, any mean.**  The joint law of `(X₂, X₁)` is the law
`N(m₂, S₂₂)` of `X₂` composed with the kernel `z ↦ N(G z + (m₁ − G m₂), Σ̄) = N(m₁ + G (z − m₂), Σ̄)`
(`condKernel_eq`, `cond_mean_forms`): that kernel is a regular conditional distribution of `X₁`
given `X₂`. -/
theorem conditional_law_kernel_mean (hZ : HasLaw Z (multivariateGaussian m S) P)
    (hS : S.PosSemidef) (e1 : α → ι) (e2 : β → ι) (hdet : IsUnit (S.submatrix e2 e2).det) :
    P.map (fun ω => (pick e2 (Z ω), pick e1 (Z ω)))
      = multivariateGaussian (pick e2 m) (S.submatrix e2 e2) ⊗ₘ
          condKernel (gain S e1 e2) (pick e1 m - mulE (gain S e1 e2) (pick e2 m))
            (schur S e1 e2) :=
  map_pick_pair hZ hS e1 e2 hdet

/-- (3) **Disintegration, kernel form, mean zero**: the joint law of `(X₂, X₁)` is
`N(0, S₂₂) ⊗ (z ↦ N(G z, Σ̄))`. -/
theorem conditional_law_kernel (hZ : HasLaw Z (multivariateGaussian 0 S) P)
    (hS : S.PosSemidef) (e1 : α → ι) (e2 : β → ι) (hdet : IsUnit (S.submatrix e2 e2).det) :
    P.map (fun ω => (pick e2 (Z ω), pick e1 (Z ω)))
      = multivariateGaussian 0 (S.submatrix e2 e2) ⊗ₘ condKernel (gain S e1 e2) 0 (schur S e1 e2) := by
  simpa using map_pick_pair hZ hS e1 e2 hdet

/-- (3) **Integral form, any mean**: for all measurable `A`, `B`,
`P(X₁ ∈ A, X₂ ∈ B) = ∫_{z ∈ B} N(m₁ + G (z − m₂), Σ̄)(A) dN(m₂, S₂₂)(z)`. -/
theorem conditional_law_integral_mean (hZ : HasLaw Z (multivariateGaussian m S) P)
    (hS : S.PosSemidef) (e1 : α → ι) (e2 : β → ι) (hdet : IsUnit (S.submatrix e2 e2).det)
    {A : Set (EuclideanSpace ℝ α)} {B : Set (EuclideanSpace ℝ β)} (hA : MeasurableSet A)
    (hB : MeasurableSet B) :
    P ((fun ω => pick e1 (Z ω)) ⁻¹' A ∩ (fun ω => pick e2 (Z ω)) ⁻¹' B)
      = ∫⁻ z in B, multivariateGaussian (pick e1 m + mulE (gain S e1 e2) (z - pick e2 m))
            (schur S e1 e2) A ∂(multivariateGaussian (pick e2 m) (S.submatrix e2 e2)) :=
  measure_inter_pick hZ hS e1 e2 hdet hA hB

/-- (3) **Integral form, mean zero**: for all measurable `A`, `B`,
`P(X₁ ∈ A, X₂ ∈ B) = ∫_{z ∈ B} N(G z, Σ̄)(A) dN(0, S₂₂)(z)`. -/
theorem conditional_law_integral (hZ : HasLaw Z (multivariateGaussian 0 S) P)
    (hS : S.PosSemidef) (e1 : α → ι) (e2 : β → ι) (hdet : IsUnit (S.submatrix e2 e2).det)
    {A : Set (EuclideanSpace ℝ α)} {B : Set (EuclideanSpace ℝ β)} (hA : MeasurableSet A)
    (hB : MeasurableSet B) :
    P ((fun ω => pick e1 (Z ω)) ⁻¹' A ∩ (fun ω => pick e2 (Z ω)) ⁻¹' B)
      = ∫⁻ z in B, multivariateGaussian (mulE (gain S e1 e2) z) (schur S e1 e2) A
          ∂(multivariateGaussian 0 (S.submatrix e2 e2)) := by
  simpa using measure_inter_pick hZ hS e1 e2 hdet hA hB

/-- (3) **`condDistrib` form, any mean**: Mathlib's regular conditional distribution of `X₁` given
`X₂` is, for `Law(X₂)`-almost every `z`, the measure `N(m₁ + G (z − m₂), Σ̄)`. -/
theorem conditional_law_condDistrib_mean (hZ : HasLaw Z (multivariateGaussian m S) P)
    (hS : S.PosSemidef) (e1 : α → ι) (e2 : β → ι) (hdet : IsUnit (S.submatrix e2 e2).det) :
    haveI := hZ.isProbabilityMeasure
    ∀ᵐ z ∂(multivariateGaussian (pick e2 m) (S.submatrix e2 e2)),
      condDistrib (fun ω => pick e1 (Z ω)) (fun ω => pick e2 (Z ω)) P z
        = multivariateGaussian (pick e1 m + mulE (gain S e1 e2) (z - pick e2 m))
            (schur S e1 e2) :=
  condDistrib_pick hZ hS e1 e2 hdet

/-- (3) **`condDistrib` form, mean zero**: `condDistrib X₁ X₂ P z = N(G z, Σ̄)` for
`N(0, S₂₂)`-almost every `z`. -/
theorem conditional_law_condDistrib (hZ : HasLaw Z (multivariateGaussian 0 S) P)
    (hS : S.PosSemidef) (e1 : α → ι) (e2 : β → ι) (hdet : IsUnit (S.submatrix e2 e2).det) :
    haveI := hZ.isProbabilityMeasure
    ∀ᵐ z ∂(multivariateGaussian 0 (S.submatrix e2 e2)),
      condDistrib (fun ω => pick e1 (Z ω)) (fun ω => pick e2 (Z ω)) P z
        = multivariateGaussian (mulE (gain S e1 e2) z) (schur S e1 e2) := by
  simpa using condDistrib_pick hZ hS e1 e2 hdet

/-- (3) **Sampling scheme, any mean.**  On ANY probability space, if `Y ~ N(m₂, S₂₂)` and
`R' ~ N(0, Σ̄)` are independent, then `(Y, m₁ + G (Y − m₂) + R')` has the joint law of `(X₂, X₁)`. -/
theorem conditional_law_sampling_scheme_mean (hZ : HasLaw Z (multivariateGaussian m S) P)
    (hS : S.PosSemidef) (e1 : α → ι) (e2 : β → ι) (hdet : IsUnit (S.submatrix e2 e2).det)
    {Ω' : Type*} {mΩ' : MeasurableSpace Ω'} {P' : Measure Ω'}
    {Y : Ω' → EuclideanSpace ℝ β} {R' : Ω' → EuclideanSpace ℝ α}
    (hY : HasLaw Y (multivariateGaussian (pick e2 m) (S.submatrix e2 e2)) P')
    (hR' : HasLaw R' (multivariateGaussian 0 (schur S e1 e2)) P') (hind : IndepFun R' Y P') :
    P'.map (fun ω => (Y ω, pick e1 m + mulE (gain S e1 e2) (Y ω - pick e2 m) + R' ω))
      = P.map (fun ω => (pick e2 (Z ω), pick e1 (Z ω))) :=
  map_sampling_scheme hZ hS e1 e2 hdet hY hR' hind

/-- (3) **Sampling scheme, mean zero** — "draw `R' ~ N(0, Σ̄)` and add `G z`": if `Y ~ N(0, S₂₂)` and
`R' ~ N(0, Σ̄)` are independent, then `(Y, G Y + R')` has the joint law of `(X₂, X₁)`. -/
theorem conditional_law_sampling_scheme (hZ : HasLaw Z (multivariateGaussian 0 S) P)
    (hS : S.PosSemidef) (e1 : α → ι) (e2 : β → ι) (hdet : IsUnit (S.submatrix e2 e2).det)
    {Ω' : Type*} {mΩ' : MeasurableSpace Ω'} {P' : Measure Ω'}
    {Y : Ω' → EuclideanSpace ℝ β} {R' : Ω' → EuclideanSpace ℝ α}
    (hY : HasLaw Y (multivariateGaussian 0 (S.submatrix e2 e2)) P')
    (hR' : HasLaw R' (multivariateGaussian 0 (schur S e1 e2)) P') (hind : IndepFun R' Y P') :
    P'.map (fun ω => (Y ω, mulE (gain S e1 e2) (Y ω) + R' ω))
      = P.map (fun ω => (pick e2 (Z ω), pick e1 (Z ω))) := by
  have hY' : HasLaw Y (multivariateGaussian (pick e2 (0 : EuclideanSpace ℝ ι)) (S.submatrix e2 e2)) P' := by
    simpa using hY
  simpa using map_sampling_scheme hZ hS e1 e2 hdet hY' hR' hind

end conditional

/-- Non-vacuity of the hypotheses of all theorems above, and a worked instance: `ι = Fin 2`,
`S = [[2, 1], [1, 1]]` (positive semi-definite), `X₁` = coordinate `0`, `X₂` = coordinate `1`;
`S₂₂ = [1]` is invertible, a vector with law `N(0, S)` exists, and `G = [1]`, `Σ̄ = [2 − 1·1·1] = [1]`. -/
example :
    let S : Matrix (Fin 2) (Fin 2) ℝ := !![2, 1; 1, 1]
    let e1 : Fin 1 → Fin 2 := ![0]
    let e2 : Fin 1 → Fin 2 := ![1]
    S.PosSemidef ∧ IsUnit (S.submatrix e2 e2).det
      ∧ HasLaw id (multivariateGaussian 0 S) (multivariateGaussian 0 S)
      ∧ gain S e1 e2 = !![1] ∧ schur S e1 e2 = !![1] := by
  intro S e1 e2
  have hM : S = (!![1, 1; 1, 0] : Matrix (Fin 2) (Fin 2) ℝ)ᴴ * !![1, 1; 1, 0] := by
    ext i j
    fin_cases i <;> fin_cases j <;> simp [S, Matrix.mul_apply, Fin.sum_univ_two] <;> norm_num
  have h22 : S.submatrix e2 e2 = 1 := by
    ext i j
    fin_cases i; fin_cases j
    simp [S, e2]
  refine ⟨?_, ?_, HasLaw.id, ?_, ?_⟩
  · rw [hM]; exact Matrix.posSemidef_conjTranspose_mul_self _
  · rw [h22]; simp
  · rw [gain, h22, inv_one, Matrix.mul_one]
    ext i j
    fin_cases i; fin_cases j
    simp [S, e1, e2]
  · rw [schur, h22, inv_one, Matrix.mul_one]
    ext i j
    fin_cases i; fin_cases j
    simp only [Matrix.sub_apply, Matrix.mul_apply, Matrix.submatrix_apply, Fin.sum_univ_one]
    simp [S, e1, e2]
    norm_num

/-! ## connection with the model of C12 -/
section model
variable {ι : Type} [DecidableEq ι]

/-- **What the model hands to the sampler is `(G z, Σ̄)`.**  Under the hypotheses of
`C12.conditional_law_partial` (the model's `_get_conditional_distribution` returned `d`; `inv`
inverts the conditioned block `S₂₂`): with `e1 = d.columns.get` (the sorted complement `columns1`),
`e2 = c2.get` (the condition labels) and `z` the scores attached to those labels, the mean is
`G z` and the covariance is `Σ̄` for `G = gain (corrM S) e1 e2`, `Σ̄ = schur (corrM S) e1 e2` — the
parameters of the conditional law of the theorems above — so `N(mean, cov)` is the value at `z` of
the kernel `condKernel G 0 Σ̄`. -/
theorem sampler_params (inv : List (List ℝ) → List (List ℝ)) (le : ι → ι → Bool) (S : Corr ι ℝ)
    (nc : List (ι × ℝ)) {d : CondDist ι ℝ} (h : condDist inv le S nc = .ok d)
    (hdet : IsUnit ((corrM S).submatrix (nc.map Prod.fst).get (nc.map Prod.fst).get).det)
    (hinv : toM _ _ (inv (S.loc (nc.map Prod.fst) (nc.map Prod.fst)))
      = ((corrM S).submatrix (nc.map Prod.fst).get (nc.map Prod.fst).get)⁻¹) :
    let c2 := nc.map Prod.fst
    let z : EuclideanSpace ℝ (Fin c2.length) := toLp 2 (toV c2.length (nc.map Prod.snd))
    let G := gain (corrM S) d.columns.get c2.get
    let Sbar := schur (corrM S) d.columns.get c2.get
    d.columns = columns1 le S.labels c2
      ∧ toLp 2 (toV d.columns.length d.mean) = mulE G z
      ∧ toM d.columns.length d.columns.length d.cov = Sbar
      ∧ multivariateGaussian (toLp 2 (toV d.columns.length d.mean))
          (toM d.columns.length d.columns.length d.cov) = condKernel G 0 Sbar z := by
  intro c2 z G Sbar
  obtain ⟨hcol, hmean, hcov, -, -⟩ := C12.conditional_law_partial inv le S nc h hdet hinv
  have hm : toLp 2 (toV d.columns.length d.mean) = mulE G z := by
    rw [hmean]; rfl
  have hc : toM d.columns.length d.columns.length d.cov = Sbar := hcov
  exact ⟨hcol, hm, hc, by rw [hm, hc, condKernel_apply_zero]⟩

/-- **The model samples the conditional law** (no finiteness assumption on the label type).
Hypotheses of `C12.conditional_law_partial` plus: the fitted correlation is positive semi-definite.
Let `Z` be ANY random vector whose law is `N(0, Σ_perm)`, `Σ_perm` the fitted correlation with rows
and columns listed as `columns1 ++ c2` (by `C12.partition_exact` a rearrangement of the training
columns): `Z` is the vector of normal scores, `X₁ = pick Sum.inl ∘ Z` those of `columns1`,
`X₂ = pick Sum.inr ∘ Z` those of the conditioned columns.  Then there is a Markov kernel `κ` with
`κ z' = N(G z', Σ̄)` for EVERY `z'` such that (i) `κ` disintegrates the joint law of `(X₂, X₁)` over
`Law(X₂) = N(0, S₂₂)`, (ii) `κ` is Mathlib's `condDistrib X₁ X₂ P` almost everywhere, and (iii) at the
scores `z` of the call, `κ z` is exactly `N(d.mean, d.cov)`, the law the model asks numpy to sample. -/
theorem sampler_is_conditional_law (inv : List (List ℝ) → List (List ℝ)) (le : ι → ι → Bool)
    (S : Corr ι ℝ) (nc : List (ι × ℝ)) {d : CondDist ι ℝ} (h : condDist inv le S nc = .ok d)
    (hPSD : (corrM S).PosSemidef)
    (hdet : IsUnit ((corrM S).submatrix (nc.map Prod.fst).get (nc.map Prod.fst).get).det)
    (hinv : toM _ _ (inv (S.loc (nc.map Prod.fst) (nc.map Prod.fst)))
      = ((corrM S).submatrix (nc.map Prod.fst).get (nc.map Prod.fst).get)⁻¹)
    {Ω : Type*} {mΩ : MeasurableSpace Ω} {P : Measure Ω}
    {Z : Ω → EuclideanSpace ℝ (Fin d.columns.length ⊕ Fin (nc.map Prod.fst).length)}
    (hZ : HasLaw Z (multivariateGaussian 0 ((corrM S).submatrix
        (Sum.elim d.columns.get (nc.map Prod.fst).get)
        (Sum.elim d.columns.get (nc.map Prod.fst).get))) P) :
    let c2 := nc.map Prod.fst
    let z : EuclideanSpace ℝ (Fin c2.length) := toLp 2 (toV c2.length (nc.map Prod.snd))
    let X1 : Ω → EuclideanSpace ℝ (Fin d.columns.length) := fun ω => pick Sum.inl (Z ω)
    let X2 : Ω → EuclideanSpace ℝ (Fin c2.length) := fun ω => pick Sum.inr (Z ω)
    let S22 := (corrM S).submatrix c2.get c2.get
    haveI := hZ.isProbabilityMeasure
    ∃ κ : Kernel (EuclideanSpace ℝ (Fin c2.length)) (EuclideanSpace ℝ (Fin d.columns.length)),
      IsMarkovKernel κ
      ∧ (∀ z', κ z' = multivariateGaussian (mulE (gain (corrM S) d.columns.get c2.get) z')
            (schur (corrM S) d.columns.get c2.get))
      ∧ HasLaw X2 (multivariateGaussian 0 S22) P
      ∧ P.map (fun ω => (X2 ω, X1 ω)) = multivariateGaussian 0 S22 ⊗ₘ κ
      ∧ condDistrib X1 X2 P =ᵐ[multivariateGaussian 0 S22] κ
      ∧ κ z = multivariateGaussian (toLp 2 (toV d.columns.length d.mean))
          (toM d.columns.length d.columns.length d.cov) := by
  intro c2 z X1 X2 S22
  have hprob := hZ.isProbabilityMeasure
  obtain ⟨-, -, -, hk⟩ := sampler_params inv le S nc h hdet hinv
  set Sp := (corrM S).submatrix (Sum.elim d.columns.get c2.get) (Sum.elim d.columns.get c2.get)
    with hSp
  have hSpPSD : Sp.PosSemidef := hPSD.submatrix _
  have e22 : Sp.submatrix (Sum.inr : Fin c2.length → _) Sum.inr = S22 := by
    ext i j; rfl
  have e12 : Sp.submatrix (Sum.inl : Fin d.columns.length → _) (Sum.inr : Fin c2.length → _)
      = (corrM S).submatrix d.columns.get c2.get := by
    ext i j; rfl
  have e21 : Sp.submatrix (Sum.inr : Fin c2.length → _) (Sum.inl : Fin d.columns.length → _)
      = (corrM S).submatrix c2.get d.columns.get := by
    ext i j; rfl
  have e11 : Sp.submatrix (Sum.inl : Fin d.columns.length → _) Sum.inl
      = (corrM S).submatrix d.columns.get d.columns.get := by
    ext i j; rfl
  have eG : CondLaw.gain Sp (Sum.inl : Fin d.columns.length → _) (Sum.inr : Fin c2.length → _)
      = CondLaw.gain (corrM S) d.columns.get c2.get := by
    unfold CondLaw.gain; rw [e12, e22]
  have eS : schur Sp (Sum.inl : Fin d.columns.length → _) (Sum.inr : Fin c2.length → _)
      = schur (corrM S) d.columns.get c2.get := by
    unfold schur; rw [e11, e12, e21, e22]
  have hdet' : IsUnit (Sp.submatrix (Sum.inr : Fin c2.length → _) Sum.inr).det := by
    rw [e22]; exact hdet
  have hX2 : HasLaw X2 (multivariateGaussian 0 S22) P := by
    rw [← e22]; exact cond_marginal_law hZ hSpPSD _
  have hjoint := conditional_law_kernel hZ hSpPSD Sum.inl Sum.inr hdet'
  rw [e22, eG, eS] at hjoint
  refine ⟨condKernel (gain (corrM S) d.columns.get c2.get) 0 (schur (corrM S) d.columns.get c2.get),
    inferInstance, fun z' => condKernel_apply_zero _ _ z', hX2, hjoint, ?_, hk.symm⟩
  have := condDistrib_ae_eq_of_measure_eq_compProd (μ := P) X2
    (cond_marginal_law hZ hSpPSD (Sum.inl : Fin d.columns.length → _)).aemeasurable
    (κ := condKernel (gain (corrM S) d.columns.get c2.get) 0 (schur (corrM S) d.columns.get c2.get))
    (by rw [hX2.map_eq]; exact hjoint)
  rwa [hX2.map_eq] at this

/-- The same when the labels form a finite type (e.g. `Fin d`): `Z` is the vector of ALL normal
scores, indexed by the labels themselves, with law `N(0, Σ)`; `X₁`, `X₂` are its coordinates at
`columns1` and at the condition labels.  Then `condDistrib X₁ X₂ P z' = N(G z', Σ̄)` for almost every
`z'`, the joint law of `(X₂, X₁)` is `N(0, S₂₂) ⊗ (z' ↦ N(G z', Σ̄))`, and `N(d.mean, d.cov)` is that
kernel at the scores `z` of the call. -/
theorem sampler_is_conditional_law_fintype [Fintype ι] (inv : List (List ℝ) → List (List ℝ))
    (le : ι → ι → Bool) (S : Corr ι ℝ) (nc : List (ι × ℝ)) {d : CondDist ι ℝ}
    (h : condDist inv le S nc = .ok d) (hPSD : (corrM S).PosSemidef)
    (hdet : IsUnit ((corrM S).submatrix (nc.map Prod.fst).get (nc.map Prod.fst).get).det)
    (hinv : toM _ _ (inv (S.loc (nc.map Prod.fst) (nc.map Prod.fst)))
      = ((corrM S).submatrix (nc.map Prod.fst).get (nc.map Prod.fst).get)⁻¹)
    {Ω : Type*} {mΩ : MeasurableSpace Ω} {P : Measure Ω} {Z : Ω → EuclideanSpace ℝ ι}
    (hZ : HasLaw Z (multivariateGaussian 0 (corrM S)) P) :
    let c2 := nc.map Prod.fst
    let z : EuclideanSpace ℝ (Fin c2.length) := toLp 2 (toV c2.length (nc.map Prod.snd))
    let X1 : Ω → EuclideanSpace ℝ (Fin d.columns.length) := fun ω => pick d.columns.get (Z ω)
    let X2 : Ω → EuclideanSpace ℝ (Fin c2.length) := fun ω => pick c2.get (Z ω)
    let S22 := (corrM S).submatrix c2.get c2.get
    let κ := condKernel (gain (corrM S) d.columns.get c2.get) 0 (schur (corrM S) d.columns.get c2.get)
    haveI := hZ.isProbabilityMeasure
    P.map (fun ω => (X2 ω, X1 ω)) = multivariateGaussian 0 S22 ⊗ₘ κ
      ∧ (∀ᵐ z' ∂(multivariateGaussian 0 S22), condDistrib X1 X2 P z'
          = multivariateGaussian (mulE (gain (corrM S) d.columns.get c2.get) z')
              (schur (corrM S) d.columns.get c2.get))
      ∧ κ z = multivariateGaussian (toLp 2 (toV d.columns.length d.mean))
          (toM d.columns.length d.columns.length d.cov) := by
  intro c2 z X1 X2 S22 κ
  obtain ⟨-, -, -, hk⟩ := sampler_params inv le S nc h hdet hinv
  exact ⟨conditional_law_kernel hZ hPSD _ _ hdet, conditional_law_condDistrib hZ hPSD _ _ hdet,
    hk.symm⟩

/-- Non-vacuity of the hypotheses of `sampler_params` / `sampler_is_conditional_law(_fintype)`:
labels `0, 1 : Fin 2` with Σ = [[2, 1], [1, 1]], condition on label `1` (score `0.3`), `inv = id`:
the model returns a `d`, Σ is positive semi-definite, `S₂₂ = [1]` is invertible and inverted by `inv`,
and a vector `Z` with the required law exists (the identity on the space carrying that law). -/
example :
    let S : Corr (Fin 2) ℝ := ⟨[0, 1], [[2, 1], [1, 1]]⟩
    let nc : List (Fin 2 × ℝ) := [((1 : Fin 2), (0.3 : ℝ))]
    (corrM S).PosSemidef
      ∧ IsUnit ((corrM S).submatrix (nc.map Prod.fst).get (nc.map Prod.fst).get).det
      ∧ toM _ _ (id (S.loc (nc.map Prod.fst) (nc.map Prod.fst)))
          = ((corrM S).submatrix (nc.map Prod.fst).get (nc.map Prod.fst).get)⁻¹
      ∧ (∃ d, condDist id (fun a b => decide (a ≤ b)) S nc = .ok d)
      ∧ HasLaw id (multivariateGaussian 0 (corrM S)) (multivariateGaussian 0 (corrM S)) := by
  intro S nc
  have hM : corrM S = (!![1, 1; 1, 0] : Matrix (Fin 2) (Fin 2) ℝ)ᴴ * !![1, 1; 1, 0] := by
    ext i j
    fin_cases i <;> fin_cases j <;>
      simp [S, Corr.loc1, entry, Matrix.mul_apply, Fin.sum_univ_two, List.idxOf, List.findIdx,
        List.findIdx.go] <;> norm_num
  have h1 : (corrM S).submatrix (nc.map Prod.fst).get (nc.map Prod.fst).get
      = (1 : Matrix (Fin 1) (Fin 1) ℝ) := by
    ext i j
    fin_cases i; fin_cases j
    simp [S, nc, Corr.loc1, entry, List.idxOf, List.findIdx, List.findIdx.go]
  refine ⟨?_, ?_, ?_, ?_, HasLaw.id⟩
  · rw [hM]; exact Matrix.posSemidef_conjTranspose_mul_self _
  · rw [h1]; simp
  · rw [h1, inv_one]
    ext i j
    fin_cases i; fin_cases j
    simp [S, nc, Corr.loc, Corr.loc1, entry, List.idxOf, List.findIdx, List.findIdx.go]
  · have hc1 : columns1 (fun a b : Fin 2 => decide (a ≤ b)) S.labels [1] = [0] := by
      simp [columns1, S]
    refine ⟨⟨condMean id S [0] [1] [0.3], condCov id S [0] [1], [0]⟩, ?_⟩
    simp only [condDist, nc, List.map_cons, List.map_nil, hc1]; rfl

end model

end CopVerif.Props.C12b
