import CopVerif.Props.C03
import CopVerif.Real.KDENormal
/-!
# C03 (continued) — `GaussianKDE` with the TRUE standard normal kernel CDF

Property theorems only.  `CopVerif.Props.C03` states the laws of `GaussianKDE.cumulative_distribution`
/ `percent_point` for an arbitrary kernel CDF `Φ` with `Uni.IsCDF Φ` (`scipy.special.ndtr` as a
hypothesis bundle).  Here `Φ := PIT.stdPhi = cdf (gaussianReal 0 1)`, Mathlib's standard normal
distribution function, and NO hypothesis on `Φ` is left: the bundles are discharged in
`CopVerif/Real/KDENormal.lean` (`stdPhi_isCDF`, continuity, limits, `Φ' = gaussianPDFReal 0 1`), and
the numeric clause behind the range tolerance is proved (`stdPhi_tail_const`:
`Φ(−5·√(4/5)) < 39/10⁷`).  Every statement is still about the GENERATED `Gen.UniConst.kdeCdf`,
`ppfResidual`, `ppfBracket`, `kdeBounds`.
-/
namespace CopVerif.Props.C03b
open CopVerif NumFns Gen.UniConst Uni KDE PIT KDENormal Filter Topology MeasureTheory
open ProbabilityTheory

section kde
variable {xs ws : List ℝ} {cov : ℝ}

/-! ## `GaussianKDE.cumulative_distribution` -/

theorem kde_cdf_mono (hw : ∀ w ∈ ws, 0 ≤ w) (hcov : 0 < cov) :
    Monotone (kdeCdf stdPhi xs ws cov) :=
  C03.kde_cdf_mono stdPhi_isCDF hw hcov

theorem kde_cdf_le_one (hw : ∀ w ∈ ws, 0 ≤ w) (hsum : ws.sum = 1) (hlen : xs.length = ws.length)
    (x : ℝ) : kdeCdf stdPhi xs ws cov x ≤ 1 :=
  C03.kde_cdf_le_one stdPhi_isCDF hw hsum hlen x

/-- the CDF vanishes exactly at the lower bound `L = min − 5σ` -/
theorem kde_cdf_at_lower (xs ws : List ℝ) (cov : ℝ) :
    kdeCdf stdPhi xs ws cov (kdeBounds xs).1 = 0 :=
  C03.kde_cdf_at_lower stdPhi xs ws cov

theorem kde_cdf_ge_neg_deficit (hw : ∀ w ∈ ws, 0 ≤ w) (x : ℝ) :
    -deficit stdPhi xs ws cov ≤ kdeCdf stdPhi xs ws cov x :=
  C03.kde_cdf_ge_neg_deficit stdPhi_isCDF hw x

theorem kde_deficit_small (hw : ∀ w ∈ ws, 0 ≤ w) (hsum : ws.sum = 1)
    (hlen : xs.length = ws.length) (hcov : 0 < cov) :
    0 ≤ deficit stdPhi xs ws cov ∧
      deficit stdPhi xs ws cov ≤ stdPhi (-(5 * popStd xs) / Real.sqrt cov) :=
  C03.kde_deficit_small stdPhi_isCDF hw hsum hlen hcov

theorem kde_cdf_at_upper (hw : ∀ w ∈ ws, 0 ≤ w) (hsum : ws.sum = 1)
    (hlen : xs.length = ws.length) (hcov : 0 < cov) :
    stdPhi (5 * popStd xs / Real.sqrt cov) - deficit stdPhi xs ws cov
        ≤ kdeCdf stdPhi xs ws cov (kdeBounds xs).2 ∧
      kdeCdf stdPhi xs ws cov (kdeBounds xs).2 ≤ 1 - deficit stdPhi xs ws cov :=
  C03.kde_cdf_at_upper stdPhi_isCDF hw hsum hlen hcov

/-- Tails: the CDF tends to `−deficit` at `−∞` and to `1 − deficit` at `+∞`. -/
theorem kde_cdf_tendsto (hlen : xs.length = ws.length) (hsum : ws.sum = 1) (hcov : 0 < cov) :
    Tendsto (kdeCdf stdPhi xs ws cov) atBot (𝓝 (-deficit stdPhi xs ws cov)) ∧
      Tendsto (kdeCdf stdPhi xs ws cov) atTop (𝓝 (1 - deficit stdPhi xs ws cov)) :=
  C03.kde_cdf_tendsto hlen hsum hcov stdPhi_tendsto_atBot stdPhi_tendsto_atTop

/-- The derivative of the CDF is the Gaussian kernel density estimate
`Σ_i w_i φ((x − x_i)/h)/h`, `φ = gaussianPDFReal 0 1` (what `gaussian_kde.evaluate` computes). -/
theorem kde_cdf_hasDerivAt_pdf (hcov : 0 < cov) (x : ℝ) :
    HasDerivAt (kdeCdf stdPhi xs ws cov)
      (wsum (fun xi => gaussianPDFReal 0 1 ((x - xi) / Real.sqrt cov) / Real.sqrt cov) xs ws) x :=
  C03.kde_cdf_is_integral_of_pdf (φ := gaussianPDFReal 0 1) stdPhi_hasDerivAt hcov x

/-- … and the CDF increment over any interval is the integral of that density. -/
theorem kde_cdf_is_integral_of_pdf (hcov : 0 < cov) (a b : ℝ) :
    ∫ x in a..b, wsum (fun xi => gaussianPDFReal 0 1 ((x - xi) / Real.sqrt cov) / Real.sqrt cov)
        xs ws = kdeCdf stdPhi xs ws cov b - kdeCdf stdPhi xs ws cov a := by
  have hc : Continuous fun x : ℝ =>
      wsum (fun xi => gaussianPDFReal 0 1 ((x - xi) / Real.sqrt cov) / Real.sqrt cov) xs ws :=
    wsum_continuous
      (F := fun x xi => gaussianPDFReal 0 1 ((x - xi) / Real.sqrt cov) / Real.sqrt cov)
      (fun xi => (stdPdf_continuous.comp
        ((continuous_id.sub continuous_const).div_const _)).div_const _) xs ws
  exact intervalIntegral.integral_eq_sub_of_hasDerivAt
    (fun x _ => kde_cdf_hasDerivAt_pdf (xs := xs) (ws := ws) hcov x) (hc.intervalIntegrable a b)

/-! ## `GaussianKDE.percent_point` -/

/-- Root-finder precondition for every `0 ≤ q ≤ Φ(5σ/h) − Φ(−5σ/h)`.  PARTIAL for the same reason as
`C03.kde_ppf_bracket_partial`: the clause "for every `q ∈ (ε, 1 − ε)`" is false. -/
theorem kde_ppf_bracket_partial (hw : ∀ w ∈ ws, 0 ≤ w) (hsum : ws.sum = 1)
    (hlen : xs.length = ws.length) (hcov : 0 < cov) {q : ℝ} (hq0 : 0 ≤ q)
    (hq : q ≤ stdPhi (5 * popStd xs / Real.sqrt cov) - stdPhi (-(5 * popStd xs) / Real.sqrt cov)) :
    ppfResidual stdPhi xs ws cov q (ppfBracket xs).1 ≤ 0 ∧
      0 ≤ ppfResidual stdPhi xs ws cov q (ppfBracket xs).2 :=
  C03.kde_ppf_bracket_partial stdPhi_isCDF hw hsum hlen hcov hq0 hq

/-- the bracketed residual has a root in `[L, U]`: `cdf(ppf(q)) = q` is attainable there. -/
theorem kde_ppf_root_exists (hw : ∀ w ∈ ws, 0 ≤ w) (hsum : ws.sum = 1)
    (hlen : xs.length = ws.length) (hcov : 0 < cov) (hne : xs ≠ []) {q : ℝ} (hq0 : 0 ≤ q)
    (hq : q ≤ stdPhi (5 * popStd xs / Real.sqrt cov) - stdPhi (-(5 * popStd xs) / Real.sqrt cov)) :
    ∃ x, (ppfBracket xs).1 ≤ x ∧ x ≤ (ppfBracket xs).2 ∧ kdeCdf stdPhi xs ws cov x = q :=
  C03.kde_ppf_root_exists stdPhi_isCDF stdPhi_continuous hw hsum hlen hcov hne hq0 hq

theorem kde_ppf_mono (hw : ∀ w ∈ ws, 0 ≤ w) (hcov : 0 < cov) {q₁ q₂ x₁ x₂ : ℝ}
    (h1 : kdeCdf stdPhi xs ws cov x₁ = q₁) (h2 : kdeCdf stdPhi xs ws cov x₂ = q₂) (hq : q₁ < q₂) :
    x₁ < x₂ :=
  C03.kde_ppf_mono stdPhi_isCDF hw hcov h1 h2 hq

end kde

/-! ## the range clause at its tolerance -/

/-- the numeric clause: the standard normal mass below `−5·√(4/5)` is `< 3.9·10⁻⁶` (`< 4·10⁻⁶`). -/
theorem normal_tail_const :
    stdPhi (-(5 * Real.sqrt (4 / 5))) < 39 / 10 ^ 7 ∧
      stdPhi (-(5 * Real.sqrt (4 / 5))) < 4 / 10 ^ 6 :=
  ⟨stdPhi_tail_const, stdPhi_tail_const'⟩

/-- DESIGN section 8 with the true normal kernel: for `h = factor · σ_{n−1}` (scott, silverman,
scalar), `factor ≤ 1`, `n ≥ 5` the truncated mass is `< 39/10⁷`. -/
theorem kde_deficit_small_factor {xs ws : List ℝ} {cov factor : ℝ} (hw : ∀ w ∈ ws, 0 ≤ w)
    (hsum : ws.sum = 1) (hlen : xs.length = ws.length) (hσ : 0 < popStd xs) (hf : 0 < factor)
    (hf1 : factor ≤ 1) (hn5 : 5 ≤ xs.length)
    (hcov : cov = factor ^ 2 * ((xs.length : ℝ) / ((xs.length : ℝ) - 1)) * popStd xs ^ 2) :
    deficit stdPhi xs ws cov < 39 / 10 ^ 7 :=
  lt_of_le_of_lt (C03.kde_deficit_small_factor stdPhi_isCDF hw hsum hlen hσ hf hf1 hn5 hcov)
    stdPhi_tail_const

/-- **Range clause of C03 at its stated tolerance.**  With the true normal kernel, for the
unweighted bandwidth rules with `factor ≤ 1` and `n ≥ 5` data points of positive spread,
`GaussianKDE.cumulative_distribution` takes values in `(−3.9·10⁻⁶, 1]` at EVERY `x`
(it is negative below the lower bound, `C03.kde_cdf_nonneg_counterexample`, but never by more). -/
theorem kde_cdf_range {xs ws : List ℝ} {cov factor : ℝ} (hw : ∀ w ∈ ws, 0 ≤ w)
    (hsum : ws.sum = 1) (hlen : xs.length = ws.length) (hσ : 0 < popStd xs) (hf : 0 < factor)
    (hf1 : factor ≤ 1) (hn5 : 5 ≤ xs.length)
    (hcov : cov = factor ^ 2 * ((xs.length : ℝ) / ((xs.length : ℝ) - 1)) * popStd xs ^ 2) (x : ℝ) :
    -(39 / 10 ^ 7) < kdeCdf stdPhi xs ws cov x ∧ kdeCdf stdPhi xs ws cov x ≤ 1 := by
  have hd := kde_deficit_small_factor hw hsum hlen hσ hf hf1 hn5 hcov
  have hl := kde_cdf_ge_neg_deficit (xs := xs) (cov := cov) hw x
  exact ⟨by linarith, kde_cdf_le_one hw hsum hlen x⟩

/-- the same at the round tolerance `4·10⁻⁶` quoted in DESIGN section 8 -/
theorem kde_cdf_range' {xs ws : List ℝ} {cov factor : ℝ} (hw : ∀ w ∈ ws, 0 ≤ w)
    (hsum : ws.sum = 1) (hlen : xs.length = ws.length) (hσ : 0 < popStd xs) (hf : 0 < factor)
    (hf1 : factor ≤ 1) (hn5 : 5 ≤ xs.length)
    (hcov : cov = factor ^ 2 * ((xs.length : ℝ) / ((xs.length : ℝ) - 1)) * popStd xs ^ 2) (x : ℝ) :
    -(4 / 10 ^ 6) ≤ kdeCdf stdPhi xs ws cov x ∧ kdeCdf stdPhi xs ws cov x ≤ 1 := by
  obtain ⟨h1, h2⟩ := kde_cdf_range hw hsum hlen hσ hf hf1 hn5 hcov x
  exact ⟨by linarith, h2⟩

/-- non-vacuity of `kde_cdf_range`: five equally weighted points, `factor = 1` (so
`cov = 5/4 · σ²`); all hypotheses hold and the conclusion follows for every `x`. -/
example (x : ℝ) :
    -(39 / 10 ^ 7) <
        kdeCdf stdPhi [-2, -1, 0, 1, 2] [1/5, 1/5, 1/5, 1/5, 1/5]
          (1 ^ 2 * ((5 : ℝ) / (5 - 1)) * popStd [(-2 : ℝ), -1, 0, 1, 2] ^ 2) x ∧
      kdeCdf stdPhi [-2, -1, 0, 1, 2] [1/5, 1/5, 1/5, 1/5, 1/5]
          (1 ^ 2 * ((5 : ℝ) / (5 - 1)) * popStd [(-2 : ℝ), -1, 0, 1, 2] ^ 2) x ≤ 1 := by
  refine kde_cdf_range (xs := [-2, -1, 0, 1, 2]) (ws := [1/5, 1/5, 1/5, 1/5, 1/5]) (factor := 1)
    ?_ (by norm_num) rfl ?_ one_pos le_rfl (by simp) (by norm_num) x
  · intro w hw; simp at hw; rw [hw]; norm_num
  · simp [popStd, listMean, sumList]
    norm_num

end CopVerif.Props.C03b
