import CopVerif.Props.C19
import CopVerif.Lemmas.LifecycleB
/-!
# C19b — complete case analyses for re-fit purity, unfitted entry points and `get_instance`

Property theorems only (core Lean, no Mathlib).  `Props/C19.lean` left two theorems `_partial`
because the code has recorded defects (`/verif/known_findings.json`, property C19).  Here the
full-strength statements are proved for **exactly** the classes / constructor calls / entry points
the code as it is satisfies them for, the remaining ones are enumerated explicitly, each with a
kernel-checked counter-example, and the two sides together cover everything the property names.

* **Re-fit purity** (`refit_pure_partial`).  The model's `Variant` has three flags.  The code as it is
  now is `Variant.current = ⟨false, true, true⟩` (the constant-method override of `Variant.asFound`
  was repaired in /repo commit c9bdab3).  `refit_pure_iff` characterises, for **all eight**
  variants, every kind of class and every pattern of constructor options, when re-fitting is pure:
  iff `Unaffected`.  For the current code: every `ScipyModel` family other than the two below —
  all histories, all options, state-identical; `TruncatedGaussian` — iff both bounds are given;
  `GaussianKDE` — iff a (non-zero) `sample_size` is given; the selecting wrapper `Univariate` —
  always (`C19.refit_pure_wrapper`).
* **Unfitted entry points** (`unfitted_raises_partial`).  All 144 (class, method) rows of the
  generated guard table for the fifteen model classes are partitioned: 119 start with `check_fit()`
  (`NotFittedError`, by `C19.unfitted_raises`); 5 are not implemented by the class at all; the 7
  rows of the five recorded findings, 4 `to_dict` rows and the 9 rows of the parameter-free
  `Independence` copula run their body.
* **`get_instance`**: the classes of the generated table split into those whose constructor records
  its arguments (clone = the prototype as constructed) and those that lose them (clone configured
  like the prototype iff the prototype was built with no options).
-/
namespace CopVerif.Props.C19b
open CopVerif CopVerif.Model.Lifecycle

variable {C V O P D : Type}

/-! ## re-fit purity: exact characterisation -/

/-- **For every variant of the model, every kind of class and every pattern of constructor
options**, "re-fitting after any history is observably a fresh fit — for all interpretations of the
external fitters, all classes, all such constructor calls, all histories" holds **iff** the
configuration is `Unaffected`: the variant removes the constant methods, and a bounds-remembering
variant meets a `TruncatedGaussian` only with both bounds given, and a size-caching variant meets a
`GaussianKDE` only with a truthy `sample_size` given.  (`←` by the invariant `Settled`; `→` by closed
counter-examples under the free fitters.) -/
theorem refit_pure_iff (v : Variant) (k : Kind) (g : Given) :
    RefitPureAt v k g ↔ Unaffected v k g = true :=
  refitPureAt_iff v k g

/-- the condition, spelled out at the current code and at the two named variants. -/
theorem unaffected_current (k : Kind) (g : Given) :
    (Unaffected .current k g = true ↔
      (k = .truncated → g.min = true ∧ g.max = true) ∧ (k = .kde → g.size = true)) ∧
    Unaffected .repaired k g = true ∧ Unaffected .asFound k g = false := by
  rcases g with ⟨_ | _, _ | _, _ | _⟩ <;> cases k <;> decide

/-- **Positive side, at full strength**: in every variant that removes the constant methods, a model
whose constructor options cannot be overwritten by a fit — any class of kind `scipy`; a
`TruncatedGaussian` given both bounds (or a variant that does not remember them); a `GaussianKDE`
given a truthy `sample_size` (or a variant that does not cache it) — is, after **any** history of
fits (constant or not, any ranges and sizes) followed by `x`, *state-identical* (hidden option
attributes included) to a fresh model fitted on `x`. -/
theorem refit_pure_unaffected (v : Variant) (hv : v.keepOverride = false) (ops : DataOps D V)
    (F : Fitters C V O P D) (c : C) (k : Kind) (o : Opts V O)
    (hb : k = .truncated → v.rememberBounds = true → o.min ≠ none ∧ o.max ≠ none)
    (hs : k = .kde → v.cacheSize = true → truthy o.sampleSize ≠ none) (xs : List D) (x : D) :
    fitAll v ops F (UState.fresh c k o) (xs ++ [x]) = fit v ops F (UState.fresh c k o) x ∧
    obs (fitAll v ops F (UState.fresh c k o) (xs ++ [x])) = obs (fit v ops F (UState.fresh c k o) x) := by
  have h := refit_state_of_optsOK v hv ops F c k o ⟨hb, hs⟩ xs x
  exact ⟨h, by rw [h]⟩

/-- non-vacuity: a `TruncatedGaussian(minimum=0, maximum=9)` and a `GaussianKDE(sample_size=5)`. -/
example :
    ((⟨some 0, some 9, none, ()⟩ : Opts Nat Unit).min ≠ none ∧
      (⟨some 0, some 9, none, ()⟩ : Opts Nat Unit).max ≠ none) ∧
    truthy (⟨none, none, some 5, ()⟩ : Opts Nat Unit).sampleSize ≠ none := by
  decide

/-! ## re-fit purity of the code as it is: class by class -/

/-- The univariate classes of the generated table: exactly `TruncatedGaussian` writes `min`/`max`
in its fit path, exactly `GaussianKDE` writes `_sample_size`; `Univariate`, `ScipyModel` and the six
other families write no option attribute (kind `scipy`). -/
theorem refit_classes :
    (∀ ci ∈ Gen.Lifecycle.classes, ci.package = "univariate" →
      (kindOfInfo ci = .truncated ↔ ci.name = "TruncatedGaussian") ∧
      (kindOfInfo ci = .kde ↔ ci.name = "GaussianKDE") ∧
      (kindOfInfo ci = .scipy ↔ ci.name ∈ ["Univariate", "ScipyModel", "BetaUnivariate", "GammaUnivariate",
        "GaussianUnivariate", "LogLaplace", "StudentTUnivariate", "UniformUnivariate"])) ∧
    (Gen.Lifecycle.classes.filter fun ci => ci.package == "univariate").map (·.name) =
      ["Univariate", "ScipyModel", "BetaUnivariate", "GammaUnivariate", "GaussianUnivariate", "GaussianKDE",
       "LogLaplace", "StudentTUnivariate", "TruncatedGaussian", "UniformUnivariate"] := by
  decide

/-- **Every univariate class not affected by a recorded finding is re-fit pure in the code as it
is**: for each row of the generated table in `copulas.univariate` other than `TruncatedGaussian` and
`GaussianKDE`, a model of that class built with any options and fitted on any history of datasets
and then on `x` is state-identical to a fresh one fitted on `x` — for every interpretation of the
external fitters. -/
theorem refit_pure_current_unaffected_classes (ops : DataOps D V) (F : Fitters String V O P D) :
    ∀ ci ∈ Gen.Lifecycle.classes, ci.package = "univariate" →
      ci.name ≠ "TruncatedGaussian" → ci.name ≠ "GaussianKDE" →
      ∀ (o : Opts V O) (xs : List D) (x : D),
        fitAll .current ops F (UState.fresh ci.name (kindOfInfo ci) o) (xs ++ [x]) =
          fit .current ops F (UState.fresh ci.name (kindOfInfo ci) o) x := by
  intro ci hci hp h1 h2 o xs x
  obtain ⟨a, b, _⟩ := refit_classes.1 ci hci hp
  refine (refit_pure_unaffected .current rfl ops F ci.name (kindOfInfo ci) o ?_ ?_ xs x).1
  · intro hk; exact absurd (a.1 hk) h1
  · intro hk; exact absurd (b.1 hk) h2

/-- **`TruncatedGaussian` in the code as it is**: re-fit pure (all fitters, all histories) exactly
for the constructor calls that give **both** bounds. -/
theorem refit_pure_current_truncated_iff (g : Given) :
    RefitPureAt .current .truncated g ↔ (g.min = true ∧ g.max = true) := by
  rw [refit_pure_iff]
  rcases g with ⟨_ | _, _ | _, _ | _⟩ <;> decide

/-- **`GaussianKDE` in the code as it is**: re-fit pure exactly for the constructor calls that give
a truthy `sample_size`. -/
theorem refit_pure_current_kde_iff (g : Given) :
    RefitPureAt .current .kde g ↔ g.size = true := by
  rw [refit_pure_iff]
  rcases g with ⟨_ | _, _ | _, _ | _⟩ <;> decide

/-- … and a class that writes no option attribute is re-fit pure whatever it is given. -/
theorem refit_pure_current_scipy (g : Given) : RefitPureAt .current .scipy g := by
  rw [refit_pure_iff]
  rcases g with ⟨_ | _, _ | _, _ | _⟩ <;> decide

/-- Counter-example, finding `TruncatedGaussian.fit:bounds-remembered-across-refit`, in the code as
it is and for **any** fitters and data: after two non-constant fits `A`, `B` the instance holds —
and the second fit used — every bound the constructor did not give as derived from `A`, where a
fresh fit on `B` derives it from `B`; whenever the external fitter tells the two option records
apart the re-fitted model is observably different.  (With both bounds given the two records
coincide: `orElse (some m) _ = some m`.) -/
theorem refit_current_truncated_counterexample (ops : DataOps D V) (F : Fitters C V O P D)
    (c : C) (o : Opts V O) (A B : D) (hA : ops.const? A = none) (hB : ops.const? B = none) :
    let s := fitAll .current ops F (UState.fresh c .truncated o) [A, B]
    let f := fit .current ops F (UState.fresh c .truncated o) B
    hidden s = (orElse o.min (ops.lo A), orElse o.max (ops.hi A), o.sampleSize) ∧
    hidden f = (orElse o.min (ops.lo B), orElse o.max (ops.hi B), o.sampleSize) ∧
    s.params = some (F.fitFn c ⟨orElse o.min (ops.lo A), orElse o.max (ops.hi A), none, o.other⟩ B) ∧
    f.params = some (F.fitFn c ⟨orElse o.min (ops.lo B), orElse o.max (ops.hi B), none, o.other⟩ B) ∧
    (F.fitFn c ⟨orElse o.min (ops.lo A), orElse o.max (ops.hi A), none, o.other⟩ B ≠
      F.fitFn c ⟨orElse o.min (ops.lo B), orElse o.max (ops.hi B), none, o.other⟩ B → obs s ≠ obs f) := by
  have oo : ∀ (a : Option V) (b b' : V), orElse (orElse a b) b' = orElse a b := by
    intro a b b'; cases a <;> rfl
  have e1 : (fitAll .current ops F (UState.fresh c .truncated o) [A, B]).params =
      some (F.fitFn c ⟨orElse o.min (ops.lo A), orElse o.max (ops.hi A), none, o.other⟩ B) := by
    simp [fitAll, fit, hA, hB, UState.fresh, stepBound, effOpts, oo]
  have e2 : (fit .current ops F (UState.fresh c .truncated o) B).params =
      some (F.fitFn c ⟨orElse o.min (ops.lo B), orElse o.max (ops.hi B), none, o.other⟩ B) := by
    simp [fit, hB, UState.fresh, stepBound, effOpts]
  refine ⟨?_, ?_, e1, e2, ?_⟩
  · simp [fitAll, fit, hA, hB, UState.fresh, stepBound, hidden, stepSize, oo]
  · simp [fit, hB, UState.fresh, stepBound, hidden, stepSize]
  · intro hne h
    have := congrArg Obs.params h
    simp only [obs] at this
    rw [e1, e2] at this
    exact hne (Option.some.inj this)

/-- Counter-example, finding `GaussianKDE.fit:sample-size-cached-resamples-on-refit`, in the code
as it is and for any fitters and data: the second non-constant fit reads the size cached by the
first — `sample_size or len(A)` — where a fresh fit reads the constructor's; whenever the external
fitter tells "resample `n` points" from the constructor's setting the re-fitted model is observably
different.  (With a truthy `sample_size` given the two coincide.) -/
theorem refit_current_kde_counterexample (ops : DataOps D V) (F : Fitters C V O P D)
    (c : C) (o : Opts V O) (A B : D) (hA : ops.const? A = none) (hB : ops.const? B = none) :
    let s := fitAll .current ops F (UState.fresh c .kde o) [A, B]
    let f := fit .current ops F (UState.fresh c .kde o) B
    s.params = some (F.fitFn c ⟨none, none, truthy (some (orLen o.sampleSize (ops.len A))), o.other⟩ B) ∧
    f.params = some (F.fitFn c ⟨none, none, truthy o.sampleSize, o.other⟩ B) ∧
    (F.fitFn c ⟨none, none, truthy (some (orLen o.sampleSize (ops.len A))), o.other⟩ B ≠
      F.fitFn c ⟨none, none, truthy o.sampleSize, o.other⟩ B → obs s ≠ obs f) := by
  have e1 : (fitAll .current ops F (UState.fresh c .kde o) [A, B]).params =
      some (F.fitFn c ⟨none, none, truthy (some (orLen o.sampleSize (ops.len A))), o.other⟩ B) := by
    simp [fitAll, fit, hA, hB, UState.fresh, stepSize, stepBound, effOpts]
  have e2 : (fit .current ops F (UState.fresh c .kde o) B).params =
      some (F.fitFn c ⟨none, none, truthy o.sampleSize, o.other⟩ B) := by
    simp [fit, hB, UState.fresh, stepBound, effOpts]
  refine ⟨e1, e2, ?_⟩
  intro hne h
  have := congrArg Obs.params h
  simp only [obs] at this
  rw [e1, e2] at this
  exact hne (Option.some.inj this)

/-- non-vacuity of the two counter-examples: with the free fitters and the concrete datasets
`datA`, `datB` the external calls are different terms — for a `TruncatedGaussian` missing either
bound, and for a `GaussianKDE` without `sample_size` or with `sample_size=0`. -/
example :
    let Fr := freeFitters (C := Unit) (V := Nat) (O := Unit) (D := Dat Nat)
    (∀ o ∈ [(⟨none, none, none, ()⟩ : Opts Nat Unit), ⟨some 0, none, none, ()⟩, ⟨none, some 99, none, ()⟩],
      Fr.fitFn () ⟨orElse o.min (datOps.lo datA), orElse o.max (datOps.hi datA), none, o.other⟩ datB ≠
        Fr.fitFn () ⟨orElse o.min (datOps.lo datB), orElse o.max (datOps.hi datB), none, o.other⟩ datB) ∧
    (∀ o ∈ [(⟨none, none, none, ()⟩ : Opts Nat Unit), ⟨none, none, some 0, ()⟩],
      Fr.fitFn () ⟨none, none, truthy (some (orLen o.sampleSize (datOps.len datA))), o.other⟩ datB ≠
        Fr.fitFn () ⟨none, none, truthy o.sampleSize, o.other⟩ datB) ∧
    datOps.const? datA = none ∧ datOps.const? datB = none := by
  decide

/-- The two multivariate models (`GaussianMultivariate`, `VineCopula`), both variants: `fit` behind
`check_valid_values` reads nothing of the instance but its class and constructor arguments, so a
re-fit raises exactly when a fresh fit does, and a re-fit that completes — after any history of
earlier fits, completed, rejected or failed — leaves the model state-identical to a fresh one
fitted on `x`.  (In this model the body is an external function of (class, constructor arguments,
data); that the vine body reads `np.empty` cells it never wrote — the three recorded `Tree`/`Edge`
findings — is a statement about that function and is outside this model.) -/
theorem refit_pure_multivariate {A M : Type} (checks : List Check) (facts : D → DataFacts)
    (body : Body C A M D) (s : MState C A M) (xs : List D) (x : D) :
    let s' := mfitAll checks facts body s xs
    (mfit checks facts body s' x).2 = (mfit checks facts body (MState.fresh s.cls s.ctor) x).2 ∧
    ((mfit checks facts body s' x).2 = none →
      mfit checks facts body s' x = mfit checks facts body (MState.fresh s.cls s.ctor) x) := by
  have hcls : ∀ (xs : List D) (s : MState C A M),
      (mfitAll checks facts body s xs).cls = s.cls ∧ (mfitAll checks facts body s xs).ctor = s.ctor := by
    intro xs
    induction xs with
    | nil => intro s; exact ⟨rfl, rfl⟩
    | cons y ys ih =>
      intro s
      obtain ⟨a, b⟩ := ih (mfit checks facts body s y).1
      have hy : (mfit checks facts body s y).1.cls = s.cls ∧ (mfit checks facts body s y).1.ctor = s.ctor := by
        unfold mfit
        cases checkValidValues checks (facts y) with
        | error e => exact ⟨rfl, rfl⟩
        | ok u =>
          rcases hb : body s.cls s.ctor y with ⟨m, _ | e⟩ <;> simp
      exact ⟨a.trans hy.1, b.trans hy.2⟩
  obtain ⟨a, b⟩ := hcls xs s
  intro s'
  have a' : s'.cls = s.cls := a
  have b' : s'.ctor = s.ctor := b
  unfold mfit
  rw [a', b']
  cases checkValidValues checks (facts x) with
  | error e => simp [MState.fresh]
  | ok u =>
    rcases hb : body s.cls s.ctor x with ⟨m, _ | e⟩ <;> simp [MState.fresh, hb]

/-- non-vacuity: a body that completes on dataset `1` only; history rejected / failed / completed. -/
example :
    let body : Body Unit Unit Nat Nat := fun _ _ x => if x = 1 then (some 7, none) else (some 0, some .other)
    let facts : Nat → DataFacts := fun x => ⟨x, true, false⟩
    (mfit Gen.Lifecycle.validationChecks facts body
        (mfitAll Gen.Lifecycle.validationChecks facts body (MState.fresh () ()) [0, 2, 1, 2]) 1).2 = none ∧
    mfit Gen.Lifecycle.validationChecks facts body
        (mfitAll Gen.Lifecycle.validationChecks facts body (MState.fresh () ()) [0, 2, 1, 2]) 1
      = mfit Gen.Lifecycle.validationChecks facts body (MState.fresh () ()) 1 := by
  decide

/-! ## unfitted objects: every entry point of every model class -/

set_option maxRecDepth 8000 in
/-- **Complete partition of the entry points.**  `entryPoints` are all (class, method) rows of the
generated guard table for the fifteen model classes (144 rows at the time of writing).  For each of
them a call on an
unfitted object
* starts with `self.check_fit()`, directly or through a pure delegation (119 rows) — it raises
  `NotFittedError` (`C19.unfitted_raises`); or
* is one of the 5 rows of `VineCopula` the class does not implement (`NotImplementedError`, fitted or
  not: a vine has no density/distribution method); or
* is one of the 7 rows of the five recorded findings (`Bivariate.sample` inherited by the three
  Archimedean families, `Frank.generator`, `Gumbel.generator`, `VineCopula.sample`,
  `VineCopula.get_likelihood`); or
* is a `to_dict` that serialises the unfitted state (4 rows; not a query: it returns); or
* belongs to `Independence` (9 rows), whose `fit` is a no-op and which has no parameter: "unfitted"
  is not a state of that class.
The lists are exact: every listed row is an entry point with the stated classification, so the
five cases are disjoint. -/
theorem unfitted_entry_points :
    let notImplemented := [("VineCopula", "probability_density"), ("VineCopula", "log_probability_density"),
      ("VineCopula", "pdf"), ("VineCopula", "cumulative_distribution"), ("VineCopula", "cdf")]
    let findings := [("VineCopula", "sample"), ("VineCopula", "get_likelihood"), ("Clayton", "sample"),
      ("Frank", "generator"), ("Frank", "sample"), ("Gumbel", "generator"), ("Gumbel", "sample")]
    let toDict := [("VineCopula", "to_dict"), ("Clayton", "to_dict"), ("Frank", "to_dict"), ("Gumbel", "to_dict")]
    let independence := [("Independence", "probability_density"), ("Independence", "log_probability_density"),
      ("Independence", "pdf"), ("Independence", "cumulative_distribution"), ("Independence", "cdf"),
      ("Independence", "partial_derivative"), ("Independence", "generator"), ("Independence", "sample"),
      ("Independence", "to_dict")]
    (∀ p ∈ entryPoints, outcomeOf p = some .notFitted ∨ p ∈ notImplemented ∨ p ∈ findings ∨ p ∈ toDict ∨
      p ∈ independence) ∧
    (∀ p ∈ notImplemented, p ∈ entryPoints ∧ outcomeOf p = some .notImplemented) ∧
    (∀ p ∈ findings ++ toDict ++ independence, p ∈ entryPoints ∧ outcomeOf p = some .runsBody) ∧
    (∀ c ∈ modelClasses, (tableOf Gen.Lifecycle.classes c).isSome = true) := by
  decide

/-- **Positive side per class**: in every model class other than `VineCopula`, the three
Archimedean families and `Independence` — i.e. the selecting wrapper, the eight univariate families
and `GaussianMultivariate` — **every** method of the table (queries, `sample`, `to_dict`) raises
`NotFittedError` on an unfitted object; in the three Archimedean families every method except
`sample`, `to_dict` (and `generator` for `Frank`/`Gumbel`) does. -/
theorem unfitted_raises_classes :
    (∀ ci ∈ Gen.Lifecycle.classes, ci.name ∈ modelClasses →
      ci.name ∉ ["VineCopula", "Clayton", "Frank", "Gumbel", "Independence"] →
      ∀ g ∈ ci.guards, unfittedOutcome ci g.1 = some .notFitted ∧ guarded ci g.1 = true) ∧
    (∀ ci ∈ Gen.Lifecycle.classes, ci.name ∈ ["Clayton", "Frank", "Gumbel"] →
      ∀ g ∈ ci.guards, guarded ci g.1 = true ∨ g.1 ∈ ["sample", "to_dict"] ∨
        (g.1 = "generator" ∧ ci.name ≠ "Clayton")) := by
  decide

/-- Counter-example side of the five recorded findings.  In the generated table each of the seven
rows ends in an `unguarded` body (so the `check_fit` proof of `C19.unfitted_raises` does not apply),
and a body without the guard (`rawQuery`) run on a missing parameter reports whatever its first
statement raises — `TypeError` for `None > 1`, `-None`, `np.power(·, None)`; `AttributeError` for an
attribute only `fit` creates — never `NotFittedError`; on a fitted, valid parameter it agrees with
the guarded form `bivQuery`, so the defect is exactly the missing guard. -/
theorem unfitted_findings_counterexample {T R : Type} (isZero valid : T → Bool) (eval : T → R) :
    (∀ p ∈ [("VineCopula", "sample"), ("VineCopula", "get_likelihood"), ("Clayton", "sample"),
        ("Frank", "generator"), ("Frank", "sample"), ("Gumbel", "generator"), ("Gumbel", "sample")],
      ∃ ci, tableOf Gen.Lifecycle.classes p.1 = some ci ∧ guarded ci p.2 = false ∧
        guardAtEnd ci 4 p.2 = some .unguarded) ∧
    (∀ e : Err, e ≠ .notFitted →
      rawQuery e eval none = .error e ∧ rawQuery e eval none ≠ .error .notFitted ∧
      bivQuery isZero valid eval none = .error .notFitted) ∧
    (∀ (e : Err) (t : T), isZero t = false → valid t = true →
      rawQuery e eval (some t) = bivQuery isZero valid eval (some t)) := by
  refine ⟨by decide, ?_, ?_⟩
  · intro e he
    refine ⟨rfl, ?_, rfl⟩
    intro h
    injection h with h
    exact he h
  · intro e t hz hv
    simp [rawQuery, bivQuery, bivCheckFit, hz, hv]

/-! ## `get_instance`: every class of the table -/

/-- Complete split of the classes of the generated table (23 at the time of writing): the constructor of `Univariate`,
`GaussianKDE`, `TruncatedGaussian`, `GaussianMultivariate`, `VineCopula` is decorated with
`@store_args`; every other class takes options and does not record them (`losesOptions`, finding
`get_instance:undecorated-init-loses-options`); no class is in neither case. -/
theorem get_instance_classes :
    (∀ ci ∈ Gen.Lifecycle.classes,
      (ci.storeArgs = true ∧ losesOptions ci = false ∧
        ci.name ∈ ["Univariate", "GaussianKDE", "TruncatedGaussian", "GaussianMultivariate", "VineCopula"]) ∨
      (ci.storeArgs = false ∧ losesOptions ci = true ∧
        ci.name ∈ ["ScipyModel", "BetaUnivariate", "GammaUnivariate", "GaussianUnivariate", "LogLaplace",
          "StudentTUnivariate", "UniformUnivariate", "Multivariate", "Tree", "CenterTree", "DirectTree",
          "RegularTree", "Edge", "Bivariate", "Clayton", "Frank", "Gumbel", "Independence"])) := by
  decide

/-- **What a clone is, for every class.**  Let `o` be an object of class `ci` as its constructor
built it from arguments `a`, and let anything have happened to it since (`afterFit st`).
* `@store_args` constructor: `get_instance` of it is exactly `o` — same class, same recorded
  arguments, same bound options (KDE options, truncation bounds, candidate filters), unfitted, none
  of the fit state.
* undecorated constructor: the clone is an unfitted object of the class with **no** option bound;
  it is configured like the prototype **iff** the prototype was built without options. -/
theorem get_instance_clone {Val St : Type} (table : String → Option ClassInfo) (ci : ClassInfo)
    (ht : table ci.name = some ci) (a : Args Val) (o : Obj Val St) (hc : construct ci a = .ok o)
    (st : St) :
    (ci.storeArgs = true → getInstance table (.inst (o.afterFit st)) [] = .ok o) ∧
    (ci.storeArgs = false → ∀ o', getInstance table (.inst (o.afterFit st)) [] = .ok o' →
      o'.cls = ci.name ∧ o'.fitted = false ∧ o'.fitState = none ∧ o'.bound = [] ∧
      (o'.bound = o.bound ↔ o.bound = [])) := by
  constructor
  · intro hs
    exact ((C19.get_instance_fresh table ci ht).2.2.1 hs a o hc).2 st
  · intro hs o' h
    obtain ⟨c1, c2, _, _, _⟩ := construct_ok ci a o hc
    have hst : o.stored = none := by rw [c2, hs]; rfl
    have h' : construct ci Args.none = .ok o' := by
      simpa [getInstance, Obj.afterFit, c1, ht, hst] using h
    obtain ⟨d1, _, d3, d4, d5⟩ := construct_ok ci Args.none o' h'
    have hb : o'.bound = [] := bindArgs_none_ok _ _ _ d5
    refine ⟨d1, d3, d4, hb, ?_⟩
    rw [hb]
    exact ⟨fun e => e.symm, fun e => e.symm⟩

/-- non-vacuity on the generated table: a `GaussianKDE(sample_size=5, bw_method=2)` is cloned with
its options, a `GaussianUnivariate(random_state=3)` without. -/
example :
    (match tableOf Gen.Lifecycle.classes "GaussianKDE" with
      | some ci =>
        (match construct (Val := Nat) (St := Unit) ci ⟨[], [("sample_size", 5), ("bw_method", 2)]⟩ with
          | .ok o => ci.storeArgs && !o.bound.isEmpty &&
              (match getInstance (tableOf Gen.Lifecycle.classes) (.inst (o.afterFit ())) [] with
                | .ok o' => decide (o' = o)
                | .error _ => false)
          | .error _ => false)
      | none => false) = true ∧
    (match tableOf Gen.Lifecycle.classes "GaussianUnivariate" with
      | some ci =>
        (match construct (Val := Nat) (St := Unit) ci ⟨[], [("random_state", 3)]⟩ with
          | .ok o => !ci.storeArgs && !o.bound.isEmpty &&
              (match getInstance (tableOf Gen.Lifecycle.classes) (.inst (o.afterFit ())) [] with
                | .ok o' => o'.bound.isEmpty
                | .error _ => false)
          | .error _ => false)
      | none => false) = true := by
  decide

end CopVerif.Props.C19b
