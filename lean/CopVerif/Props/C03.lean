import CopVerif.Real.KDE
/-!
# C03 — Every fitted univariate obeys the laws of a distribution function

Property theorems only.  Every statement is about a definition GENERATED from the Python source
(`CopVerif.Gen.UniConst.*`, from `copulas/univariate/base.py` and `gaussian_kde.py`) instantiated at
ℝ; `scipy.special.ndtr` is an arbitrary `Φ` with `Uni.IsCDF Φ`, a `scipy.stats` family is an
arbitrary `fam` with `Uni.FamilyCoherent` at one parameter value, `gaussian_kde`'s bandwidth and
weights are arbitrary `cov > 0`, `ws ≥ 0` with `Σ ws = 1`.
-/
namespace CopVerif.Props.C03
open CopVerif NumFns Gen.UniConst Uni KDE Filter Topology MeasureTheory

/-! ## the constant model (`_constant_*`): the point mass at `c` -/

/-- the CDF is the unit step at `c` (right-continuous: the value AT `c` is 1) -/
theorem const_cdf_step (c x : ℝ) : constCdf c x = if x < c then 0 else 1 := by
  simp [constCdf]

theorem const_cdf_mono (c : ℝ) : Monotone (constCdf c) := by
  intro x y hxy
  simp only [const_cdf_step]
  split_ifs with h1 h2 h2
  · exact le_rfl
  · exact zero_le_one
  · exact absurd (lt_of_le_of_lt hxy h2) h1
  · exact le_rfl

theorem const_cdf_range (c x : ℝ) : 0 ≤ constCdf c x ∧ constCdf c x ≤ 1 := by
  rw [const_cdf_step]; split_ifs <;> norm_num

/-- it reaches (not merely tends to) 0 and 1 on either side of `c` -/
theorem const_cdf_limits (c : ℝ) :
    (∀ x, x < c → constCdf c x = 0) ∧ (∀ x, c ≤ x → constCdf c x = 1) := by
  refine ⟨fun x h => ?_, fun x h => ?_⟩ <;> rw [const_cdf_step]
  · simp [h]
  · simp [not_lt.mpr h]

/-- `percent_point` returns `c` for every probability (none is looked at) -/
theorem const_ppf (c q : ℝ) : constPpf c q = c := rfl

/-- `sample(n)` is `n` copies of `c` -/
theorem const_sample (c : ℝ) (n : ℕ) :
    (constSample c n).length = n ∧ ∀ y ∈ constSample c n, y = c := by
  simp only [constSample, List.length_replicate, true_and]
  intro y hy; exact (List.mem_replicate.mp hy).2

/-- the "density" is the probability mass function of the point mass -/
theorem const_pdf (c x : ℝ) : constPdf c x = if x = c then 1 else 0 := by
  simp [constPdf]

/-- `_replace_constant_methods` rebinds exactly the four queries to their own constant versions
(`log_probability_density` is left alone). -/
theorem const_replacement_table :
    constReplacement .cdf = some .cdf ∧ constReplacement .pdf = some .pdf ∧
      constReplacement .ppf = some .ppf ∧ constReplacement .sample = some .sample ∧
      constReplacement .logPdf = none := by
  decide

/-- `_check_constant_value` switches to the constant model exactly on constant data, with the right
constant. -/
theorem const_detection (c : ℝ) (xs : List ℝ) :
    (xs ≠ [] → (∀ x ∈ xs, x = c) → checkConstant xs = some c) ∧
      (∀ a b, a ∈ xs → b ∈ xs → a ≠ b → checkConstant xs = none) := by
  constructor
  · intro hne hall
    cases xs with
    | nil => exact absurd rfl hne
    | cons a l =>
      have ha : a = c := hall a (List.mem_cons_self ..)
      subst ha
      have : ∀ y ∈ l, y = a := fun y hy => hall y (List.mem_cons_of_mem _ hy)
      simp only [checkConstant, uniqueSingleton, List.all_eq_true, beq_real]
      rw [if_pos this]
  · intro a b ha hb hab
    cases xs with
    | nil => simp at ha
    | cons h l =>
      simp only [checkConstant, uniqueSingleton]
      rw [if_neg]
      simp only [List.all_eq_true, beq_real, not_forall]
      by_contra hcon
      push Not at hcon
      have ha' : a = h := by
        rcases List.mem_cons.mp ha with rfl | h' <;> [rfl; exact hcon a h']
      have hb' : b = h := by
        rcases List.mem_cons.mp hb with rfl | h' <;> [rfl; exact hcon b h']
      exact hab (ha'.trans hb'.symm)

/-! ## `ScipyModel`: all queries are evaluated with the ONE stored parameter dict -/

/-- The generated forwarding table: each query calls its own `MODEL_CLASS` function and every one
of them splats the same attribute, `self._params`. -/
theorem scipy_forwarding_table :
    forward .pdf = ⟨.pdf, "_params", true⟩ ∧ forward .logPdf = ⟨.logpdf, "_params", true⟩ ∧
      forward .cdf = ⟨.cdf, "_params", true⟩ ∧ forward .ppf = ⟨.ppf, "_params", true⟩ ∧
      forward .sample = ⟨.rvs, "_params", true⟩ := by
  decide

/-- If the scipy family is coherent at the parameter value `p` stored in `self._params`, the fitted
model's `probability_density / cumulative_distribution / percent_point / log_probability_density`
satisfy the C03 laws; `sample` draws from `rvs` with the same `p`.  (The content: the four
functions are evaluated at the SAME `p`, by the generated table.) -/
theorem scipy_model_laws {P : Type} (fam : ScipyFn → P → ℝ → ℝ) (attrs : String → P) (p : P)
    (S : Set ℝ) (hp : attrs "_params" = p)
    (hfam : FamilyCoherent (fam .pdf p) (fam .cdf p) (fam .ppf p) (fam .logpdf p) S) :
    C03Laws (scipyEval fam attrs .pdf) (scipyEval fam attrs .cdf) (scipyEval fam attrs .ppf)
        (scipyLogPdf fam attrs true) ∧
      attrs (forward .sample).paramAttr = p ∧ (forward .sample).fn = .rvs := by
  subst hp
  exact ⟨hfam.laws, rfl, rfl⟩

/-- non-vacuity of `FamilyCoherent`: the uniform law on `[0,1]` (two kinks). -/
example : FamilyCoherent unifPdf unifCdf (fun q => q) (fun x => Real.log (unifPdf x)) {0, 1} :=
  uniform_coherent

/-- When `MODEL_CLASS` has no `logpdf`, `ScipyModel.log_probability_density` is literally
`log ∘ probability_density`; so is the `Univariate` base-class default. -/
theorem log_pdf_is_log {P : Type} (fam : ScipyFn → P → ℝ → ℝ) (attrs : String → P) (pdf : ℝ → ℝ)
    (x : ℝ) :
    scipyLogPdf fam attrs false x = Real.log (scipyEval fam attrs .pdf x) ∧
      baseLogPdf pdf x = Real.log (pdf x) := by
  simp [scipyLogPdf, baseLogPdf]

/-! ## the selecting `Univariate` wrapper -/

/-- Every query on a fitted wrapper returns what the same query on the selected instance returns;
on an unfitted wrapper it raises `NotFittedError`.  The short names `pdf/cdf/ppf` are the long ones. -/
theorem wrapper_delegates {β : Type} (inst : Query → β) (q : Query) :
    wrapperEval true inst q = .ok (inst q) ∧ wrapperEval false inst q = .error .notFitted ∧
      aliasPdf = .pdf ∧ aliasCdf = .cdf ∧ aliasPpf = .ppf := by
  refine ⟨?_, rfl, rfl, rfl, rfl⟩
  cases q <;> rfl

/-! ## `GaussianKDE.cumulative_distribution` -/

section kde
variable {Φ : ℝ → ℝ} {xs ws : List ℝ} {cov : ℝ}

/-- the exact value: kernel estimate minus the mass below the lower bound `L = min − 5σ` -/
theorem kde_cdf_formula (Φ : ℝ → ℝ) (xs ws : List ℝ) (cov x : ℝ) :
    kdeCdf Φ xs ws cov x = mass Φ xs ws (bw cov) x - deficit Φ xs ws cov :=
  kdeCdf_eq_mass_sub_deficit Φ xs ws cov x

theorem kde_cdf_mono (hΦ : IsCDF Φ) (hw : ∀ w ∈ ws, 0 ≤ w) (hcov : 0 < cov) :
    Monotone (kdeCdf Φ xs ws cov) := by
  intro x y hxy
  rw [kde_cdf_formula, kde_cdf_formula]
  have := mass_mono (xs := xs) hΦ hw (Real.sqrt_pos.mpr hcov) hxy
  simp only [bw] at *
  linarith

theorem kde_cdf_le_one (hΦ : IsCDF Φ) (hw : ∀ w ∈ ws, 0 ≤ w) (hsum : ws.sum = 1)
    (hlen : xs.length = ws.length) (x : ℝ) : kdeCdf Φ xs ws cov x ≤ 1 := by
  rw [kde_cdf_formula]
  have h1 := mass_le_one (h := bw cov) hΦ hw hsum hlen x
  have h2 : 0 ≤ deficit Φ xs ws cov := mass_nonneg hΦ hw _
  linarith

/-- the CDF vanishes exactly at the lower bound … -/
theorem kde_cdf_at_lower (Φ : ℝ → ℝ) (xs ws : List ℝ) (cov : ℝ) :
    kdeCdf Φ xs ws cov (kdeBounds xs).1 = 0 := by
  rw [kde_cdf_formula]; simp [deficit, lower]

/-- … and can therefore be NEGATIVE below it, but never below `−deficit` (bounded truncation). -/
theorem kde_cdf_ge_neg_deficit (hΦ : IsCDF Φ) (hw : ∀ w ∈ ws, 0 ≤ w) (x : ℝ) :
    -deficit Φ xs ws cov ≤ kdeCdf Φ xs ws cov x := by
  rw [kde_cdf_formula]
  have := mass_nonneg (xs := xs) (h := bw cov) hΦ hw x
  linarith

/-- the deficit is at most the kernel's tail mass below `−5σ/h`, `σ = np.std(data)`, `h = √cov` -/
theorem kde_deficit_small (hΦ : IsCDF Φ) (hw : ∀ w ∈ ws, 0 ≤ w) (hsum : ws.sum = 1)
    (hlen : xs.length = ws.length) (hcov : 0 < cov) :
    0 ≤ deficit Φ xs ws cov ∧ deficit Φ xs ws cov ≤ Φ (-(5 * popStd xs) / Real.sqrt cov) := by
  refine ⟨mass_nonneg hΦ hw _, ?_⟩
  apply mass_le_of_args_le hΦ hw hsum hlen
  intro xi hxi
  exact div_le_div_of_nonneg_right (lower_sub_le hxi) (Real.sqrt_pos.mpr hcov).le

/-- value at the upper bound `U = max + 5σ`: at least `Φ(5σ/h) − deficit` (and at most `1 − deficit`) -/
theorem kde_cdf_at_upper (hΦ : IsCDF Φ) (hw : ∀ w ∈ ws, 0 ≤ w) (hsum : ws.sum = 1)
    (hlen : xs.length = ws.length) (hcov : 0 < cov) :
    Φ (5 * popStd xs / Real.sqrt cov) - deficit Φ xs ws cov ≤ kdeCdf Φ xs ws cov (kdeBounds xs).2 ∧
      kdeCdf Φ xs ws cov (kdeBounds xs).2 ≤ 1 - deficit Φ xs ws cov := by
  rw [kde_cdf_formula]
  constructor
  · have : Φ (5 * popStd xs / Real.sqrt cov) ≤ mass Φ xs ws (bw cov) (kdeBounds xs).2 := by
      apply le_mass_of_le_args hΦ hw hsum hlen
      intro xi hxi
      exact div_le_div_of_nonneg_right (le_upper_sub hxi) (Real.sqrt_pos.mpr hcov).le
    linarith
  · have := mass_le_one (h := bw cov) hΦ hw hsum hlen (kdeBounds xs).2
    linarith

/-- Tails: if `Φ → 0` at `−∞` and `Φ → 1` at `+∞`, the CDF tends to `−deficit` and `1 − deficit`
(not to 0 and 1: the truncation is part of the definition; DESIGN section 8). -/
theorem kde_cdf_tendsto (hlen : xs.length = ws.length) (hsum : ws.sum = 1) (hcov : 0 < cov)
    (h0 : Tendsto Φ atBot (𝓝 0)) (h1 : Tendsto Φ atTop (𝓝 1)) :
    Tendsto (kdeCdf Φ xs ws cov) atBot (𝓝 (-deficit Φ xs ws cov)) ∧
      Tendsto (kdeCdf Φ xs ws cov) atTop (𝓝 (1 - deficit Φ xs ws cov)) := by
  have hpos := Real.sqrt_pos.mpr hcov
  have key : ∀ (l : Filter ℝ) (c : ℝ), (∀ xi : ℝ, Tendsto (fun x => Φ ((x - xi) / bw cov)) l (𝓝 c)) →
      Tendsto (fun x => mass Φ xs ws (bw cov) x) l (𝓝 (c * ws.sum)) := by
    intro l c hl
    have : ∀ (xs ws : List ℝ), xs.length = ws.length →
        Tendsto (fun x => wsum (fun xi => Φ ((x - xi) / bw cov)) xs ws) l (𝓝 (c * ws.sum)) := by
      intro xs
      induction xs with
      | nil =>
        intro ws hl'
        cases ws with
        | nil => simpa [wsum_nil_left] using tendsto_const_nhds
        | cons w ws => simp at hl'
      | cons a xs ih =>
        intro ws hl'
        cases ws with
        | nil => simp at hl'
        | cons w ws =>
          simp only [wsum_cons, List.sum_cons, mul_add]
          exact ((hl a).mul_const w).add (ih ws (by simpa using hl'))
    exact this xs ws hlen
  have hb : ∀ xi : ℝ, Tendsto (fun x => Φ ((x - xi) / bw cov)) atBot (𝓝 0) := fun xi =>
    h0.comp ((tendsto_atBot_add_const_right _ (-xi) tendsto_id).atBot_div_const hpos)
  have ht : ∀ xi : ℝ, Tendsto (fun x => Φ ((x - xi) / bw cov)) atTop (𝓝 1) := fun xi =>
    h1.comp ((tendsto_atTop_add_const_right _ (-xi) tendsto_id).atTop_div_const hpos)
  have e : kdeCdf Φ xs ws cov = fun x => mass Φ xs ws (bw cov) x - deficit Φ xs ws cov := by
    funext x; exact kde_cdf_formula Φ xs ws cov x
  rw [e]
  constructor
  · have := (key atBot 0 hb).sub_const (deficit Φ xs ws cov)
    simpa using this
  · have := (key atTop 1 ht).sub_const (deficit Φ xs ws cov)
    simpa [hsum] using this

/-- FTC on the kernel sum: if `Φ' = φ` the CDF's derivative is the kernel density estimate
`Σ_i w_i φ((x − x_i)/h)/h` (what `gaussian_kde.evaluate` computes for the Gaussian `φ`). -/
theorem kde_cdf_is_integral_of_pdf {φ : ℝ → ℝ} (hφ : ∀ z, HasDerivAt Φ (φ z) z) (hcov : 0 < cov)
    (x : ℝ) :
    HasDerivAt (kdeCdf Φ xs ws cov)
      (wsum (fun xi => φ ((x - xi) / Real.sqrt cov) / Real.sqrt cov) xs ws) x := by
  have e : kdeCdf Φ xs ws cov = fun x => mass Φ xs ws (bw cov) x - deficit Φ xs ws cov := by
    funext x; exact kde_cdf_formula Φ xs ws cov x
  rw [e]
  have hne : Real.sqrt cov ≠ 0 := (Real.sqrt_pos.mpr hcov).ne'
  have hk : ∀ xi : ℝ, HasDerivAt (fun x => Φ ((x - xi) / bw cov))
      (φ ((x - xi) / Real.sqrt cov) / Real.sqrt cov) x := by
    intro xi
    have hin : HasDerivAt (fun x : ℝ => (x - xi) / bw cov) (1 / Real.sqrt cov) x := by
      simpa [bw] using ((hasDerivAt_id x).sub_const xi).div_const (Real.sqrt cov)
    have := (hφ ((x - xi) / bw cov)).comp x hin
    simpa [bw, div_eq_mul_inv, Function.comp_def] using this
  have := wsum_hasDerivAt (F := fun x xi => Φ ((x - xi) / bw cov))
    (F' := fun x xi => φ ((x - xi) / Real.sqrt cov) / Real.sqrt cov) (x := x) hk xs ws
  simpa [mass] using this.sub_const (deficit Φ xs ws cov)

/-! ## `GaussianKDE.percent_point` -/

/-- The residual handed to the root finder at the two ends of the bracket `[L, U] = _get_bounds()`:
exactly `−q` at `L`, and `≥ 0` at `U` **iff** `q ≤ cdf U`. -/
theorem kde_ppf_residual_at_bracket (Φ : ℝ → ℝ) (xs ws : List ℝ) (cov q : ℝ) :
    ppfResidual Φ xs ws cov q (ppfBracket xs).1 = -q ∧
      (0 ≤ ppfResidual Φ xs ws cov q (ppfBracket xs).2 ↔ q ≤ kdeCdf Φ xs ws cov (kdeBounds xs).2) := by
  simp [ppfResidual, ppfBracket, kde_cdf_at_lower]

/-- Root-finder precondition (`bisect`'s two assertions / `chandrupatla`'s sign test) for every
`0 ≤ q ≤ Φ(5σ/h) − Φ(−5σ/h)`.  PARTIAL: the full clause "for every `q ∈ (ε, 1 − ε)`" is missing and is
false (`kde_ppf_bracket_full_counterexample`): for `q` between `cdf U` and `1 − ε` the residual at the
upper end of the bracket is negative. -/
theorem kde_ppf_bracket_partial (hΦ : IsCDF Φ) (hw : ∀ w ∈ ws, 0 ≤ w) (hsum : ws.sum = 1)
    (hlen : xs.length = ws.length) (hcov : 0 < cov) {q : ℝ} (hq0 : 0 ≤ q)
    (hq : q ≤ Φ (5 * popStd xs / Real.sqrt cov) - Φ (-(5 * popStd xs) / Real.sqrt cov)) :
    ppfResidual Φ xs ws cov q (ppfBracket xs).1 ≤ 0 ∧
      0 ≤ ppfResidual Φ xs ws cov q (ppfBracket xs).2 := by
  obtain ⟨h1, h2⟩ := kde_ppf_residual_at_bracket Φ xs ws cov q
  refine ⟨by rw [h1]; linarith, h2.mpr ?_⟩
  have hU := (kde_cdf_at_upper (xs := xs) hΦ hw hsum hlen hcov).1
  have hD := (kde_deficit_small (xs := xs) hΦ hw hsum hlen hcov).2
  linarith

/-- With a continuous kernel CDF the bracketed residual has a root in `[L, U]`, the CDF is
continuous, so `cdf(ppf(q)) = q` is attainable there. -/
theorem kde_ppf_root_exists (hΦ : IsCDF Φ) (hc : Continuous Φ) (hw : ∀ w ∈ ws, 0 ≤ w)
    (hsum : ws.sum = 1) (hlen : xs.length = ws.length) (hcov : 0 < cov) (hne : xs ≠ []) {q : ℝ}
    (hq0 : 0 ≤ q)
    (hq : q ≤ Φ (5 * popStd xs / Real.sqrt cov) - Φ (-(5 * popStd xs) / Real.sqrt cov)) :
    ∃ x, (ppfBracket xs).1 ≤ x ∧ x ≤ (ppfBracket xs).2 ∧ kdeCdf Φ xs ws cov x = q := by
  obtain ⟨h1, h2⟩ := kde_ppf_bracket_partial (xs := xs) hΦ hw hsum hlen hcov hq0 hq
  have hcont : Continuous (kdeCdf Φ xs ws cov) := by
    have e : kdeCdf Φ xs ws cov = fun x => mass Φ xs ws (bw cov) x - deficit Φ xs ws cov := by
      funext x; exact kde_cdf_formula Φ xs ws cov x
    rw [e]; exact (mass_continuous hc).sub continuous_const
  have hLU : (ppfBracket xs).1 ≤ (ppfBracket xs).2 := lower_le_upper hne
  have hmem : q ∈ Set.Icc (kdeCdf Φ xs ws cov (ppfBracket xs).1) (kdeCdf Φ xs ws cov (ppfBracket xs).2) := by
    simp only [ppfResidual] at h1 h2
    exact ⟨by linarith, by linarith⟩
  obtain ⟨x, hx, hxq⟩ := intermediate_value_Icc hLU hcont.continuousOn hmem
  exact ⟨x, hx.1, hx.2, hxq⟩

/-- exact roots are ordered like their probabilities: `percent_point` is non-decreasing as far as
the root finder is exact (only monotonicity of the CDF is used) -/
theorem kde_ppf_mono (hΦ : IsCDF Φ) (hw : ∀ w ∈ ws, 0 ≤ w) (hcov : 0 < cov) {q₁ q₂ x₁ x₂ : ℝ}
    (h1 : kdeCdf Φ xs ws cov x₁ = q₁) (h2 : kdeCdf Φ xs ws cov x₂ = q₂) (hq : q₁ < q₂) : x₁ < x₂ := by
  by_contra hle
  rw [not_lt] at hle
  have := kde_cdf_mono (xs := xs) hΦ hw hcov hle
  linarith

end kde

/-- DESIGN section 8: for the unweighted bandwidth rules `h = factor · σ_{n−1}` (scott, silverman, scalar) with
`factor ≤ 1` and `n ≥ 5` points the truncated mass is at most `Φ(−5·√(4/5))` (`< 4·10⁻⁶` for the normal CDF). -/
theorem kde_deficit_small_factor {Φ : ℝ → ℝ} {xs ws : List ℝ} {cov factor : ℝ} (hΦ : IsCDF Φ)
    (hw : ∀ w ∈ ws, 0 ≤ w) (hsum : ws.sum = 1) (hlen : xs.length = ws.length)
    (hσ : 0 < popStd xs) (hf : 0 < factor) (hf1 : factor ≤ 1) (hn5 : 5 ≤ xs.length)
    (hcov : cov = factor ^ 2 * ((xs.length : ℝ) / ((xs.length : ℝ) - 1)) * popStd xs ^ 2) :
    deficit Φ xs ws cov ≤ Φ (-(5 * Real.sqrt (4 / 5))) := by
  have hn : (5 : ℝ) ≤ (xs.length : ℝ) := by exact_mod_cast hn5
  generalize (xs.length : ℝ) = n at hn hcov
  have hn1 : 0 < n - 1 := by linarith
  have hr : 0 < n / (n - 1) := div_pos (by linarith) hn1
  have hcovpos : 0 < cov := by rw [hcov]; positivity
  refine le_trans (kde_deficit_small (xs := xs) hΦ hw hsum hlen hcovpos).2 (hΦ.mono ?_)
  have h2 : n / (n - 1) ≤ 5 / 4 := by rw [div_le_iff₀ hn1]; linarith
  have h1 : factor ^ 2 ≤ 1 := by nlinarith
  have h3 : factor ^ 2 * (n / (n - 1)) ≤ 5 / 4 := by
    calc factor ^ 2 * (n / (n - 1)) ≤ 1 * (5 / 4) :=
          mul_le_mul h1 h2 hr.le zero_le_one
      _ = 5 / 4 := by ring
  have h4 : (4 : ℝ) / 5 ≤ popStd xs ^ 2 / cov := by
    rw [le_div_iff₀ hcovpos, hcov]
    have := mul_le_mul_of_nonneg_right h3 (sq_nonneg (popStd xs))
    nlinarith
  have h5 : Real.sqrt (4 / 5) ≤ popStd xs / Real.sqrt cov := by
    have := Real.sqrt_le_sqrt h4
    rwa [Real.sqrt_div (sq_nonneg _), Real.sqrt_sq hσ.le] at this
  have : -(5 * popStd xs) / Real.sqrt cov = -(5 * (popStd xs / Real.sqrt cov)) := by ring
  rw [this]
  linarith

/-- non-vacuity of `kde_deficit_small_factor`: five points with positive spread (`factor = 1`, `cov` as given). -/
example : 0 < popStd [(-2 : ℝ), -1, 0, 1, 2] ∧ 5 ≤ [(-2 : ℝ), -1, 0, 1, 2].length := by
  refine ⟨?_, by simp⟩
  simp [popStd, listMean, sumList]
  norm_num

/-- `IsCDF`, the weight and bandwidth hypotheses are satisfiable (with a continuous `Φ`). -/
example : IsCDF unifCdf ∧ Continuous unifCdf ∧ (∀ w ∈ [(1/2 : ℝ), 1/2], 0 ≤ w) ∧
    [(1/2 : ℝ), 1/2].sum = 1 ∧ [(-1 : ℝ), 1].length = [(1/2 : ℝ), 1/2].length ∧ (0 : ℝ) < 1 := by
  refine ⟨unifCdf_isCDF, unifCdf_continuous, ?_, by norm_num, rfl, one_pos⟩
  intro w hw; simp at hw; rw [hw]; norm_num

/-- boundary mapping of the pre-processing, per element: `q ≤ ε ↦ −∞`, `q ≥ 1 − ε ↦ +∞`, anything
strictly between goes to the root finder; `ε = 2⁻²³`. -/
theorem kde_ppf_boundary_mapping (q root : ℝ) :
    (epsilon : ℝ) = 1 / 8388608 ∧
      (q ≤ epsilon → ppfElem q root = .negInf) ∧
      (1 - epsilon ≤ q → ppfElem q root = .posInf) ∧
      (epsilon < q → q < 1 - epsilon → ppfElem q root = .fin root) := by
  have he : (epsilon : ℝ) = 1 / 8388608 := by simp [epsilon]
  refine ⟨he, ?_, ?_, ?_⟩
  · intro h
    simp [ppfElem, ppfIsValid, ppfIsZero, h]
  · intro h
    have hz : ¬ q ≤ (epsilon : ℝ) := by rw [he] at h ⊢; intro h'; linarith
    have h' : (1 : ℝ) - epsilon ≤ q := h
    simp [ppfElem, ppfIsValid, ppfIsZero, ppfIsOne, hz, h']
  · intro h0 h1
    have hz : ¬ q ≤ (epsilon : ℝ) := not_le.mpr h0
    have ho : ¬ (1 : ℝ) - epsilon ≤ q := not_le.mpr h1
    simp [ppfElem, ppfIsValid, ppfIsZero, ppfIsOne, hz, ho]

/-- a probability outside `[0,1]` anywhere in the input makes the whole call raise `ValueError`
before any root finding; a batch of boundary probabilities only never calls the root finder. -/
theorem kde_ppf_range_and_no_solve
    (solve : Solver → (List ℝ → List ℝ) → List ℝ → List ℝ → Except Err (List ℝ))
    (Φ : ℝ → ℝ) (xs ws : List ℝ) (cov : ℝ) (b : Bool) (qs : List ℝ) :
    ((∃ q ∈ qs, q < 0 ∨ 1 < q) → kdePpf solve Φ xs ws cov b qs = .error .valueError) ∧
      ((∀ q ∈ qs, 0 ≤ q ∧ q ≤ 1 ∧ (q ≤ epsilon ∨ 1 - epsilon ≤ q)) →
        kdePpf solve Φ xs ws cov b qs = .ok (ppfScatter qs [])) := by
  constructor
  · rintro ⟨q, hq, hbad⟩
    have : qs.any ppfOutOfRange = true := by
      rw [List.any_eq_true]
      refine ⟨q, hq, ?_⟩
      rcases hbad with h | h <;> simp [ppfOutOfRange, h]
    simp [kdePpf, this]
  · intro hall
    have h1 : qs.any ppfOutOfRange = false := by
      rw [List.any_eq_false]
      intro q hq
      obtain ⟨h0, h1, _⟩ := hall q hq
      simp [ppfOutOfRange, not_lt.mpr h0, not_lt.mpr h1]
    have h2 : qs.filter ppfIsValid = [] := by
      rw [List.filter_eq_nil_iff]
      intro q hq
      obtain ⟨_, _, h⟩ := hall q hq
      rcases h with h | h
      · simp [ppfIsValid, ppfIsZero, h]
      · have h' : (1 : ℝ) - epsilon ≤ q := h
        simp [ppfIsValid, ppfIsOne, h']
    simp [kdePpf, h1, h2]

/-- The bracket precondition does NOT follow for every `q ∈ (ε, 1 − ε)` from `IsCDF Φ` alone: with
data `[−1, 1]`, equal weights, `h = 1` and the (continuous) kernel CDF `Φ(z) = clamp(z/20 + 1/2)`
the CDF at the upper bound `U = 6` is `3/5`, so for `q = 9/10` the residual at `U` is negative and
`bisect` raises `AssertionError`.  (With the real `ndtr` the same happens for
`q ∈ (cdf U, 1 − ε)`, a window that is non-empty e.g. for 5 points and `bw_method = 1.0`: found by
the failing-input search, class `GaussianKDE.percent_point:q-above-cdf-at-upper-bound`.) -/
theorem kde_ppf_bracket_full_counterexample :
    ∃ (Φ : ℝ → ℝ) (xs ws : List ℝ) (cov q : ℝ), IsCDF Φ ∧ Continuous Φ ∧ (∀ w ∈ ws, 0 ≤ w) ∧
      ws.sum = 1 ∧ xs.length = ws.length ∧ 0 < cov ∧ (epsilon : ℝ) < q ∧ q < 1 - epsilon ∧
      ppfResidual Φ xs ws cov q (ppfBracket xs).2 < 0 := by
  let Φ : ℝ → ℝ := fun z => unifCdf (z / 20 + 1 / 2)
  have hΦ : IsCDF Φ :=
    ⟨fun a b h => unifCdf_isCDF.mono (by linarith), fun _ => unifCdf_isCDF.nonneg _,
      fun _ => unifCdf_isCDF.le_one _⟩
  have hc : Continuous Φ :=
    unifCdf_continuous.comp ((continuous_id.div_const 20).add continuous_const)
  have hstd : popStd [(-1 : ℝ), 1] = 1 := by
    simp [popStd, listMean, sumList]
  have hU : (kdeBounds [(-1 : ℝ), 1]).2 = 6 := by
    have : listMax [(-1 : ℝ), 1] = 1 := by simp [listMax]
    simp only [kdeBounds, hstd, this, ofNat_real]; norm_num
  have hL : (kdeBounds [(-1 : ℝ), 1]).1 = -6 := by
    have : listMin [(-1 : ℝ), 1] = -1 := by simp [listMin]
    simp only [kdeBounds, hstd, this, ofNat_real]; norm_num
  have hv : ∀ z : ℝ, -10 ≤ z → z ≤ 10 → Φ z = z / 20 + 1 / 2 := by
    intro z h1 h2
    show max 0 (min 1 (z / 20 + 1 / 2)) = _
    rw [min_eq_right (by linarith), max_eq_right (by linarith)]
  refine ⟨Φ, [-1, 1], [1/2, 1/2], 1, 9/10, hΦ, hc, ?_, by norm_num, rfl, one_pos, ?_, ?_, ?_⟩
  · intro w hw; simp at hw; rw [hw]; norm_num
  · simp [epsilon]; norm_num
  · simp [epsilon]; norm_num
  · simp only [ppfResidual, ppfBracket, kdeCdf, hU, hL, sumList, sqrt_real, Real.sqrt_one,
      List.zipWith_cons_cons, List.zipWith_nil_right, List.foldl_cons, List.foldl_nil, ofNat_real,
      div_one]
    rw [hv _ (by norm_num) (by norm_num), hv _ (by norm_num) (by norm_num),
      hv _ (by norm_num) (by norm_num), hv _ (by norm_num) (by norm_num)]
    norm_num

/-- The clause "values in [0, 1]" is false of `GaussianKDE.cumulative_distribution` as written: below
the lower bound the value is negative (here `−7/40` at `x = −10`; same data and kernel as above).  What
does hold is `kde_cdf_ge_neg_deficit` / `kde_deficit_small` (bounded truncation, DESIGN section 8). -/
theorem kde_cdf_nonneg_counterexample :
    ∃ (Φ : ℝ → ℝ) (xs ws : List ℝ) (cov x : ℝ), IsCDF Φ ∧ Continuous Φ ∧ (∀ w ∈ ws, 0 ≤ w) ∧
      ws.sum = 1 ∧ xs.length = ws.length ∧ 0 < cov ∧ kdeCdf Φ xs ws cov x < 0 := by
  let Φ : ℝ → ℝ := fun z => unifCdf (z / 20 + 1 / 2)
  have hΦ : IsCDF Φ :=
    ⟨fun a b h => unifCdf_isCDF.mono (by linarith), fun _ => unifCdf_isCDF.nonneg _,
      fun _ => unifCdf_isCDF.le_one _⟩
  have hc : Continuous Φ :=
    unifCdf_continuous.comp ((continuous_id.div_const 20).add continuous_const)
  have hstd : popStd [(-1 : ℝ), 1] = 1 := by
    simp [popStd, listMean, sumList]
  have hL : (kdeBounds [(-1 : ℝ), 1]).1 = -6 := by
    have : listMin [(-1 : ℝ), 1] = -1 := by simp [listMin]
    simp only [kdeBounds, hstd, this, ofNat_real]; norm_num
  have hv : ∀ z : ℝ, -10 ≤ z → z ≤ 10 → Φ z = z / 20 + 1 / 2 := by
    intro z h1 h2
    show max 0 (min 1 (z / 20 + 1 / 2)) = _
    rw [min_eq_right (by linarith), max_eq_right (by linarith)]
  have h0 : Φ (-11) = 0 := by
    show max 0 (min 1 ((-11 : ℝ) / 20 + 1 / 2)) = 0
    rw [min_eq_right (by norm_num), max_eq_left (by norm_num)]
  refine ⟨Φ, [-1, 1], [1/2, 1/2], 1, -10, hΦ, hc, ?_, by norm_num, rfl, one_pos, ?_⟩
  · intro w hw; simp at hw; rw [hw]; norm_num
  · simp only [kdeCdf, hL, sumList, sqrt_real, Real.sqrt_one, List.zipWith_cons_cons,
      List.zipWith_nil_right, List.foldl_cons, List.foldl_nil, ofNat_real, div_one]
    have e1 : ((-10 : ℝ) - 1) = -11 := by norm_num
    rw [e1, h0, hv _ (by norm_num) (by norm_num), hv _ (by norm_num) (by norm_num),
      hv _ (by norm_num) (by norm_num)]
    norm_num

end CopVerif.Props.C03
