import CopVerif.Real.KendallGen
import CopVerif.Props.C10
/-!
# C10b — the calibration maps `τ ↦ θ` are the Kendall-tau maps of the generators

Property theorems only.  For an Archimedean copula with generator `φ`, Kendall's tau is
`τ = 1 + 4 ∫₀¹ φ(t)/φ'(t) dt` (Genest–MacKay).  That general theorem is classical and is NOT proved
here; what is proved is its one-dimensional content for the three GENERATED generators
(`Gen.Clayton.generator`, `Gen.Gumbel.generator`, `Gen.Frank.generator`, reached through the bridge
lemmas): the functional `1 + 4 ∫₀¹ φ/φ'` evaluates to exactly the closed form that the GENERATED
`compute_theta` / `_tau_to_theta` inverts (C10: `clayton_tau_roundtrip`, `gumbel_tau_roundtrip`,
`frank_residual_zero_iff`).

`φ'` is Mathlib's `deriv` of the generated generator (explicit derivatives: `*_generator_deriv`).
The integral is the interval integral over `(0,1]`; the integrand is integrable
(`generator_ratio_integrable`), and it is only ever evaluated on `(0,1)`, where `rpow`, `log` and
the divisions are the genuine functions (a null-set change does not affect the integral).

Frank: the identity is stated with the exact interval integral for `integrate.quad` and lower limit
`0`.  The code passes `EPSILON` as lower limit, not `0` (`frank_residual_is_generator_tau` says so);
the difference `∫₀^ε s/(eˢ−1) ds ∈ (0, ε)` is not accounted for here.
-/
namespace CopVerif.Props.C10b
open CopVerif CopVerif.KendallGen MeasureTheory

/-! ## the derivatives of the generated generators -/

/-- Clayton: `φ'(t) = −t^(−θ−1)` on `(0,∞)`. -/
theorem clayton_generator_deriv {θ t : ℝ} (hθ : θ ≠ 0) (ht : 0 < t) :
    HasDerivAt (Gen.Clayton.generator θ) (-t ^ (-θ - 1)) t := by
  rw [funext (Clayton.bridge_generator θ)]; exact clayton_hasDerivAt hθ ht

/-- Gumbel: `φ'(t) = −θ(−log t)^(θ−1)/t` on `(0,∞)` (as a statement about the totalised `rpow`;
mathematically meaningful on `(0,1]`). -/
theorem gumbel_generator_deriv {θ t : ℝ} (hθ : 1 ≤ θ) (ht : 0 < t) :
    HasDerivAt (Gen.Gumbel.generator θ) (-θ * (-Real.log t) ^ (θ - 1) / t) t := by
  rw [funext (Gumbel.bridge_generator θ)]; exact gumbel_hasDerivAt hθ ht

/-- Frank (either sign of θ): `φ'(t) = θ e^{−θt}/(e^{−θt} − 1)` on `(0,∞)`. -/
theorem frank_generator_deriv {θ t : ℝ} (hθ : θ ≠ 0) (ht : 0 < t) :
    HasDerivAt (Gen.Frank.generator θ)
      (θ * Real.exp (-θ * t) / (Real.exp (-θ * t) - 1)) t := by
  rw [funext (Frank.bridge_generator θ)]; exact frank_hasDerivAt hθ ht

/-- The ratios `φ/φ'` in closed form: Clayton `(t^(θ+1) − t)/θ` on `(0,∞)`, Gumbel `t·log t/θ` on
`(0,1)`, Frank `((e^{θt} − 1)/θ)·log((e^{−θt}−1)/(e^{−θ}−1))` on `(0,∞)`. -/
theorem generator_ratio_closed_form {θ t : ℝ} (ht : 0 < t) :
    (θ ≠ 0 → Gen.Clayton.generator θ t / deriv (Gen.Clayton.generator θ) t
      = (t ^ (θ + 1) - t) / θ) ∧
    (1 ≤ θ → t < 1 → Gen.Gumbel.generator θ t / deriv (Gen.Gumbel.generator θ) t
      = t * Real.log t / θ) ∧
    (θ ≠ 0 → Gen.Frank.generator θ t / deriv (Gen.Frank.generator θ) t
      = (Real.exp (θ * t) - 1) / θ *
          Real.log ((Real.exp (-θ * t) - 1) / (Real.exp (-θ) - 1))) := by
  refine ⟨fun hθ => ?_, fun hθ ht1 => ?_, fun hθ => ?_⟩
  · rw [funext (Clayton.bridge_generator θ)]; exact clayton_ratio hθ ht
  · rw [funext (Gumbel.bridge_generator θ)]; exact gumbel_ratio hθ ht ht1
  · rw [funext (Frank.bridge_generator θ), frank_ratio hθ ht]
    simp [frankRatio, Frank.r, Frank.g]

/-- The integrands are interval integrable on `[0,1]`: none of the integrals below is the junk
value `0` of a non-integrable function. -/
theorem generator_ratio_integrable {θ : ℝ} :
    (0 < θ → IntervalIntegrable
      (fun t => Gen.Clayton.generator θ t / deriv (Gen.Clayton.generator θ) t) volume 0 1) ∧
    (1 ≤ θ → IntervalIntegrable
      (fun t => Gen.Gumbel.generator θ t / deriv (Gen.Gumbel.generator θ) t) volume 0 1) ∧
    (θ ≠ 0 → IntervalIntegrable
      (fun t => Gen.Frank.generator θ t / deriv (Gen.Frank.generator θ) t) volume 0 1) := by
  refine ⟨fun hθ => ?_, fun hθ => ?_, fun hθ => ?_⟩
  · rw [funext (Clayton.bridge_generator θ)]; exact clayton_ratio_intervalIntegrable hθ
  · rw [funext (Gumbel.bridge_generator θ)]; exact gumbel_ratio_intervalIntegrable hθ
  · rw [funext (Frank.bridge_generator θ)]; exact frank_ratio_intervalIntegrable hθ

/-! ## Clayton -/

/-- Clayton, `θ > 0`: `∫₀¹ φ/φ' = −1/(2(θ+2))`, hence `1 + 4 ∫₀¹ φ/φ' = θ/(θ+2)` — the map that
`Clayton.compute_theta` inverts. -/
theorem clayton_generator_tau {θ : ℝ} (hθ : 0 < θ) :
    (∫ t in (0 : ℝ)..1, Gen.Clayton.generator θ t / deriv (Gen.Clayton.generator θ) t)
      = -1 / (2 * (θ + 2)) ∧
    1 + 4 * (∫ t in (0 : ℝ)..1, Gen.Clayton.generator θ t / deriv (Gen.Clayton.generator θ) t)
      = θ / (θ + 2) := by
  rw [funext (Clayton.bridge_generator θ)]
  exact ⟨clayton_integral hθ, clayton_tauGen hθ⟩

/-- Clayton calibration is generator-consistent: for `τ ∈ (0,1)` the θ returned by the generated
`compute_theta` is admissible (`θ > 0`) and the Kendall-tau functional of the generated generator
at that θ is τ. -/
theorem clayton_calibration_matches_generator {τ θ : ℝ} (h0 : 0 < τ) (h1 : τ < 1)
    (hc : Gen.Clayton.computeTheta τ = .ok (.fin θ)) :
    0 < θ ∧
    1 + 4 * (∫ t in (0 : ℝ)..1, Gen.Clayton.generator θ t / deriv (Gen.Clayton.generator θ) t)
      = τ := by
  obtain ⟨hθ, hτ⟩ := C10.clayton_tau_roundtrip h1.ne hc
  have hpos : 0 < θ := by rw [hθ]; exact div_pos (by linarith) (by linarith)
  exact ⟨hpos, by rw [(clayton_generator_tau hpos).2, hτ]⟩

/-- non-vacuity: `τ = 1/2` is calibrated to `θ = 2`, whose generator functional is `1/2`. -/
example : Gen.Clayton.computeTheta (1 / 2 : ℝ) = .ok (.fin 2) ∧
    1 + 4 * (∫ t in (0 : ℝ)..1, Gen.Clayton.generator (2 : ℝ) t /
      deriv (Gen.Clayton.generator (2 : ℝ)) t) = 1 / 2 := by
  have hc : Gen.Clayton.computeTheta (1 / 2 : ℝ) = .ok (.fin 2) := by
    rw [C10.clayton_tau_computed (by norm_num)]; norm_num
  exact ⟨hc, (clayton_calibration_matches_generator (by norm_num) (by norm_num) hc).2⟩

example : 1 + 4 * (∫ t in (0 : ℝ)..1, Gen.Clayton.generator (2 : ℝ) t /
    deriv (Gen.Clayton.generator (2 : ℝ)) t) = 1 / 2 := by
  rw [(clayton_generator_tau (by norm_num)).2]; norm_num

/-! ## Gumbel -/

/-- Gumbel, `θ ≥ 1`: `∫₀¹ φ/φ' = −1/(4θ)` (from `∫₀¹ t log t dt = −1/4`), hence
`1 + 4 ∫₀¹ φ/φ' = 1 − 1/θ` — the map that `Gumbel.compute_theta` inverts. -/
theorem gumbel_generator_tau {θ : ℝ} (hθ : 1 ≤ θ) :
    (∫ t in (0 : ℝ)..1, Gen.Gumbel.generator θ t / deriv (Gen.Gumbel.generator θ) t)
      = -1 / (4 * θ) ∧
    1 + 4 * (∫ t in (0 : ℝ)..1, Gen.Gumbel.generator θ t / deriv (Gen.Gumbel.generator θ) t)
      = 1 - 1 / θ := by
  rw [funext (Gumbel.bridge_generator θ)]
  exact ⟨gumbel_integral hθ, gumbel_tauGen hθ⟩

/-- Gumbel calibration is generator-consistent: for `τ ∈ [0,1)` the θ returned by the generated
`compute_theta` is admissible (`θ ≥ 1`) and the Kendall-tau functional of the generated generator
at that θ is τ. -/
theorem gumbel_calibration_matches_generator {τ θ : ℝ} (h0 : 0 ≤ τ) (h1 : τ < 1)
    (hc : Gen.Gumbel.computeTheta τ = .ok (.fin θ)) :
    1 ≤ θ ∧
    1 + 4 * (∫ t in (0 : ℝ)..1, Gen.Gumbel.generator θ t / deriv (Gen.Gumbel.generator θ) t)
      = τ := by
  obtain ⟨hθ, hτ⟩ := C10.gumbel_tau_roundtrip h1.ne hc
  have hge : 1 ≤ θ := by
    rw [hθ, le_div_iff₀ (by linarith)]; linarith
  exact ⟨hge, by rw [(gumbel_generator_tau hge).2, hτ]⟩

example : Gen.Gumbel.computeTheta (1 / 2 : ℝ) = .ok (.fin 2) ∧
    1 + 4 * (∫ t in (0 : ℝ)..1, Gen.Gumbel.generator (2 : ℝ) t /
      deriv (Gen.Gumbel.generator (2 : ℝ)) t) = 1 / 2 := by
  have hc : Gen.Gumbel.computeTheta (1 / 2 : ℝ) = .ok (.fin 2) := by
    rw [C10.gumbel_tau_computed (by norm_num)]; norm_num
  exact ⟨hc, (gumbel_calibration_matches_generator (by norm_num) (by norm_num) hc).2⟩

/-- `τ = 0` is calibrated to `θ = 1` (independence), generator functional `0`. -/
example : Gen.Gumbel.computeTheta (0 : ℝ) = .ok (.fin 1) ∧
    1 + 4 * (∫ t in (0 : ℝ)..1, Gen.Gumbel.generator (1 : ℝ) t /
      deriv (Gen.Gumbel.generator (1 : ℝ)) t) = 0 := by
  have hc : Gen.Gumbel.computeTheta (0 : ℝ) = .ok (.fin 1) := by
    rw [C10.gumbel_tau_computed (by norm_num)]; norm_num
  exact ⟨hc, (gumbel_calibration_matches_generator le_rfl (by norm_num) hc).2⟩

/-! ## Frank -/

/-- Frank, `θ ≠ 0` (either sign): `∫₀¹ φ/φ' = (D₁(θ) − 1)/θ` with the first Debye function
`D₁(θ) = (1/θ) ∫₀^θ s/(eˢ−1) ds` written with the GENERATED integrand, hence
`1 + 4 ∫₀¹ φ/φ' = 1 + 4 (D₁(θ) − 1)/θ` — the map whose residual `Frank.compute_theta` solves.
(Integration by parts against `(e^{θt}−1)/θ − t` and the substitution `s = θt`; the boundary term
vanishes at `0` because `t·log r(t) → 0`.) -/
theorem frank_generator_tau {θ : ℝ} (hθ : θ ≠ 0) :
    (∫ t in (0 : ℝ)..1, Gen.Frank.generator θ t / deriv (Gen.Frank.generator θ) t)
      = ((∫ s in (0 : ℝ)..θ, Gen.Frank.debyeIntegrand s) / θ - 1) / θ ∧
    1 + 4 * (∫ t in (0 : ℝ)..1, Gen.Frank.generator θ t / deriv (Gen.Frank.generator θ) t)
      = 1 + 4 * ((∫ s in (0 : ℝ)..θ, Gen.Frank.debyeIntegrand s) / θ - 1) / θ := by
  rw [funext (Frank.bridge_generator θ), BivFit.bridge_dbe]
  have h := frank_integral hθ
  have e : debye1 θ = (∫ s in (0 : ℝ)..θ, BivFit.dbe s) / θ := rfl
  rw [e] at h
  refine ⟨h, ?_⟩
  rw [h]; ring

/-- The residual `_tau_to_theta(a) = τ(a) − τ` handed to `least_squares` — with `integrate.quad`
read as the exact interval integral and lower limit `0` (NOTE: the code passes `EPSILON`, not `0`)
— is the Kendall-tau functional of the generated Frank generator at `a`, minus τ.  So a zero of the
residual is a θ whose generator has Kendall tau τ. -/
theorem frank_residual_is_generator_tau {τ a : ℝ} (ha : a ≠ 0) :
    Gen.Frank.tauResidual (fun f lo hi => ∫ t in lo..hi, f t) 0 τ a
      = (1 + 4 * ∫ t in (0 : ℝ)..1, Gen.Frank.generator a t / deriv (Gen.Frank.generator a) t)
        - τ := by
  rw [funext (Frank.bridge_generator a)]
  exact frank_tauResidual_eq ha

theorem frank_calibration_matches_generator {τ a : ℝ} (ha : a ≠ 0) :
    Gen.Frank.tauResidual (fun f lo hi => ∫ t in lo..hi, f t) 0 τ a = 0 ↔
      (1 + 4 * ∫ t in (0 : ℝ)..1, Gen.Frank.generator a t / deriv (Gen.Frank.generator a) t)
        = τ := by
  rw [frank_residual_is_generator_tau ha, sub_eq_zero]

/-- For `θ > 0` the Debye value is genuine, `0 < D₁(θ) < 1`, and so the Frank functional is `< 1`. -/
theorem frank_generator_tau_lt_one {θ : ℝ} (hθ : 0 < θ) :
    0 < (∫ s in (0 : ℝ)..θ, Gen.Frank.debyeIntegrand s) / θ ∧
    (∫ s in (0 : ℝ)..θ, Gen.Frank.debyeIntegrand s) / θ < 1 ∧
    1 + 4 * (∫ t in (0 : ℝ)..1, Gen.Frank.generator θ t / deriv (Gen.Frank.generator θ) t) < 1 := by
  have h := debye1_mem_Ioo hθ
  have e : debye1 θ = (∫ s in (0 : ℝ)..θ, BivFit.dbe s) / θ := rfl
  rw [e] at h
  rw [BivFit.bridge_dbe, funext (Frank.bridge_generator θ)]
  exact ⟨h.1, h.2, frank_tauGen_lt_one hθ⟩

/- non-vacuity: both signs of θ -/
example : 1 + 4 * (∫ t in (0 : ℝ)..1, Gen.Frank.generator (3 : ℝ) t /
    deriv (Gen.Frank.generator (3 : ℝ)) t)
      = 1 + 4 * ((∫ s in (0 : ℝ)..3, Gen.Frank.debyeIntegrand s) / 3 - 1) / 3 :=
  (frank_generator_tau (by norm_num)).2

example : 1 + 4 * (∫ t in (0 : ℝ)..1, Gen.Frank.generator (-3 : ℝ) t /
    deriv (Gen.Frank.generator (-3 : ℝ)) t)
      = 1 + 4 * ((∫ s in (0 : ℝ)..(-3), Gen.Frank.debyeIntegrand s) / (-3) - 1) / (-3) :=
  (frank_generator_tau (by norm_num)).2

end CopVerif.Props.C10b
