import CopVerif.Lemmas.Effects
import CopVerif.Lemmas.Plot
/-!
# C20 — Library calls never modify caller-owned inputs; plots show exactly the data

Property theorems only.  Core Lean (no Mathlib).

**Design choice (false alarms = 0).**  The per-entry-point facts `noParamWrite (flatten Gen.Effects.module e)`
are *not* stated as theorems about generated data: a repaired entry point (e.g. `bisect` copying its
arguments) would make a `…_counterexample` theorem about the generated program fail to build, which the
harness could not tell from a regression.  Instead

* this file proves, once and for **every** IR program, that the checker is sound for the heap semantics
  (`noParamWrite_sound`, `noParamWriteEntry_sound`, `reuse_same_result`), and exhibits hand-written
  programs with the shapes found in `/repo` (aliasing write, write through a `self.<attr>` alias, write in
  a callee, augmented bracket update) that the checker rejects **and** that really mutate the parameter in
  the heap semantics (`…_counterexample`), next to their repaired shapes, which are accepted;
* the driver (`Driver/Effects.lean`) evaluates the *same* `noParamWrite`/`mayWrite` definitions on the
  program generated from `/repo` at run time, and `tools/props/c20.py` compares the verdict per entry
  point and per parameter with what really happens to deep-snapshotted arguments.
-/
namespace CopVerif.Props.C20
open CopVerif CopVerif.Model.Effects CopVerif.Model.Plot

/-! ## Soundness of the write-effect checker -/

/-- **Soundness, general roots.**  If the checker accepts `p` from the root variables `roots`, then
from ANY heap in which the objects in `Owned` are pointed at by root variables only (and are
allocated), EVERY finite trace over the statement set of `p` — any order, any repetition, arbitrary
written contents — leaves every object in `Owned` with its initial content. -/
theorem safeFrom_sound (p : Program) (roots : List Var) (h : safeFrom p roots = true)
    (Owned : Obj → Prop) (s0 : State)
    (hown : ∀ x, Owned (s0.env x) → x ∈ roots)
    (halloc : ∀ o, Owned o → o < s0.next)
    (tr : List (Stmt × Val)) (htr : ∀ sc ∈ tr, sc.1 ∈ p) :
    ∀ o, Owned o → (run s0 tr).heap o = s0.heap o :=
  okFor_sound p (fun x => (taintArr p roots).getD x false) roots h Owned s0 hown halloc tr htr

/-- **Soundness of `noParamWrite`.**  Caller-owned objects = objects that initially only the declared
parameters (`param x ∈ p`) point at.  For every IR program, acceptance by the checker implies that
no run of the program changes any caller-owned object. -/
theorem noParamWrite_sound (p : Program) (h : noParamWrite p = true)
    (Owned : Obj → Prop) (s0 : State)
    (hown : ∀ x, Owned (s0.env x) → Stmt.param x ∈ p)
    (halloc : ∀ o, Owned o → o < s0.next)
    (tr : List (Stmt × Val)) (htr : ∀ sc ∈ tr, sc.1 ∈ p) :
    ∀ o, Owned o → (run s0 tr).heap o = s0.heap o :=
  safeFrom_sound p (params p) h Owned s0 (fun x hx => mem_params.mpr (hown x hx)) halloc tr htr

/-- non-vacuity of the hypothesis bundle: a concrete accepted program, heap and trace -/
example : ∃ (p : Program) (Owned : Obj → Prop) (s0 : State) (tr : List (Stmt × Val)),
    noParamWrite p = true ∧ (∀ x, Owned (s0.env x) → Stmt.param x ∈ p) ∧
    (∀ o, Owned o → o < s0.next) ∧ (∀ sc ∈ tr, sc.1 ∈ p) ∧ Owned 0 ∧ tr ≠ [] :=
  ⟨[.param 0, .fresh 1, .write 1], (· = 0), ⟨fun v => if v = 0 then 0 else 1, fun _ => 0, 2⟩,
    [(.fresh 1, 5), (.write 1, 7)], by decide, by
      intro x hx
      by_cases h0 : x = 0
      · subst h0; simp
      · simp [h0] at hx,
    by intro o ho; subst ho; decide, by simp, rfl, by simp⟩

/-- **Transitive through `call`.**  An entry point of a module is checked on its flat statement set
(`flatten`: parameter/return bindings of every call plus the bodies of all reachable callees — a real
call executes "bind, run the callee, bind the result", which is one particular trace over that set). -/
theorem noParamWriteEntry_sound (m : Module) (e : Nat) (h : noParamWriteEntry m e = true)
    (Owned : Obj → Prop) (s0 : State)
    (hown : ∀ x, Owned (s0.env x) → Stmt.param x ∈ flatten m e)
    (halloc : ∀ o, Owned o → o < s0.next)
    (tr : List (Stmt × Val)) (htr : ∀ sc ∈ tr, sc.1 ∈ flatten m e) :
    ∀ o, Owned o → (run s0 tr).heap o = s0.heap o :=
  noParamWrite_sound (flatten m e) h Owned s0 hown halloc tr htr

/-- **Re-use gives the same result.**  Anything computed from the contents of the caller-owned objects
only (in particular the result of a second identical, deterministic call on the same argument objects)
is the same after the run as before it. -/
theorem reuse_same_result {β : Type} (p : Program) (h : noParamWrite p = true)
    (Owned : Obj → Prop) (s0 : State)
    (hown : ∀ x, Owned (s0.env x) → Stmt.param x ∈ p)
    (halloc : ∀ o, Owned o → o < s0.next)
    (tr : List (Stmt × Val)) (htr : ∀ sc ∈ tr, sc.1 ∈ p)
    (result : (Obj → Val) → β)
    (hres : ∀ h₁ h₂ : Obj → Val, (∀ o, Owned o → h₁ o = h₂ o) → result h₁ = result h₂) :
    result (run s0 tr).heap = result s0.heap :=
  hres _ _ (noParamWrite_sound p h Owned s0 hown halloc tr htr)

/-! ## Shapes found in /repo: rejected and really mutating, vs. repaired and accepted

Variable numbering in the examples: `0`, `1` parameters; `10…` locals; `20…` `self.<attr>` globals. -/

/-- the start heap of the counter-examples: parameter `0` → object `0`, parameter `1` → object `1`,
    everything else → object `2` (not caller-owned); all contents `0` -/
def demoState : State :=
  ⟨fun v => if v = 0 then 0 else if v = 1 then 1 else 2, fun _ => 0, 3⟩

/-- `y = x[:]; y[...] = …` — **an aliasing write is rejected, and it really mutates the parameter**:
a trace over the statement set, from a heap satisfying the hypotheses of `noParamWrite_sound`, changes
the caller-owned object. -/
theorem aliasing_write_counterexample :
    let p : Program := [.param 0, .alias 10 0, .write 10]
    noParamWrite p = false ∧ mayWrite p = [0] ∧
    ∃ tr : List (Stmt × Val), (∀ sc ∈ tr, sc.1 ∈ p) ∧
      (∀ x, demoState.env x = 0 → Stmt.param x ∈ p) ∧
      (run demoState tr).heap 0 ≠ demoState.heap 0 := by
  refine ⟨by decide, by decide, [(.alias 10 0, 0), (.write 10, 7)], by simp, ?_, by decide⟩
  intro x hx
  by_cases h0 : x = 0
  · subst h0; simp
  · by_cases h1 : x = 1 <;> simp [demoState, h0, h1] at hx

/-- `y = x.copy(); y[...] = …` — **copy-then-write is accepted** (hence safe by `noParamWrite_sound`) -/
theorem copy_then_write_accepted :
    noParamWrite [.param 0, .fresh 10, .write 10] = true := by decide

/-- SSA renaming: `data = data.copy(); data['Data'] = …` writes the fresh version `data₁`, not the
parameter `data₀`; without the copy (`data₁` aliases `data₀`) the program is rejected. -/
theorem ssa_copy_accepted_alias_rejected :
    noParamWrite [.param 0, .fresh 10, .write 10, .alias 11 10] = true ∧
    noParamWrite [.param 0, .alias 10 0, .write 10, .alias 11 10] = false := by decide

/-- `optimize.bisect` as found: `xmin[mask] = guess[mask]; xmax[mask] = …` are bracket stores into
the parameters `0 = xmin`, `1 = xmax` — rejected for both, and the trace `write xmin` mutates `xmin`. -/
theorem bracket_update_counterexample :
    let p : Program := [.param 0, .param 1, .fresh 10, .fresh 11, .write 0, .write 1, .fresh 12]
    noParamWrite p = false ∧ mayWrite p = [0, 1] ∧
    ∃ tr : List (Stmt × Val), (∀ sc ∈ tr, sc.1 ∈ p) ∧
      (run demoState tr).heap 0 ≠ demoState.heap 0 ∧ (run demoState tr).heap 1 ≠ demoState.heap 1 := by
  exact ⟨by decide, by decide, [(.write 0, 7), (.write 1, 8)], by simp, by decide, by decide⟩

/-- the repaired shape (`xmin = xmin.copy()` / `np.array(xmin, dtype=float)` first) is accepted -/
theorem bracket_update_repaired_accepted :
    noParamWrite [.param 0, .param 1, .fresh 10, .fresh 11, .write 10, .write 11, .fresh 12] = true := by
  decide

/-- **Aliasing a parameter into `self.<attr>` and writing through it later is caught**
(`Tree.fit`: `self.tau_matrix = tau_matrix`; `_sort_tau_by_y`: `tau_y = self.tau_matrix[:, y];
tau_y[y] = nan`).  `20 = self.tau_matrix`, `10 = tau_y`.  Writing `self.<attr>` itself (re-binding
model state) is not a write to a caller-owned object. -/
theorem self_attr_alias_counterexample :
    let p : Program := [.param 0, .alias 20 0, .alias 10 20, .write 10]
    noParamWrite p = false ∧
    ∃ tr : List (Stmt × Val), (∀ sc ∈ tr, sc.1 ∈ p) ∧ (run demoState tr).heap 0 ≠ demoState.heap 0 := by
  exact ⟨by decide, [(.alias 20 0, 0), (.alias 10 20, 0), (.write 10, 9)], by simp, by decide⟩

/-- model-owned state holding a *copy* of the argument may be written freely -/
theorem self_attr_copy_accepted :
    noParamWrite [.param 0, .fresh 20, .alias 10 20, .write 10] = true := by decide

/-- the module of the visualisation shape: function 0 = `scatter_2d(data=0, columns=1)`
    (`data = data.copy(); data['Data'] = …; return helper(data, columns)`), function 1 =
    `_generate_scatter_2d_plot(data=30, columns=31)` with `columns.append('Data')`. -/
def plotShapeAsFound : Module :=
  #[⟨[0, 1], [12], [.fresh 10, .write 10, .call 1 [10, 1] [12]]⟩,
    ⟨[30, 31], [33], [.write 31, .fresh 33]⟩]

/-- repaired helper: `columns = list(columns) + ['Data']` -/
def plotShapeRepaired : Module :=
  #[⟨[0, 1], [12], [.fresh 10, .write 10, .call 1 [10, 1] [12]]⟩,
    ⟨[30, 31], [33], [.fresh 32, .write 32, .fresh 33]⟩]

/-- **A write inside a callee is attributed to the caller's parameter** (transitivity through `call`):
`columns` (and only `columns`) may be written, and the trace "bind parameters, run the callee" mutates
the caller's `columns` object while the `data` object stays intact. -/
theorem callee_write_counterexample :
    noParamWriteEntry plotShapeAsFound 0 = false ∧
    mayWrite (flatten plotShapeAsFound 0) = [1] ∧
    ∃ tr : List (Stmt × Val), (∀ sc ∈ tr, sc.1 ∈ flatten plotShapeAsFound 0) ∧
      (run demoState tr).heap 1 ≠ demoState.heap 1 ∧ (run demoState tr).heap 0 = demoState.heap 0 := by
  refine ⟨by decide, by decide,
    [(.fresh 10, 0), (.write 10, 5), (.alias 30 10, 0), (.alias 31 1, 0), (.write 31, 9)], ?_, by decide,
    by decide⟩
  decide

theorem callee_copy_accepted : noParamWriteEntry plotShapeRepaired 0 = true := by decide

/-! ## Plots: label, concat, split by label -/

section
variable {α : Type} [Inhabited α]

/-- **compare_2d shows exactly the data.**  For all frames, all requested columns `a`, `b` that exist (at
positions `i`, `j`) and with or without an explicit title, the figure is built, the points under label
Real are exactly the rows of `real[[a, b]]` — each once, in order — the points under label Synthetic are
exactly the rows of `synth[[a, b]]`, and no label heads two traces.  (The model reads both frames with
`real.cols`; the harness generates frames with equal column lists.) -/
theorem compare2d_exact (real synth : Frame α) (a b : String) (i j : Nat) (titled : Bool)
    (ha : colIndex real.cols a = some i) (hb : colIndex real.cols b = some j) :
    ∃ ts, compare2d real synth (some [a, b]) titled = .ok ts ∧
      pointsOf ts .real = real.rows.map (fun r => (cell r i, cell r j)) ∧
      pointsOf ts .synthetic = synth.rows.map (fun r => (cell r i, cell r j)) ∧
      (ts.map (·.1)).Nodup := by
  refine ⟨_, ?_, (points_concat real synth (fun r => (cell r i, cell r j))).1,
    (points_concat real synth (fun r => (cell r i, cell r j))).2, splitByLabel_labels_nodup _⟩
  cases titled <;> simp [compare2d, titleStep, generate2d, plotColumns, ha, hb, Except.bind]

theorem scatter2d_exact (data : Frame α) (a b : String) (i j : Nat) (titled : Bool)
    (ha : colIndex data.cols a = some i) (hb : colIndex data.cols b = some j) :
    ∃ ts, scatter2d data (some [a, b]) titled = .ok ts ∧
      pointsOf ts .real = data.rows.map (fun r => (cell r i, cell r j)) ∧
      pointsOf ts .synthetic = [] ∧ (ts.map (·.1)).Nodup := by
  refine ⟨_, ?_, (points_single data (fun r => (cell r i, cell r j))).1,
    (points_single data (fun r => (cell r i, cell r j))).2, splitByLabel_labels_nodup _⟩
  cases titled <;> simp [scatter2d, titleStep, generate2d, plotColumns, ha, hb, Except.bind]

theorem compare3d_exact (real synth : Frame α) (a b c : String) (i j k : Nat) (titled : Bool)
    (ha : colIndex real.cols a = some i) (hb : colIndex real.cols b = some j)
    (hc : colIndex real.cols c = some k) :
    ∃ ts, compare3d real synth (some [a, b, c]) titled = .ok ts ∧
      pointsOf ts .real = real.rows.map (fun r => (cell r i, cell r j, cell r k)) ∧
      pointsOf ts .synthetic = synth.rows.map (fun r => (cell r i, cell r j, cell r k)) ∧
      (ts.map (·.1)).Nodup := by
  refine ⟨_, ?_, (points_concat real synth (fun r => (cell r i, cell r j, cell r k))).1,
    (points_concat real synth (fun r => (cell r i, cell r j, cell r k))).2, splitByLabel_labels_nodup _⟩
  cases titled <;> simp [compare3d, titleStep, generate3d, plotColumns, ha, hb, hc, Except.bind]

theorem scatter3d_exact (data : Frame α) (a b c : String) (i j k : Nat) (titled : Bool)
    (ha : colIndex data.cols a = some i) (hb : colIndex data.cols b = some j)
    (hc : colIndex data.cols c = some k) :
    ∃ ts, scatter3d data (some [a, b, c]) titled = .ok ts ∧
      pointsOf ts .real = data.rows.map (fun r => (cell r i, cell r j, cell r k)) ∧
      pointsOf ts .synthetic = [] ∧ (ts.map (·.1)).Nodup := by
  refine ⟨_, ?_, (points_single data (fun r => (cell r i, cell r j, cell r k))).1,
    (points_single data (fun r => (cell r i, cell r j, cell r k))).2, splitByLabel_labels_nodup _⟩
  cases titled <;> simp [scatter3d, titleStep, generate3d, plotColumns, ha, hb, hc, Except.bind]

/-- **Default columns.**  With `columns=None` (or the empty list, `if columns:`) the builders use the
frame's own columns: on a two-column frame the default is its two columns, on a three-column frame
its three columns (the first two/three — and, as found, a default plot of a wider frame is a
`ValueError`, see `wrong_arity_2d`). -/
theorem default_columns_2d (real synth : Frame α) (a b : String) (titled : Bool) (h : real.cols = [a, b]) :
    compare2d real synth none titled = compare2d real synth (some [a, b]) titled ∧
    compare2d real synth (some []) titled = compare2d real synth (some [a, b]) titled ∧
    scatter2d real none titled = scatter2d real (some [a, b]) titled := by
  cases titled <;> simp [compare2d, scatter2d, titleStep, generate2d, plotColumns, h]

theorem default_columns_3d (real synth : Frame α) (a b c : String) (titled : Bool) (h : real.cols = [a, b, c]) :
    compare3d real synth none titled = compare3d real synth (some [a, b, c]) titled ∧
    compare3d real synth (some []) titled = compare3d real synth (some [a, b, c]) titled ∧
    scatter3d real none titled = scatter3d real (some [a, b, c]) titled := by
  cases titled <;> simp [compare3d, scatter3d, titleStep, generate3d, plotColumns, h]

/-- **Wrong arity ⇒ ValueError** — for a request with too many names, for a request with too few names when
a title is given, and for a default request on a frame that does not have exactly two columns. -/
theorem wrong_arity_2d (real synth : Frame α) (cs : List String) (titled : Bool) :
    (2 < cs.length →
      compare2d real synth (some cs) titled = .error .valueError ∧
      scatter2d real (some cs) titled = .error .valueError) ∧
    (cs.length = 1 →
      compare2d real synth (some cs) true = .error .valueError ∧
      scatter2d real (some cs) true = .error .valueError) ∧
    (real.cols.length ≠ 2 →
      compare2d real synth none titled = .error .valueError ∧ scatter2d real none titled = .error .valueError) := by
  refine ⟨?_, ?_, ?_⟩
  · intro hlen
    match cs, hlen with
    | _ :: _ :: _ :: t, _ =>
      have h : ¬ (t.length + 1 + 1 + 1 < 2) := by omega
      cases titled <;> simp [compare2d, scatter2d, titleStep, generate2d, plotColumns, Except.bind, h]
  · intro hlen
    match cs, hlen with
    | [_], _ => simp [compare2d, scatter2d, titleStep, generate2d, plotColumns, Except.bind]
  · intro hlen
    match hc : real.cols, hlen with
    | [], _ => simp [compare2d, scatter2d, titleStep, generate2d, plotColumns, hc, Except.bind]
    | [_], _ => simp [compare2d, scatter2d, titleStep, generate2d, plotColumns, hc, Except.bind]
    | _ :: _ :: _ :: _, _ => simp [compare2d, scatter2d, titleStep, generate2d, plotColumns, hc, Except.bind]

/-- As found: a non-empty request with FEWER than two names and no explicit title does not reach the arity
test — building the default title indexes `columns[1]` first (`IndexError`, canonical kind `other`).  So
"wrong arity ⇒ ValueError" fails for this shape (counter-example to the unconditional statement). -/
theorem wrong_arity_2d_counterexample (real synth : Frame α) (c : String) :
    compare2d real synth (some [c]) false = .error .other ∧ scatter2d real (some [c]) false = .error .other := by
  simp [compare2d, scatter2d, titleStep, Except.bind]

theorem wrong_arity_3d (real synth : Frame α) (cs : List String) (titled : Bool) :
    (3 < cs.length →
      compare3d real synth (some cs) titled = .error .valueError ∧
      scatter3d real (some cs) titled = .error .valueError) ∧
    (cs ≠ [] → cs.length < 3 →
      compare3d real synth (some cs) true = .error .valueError ∧
      scatter3d real (some cs) true = .error .valueError) ∧
    (real.cols.length ≠ 3 →
      compare3d real synth none titled = .error .valueError ∧ scatter3d real none titled = .error .valueError) := by
  refine ⟨?_, ?_, ?_⟩
  · intro hlen
    match cs, hlen with
    | _ :: _ :: _ :: _ :: t, _ =>
      have h : ¬ (t.length + 1 + 1 + 1 + 1 < 3) := by omega
      cases titled <;> simp [compare3d, scatter3d, titleStep, generate3d, plotColumns, Except.bind, h]
  · intro hne hlen
    match cs, hne, hlen with
    | [_], _, _ => simp [compare3d, scatter3d, titleStep, generate3d, plotColumns, Except.bind]
    | [_, _], _, _ => simp [compare3d, scatter3d, titleStep, generate3d, plotColumns, Except.bind]
  · intro hlen
    match hc : real.cols, hlen with
    | [], _ => simp [compare3d, scatter3d, titleStep, generate3d, plotColumns, hc, Except.bind]
    | [_], _ => simp [compare3d, scatter3d, titleStep, generate3d, plotColumns, hc, Except.bind]
    | [_, _], _ => simp [compare3d, scatter3d, titleStep, generate3d, plotColumns, hc, Except.bind]
    | _ :: _ :: _ :: _ :: _, _ =>
      simp [compare3d, scatter3d, titleStep, generate3d, plotColumns, hc, Except.bind]

theorem wrong_arity_3d_counterexample (real synth : Frame α) (c d : String) :
    compare3d real synth (some [c, d]) false = .error .other ∧
    scatter3d real (some [c]) false = .error .other := by
  simp [compare3d, scatter3d, titleStep, Except.bind]

end

/-- non-vacuity of the plot theorems' hypotheses: a concrete frame and request -/
example : colIndex (["x", "y", "z"] : List String) "z" = some 2 := by decide

end CopVerif.Props.C20
