import CopVerif.Props.C15
import CopVerif.Model.DatasetShape
/-!
# C15b — the selecting wrapper at full strength (repaired code), and "exactly `size` rows"

Property theorems only (core Lean, no Mathlib).  Two clauses of C15 were only `_partial` in
`Props/C15.lean`:

* **the selecting wrapper `Univariate`** (`univariate_wrapper_partial`).  Since /repo commit 3064bc9
  `Univariate.sample` carries `@random_state`, i.e. the decorator table introspected from the code is
  `repairedTable`.  Here every clause of the property is stated for **any population of models whose
  classes are taken from all sixteen sampler classes, wrapper included**, configured by
  `repairedTable` — determinism, advancement, exception safety, isolation of the global generator,
  the unseeded case — and it is shown that the wrapper then samples exactly what the class it
  selected would sample with the same seed.  The as-found behaviour stays refuted
  (`C15.univariate_wrapper_counterexample`); `wrapper_isolated_iff_decorated` makes the case
  analysis complete: the clause holds of a configuration **iff** its table decorates the sampler.
* **row counts of the dataset generators** (`dataset_rows_partial`).  `Model/DatasetShape.lean`
  models the construction of every generator of `copulas/datasets.py` at the level of shapes
  (lengths of the numpy draws, broadcasting of the elementwise operators, the boolean-mask update,
  `np.full`, `pd.Series`/`pd.DataFrame` of equally long columns); the programs issue exactly the
  draw requests the RNG-protocol model uses, and each returns `size` rows, for every `size`.
-/
namespace CopVerif.Props.C15b
open CopVerif.Model.Rng CopVerif.Model.DatasetShape

variable {G Draw Out : Type}

/-! ## the decorator table after the repair -/

/-- With the table of the repaired code, **every** model of every sampler class — the selecting
wrapper `Univariate` included — has a decorated sampler, whatever the classes of the other models
of the population are. -/
theorem all_samplers_decorated (clsOf : Nat → String) (m : Nat)
    (hm : clsOf m ∈ samplerClasses ++ ["Univariate"]) :
    (configOf repairedTable clsOf).decorated m = true := by
  have key : ∀ c ∈ samplerClasses ++ ["Univariate"], tableDecorated repairedTable c = true := by
    decide
  simpa [configOf] using key _ hm

/-- Complete case analysis of the two tables over the sixteen classes: as found, a class is
decorated iff it is not the wrapper; repaired, every class is. -/
theorem decorator_tables_case_analysis :
    (∀ c ∈ samplerClasses ++ ["Univariate"],
      (tableDecorated asFoundTable c = true ↔ c ≠ "Univariate") ∧
      tableDecorated repairedTable c = true) := by
  decide

/-! ## one call of a seeded wrapper -/

/-- **The wrapper clause holds iff the sampler is decorated.**  For a model `m` of a configuration
`cfg`: "whenever `m` holds a seed, `m.sample` leaves the global generator exactly as it was and
returns the values of `m`'s own stream" — for every generator algebra, call (returning or raising)
and world — is equivalent to `m.sample` being wrapped by `@random_state`.  (`←`: `sample_seeded`;
`→`: an undecorated sampler run on the counter algebra moves the global generator.) -/
theorem wrapper_isolated_iff_decorated (cfg : Config) (m : Nat) :
    (∀ (G Draw Out : Type) (A : GenAlg G Draw Out) (c : Call Draw) (w : World G) (r : Nat),
      w.rs m = some r →
        (sample A cfg m c w).1.global = w.global ∧ (sample A cfg m c w).2 = result A (w.heap r) c ∧
        (sample A cfg m c w).1.view m = some (advDraws A (w.heap r) c.draws)) ↔
    cfg.decorated m = true := by
  constructor
  · intro H
    cases hd : cfg.decorated m with
    | true => rfl
    | false =>
      exfalso
      let w : World Nat := ⟨0, fun _ => 5, 1, fun _ => some 0⟩
      have hs : seeded cfg w m = false := by simp [seeded, hd]
      have h1 := (H Nat Nat Nat ctr ⟨[1], false⟩ w 0 rfl).1
      rw [sample_unseeded ctr cfg ⟨[1], false⟩ hs] at h1
      revert h1
      decide
  · intro hd G Draw Out A c w r hr
    rw [sample_seeded A cfg c hd hr]
    exact ⟨rfl, rfl, by simp [World.view]⟩

/-- Instance at the two tables, for every population in which `m` is a `Univariate` wrapper: the
clause holds of the repaired code and is false of the code as found. -/
theorem univariate_wrapper_isolated (clsOf : Nat → String) (m : Nat) (hm : clsOf m = "Univariate") :
    (∀ (G Draw Out : Type) (A : GenAlg G Draw Out) (c : Call Draw) (w : World G) (r : Nat),
      w.rs m = some r →
        (sample A (configOf repairedTable clsOf) m c w).1.global = w.global ∧
        (sample A (configOf repairedTable clsOf) m c w).2 = result A (w.heap r) c ∧
        (sample A (configOf repairedTable clsOf) m c w).1.view m
          = some (advDraws A (w.heap r) c.draws)) ∧
    ¬ (∀ (G Draw Out : Type) (A : GenAlg G Draw Out) (c : Call Draw) (w : World G) (r : Nat),
      w.rs m = some r →
        (sample A (configOf asFoundTable clsOf) m c w).1.global = w.global ∧
        (sample A (configOf asFoundTable clsOf) m c w).2 = result A (w.heap r) c ∧
        (sample A (configOf asFoundTable clsOf) m c w).1.view m
          = some (advDraws A (w.heap r) c.draws)) := by
  constructor
  · exact (wrapper_isolated_iff_decorated _ m).2 (all_samplers_decorated clsOf m (by simp [hm]))
  · intro H
    have hd := (wrapper_isolated_iff_decorated _ m).1 H
    have : tableDecorated asFoundTable "Univariate" = false := by decide
    simp [configOf, hm, this] at hd

/-- The decorated wrapper samples **exactly what the class it selected would sample with the same
seed**: `Univariate.sample` runs `self._instance.sample` — whose own decorator sees
`random_state = None` — inside the wrapper's scope, so the call on the wrapper and the same call on
a model of any (decorated) sampler class in the same world have the same result and the same
effect on the world. -/
theorem wrapper_sample_eq_selected (A : GenAlg G Draw Out) (clsOf clsOf' : Nat → String) (m : Nat)
    (hm : clsOf m = "Univariate") (hm' : clsOf' m ∈ samplerClasses) (c : Call Draw) (w : World G) :
    sample A (configOf repairedTable clsOf) m c w = sample A (configOf repairedTable clsOf') m c w := by
  have hd := all_samplers_decorated clsOf m (by simp [hm])
  have hd' := all_samplers_decorated clsOf' m (List.mem_append.2 (.inl hm'))
  have hu : ∀ cfg : Config, undecoratedSample A cfg m c = drawGlobal A c := fun cfg =>
    funext (undecoratedSample_eq A cfg m c)
  simp [sample, hd, hd', hu]

/-- the delegation is really exercised: a wrapper's sampler is the `delegating` kind. -/
example : (configOf repairedTable fun _ => "Univariate").kind 0 = .delegating := by decide

/-! ## histories: every clause, for all sixteen classes -/

/-- **Determinism, all classes, wrapper included.**  Two runs of the repaired code — different
populations (any classes), different worlds (prior global state, other models), different
histories — in which two models of sampler classes (each may be a `Univariate` wrapper, and the two
need not be of the same class) start from the same generator state and receive the same own call
sequence return the same results call by call and end in the same state. -/
theorem stream_deterministic_all (A : GenAlg G Draw Out) (clsOf₁ clsOf₂ : Nat → String)
    {w₁ w₂ : World G} (hw₁ : WF w₁) (hw₂ : WF w₂) {m₁ m₂ : Nat}
    (hc₁ : clsOf₁ m₁ ∈ samplerClasses ++ ["Univariate"]) (hc₂ : clsOf₂ m₂ ∈ samplerClasses ++ ["Univariate"]) (h₁ h₂ : List (Op Draw))
    (hp₁ : plainFor m₁ h₁ = true) (hp₂ : plainFor m₂ h₂ = true)
    (hv : w₁.view m₁ = w₂.view m₂) (hproj : proj A m₁ h₁ = proj A m₂ h₂) :
    maskedOutputs A (configOf repairedTable clsOf₁) m₁ w₁ h₁
      = maskedOutputs A (configOf repairedTable clsOf₂) m₂ w₂ h₂ ∧
    (runW A (configOf repairedTable clsOf₁) w₁ h₁).view m₁
      = (runW A (configOf repairedTable clsOf₂) w₂ h₂).view m₂ :=
  C15.stream_deterministic A _ _ hw₁ hw₂ (all_samplers_decorated clsOf₁ m₁ hc₁)
    (all_samplers_decorated clsOf₂ m₂ hc₂) h₁ h₂ hp₁ hp₂ hv hproj

/-- … and as soon as both are (re)seeded alike the initial states are irrelevant: *two equal
models with the same seed produce identical streams*. -/
theorem stream_deterministic_from_seed_all (A : GenAlg G Draw Out) (clsOf₁ clsOf₂ : Nat → String)
    {w₁ w₂ : World G} (hw₁ : WF w₁) (hw₂ : WF w₂) {m₁ m₂ : Nat}
    (hc₁ : clsOf₁ m₁ ∈ samplerClasses ++ ["Univariate"]) (hc₂ : clsOf₂ m₂ ∈ samplerClasses ++ ["Univariate"]) (h₁ h₂ : List (Op Draw))
    (hp₁ : plainFor m₁ h₁ = true) (hp₂ : plainFor m₂ h₂ = true)
    (v : Option G) (ops : List (MOp G Draw))
    (hproj₁ : proj A m₁ h₁ = .set v :: ops) (hproj₂ : proj A m₂ h₂ = .set v :: ops) :
    maskedOutputs A (configOf repairedTable clsOf₁) m₁ w₁ h₁
      = maskedOutputs A (configOf repairedTable clsOf₂) m₂ w₂ h₂ ∧
    (runW A (configOf repairedTable clsOf₁) w₁ h₁).view m₁
      = (runW A (configOf repairedTable clsOf₂) w₂ h₂).view m₂ :=
  C15.stream_deterministic_from_seed A _ _ hw₁ hw₂ (all_samplers_decorated clsOf₁ m₁ hc₁)
    (all_samplers_decorated clsOf₂ m₂ hc₂) h₁ h₂ hp₁ hp₂ v ops hproj₁ hproj₂

/-- non-vacuity, and the repaired counterpart of the as-found counterexample: a seeded wrapper
(model 0) in one run, a seeded wrapper (model 2) interleaved with a KDE (model 1) and a re-seeding
of the global generator in another run with a different prior global state — same outputs. -/
example :
    let cls₁ : Nat → String := fun _ => "Univariate"
    let cls₂ : Nat → String := fun m => if m = 1 then "GaussianKDE" else "Univariate"
    let h₁ : List (Op Nat) := [.setState 0 (.int 7), .sample 0 ⟨[1], false⟩, .sample 0 ⟨[2], false⟩]
    let h₂ : List (Op Nat) := [.seedGlobal 9, .setState 1 (.int 8), .setState 2 (.int 7),
      .sample 1 ⟨[5], false⟩, .sample 2 ⟨[1], false⟩, .sample 1 ⟨[1], true⟩, .sample 2 ⟨[2], false⟩]
    plainFor 0 h₁ = true ∧ plainFor 2 h₂ = true ∧
    proj (freeAlg Nat) 0 h₁ = proj (freeAlg Nat) 2 h₂ ∧
    maskedOutputs (freeAlg Nat) (configOf repairedTable cls₁) 0 (World.init ⟨0, []⟩) h₁
      = maskedOutputs (freeAlg Nat) (configOf repairedTable cls₂) 2 (World.init ⟨0, [77]⟩) h₂ ∧
    -- … whereas as found the wrapper's outputs depend on the prior global state
    outputs ctr (configOf asFoundTable cls₁) 0 (World.init 0) h₁
      ≠ outputs ctr (configOf asFoundTable cls₁) 0 (World.init 1) h₁ := by decide

/-- **Successive calls advance the stream, all classes, wrapper included**: if the own call
sequence of a seeded model is `sample c₁, …, sample cₙ`, call `k` is served from the state reached
after the draws of calls `1 … k−1`, and the stored state at the end is the seed state advanced by
all requests in order. -/
theorem stream_advances_all (A : GenAlg G Draw Out) (clsOf : Nat → String) {w : World G} (hw : WF w)
    {m : Nat} (hc : clsOf m ∈ samplerClasses ++ ["Univariate"]) (h : List (Op Draw)) (hp : plainFor m h = true) (g : G)
    (hv : w.view m = some g) (cs : List (Call Draw)) (hproj : proj A m h = cs.map MOp.sample) :
    maskedOutputs A (configOf repairedTable clsOf) m w h = segments A g cs ∧
    (runW A (configOf repairedTable clsOf) w h).view m
      = some (advDraws A g (cs.flatMap Call.draws)) :=
  C15.stream_advances A _ hw (all_samplers_decorated clsOf m hc) h hp g hv cs hproj

/-- … to a *different* state whenever the call drew something (generator without short cycles) —
also when the call raised. -/
theorem stream_advances_distinct_all (A : GenAlg G Draw Out) (hA : Acyclic A) (clsOf : Nat → String)
    {m r : Nat} (hc : clsOf m ∈ samplerClasses ++ ["Univariate"]) (c : Call Draw) {w : World G} (hr : w.rs m = some r)
    (hne : c.draws ≠ []) :
    (sample A (configOf repairedTable clsOf) m c w).1.view m ≠ w.view m :=
  C15.stream_advances_distinct A hA _ c (all_samplers_decorated clsOf m hc) hr hne

/-- **Exception safety, all classes, wrapper included**: a seeded model's sampler whose body raises
after `c.draws` reports the exception, leaves the global generator as it was, stores the advanced
state in a fresh object and touches no other object or model. -/
theorem exception_safe_all (A : GenAlg G Draw Out) (clsOf : Nat → String) {m r : Nat}
    (hcl : clsOf m ∈ samplerClasses ++ ["Univariate"]) (c : Call Draw) {w : World G} (hr : w.rs m = some r)
    (hc : c.raises = true) :
    (sample A (configOf repairedTable clsOf) m c w).2 = .raised ∧
    (sample A (configOf repairedTable clsOf) m c w).1.global = w.global ∧
    (sample A (configOf repairedTable clsOf) m c w).1.view m
      = some (advDraws A (w.heap r) c.draws) ∧
    (∀ r', r' < w.next → (sample A (configOf repairedTable clsOf) m c w).1.heap r' = w.heap r') ∧
    (∀ m', m' ≠ m → (sample A (configOf repairedTable clsOf) m c w).1.rs m' = w.rs m') :=
  C15.exception_safe A _ c (all_samplers_decorated clsOf m hcl) hr hc

/-- **Global generator, all classes, wrapper included.**  In a population of sampler-class models
(any mix, wrappers included) a history in which every `sample` is issued to a model that holds a
seed at that moment and nobody calls `np.random.seed` is `quiet`; hence the global generator state
at its end is the one at its start.  (The hypothesis only looks at
`random_state is not None` along the run: the class plays no role any more.) -/
theorem global_preserved_all (A : GenAlg G Draw Out) (clsOf : Nat → String)
    (hall : ∀ m, clsOf m ∈ samplerClasses ++ ["Univariate"]) (w : World G) (h : List (Op Draw))
    (hs : ∀ (pre : List (Op Draw)) (op : Op Draw) (post : List (Op Draw)), h = pre ++ op :: post →
      match op with
      | .sample m _ => ((runW A (configOf repairedTable clsOf) w pre).rs m).isSome = true
      | .seedGlobal _ => False
      | _ => True) :
    quiet A (configOf repairedTable clsOf) w h = true ∧
    (runW A (configOf repairedTable clsOf) w h).global = w.global := by
  have hq : quiet A (configOf repairedTable clsOf) w h = true := by
    induction h generalizing w with
    | nil => rfl
    | cons op h ih =>
      have h0 := hs [] op h rfl
      have hrest : quiet A (configOf repairedTable clsOf) (stepW A (configOf repairedTable clsOf) w op) h
          = true := by
        apply ih
        intro pre op' post e
        have := hs (op :: pre) op' post (by rw [e]; rfl)
        simpa [runW] using this
      have hop : (globalOp (configOf repairedTable clsOf) w op).isEmpty = true := by
        cases op with
        | sample m c =>
          have hd := all_samplers_decorated clsOf m (hall m)
          simp only [runW] at h0
          simp [globalOp, seeded, hd, h0]
        | seedGlobal n => exact absurd h0 id
        | setState m s => rfl
        | callerNew n => rfl
        | callerDraw r d => rfl
        | dataset s ds => rfl
        | datasetBimodal s a b => rfl
      simp [quiet, hop, hrest]
  exact ⟨hq, C15.global_preserved A _ w h hq⟩

/-- non-vacuity of the hypothesis of `global_preserved_all`: wrappers, a Frank copula and a vine,
calls that return and calls that raise, a caller-owned `RandomState`, dataset generators. -/
example :
    let cls : Nat → String := fun m => if m = 1 then "Frank" else if m = 2 then "VineCopula" else "Univariate"
    let h : List (Op Nat) := [.setState 0 (.int 3), .sample 0 ⟨[5], false⟩, .callerNew 4,
      .setState 1 (.obj 1), .sample 1 ⟨[], true⟩, .dataset 42 [7], .setState 2 (.int 3),
      .sample 2 ⟨[1, 2], false⟩, .sample 0 ⟨[5], true⟩, .datasetBimodal 1 [2] [3, 4]]
    quiet (freeAlg Nat) (configOf repairedTable cls) (World.init ⟨0, []⟩) h = true ∧
    (runW (freeAlg Nat) (configOf repairedTable cls) (World.init ⟨0, []⟩) h).global = ⟨0, []⟩ := by
  decide

/-- **Without a seed, all classes, wrapper included**: a model whose `random_state` is `None` is
its body run on the global stream — driven by, and reproducible through, `np.random.seed`. -/
theorem unseeded_uses_global_all (A : GenAlg G Draw Out) (clsOf : Nat → String) {m : Nat}
    (c : Call Draw) (k : Nat) {w : World G} (hn : w.rs m = none) :
    sample A (configOf repairedTable clsOf) m c w = drawGlobal A c w ∧
    outputs A (configOf repairedTable clsOf) m w [.seedGlobal k, .sample m c]
      = [result A (A.fromSeed k) c] := by
  have hs : seeded (configOf repairedTable clsOf) w m = false := by simp [seeded, hn]
  exact ⟨(C15.unseeded_uses_global A _ c hs).1, C15.unseeded_reproducible A _ c k hs⟩

/-! ## dataset generators: exactly `size` rows -/

/-- The shape-level programs of `Model/DatasetShape.lean` issue, in Python's evaluation order,
exactly the draw requests the RNG-protocol model attributes to each generator
(`datasetDraws`, `bimodalDraws`), and the bimodal generator's first assignment is the body of the
Bernoulli generator (the nested call). -/
theorem dataset_programs_draws (size : Nat) :
    (∀ name ∈ simpleNames, (prog name size).draws = datasetDraws name size) ∧
    (prog "univariate_bimodal" size).draws = (bimodalDraws size).1 ++ (bimodalDraws size).2 ∧
    (prog "univariate_bimodal" size).lets.head? = (prog "univariate_bernoulli" size).cols.head? := by
  refine ⟨?_, rfl, rfl⟩
  intro name hn
  simp only [simpleNames, List.mem_cons, List.not_mem_nil, or_false] at hn
  rcases hn with rfl | rfl | rfl | rfl | rfl | rfl | rfl | rfl <;> rfl

/-- **Every bundled generator returns exactly `size` rows**, for every `size` (0 included): the
eight single-scope generators and `sample_univariate_bimodal` (two normal draws of length `size`
mixed through the length-`size` Bernoulli series), and the aggregate `sample_univariates` (a frame
of the seven univariate series).  In the shape model: every draw is requested with `size=size`
(the scalar of the degenerate generator is broadcast by `np.full(size, ·)`), all elementwise
operators meet equal lengths, the mask of `income[mask] /= 1000` has the length of `income`, and all
columns handed to `pd.Series`/`pd.DataFrame` have length `size`. -/
theorem dataset_rows (size : Nat) :
    (∀ name ∈ generatorNames, (prog name size).rows = some size) ∧
    univariatesRows size = some size := by
  constructor
  · intro name hn
    simp only [generatorNames, simpleNames, List.cons_append, List.nil_append, List.mem_cons,
      List.not_mem_nil, or_false] at hn
    rcases hn with rfl | rfl | rfl | rfl | rfl | rfl | rfl | rfl | rfl <;>
      simp [prog, Prog.rows, evalLets, evalCols, evalShape, broadcast, frameRows, drawShape,
        bernoulliCol]
  · simp [univariatesRows, univariatesColumns, prog, Prog.rows, evalLets, evalCols, evalShape,
      broadcast, frameRows, drawShape, bernoulliCol]

/-- the shape model is not trivially "`size`": a column of another length, a mask of another
length, operands that do not broadcast, or `np.full` of an array make `rows` undefined; and a
generator that forgot `size=` on its only draw would return one row. -/
example :
    Prog.rows ⟨[], [.series (.draw ⟨1, 2, some 3⟩), .series (.draw ⟨1, 2, some 4⟩)]⟩ = none ∧
    Prog.rows ⟨[.draw ⟨0, 0, some 5⟩, .maskUpdate (.var 0) (.draw ⟨2, 0, some 4⟩)], [.var 1]⟩ = none ∧
    Prog.rows ⟨[], [.series (.bin (.draw ⟨1, 1, some 3⟩) (.draw ⟨1, 3, some 2⟩))]⟩ = none ∧
    Prog.rows ⟨[], [.series (.full 3 (.draw ⟨3, 0, some 3⟩))]⟩ = none ∧
    Prog.rows ⟨[], [.series (.draw ⟨1, 2, none⟩)]⟩ = some 1 ∧
    (prog "bivariate_age_income" 1000).rows = some 1000 ∧ (prog "univariate_bimodal" 0).rows = some 0 := by
  decide

/-- **The dataset clause in one statement** (generator algebra over the draw requests themselves):
each single-scope generator called with `(size, seed)` in any world returns a function of
`(seed, size)` alone, has `size` rows, and leaves the whole world — global generator included —
exactly as it was; the same for the nested-scope bimodal generator. -/
theorem dataset_generators (A : GenAlg G DrawReq Out) (seed size : Nat) (w : World G) :
    (∀ name ∈ simpleNames,
      datasetSimple A seed (prog name size).draws w
        = (w, .ok (outDraws A (A.fromSeed seed) (datasetDraws name size))) ∧
      (prog name size).rows = some size) ∧
    (datasetBimodal A seed (bimodalDraws size).1 (bimodalDraws size).2 w
        = (w, .ok (outDraws A (A.fromSeed seed) (bimodalDraws size).1
                    ++ outDraws A (A.fromSeed seed) (bimodalDraws size).2)) ∧
      (prog "univariate_bimodal" size).draws = (bimodalDraws size).1 ++ (bimodalDraws size).2 ∧
      (prog "univariate_bimodal" size).rows = some size) := by
  obtain ⟨d1, d2, _⟩ := dataset_programs_draws size
  obtain ⟨r1, _⟩ := dataset_rows size
  refine ⟨?_, C15.dataset_bimodal_deterministic A seed _ _ w, d2, ?_⟩
  · intro name hn
    refine ⟨?_, r1 name (List.mem_append.2 (.inl hn))⟩
    rw [d1 name hn]
    exact C15.dataset_deterministic A seed _ w
  · exact r1 _ (List.mem_append.2 (.inr (by simp)))

end CopVerif.Props.C15b
