import CopVerif.Real.Clayton
/-!
# C06 — Clayton, Frank and Gumbel CDFs are genuine Archimedean copulas

Property theorems only.  Each is stated about the definition GENERATED from the Python source
(`CopVerif.Gen.*`, instantiated at ℝ), so a change of a formula in /repo changes the statement's
subject and the proof must still go through.
-/
namespace CopVerif.Props.C06
open CopVerif

/-! ## Clayton (θ > 0) -/

/-- Each row of a batch is evaluated independently of the others, for **every** batch (including the
all-zero-column shortcut and the `check_fit` guard): the method is the row-wise map of `Clayton.C`. -/
theorem clayton_row_independent {θ : ℝ} (hθ : 0 < θ) (xs : List (ℝ × ℝ)) :
    Gen.Clayton.cdf θ xs = .ok (xs.map fun p => Clayton.C θ p.1 p.2) :=
  Clayton.cdf_rowwise hθ xs

theorem clayton_boundary_zero (θ u v : ℝ) :
    Gen.Clayton.cdfRow θ u 0 = 0 ∧ Gen.Clayton.cdfRow θ 0 v = 0 := by
  simp [Clayton.bridge_cdfRow, Clayton.C_zero_left, Clayton.C_zero_right]

theorem clayton_boundary_one {θ u v : ℝ} (hθ : 0 < θ) (hu : 0 < u) (hv : 0 < v) :
    Gen.Clayton.cdfRow θ u 1 = u ∧ Gen.Clayton.cdfRow θ 1 v = v := by
  simp [Clayton.bridge_cdfRow, Clayton.C_one_left hθ hv, Clayton.C_one_right hθ hu]

theorem clayton_symm (θ u v : ℝ) : Gen.Clayton.cdfRow θ u v = Gen.Clayton.cdfRow θ v u := by
  simp only [Clayton.bridge_cdfRow]; exact Clayton.C_symm θ u v

theorem clayton_generator_one (θ : ℝ) : Gen.Clayton.generator θ 1 = 0 := by
  rw [Clayton.bridge_generator]; exact Clayton.φ_one θ

theorem clayton_generator_strictAnti {θ : ℝ} (hθ : 0 < θ) :
    StrictAntiOn (fun t => Gen.Clayton.generator θ t) (Set.Ioi 0) := by
  have : (fun t => Gen.Clayton.generator θ t) = Clayton.φ θ := by
    funext t; exact Clayton.bridge_generator θ t
  rw [this]; exact Clayton.φ_strictAntiOn hθ

/-- `generator(C(u,v)) = generator(u) + generator(v)` on `(0,1]²`. -/
theorem clayton_archimedean {θ u v : ℝ} (hθ : 0 < θ) (hu : 0 < u) (hu1 : u ≤ 1) (hv : 0 < v)
    (hv1 : v ≤ 1) :
    Gen.Clayton.generator θ (Gen.Clayton.cdfRow θ u v)
      = Gen.Clayton.generator θ u + Gen.Clayton.generator θ v := by
  simp only [Clayton.bridge_generator, Clayton.bridge_cdfRow]
  exact Clayton.φ_C hθ hu hu1 hv hv1

theorem clayton_mono {θ u u' v v' : ℝ} (hθ : 0 < θ) (hu : 0 ≤ u) (huu : u ≤ u') (hu1 : u' ≤ 1)
    (hv : 0 ≤ v) (hvv : v ≤ v') (hv1 : v' ≤ 1) :
    Gen.Clayton.cdfRow θ u v ≤ Gen.Clayton.cdfRow θ u' v' := by
  simp only [Clayton.bridge_cdfRow]
  exact le_trans (Clayton.C_mono_left hθ hu huu hu1 hv (le_trans hvv hv1))
    (Clayton.C_mono_right hθ hv hvv hv1 (le_trans hu huu) hu1)

/-- Fréchet–Hoeffding upper bound and non-negativity on the closed unit square. -/
theorem clayton_frechet_upper {θ u v : ℝ} (hθ : 0 < θ) (hu : 0 ≤ u) (hu1 : u ≤ 1) (hv : 0 ≤ v)
    (hv1 : v ≤ 1) :
    0 ≤ Gen.Clayton.cdfRow θ u v ∧ Gen.Clayton.cdfRow θ u v ≤ min u v := by
  simp only [Clayton.bridge_cdfRow]
  exact ⟨Clayton.C_nonneg hθ hu hu1 hv hv1, Clayton.C_le_min hθ hu hu1 hv hv1⟩

/-- non-vacuity: the hypotheses of the theorems above are satisfiable, and the statement is
    about a non-trivial value. -/
example : (0:ℝ) < 2 ∧ (0:ℝ) < 1/2 ∧ (1/2:ℝ) ≤ 1 := by norm_num

end CopVerif.Props.C06
