import CopVerif.Real.Clayton
import CopVerif.Real.Frank
import CopVerif.Real.Gumbel
import CopVerif.Real.Rosenblatt
import CopVerif.Real.Volume
/-!
# C06 — Clayton, Frank and Gumbel CDFs are genuine Archimedean copulas

Property theorems only.  Each is stated about the definition GENERATED from the Python source
(`CopVerif.Gen.*`, instantiated at ℝ), so a change of a formula in /repo changes the statement's
subject and the proof must still go through.
-/
namespace CopVerif.Props.C06
open CopVerif

/-! ## Clayton (θ > 0) -/

/-- Each row of a batch is evaluated independently of the others, for **every** batch (including the
all-zero-column shortcut and the `check_fit` guard): the method is the row-wise map of `Clayton.C`. -/
theorem clayton_row_independent {θ : ℝ} (hθ : 0 < θ) (xs : List (ℝ × ℝ)) :
    Gen.Clayton.cdf θ xs = .ok (xs.map fun p => Clayton.C θ p.1 p.2) :=
  Clayton.cdf_rowwise hθ xs

theorem clayton_boundary_zero (θ u v : ℝ) :
    Gen.Clayton.cdfRow θ u 0 = 0 ∧ Gen.Clayton.cdfRow θ 0 v = 0 := by
  simp [Clayton.bridge_cdfRow, Clayton.C_zero_left, Clayton.C_zero_right]

theorem clayton_boundary_one {θ u v : ℝ} (hθ : 0 < θ) (hu : 0 < u) (hv : 0 < v) :
    Gen.Clayton.cdfRow θ u 1 = u ∧ Gen.Clayton.cdfRow θ 1 v = v := by
  simp [Clayton.bridge_cdfRow, Clayton.C_one_left hθ hv, Clayton.C_one_right hθ hu]

theorem clayton_symm (θ u v : ℝ) : Gen.Clayton.cdfRow θ u v = Gen.Clayton.cdfRow θ v u := by
  simp only [Clayton.bridge_cdfRow]; exact Clayton.C_symm θ u v

theorem clayton_generator_one (θ : ℝ) : Gen.Clayton.generator θ 1 = 0 := by
  rw [Clayton.bridge_generator]; exact Clayton.φ_one θ

theorem clayton_generator_strictAnti {θ : ℝ} (hθ : 0 < θ) :
    StrictAntiOn (fun t => Gen.Clayton.generator θ t) (Set.Ioi 0) := by
  have : (fun t => Gen.Clayton.generator θ t) = Clayton.φ θ := by
    funext t; exact Clayton.bridge_generator θ t
  rw [this]; exact Clayton.φ_strictAntiOn hθ

/-- `generator(C(u,v)) = generator(u) + generator(v)` on `(0,1]²`. -/
theorem clayton_archimedean {θ u v : ℝ} (hθ : 0 < θ) (hu : 0 < u) (hu1 : u ≤ 1) (hv : 0 < v)
    (hv1 : v ≤ 1) :
    Gen.Clayton.generator θ (Gen.Clayton.cdfRow θ u v)
      = Gen.Clayton.generator θ u + Gen.Clayton.generator θ v := by
  simp only [Clayton.bridge_generator, Clayton.bridge_cdfRow]
  exact Clayton.φ_C hθ hu hu1 hv hv1

theorem clayton_mono {θ u u' v v' : ℝ} (hθ : 0 < θ) (hu : 0 ≤ u) (huu : u ≤ u') (hu1 : u' ≤ 1)
    (hv : 0 ≤ v) (hvv : v ≤ v') (hv1 : v' ≤ 1) :
    Gen.Clayton.cdfRow θ u v ≤ Gen.Clayton.cdfRow θ u' v' := by
  simp only [Clayton.bridge_cdfRow]
  exact le_trans (Clayton.C_mono_left hθ hu huu hu1 hv (le_trans hvv hv1))
    (Clayton.C_mono_right hθ hv hvv hv1 (le_trans hu huu) hu1)

/-- Fréchet–Hoeffding upper bound and non-negativity on the closed unit square. -/
theorem clayton_frechet_upper {θ u v : ℝ} (hθ : 0 < θ) (hu : 0 ≤ u) (hu1 : u ≤ 1) (hv : 0 ≤ v)
    (hv1 : v ≤ 1) :
    0 ≤ Gen.Clayton.cdfRow θ u v ∧ Gen.Clayton.cdfRow θ u v ≤ min u v := by
  simp only [Clayton.bridge_cdfRow]
  exact ⟨Clayton.C_nonneg hθ hu hu1 hv hv1, Clayton.C_le_min hθ hu hu1 hv hv1⟩

/-- non-vacuity: the hypotheses of the theorems above are satisfiable, and the statement is
    about a non-trivial value. -/
example : (0:ℝ) < 2 ∧ (0:ℝ) < 1/2 ∧ (1/2:ℝ) ≤ 1 := by norm_num

/-! ## Frank (every θ ≠ 0, both signs) -/

theorem frank_row_independent {θ : ℝ} (hθ : θ ≠ 0) (xs : List (ℝ × ℝ)) :
    Gen.Frank.cdf θ xs = .ok (xs.map fun p => Gen.Frank.cdfRow θ p.1 p.2) := by
  rw [Frank.cdf_rowwise hθ]; simp only [Frank.bridge_cdfRow]

/-- θ = 0 is refused (`check_fit`), never evaluated. -/
theorem frank_theta_zero_refused (xs : List (ℝ × ℝ)) :
    Gen.Frank.cdf (0 : ℝ) xs = .error .notFitted := Frank.cdf_theta_zero xs

theorem frank_boundary {θ : ℝ} (hθ : θ ≠ 0) (u v : ℝ) :
    Gen.Frank.cdfRow θ u 0 = 0 ∧ Gen.Frank.cdfRow θ 0 v = 0 ∧
      Gen.Frank.cdfRow θ u 1 = u ∧ Gen.Frank.cdfRow θ 1 v = v := by
  simp only [Frank.bridge_cdfRow]
  exact ⟨Frank.C_zero_right θ u, Frank.C_zero_left θ v, Frank.C_one_right hθ u, Frank.C_one_left hθ v⟩

theorem frank_symm (θ u v : ℝ) : Gen.Frank.cdfRow θ u v = Gen.Frank.cdfRow θ v u := by
  simp only [Frank.bridge_cdfRow]; exact Frank.C_symm θ u v

theorem frank_generator_one {θ : ℝ} (hθ : θ ≠ 0) : Gen.Frank.generator θ 1 = 0 := by
  rw [Frank.bridge_generator]; exact Frank.φ_one hθ

theorem frank_generator_strictAnti {θ : ℝ} (hθ : θ ≠ 0) :
    StrictAntiOn (fun t => Gen.Frank.generator θ t) (Set.Ioc 0 1) := by
  have : (fun t => Gen.Frank.generator θ t) = Frank.φ θ := by
    funext t; exact Frank.bridge_generator θ t
  rw [this]; exact Frank.φ_strictAntiOn hθ

theorem frank_archimedean {θ u v : ℝ} (hθ : θ ≠ 0) (hu : 0 < u) (hu1 : u ≤ 1) (hv : 0 < v)
    (hv1 : v ≤ 1) :
    Gen.Frank.generator θ (Gen.Frank.cdfRow θ u v)
      = Gen.Frank.generator θ u + Gen.Frank.generator θ v := by
  simp only [Frank.bridge_generator, Frank.bridge_cdfRow]
  exact Frank.φ_C hθ hu hu1 hv hv1

theorem frank_mono {θ u u' v v' : ℝ} (hθ : θ ≠ 0) (hu : 0 ≤ u) (huu : u ≤ u') (hu1 : u' ≤ 1)
    (hv : 0 ≤ v) (hvv : v ≤ v') (hv1 : v' ≤ 1) :
    Gen.Frank.cdfRow θ u v ≤ Gen.Frank.cdfRow θ u' v' := by
  simp only [Frank.bridge_cdfRow]
  exact le_trans (Frank.C_mono_left hθ huu hv (le_trans hvv hv1))
    (Frank.C_mono_right hθ hvv (le_trans hu huu) hu1)

/-- Both Fréchet–Hoeffding bounds on the closed unit square. -/
theorem frank_frechet {θ u v : ℝ} (hθ : θ ≠ 0) (hu : 0 ≤ u) (hu1 : u ≤ 1) (hv : 0 ≤ v)
    (hv1 : v ≤ 1) :
    max (u + v - 1) 0 ≤ Gen.Frank.cdfRow θ u v ∧ Gen.Frank.cdfRow θ u v ≤ min u v := by
  simp only [Frank.bridge_cdfRow]
  exact ⟨Frank.max_le_C hθ hu hu1 hv hv1, Frank.C_le_min hθ hu hu1 hv hv1⟩

/-- Every rectangle has non-negative C-volume (2-increasing). -/
theorem frank_two_increasing {θ u u' v v' : ℝ} (hθ : θ ≠ 0) (hu : 0 ≤ u) (huu : u ≤ u')
    (hu1 : u' ≤ 1) (hvv : v ≤ v') :
    0 ≤ Gen.Frank.cdfRow θ u' v' - Gen.Frank.cdfRow θ u' v - Gen.Frank.cdfRow θ u v'
        + Gen.Frank.cdfRow θ u v := by
  simp only [Frank.bridge_cdfRow]; exact Frank.C_two_increasing hθ hu huu hu1 hvv

/-! ## Gumbel (θ ≥ 1; at θ = 1 the code returns the product `u·v`) -/

theorem gumbel_row_independent {θ : ℝ} (hθ : 1 ≤ θ) (xs : List (ℝ × ℝ)) :
    Gen.Gumbel.cdf θ xs = .ok (xs.map fun p => Gen.Gumbel.cdfPt θ p.1 p.2) := by
  rw [Gumbel.cdf_rowwise hθ]; simp only [Gumbel.bridge_cdfPt]

theorem gumbel_boundary_one {θ u v : ℝ} (hθ : 1 ≤ θ) (hu : 0 < u) (hu1 : u ≤ 1) (hv : 0 < v)
    (hv1 : v ≤ 1) : Gen.Gumbel.cdfPt θ u 1 = u ∧ Gen.Gumbel.cdfPt θ 1 v = v := by
  simp only [Gumbel.bridge_cdfPt]
  by_cases h1 : θ = 1
  · simp [h1]
  · simp only [h1, if_false]
    exact ⟨Gumbel.C_one_right hθ hu hu1, Gumbel.C_one_left hθ hv hv1⟩

/-- Boundary at zero: only the θ = 1 product branch is covered over ℝ.  For θ > 1 the code goes
through IEEE `log 0 = -inf`; that clause (`gumbel cdf_zero`) is `_partial`: Float-level tie only. -/
theorem gumbel_boundary_zero_partial (u v : ℝ) :
    Gen.Gumbel.cdf (1 : ℝ) [(u, 0)] = .ok [0] ∧ Gen.Gumbel.cdf (1 : ℝ) [(0, v)] = .ok [0] :=
  ⟨Gumbel.cdf_theta_one_zero_right u, Gumbel.cdf_theta_one_zero_left v⟩

theorem gumbel_symm (θ u v : ℝ) : Gen.Gumbel.cdfPt θ u v = Gen.Gumbel.cdfPt θ v u := by
  simp only [Gumbel.bridge_cdfPt, Gumbel.C_symm θ u v, mul_comm u v]

/-- The θ = 1 shortcut agrees with the general closed form (consistent for the CDF). -/
theorem gumbel_theta_one_consistent {u v : ℝ} (hu : 0 < u) (hv : 0 < v) :
    Gen.Gumbel.cdfRow (1 : ℝ) u v = u * v := by
  rw [Gumbel.bridge_cdfRow]; exact Gumbel.C_theta_one hu hv

theorem gumbel_generator_one {θ : ℝ} (hθ : 1 ≤ θ) : Gen.Gumbel.generator θ 1 = 0 := by
  rw [Gumbel.bridge_generator]; exact Gumbel.φ_one hθ

theorem gumbel_generator_strictAnti {θ : ℝ} (hθ : 1 ≤ θ) :
    StrictAntiOn (fun t => Gen.Gumbel.generator θ t) (Set.Ioc 0 1) := by
  have : (fun t => Gen.Gumbel.generator θ t) = Gumbel.φ θ := by
    funext t; exact Gumbel.bridge_generator θ t
  rw [this]; exact Gumbel.φ_strictAntiOn hθ

theorem gumbel_archimedean {θ u v : ℝ} (hθ : 1 ≤ θ) (hu : 0 < u) (hu1 : u ≤ 1) (hv : 0 < v)
    (hv1 : v ≤ 1) :
    Gen.Gumbel.generator θ (Gen.Gumbel.cdfRow θ u v)
      = Gen.Gumbel.generator θ u + Gen.Gumbel.generator θ v := by
  simp only [Gumbel.bridge_generator, Gumbel.bridge_cdfRow]
  exact Gumbel.φ_C hθ hu hu1 hv hv1

theorem gumbel_mono {θ u u' v v' : ℝ} (hθ : 1 ≤ θ) (hu : 0 < u) (huu : u ≤ u') (hu1 : u' ≤ 1)
    (hv : 0 < v) (hvv : v ≤ v') (hv1 : v' ≤ 1) :
    Gen.Gumbel.cdfRow θ u v ≤ Gen.Gumbel.cdfRow θ u' v' := by
  simp only [Gumbel.bridge_cdfRow]
  exact le_trans (Gumbel.C_mono_left hθ hu huu hu1 hv (le_trans hvv hv1))
    (Gumbel.C_mono_right hθ hv hvv hv1 (lt_of_lt_of_le hu huu) hu1)

theorem gumbel_frechet_upper {θ u v : ℝ} (hθ : 1 ≤ θ) (hu : 0 < u) (hu1 : u ≤ 1) (hv : 0 < v)
    (hv1 : v ≤ 1) :
    0 < Gen.Gumbel.cdfRow θ u v ∧ Gen.Gumbel.cdfRow θ u v ≤ min u v := by
  simp only [Gumbel.bridge_cdfRow]
  exact ⟨Gumbel.C_pos hθ hu hu1 hv hv1, Gumbel.C_le_min hθ hu hu1 hv hv1⟩

/-! ## 2-increasing, Fréchet lower bound and θ-ordering for Clayton and Gumbel -/

/-- Every rectangle of the closed unit square has non-negative C-volume. -/
theorem clayton_two_increasing {θ u u' v v' : ℝ} (hθ : 0 < θ) (hu : 0 ≤ u) (huu : u ≤ u')
    (hu1 : u' ≤ 1) (hv : 0 ≤ v) (hvv : v ≤ v') (hv1 : v' ≤ 1) :
    0 ≤ Gen.Clayton.cdfRow θ u' v' - Gen.Clayton.cdfRow θ u' v - Gen.Clayton.cdfRow θ u v'
        + Gen.Clayton.cdfRow θ u v := by
  simp only [Clayton.bridge_cdfRow]; exact Clayton.C_two_increasing hθ hu huu hu1 hv hvv hv1

theorem clayton_frechet_lower {θ u v : ℝ} (hθ : 0 < θ) (hu : 0 ≤ u) (hu1 : u ≤ 1) (hv : 0 ≤ v)
    (hv1 : v ≤ 1) : max (u + v - 1) 0 ≤ Gen.Clayton.cdfRow θ u v := by
  simp only [Clayton.bridge_cdfRow]; exact Clayton.max_le_C hθ hu hu1 hv hv1

/-- Ordered in θ: a larger θ gives a pointwise larger C on the closed unit square. -/
theorem clayton_theta_ordered {θ₁ θ₂ u v : ℝ} (h1 : 0 < θ₁) (h12 : θ₁ ≤ θ₂) (hu : 0 ≤ u)
    (hu1 : u ≤ 1) (hv : 0 ≤ v) (hv1 : v ≤ 1) :
    Gen.Clayton.cdfRow θ₁ u v ≤ Gen.Clayton.cdfRow θ₂ u v := by
  simp only [Clayton.bridge_cdfRow]; exact Clayton.C_le_C_of_theta_le h1 h12 hu hu1 hv hv1

theorem gumbel_two_increasing {θ u u' v v' : ℝ} (hθ : 1 ≤ θ) (hu : 0 < u) (huu : u ≤ u')
    (hu1 : u' ≤ 1) (hv : 0 < v) (hvv : v ≤ v') (hv1 : v' ≤ 1) :
    0 ≤ Gen.Gumbel.cdfRow θ u' v' - Gen.Gumbel.cdfRow θ u' v - Gen.Gumbel.cdfRow θ u v'
        + Gen.Gumbel.cdfRow θ u v := by
  simp only [Gumbel.bridge_cdfRow]; exact Gumbel.C_two_increasing hθ hu huu hu1 hv hvv hv1

theorem gumbel_frechet_lower {θ u v : ℝ} (hθ : 1 ≤ θ) (hu : 0 < u) (hu1 : u ≤ 1) (hv : 0 < v)
    (hv1 : v ≤ 1) : max (u + v - 1) 0 ≤ Gen.Gumbel.cdfRow θ u v := by
  simp only [Gumbel.bridge_cdfRow]; exact Gumbel.max_le_C hθ hu hu1 hv hv1

theorem gumbel_theta_ordered {θ₁ θ₂ u v : ℝ} (h1 : 1 ≤ θ₁) (h12 : θ₁ ≤ θ₂) (hu : 0 < u)
    (hu1 : u ≤ 1) (hv : 0 < v) (hv1 : v ≤ 1) :
    Gen.Gumbel.cdfRow θ₁ u v ≤ Gen.Gumbel.cdfRow θ₂ u v := by
  simp only [Gumbel.bridge_cdfRow]
  exact Gumbel.C_le_C_of_theta_le (by linarith) h12 hu hu1 hv hv1

/-- Frank is ordered in θ over the whole parameter range (both signs, across 0). -/
theorem frank_theta_ordered {θ₁ θ₂ u v : ℝ} (h1 : θ₁ ≠ 0) (h2 : θ₂ ≠ 0) (h12 : θ₁ ≤ θ₂) (hu : 0 ≤ u)
    (hu1 : u ≤ 1) (hv : 0 ≤ v) (hv1 : v ≤ 1) :
    Gen.Frank.cdfRow θ₁ u v ≤ Gen.Frank.cdfRow θ₂ u v := by
  simp only [Frank.bridge_cdfRow]; exact Frank.C_le_C_of_theta_le h1 h2 h12 hu hu1 hv hv1

/-- Frank against independence: above `u·v` for θ > 0, below for θ < 0. -/
theorem frank_vs_independence {θ u v : ℝ} (hu : 0 ≤ u) (hu1 : u ≤ 1) (hv : 0 ≤ v) (hv1 : v ≤ 1) :
    (0 < θ → u * v ≤ Gen.Frank.cdfRow θ u v) ∧ (θ < 0 → Gen.Frank.cdfRow θ u v ≤ u * v) := by
  simp only [Frank.bridge_cdfRow]
  exact ⟨fun h => Frank.mul_le_C h hu hu1 hv hv1, fun h => Frank.C_le_mul h hu hu1 hv hv1⟩

example : (1:ℝ) ≤ 2 ∧ (-3:ℝ) ≠ 0 := by norm_num

end CopVerif.Props.C06
