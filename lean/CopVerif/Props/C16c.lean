import CopVerif.Lemmas.VineBuildGen
import CopVerif.Props.C16b
/-!
# C16, translator tie — the theorems over the GENERATED vine construction

`CopVerif/Gen/VineBuild.lean` is regenerated on every run from the AST of
`copulas/multivariate/tree.py` (`Tree.fit`, `_check_constraint`, `_sort_tau_by_y`, the three
`_build_first_tree` / `_build_kth_tree`, `get_anchor`, `Edge._identify_eds_ing`, `is_adjacent`, `sort_edge`,
`get_child_edge`) and `vine.py` (`train_vine`, head of `fit`) by `tools/gen_vinebuild.py`.  This file
proves that the generated definitions ARE the hand model's (`Lemmas/VineBuildGen.lean`, restated here)
and restates the C16 / C16b theorems over them — so they are re-checked against what the code says
NOW.  As in C16, `trainVineGen vt d t cs = .ok r` means: the supplied tie-breaking is one the code
could have made and no exception was raised.
-/
set_option linter.unusedSimpArgs false
set_option linter.unusedSectionVars false
set_option linter.unusedVariables false
namespace CopVerif.Props.C16c
open CopVerif CopVerif.Model.Vine CopVerif.Gen.VineBuild CopVerif.Props.C16

/-! ## generated = hand model -/

/-- `Edge._identify_eds_ing` as generated is the model's `identify` (symmetric difference sorted,
    intersection; `ValueError` unless exactly two differ). -/
theorem gen_identifyEdsIng_eq (p q : Edge) : identifyEdsIng p q = identify p q := gen_identify_eq p q

/-- `Tree._check_constraint` as generated. -/
theorem gen_checkConstraintPy_eq (level : Nat) (e f : Edge) :
    checkConstraintPy level e f = checkConstraint level e f := gen_checkConstraint_eq level e f

/-- `Edge.is_adjacent` as generated. -/
theorem gen_isAdjacentPy_eq (e f : Edge) : isAdjacentPy e f = isAdjacent e f := gen_isAdjacent_eq e f

/-- `Edge.sort_edge` (generated key, stable sort of two) then `Edge.get_child_edge` (generated L / R / D /
    parents) is the model's `childEdge`. -/
theorem gen_sortedChild_eq_childEdge (prev : Tree) (i j : Nat) :
    sortedChild prev (i, j) = childEdge prev i j := gen_sortedChild_eq prev i j

section
variable {α : Type} [LT α] [DecidableLT α] [Neg α] [NumFns α]

/-- `_sort_tau_by_y` as generated: sort key = `|tau[i, y]|` with the diagonal and NaN at `-10`, read
    from column 2, descending; the value column is column 1. -/
theorem gen_sortTau_eq (tau : Mat α) (y n i : Nat) :
    sortKeys tau y n = colKeys tau y n ∧ (sortTauRow tau y i).c0 = i ∧
      (sortTauRow tau y i).c1 = sortVal (i == y) (tau.get i y) ∧ sortTauDescending = true :=
  ⟨gen_sortKeys_eq tau y n, rfl, gen_sortTauVal_eq tau y i, rfl⟩

/-- the six tree builders as generated are the model's. -/
theorem gen_builders_eq (level n : Nat) (prev : Tree) (tau : Mat α) (picks : List Nat) (l r : Nat)
    (choices : List (Nat × Nat)) :
    buildFirstCenter n tau picks = centerFirst n tau picks ∧
    buildKthCenter n prev tau picks = centerKth n prev tau picks ∧
    buildFirstDirect n tau l r = directFirst n tau l r ∧
    buildKthDirect n prev tau = directKth n prev tau ∧
    buildFirstRegular n tau choices = primFirst n tau choices ∧
    buildKthRegular level n prev tau choices = primKth level n prev tau choices :=
  ⟨gen_centerFirst_eq n tau picks, gen_centerKth_eq n prev tau picks, gen_directFirst_eq n tau l r,
    gen_directKth_eq n prev tau, gen_regFirst_eq n tau choices, gen_regKth_eq level n prev tau choices⟩

/-- **the generated `train_vine` is the hand model's `trainVine`** — every vine type, every `d`,
    truncation, tau data and tie-breaking. -/
theorem gen_trainVineGen_eq (vt : VType) (d t : Nat) (cs : List (Choice α)) :
    trainVineGen vt d t cs = trainVine vt d t cs := gen_trainVine_eq vt d t cs

/-- the tree-count formula as it stands in the source: the loop runs over
    `range(1, min(n_var - 1, truncated))`, `depth = n_var - 1`, `truncated` defaults to 3. -/
theorem gen_depth_formula (d t : Nat) :
    trainLoopLo = 1 ∧ trainLoopHi d t = min (d - 1) t ∧ trainFirstNodes d = d ∧
      (∀ k, trainKthNodes d k = d - k ∧ trainKthIndex k = k ∧ trainKthPrev k = k - 1) ∧
      fitDepth d = d - 1 ∧ fitTruncated t = t ∧ fitDefaultTruncated = 3 ∧
      (∀ index, fitLevel index = index + 1 ∧ (fitIsFirst index = true ↔ index = 0)) := by
  refine ⟨rfl, rfl, rfl, fun k => ⟨rfl, rfl, rfl⟩, rfl, rfl, rfl, fun index => ⟨rfl, ?_⟩⟩
  simp [fitIsFirst]

end

section
variable {α : Type} [Preorder α] [DecidableLT α] [Neg α] [NumFns α]

/-! ## the C16 theorems over the generated construction -/

/-- `len(self.trees) = max(1, min(d - 1, truncated))`. -/
theorem gen_tree_count {vt : VType} {d t : Nat} {cs : List (Choice α)} {r : List (Tree × List α)}
    (h : trainVineGen vt d t cs = .ok r) : r.length = max 1 (min (d - 1) t) :=
  tree_count (gen_trainVine_eq vt d t cs ▸ h)

/-- with the default `truncated = 3` read off the signature of `fit`: `min(d - 1, 3)` trees for `d ≥ 2`. -/
theorem gen_tree_count_default {vt : VType} {d : Nat} {cs : List (Choice α)} {r : List (Tree × List α)}
    (hd : 2 ≤ d) (h : trainVineGen vt d (fitTruncated fitDefaultTruncated) cs = .ok r) :
    r.length = min (d - 1) 3 ∧ 1 ≤ r.length := by
  have := gen_tree_count h
  simp only [fitTruncated, fitDefaultTruncated] at this
  omega

/-- **main structure theorem** over the generated construction: spanning trees by growth order,
    well-formed first-tree edges, proximity, conditioned pair = symmetric difference, conditioning set
    = intersection (`k` elements) — all three types. -/
theorem gen_vine_structure {vt : VType} {d t : Nat} {cs : List (Choice α)} {r : List (Tree × List α)}
    (hd : 2 ≤ d) (hcs : ChoicesOK vt d 0 cs) (h : trainVineGen vt d t cs = .ok r) :
    TreesSpec d 0 none (treesOf r) :=
  vine_structure hd hcs (gen_trainVine_eq vt d t cs ▸ h)

/-- tree `k` has `d - k - 1` edges. -/
theorem gen_edge_count {vt : VType} {d t : Nat} {cs : List (Choice α)} {r : List (Tree × List α)}
    (hd : 2 ≤ d) (hcs : ChoicesOK vt d 0 cs) (h : trainVineGen vt d t cs = .ok r)
    (k : Nat) (hk : k < (treesOf r).length) : ((treesOf r)[k]).length + 1 = d - k :=
  edge_count hd hcs (gen_trainVine_eq vt d t cs ▸ h) k hk

/-- every tree is spanning (growth order) and connected. -/
theorem gen_spanning {vt : VType} {d t : Nat} {cs : List (Choice α)} {r : List (Tree × List α)}
    (hd : 2 ≤ d) (hcs : ChoicesOK vt d 0 cs) (h : trainVineGen vt d t cs = .ok r)
    (k : Nat) (hk : k < (treesOf r).length) :
    let pairs := ((treesOf r)[k]).map (Edge.ends (k == 0))
    SpanningTree (d - k) pairs ∧ ∃ root, root < d - k ∧ ∀ v, v < d - k → Reach pairs root v :=
  spanning hd hcs (gen_trainVine_eq vt d t cs ▸ h) k hk

/-- **proximity**: every edge of tree `k + 1` joins two different edges of tree `k` sharing a node. -/
theorem gen_proximity {vt : VType} {d t : Nat} {cs : List (Choice α)} {r : List (Tree × List α)}
    (hd : 2 ≤ d) (hcs : ChoicesOK vt d 0 cs) (h : trainVineGen vt d t cs = .ok r)
    (k : Nat) (hk : k + 1 < (treesOf r).length) (e : Edge) (he : e ∈ (treesOf r)[k + 1]) :
    ∃ i j, e.parents = some (i, j) ∧ i ≠ j ∧ i < ((treesOf r)[k]'(by omega)).length ∧
      j < ((treesOf r)[k]'(by omega)).length ∧
      ShareNode (k == 0) (((treesOf r)[k]'(by omega)).getD i default)
        (((treesOf r)[k]'(by omega)).getD j default) :=
  proximity (gen_vine_structure hd hcs h) k hk e he

/-- **conditioned / conditioning sets** of every edge of tree `k + 1`. -/
theorem gen_edge_sets {vt : VType} {d t : Nat} {cs : List (Choice α)} {r : List (Tree × List α)}
    (hd : 2 ≤ d) (hcs : ChoicesOK vt d 0 cs) (h : trainVineGen vt d t cs = .ok r)
    (k : Nat) (hk : k + 1 < (treesOf r).length) (e : Edge) (he : e ∈ (treesOf r)[k + 1]) :
    ∃ i j, e.parents = some (i, j) ∧ e.L < e.R ∧ e.D.length = k + 1 ∧
      symDiff (((treesOf r)[k]'(by omega)).getD i default).vars
        (((treesOf r)[k]'(by omega)).getD j default).vars = [e.L, e.R] ∧
      e.D = inter (((treesOf r)[k]'(by omega)).getD i default).vars
        (((treesOf r)[k]'(by omega)).getD j default).vars :=
  edge_sets (gen_vine_structure hd hcs h) k hk e he

/-- the generated `_check_constraint` ⇔ proximity, on the trees of any vine structure. -/
theorem gen_checkConstraint_iff_proximity {d : Nat} {trees : List Tree}
    (h : TreesSpec d 0 none trees) (k : Nat) (hk : k < trees.length) {i j : Nat}
    (hi : i < trees[k].length) (hj : j < trees[k].length) (hij : i ≠ j) :
    checkConstraintPy (k + 2) (trees[k].getD i default) (trees[k].getD j default) = true ↔
      ShareNode (k == 0) (trees[k].getD i default) (trees[k].getD j default) := by
  rw [gen_checkConstraint_eq]
  exact checkConstraint_iff_proximity h k hk hi hj hij

/-- the generated `_identify_eds_ing` on two adjacent edges of a vine structure: no `ValueError`,
    two conditioned variables, `k + 1` conditioning ones. -/
theorem gen_identify_spec_vine {d : Nat} {trees : List Tree} (h : TreesSpec d 0 none trees)
    (k : Nat) (hk : k < trees.length) {i j : Nat} (hi : i < trees[k].length)
    (hj : j < trees[k].length) (hij : i ≠ j)
    (hs : ShareNode (k == 0) (trees[k].getD i default) (trees[k].getD j default)) :
    ∃ l r, identifyEdsIng (trees[k].getD i default) (trees[k].getD j default) =
        .ok (l, r, inter (trees[k].getD i default).vars (trees[k].getD j default).vars) ∧ l < r ∧
      (inter (trees[k].getD i default).vars (trees[k].getD j default).vars).length = k + 1 := by
  obtain ⟨l, r, h1, h2, _, h4⟩ := identify_spec_vine h k hk hi hj hij hs
  exact ⟨l, r, by rw [gen_identify_eq]; exact h1, h2, h4⟩

/-- a "center" vine has a star in every tree. -/
theorem gen_center_is_star {d t : Nat} {cs : List (Choice α)} {r : List (Tree × List α)}
    (hd : 2 ≤ d) (hcs : ChoicesOK .center d 0 cs) (h : trainVineGen .center d t cs = .ok r) :
    ∀ ps ∈ treePairs (treesOf r), IsStar ps :=
  center_is_star hd hcs (gen_trainVine_eq _ d t cs ▸ h)

/-- a "direct" vine has a path in every tree. -/
theorem gen_direct_is_path {d t : Nat} {cs : List (Choice α)} {r : List (Tree × List α)}
    (hd : 2 ≤ d) (hcs : ChoicesOK .direct d 0 cs) (h : trainVineGen .direct d t cs = .ok r) :
    ∀ ps ∈ treePairs (treesOf r), IsPath ps :=
  direct_is_path hd hcs (gen_trainVine_eq _ d t cs ▸ h)

/-- **pairs once**, all three types. -/
theorem gen_pairs_once {vt : VType} {d t : Nat} {cs : List (Choice α)} {r : List (Tree × List α)}
    (hd : 2 ≤ d) (hcs : ChoicesOK vt d 0 cs) (h : trainVineGen vt d t cs = .ok r) :
    PairsOnce (treesOf r) :=
  C16b.pairs_once (gen_vine_structure hd hcs h)

/-- **C16, structural part, over the generated construction**: a regular vine of depth
    `max 1 (min (d-1) t)` of the requested type. -/
theorem gen_fitted_vine_is_regular_vine {vt : VType} {d t : Nat} {cs : List (Choice α)}
    {r : List (Tree × List α)} (hd : 2 ≤ d) (hcs : ChoicesOK vt d 0 cs)
    (h : trainVineGen vt d t cs = .ok r) :
    IsRegularVine d t (treesOf r) ∧ TypeSpec vt (treesOf r) := by
  have h' : trainVine vt d t cs = .ok r := gen_trainVine_eq vt d t cs ▸ h
  refine ⟨C16b.fitted_vine_is_regular_vine hd hcs h', ?_⟩
  cases vt with
  | center => exact center_is_star hd hcs h'
  | direct => exact direct_is_path hd hcs h'
  | regular => trivial

/-- regular vines: no hypothesis on the tau data at all. -/
theorem gen_regular_vine_is_regular_vine {d t : Nat} {cs : List (Choice α)}
    {r : List (Tree × List α)} (hd : 2 ≤ d) (h : trainVineGen .regular d t cs = .ok r) :
    IsRegularVine d t (treesOf r) ∧ TypeSpec .regular (treesOf r) :=
  C16b.regular_vine_is_regular_vine hd (gen_trainVine_eq _ d t cs ▸ h)

/-- the generated construction never raises `ValueError` / `IndexError` and never takes the
    non-terminating branch of `RegularTree._build_kth_tree`. -/
theorem gen_never_fails {vt : VType} {d t : Nat} {cs : List (Choice α)} {e : Fail} (hd : 2 ≤ d)
    (hcs : ChoicesOK vt d 0 cs) (h : trainVineGen vt d t cs = .error e) :
    e ≠ .diverges ∧ e ≠ .valueError ∧ e ≠ .indexError :=
  never_fails hd hcs (gen_trainVine_eq vt d t cs ▸ h)

/-- Prim's greedy cut for the generated first regular tree. -/
theorem gen_prim_greedy_cut {n : Nat} {tau : Mat α} {choices : List (Nat × Nat)} {t : Tree}
    {ts : List α} (hn : 1 ≤ n) (h : buildFirstRegular n tau choices = .ok (t, ts)) :
    SpanningTree n (t.map (Edge.ends true)) ∧ PrimTrace n tau [0] choices :=
  prim_is_max_spanning_tree_partial hn (gen_regFirst_eq n tau choices ▸ h)

end

/-- center vines over `ℝ`: no hypothesis on the tau matrices. -/
theorem gen_center_vine_is_regular_vine_real {d t : Nat} {cs : List (Choice ℝ)}
    {r : List (Tree × List ℝ)} (hd : 2 ≤ d) (h : trainVineGen .center d t cs = .ok r) :
    IsRegularVine d t (treesOf r) ∧ TypeSpec .center (treesOf r) :=
  center_vine_is_regular_vine_real hd (gen_trainVine_eq _ d t cs ▸ h)

/-- **the generated first regular tree is a maximum spanning tree** for `|tau|` (symmetric tau), against
    every growth-ordered spanning tree and every Mathlib `SimpleGraph.IsTree` on `Fin n`. -/
theorem gen_prim_is_max_spanning_tree {n : Nat} {tau : Mat ℝ} {choices : List (Nat × Nat)} {t : Tree}
    {ts : List ℝ} (hn : 1 ≤ n) (hsym : AbsSymm n tau)
    (h : buildFirstRegular n tau choices = .ok (t, ts)) :
    SpanningTree n (t.map (Edge.ends true)) ∧
      (∀ T', SpanningTree n T' → absWeight tau T' ≤ absWeight tau (t.map (Edge.ends true))) ∧
      ∀ (G : SimpleGraph (Fin n)) [DecidableRel G.Adj], G.IsTree →
        graphWeight G tau ≤ absWeight tau (t.map (Edge.ends true)) := by
  have h' : primFirst n tau choices = .ok (t, ts) := gen_regFirst_eq n tau choices ▸ h
  obtain ⟨h1, h2⟩ := C16b.prim_is_max_spanning_tree hn hsym h'
  exact ⟨h1, h2, fun G _ hG => C16b.prim_max_among_isTree hn hsym h' G hG⟩

/-- whole vine: the first tree of every accepted generated regular run is a maximum spanning tree. -/
theorem gen_regular_first_tree_is_mst {d t : Nat} {c : Choice ℝ} {cs : List (Choice ℝ)}
    {r : List (Tree × List ℝ)} (hd : 2 ≤ d) (hsym : AbsSymm d c.tau)
    (h : trainVineGen .regular d t (c :: cs) = .ok r) :
    ∃ t0 ts0 rest, r = (t0, ts0) :: rest ∧ SpanningTree d (t0.map (Edge.ends true)) ∧
      ∀ T', SpanningTree d T' → absWeight c.tau T' ≤ absWeight c.tau (t0.map (Edge.ends true)) :=
  C16b.regular_first_tree_is_mst hd hsym (gen_trainVine_eq _ d t (c :: cs) ▸ h)

/-! ## non-vacuity: the generated construction accepts runs, and the hypotheses hold for them -/

section Examples

local instance instNumFnsInt : NumFns Int where
  exp := id
  log := id
  pow := fun a _ => a
  sqrt := id
  abs := fun a => (Int.natAbs a : Int)
  ofNat := Int.ofNat
  ofSci := fun m _ => Int.ofNat m
  beq := fun a b => a == b
  isPosInf := fun _ => false
  isNaN := fun _ => false

private def tauI : Mat Int := [[10, 5, -2, 1], [5, 10, 3, 4], [-2, 3, 10, 6], [1, 4, 6, 10]]
private def csCenter : List (Choice Int) :=
  [⟨tauI, [1, 2, 3]⟩, ⟨[[0, 4, 0], [7, 0, 2], [5, 3, 0]], [1, 2]⟩, ⟨[[0, 1], [1, 0]], [1]⟩]
private def csDirect : List (Choice Int) :=
  [⟨tauI, [1, 2]⟩, ⟨[[0, 4, 0], [7, 0, 2], [5, 3, 0]], []⟩, ⟨[[0, 1], [1, 0]], []⟩]
private def csRegular : List (Choice Int) :=
  [⟨tauI, [0, 1, 1, 3, 3, 2]⟩, ⟨[[0, 4, 0], [7, 0, 2], [0, 3, 0]], [0, 1, 1, 2]⟩,
    ⟨[[0, 1], [1, 0]], [0, 1]⟩]

/-- the GENERATED construction, evaluated: accepted runs of the three types on 4 columns, full depth
    (3 trees) and with the default truncation; the center run is a C-vine `0; 1|0; 2|01`. -/
example : ∃ r, trainVineGen .center 4 3 csCenter = .ok r ∧ r.length = 3 ∧
    (treesOf r).map (fun t => t.map fun e => (e.L, e.R, e.D)) =
      [[(0, 1, []), (0, 2, []), (0, 3, [])], [(1, 2, [0]), (1, 3, [0])], [(2, 3, [0, 1])]] :=
  ⟨_, rfl, rfl, by decide⟩
example : ∃ r, trainVineGen .direct 4 3 csDirect = .ok r ∧ typeOk .direct (treesOf r) = true :=
  ⟨_, rfl, by decide⟩
example : ∃ r, trainVineGen .regular 4 (fitTruncated fitDefaultTruncated) csRegular = .ok r ∧
    isRegularVine 4 3 (treesOf r) = true := ⟨_, rfl, by decide⟩
/-- truncation is effective: `t = 1` gives one tree. -/
example : ∃ r, trainVineGen .regular 4 1 csRegular = .ok r ∧ r.length = 1 := ⟨_, rfl, rfl⟩
/-- a tie-breaking the code could not have made is refused (node 3 has the smallest `|tau|` with 0). -/
example : ∃ w, trainVineGen .center 4 3 (⟨tauI, [3, 2, 1]⟩ :: csCenter.tail) = .error (.rejected w) :=
  ⟨_, rfl⟩
/-- the generated `_identify_eds_ing`, `_check_constraint`, `is_adjacent` on the edges `(0,3|1)`, `(1,2|3)`. -/
example : identifyEdsIng ⟨0, 3, [1], none⟩ ⟨1, 2, [3], none⟩ = .ok (0, 2, [1, 3]) ∧
    checkConstraintPy 3 ⟨0, 3, [1], none⟩ ⟨1, 2, [3], none⟩ = true ∧
    checkConstraintPy 2 ⟨0, 3, [1], none⟩ ⟨1, 2, [3], none⟩ = false ∧
    isAdjacentPy ⟨0, 3, [1], none⟩ ⟨1, 2, [3], none⟩ = false ∧
    identifyEdsIng ⟨0, 1, [], none⟩ ⟨2, 3, [], none⟩ = .error .valueError := by decide

private theorem colOK_tauI : ColOK 4 tauI := by
  intro j h1 h2
  obtain rfl | rfl | rfl : j = 1 ∨ j = 2 ∨ j = 3 := by omega
  all_goals decide

/-- `ChoicesOK` holds for the center run above, so `gen_vine_structure` … `gen_fitted_vine_is_regular_vine`
    apply to it. -/
example : ChoicesOK .center 4 0 csCenter := by
  refine ⟨colOK_tauI, ?_, ?_, trivial⟩
  · intro j h1 h2
    obtain rfl | rfl : j = 1 ∨ j = 2 := by omega
    all_goals decide
  · intro j h1 h2
    obtain rfl : j = 1 := by omega
    decide

/-- the hypotheses of `gen_prim_is_max_spanning_tree`: a symmetric real matrix and an accepted generated
    Prim run on it (tie `(0,1)` / `(0,2)` broken towards `(0,2)`). -/
private noncomputable def tauR : Mat ℝ := [[1, 1/2, 1/2], [1/2, 1, -3/4], [1/2, -3/4, 1]]

private theorem tauR_get (i j : Nat) : tauR.get i j =
    (([[1, 1/2, 1/2], [1/2, 1, -3/4], [1/2, -3/4, 1]] : List (List ℝ)).getD i []).getD j 0 := by
  simp [tauR, Mat.get]

example : AbsSymm 3 tauR := by
  intro i j hi hj
  interval_cases i <;> interval_cases j <;> simp [tauR_get]

example : buildFirstRegular 3 tauR [(0, 2), (2, 1)] = .ok ([mkEdge 0 2, mkEdge 1 2], [1/2, -3/4]) := by
  rw [gen_regFirst_eq]
  have c1 : candsFirst 3 [0] = [(0, 1), (0, 2)] := by decide
  have c2 : candsFirst 3 [0, 2] = [(0, 1), (2, 1)] := by decide
  simp [primFirst, primFirstGo, primStepOk, stepMinOk, c1, c2, primKey, tauR_get, mkSorted,
    bind, Except.bind, pure, Except.pure]
  norm_num

end Examples

end CopVerif.Props.C16c
