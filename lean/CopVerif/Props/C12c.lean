import CopVerif.Props.C12b
import CopVerif.Lemmas.GaussCondGen
/-!
# C12c — translator tie (T): the theorems of C12 / C12b over the definitions GENERATED from the source

`tools/gen_gausscond.py` re-translates `GaussianMultivariate._get_conditional_distribution`,
`_get_normal_samples` and `sample` (`copulas/multivariate/gaussian.py`) into
`CopVerif/Gen/GaussCond.lean` on every run: the partition of the columns, the four `.loc` blocks, the
expressions for `mu_bar` / `sigma_bar`, the branch on `conditions is None`, what is handed to
`np.random.multivariate_normal`, the labels of the frame of draws, the test and the two arms of the loop of
`sample` and the order of the output columns are all read off the Python text.

Part 1 (`gen_*_eq`): the generated definitions EQUAL the hand model `Model.GaussCond` with both repairs
(`Variant.repaired`), for all inputs, any label type, any carrier.  A change of meaning in the source (a swapped
block, `+` for `-`, `inv(sigma11)`, `index=conditions.index`, `if conditions and …`, the score instead of the
value in a conditioned column, …) regenerates a definition for which one of these no longer checks.
Part 2: the property theorems of `Props/C12.lean` / `Props/C12b.lean` restated over the generated definitions.
-/
namespace CopVerif.Props.C12c
open CopVerif CopVerif.Model.GaussCond CopVerif.GaussCond CopVerif.GaussCondGen Matrix
open CopVerif.Gen.GaussCond (npZeros vecAdd vecSub matVec matAdd transposeM indexDifference seriesOf transformRow
  mvnArgs optItems optIsNone optIsSome optTruth optContains optGetItem andE orE notE dictLoop)

/-! ## Part 1 — generated = model -/
section bridges
variable {ι α : Type} [DecidableEq ι] [Add α] [Sub α] [Mul α] [NumFns α]

/-- the labels returned by the generated `_get_conditional_distribution` are the model's `columns1`: the
    training columns that are not condition labels, SORTED. -/
theorem gen_columns_eq (inv : List (List α) → List (List α)) (le : ι → ι → Bool) (S : Corr ι α)
    (nc : List (ι × α)) :
    (Gen.GaussCond.getConditionalDistribution inv le S nc).2.2 = columns1 le S.labels (nc.map Prod.fst) := by
  gc_bridge [Gen.GaussCond.getConditionalDistribution, Gen.GaussCond.gcdRet2]

/-- the generated conditional mean is the model's `condMean` (`mu1 + sigma12 @ inv(sigma22) @ (z - mu2)`). -/
theorem gen_mean_eq (inv : List (List α) → List (List α)) (le : ι → ι → Bool) (S : Corr ι α)
    (nc : List (ι × α)) :
    (Gen.GaussCond.getConditionalDistribution inv le S nc).1
      = condMean inv S (columns1 le S.labels (nc.map Prod.fst)) (nc.map Prod.fst) (nc.map Prod.snd) := by
  gc_bridge [Gen.GaussCond.getConditionalDistribution, Gen.GaussCond.gcdRet0]

/-- the generated conditional covariance is the model's `condCov` (`sigma11 - sigma12 @ inv(sigma22) @ sigma21`). -/
theorem gen_cov_eq (inv : List (List α) → List (List α)) (le : ι → ι → Bool) (S : Corr ι α)
    (nc : List (ι × α)) :
    (Gen.GaussCond.getConditionalDistribution inv le S nc).2.1
      = condCov inv S (columns1 le S.labels (nc.map Prod.fst)) (nc.map Prod.fst) := by
  gc_bridge [Gen.GaussCond.getConditionalDistribution, Gen.GaussCond.gcdRet1]

/-- handing the generated triple to `np.random.multivariate_normal` (which refuses an empty mean) is the model's
    `condDist`. -/
theorem gen_condDist_eq (inv : List (List α) → List (List α)) (le : ι → ι → Bool) (S : Corr ι α)
    (nc : List (ι × α)) :
    mvnArgs (Gen.GaussCond.getConditionalDistribution inv le S nc).1
        (Gen.GaussCond.getConditionalDistribution inv le S nc).2.1
        (Gen.GaussCond.getConditionalDistribution inv le S nc).2.2 = condDist inv le S nc := by
  rw [gen_columns_eq, gen_mean_eq, gen_cov_eq]
  unfold mvnArgs condDist condMean
  rw [affineMean_isEmpty]
  simp only [isEmpty_eq_decide_length]

omit [Add α] [Sub α] [Mul α] [NumFns α] in
/-- the Series handed to `_get_conditional_distribution` is the model's `normalConditions` with the REPAIRED
    labelling (scores labelled by the training columns actually walked). -/
theorem gen_conditionalArg_eq (t : TruthTest) (score : ι → α → α) (S : Corr ι α) (c : Conditions ι α) :
    Gen.GaussCond.conditionalArg score S c = normalConditions ⟨.walked, t⟩ S.labels score c := by
  unfold Gen.GaussCond.conditionalArg normalConditions transformRow
  by_cases h : (walkedScores S.labels score c.items).isEmpty = true
  · simp [h]
  · simp only [h, Bool.false_eq_true, if_false, seriesOf_walked]

/-- the generated `_get_normal_samples`, branch `conditions is not None`, up to the RNG call: the model's
    `normalConditions` (repaired labelling) followed by `condDist`. -/
theorem gen_samplerArgs_eq (t : TruthTest) (inv : List (List α) → List (List α)) (le : ι → ι → Bool)
    (score : ι → α → α) (S : Corr ι α) (c : Conditions ι α) :
    Gen.GaussCond.samplerArgs inv le score S (some c)
      = match normalConditions ⟨.walked, t⟩ S.labels score c with
        | .error e => .error e
        | .ok nc => condDist inv le S nc := by
  unfold Gen.GaussCond.samplerArgs normalConditions transformRow
  by_cases h : (walkedScores S.labels score c.items).isEmpty = true
  · simp [h]
  · simp only [h, Bool.false_eq_true, if_false, seriesOf_walked, gen_condDist_eq]

/-- the generated branch `conditions is None`: mean `0`, the stored correlation, the training columns. -/
theorem gen_samplerArgs_none (inv : List (List α) → List (List α)) (le : ι → ι → Bool)
    (score : ι → α → α) (S : Corr ι α) (hd : S.labels ≠ []) :
    Gen.GaussCond.samplerArgs inv le score S none
      = .ok { mean := List.replicate S.labels.length (NumFns.ofNat 0), cov := S.data, columns := S.labels } := by
  unfold Gen.GaussCond.samplerArgs mvnArgs npZeros
  cases hl : S.labels with
  | nil => exact absurd hl hd
  | cons a l => simp [List.replicate_succ]

omit [Add α] [Sub α] [Mul α] in
/-- the generated body of the loop of `sample` is the model's `colPlan` with the REPAIRED test
    (`conditions is not None and column_name in conditions`), evaluated: a conditioned column is the caller's
    ORIGINAL value `n` times, any other column is `ppf_col(Φ(draws[col]))` with the draw column found BY LABEL. -/
theorem gen_sampleColumn_eq (l : Labelling) (n : ℕ) (ppf : ι → α → α) (phi : α → α) (c : Conditions ι α)
    (columns : List ι) (draws : List (List α)) (col : ι) :
    Gen.GaussCond.sampleColumn n ppf phi (some c) (columns, draws) col
      = match colPlan ⟨l, .isNotNone⟩ c col with
        | .error e => .error e
        | .ok p => .ok (evalCol n ppf phi columns draws col p) := by
  unfold Gen.GaussCond.sampleColumn colPlan
  simp only [truthy, andE, optIsSome, optContains, optGetItem, Option.isSome_some, if_true, Bool.true_and]
  by_cases hk : col ∈ c.keys
  · cases hl : c.items.lookup col with
    | none => simp [hk]
    | some x => simp [hk, evalCol]
  · simp [hk, evalCol, List.map_map, Function.comp_def]

/-- **generated `sample` = model `sample`** (both repairs), for every call with `conditions` not `None`: any label
    type, carrier, `d`, `n`, container, condition set, inverse / order / marginals / RNG. -/
theorem gen_sample_eq (inv : List (List α) → List (List α)) (le : ι → ι → Bool)
    (score ppf : ι → α → α) (phi : α → α) (rng : List α → List (List α) → ℕ → List (List α))
    (S : Corr ι α) (n : ℕ) (c : Conditions ι α) :
    Gen.GaussCond.sample inv le score ppf phi rng S n (some c)
      = Model.GaussCond.sample Variant.repaired inv le score ppf phi rng S n c := by
  unfold Gen.GaussCond.sample Gen.GaussCond.getNormalSamples Model.GaussCond.sample sampleEff samplePlan
  rw [gen_samplerArgs_eq .isNotNone]
  simp only [Variant.repaired]
  cases normalConditions ⟨.walked, .isNotNone⟩ S.labels score c with
  | error e => rfl
  | ok nc =>
    dsimp only
    cases condDist inv le S nc with
    | error e => rfl
    | ok d =>
      dsimp only
      rw [dictLoop_eq ⟨.walked, .isNotNone⟩ c _ (fun col p => evalCol n ppf phi d.columns (rng d.mean d.cov n) col p)
        (fun col => gen_sampleColumn_eq .walked n ppf phi c d.columns (rng d.mean d.cov n) col)]
      cases planCols ⟨.walked, .isNotNone⟩ c S.labels with
      | error e => rfl
      | ok ps => rfl

end bridges

/-! ## Part 2 — the property theorems over the generated definitions -/
section transfer
variable {ι α : Type} [DecidableEq ι] [Add α] [Sub α] [Mul α] [NumFns α]

/-- what the generated `_get_normal_samples` hands to the sampler is the model's `condDist` of the Series the
    generated code hands to `_get_conditional_distribution`. -/
theorem gen_samplerArgs_condDist (inv : List (List α) → List (List α)) (le : ι → ι → Bool)
    (score : ι → α → α) (S : Corr ι α) (c : Conditions ι α) {nc : List (ι × α)} {d : CondDist ι α}
    (hnc : Gen.GaussCond.conditionalArg score S c = .ok nc)
    (h : Gen.GaussCond.samplerArgs inv le score S (some c) = .ok d) : condDist inv le S nc = .ok d := by
  rw [gen_conditionalArg_eq .isNotNone] at hnc
  rw [gen_samplerArgs_eq .isNotNone, hnc] at h
  exact h

/-- **Conditioned columns are returned exactly as given; schema and column order of the output.**  Whenever the
    generated `sample(n, conditions)` returns (any container, `d`, `n`, label type, distinct keys): the output has
    ALL training columns in TRAINING order, every column has `n` rows, and every conditioned training column is
    `n` copies of the caller's ORIGINAL value. -/
theorem gen_cond_columns_fixed (inv : List (List α) → List (List α)) (le : ι → ι → Bool)
    (score ppf : ι → α → α) (phi : α → α) (rng : List α → List (List α) → ℕ → List (List α))
    (S : Corr ι α) (n : ℕ) (c : Conditions ι α) (hrng : ∀ mean cov, (rng mean cov n).length = n)
    (hk : c.keys.Nodup) {out : List (ι × List α)}
    (h : Gen.GaussCond.sample inv le score ppf phi rng S n (some c) = .ok out) :
    out.map Prod.fst = S.labels ∧ (∀ q ∈ out, q.2.length = n) ∧
      ∀ k x, (k, x) ∈ c.items → k ∈ S.labels → (k, List.replicate n x) ∈ out := by
  rw [gen_sample_eq] at h
  exact C12.cond_columns_fixed _ inv le score ppf phi rng S n c hrng hk h

/-- **The generated `sample` returns on every well-formed call** — distinct training columns, distinct keys forming
    a non-empty proper subset — for a `dict` AND for a `pandas.Series` (the container clause), in any key order. -/
theorem gen_sample_returns (inv : List (List α) → List (List α)) (le : ι → ι → Bool)
    (score ppf : ι → α → α) (phi : α → α) (rng : List α → List (List α) → ℕ → List (List α))
    (S : Corr ι α) (n : ℕ) (c : Conditions ι α) (hw : WellFormed S.labels c) :
    ∃ out, Gen.GaussCond.sample inv le score ppf phi rng S n (some c) = .ok out := by
  rw [gen_sample_eq]
  exact C12.sample_returns _ inv le score ppf phi rng S n c hw (Or.inl rfl)

/-- **dict and Series are interchangeable** in the generated `sample`: same result for the same items. -/
theorem gen_series_container (inv : List (List α) → List (List α)) (le : ι → ι → Bool)
    (score ppf : ι → α → α) (phi : α → α) (rng : List α → List (List α) → ℕ → List (List α))
    (S : Corr ι α) (n : ℕ) (items : List (ι × α)) :
    Gen.GaussCond.sample inv le score ppf phi rng S n (some ⟨.series, items⟩)
      = Gen.GaussCond.sample inv le score ppf phi rng S n (some ⟨.dict, items⟩) := by
  rw [gen_sample_eq, gen_sample_eq]
  exact C12.series_container_repaired _ inv le score ppf phi rng S n items

omit [Add α] [Sub α] [Mul α] [NumFns α] in
/-- **Every condition key gets the score of its OWN value under its OWN marginal**, in ANY key order: the Series
    the generated code hands to `_get_conditional_distribution`, for every well-formed call. -/
theorem gen_labels_aligned (score : ι → α → α) (S : Corr ι α) (c : Conditions ι α) (hw : WellFormed S.labels c) :
    ∃ nc, Gen.GaussCond.conditionalArg score S c = .ok nc ∧ Aligned score c.items nc := by
  rw [gen_conditionalArg_eq .isNotNone]
  exact C12.labels_aligned .isNotNone S.labels score c hw

/-- **The partition made by the generated `_get_conditional_distribution`.**  For every list `nc` of
    (label, score) pairs with distinct labels among the (distinct) training columns: the returned labels are
    exactly the complement of the condition labels, duplicate-free, SORTED, non-empty for a proper subset, and
    together with the condition labels a rearrangement of the training columns; the returned mean and covariance
    are the model's Schur expressions on the four `.loc` blocks for those label lists. -/
theorem gen_partition_exact (inv : List (List α) → List (List α)) (le : ι → ι → Bool)
    (htrans : ∀ a b c, le a b = true → le b c = true → le a c = true)
    (htotal : ∀ a b, (le a b || le b a) = true) (S : Corr ι α) (nc : List (ι × α))
    (hS : S.labels.Nodup) (h2 : (nc.map Prod.fst).Nodup) (hsub : ∀ k ∈ nc.map Prod.fst, k ∈ S.labels) :
    let r := Gen.GaussCond.getConditionalDistribution inv le S nc
    let c2 := nc.map Prod.fst
    (∀ a, a ∈ r.2.2 ↔ a ∈ S.labels ∧ a ∉ c2) ∧ r.2.2.Nodup ∧ r.2.2.Pairwise (fun a b => le a b = true)
      ∧ ((∃ a ∈ S.labels, a ∉ c2) → r.2.2 ≠ []) ∧ (r.2.2 ++ c2).Perm S.labels
      ∧ r.1 = condMean inv S r.2.2 c2 (nc.map Prod.snd) ∧ r.2.1 = condCov inv S r.2.2 c2 := by
  intro r c2
  have hc : r.2.2 = columns1 le S.labels c2 := gen_columns_eq inv le S nc
  obtain ⟨p1, p2, p3, p4, p5, -⟩ := C12.partition_exact le htrans htotal S c2 hS h2 hsub
  rw [hc]
  exact ⟨p1, p2, p3, p4, p5, gen_mean_eq inv le S nc, gen_cov_eq inv le S nc⟩

/-- **The draws of every non-conditioned column are found by label**: each training column that is not a
    condition key is a label of the frame of draws the generated `_get_normal_samples` builds (so
    `samples[column_name]` never misses and does not depend on the sort). -/
theorem gen_draws_found_by_label (inv : List (List α) → List (List α)) (le : ι → ι → Bool)
    (score : ι → α → α) (S : Corr ι α) (c : Conditions ι α) {d : CondDist ι α}
    (h : Gen.GaussCond.samplerArgs inv le score S (some c) = .ok d) :
    ∀ col ∈ S.labels, col ∉ c.keys → col ∈ d.columns := by
  rw [gen_samplerArgs_eq .isNotNone] at h
  cases h1 : normalConditions ⟨.walked, .isNotNone⟩ S.labels score c with
  | error e => simp [h1] at h
  | ok nc =>
    simp only [h1] at h
    obtain ⟨hcol, -, -⟩ := C12.condDist_partition inv le S nc h
    intro col hcol1 hnk
    rw [hcol]
    exact mem_columns1.2 ⟨hcol1, fun hh => hnk (normalConditions_labels_sub h1 _ hh)⟩

end transfer

/-- Non-vacuity of the hypotheses of `gen_cond_columns_fixed` / `gen_sample_returns` / `gen_labels_aligned` /
    `gen_draws_found_by_label`: training columns `a, b, c`, a `pandas.Series` `{c: 1, a: 2}` (NOT in training order):
    the call is well-formed, the keys are distinct, an `n`-row RNG exists, and the generated `sample` and
    `_get_normal_samples` return. -/
example :
    let S : Corr C12.Col ℝ := ⟨[.a, .b, .c], [[1, 0, 0], [0, 1, 0], [0, 0, 1]]⟩
    let c : Conditions C12.Col ℝ := ⟨.series, [(.c, 1), (.a, 2)]⟩
    let rng : List ℝ → List (List ℝ) → ℕ → List (List ℝ) := fun _ _ n => List.replicate n []
    WellFormed S.labels c ∧ c.keys.Nodup ∧ (∀ mean cov, (rng mean cov 3).length = 3)
      ∧ (∃ out, Gen.GaussCond.sample id (fun _ _ => true) (fun _ x => x) (fun _ x => x) id rng S 3 (some c) = .ok out)
      ∧ (∃ d, Gen.GaussCond.samplerArgs id (fun _ _ => true) (fun _ x => x) S (some c) = .ok d) := by
  intro S c rng
  have hw : WellFormed S.labels c :=
    ⟨by decide, by decide, by decide, by simp [c], ⟨C12.Col.b, by decide, by decide⟩⟩
  have hout := gen_sample_returns id (fun _ _ => true) (fun _ x => x) (fun _ x => x) id rng S 3 c hw
  refine ⟨hw, by decide, fun _ _ => by simp [rng], hout, ?_⟩
  obtain ⟨out, hout⟩ := hout
  unfold Gen.GaussCond.sample Gen.GaussCond.getNormalSamples at hout
  cases hd : Gen.GaussCond.samplerArgs id (fun _ _ => true) (fun _ x => x) S (some c) with
  | error e => simp [hd] at hout
  | ok d => exact ⟨d, rfl⟩

/-! ### the conditional law (ℝ) -/
section law
variable {ι : Type} [DecidableEq ι]
open MeasureTheory ProbabilityTheory WithLp CopVerif.CondLaw

/-- The covariance the generated code hands to the sampler is symmetric whenever Σ is (and `inv` inverts `S22`). -/
theorem gen_schur_symm (inv : List (List ℝ) → List (List ℝ)) (le : ι → ι → Bool) (score : ι → ℝ → ℝ)
    (S : Corr ι ℝ) (c : Conditions ι ℝ) {nc : List (ι × ℝ)} {d : CondDist ι ℝ}
    (hnc : Gen.GaussCond.conditionalArg score S c = .ok nc)
    (h : Gen.GaussCond.samplerArgs inv le score S (some c) = .ok d)
    (hS : ∀ r c, S.loc1 r c = S.loc1 c r)
    (hdet : IsUnit ((corrM S).submatrix (nc.map Prod.fst).get (nc.map Prod.fst).get).det)
    (hinv : toM _ _ (inv (S.loc (nc.map Prod.fst) (nc.map Prod.fst)))
      = ((corrM S).submatrix (nc.map Prod.fst).get (nc.map Prod.fst).get)⁻¹) :
    (toM d.columns.length d.columns.length d.cov).IsSymm
      ∧ ∀ i j, i < d.columns.length → j < d.columns.length → entry d.cov i j = entry d.cov j i :=
  C12.schur_symm inv le S nc (gen_samplerArgs_condDist inv le score S c hnc h) hS hdet hinv

/-- Σ positive semi-definite and the conditioned block positive definite ⇒ the covariance the generated code hands
    to the sampler is positive semi-definite.  Every partition, every `d`. -/
theorem gen_schur_psd (inv : List (List ℝ) → List (List ℝ)) (le : ι → ι → Bool) (score : ι → ℝ → ℝ)
    (S : Corr ι ℝ) (c : Conditions ι ℝ) {nc : List (ι × ℝ)} {d : CondDist ι ℝ}
    (hnc : Gen.GaussCond.conditionalArg score S c = .ok nc)
    (h : Gen.GaussCond.samplerArgs inv le score S (some c) = .ok d)
    (hPSD : (corrM S).PosSemidef)
    (h22 : ((corrM S).submatrix (nc.map Prod.fst).get (nc.map Prod.fst).get).PosDef)
    (hinv : toM _ _ (inv (S.loc (nc.map Prod.fst) (nc.map Prod.fst)))
      = ((corrM S).submatrix (nc.map Prod.fst).get (nc.map Prod.fst).get)⁻¹) :
    (toM d.columns.length d.columns.length d.cov).PosSemidef :=
  C12.schur_psd inv le S nc (gen_samplerArgs_condDist inv le score S c hnc h) hPSD h22 hinv

/-- **The free-part law parameters are the Schur complement.**  What the generated code hands to
    `np.random.multivariate_normal` IS `μ̄ = (S12 S22⁻¹) z`, `Σ̄ = S11 − S12 S22⁻¹ S21` on the sub-matrices of Σ for
    the sorted complement and the condition labels, `z` the scores attached to those labels — as Mathlib matrices. -/
theorem gen_sampler_params_schur (inv : List (List ℝ) → List (List ℝ)) (le : ι → ι → Bool) (score : ι → ℝ → ℝ)
    (S : Corr ι ℝ) (c : Conditions ι ℝ) {nc : List (ι × ℝ)} {d : CondDist ι ℝ}
    (hnc : Gen.GaussCond.conditionalArg score S c = .ok nc)
    (h : Gen.GaussCond.samplerArgs inv le score S (some c) = .ok d)
    (hdet : IsUnit ((corrM S).submatrix (nc.map Prod.fst).get (nc.map Prod.fst).get).det)
    (hinv : toM _ _ (inv (S.loc (nc.map Prod.fst) (nc.map Prod.fst)))
      = ((corrM S).submatrix (nc.map Prod.fst).get (nc.map Prod.fst).get)⁻¹) :
    let c2 := nc.map Prod.fst
    let S11 := (corrM S).submatrix d.columns.get d.columns.get
    let S12 := (corrM S).submatrix d.columns.get c2.get
    let S21 := (corrM S).submatrix c2.get d.columns.get
    let S22 := (corrM S).submatrix c2.get c2.get
    d.columns = columns1 le S.labels c2
      ∧ toV d.columns.length d.mean = (S12 * S22⁻¹).mulVec (toV c2.length (nc.map Prod.snd))
      ∧ toM d.columns.length d.columns.length d.cov = S11 - S12 * S22⁻¹ * S21 := by
  intro c2 S11 S12 S21 S22
  obtain ⟨h1, h2, h3, -, -⟩ :=
    C12.conditional_law_partial inv le S nc (gen_samplerArgs_condDist inv le score S c hnc h) hdet hinv
  exact ⟨h1, h2, h3⟩

/-- **The generated code samples the conditional law** (`C12b.sampler_is_conditional_law` over the generated
    definitions).  Let `Z` be ANY random vector with law `N(0, Σ_perm)`, `Σ_perm` the fitted correlation with rows
    and columns listed as `columns1 ++ c2`; `X₁`, `X₂` its two blocks.  Then there is a Markov kernel `κ` with
    `κ z' = N(G z', Σ̄)` for every `z'` which disintegrates the joint law of `(X₂, X₁)`, is Mathlib's
    `condDistrib X₁ X₂ P` almost everywhere, and at the scores `z` of the call `κ z` is exactly `N(d.mean, d.cov)`,
    the law the generated code asks numpy to sample. -/
theorem gen_sampler_is_conditional_law (inv : List (List ℝ) → List (List ℝ)) (le : ι → ι → Bool)
    (score : ι → ℝ → ℝ) (S : Corr ι ℝ) (c : Conditions ι ℝ) {nc : List (ι × ℝ)} {d : CondDist ι ℝ}
    (hnc : Gen.GaussCond.conditionalArg score S c = .ok nc)
    (h : Gen.GaussCond.samplerArgs inv le score S (some c) = .ok d)
    (hPSD : (corrM S).PosSemidef)
    (hdet : IsUnit ((corrM S).submatrix (nc.map Prod.fst).get (nc.map Prod.fst).get).det)
    (hinv : toM _ _ (inv (S.loc (nc.map Prod.fst) (nc.map Prod.fst)))
      = ((corrM S).submatrix (nc.map Prod.fst).get (nc.map Prod.fst).get)⁻¹)
    {Ω : Type*} {mΩ : MeasurableSpace Ω} {P : Measure Ω}
    {Z : Ω → EuclideanSpace ℝ (Fin d.columns.length ⊕ Fin (nc.map Prod.fst).length)}
    (hZ : HasLaw Z (multivariateGaussian 0 ((corrM S).submatrix
        (Sum.elim d.columns.get (nc.map Prod.fst).get)
        (Sum.elim d.columns.get (nc.map Prod.fst).get))) P) :
    let c2 := nc.map Prod.fst
    let z : EuclideanSpace ℝ (Fin c2.length) := toLp 2 (toV c2.length (nc.map Prod.snd))
    let X1 : Ω → EuclideanSpace ℝ (Fin d.columns.length) := fun ω => pick Sum.inl (Z ω)
    let X2 : Ω → EuclideanSpace ℝ (Fin c2.length) := fun ω => pick Sum.inr (Z ω)
    let S22 := (corrM S).submatrix c2.get c2.get
    haveI := hZ.isProbabilityMeasure
    ∃ κ : Kernel (EuclideanSpace ℝ (Fin c2.length)) (EuclideanSpace ℝ (Fin d.columns.length)),
      IsMarkovKernel κ
      ∧ (∀ z', κ z' = multivariateGaussian (mulE (CondLaw.gain (corrM S) d.columns.get c2.get) z')
            (schur (corrM S) d.columns.get c2.get))
      ∧ HasLaw X2 (multivariateGaussian 0 S22) P
      ∧ P.map (fun ω => (X2 ω, X1 ω)) = multivariateGaussian 0 S22 ⊗ₘ κ
      ∧ condDistrib X1 X2 P =ᵐ[multivariateGaussian 0 S22] κ
      ∧ κ z = multivariateGaussian (toLp 2 (toV d.columns.length d.mean))
          (toM d.columns.length d.columns.length d.cov) :=
  C12b.sampler_is_conditional_law inv le S nc (gen_samplerArgs_condDist inv le score S c hnc h) hPSD hdet hinv hZ


/-- Non-vacuity of the hypotheses of `gen_schur_symm` / `gen_schur_psd` / `gen_sampler_params_schur` /
    `gen_sampler_is_conditional_law`: labels `0, 1 : Fin 2`, Σ = [[2, 1], [1, 1]], `conditions = {1: 0.3}`, identity
    marginal scores, `inv = id`: the generated code hands the Series `[(1, 0.3)]` to
    `_get_conditional_distribution`, `_get_normal_samples` gets as far as the sampler with `Σ̄ = [[1]]`; Σ is
    symmetric and positive semi-definite, `S₂₂ = [1]` is positive definite, invertible and inverted by `inv`, and a
    vector with the required law exists. -/
example :
    let S : Corr (Fin 2) ℝ := ⟨[0, 1], [[2, 1], [1, 1]]⟩
    let c : Conditions (Fin 2) ℝ := ⟨.dict, [((1 : Fin 2), (0.3 : ℝ))]⟩
    let nc : List (Fin 2 × ℝ) := [((1 : Fin 2), (0.3 : ℝ))]
    let le : Fin 2 → Fin 2 → Bool := fun a b => decide (a ≤ b)
    Gen.GaussCond.conditionalArg (fun _ x => x) S c = .ok nc
      ∧ (∃ d, Gen.GaussCond.samplerArgs id le (fun _ x => x) S (some c) = .ok d ∧ d.cov = [[1]])
      ∧ (∀ r c, S.loc1 r c = S.loc1 c r)
      ∧ (corrM S).PosSemidef
      ∧ ((corrM S).submatrix (nc.map Prod.fst).get (nc.map Prod.fst).get).PosDef
      ∧ IsUnit ((corrM S).submatrix (nc.map Prod.fst).get (nc.map Prod.fst).get).det
      ∧ toM _ _ (id (S.loc (nc.map Prod.fst) (nc.map Prod.fst)))
          = ((corrM S).submatrix (nc.map Prod.fst).get (nc.map Prod.fst).get)⁻¹
      ∧ HasLaw id (multivariateGaussian 0 (corrM S)) (multivariateGaussian 0 (corrM S)) := by
  intro S c nc le
  have hM : corrM S = (!![1, 1; 1, 0] : Matrix (Fin 2) (Fin 2) ℝ)ᴴ * !![1, 1; 1, 0] := by
    ext i j
    fin_cases i <;> fin_cases j <;>
      simp [S, Corr.loc1, entry, Matrix.mul_apply, Fin.sum_univ_two, List.idxOf, List.findIdx,
        List.findIdx.go] <;> norm_num
  have h1 : (corrM S).submatrix (nc.map Prod.fst).get (nc.map Prod.fst).get
      = (1 : Matrix (Fin 1) (Fin 1) ℝ) := by
    ext i j
    fin_cases i; fin_cases j
    simp [S, nc, Corr.loc1, entry, List.idxOf, List.findIdx, List.findIdx.go]
  have hnc : Gen.GaussCond.conditionalArg (fun _ x => x) S c = .ok nc := by
    rw [gen_conditionalArg_eq .isNotNone]
    simp [normalConditions, walkedScores, S, c, nc, List.lookup]
  refine ⟨hnc, ?_, ?_, ?_, ?_, ?_, ?_, HasLaw.id⟩
  · have hc1 : columns1 le S.labels [1] = [0] := by simp [columns1, S, le]
    refine ⟨⟨condMean id S [0] [1] [0.3], condCov id S [0] [1], [0]⟩, ?_, ?_⟩
    · rw [gen_samplerArgs_eq .isNotNone, ← gen_conditionalArg_eq .isNotNone, hnc]
      simp only [condDist, nc, List.map_cons, List.map_nil, hc1]; rfl
    · simp [condCov, Model.GaussCond.gain, matSub, matMul, table, sumRange, entry, Corr.loc, Corr.loc1, S,
        List.range_succ, List.idxOf, List.findIdx, List.findIdx.go]
      norm_num
  · intro r c
    fin_cases r <;> fin_cases c <;>
      simp [S, Corr.loc1, entry, List.idxOf, List.findIdx, List.findIdx.go]
  · rw [hM]; exact Matrix.posSemidef_conjTranspose_mul_self _
  · rw [h1]; exact Matrix.PosDef.one
  · rw [h1]; simp
  · rw [h1, inv_one]
    ext i j
    fin_cases i; fin_cases j
    simp [S, nc, Corr.loc, Corr.loc1, entry, List.idxOf, List.findIdx, List.findIdx.go]

end law

end CopVerif.Props.C12c
