import CopVerif.Base.FloatIO
import CopVerif.Model.Rng
import CopVerif.Model.DatasetShape
import CopVerif.Gen.RngScope
/-!
Driver for the RNG-protocol model (C15): runs a history in the free term algebra and prints, after
every op, the term of the global generator, of every model's `random_state`, of every
caller-owned `RandomState` object, and what the op returned.  The harness compares the equality
pattern of these terms with the equality pattern of the sha256 digests it logged on the real code.

Request  `rng run <n> <cls_0> … <cls_{n-1}> T <cls>=<0|1> … H <op> …`
  ops    `s:<m>:<raises 0|1>:<d,d,…|->`   m.sample(...) whose body performs the draws (keys) then returns/raises
         `n:<m>`  `i:<m>:<seed>`  `o:<m>:<k>`   set_random_state(None | int | k-th caller object)
         `c:<seed>`                              k-th caller object = RandomState(seed)
         `d:<k>:<key>`                           caller draws from its k-th object
         `g:<seed>`                              np.random.seed(seed)
         `D:<name>:<seed>:<size>`  `B:<seed>:<size>`   dataset generators (draws from `datasetDraws`)
Reply    `ok` then per op: `| g=<term> m0=<term|-> … c0=<term> … r=<-|X|ok:<term>/<key>;…>`
         a term is `root.d1.d2…` (root 0 = prior global state, s+1 = fromSeed s).
Request  `rng genrun …` (same syntax): the same history executed by the step function GENERATED from the source
         (`Gen.RngScope.step`: translated context manager / decorator / `validate_random_state` / `set_random_state`
         methods, generated class table; the `T` table of the request is ignored).
Request  `rng genrows` → `ok <cls>:<sample owner>:<decorators joined by +|->:<setter owner>:<delegates 0|1>:<ctor 0|1> …`
         (the table `Gen.RngScope.samplerRows` generated from the class statements).
Request  `rng table [repaired]` → `ok <cls>=<0|1> …` (the expected decorator table).
Request  `rng shape <name> <size>` → `ok rows=<n|none> cols=<k> draws=<kind>:<count|s>,…|-`: rows / columns /
         draw requests (in order; `s` = scalar draw) of `DatasetShape.prog name size`; for `univariates` the
         rows are `univariatesRows size` and the draws those of its seven columns in source order.
-/
namespace CopVerif.Driver
open CopVerif.Model.Rng

abbrev FT := Term Nat
abbrev FOut := FT × Nat

def showTerm (t : FT) : String := ".".intercalate (toString t.root :: t.draws.map toString)

def showOut (o : FOut) : String := showTerm o.1 ++ "/" ++ toString o.2

def showResult : Option (Result FOut) → String
  | none => "-"
  | some .raised => "X"
  | some (.ok outs) => "ok:" ++ ";".intercalate (outs.map showOut)

/-- injective code of a dataset draw request (odd; the harness's own keys are even). -/
def DrawReq.code (d : DrawReq) : Nat :=
  2 * ((d.kind * 64 + d.tag) * 4294967296 + (match d.count with | none => 0 | some n => n + 1)) + 1

/-- surface syntax: caller objects are addressed by creation index. -/
inductive SOp where
  | sample (m : Nat) (raises : Bool) (ds : List Nat)
  | setNone (m : Nat)
  | setInt (m n : Nat)
  | setObj (m k : Nat)
  | callerNew (n : Nat)
  | callerDraw (k d : Nat)
  | seedGlobal (n : Nat)
  | dataset (name : String) (seed size : Nat)
  | bimodal (seed size : Nat)

def parseDraws (s : String) : Option (List Nat) :=
  if s == "-" then some [] else (s.splitOn ",").mapM String.toNat?

def parseOp (w : String) : Option SOp :=
  match w.splitOn ":" with
  | ["s", m, r, ds] => do
    let m ← m.toNat?; let r ← r.toNat?; let ds ← parseDraws ds
    pure (.sample m (r != 0) ds)
  | ["n", m] => do pure (.setNone (← m.toNat?))
  | ["i", m, n] => do pure (.setInt (← m.toNat?) (← n.toNat?))
  | ["o", m, k] => do pure (.setObj (← m.toNat?) (← k.toNat?))
  | ["c", n] => do pure (.callerNew (← n.toNat?))
  | ["d", k, d] => do pure (.callerDraw (← k.toNat?) (← d.toNat?))
  | ["g", n] => do pure (.seedGlobal (← n.toNat?))
  | ["D", name, seed, size] => do pure (.dataset name (← seed.toNat?) (← size.toNat?))
  | ["B", seed, size] => do pure (.bimodal (← seed.toNat?) (← size.toNat?))
  | _ => none

/-- surface op → model op, given the references of the caller objects created so far. -/
def toOp (callers : List Nat) : SOp → Option (Op Nat)
  | .sample m r ds => some (.sample m ⟨ds, r⟩)
  | .setNone m => some (.setState m .none)
  | .setInt m n => some (.setState m (.int n))
  | .setObj m k => (callers[k]?).map fun r => .setState m (.obj r)
  | .callerNew n => some (.callerNew n)
  | .callerDraw k d => (callers[k]?).map fun r => .callerDraw r d
  | .seedGlobal n => some (.seedGlobal n)
  | .dataset name seed size => some (.dataset seed ((datasetDraws name size).map DrawReq.code))
  | .bimodal seed size =>
    some (.datasetBimodal seed ((bimodalDraws size).1.map DrawReq.code)
      ((bimodalDraws size).2.map DrawReq.code))

def showWorld (n : Nat) (callers : List Nat) (w : World FT) (res : Option (Result FOut)) : String :=
  let ms := (List.range n).map fun m =>
    s!"m{m}=" ++ (match w.view m with | some t => showTerm t | none => "-")
  let cs := (List.range callers.length).map fun k =>
    s!"c{k}=" ++ showTerm (w.heap (callers.getD k 0))
  " ".intercalate (["|", "g=" ++ showTerm w.global] ++ ms ++ cs ++ ["r=" ++ showResult res])

def parseTable (ws : List String) : Option (List TableEntry) :=
  ws.mapM fun w => match w.splitOn "=" with
    | [c, "1"] => some ⟨c, "sample", true⟩
    | [c, "0"] => some ⟨c, "sample", false⟩
    | _ => none

def showTable (t : List TableEntry) : String :=
  " ".intercalate (t.map fun e => e.cls ++ "=" ++ (if e.decorated then "1" else "0"))

/-- run the surface ops from `World.init`, one `step` of the model per op. -/
def runHistory (stepFn : World FT → Op Nat → World FT × Option (Result FOut)) (n : Nat) (ops : List SOp) :
    Option (List String) :=
  let rec go (w : World FT) (callers : List Nat) (acc : List String) : List SOp → Option (List String)
    | [] => some acc.reverse
    | sop :: rest =>
      match toOp callers sop with
      | none => none
      | some op =>
        let callers' := match sop with
          | .callerNew _ => callers ++ [w.next]
          | _ => callers
        let r := stepFn w op
        go r.1 callers' (showWorld n callers' r.1 r.2 :: acc) rest
  go (World.init ⟨0, []⟩) [] [] ops

def showOptNat : Option Nat → String
  | some n => toString n
  | none => "none"

def showDrawReqs (ds : List DrawReq) : String :=
  if ds.isEmpty then "-" else
  ",".intercalate (ds.map fun d => toString d.kind ++ ":" ++ (match d.count with | some n => toString n | none => "s"))

/-- shape-level evaluation of one dataset generator (model `DatasetShape`). -/
def shape (name : String) (size : Nat) : String :=
  open CopVerif.Model.DatasetShape in
  if name == "univariates" then
    s!"ok rows={showOptNat (univariatesRows size)} cols={univariatesColumns.length} draws=" ++
      showDrawReqs (univariatesColumns.flatMap fun n => (prog n size).draws)
  else
    let p := prog name size
    s!"ok rows={showOptNat p.rows} cols={p.cols.length} draws=" ++ showDrawReqs p.draws

def showRow (r : CopVerif.Gen.RngScope.SamplerRow) : String :=
  ":".intercalate [r.cls, r.sampleOwner, (if r.decorators.isEmpty then "-" else "+".intercalate r.decorators),
    r.setterOwner, (if r.delegates then "1" else "0"), (if r.ctorValidates then "1" else "0")]

/-- `run` / `genrun`: parse the request and execute it with the hand model's or the generated step function. -/
def runRequest (gen : Bool) (n : String) (rest : List String) : String :=
    match n.toNat? with
    | none => "bad-op"
    | some n =>
      let classes := rest.take n
      match rest.drop n with
      | "T" :: rest2 =>
        let tws := rest2.takeWhile (· ≠ "H")
        match parseTable tws, rest2.dropWhile (· ≠ "H") with
        | some table, "H" :: ows =>
          match ows.mapM parseOp with
          | none => "bad-op"
          | some ops =>
            let clsOf := fun m => classes.getD m ""
            let stepFn : World FT → Op Nat → World FT × Option (Result FOut) :=
              if gen then CopVerif.Gen.RngScope.step (freeAlg Nat) clsOf
              else step (freeAlg Nat) (configOf table clsOf)
            match runHistory stepFn n ops with
            | some lines => " ".intercalate ("ok" :: lines)
            | none => "bad-ref"
        | _, _ => "bad-op"
      | _ => "bad-op"

def rng (ws : List String) : String :=
  match ws with
  | ["genrows"] => "ok " ++ " ".intercalate (CopVerif.Gen.RngScope.samplerRows.map showRow)
  | "genrun" :: n :: rest => runRequest true n rest
  | ["shape", name, size] =>
    match size.toNat? with
    | some n => shape name n
    | none => "bad-op"
  | ["table"] => "ok " ++ showTable asFoundTable
  | ["table", "repaired"] => "ok " ++ showTable repairedTable
  | "run" :: n :: rest => runRequest false n rest
  | _ => "bad-op"

end CopVerif.Driver
