import CopVerif.Base.FloatIO
import CopVerif.Model.GaussSample
import CopVerif.Lemmas.GaussSampleGen
/-!
  Driver for `Model/GaussSample.lean` (property C01).  One request line → one reply line.

  Labels cross the pipe as opaque tokens (`s:<hex of utf-8>` / `i:<decimal>`; the encoding is injective,
  so token equality is label equality); floats as 16-hex-digit bit patterns.

  * `gs fit d r lab_1 … lab_d x_11 … x_1r … x_d1 … x_dr`  (table column by column, in table order)
      → `ok lab_1 U_1 … lab_d U_d` with `U = E<j>` (external univariate `j`) or `C<hex>` (constant).
  * `gs sample n d r lab_1 … lab_d <data as above>`
      → `ok | lab len t_0 … t_{len-1} | lab …` : `Model.GaussSample.sample` run on SYMBOLS — the plan
        term of every output cell over `P<j>(·)` = `univariates[j].percent_point`, `H(·)` =
        `scipy.stats.norm.cdf`, `D<k>.<i>` = entry `[i, k]` of the array returned by
        `np.random.multivariate_normal(zeros(d), correlation, size=n)`, `C<hex>` = a literal.
        The reply starts with `mvn d n` = the draw request made.
  * `gs kendall m x_1 y_1 … x_m y_m` → `ok conc disc tieX tieY tieXY tau` (`tau` hex or `nan`).

  The same requests answered from the definitions GENERATED from the source (translation validation of
  `tools/gen_gausscond.py` / `tools/gen_gausstransform.py` on the unconditional path, obligations `tv:GaussCond`,
  `tv:GaussTransform` of `tools/props/c01.py`), through the glue of `Lemmas/GaussSampleGen.lean` the theorems of
  `Props/C01b.lean` are stated with (`genFitted`, `ppfOf`):
  * `gs genfit …`    → as `gs fit`, from `Gen.GaussTransform.fitColumns`;
  * `gs gensample …` → as `gs sample`, from `Gen.GaussCond.sample … none` run on SYMBOLS (carrier `Sym`; the RNG
        returns `D<k>.<i>` for as many columns as the mean it is handed has entries);
  * `gs genargs d r <table>` → `ok <d'> mean <d' symbols> cov <d'·d' symbols> cols <d' labels>`: what
        `Gen.GaussCond.samplerArgs … none` hands to `np.random.multivariate_normal`; entry `[i, j]` of
        `self.correlation` is the symbol `R<i>.<j>`, `np.zeros` gives the symbol `0`.
-/
namespace CopVerif.Driver.GaussSampleD
open CopVerif CopVerif.IO CopVerif.Model.GaussSample

/-- split `xs` into `d` chunks of length `r`. -/
def chunks {γ : Type} (r : Nat) : Nat → List γ → List (List γ)
  | 0, _ => []
  | d + 1, xs => xs.take r :: chunks r d (xs.drop r)

def showUni : Uni Float → String
  | .const c => "C" ++ showFloat c
  | .ext j => "E" ++ toString j

/-- the symbolic reading of the external functions. -/
def symExt : Ext String where
  ppf := fun j t => "P" ++ toString j ++ "(" ++ t ++ ")"
  phi := fun t => "H(" ++ t ++ ")"
  mvn := fun d n => (List.range n).map fun i => (List.range d).map fun k =>
    "D" ++ toString k ++ "." ++ toString i

/-- symbolic carrier for running the GENERATED sampler: every arithmetic operation prints itself. -/
structure Sym where
  s : String

instance : Add Sym := ⟨fun a b => ⟨"(" ++ a.s ++ "+" ++ b.s ++ ")"⟩⟩
instance : Sub Sym := ⟨fun a b => ⟨"(" ++ a.s ++ "-" ++ b.s ++ ")"⟩⟩
instance : Mul Sym := ⟨fun a b => ⟨"(" ++ a.s ++ "*" ++ b.s ++ ")"⟩⟩
instance : NumFns Sym where
  exp a := ⟨"exp(" ++ a.s ++ ")"⟩
  log a := ⟨"log(" ++ a.s ++ ")"⟩
  pow a b := ⟨"pow(" ++ a.s ++ "," ++ b.s ++ ")"⟩
  sqrt a := ⟨"sqrt(" ++ a.s ++ ")"⟩
  abs a := ⟨"abs(" ++ a.s ++ ")"⟩
  ofNat n := ⟨toString n⟩
  ofSci m e := ⟨toString m ++ "e-" ++ toString e⟩
  beq a b := a.s == b.s
  isPosInf _ := false
  isNaN _ := false

/-- the symbolic reading of the external functions for the generated code (the RNG is a parameter there). -/
def symExtGen : Ext Sym where
  ppf := fun j t => ⟨"P" ++ toString j ++ "(" ++ t.s ++ ")"⟩
  phi := fun t => ⟨"H(" ++ t.s ++ ")"⟩
  mvn := fun _ _ => []

def symRng : List Sym → List (List Sym) → Nat → List (List Sym) := fun mean _ n =>
  (List.range n).map fun i => (List.range mean.length).map fun k => ⟨"D" ++ toString k ++ "." ++ toString i⟩

/-- the fitted state built by the generated `_fit_columns` (constants as `C<hex>` symbols) and the stored
    correlation as symbols `R<i>.<j>`, labelled with the fitted columns. -/
def genState (X : List (String × List Float)) : Fitted String Sym × Model.GaussCond.Corr String Sym :=
  let m : Fitted String Sym := (GaussSampleGen.genFitted (fun _ => ()) X).map fun c => ⟨"C" ++ showFloat c⟩
  let d := m.columns.length
  (m, { labels := m.columns,
        data := (List.range d).map fun i => (List.range d).map fun j => ⟨"R" ++ toString i ++ "." ++ toString j⟩ })

def parseTable (d r : Nat) (rest : List String) : Option (List (String × List Float)) :=
  let labs := rest.take d
  match parseFloats (rest.drop d) with
  | some vals =>
    if labs.length = d ∧ vals.length = d * r then some (labs.zip (chunks r d vals)) else none
  | none => none

def showFrame (fr : List (String × List String)) : String :=
  " ".intercalate (fr.map fun c => "| " ++ c.1 ++ " " ++ toString c.2.length ++ " " ++ " ".intercalate c.2)

def gs (ws : List String) : String :=
  match ws with
  | "fit" :: d :: r :: rest =>
    match d.toNat?, r.toNat? with
    | some d, some r =>
      match parseTable d r rest with
      | some X =>
        let m : Fitted String Float := fitColumns X
        "ok " ++ " ".intercalate ((m.columns.zip m.univariates).map fun p => p.1 ++ " " ++ showUni p.2)
      | none => "bad-op"
    | _, _ => "bad-op"
  | "sample" :: n :: d :: r :: rest =>
    match n.toNat?, d.toNat?, r.toNat? with
    | some n, some d, some r =>
      match parseTable d r rest with
      | some X =>
        let m : Fitted String String := (fitColumns X).map fun c => "C" ++ showFloat c
        "ok mvn " ++ toString m.columns.length ++ " " ++ toString n ++ " " ++ showFrame (sample symExt m n)
      | none => "bad-op"
    | _, _, _ => "bad-op"
  | "genfit" :: d :: r :: rest =>
    match d.toNat?, r.toNat? with
    | some d, some r =>
      match parseTable d r rest with
      | some X =>
        let m : Fitted String Float := GaussSampleGen.genFitted (fun _ => ()) X
        "ok " ++ " ".intercalate ((m.columns.zip m.univariates).map fun p => p.1 ++ " " ++ showUni p.2)
      | none => "bad-op"
    | _, _ => "bad-op"
  | "genargs" :: d :: r :: rest =>
    match d.toNat?, r.toNat? with
    | some d, some r =>
      match parseTable d r rest with
      | some X =>
        let (_, S) := genState X
        match Gen.GaussCond.samplerArgs id (fun a b => decide (a ≤ b)) (fun _ x => x) S none with
        | .error e => "err " ++ toString e
        | .ok a =>
          "ok " ++ toString a.mean.length ++ " mean " ++ " ".intercalate (a.mean.map (·.s))
            ++ " cov " ++ " ".intercalate (a.cov.flatten.map (·.s)) ++ " cols " ++ " ".intercalate a.columns
      | none => "bad-op"
    | _, _ => "bad-op"
  | "gensample" :: n :: d :: r :: rest =>
    match n.toNat?, d.toNat?, r.toNat? with
    | some n, some d, some r =>
      match parseTable d r rest with
      | some X =>
        let (m, S) := genState X
        match Gen.GaussCond.samplerArgs id (fun a b => decide (a ≤ b)) (fun _ x => x) S none,
              Gen.GaussCond.sample id (fun a b => decide (a ≤ b)) (fun _ x => x) (GaussSampleGen.ppfOf symExtGen m)
                symExtGen.phi symRng S n none with
        | .ok a, .ok out =>
          "ok mvn " ++ toString a.mean.length ++ " " ++ toString n ++ " "
            ++ showFrame (out.map fun c => (c.1, c.2.map (·.s)))
        | .error e, _ => "err " ++ toString e
        | _, .error e => "err " ++ toString e
      | none => "bad-op"
    | _, _, _ => "bad-op"
  | "kendall" :: m :: rest =>
    match m.toNat?, parseFloats rest with
    | some m, some vals =>
      if vals.length = 2 * m then
        let l := pairs vals
        let c := counts l
        let tau : Option Float := tauB l.length c
        "ok " ++ toString c.conc ++ " " ++ toString c.disc ++ " " ++ toString c.tieX ++ " "
          ++ toString c.tieY ++ " " ++ toString c.tieXY ++ " "
          ++ (match tau with | some t => showFloat t | none => "nan")
      else "bad-op"
    | _, _ => "bad-op"
  | _ => "bad-op"

end CopVerif.Driver.GaussSampleD

namespace CopVerif.Driver
/-- entry point (`gs …` requests). -/
def gaussSample (ws : List String) : String := GaussSampleD.gs ws
end CopVerif.Driver
