import CopVerif.Base.FloatIO
import CopVerif.Model.GaussSample
/-!
  Driver for `Model/GaussSample.lean` (property C01).  One request line → one reply line.

  Labels cross the pipe as opaque tokens (`s:<hex of utf-8>` / `i:<decimal>`; the encoding is injective,
  so token equality is label equality); floats as 16-hex-digit bit patterns.

  * `gs fit d r lab_1 … lab_d x_11 … x_1r … x_d1 … x_dr`  (table column by column, in table order)
      → `ok lab_1 U_1 … lab_d U_d` with `U = E<j>` (external univariate `j`) or `C<hex>` (constant).
  * `gs sample n d r lab_1 … lab_d <data as above>`
      → `ok | lab len t_0 … t_{len-1} | lab …` : `Model.GaussSample.sample` run on SYMBOLS — the plan
        term of every output cell over `P<j>(·)` = `univariates[j].percent_point`, `H(·)` =
        `scipy.stats.norm.cdf`, `D<k>.<i>` = entry `[i, k]` of the array returned by
        `np.random.multivariate_normal(zeros(d), correlation, size=n)`, `C<hex>` = a literal.
        The reply starts with `mvn d n` = the draw request made.
  * `gs kendall m x_1 y_1 … x_m y_m` → `ok conc disc tieX tieY tieXY tau` (`tau` hex or `nan`).
-/
namespace CopVerif.Driver.GaussSampleD
open CopVerif CopVerif.IO CopVerif.Model.GaussSample

/-- split `xs` into `d` chunks of length `r`. -/
def chunks {γ : Type} (r : Nat) : Nat → List γ → List (List γ)
  | 0, _ => []
  | d + 1, xs => xs.take r :: chunks r d (xs.drop r)

def showUni : Uni Float → String
  | .const c => "C" ++ showFloat c
  | .ext j => "E" ++ toString j

/-- the symbolic reading of the external functions. -/
def symExt : Ext String where
  ppf := fun j t => "P" ++ toString j ++ "(" ++ t ++ ")"
  phi := fun t => "H(" ++ t ++ ")"
  mvn := fun d n => (List.range n).map fun i => (List.range d).map fun k =>
    "D" ++ toString k ++ "." ++ toString i

def parseTable (d r : Nat) (rest : List String) : Option (List (String × List Float)) :=
  let labs := rest.take d
  match parseFloats (rest.drop d) with
  | some vals =>
    if labs.length = d ∧ vals.length = d * r then some (labs.zip (chunks r d vals)) else none
  | none => none

def showFrame (fr : List (String × List String)) : String :=
  " ".intercalate (fr.map fun c => "| " ++ c.1 ++ " " ++ toString c.2.length ++ " " ++ " ".intercalate c.2)

def gs (ws : List String) : String :=
  match ws with
  | "fit" :: d :: r :: rest =>
    match d.toNat?, r.toNat? with
    | some d, some r =>
      match parseTable d r rest with
      | some X =>
        let m : Fitted String Float := fitColumns X
        "ok " ++ " ".intercalate ((m.columns.zip m.univariates).map fun p => p.1 ++ " " ++ showUni p.2)
      | none => "bad-op"
    | _, _ => "bad-op"
  | "sample" :: n :: d :: r :: rest =>
    match n.toNat?, d.toNat?, r.toNat? with
    | some n, some d, some r =>
      match parseTable d r rest with
      | some X =>
        let m : Fitted String String := (fitColumns X).map fun c => "C" ++ showFloat c
        "ok mvn " ++ toString m.columns.length ++ " " ++ toString n ++ " " ++ showFrame (sample symExt m n)
      | none => "bad-op"
    | _, _, _ => "bad-op"
  | "kendall" :: m :: rest =>
    match m.toNat?, parseFloats rest with
    | some m, some vals =>
      if vals.length = 2 * m then
        let l := pairs vals
        let c := counts l
        let tau : Option Float := tauB l.length c
        "ok " ++ toString c.conc ++ " " ++ toString c.disc ++ " " ++ toString c.tieX ++ " "
          ++ toString c.tieY ++ " " ++ toString c.tieXY ++ " "
          ++ (match tau with | some t => showFloat t | none => "nan")
      else "bad-op"
    | _, _ => "bad-op"
  | _ => "bad-op"

end CopVerif.Driver.GaussSampleD

namespace CopVerif.Driver
/-- entry point (`gs …` requests). -/
def gaussSample (ws : List String) : String := GaussSampleD.gs ws
end CopVerif.Driver
