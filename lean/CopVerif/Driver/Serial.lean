import CopVerif.Base.FloatIO
import CopVerif.Gen.Serial
/-!
Driver commands for property C14 (serialisation).  One request line → one reply line.

Wire format of a value `V` (prefix notation, blank-separated tokens):
`f<16 hex>` float bits · `i<decimal>` int · `s<hex of utf-8>` string · `T` `F` bool · `N` None ·
`L<n>` + n values · `D<n>` + n × (`s<hex>` key, value) · `S<n>` + n values (set) ·
`O<hex cls>:<hex repr>` an object JSON cannot encode (Enum member, pandas Index, numpy integer).

* `json <V>`                 → `ok <V>` (`json.loads(json.dumps(v))`) | `err` (not JSON-able)
* `uni <V>`                  `Univariate.from_dict` → `ok <class> <C|-> <constant V> <to_dict V>` | `err`
* `biv <V>`                  `Bivariate.from_dict` → `ok <class> <to_dict V>` | `err`
* `multi <V>`                `Multivariate.from_dict` → `ok <gauss|vine> <fresh:0|1> <to_dict V>` | `err`
                             (`fresh` = 1 iff no parent object of any edge is an edge object of a tree)
* `gauss <V>` / `vine <V>`   `GaussianMultivariate.from_dict` / `VineCopula.from_dict`, same reply
* `trip <u|b|g|v|m> <n> <V>`     `n` further round trips after `from_dict` → `ok <to_dict V>` | `err`
* `keys <biv|gauss|vinehead|vine|treehead|tree|edge>` → `ok <key>*` (generated tables)
* `fam <qualified name>`     → `ok <name> <fit keys ,> <fit_constant keys ,> <usesModel> <rebuilds> <model opts ,> <ctor opts ,> <constCheck>` | `err`
* `fams`                     → `ok <qualified name>*`
* `constfit <qual> <c> <n> <V fit dict>` → `ok <V>`  the `_params` the model predicts after a constant fit
* `bivclasses`               → `ok <Class=MEMBER>*`
-/
namespace CopVerif.Driver
open CopVerif CopVerif.IO CopVerif.Model.Serial

namespace SerialIO

def hexOfNat (n : Nat) (width : Nat) : String :=
  let ds := Nat.toDigits 16 n
  String.ofList (List.replicate (width - ds.length) '0' ++ ds)

def hexOfString (s : String) : String :=
  String.join (s.toUTF8.toList.map fun b => hexOfNat b.toNat 2)

def bytesOfHex : List Char → Option (List UInt8)
  | [] => some []
  | a :: b :: r => do
      let x ← hexDigit a
      let y ← hexDigit b
      let rest ← bytesOfHex r
      some (UInt8.ofNat (x * 16 + y) :: rest)
  | _ => none

def stringOfHex (h : String) : Option String := do
  let bs ← bytesOfHex h.toList
  String.fromUTF8? (ByteArray.mk bs.toArray)

def showNum : Num → String
  | .f b => "f" ++ hexOfNat b 16
  | .i n => "i" ++ toString n

mutual
partial def showV : V → List String
  | .num t => [showNum t]
  | .str s => ["s" ++ hexOfString s]
  | .bool true => ["T"]
  | .bool false => ["F"]
  | .none => ["N"]
  | .list xs => ("L" ++ toString xs.length) :: (xs.map showV).flatten
  | .dict kvs => ("D" ++ toString kvs.length) :: (kvs.map fun kv => ("s" ++ hexOfString kv.1) :: showV kv.2).flatten
  | .obj c r => ["O" ++ hexOfString c ++ ":" ++ hexOfString r]
  | .set xs => ("S" ++ toString xs.length) :: (xs.map showV).flatten
end

def render (v : V) : String := " ".intercalate (showV v)

mutual
partial def parseVal (ws : List String) : Option (V × List String) :=
  match ws with
  | [] => none
  | w :: rest =>
    match w.toList with
    | 'f' :: h => (parseHex (String.ofList h)).map fun n => (V.num (.f n), rest)
    | 'i' :: d => (String.ofList d).toInt?.map fun n => (V.num (.i n), rest)
    | 's' :: h => (stringOfHex (String.ofList h)).map fun s => (V.str s, rest)
    | ['T'] => some (V.bool true, rest)
    | ['F'] => some (V.bool false, rest)
    | ['N'] => some (V.none, rest)
    | 'L' :: d => do
        let n ← (String.ofList d).toNat?
        let (xs, r) ← parseVals n rest
        some (V.list xs, r)
    | 'S' :: d => do
        let n ← (String.ofList d).toNat?
        let (xs, r) ← parseVals n rest
        some (V.set xs, r)
    | 'D' :: d => do
        let n ← (String.ofList d).toNat?
        let (kvs, r) ← parseMembers n rest
        some (V.dict kvs, r)
    | 'O' :: body =>
        match (String.ofList body).splitOn ":" with
        | [c, r] => do
            let c ← stringOfHex c
            let r ← stringOfHex r
            some (V.obj c r, rest)
        | _ => none
    | _ => none
partial def parseVals (n : Nat) (ws : List String) : Option (List V × List String) :=
  match n with
  | 0 => some ([], ws)
  | n+1 => do
      let (v, r) ← parseVal ws
      let (vs, r') ← parseVals n r
      some (v :: vs, r')
partial def parseMembers (n : Nat) (ws : List String) : Option (List (String × V) × List String) :=
  match n with
  | 0 => some ([], ws)
  | n+1 => do
      let (k, r) ← parseVal ws
      match k with
      | .str key => do
          let (v, r') ← parseVal r
          let (kvs, r'') ← parseMembers n r'
          some ((key, v) :: kvs, r'')
      | _ => none
end

def parseWhole (ws : List String) : Option V :=
  match parseVal ws with
  | some (v, []) => some v
  | _ => none

end SerialIO

open SerialIO

def serialTables : Tables :=
  { fams := Gen.Serial.families, biv := Gen.Serial.bivTable, upper := String.toUpper,
    multiInstantiates := Gen.Serial.multiDispatchInstantiates, gaussNoArg := Gen.Serial.gaussCtorNoArgs, vineNoArg := Gen.Serial.vineCtorNoArgs }

def commaList (xs : List String) : String := if xs.isEmpty then "-" else ",".intercalate xs

def freshParents (s : Vine) : Bool :=
  let tops := (s.trees.map fun t => t.edges.map Edge.oid).flatten
  s.trees.all fun t => t.edges.all fun e => e.parents.all fun p => !(tops.contains p.oid)

def showModelDict (m : Model) : String :=
  match m.toDict serialTables with
  | some d => SerialIO.render d
  | none => "-"

def serialRest (ws : List String) : String :=
  match ws with
  | "trip" :: e :: n :: rest =>
      match parseWhole rest, n.toNat?, (match e with
          | "u" => some Entry.univariate | "b" => some Entry.bivariate | "m" => some Entry.multivariate
          | "g" => some Entry.gaussian | "v" => some Entry.vine
          | _ => none) with
      | some v, some n, some e =>
          match (fromDict serialTables e v).bind (tripN serialTables n) with
          | some m => "ok " ++ showModelDict m
          | none => "err"
      | _, _, _ => "bad-value"
  | ["keys", which] =>
      let ks : Option (List String) := match which with
        | "biv" => some (Gen.Serial.bivariateTo.map (·.1))
        | "gauss" => some (Gen.Serial.gaussianTo.map (·.1))
        | "vinehead" => some (Gen.Serial.vineHeadTo.map (·.1))
        | "vine" => some ((Gen.Serial.vineHeadTo ++ Gen.Serial.vineRestTo).map (·.1))
        | "treehead" => some (Gen.Serial.treeHeadTo.map (·.1))
        | "tree" => some ((Gen.Serial.treeHeadTo ++ Gen.Serial.treeRestTo).map (·.1))
        | "edge" => some (Gen.Serial.edgeTo.map (·.1))
        | _ => none
      match ks with
      | some ks => "ok " ++ " ".intercalate ks
      | none => "bad-op"
  | ["fams"] => "ok " ++ " ".intercalate (Gen.Serial.families.map (·.qual))
  | ["bivclasses"] => "ok " ++ " ".intercalate (Gen.Serial.bivClasses.map fun c => c.1 ++ "=" ++ c.2)
  | ["fam", q] =>
      match findFamily Gen.Serial.families q with
      | some F =>
          let b (x : Bool) := if x then "1" else "0"
          s!"ok {F.name} {commaList F.fitKeys} {commaList (F.fitConstant.map (·.1))} {b F.usesModel} {b F.rebuildsModel} {commaList F.modelOptions} {commaList F.ctorOptions} {b (constCheck F)}"
      | none => "err"
  | "constfit" :: q :: c :: n :: rest =>
      match findFamily Gen.Serial.families q, parseVal [c], n.toNat?, parseWhole rest with
      | some F, some (.num c, []), some n, some (.dict fit) =>
          "ok " ++ SerialIO.render (.dict (fitConstantParams F c n fit))
      | _, _, _, _ => "bad-value"
  | _ => "bad-op"


def serial (ws : List String) : String :=
  match ws with
  | "json" :: rest =>
      match parseWhole rest with
      | some v =>
          match jsonThrough v with
          | some v' => "ok " ++ SerialIO.render v'
          | none => "err"
      | none => "bad-value"
  | "uni" :: rest =>
      match parseWhole rest with
      | some v =>
          match uniFromDict serialTables.fams v with
          | some u =>
              let c := match u.constant with
                | some c => "C " ++ SerialIO.render c
                | none => "- N"
              s!"ok {u.fam.name} {c} {showModelDict (.uni u)}"
          | none => "err"
      | none => "bad-value"
  | "biv" :: rest =>
      match parseWhole rest with
      | some v =>
          match bivFromDict serialTables.upper serialTables.biv v with
          | some b => s!"ok {b.cls} {showModelDict (.biv b)}"
          | none => "err"
      | none => "bad-value"
  | which :: rest =>
    if which == "multi" || which == "gauss" || which == "vine" then
      match parseWhole rest with
      | some v =>
          let e := if which == "multi" then Entry.multivariate else if which == "gauss" then Entry.gaussian else Entry.vine
          match fromDict serialTables e v with
          | some (.gauss g) => s!"ok gauss 1 {showModelDict (.gauss g)}"
          | some (.vine s) => s!"ok vine {if freshParents s then 1 else 0} {showModelDict (.vine s)}"
          | _ => "err"
      | none => "bad-value"
    else serialRest ws
  | [] => "bad-op"

end CopVerif.Driver
