import CopVerif.Base.FloatIO
import CopVerif.Model.GaussCond
import CopVerif.Gen.GaussCond
/-!
  Driver command for the C12 model (`CopVerif.Model.GaussCond`) evaluated at `Float`.

  request (one line, floats as 16-hex-digit bit patterns):
  ```
  cond <str|int> <caller|walked> <truth|notnone> <dict|series>
       <d> <d labels: training columns in order> <d·d entries of self.correlation, row after row>
       <k> <k keys: the caller's order> <k values: the caller's original values>
       <d·k scores: for training column i and caller item j the REAL Φ⁻¹(clip(F_i(value_j)))>
       <n> <m> <n·m recorded draws, row after row, columns in the order of the SORTED draw labels>
  ```
  `score c x` is looked up in the score table by the label `c` and by the position of the value
  `x` among the caller's values (bit equality), so pairing a column with another key's value shows.
  `np.linalg.inv` is `gaussJordan`, the `Index.difference` order is `≤` on `String` / `Int`,
  `np.random.multivariate_normal` returns the recorded draws, `ppf` and `Φ` are the identity (the
  harness applies the real ones to the returned pre-images).

  reply: `err <kind>` or
  ```
  ok nc <k'> <k' labels> <k' scores>  c1 <m'> <m' labels>  mean <m' floats>  cov <m'·m' floats>
     out <d> { <label> <F|D> <len> <len floats> }
  ```
  `F` = conditioned column (`replicate n value`), `D` = the draw column selected BY LABEL (pre-ppf).

  Variant tokens `gen gen`: the same request is answered from the definitions GENERATED from the source
  (`CopVerif.Gen.GaussCond`: `conditionalArg`, `samplerArgs`, `sample`) instead of the hand model — translation
  validation of `tools/gen_gausscond.py` (tag `F` = the label is a condition key).
-/
namespace CopVerif.Driver.GaussCondD
open CopVerif CopVerif.IO CopVerif.Model.GaussCond

/-- split a flat list into rows of `n` values. -/
def chunk (n : Nat) : Nat → List Float → List (List Float)
  | 0, _ => []
  | k + 1, xs => xs.take n :: chunk n k (xs.drop n)

def bitEq (a b : Float) : Bool := a.toBits == b.toBits

structure Req (ι : Type) where
  v : Variant
  useGen : Bool
  kind : Container
  cols : List ι
  sigma : List (List Float)
  keys : List ι
  values : List Float
  scoreTab : List (List Float)
  n : Nat
  draws : List (List Float)

def parseReq {ι : Type} (lab : String → Option ι) (ws : List String) : Option (Req ι) := do
  let (ls, ws) ← ws.head?.map fun h => (h, ws.drop 1)
  let lb ← match ls with | "caller" => some Labelling.callerOrder | "walked" => some .walked | "gen" => some .walked | _ => none
  let (ts, ws) ← ws.head?.map fun h => (h, ws.drop 1)
  let tt ← match ts with | "truth" => some TruthTest.truthValue | "notnone" => some .isNotNone | "gen" => some .isNotNone | _ => none
  let v : Variant := ⟨lb, tt⟩
  let (ks, ws) ← ws.head?.map fun h => (h, ws.drop 1)
  let kind ← match ks with | "dict" => some Container.dict | "series" => some .series | _ => none
  let d ← ws.head? >>= parseNat
  let ws := ws.drop 1
  let cols ← (ws.take d).mapM lab
  let ws := ws.drop d
  let sig ← parseFloats (ws.take (d * d))
  let ws := ws.drop (d * d)
  let k ← ws.head? >>= parseNat
  let ws := ws.drop 1
  let keys ← (ws.take k).mapM lab
  let ws := ws.drop k
  let values ← parseFloats (ws.take k)
  let ws := ws.drop k
  let tab ← parseFloats (ws.take (d * k))
  let ws := ws.drop (d * k)
  let n ← ws.head? >>= parseNat
  let m ← (ws.drop 1).head? >>= parseNat
  let ws := ws.drop 2
  let dr ← parseFloats ws
  if cols.length != d || sig.length != d * d || keys.length != k || values.length != k
      || tab.length != d * k || dr.length != n * m then none
  else some { v := v, useGen := ls == "gen" || ts == "gen", kind := kind, cols := cols, sigma := chunk d d sig, keys := keys, values := values,
              scoreTab := chunk k d tab, n := n, draws := chunk m n dr }

def run {ι : Type} [DecidableEq ι] (shw : ι → String) (le : ι → ι → Bool) (r : Req ι) : String :=
  let score : ι → Float → Float := fun c x =>
    (r.scoreTab.getD (r.cols.idxOf c) []).getD (r.values.findIdx (bitEq x)) (0.0 / 0.0)
  let S : Corr ι Float := { labels := r.cols, data := r.sigma }
  let c : Conditions ι Float := { kind := r.kind, items := r.keys.zip r.values }
  let labs (ls : List ι) : String := " ".intercalate (ls.map shw)
  if r.useGen then
    let inv : List (List Float) → List (List Float) := fun A => gaussJordan A.length A
    match Gen.GaussCond.conditionalArg score S c with
    | .error e => "err " ++ toString e
    | .ok nc =>
      match Gen.GaussCond.sample inv le score (fun _ z => z) (fun z => z) (fun _ _ _ => r.draws) S r.n (some c) with
      | .error e => "err " ++ toString e
      | .ok out =>
        match Gen.GaussCond.samplerArgs inv le score S (some c) with
        | .error e => "err " ++ toString e
        | .ok d =>
          let outS := out.map fun q =>
            let t := if c.keys.contains q.1 then "F" else "D"
            s!"{shw q.1} {t} {q.2.length} {showFloats q.2}"
          s!"ok nc {nc.length} {labs (nc.map Prod.fst)} {showFloats (nc.map Prod.snd)} " ++
          s!"c1 {d.columns.length} {labs d.columns} mean {showFloats d.mean} " ++
          s!"cov {showFloats d.cov.flatten} out {out.length} " ++ " ".intercalate outS
  else
  match normalConditions r.v r.cols score c with
  | .error e => "err " ++ toString e
  | .ok nc =>
    match samplePlan r.v (fun A => gaussJordan A.length A) le score S c with
    | .error e => "err " ++ toString e
    | .ok p =>
      let out := evalPlan r.n (fun _ z => z) (fun z => z) p r.draws
      let tags := p.cols.map fun q => match q.2 with | .fixed _ => "F" | .draw _ => "D"
      let outS := (out.zip tags).map fun (q, t) =>
        s!"{shw q.1} {t} {q.2.length} {showFloats q.2}"
      s!"ok nc {nc.length} {labs (nc.map Prod.fst)} {showFloats (nc.map Prod.snd)} " ++
      s!"c1 {p.dist.columns.length} {labs p.dist.columns} mean {showFloats p.dist.mean} " ++
      s!"cov {showFloats p.dist.cov.flatten} out {out.length} " ++ " ".intercalate outS

end GaussCondD

open GaussCondD in
def gaussCond (ws : List String) : String :=
  match ws with
  | "str" :: rest =>
    match parseReq (ι := String) some rest with
    | some r => run id (fun a b => decide (a ≤ b)) r
    | none => "bad-op"
  | "int" :: rest =>
    match parseReq (ι := Int) String.toInt? rest with
    | some r => run toString (fun a b => decide (a ≤ b)) r
    | none => "bad-op"
  | _ => "bad-op"

end CopVerif.Driver
