import CopVerif.Base.FloatIO
import CopVerif.Gen.Estimators
import CopVerif.Model.KDE
/-!
  Driver commands for property C04: the generated estimator terms (`CopVerif.Gen.Estimators`) and the
  hand-written kernel estimate (`CopVerif.Model.gaussianKde`) evaluated at `Float`.
  Floats cross as 16-hex-digit bit patterns; an optional float is a hex word or `none`.

  * `closed <gaussian|uniform> <fit|const> xs…`      → `ok <loc> <scale>`
  * `mle <beta|gamma|studentT|logLaplace> map`        → `ok dist=<s> model=<s> arity=<k> <key>:<pos> …`
  * `mle <fam> init xs…`                              → `ok <loc|none> <scale|none>`
  * `mle <fam> const xs…`                             → `ok callsfit=<true|false> <key>:<hex> …`
  * `trunc setup <umin|none> <umax|none> xs…`         → `ok mn mx loc0 scale0 b0lo b0hi b1lo b1hi`
  * `trunc params mn mx loc scale`                    → `ok a b loc scale  oa ob oloc oscale` (stored dict,
                                                         then the tuple the objective passes to truncnorm.nnlf)
  * `trunc const xs…`                                 → `ok a b loc scale`
  * `kde plan <none|n>`                               → `ok dataset=<term> model=<term> getmodel=<term> ss=<k>`
        terms over the symbols gk(dataset,bw,weights) / resample(model,n) with X, BW, W, DATASET, None
  * `kde const <none|n> xs…`                          → `ok <dataset…>`
  * `kde model <none|scott|silverman|scalar> <bwval> <n> <nw> <m> xs(n) ws(nw) pts(m)`
        → `ok factor covariance neff h <n weights> <m densities>`; the model is built through the generated
          forwarding `Gen.Estimators.kdeGetModel` applied to `Model.gaussianKde`
-/
namespace CopVerif.Driver.Est
open CopVerif CopVerif.IO CopVerif.Gen.Estimators CopVerif.Model

def optF (s : String) : Option (Option Float) :=
  if s == "none" then some none else (parseFloat s).map some

def optN (s : String) : Option (Option Nat) :=
  if s == "none" then some none else (parseNat s).map some

def showOpt : Option Float → String
  | some x => showFloat x
  | none => "none"

def showAssoc (kv : List (String × Float)) : String :=
  " ".intercalate (kv.map fun p => p.1 ++ ":" ++ showFloat p.2)

def showMap (kv : List (String × Nat)) : String :=
  " ".intercalate (kv.map fun p => p.1 ++ ":" ++ toString p.2)

def closedCmd (fam what : String) (xs : List Float) : String :=
  let r : Option (LocScale Float) := match fam, what with
    | "gaussian", "fit" => some (gaussianFit xs)
    | "gaussian", "const" => some (gaussianFitConstant xs)
    | "uniform", "fit" => some (uniformFit xs)
    | "uniform", "const" => some (uniformFitConstant xs)
    | _, _ => none
  match r with
  | some p => "ok " ++ showFloats [p.loc, p.scale]
  | none => "bad-op"

def mleMap (fam : String) : String :=
  match fam with
  | "beta" => s!"ok dist={betaFitDist} model={betaModelClass} arity={betaTupleArity} {showMap betaParamMap}"
  | "gamma" => s!"ok dist={gammaFitDist} model={gammaModelClass} arity={gammaTupleArity} {showMap gammaParamMap}"
  | "studentT" =>
    s!"ok dist={studentTFitDist} model={studentTModelClass} arity={studentTTupleArity} {showMap studentTParamMap}"
  | "logLaplace" =>
    s!"ok dist={logLaplaceFitDist} model={logLaplaceModelClass} arity={logLaplaceTupleArity} {showMap logLaplaceParamMap}"
  | _ => "bad-op"

def mleInit (fam : String) (xs : List Float) : String :=
  let r : Option (FitInit Float) := match fam with
    | "beta" => some (betaFitInit xs)
    | "gamma" => some (gammaFitInit xs)
    | "studentT" => some (studentTFitInit xs)
    | "logLaplace" => some (logLaplaceFitInit xs)
    | _ => none
  match r with
  | some i => s!"ok {showOpt i.loc} {showOpt i.scale}"
  | none => "bad-op"

def mleConst (fam : String) (xs : List Float) : String :=
  match fam with
  | "beta" => s!"ok callsfit={betaFitConstantCallsFit} {showAssoc (betaFitConstant xs)}"
  | "gamma" => s!"ok callsfit={gammaFitConstantCallsFit} {showAssoc (gammaFitConstant xs)}"
  | "studentT" => s!"ok callsfit={studentTFitConstantCallsFit} {showAssoc (studentTFitConstantOverrides xs)}"
  | "logLaplace" => s!"ok callsfit={logLaplaceFitConstantCallsFit} {showAssoc (logLaplaceFitConstant xs)}"
  | _ => "bad-op"

def showTrunc (p : TruncParams Float) : String := showFloats [p.a, p.b, p.loc, p.scale]

def truncCmd (ws : List String) : String :=
  match ws with
  | "setup" :: umin :: umax :: rest =>
    match optF umin, optF umax, parseFloats rest with
    | some umin, some umax, some xs =>
      let mn := truncMin umin xs
      let mx := truncMax umax xs
      let i := truncInitialParams xs
      let b := truncBounds mn mx
      "ok " ++ showFloats ([mn, mx, i.1, i.2] ++ (b.map fun p => [p.1, p.2]).flatten)
    | _, _, _ => "bad-op"
  | "params" :: rest =>
    match parseFloats rest with
    | some [mn, mx, loc, scale] =>
      "ok " ++ showTrunc (truncParams mn mx (loc, scale)) ++ " " ++ showTrunc (truncObjectiveArgs mn mx (loc, scale))
    | _ => "bad-op"
  | "const" :: rest =>
    match parseFloats rest with
    | some xs => "ok " ++ showTrunc (truncFitConstant xs)
    | none => "bad-op"
  | _ => "bad-op"

/-! plan terms: the generated forwarding interpreted over strings -/
def gkSym (d : String) (bw w : Option String) : String :=
  s!"gk({d},{bw.getD "None"},{w.getD "None"})"
def resampleSym (k : String) (n : Nat) : String := s!"resample({k},{n})"

def parseBw (kind : String) (v : Float) : Option (Option (BwMethod Float)) :=
  match kind with
  | "none" => some none
  | "scott" => some (some .scott)
  | "silverman" => some (some .silverman)
  | "scalar" => some (some (.scalar v))
  | _ => none

def kdeCmd (ws : List String) : String :=
  match ws with
  | ["plan", ss] =>
    match optN ss with
    | some ss =>
      let r := kdeFit gkSym resampleSym ss (some "BW") (some "W") "X"
      let g := kdeGetModel gkSym "DATASET" (some "BW") (some "W")
      s!"ok dataset={r.1} model={r.2} getmodel={g} ss={kdeGetModelSampleSize ss 7}"
    | none => "bad-op"
  | "const" :: ss :: rest =>
    match optN ss, parseFloats rest with
    | some ss, some xs => "ok " ++ showFloats (kdeFitConstant ss xs)
    | _, _ => "bad-op"
  | "model" :: kind :: bwv :: n :: nw :: m :: rest =>
    match parseFloat bwv, parseNat n, parseNat nw, parseNat m, parseFloats rest with
    | some bwv, some n, some nw, some m, some vals =>
      if vals.length != n + nw + m then "bad-shape" else
      match parseBw kind bwv with
      | none => "bad-op"
      | some bw =>
        let xs := vals.take n
        let w : Option (List Float) := if nw == 0 then none else some ((vals.drop n).take nw)
        let pts := vals.drop (n + nw)
        let k := kdeGetModel Model.gaussianKde xs bw w
        "ok " ++ showFloats ([k.factor, k.covariance, k.neff, k.h] ++ k.weights ++ pts.map k.pdf)
    | _, _, _, _, _ => "bad-op"
  | _ => "bad-op"

end CopVerif.Driver.Est

namespace CopVerif.Driver
open CopVerif.IO CopVerif.Driver.Est

def estimators (ws : List String) : String :=
  match ws with
  | "closed" :: fam :: what :: rest =>
    match parseFloats rest with
    | some xs => closedCmd fam what xs
    | none => "bad-op"
  | ["mle", fam, "map"] => mleMap fam
  | "mle" :: fam :: "init" :: rest =>
    match parseFloats rest with
    | some xs => mleInit fam xs
    | none => "bad-op"
  | "mle" :: fam :: "const" :: rest =>
    match parseFloats rest with
    | some xs => mleConst fam xs
    | none => "bad-op"
  | "trunc" :: rest => truncCmd rest
  | "kde" :: rest => kdeCmd rest
  | _ => "bad-op"

end CopVerif.Driver
