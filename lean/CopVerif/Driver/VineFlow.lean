import CopVerif.Base.FloatIO
import CopVerif.Model.VineFlow
/-!
  Driver commands for the vine data-flow model (property C17).

  `TREES = <m> (<ne> (<index> <L> <R> <nD> D* <p0|_> <p1|_>)*ne)*m` — the structure extracted from a
  real fitted vine (parents as positions in the previous tree).

  * `fit TREES` → `ok <m> (<ne> (SRC SRC)*)*` with `SRC = c<j>` (`u_matrix[:, j]`) or
    `u<parent>.<side>` (`prev.edges[parent].U[side]`), or `err <Fail>`.
  * `need TREES` → `ok <m> (<ne> (<flowOK 0|1> <sortedOK 0|1> NEED NEED)*)*`: per edge whether the silent
    hypothesis holds, whether the parents are in `sort_edge` order, and the slots a correct vine needs (`c<j>`, `u<parent>.<side>`, `?`).
  * `lik TREES` → `ok <m> (<ne> (READ READ)*)*` with `READ = i<col>` (input column) |
    `w<row>.<col>` (cell written by the previous tree) | `x<row>.<col>` (never written: ⊥), or
    `err <Fail>`.
  * `spec TREES` → `ok <m> (<ne> (TERM TERM)*)*` | `none`: the specification's h-propagated
    arguments, `TERM` in prefix form `u<j>` | `h <k> <i> TERM TERM` | `junk`.
  * `good TREES` → `ok <0|1>` (`goodVine`).
  * `fix01 <eps> x*` → `ok y*` (`fix01` at Float; 16-hex-digit bit patterns).
  * `sample <d> <trunc> <first> TREES` → `ok <nv> (<current> <given|_> <ns> (<tree> <edge> <fresh>)*)*`
    or `err <Fail>`.
  * `rooted <d> <first> TREES` → `ok <0|1>`: the first tree passes `rootedOK` with the parents found
    by `bfsRoot`.
-/
namespace CopVerif.Driver.VineFlow
open CopVerif CopVerif.IO CopVerif.Model.VineFlow

abbrev P := StateT (List String) Option

def tok : P String := fun s => match s with | [] => none | w :: ws => some (w, ws)
def nat : P Nat := do let w ← tok; match w.toNat? with | some n => pure n | none => failure
def flt : P Float := do let w ← tok; match parseFloat w with | some x => pure x | none => failure
def optNat : P (Option Nat) := do
  let w ← tok
  if w == "_" then pure none else match w.toNat? with | some n => pure (some n) | none => failure

def rep {β : Type} (p : P β) : Nat → P (List β)
  | 0 => pure []
  | n + 1 => do let x ← p; let xs ← rep p n; pure (x :: xs)

def rest : P (List String) := fun s => some (s, [])

def edge : P Edge := do
  let idx ← nat
  let l ← nat
  let r ← nat
  let nD ← nat
  let D ← rep nat nD
  let p0 ← optNat
  let p1 ← optNat
  match p0, p1 with
  | some a, some b => pure { index := idx, L := l, R := r, D := D, parents := some (a, b) }
  | _, _ => pure { index := idx, L := l, R := r, D := D, parents := none }

def tree : P Tree := do let ne ← nat; rep edge ne
def trees : P (List Tree) := do let m ← nat; rep tree m

def run {β : Type} (p : P β) (ws : List String) (k : β → String) : String :=
  match p ws with
  | some (x, []) => k x
  | some (_, _) => "bad-op trailing"
  | none => "bad-op parse"

def b01 (b : Bool) : String := if b then "1" else "0"

def showSrc : Src → String
  | .col j => s!"c{j}"
  | .uof p s => s!"u{p}.{s}"

def showNeed : Option Src → String
  | some s => showSrc s
  | none => "?"

def showRead : ReadSrc → String
  | .input c => s!"i{c}"
  | .cell r c true => s!"w{r}.{c}"
  | .cell r c false => s!"x{r}.{c}"

def showTerm : Term → String
  | .u j => s!"u{j}"
  | .junk _ _ _ => "junk"
  | .h k i a b => s!"h {k} {i} {showTerm a} {showTerm b}"

def levels {β : Type} (f : β → String) (ls : List (List β)) : String :=
  " ".intercalate (toString ls.length :: ls.map fun l =>
    " ".intercalate (toString l.length :: l.map f))

/-- per edge: `flowOK` and the needed slots (first tree: the columns). -/
def needLevel (first : Bool) (prev : Tree) (t : Tree) : List String :=
  t.map fun e =>
    if first then s!"1 1 c{e.L} c{e.R}"
    else match e.parents with
      | some (i0, i1) =>
        match prev[i0]?, prev[i1]? with
        | some p0, some p1 =>
          s!"{b01 (flowOK e p0 p1)} {b01 (sortedOK p0 p1)} {showNeed (needSlot p0 p1 i0 i1 e.L)} {showNeed (needSlot p0 p1 i0 i1 e.R)}"
        | _, _ => "0 0 ? ?"
      | none => "0 0 ? ?"

def needAll : Bool → Tree → List Tree → List (List String)
  | _, _, [] => []
  | first, prev, t :: ts => needLevel first prev t :: needAll false t ts

def showVisit (v : Visit) : String :=
  let g := match v.given with | some x => toString x | none => "_"
  let ss := v.steps.map fun s => s!"{s.tree} {s.edge} {b01 s.fresh}"
  " ".intercalate ([toString v.current, g, toString v.steps.length] ++ ss)

def flow (ws : List String) : String :=
  match ws with
  | "fit" :: r =>
    run trees r fun ts =>
      match fitPlan ts with
      | .ok plan => "ok " ++ levels (fun (e : EdgePlan) => showSrc e.left ++ " " ++ showSrc e.right) plan
      | .error e => "err " ++ e.toString
  | "need" :: r =>
    run trees r fun ts => "ok " ++ levels id (needAll true [] ts)
  | "lik" :: r =>
    run trees r fun ts =>
      match likPlan ts with
      | .ok plan => "ok " ++ levels (fun (e : LikEdge) => showRead e.lsrc ++ " " ++ showRead e.rsrc) plan
      | .error e => "err " ++ e.toString
  | "spec" :: r =>
    run trees r fun ts =>
      match specArgs ts with
      | some args => "ok " ++ levels (fun (a : Term × Term) => showTerm a.1 ++ " " ++ showTerm a.2) args
      | none => "none"
  | "good" :: r => run trees r fun ts => "ok " ++ b01 (goodVine ts)
  | "fix01" :: r =>
    run (do let e ← flt; let ws ← rest; pure (e, ws)) r fun (e, ws) =>
      match parseFloats ws with
      | some xs => "ok " ++ showFloats (xs.map (fix01 e))
      | none => "bad-op parse"
  | "sample" :: r =>
    run (do let d ← nat; let tr ← nat; let f ← nat; let ts ← trees; pure (d, tr, f, ts)) r
      fun (d, tr, f, ts) =>
        match sampleRow ts d tr f with
        | .ok vs => " ".intercalate ("ok" :: toString vs.length :: vs.map showVisit)
        | .error e => "err " ++ e.toString
  | "rooted" :: r =>
    run (do let d ← nat; let f ← nat; let ts ← trees; pure (d, f, ts)) r fun (d, f, ts) =>
      match ts with
      | [] => "ok 0"
      | t :: _ =>
        let pd := bfsRoot t d f
        "ok " ++ b01 (rootedOK t d f pd.1 pd.2)
  | _ => "bad-op"

end CopVerif.Driver.VineFlow
