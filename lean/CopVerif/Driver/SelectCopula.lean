import CopVerif.Base.FloatIO
import CopVerif.Model.SelectCopula
/-! Driver commands for the `select_copula` model (C11) evaluated at `Float`.

    selcop grid <eps>                                   -> ok <lo> <hi> <n>
    selcop emp <nb> <base…nb> <u v …>                   -> ok <mL> <mR> | zl… | L… | zr… | R…   | err <E>
    selcop cand <fam> <theta> <mL> <zl…mL> <zr…>        -> ok left… | right…                    | err <E>
    selcop decide <nc> <mL> <mR> <L…> <R…> (<left…mL> <right…mR>)×nc
                                                        -> ok dl… | dr… | db… | score… | <idx>
    selcop rank <n> <dl…n> <dr…n> <db…n>                -> ok score… | <idx>
    selcop select <uConst> <vConst> uMin uMax vMin vMax tau frankTheta inf <nb> <base…> <u v …>
        -> early <fam> <tau> <theta>
         | ranked <fam> <tau> <theta> | <idx> | <fam theta>… | dl… | dr… | db… | score…
         | err <E>
    floats are 16-hex-digit bit patterns; counts are decimal. -/
namespace CopVerif.Driver.SelectCopulaD
open CopVerif CopVerif.IO CopVerif.Model CopVerif.Model.SelectCopula

def nan : Float := 0.0 / 0.0

def famName : Family → String
  | .clayton => "clayton"
  | .frank => "frank"
  | .gumbel => "gumbel"

def parseFam : String → Option Family
  | "clayton" => some .clayton
  | "frank" => some .frank
  | "gumbel" => some .gumbel
  | _ => none

def showOpt : Option Float → Float
  | some x => x
  | none => nan

def showTheta (b : Bound Float) : String := showFloat (boundVal Float.inf b)

def showTriples (ts : List (Float × Float × Float)) : String :=
  showFloats (ts.map fun t => t.1) ++ " | " ++ showFloats (ts.map fun t => t.2.1) ++ " | " ++
    showFloats (ts.map fun t => t.2.2)

/-- split `xs` into consecutive chunks of the given sizes (none if too short). -/
def chunks : List Nat → List Float → Option (List (List Float) × List Float)
  | [], rest => some ([], rest)
  | n :: ns, xs =>
    if xs.length < n then none else
    match chunks ns (xs.drop n) with
    | some (cs, rest) => some (xs.take n :: cs, rest)
    | none => none

def selcop (ws : List String) : String :=
  match ws with
  | ["grid", e] =>
    match parseFloat e with
    | some eps => "ok " ++ showFloat (Gen.SelectCopula.gridLo eps) ++ " " ++
        showFloat (Gen.SelectCopula.gridHi eps) ++ " " ++ toString Gen.SelectCopula.gridN
    | none => "bad-op"
  | "emp" :: nb :: rest =>
    match parseNat nb, parseFloats rest with
    | some nb, some xs =>
      if xs.length < nb then "bad-op" else
      match computeEmpirical (xs.take nb) (pairs (xs.drop nb)) with
      | .ok e => s!"ok {e.zLeft.length} {e.zRight.length} | " ++ showFloats e.zLeft ++ " | " ++
          showFloats e.L ++ " | " ++ showFloats e.zRight ++ " | " ++ showFloats e.R
      | .error e => "err " ++ toString e
    | _, _ => "bad-op"
  | "cand" :: fam :: th :: ml :: rest =>
    match parseFam fam, parseFloat th, parseNat ml, parseFloats rest with
    | some fam, some θ, some ml, some zs =>
      if zs.length < ml then "bad-op" else
      match candCurves Float.inf (zs.take ml) (zs.drop ml) ⟨fam, 0.0, .fin θ⟩ with
      | .ok c => "ok " ++ showFloats c.left ++ " | " ++ showFloats c.right
      | .error e => "err " ++ toString e
    | _, _, _, _ => "bad-op"
  | "decide" :: nc :: ml :: mr :: rest =>
    match parseNat nc, parseNat ml, parseNat mr, parseFloats rest with
    | some nc, some ml, some mr, some xs =>
      match chunks (ml :: mr :: (List.replicate nc [ml, mr]).flatten) xs with
      | some (L :: R :: cs, []) =>
        let curves : List (Curves Float) := (pairs cs).map fun p => ⟨p.1, p.2⟩
        let ts := curves.map (distTriple L R)
        let sc := scores Gen.SelectCopula.rankAscending ts
        let idx := pickIdx Gen.SelectCopula.pickMax sc
        "ok " ++ showTriples ts ++ " | " ++ showFloats (sc.map showOpt) ++ s!" | {idx}"
      | _ => "bad-op"
    | _, _, _, _ => "bad-op"
  | "rank" :: n :: rest =>
    match parseNat n, parseFloats rest with
    | some n, some xs =>
      match chunks [n, n, n] xs with
      | some ([dl, dr, db], []) =>
        let ts := (dl.zip (dr.zip db))
        let sc := scores Gen.SelectCopula.rankAscending ts
        "ok " ++ showFloats (sc.map showOpt) ++ s!" | {pickIdx Gen.SelectCopula.pickMax sc}"
      | _ => "bad-op"
    | _, _ => "bad-op"
  | "select" :: uc :: vc :: rest =>
    match parseFloats (rest.take 7), (rest.drop 7) with
    | some [uMin, uMax, vMin, vMax, tau, frankθ, inf], nb :: rest2 =>
      match parseNat nb, parseFloats rest2 with
      | some nb, some xs =>
        if xs.length < nb then "bad-op" else
        let ext : Ext Float := { fitInput := { uMin, uMax, vMin, vMax, tau, uConst := uc == "1", vConst := vc == "1" },
                                 frankSolve := fun _ => frankθ, inf := inf }
        match selectOutcome ext (xs.take nb) (pairs (xs.drop nb)) with
        | .error e => "err " ++ toString e
        | .ok (.early c) => "early " ++ famName c.fam ++ " " ++ showFloat c.tau ++ " " ++ showTheta c.theta
        | .ok (.ranked t c) =>
          "ranked " ++ famName c.fam ++ " " ++ showFloat c.tau ++ " " ++ showTheta c.theta ++ s!" | {t.idx} | " ++
            " ".intercalate (t.cands.map fun c => famName c.fam ++ " " ++ showTheta c.theta) ++ " | " ++
            showTriples t.triples ++ " | " ++ showFloats (t.score.map showOpt)
      | _, _ => "bad-op"
    | _, _ => "bad-op"
  | _ => "bad-op"

end CopVerif.Driver.SelectCopulaD

/-- the driver entry point (guide: `def <topic> (ws : List String) : String`). -/
def CopVerif.Driver.selcop (ws : List String) : String := CopVerif.Driver.SelectCopulaD.selcop ws
