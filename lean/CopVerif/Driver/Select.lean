import CopVerif.Base.FloatIO
import CopVerif.Gen.Select
/-!
Driver commands for property C05 (marginal model choice).  One request line → one reply line.

* `sel <o>*`            candidate outcomes in order, `x` = raised, otherwise the KS statistic as a
                        16-hex-digit binary64 bit pattern (NaN / inf allowed).
                        → `ok <i>` | `none`   (`selectWith floatOrd Gen.cmp Gen.init`)
* `fit <o>*`            → `ok <i>` | `err Other`   (`univariateFit`)
* `acc <r> <o>*`        `r` = `none` or an index → `yes` | `no`   (`accepts`)
* `first <o>*`          → `ok <i>` | `none`   (`selectUnivariate`, strict `<` from `+inf`)
* `gentable`            → `ok <name|abc|P|B|base,base>*`   the generated table
* `gencands <p> <b>`    `p` ∈ `- 0 1`, `b` ∈ `- 0 1 2` → `ok <name>*` from the generated tree
                        (recursion) — `mismatch …` if the generated-table filter differs
* `cands <p> <b> <node>*` a class tree in preorder, node = `name|abc|P|B|nchildren`
                        → `ok <name>*` | `mismatch …` (recursion vs. filter of the traversal)
* `trav <node>*`        → `ok <name>*`
* `initc <k|-> <k names> <names>*`  explicit candidates (`-` = None) then the filtered list → `ok <name>*`
* `col <cfg> <col>`     cfg = `single <d>` | `dict <n> (<key> <d>)*` → `ok <d>` (default = generated)
* `gm <cfg> cols <n> (<col> <d> <inst> <fit> <gauss>)*`
                        per column: the reference `d` the oracles are for (any other reference makes
                        the column fail with `AssertionError`), `inst` = `ok` | `err:<Kind>`,
                        `fit` = `ok:<type>` | `err`, `gauss` = `ok:<type>` | `err:<Kind>`
                        → `ok <col>=<type>*` | `err <Kind>`   (`fitColumns`)
* `gmhist <cfg> fits <k> (cols <n> (<col> <d> <inst> <fit> <gauss>)*)*`
                        a history of `k` fits of ONE object, each frame with its own oracles
                        → `<r1> | … | <rk> | cfg <cfg>`  with `ri` as for `gm` and the final
                        configuration of the object   (`gmFitHistory`)
-/
namespace CopVerif.Driver
open CopVerif CopVerif.IO CopVerif.Model

def parseOutcome (s : String) : Option (Option (KS Float)) :=
  if s == "x" then some none else (parseFloat s).map fun f => some (KS.ofFloat f)

def parseOutcomes (ws : List String) : Option (List (Option (KS Float))) := ws.mapM parseOutcome

def showIdx : Option Nat → String
  | some i => "ok " ++ toString i
  | none => "none"

def parseP : String → Option (Option ParametricType)
  | "-" => some none
  | "0" => some (some .nonParametric)
  | "1" => some (some .parametric)
  | _ => none

def parseB : String → Option (Option BoundedType)
  | "-" => some none
  | "0" => some (some .unbounded)
  | "1" => some (some .semiBounded)
  | "2" => some (some .bounded)
  | _ => none

def showP : ParametricType → String
  | .nonParametric => "0"
  | .parametric => "1"

def showB : BoundedType → String
  | .unbounded => "0"
  | .semiBounded => "1"
  | .bounded => "2"

def showRow (r : ClassRow) : String :=
  "|".intercalate [r.name, if r.isABC then "1" else "0", showP r.parametric, showB r.bounded,
    ",".intercalate r.bases]

def mkRow (name abc p b : String) : Option ClassRow := do
  let p ← (← parseP p)
  let b ← (← parseB b)
  let abc ← (match abc with | "1" => some true | "0" => some false | _ => none)
  some { name := name, bases := [], isABC := abc, parametric := p, bounded := b }

mutual
partial def parseTree (ws : List String) : Option (ClassTree × List String) :=
  match ws with
  | tok :: rest =>
    match tok.splitOn "|" with
    | [name, abc, p, b, n] => do
      let row ← mkRow name abc p b
      let n ← n.toNat?
      let (subs, rest') ← parseForest n rest
      some (.node row subs, rest')
    | _ => none
  | [] => none
partial def parseForest (n : Nat) (ws : List String) : Option (List ClassTree × List String) :=
  match n with
  | 0 => some ([], ws)
  | n + 1 => do
    let (t, r) ← parseTree ws
    let (ts, r') ← parseForest n r
    some (t :: ts, r')
end

def names (rs : List ClassRow) : String := " ".intercalate ("ok" :: rs.map (·.name))

def candsReply (t : ClassTree) (table : List ClassRow) (p : Option ParametricType) (b : Option BoundedType) :
    String :=
  let viaTree := selectCandidatesTree p b t
  let viaTable := selectCandidates table p b
  if viaTree == viaTable then names viaTree
  else "mismatch tree=" ++ ",".intercalate (viaTree.map (·.name)) ++ " table=" ++ ",".intercalate (viaTable.map (·.name))

def parseErr : String → Err
  | "NotFittedError" => .notFitted
  | "ValueError" => .valueError
  | "TypeError" => .typeError
  | "AssertionError" => .assertion
  | _ => .other

/-- `ok` / `ok:<payload>` / `err` / `err:<Kind>` -/
def parseRes (s : String) : Option (Except Err String) :=
  match s.splitOn ":" with
  | ["ok"] => some (.ok "")
  | ["ok", x] => some (.ok x)
  | ["err"] => some (.error .other)
  | ["err", k] => some (.error (parseErr k))
  | _ => none

def parseCfg : List String → Option (DistConfig String String × List String)
  | "single" :: d :: rest => some (.single d, rest)
  | "dict" :: n :: rest => do
    let n ← n.toNat?
    let kv := rest.take (2 * n)
    if kv.length != 2 * n then none
    else some (.perColumn (pairs kv), rest.drop (2 * n))
  | _ => none

abbrev ColOracle := String × (String → Except Err String) × (String → Except Err String) × Except Err String

def parseCols : Nat → List String → Option (List ColOracle)
  | 0, [] => some []
  | 0, _ => none
  | n + 1, col :: d :: inst :: fit :: gauss :: rest => do
    let inst ← parseRes inst
    let fit ← parseRes fit
    let gauss ← parseRes gauss
    let more ← parseCols n rest
    -- an "instance" is the reference it was built from; only the reference `d` has oracles
    let getInstance : String → Except Err String := fun d' =>
      if d' == d then inst.map (fun _ => d') else .error .assertion
    let fitO : String → Except Err String := fun u => if u == d then fit else .error .assertion
    some ((col, getInstance, fitO, gauss) :: more)
  | _, _ => none

def showFit : Except Err (List (String × String)) → String
  | .ok ms => " ".intercalate ("ok" :: ms.map fun (c, m) => c ++ "=" ++ m)
  | .error e => "err " ++ toString e

def showCfg : DistConfig String String → String
  | .single d => "single " ++ d
  | .perColumn m => " ".intercalate ("dict" :: toString m.length :: m.flatMap fun (k, d) => [k, d])

/-- `k` frames `cols <n> …` -/
def parseFrames : Nat → List String → Option (List (List ColOracle))
  | 0, [] => some []
  | 0, _ => none
  | k + 1, "cols" :: n :: rest => do
    let n ← n.toNat?
    if rest.length < 5 * n then none
    else
      let frame ← parseCols n (rest.take (5 * n))
      let more ← parseFrames k (rest.drop (5 * n))
      some (frame :: more)
  | _, _ => none

def select (ws : List String) : String :=
  match ws with
  | "sel" :: rest =>
    match parseOutcomes rest with
    | some ks => showIdx (selectWith floatOrd Gen.Select.cmp Gen.Select.init ks)
    | none => "bad-op"
  | "first" :: rest =>
    match parseOutcomes rest with
    | some ks => showIdx (selectUnivariate floatOrd ks)
    | none => "bad-op"
  | "fit" :: rest =>
    match parseOutcomes rest with
    | some ks =>
      match univariateFit floatOrd Gen.Select.cmp Gen.Select.init ks with
      | .ok i => "ok " ++ toString i
      | .error e => "err " ++ toString e
    | none => "bad-op"
  | "acc" :: r :: rest =>
    match parseOutcomes rest, (if r == "none" then some none else r.toNat?.map some) with
    | some ks, some r => if accepts floatOrd ks r then "yes" else "no"
    | _, _ => "bad-op"
  | ["gentable"] => " ".intercalate ("ok" :: Gen.Select.table.map showRow)
  | ["gencands", p, b] =>
    match parseP p, parseB b with
    | some p, some b => candsReply Gen.Select.tree Gen.Select.table p b
    | _, _ => "bad-op"
  | "cands" :: p :: b :: rest =>
    match parseP p, parseB b, parseTree rest with
    | some p, some b, some (t, []) => candsReply t (traverse t) p b
    | _, _, _ => "bad-op"
  | "trav" :: rest =>
    match parseTree rest with
    | some (t, []) => names (traverse t)
    | _ => "bad-op"
  | "initc" :: k :: rest =>
    if k == "-" then " ".intercalate ("ok" :: initCandidates none rest)
    else match k.toNat? with
      | some k =>
        if rest.length < k then "bad-op"
        else " ".intercalate ("ok" :: initCandidates (some (rest.take k)) (rest.drop k))
      | none => "bad-op"
  | "col" :: rest =>
    match parseCfg rest with
    | some (cfg, [col]) => "ok " ++ getDistributionForColumn Gen.Select.defaultDistribution cfg col
    | _ => "bad-op"
  | "gm" :: rest =>
    match parseCfg rest with
    | some (cfg, "cols" :: n :: more) =>
      match n.toNat? with
      | some n =>
        match parseCols n more with
        | some cols =>
          showFit (fitColumns Gen.Select.defaultDistribution cfg cols)
        | none => "bad-op"
      | none => "bad-op"
    | _ => "bad-op"
  | "gmhist" :: rest =>
    match parseCfg rest with
    | some (cfg, "fits" :: k :: more) =>
      match k.toNat? with
      | some k =>
        match parseFrames k more with
        | some frames =>
          let (rs, sFinal) := gmFitHistory Gen.Select.defaultDistribution
            ({ distribution := cfg, fitted := none } : GMState String String String) frames
          " | ".intercalate (rs.map showFit ++ ["cfg " ++ showCfg sFinal.distribution])
        | none => "bad-op"
      | none => "bad-op"
    | _ => "bad-op"
  | _ => "bad-op"

end CopVerif.Driver
