import CopVerif.Base.FloatIO
import CopVerif.Model.Pearson
/-!
  Driver commands for the C02 model (`CopVerif.Model.corrModel` & co.) evaluated at `Float`.

  * `bounds` → `ok <clipLo> <clipHi> <nanReplacement> <condThreshold> <ridgeConst>` (generated constants)
  * `corr <k> <n> <cond> <k·n scores, column after column>` →
      `ok <k> <k index ids> <k column ids> <k·k entries, row after row>` — `fitCorrelation` with the
      labels `0 … k-1` standing for the training columns in order
  * `pearson <k> <n> <k·n scores>` → `ok <k·k entries>` of `DataFrame.corr()`, NaN for `none`
  * `clip <values…>` → `ok <clipped values…>` (`clip clipLo clipHi`)
-/
namespace CopVerif.Driver
open CopVerif CopVerif.IO CopVerif.Model

/-- split a flat list into `k` columns of `n` values. -/
def chunk (n : Nat) : Nat → List Float → List (List Float)
  | 0, _ => []
  | k + 1, xs => xs.take n :: chunk n k (xs.drop n)

def nanF : Float := 0.0 / 0.0

def showNats (xs : List Nat) : String := " ".intercalate (xs.map toString)

def pearsonCmd (ws : List String) : String :=
  match ws with
  | ["bounds"] =>
    "ok " ++ showFloats [Gen.GaussCorr.clipLo, Gen.GaussCorr.clipHi, Gen.GaussCorr.nanReplacement,
      Gen.GaussCorr.condThreshold, Gen.GaussCorr.ridgeConst]
  | "clip" :: rest =>
    match parseFloats rest with
    | some xs => "ok " ++ showFloats (xs.map (clip Gen.GaussCorr.clipLo Gen.GaussCorr.clipHi))
    | none => "bad-op"
  | "corr" :: k :: n :: c :: rest =>
    match parseNat k, parseNat n, parseFloat c, parseFloats rest with
    | some k, some n, some c, some xs =>
      if xs.length != k * n then "bad-shape" else
      let fr := fitCorrelation (List.range k) (chunk n k xs) c
      s!"ok {k} {showNats fr.index} {showNats fr.columns} {showFloats fr.toDictCorrelation.flatten}"
    | _, _, _, _ => "bad-op"
  | "pearson" :: k :: n :: rest =>
    match parseNat k, parseNat n, parseFloats rest with
    | some k, some n, some xs =>
      if xs.length != k * n then "bad-shape" else
      "ok " ++ showFloats ((pearson (chunk n k xs)).flatten.map fun v => v.getD nanF)
    | _, _, _ => "bad-op"
  | _ => "bad-op"

end CopVerif.Driver
