import CopVerif.Base.FloatIO
import CopVerif.Gen.Bivariate
import CopVerif.Model.BrentStandIn
import CopVerif.Model.BivFit
import CopVerif.Model.Kendall
/-! Driver commands for the generated bivariate definitions evaluated at `Float`. -/
namespace CopVerif.Driver
open CopVerif CopVerif.IO CopVerif.Gen

def showRes : Except Err (List Float) → String
  | .ok xs => "ok " ++ showFloats xs
  | .error e => "err " ++ toString e

def showBound : Except Err (Bound Float) → String
  | .ok (.fin x) => "ok " ++ showFloat x
  | .ok .posInf => "ok " ++ showFloat Float.inf
  | .ok .negInf => "ok " ++ showFloat (-Float.inf)
  | .error e => "err " ++ toString e

/-- model of `Bivariate.percent_point`'s generic loop: root of `h(u, v) - y` on `[eps, 1]`
    by bisection (`brentq` is an external symbol; the harness compares within tolerance). -/
def brentModel (hrow : Float → Float → Float) (eps : Float) (y v : Float) : Float :=
  Model.bisectRoot (fun u => hrow u v - y) eps 1.0 200

def bivMethod (fam meth : String) (θ eps : Float) (xs : List (Float × Float)) : String :=
  match fam, meth with
  | "clayton", "cdf" => showRes (Clayton.cdf θ xs)
  | "clayton", "pdf" => showRes (Clayton.pdf θ xs)
  | "clayton", "h" => showRes (Clayton.h θ xs)
  | "clayton", "ppf" => showRes (Clayton.ppf θ xs)
  | "frank", "cdf" => showRes (Frank.cdf θ xs)
  | "frank", "pdf" => showRes (Frank.pdf θ xs)
  | "frank", "h" => showRes (Frank.h θ xs)
  | "frank", "ppf" => showRes (Frank.ppf θ (brentModel (Frank.hRow θ) eps) xs)
  | "gumbel", "cdf" => showRes (Gumbel.cdf θ xs)
  | "gumbel", "pdf" => showRes (Gumbel.pdf θ xs)
  | "gumbel", "h" => showRes (Gumbel.h θ xs)
  | "gumbel", "ppf" => showRes (Gumbel.ppf θ (brentModel (Gumbel.hRow θ) eps) xs)
  | _, _ => "bad-op"

def parseFam : String → Option Model.Family
  | "clayton" => some .clayton
  | "frank" => some .frank
  | "gumbel" => some .gumbel
  | _ => none

def showOptF : Option Float → String
  | none => "none"
  | some x => showFloat x

def showOptB : Option (Bound Float) → String
  | none => "none"
  | some (.fin x) => showFloat x
  | some .posInf => showFloat Float.inf
  | some .negInf => showFloat (-Float.inf)

def biv (ws : List String) : String :=
  match ws with
  | "gen" :: fam :: rest =>
    match parseFloats rest with
    | some (θ :: ts) =>
      let f := match fam with
        | "clayton" => some (Clayton.generator θ)
        | "frank" => some (Frank.generator θ)
        | "gumbel" => some (Gumbel.generator θ)
        | _ => none
      match f with
      | some f => "ok " ++ showFloats (ts.map f)
      | none => "bad-op"
    | _ => "bad-op"
  | "ctheta" :: fam :: rest =>
    match parseFloats rest with
    | some [τ] =>
      match fam with
      | "clayton" => showBound (Clayton.computeTheta τ)
      | "gumbel" => showBound (Gumbel.computeTheta τ)
      | _ => "bad-op"
    | _ => "bad-op"
  | "checkfit" :: fam :: rest =>
    match parseFloats rest with
    | some [θ] =>
      let r := match fam with
        | "clayton" => some (checkFit (Clayton.thetaLower (α := Float)) Clayton.thetaUpper Clayton.invalidThetas θ)
        | "frank" => some (checkFit (Frank.thetaLower (α := Float)) Frank.thetaUpper Frank.invalidThetas θ)
        | "gumbel" => some (checkFit (Gumbel.thetaLower (α := Float)) Gumbel.thetaUpper Gumbel.invalidThetas θ)
        | _ => none
      match r with
      | some (.ok _) => "ok"
      | some (.error e) => "err " ++ toString e
      | none => "bad-op"
    | _ => "bad-op"
  | "fit" :: fam :: uc :: vc :: rest =>
    -- fit <fam> <uConst 0|1> <vConst 0|1> uMin uMax vMin vMax tau frankTheta
    match parseFloats rest, parseFam fam with
    | some [uMin, uMax, vMin, vMax, tau, frankθ], some f =>
      let inp : Model.FitInput Float := { uMin, uMax, vMin, vMax, tau, uConst := uc == "1", vConst := vc == "1" }
      let (r, st) := Model.fit f (fun _ => frankθ) inp { tau := none, theta := none }
      let rs := match r with | .ok _ => "ok" | .error e => "err " ++ toString e
      let us := match Model.usable f st with | .ok _ => "usable" | .error e => "unusable:" ++ toString e
      rs ++ " tau=" ++ showOptF st.tau ++ " theta=" ++ showOptB st.theta ++ " " ++ us
    | _, _ => "bad-op"
  | "sample" :: fam :: nstr :: rest =>
    -- sample <fam> <n> θ τ eps d1[0..n) d2[0..n)
    match parseFloats rest, nstr.toNat? with
    | some (θ :: τ :: eps :: vals), some n =>
      let d1 := vals.take n
      let d2 := (vals.drop n).take n
      let ppf : Option (List (Float × Float) → Except Err (List Float)) := match fam with
        | "clayton" => some (Clayton.ppf θ)
        | "frank" => some (Frank.ppf θ (brentModel (Frank.hRow θ) eps))
        | "gumbel" => some (Gumbel.ppf θ (brentModel (Gumbel.hRow θ) eps))
        | _ => none
      match ppf with
      | none => "bad-op"
      | some ppf =>
        match Base.sample τ ppf d1 d2 with
        | .ok rows => "ok " ++ showFloats (rows.flatMap fun p => [p.1, p.2])
        | .error e => "err " ++ toString e
    | _, _ => "bad-op"
  | "taub" :: rest =>
    match parseFloats rest with
    | some vals =>
      let xs := pairs vals
      "ok " ++ showFloat (Model.Kendall.tauB (β := Float) xs) ++
        s!" {Model.Kendall.conc xs} {Model.Kendall.disc xs} {Model.Kendall.tiedX xs} {Model.Kendall.tiedY xs} {Model.Kendall.npairs xs}"
    | none => "bad-op"
  | meth :: fam :: rest =>
    match parseFloats rest with
    | some (θ :: eps :: vals) => bivMethod fam meth θ eps (pairs vals)
    | _ => "bad-op"
  | _ => "bad-op"

end CopVerif.Driver
