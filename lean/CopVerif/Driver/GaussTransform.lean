import CopVerif.Base.FloatIO
import CopVerif.Model.GaussTransform
/-!
  Driver for `Model/GaussTransform.lean` (property C13).  One request line → one reply line; floats
  cross as 16-hex-digit bit patterns; labels are opaque tokens (the harness encodes type and value
  injectively, e.g. `i3`, `s61`), only their equality matters.

  ```
  gt consts                                            → ok <clipLo> <clipHi>
  gt <op> <fitted 0|1> <singular 0|1> <dcorr> D l_1 … l_D <container>   op ∈ plan | pdf | cdf | logpdf
       container ::= frame K m_1 … m_K N <N·K cells, row-major>
                   | series K m_1 … m_K <K cells>
                   | arr1 K <K cells>
                   | arr2 N K <N·K cells>
     plan   → ok N W <N·W terms>           term ::= NORMPPF term | CLIP <lo> <hi> term | CDF j term | CELL <x>
     pdf …  → ok N <N rterms>              rterm ::= MVNPDF <0|1> k <k terms> | MVNCDF <0|1> k <k terms> | LOG rterm
            → err <ErrorKind>
  gt mvn d <tau> <d·d entries of Σ> n <n·d scores>   → ok <logpdf_1> <pdf_1> … | err chol
  ```
-/
namespace CopVerif.Driver.GaussTransform
open CopVerif CopVerif.IO CopVerif.Model.GaussTransform

def showTerm : Term Float → String
  | .cell x => "CELL " ++ showFloat x
  | .cdf j t => "CDF " ++ toString j ++ " " ++ showTerm t
  | .clip lo hi t => "CLIP " ++ showFloat lo ++ " " ++ showFloat hi ++ " " ++ showTerm t
  | .normppf t => "NORMPPF " ++ showTerm t

def showRTerm : RTerm Float → String
  | .mvnpdf b row => "MVNPDF " ++ (if b then "1" else "0") ++ " " ++ toString row.length ++
      String.join (row.map fun t => " " ++ showTerm t)
  | .mvncdf b row => "MVNCDF " ++ (if b then "1" else "0") ++ " " ++ toString row.length ++
      String.join (row.map fun t => " " ++ showTerm t)
  | .log t => "LOG " ++ showRTerm t

/-- split a flat list into rows of width `k`. -/
def chunk {β : Type} (k : Nat) : Nat → List β → List (List β)
  | 0, _ => []
  | n + 1, xs => xs.take k :: chunk k n (xs.drop k)

def parseContainer (ws : List String) : Option (Container String Float) :=
  match ws with
  | "frame" :: k :: rest => do
    let k ← parseNat k
    let labels := rest.take k
    match rest.drop k with
    | n :: cells => do
      let n ← parseNat n
      let xs ← parseFloats cells
      if labels.length = k ∧ xs.length = n * k then some (.frame labels (chunk k n xs)) else none
    | _ => none
  | "series" :: k :: rest => do
    let k ← parseNat k
    let labels := rest.take k
    let xs ← parseFloats (rest.drop k)
    if labels.length = k ∧ xs.length = k then some (.series labels xs) else none
  | "arr1" :: k :: cells => do
    let k ← parseNat k
    let xs ← parseFloats cells
    if xs.length = k then some (.arr1 xs) else none
  | "arr2" :: n :: k :: cells => do
    let n ← parseNat n
    let k ← parseNat k
    let xs ← parseFloats cells
    if xs.length = n * k then some (.arr2 (chunk k n xs)) else none
  | _ => none

def runOp (op : String) (m : GModel String) (x : Container String Float) : String :=
  match op with
  | "plan" =>
    match transformToNormal m x with
    | .ok S => "ok " ++ toString S.rows.length ++ " " ++ toString S.width ++
        String.join (S.rows.map fun r => String.join (r.map fun t => " " ++ showTerm t))
    | .error e => "err " ++ toString e
  | "pdf" | "cdf" | "logpdf" =>
    let r := if op == "pdf" then pdfPlan m x else if op == "cdf" then cdfPlan m x else logPdfPlan m x
    match r with
    | .ok ys => "ok " ++ toString ys.length ++ String.join (ys.map fun t => " " ++ showRTerm t)
    | .error e => "err " ++ toString e
  | _ => "bad-op"

def twoFloats (a b : Float) : List Float := [a, b]

def gaussTransform (ws : List String) : String :=
  match ws with
  | ["consts"] =>
    "ok " ++ showFloats (twoFloats Gen.GaussTransform.clipLo Gen.GaussTransform.clipHi)
  | "mvn" :: d :: rest =>
    match parseNat d with
    | none => "bad-op"
    | some d =>
      match rest with
      | tau :: rest =>
        match parseFloat tau, parseFloats (rest.take (d * d)), rest.drop (d * d) with
        | some tau, some a, n :: zs =>
          match parseNat n, parseFloats zs with
          | some n, some zs =>
            if a.length = d * d ∧ zs.length = n * d then
              match cholesky (chunk d d a) with
              | none => "err chol"
              | some L => "ok " ++ showFloats ((chunk d n zs).flatMap fun z =>
                  twoFloats (mvnLogPdfChol tau L z) (mvnPdfChol tau L z))
            else "bad-op"
          | _, _ => "bad-op"
        | _, _, _ => "bad-op"
      | _ => "bad-op"
  | op :: fitted :: singular :: dcorr :: d :: rest =>
    match parseNat dcorr, parseNat d with
    | some dcorr, some d =>
      let cols := rest.take d
      if cols.length ≠ d then "bad-op" else
      match parseContainer (rest.drop d) with
      | none => "bad-op"
      | some x =>
        let m : GModel String :=
          { fitted := fitted == "1", cols := cols, corr := { dim := dcorr, singular := singular == "1" } }
        runOp op m x
    | _, _ => "bad-op"
  | _ => "bad-op"

end CopVerif.Driver.GaussTransform
