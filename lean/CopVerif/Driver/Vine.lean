import CopVerif.Base.FloatIO
import CopVerif.Model.Vine
import CopVerif.Gen.Bivariate
import CopVerif.Gen.VineBuild
/-!
  Driver commands for the vine structure model (property C16), evaluated with `α := Float`.

  Protocol (one request line → one reply line; floats are 16-hex-digit bit patterns):

  * `train <center|direct|regular> <d> <t> <m> TREE*m` where
    `TREE = <n> <npicks> pick*npicks float*(n*n)` (the `tau_matrix` that `Tree.fit` received,
    row-major, and the tie-breaking it made) →
    `ok <ntrees> (<nedges> (L R <nD> D* p1 p2 tau)*)*` (`p1 p2` are `_ _` in the first tree) or
    `err <Fail>`.
  * `check <type> <d> <t> <m> (<nedges> (L R <nD> D* p1 p2)*)*m` →
    `ok count=<b> trees=<b> pairs=<b> type=<b> all=<b>`: `isRegularVine` and the type predicate on
    an extracted vine.
  * `ident L R nD D* L R nD D*` → `ok l r nD D*` | `err ValueError` (`Edge._identify_eds_ing`)
  * `cc <level> EDGE EDGE` → `ok <b>` (`_check_constraint`); `adj EDGE EDGE` → `ok <b>`
    (`is_adjacent`); `sortedge EDGE EDGE` → `ok 0 1 | ok 1 0` (`Edge.sort_edge` as positions).
  * `theta <family 0|1|2> <float>` → `ok <b>`: `check_theta` of the generated class tables.
  * `gtrain`, `gident`, `gcc`, `gadj`, `gsortedge`: the same requests answered from the GENERATED
    definitions (`CopVerif/Gen/VineBuild.lean`, regenerated from tree.py / vine.py on every run).
-/
namespace CopVerif.Driver.Vine
open CopVerif CopVerif.IO CopVerif.Model.Vine

abbrev P := StateT (List String) Option

def tok : P String := fun s => match s with | [] => none | w :: ws => some (w, ws)
def nat : P Nat := do let w ← tok; match w.toNat? with | some n => pure n | none => failure
def flt : P Float := do let w ← tok; match parseFloat w with | some x => pure x | none => failure
def optNat : P (Option Nat) := do
  let w ← tok
  if w == "_" then pure none else match w.toNat? with | some n => pure (some n) | none => failure

def rep {β : Type} (p : P β) : Nat → P (List β)
  | 0 => pure []
  | n + 1 => do let x ← p; let xs ← rep p n; pure (x :: xs)

def vtype : P VType := do
  let w ← tok
  match w with
  | "center" => pure .center
  | "direct" => pure .direct
  | "regular" => pure .regular
  | _ => failure

def chunk {β : Type} (n : Nat) : Nat → List β → List (List β)
  | 0, _ => []
  | k + 1, xs => xs.take n :: chunk n k (xs.drop n)

def choice : P (Choice Float) := do
  let n ← nat
  let np ← nat
  let picks ← rep nat np
  let vals ← rep flt (n * n)
  pure { tau := chunk n n vals, picks := picks }

def edge (withParents : Bool) : P Edge := do
  let l ← nat
  let r ← nat
  let nD ← nat
  let D ← rep nat nD
  if withParents then
    let p1 ← optNat
    let p2 ← optNat
    match p1, p2 with
    | some a, some b => pure { L := l, R := r, D := D, parents := some (a, b) }
    | _, _ => pure { L := l, R := r, D := D, parents := none }
  else pure { L := l, R := r, D := D, parents := none }

def tree : P Tree := do
  let ne ← nat
  rep (edge true) ne

def showNats (xs : List Nat) : String := " ".intercalate (xs.map toString)

def showEdge (e : Edge) : String :=
  let ps := match e.parents with
    | some (a, b) => s!"{a} {b}"
    | none => "_ _"
  let d := if e.D.isEmpty then "" else " " ++ showNats e.D
  s!"{e.L} {e.R} {e.D.length}{d} {ps}"

def showTree (r : Tree × List Float) : String :=
  let es := List.zipWith (fun e x => showEdge e ++ " " ++ showFloat x) r.1 r.2
  " ".intercalate (toString r.1.length :: es)

def b01 (b : Bool) : String := if b then "1" else "0"

def run {β : Type} (p : P β) (ws : List String) (k : β → String) : String :=
  match p ws with
  | some (x, []) => k x
  | some (_, _) => "bad-op trailing"
  | none => "bad-op parse"

def checkThetaFam (fam : Nat) (θ : Float) : Option Bool :=
  match fam with
  | 0 => some (checkTheta (Gen.Clayton.thetaLower (α := Float)) Gen.Clayton.thetaUpper
      Gen.Clayton.invalidThetas θ)
  | 1 => some (checkTheta (Gen.Frank.thetaLower (α := Float)) Gen.Frank.thetaUpper
      Gen.Frank.invalidThetas θ)
  | 2 => some (checkTheta (Gen.Gumbel.thetaLower (α := Float)) Gen.Gumbel.thetaUpper
      Gen.Gumbel.invalidThetas θ)
  | _ => none

def vine (ws : List String) : String :=
  match ws with
  | "train" :: rest =>
    run (do let vt ← vtype; let d ← nat; let t ← nat; let m ← nat; let cs ← rep choice m
            pure (vt, d, t, cs)) rest fun (vt, d, t, cs) =>
      match trainVine vt d t cs with
      | .ok trees => " ".intercalate ("ok" :: toString trees.length :: trees.map showTree)
      | .error e => "err " ++ e.toString
  | "check" :: rest =>
    run (do let vt ← vtype; let d ← nat; let t ← nat; let m ← nat; let ts ← rep tree m
            pure (vt, d, t, ts)) rest fun (vt, d, t, ts) =>
      let c := decide (2 ≤ d) && ts.length == max 1 (min (d - 1) t)
      let tr := treesOk d 0 none ts
      let po := pairsOnceB (condPairs ts)
      let ty := typeOk vt ts
      s!"ok count={b01 c} trees={b01 tr} pairs={b01 po} type={b01 ty} all={b01 (isRegularVine d t ts && ty)}"
  | "ident" :: rest =>
    run (do let p ← edge false; let q ← edge false; pure (p, q)) rest fun (p, q) =>
      match identify p q with
      | .ok (l, r, D) => s!"ok {showEdge { L := l, R := r, D := D, parents := none }}"
      | .error e => "err " ++ e.toString
  | "cc" :: rest =>
    run (do let lv ← nat; let p ← edge false; let q ← edge false; pure (lv, p, q)) rest
      fun (lv, p, q) => "ok " ++ b01 (checkConstraint lv p q)
  | "adj" :: rest =>
    run (do let p ← edge false; let q ← edge false; pure (p, q)) rest fun (p, q) =>
      "ok " ++ b01 (isAdjacent p q)
  | "sortedge" :: rest =>
    run (do let p ← edge false; let q ← edge false; pure (p, q)) rest fun (p, q) =>
      let r := sortPair p q 0 1
      s!"ok {r.1} {r.2}"
  | "gtrain" :: rest =>
    run (do let vt ← vtype; let d ← nat; let t ← nat; let m ← nat; let cs ← rep choice m
            pure (vt, d, t, cs)) rest fun (vt, d, t, cs) =>
      match Gen.VineBuild.trainVineGen vt d t cs with
      | .ok trees => " ".intercalate ("ok" :: toString trees.length :: trees.map showTree)
      | .error e => "err " ++ e.toString
  | "gident" :: rest =>
    run (do let p ← edge false; let q ← edge false; pure (p, q)) rest fun (p, q) =>
      match Gen.VineBuild.identifyEdsIng p q with
      | .ok (l, r, D) => s!"ok {showEdge { L := l, R := r, D := D, parents := none }}"
      | .error e => "err " ++ e.toString
  | "gcc" :: rest =>
    run (do let lv ← nat; let p ← edge false; let q ← edge false; pure (lv, p, q)) rest
      fun (lv, p, q) => "ok " ++ b01 (Gen.VineBuild.checkConstraintPy lv p q)
  | "gadj" :: rest =>
    run (do let p ← edge false; let q ← edge false; pure (p, q)) rest fun (p, q) =>
      "ok " ++ b01 (Gen.VineBuild.isAdjacentPy p q)
  | "gsortedge" :: rest =>
    run (do let p ← edge false; let q ← edge false; pure (p, q)) rest fun (p, q) =>
      if Gen.VineBuild.sorted2Swaps Gen.VineBuild.sortEdgeKey p q then "ok 1 0" else "ok 0 1"
  | "neighbors" :: rest =>
    run tree rest fun t => "ok " ++ " | ".intercalate ((neighbors t).map showNats)
  | "theta" :: rest =>
    run (do let f ← nat; let x ← flt; pure (f, x)) rest fun (f, x) =>
      match checkThetaFam f x with
      | some b => "ok " ++ b01 b
      | none => "err family"
  | _ => "bad-op"

end CopVerif.Driver.Vine
