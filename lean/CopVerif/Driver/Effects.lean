import CopVerif.Base.FloatIO
import CopVerif.Model.Effects
import CopVerif.Model.Plot
import CopVerif.Gen.Effects
/-! Driver commands for C20: the write-effect checker evaluated on the program GENERATED from /repo
    (`Gen.Effects`), and the plot model on frames of opaque cell tokens.

    The module is decoded once by `Main/Effects.lean` (`Gen.Effects.module?`) and passed in.

    * `effects count`                → `ok <number of entry points>`
    * `effects size`                 → `ok <#functions> <#statements>`
    * `effects entry <i>`            → `ok <name> <fn> <accept|reject> <#stmts> <#params> {<pname> <var> <0|1>}`
                                        (1 = the checker cannot exclude a write to that parameter's object or to an object held inside it)
    * `effects flat <i>`             → `ok {p:<x> | a:<x>:<y> | f:<x> | w:<x>}` the flat statement set
    * `effects session <i> <j> …`    → `ok <accept|reject> {<var>}` may-written parameters of the union
    * `effects lifetime <i> <j> …`   → `ok <#stmts> <#params> {<pname> <var> <0|1>}` the parameters of entry `i`
                                        (a constructor) judged in the union with the entries `j …`
    * `plot <2|3> <scatter|compare> <titled 0|1> <ncols> <col…> <nreq|-1> <req…> <nreal> <cells…> [<nsynth> <cells…>]`
                                     → `ok <#traces> {<Real|Synthetic> <#points> <cells…>}` | `err <kind>` -/
namespace CopVerif.Driver
open CopVerif CopVerif.IO CopVerif.Model.Effects CopVerif.Model.Plot

def showStmt : Stmt → String
  | .param x => s!"p:{x}"
  | .alias x y => s!"a:{x}:{y}"
  | .fresh x => s!"f:{x}"
  | .write x => s!"w:{x}"
  | .call f _ _ => s!"c:{f}"

def entryAt (i : Nat) : Option (String × Nat × List (String × Var × Var)) := Gen.Effects.entries[i]?

def effects (m : Module) (ws : List String) : String :=
  match ws with
  | ["count"] => s!"ok {Gen.Effects.entries.length}"
  | ["size"] => s!"ok {m.size} {m.foldl (fun a f => a + f.body.length) 0}"
  | ["entry", i] =>
    match i.toNat? >>= entryAt with
    | some (name, f, ps) =>
      let prog := flatten m f
      let verdict := if noParamWrite prog then "accept" else "reject"
      let per := ps.map fun (pn, v, c) => s!"{pn} {v} {if safeFrom prog [v, c] then 0 else 1}"
      s!"ok {name} {f} {verdict} {prog.length} {ps.length} " ++ " ".intercalate per
    | none => "bad-op"
  | ["flat", i] =>
    match i.toNat? >>= entryAt with
    | some (_, f, _) => "ok " ++ " ".intercalate ((flatten m f).map showStmt)
    | none => "bad-op"
  | "lifetime" :: i :: is =>
    match i.toNat? >>= entryAt, is.mapM (fun j => j.toNat? >>= entryAt) with
    | some (_, f, ps), some es =>
      let prog := flattenMany m (f :: es.map (·.2.1))
      let per := ps.map fun (pn, v, c) => s!"{pn} {v} {if safeFrom prog [v, c] then 0 else 1}"
      s!"ok {prog.length} {ps.length} " ++ " ".intercalate per
    | _, _ => "bad-op"
  | "session" :: is =>
    match is.mapM (fun i => i.toNat? >>= entryAt) with
    | some es =>
      let prog := flattenMany m (es.map (·.2.1))
      let verdict := if noParamWrite prog then "accept" else "reject"
      s!"ok {verdict} " ++ " ".intercalate ((mayWrite prog).map toString)
    | none => "bad-op"
  | _ => "bad-op"

/-! ### plots -/

def takeN (n : Nat) (ws : List String) : Option (List String × List String) :=
  if ws.length < n then none else some (ws.take n, ws.drop n)

/-- `<n> <n·width cells>` → rows -/
def parseRows (width : Nat) (ws : List String) : Option (List (List String) × List String) :=
  match ws with
  | n :: rest =>
    match n.toNat? with
    | some n =>
      match takeN (n * width) rest with
      | some (cells, rest') =>
        let rec rows (k : Nat) (cs : List String) : List (List String) :=
          match k with
          | 0 => []
          | k + 1 => cs.take width :: rows k (cs.drop width)
        some (rows n cells, rest')
      | none => none
    | none => none
  | [] => none

def showTraces2 (r : Except Err (List (Label × List (String × String)))) : String :=
  match r with
  | .error e => "err " ++ toString e
  | .ok ts => s!"ok {ts.length} " ++ " ".intercalate (ts.map fun (l, pts) =>
      s!"{l.toString} {pts.length} " ++ " ".intercalate (pts.map fun (x, y) => x ++ " " ++ y))

def showTraces3 (r : Except Err (List (Label × List (String × String × String)))) : String :=
  match r with
  | .error e => "err " ++ toString e
  | .ok ts => s!"ok {ts.length} " ++ " ".intercalate (ts.map fun (l, pts) =>
      s!"{l.toString} {pts.length} " ++ " ".intercalate (pts.map fun (x, y, z) => x ++ " " ++ y ++ " " ++ z))

def plot (ws : List String) : String :=
  match ws with
  | dim :: kind :: titledW :: ncols :: rest =>
    let titled := titledW == "1"
    match ncols.toNat? with
    | none => "bad-op"
    | some nc =>
      match takeN nc rest with
      | none => "bad-op"
      | some (cols, rest) =>
        match rest with
        | nreq :: rest =>
          let req : Option (Option (List String) × List String) :=
            if nreq == "-1" then some (none, rest)
            else match nreq.toNat? with
              | some k => (takeN k rest).map fun (r, rest') => (some r, rest')
              | none => none
          match req with
          | none => "bad-op"
          | some (columns, rest) =>
            match parseRows nc rest with
            | none => "bad-op"
            | some (realRows, rest) =>
              let real : Frame String := ⟨cols, realRows⟩
              match kind with
              | "scatter" =>
                if dim == "2" then showTraces2 (scatter2d real columns titled)
                else if dim == "3" then showTraces3 (scatter3d real columns titled) else "bad-op"
              | "compare" =>
                match parseRows nc rest with
                | none => "bad-op"
                | some (synthRows, _) =>
                  let synth : Frame String := ⟨cols, synthRows⟩
                  if dim == "2" then showTraces2 (compare2d real synth columns titled)
                  else if dim == "3" then showTraces3 (compare3d real synth columns titled) else "bad-op"
              | _ => "bad-op"
        | [] => "bad-op"
  | _ => "bad-op"

end CopVerif.Driver
