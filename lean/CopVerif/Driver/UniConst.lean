import CopVerif.Base.FloatIO
import CopVerif.Base.FloatFns
import CopVerif.Gen.UniConst
import CopVerif.Model.RootFind
import CopVerif.Model.Families
/-!
  Driver commands for the GENERATED univariate definitions (`Gen.UniConst`) evaluated at `Float`
  (property C03).  `Φ` is `FloatFns.ndtr` (Cody's erfc), the root finders are the C18 models.

  Protocol (after the leading word `uc`; floats are 16-hex-digit bit patterns):
  * `epsilon`                                  -> `ok ε`
  * `ndtr x*`                                  -> `ok Φ(x)*`
  * `constcdf c x*` | `constpdf c x*` | `constppf c q*`   -> `ok y*`
  * `constsample c n`                          -> `ok c*n`          (`n` decimal)
  * `checkconst x*`                            -> `some c` | `none`
  * `tables`                                   -> the four generated tables, as text
  * `bounds x*`                                -> `ok L U σ`
  * `kdecdf cov n x*n w*n p*`                  -> `ok cdf(p)*`      (`n` decimal)
  * `ppfpre q*`                                -> `ok e*` | `err ValueError`; `e` = `±inf`, or `0.5`
                                                  for a lane that goes to the root finder
  * `kdeppf (bisect|chandrupatla) cov n x*n w*n q*`   -> `ok x*` | `err <kind>`
  * `cf <family> <fn> p* x*`                   -> `ok y*`: the closed forms of `Model/Families.lean`;
      family/params: `uniform loc scale`, `norm loc scale`, `loglaplace c loc scale`, `truncnorm a b loc scale`;
      fn: `pdf | cdf | ppf | logpdf` (no `ppf` for norm / truncnorm); `Φ = FloatFns.ndtr`, `s2pi = √(2π)`
-/
namespace CopVerif.Driver
open CopVerif CopVerif.IO CopVerif.Gen.UniConst

def ucShow : Except Err (List Float) → String
  | .ok xs => "ok " ++ showFloats xs
  | .error e => "err " ++ toString e

def machEps : Float := Float.ofBits 0x3CB0000000000000

/-- the two solvers with the default arguments of `copulas.optimize` -/
def ucSolve (s : Solver) (f : List Float → List Float) (lo hi : List Float) : Except Err (List Float) :=
  match s with
  | .bisect => (Model.bisect f lo hi 1e-8 50).map (·.result)
  | .chandrupatla => (Model.chandrupatla f lo hi machEps (2.0 * machEps) 50).map (·.2)

def ppfOutFloat : PpfOut Float → Float
  | .negInf => -Float.inf
  | .posInf => Float.inf
  | .fin x => x

def showQuery : Query → String
  | .pdf => "pdf" | .logPdf => "logPdf" | .cdf => "cdf" | .ppf => "ppf" | .sample => "sample"

def showScipyFn : ScipyFn → String
  | .pdf => "pdf" | .logpdf => "logpdf" | .cdf => "cdf" | .ppf => "ppf" | .rvs => "rvs"

def showConstMethod : Option ConstMethod → String
  | some .cdf => "cdf" | some .pdf => "pdf" | some .ppf => "ppf" | some .sample => "sample"
  | none => "none"

def allQueries : List Query := [.pdf, .logPdf, .cdf, .ppf, .sample]

def ucTables : String :=
  let fw := allQueries.map fun q =>
    let f := forward q
    s!"fwd.{showQuery q}={showScipyFn f.fn}:{f.paramAttr}:{f.checksFit}"
  let wr := allQueries.map fun q => s!"wrap.{showQuery q}={showQuery (wrapperTarget q)}"
  let rp := allQueries.map fun q => s!"repl.{showQuery q}={showConstMethod (constReplacement q)}"
  let al := [s!"alias.pdf={showQuery aliasPdf}", s!"alias.cdf={showQuery aliasCdf}",
             s!"alias.ppf={showQuery aliasPpf}"]
  let fl := [s!"reset={constResetOnNonConstant}", s!"wrapseed={wrapperSampleSeeded}"]
  " ".intercalate (fw ++ wr ++ rp ++ al ++ fl)

/-- split `n x*n w*n rest` -/
def takeKde (n : Nat) (vals : List Float) : Option (List Float × List Float × List Float) :=
  if vals.length < 2 * n then none
  else some (vals.take n, (vals.drop n).take n, vals.drop (2 * n))

def s2piF : Float := Float.sqrt (2.0 * 3.141592653589793)

/-- closed form `family.fn` with parameters `ps` -/
def closedForm (family fn : String) (ps : List Float) : Option (Float → Float) :=
  let Φ := FloatFns.ndtr
  match family, ps with
  | "uniform", [loc, scale] =>
    match fn with
    | "pdf" => some (Model.Families.uniformPdf loc scale)
    | "cdf" => some (Model.Families.uniformCdf loc scale)
    | "ppf" => some (Model.Families.uniformPpf loc scale)
    | "logpdf" => some (Model.Families.uniformLogpdf loc scale)
    | _ => none
  | "norm", [loc, scale] =>
    match fn with
    | "pdf" => some (Model.Families.normPdf s2piF loc scale)
    | "cdf" => some (Model.Families.normCdf Φ loc scale)
    | "logpdf" => some (Model.Families.normLogpdf s2piF loc scale)
    | _ => none
  | "loglaplace", [c, loc, scale] =>
    match fn with
    | "pdf" => some (Model.Families.loglaplacePdf c loc scale)
    | "cdf" => some (Model.Families.loglaplaceCdf c loc scale)
    | "ppf" => some (Model.Families.loglaplacePpf c loc scale)
    | "logpdf" => some (Model.Families.loglaplaceLogpdf c loc scale)
    | _ => none
  | "truncnorm", [a, b, loc, scale] =>
    match fn with
    | "pdf" => some (Model.Families.truncnormPdf Φ s2piF a b loc scale)
    | "cdf" => some (Model.Families.truncnormCdf Φ a b loc scale)
    | "logpdf" => some (Model.Families.truncnormLogpdf Φ s2piF a b loc scale)
    | _ => none
  | _, _ => none

def nParams : String → Nat
  | "uniform" => 2 | "norm" => 2 | "loglaplace" => 3 | "truncnorm" => 4 | _ => 0

def uniconst (ws : List String) : String :=
  match ws with
  | "cf" :: family :: fn :: rest =>
    match parseFloats rest with
    | some vals =>
      match closedForm family fn (vals.take (nParams family)) with
      | some f => "ok " ++ showFloats ((vals.drop (nParams family)).map f)
      | none => "bad-op"
    | none => "bad-op"
  | ["epsilon"] => "ok " ++ showFloat (epsilon : Float)
  | ["tables"] => ucTables
  | "ndtr" :: rest =>
    match parseFloats rest with
    | some xs => "ok " ++ showFloats (xs.map FloatFns.ndtr)
    | none => "bad-op"
  | "constsample" :: c :: n :: [] =>
    match parseFloat c, parseNat n with
    | some c, some n => "ok " ++ showFloats (constSample c n)
    | _, _ => "bad-op"
  | "checkconst" :: rest =>
    match parseFloats rest with
    | some xs => match checkConstant xs with
      | some c => "some " ++ showFloat c
      | none => "none"
    | none => "bad-op"
  | "bounds" :: rest =>
    match parseFloats rest with
    | some xs => "ok " ++ showFloats [(kdeBounds xs).1, (kdeBounds xs).2, popStd xs]
    | none => "bad-op"
  | "ppfpre" :: rest =>
    match parseFloats rest with
    | some qs =>
      ucShow ((kdePpf (fun _ _ lo _ => .ok (lo.map fun _ => 0.5)) FloatFns.ndtr [0.0, 1.0] [0.5, 0.5]
        1.0 false qs).map fun out => out.map ppfOutFloat)
    | none => "bad-op"
  | "kdecdf" :: cov :: n :: rest =>
    match parseFloat cov, parseNat n, parseFloats rest with
    | some cov, some n, some vals =>
      match takeKde n vals with
      | some (xs, wts, pts) => "ok " ++ showFloats (pts.map (kdeCdf FloatFns.ndtr xs wts cov))
      | none => "bad-op"
    | _, _, _ => "bad-op"
  | "kdeppf" :: meth :: cov :: n :: rest =>
    match parseFloat cov, parseNat n, parseFloats rest with
    | some cov, some n, some vals =>
      match takeKde n vals with
      | some (xs, wts, qs) =>
        ucShow ((kdePpf ucSolve FloatFns.ndtr xs wts cov (meth == "bisect") qs).map
          fun out => out.map ppfOutFloat)
      | none => "bad-op"
    | _, _, _ => "bad-op"
  | op :: c :: rest =>
    match parseFloat c, parseFloats rest with
    | some c, some xs =>
      match op with
      | "constcdf" => "ok " ++ showFloats (xs.map (constCdf c))
      | "constpdf" => "ok " ++ showFloats (xs.map (constPdf c))
      | "constppf" => "ok " ++ showFloats (xs.map (constPpf c))
      | _ => "bad-op"
    | _, _ => "bad-op"
  | _ => "bad-op"

end CopVerif.Driver
