import CopVerif.Base.FloatIO
import CopVerif.Model.Lifecycle
import CopVerif.Gen.Lifecycle
/-!
# Driver for the life-cycle model (property C19)

Values (`V`) are opaque tokens (16-hex-digit floats, or any string without blanks / `;` / `:` / `,`),
`-` is `None`.  Parameters are **terms** over the external fitters (free interpretation):

* `const:<size>:<id>`            = `_fit_constant` of the class on dataset `<id>` with resolved size `<size>`
* `reg:<min>:<max>:<ss>:<id>`    = `_fit` of the class on dataset `<id>` reading those option attributes

Commands (first word `life` stripped by `Main/Lifecycle.lean`):

* `hist <kkk> <cls> <min> <max> <ss> <n> (<id> <const> <lo> <hi> <len>)×n`
    `<kkk>` = three 0/1 flags keepOverride/rememberBounds/cacheSize (`111` as found, `000` repaired);
    the kind of `<cls>` is read off the generated table.
    → `ok <kind> <step>…` one step per fit: `<fitted>;<override>;<params term>;<min>;<max>;<ss>`
* `whist <kkk> <n> (<selected cls> <id> <const> <lo> <hi> <len>)×n`   (the wrapper; selection is external)
    → `ok <step>…` with the inner instance's step
* `query <fitted 0/1> <override> <hasparams 0/1> <cdf|ppf|pdf|sample|logpdf>` → `const <c>` | `reg` | `err <kind>`
* `guard <cls> <method>` → `guarded` | `abstract` | `unguarded` | `absent` | `noclass`
* `classes` → `<name>:<package>:<storeArgs>:<losesOptions>:<kind>:<fittedLast>:<validated>:<params,>` …
* `facts` → override attributes, validation checks, get_instance forms, flags
* `valid <len> <numeric 0/1> <nan 0/1> <fitted 0/1> <body ok|raise>` → `ok fitted=<b>` | `err <kind> fitted=<b> changed=<b>`
* `bivcheck <theta|-> <isZero 0/1> <valid 0/1>` → `ok` | `err <kind>`
* `clone <form name|class|inst> <cls> <fitted 0/1> <npos> <tok>×npos <nkw> (<name> <tok>)×nkw <nkwargs> (<name> <tok>)×nkwargs`
    → `ok <cls> fitted=<b> state=<none|kept> stored=<yes|no> bound=<name=tok,…>` | `err <kind>`
-/
namespace CopVerif.Driver
open CopVerif CopVerif.IO CopVerif.Model.Lifecycle

namespace Life

def tok (o : Option String) : String := o.getD "-"
def untok (s : String) : Option String := if s == "-" then none else some s
def natTok (o : Option Nat) : String := match o with | some n => toString n | none => "-"
def unNat (s : String) : Option (Option Nat) := if s == "-" then some none else s.toNat?.map some
def bit (b : Bool) : String := if b then "1" else "0"
def unbit (s : String) : Option Bool := if s == "1" then some true else if s == "0" then some false else none

def kindStr : Kind → String
  | .scipy => "scipy" | .truncated => "truncated" | .kde => "kde"

def parseVariant (s : String) : Option Variant :=
  match s.toList with
  | [a, b, c] =>
    match unbit a.toString, unbit b.toString, unbit c.toString with
    | some x, some y, some z => some ⟨x, y, z⟩
    | _, _, _ => none
  | _ => none

abbrev P := FreeP String String Unit (Dat String)

def termStr : P → String
  | .const _ size d => s!"const:{size}:{d.id}"
  | .reg _ o d => s!"reg:{tok o.min}:{tok o.max}:{natTok o.sampleSize}:{d.id}"

def stepStr (s : UState String String Unit P) : String :=
  ";".intercalate [bit s.fitted, tok s.override, (s.params.map termStr).getD "-", tok s.min, tok s.max,
    natTok s.sampleSize]

/-- parse `(<id> <const> <lo> <hi> <len>)*`. -/
def parseData : List String → Option (List (Dat String))
  | [] => some []
  | i :: c :: lo :: hi :: n :: rest =>
    match i.toNat?, n.toNat?, parseData rest with
    | some i, some n, some ds => some (⟨i, untok c, lo, hi, n⟩ :: ds)
    | _, _, _ => none
  | _ => none

/-- states after each prefix of the history. -/
def trace (v : Variant) (s : UState String String Unit P) : List (Dat String) → List (UState String String Unit P)
  | [] => []
  | x :: xs => let s' := fit v datOps freeFitters s x; s' :: trace v s' xs

def lookup (cls : String) : Option ClassInfo :=
  match tableOf Gen.Lifecycle.classes cls with
  | some ci => some ci
  | none =>
    -- `package.Name` re-exports: resolve by the last component
    match (cls.splitOn ".").getLast? with
    | some n => tableOf Gen.Lifecycle.classes n
    | none => none

def hist (ws : List String) : String :=
  match ws with
  | vs :: cls :: mn :: mx :: ss :: n :: rest =>
    match parseVariant vs, lookup cls, unNat ss, n.toNat?, parseData rest with
    | some v, some ci, some ss, some n, some ds =>
      if ds.length != n then "bad-op" else
      let k := kindOfInfo ci
      let s0 : UState String String Unit P := UState.fresh ci.name k ⟨untok mn, untok mx, ss, ()⟩
      "ok " ++ kindStr k ++ " " ++ " ".intercalate ((trace v s0 ds).map stepStr)
    | _, _, _, _, _ => "bad-op"
  | _ => "bad-op"

/-- parse `(<selected cls> <id> <const> <lo> <hi> <len>)*`. -/
def parseSel : List String → Option (List (String × Dat String))
  | [] => some []
  | c :: i :: cv :: lo :: hi :: n :: rest =>
    match i.toNat?, n.toNat?, parseSel rest with
    | some i, some n, some ds => some ((c, ⟨i, untok cv, lo, hi, n⟩) :: ds)
    | _, _, _ => none
  | _ => none

def wtrace (v : Variant) (w : WState String String Unit P Unit) :
    List (String × Dat String) → List (WState String String Unit P Unit)
  | [] => []
  | (c, x) :: xs =>
    let k := match lookup c with | some ci => kindOfInfo ci | none => .scipy
    let w' := fitWrapper v datOps freeFitters (fun _ _ => (c, k, ⟨none, none, none, ()⟩)) w x
    w' :: wtrace v w' xs

def whist (ws : List String) : String :=
  match ws with
  | vs :: n :: rest =>
    match parseVariant vs, n.toNat?, parseSel rest with
    | some v, some n, some ds =>
      if ds.length != n then "bad-op" else
      "ok " ++ " ".intercalate ((wtrace v (WState.fresh ()) ds).map fun w =>
        bit w.fitted ++ ";" ++ (match w.inst with | some s => s.cls ++ ";" ++ stepStr s | none => "-"))
    | _, _, _ => "bad-op"
  | _ => "bad-op"

def parseQ : String → Option Q
  | "cdf" => some .cdf | "ppf" => some .ppf | "pdf" => some .pdf | "sample" => some .sample
  | "logpdf" => some .logpdf | _ => none

def queryCmd (ws : List String) : String :=
  match ws with
  | [f, ov, hp, q] =>
    match unbit f, unbit hp, parseQ q with
    | some f, some hp, some q =>
      let s : UState String String Unit Unit := ⟨"", .scipy, ⟨none, none, none, ()⟩, f, if hp then some () else none,
        untok ov, none, none, none⟩
      let E : Evals String String Unit Unit String := ⟨fun c _ => "const " ++ c, fun _ _ _ _ => "reg"⟩
      match query E s q with
      | .ok r => r
      | .error e => "err " ++ toString e
    | _, _, _ => "bad-op"
  | _ => "bad-op"

/-- the guard at the end of the delegation chain. -/
def finalGuard (ci : ClassInfo) : Nat → String → Option Guard
  | 0, _ => none
  | fuel + 1, m =>
    match lookupGuard ci m with
    | some (.delegate m') => finalGuard ci fuel m'
    | g => g

def guardCmd (ws : List String) : String :=
  match ws with
  | [cls, m] =>
    match lookup cls with
    | none => "noclass"
    | some ci =>
      match lookupGuard ci m with
      | none => "absent"
      | some _ => if guarded ci m then "guarded" else if finalGuard ci 4 m == some .abstract then "abstract" else "unguarded"
  | _ => "bad-op"

def classesCmd : String :=
  " ".intercalate (Gen.Lifecycle.classes.map fun ci =>
    ":".intercalate [ci.name, ci.package, bit ci.storeArgs, bit (losesOptions ci), kindStr (kindOfInfo ci),
      bit ci.fittedLast, bit (ci.fitDecorators.contains "check_valid_values"), ",".intercalate ci.params])

def checkStr : Check → String
  | .empty => "empty" | .nonNumeric => "nonNumeric" | .nan => "nan"

def factsCmd : String :=
  "override=" ++ ",".intercalate Gen.Lifecycle.overrideAttrs ++
  " checks=" ++ ",".intercalate (Gen.Lifecycle.validationChecks.map checkStr) ++
  " forms=" ++ ",".intercalate Gen.Lifecycle.getInstanceForms ++
  " readsStored=" ++ bit Gen.Lifecycle.getInstanceReadsStored ++
  " deepcopies=" ++ bit Gen.Lifecycle.storeArgsDeepCopies

def validCmd (ws : List String) : String :=
  match ws with
  | [len, num, nan, f, body] =>
    match len.toNat?, unbit num, unbit nan, unbit f with
    | some len, some num, some nan, some f =>
      let s : MState String Unit Nat := ⟨"M", (), f, if f then some 0 else none⟩
      let b : Body String Unit Nat Unit := fun _ _ _ => if body == "ok" then (some 1, none) else (some 2, some .valueError)
      let r := mfit Gen.Lifecycle.validationChecks (fun _ => ⟨len, num, nan⟩) b s ()
      match r.2 with
      | none => "ok fitted=" ++ bit r.1.fitted
      | some e => "err " ++ toString e ++ " fitted=" ++ bit r.1.fitted ++ " changed=" ++ bit (r.1 != s)
    | _, _, _, _ => "bad-op"
  | _ => "bad-op"

def bivcheckCmd (ws : List String) : String :=
  match ws with
  | [th, z, v] =>
    match unbit z, unbit v with
    | some z, some v =>
      match bivCheckFit (fun _ : String => z) (fun _ => v) (untok th) with
      | .ok _ => "ok"
      | .error e => "err " ++ toString e
    | _, _ => "bad-op"
  | _ => "bad-op"

def takePairs : Nat → List String → Option (List (String × String) × List String)
  | 0, rest => some ([], rest)
  | n + 1, a :: b :: rest => (takePairs n rest).map fun (ps, r) => ((a, b) :: ps, r)
  | _, _ => none

def cloneCmd (ws : List String) : String :=
  match ws with
  | form :: cls :: f :: npos :: rest =>
    match lookup cls, unbit f, npos.toNat? with
    | some ci, some f, some npos =>
      if rest.length < npos then "bad-op" else
      let pos := rest.take npos
      match (rest.drop npos) with
      | nkw :: rest2 =>
        match nkw.toNat? with
        | none => "bad-op"
        | some nkw =>
          match takePairs nkw rest2 with
          | none => "bad-op"
          | some (kw, rest3) =>
            match rest3 with
            | nkwargs :: rest4 =>
              match nkwargs.toNat? with
              | none => "bad-op"
              | some nk =>
                match takePairs nk rest4 with
                | some (kwargs, []) =>
                  let table := fun n => lookup n
                  let proto : Except Err (Proto String Unit) :=
                    match form with
                    | "name" => .ok (.name cls)
                    | "class" => .ok (.cls cls)
                    | _ =>
                      match construct (St := Unit) ci ⟨pos, kw⟩ with
                      | .ok o => .ok (.inst (if f then o.afterFit () else o))
                      | .error e => .error e
                  match proto with
                  | .error e => "protoerr " ++ toString e
                  | .ok p =>
                    match getInstance table p kwargs with
                    | .error e => "err " ++ toString e
                    | .ok o =>
                      "ok " ++ o.cls ++ " fitted=" ++ bit o.fitted ++ " state=" ++ (if o.fitState.isSome then "kept" else "none")
                        ++ " stored=" ++ (if o.stored.isSome then "yes" else "no")
                        ++ " bound=" ++ ",".intercalate (o.bound.map fun b => b.1 ++ "=" ++ b.2)
                | _ => "bad-op"
            | _ => "bad-op"
      | _ => "bad-op"
    | _, _, _ => "bad-op"
  | _ => "bad-op"

end Life

def lifecycle (ws : List String) : String :=
  match ws with
  | "hist" :: rest => Life.hist rest
  | "whist" :: rest => Life.whist rest
  | "query" :: rest => Life.queryCmd rest
  | "guard" :: rest => Life.guardCmd rest
  | ["classes"] => Life.classesCmd
  | ["facts"] => Life.factsCmd
  | "valid" :: rest => Life.validCmd rest
  | "bivcheck" :: rest => Life.bivcheckCmd rest
  | "clone" :: rest => Life.cloneCmd rest
  | _ => "bad-op"

end CopVerif.Driver
