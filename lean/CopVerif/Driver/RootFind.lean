import CopVerif.Base.FloatIO
import CopVerif.Model.RootFind
/-!
  Driver commands for `Model.bisect` / `Model.chandrupatla` at `Float`.

  The function under the root finder is given in a small spec language that
  `tools/props/c18.py` interprets identically (same operations in the same order):

  | kind    | f(x), with d = x - q                    | operations            |
  |---------|------------------------------------------|-----------------------|
  | `lin`   | `p * d`                                  | `- *`                 |
  | `aff`   | `p * x - q`  (root `q/p`)                | `* -`                 |
  | `cubic` | `p * (d*d*d)` (flat root)                | `- *`                 |
  | `quint` | `p * (d*d*d*d*d)` (flatter root)         | `- *`                 |
  | `sat`   | `p * d / (1 + |d|)` (saturating)         | `- * / + abs`         |
  | `kink`  | `d` if `d < 0` else `p * d`              | `- * <`               |
  | `expm`  | `exp(p * d) - 1`                         | `exp` (libm)          |

  Protocol (floats are 16-hex-digit bit patterns; a lane is `kind p q lo hi`):
  * `eval n (kind p q x)*n`                      -> `ok f1 … fn`
  * `bisect tol maxiter n lane*n`                -> `ok iters res*n xmin*n xmax*n` | `err <kind>`
  * `chand epsM epsA maxiter n lane*n`           -> `ok iters xm*n` | `err <kind>`
  * `chands epsM epsA maxiter lane`              -> `ok iters xm` | `err <kind>`  (scalar branch)
-/
namespace CopVerif.Driver
open CopVerif CopVerif.IO

/-- one lane's function. -/
def specFn (kind : String) (p q x : Float) : Float :=
  match kind with
  | "lin" => p * (x - q)
  | "aff" => p * x - q
  | "cubic" => let d := x - q; p * (d * d * d)
  | "quint" => let d := x - q; p * (d * d * d * d * d)
  | "sat" => let d := x - q; p * d / (1.0 + Float.abs d)
  | "kink" => let d := x - q; if d < 0.0 then d else p * d
  | "expm" => Float.exp (p * (x - q)) - 1.0
  | _ => 0.0 / 0.0

structure Lane where
  kind : String
  p : Float
  q : Float
  lo : Float
  hi : Float

def parseLanes : List String → Option (List Lane)
  | [] => some []
  | k :: p :: q :: lo :: hi :: rest => do
    let p ← parseFloat p
    let q ← parseFloat q
    let lo ← parseFloat lo
    let hi ← parseFloat hi
    let ls ← parseLanes rest
    pure ({ kind := k, p := p, q := q, lo := lo, hi := hi } :: ls)
  | _ => none

def lanesFn (ls : List Lane) : Nat → Float → Float :=
  let arr := ls.toArray
  fun i x => match arr[i]? with
    | some l => specFn l.kind l.p l.q x
    | none => 0.0 / 0.0

def rootfind (ws : List String) : String :=
  match ws with
  | "eval" :: _n :: rest =>
    let rec go : List String → Option (List Float)
      | [] => some []
      | k :: p :: q :: x :: rest => do
        let p ← parseFloat p
        let q ← parseFloat q
        let x ← parseFloat x
        let r ← go rest
        pure (specFn k p q x :: r)
      | _ => none
    match go rest with
    | some ys => "ok " ++ showFloats ys
    | none => "bad-op"
  | "bisect" :: tol :: maxiter :: _n :: rest =>
    match parseFloat tol, parseNat maxiter, parseLanes rest with
    | some tol, some maxiter, some ls =>
      match Model.bisect (Model.evalLanes (lanesFn ls)) (ls.map (·.lo)) (ls.map (·.hi)) tol maxiter with
      | .ok out => s!"ok {out.iters} " ++ showFloats (out.result ++ out.xmin ++ out.xmax)
      | .error e => "err " ++ toString e
    | _, _, _ => "bad-op"
  | "chand" :: epsM :: epsA :: maxiter :: _n :: rest =>
    match parseFloat epsM, parseFloat epsA, parseNat maxiter, parseLanes rest with
    | some epsM, some epsA, some maxiter, some ls =>
      match Model.chandrupatla (Model.evalLanes (lanesFn ls)) (ls.map (·.lo)) (ls.map (·.hi))
          epsM epsA maxiter with
      | .ok (k, xm) => s!"ok {k} " ++ showFloats xm
      | .error e => "err " ++ toString e
    | _, _, _, _ => "bad-op"
  | "chands" :: epsM :: epsA :: maxiter :: rest =>
    match parseFloat epsM, parseFloat epsA, parseNat maxiter, parseLanes rest with
    | some epsM, some epsA, some maxiter, some [l] =>
      match Model.chandrupatlaScalar (specFn l.kind l.p l.q) l.lo l.hi epsM epsA maxiter with
      | .ok (k, xm) => s!"ok {k} " ++ showFloat xm
      | .error e => "err " ++ toString e
    | _, _, _, _ => "bad-op"
  | _ => "bad-op"

end CopVerif.Driver
