import CopVerif.Driver.Biv
