import Mathlib.Tactic.Ring
import Mathlib.Tactic.FieldSimp
import CopVerif.Real.Inst
/-!
  `bridge [defs…]` — the robust tactic for bridge lemmas `Gen.X.f … = Spec.f …`: unfold both sides
  with `simp`, then let `ring_nf` / `field_simp` absorb harmless rewrites of the Python formula
  (reordered factors, a named sub-expression, `**` for `np.power`, …).  A change of meaning leaves
  an unsolved goal and the bridge fails: a broken proof obligation.
-/
open Lean.Parser.Tactic in
macro "bridge" "[" ls:simpLemma,* "]" : tactic =>
  `(tactic| first
    | (simp [$ls,*]; done)
    | (simp [$ls,*] <;> ring_nf <;> done)
    | (simp [$ls,*] <;> ring_nf <;> simp <;> done)
    | (simp [$ls,*] <;> field_simp <;> done)
    | (simp [$ls,*] <;> field_simp <;> ring_nf <;> done)
    -- sign bookkeeping inside exponents (`θ / (-1 - θ)` written as `-(θ / (1 + θ))`, `-1 / θ` as `-(1 / θ)`):
    -- `ring_nf` does not look under `rpow`, so normalise negations and subtractions by rewriting
    | (simp only [$ls,*, sub_eq_add_neg, ← neg_add, div_neg, neg_div, one_div] <;> done)
    | (simp [$ls,*] <;> simp only [sub_eq_add_neg, ← neg_add, div_neg, neg_div, one_div] <;> done)
    | (simp [$ls,*] <;> simp only [sub_eq_add_neg, ← neg_add, div_neg, neg_div, one_div] <;> ring_nf <;> done))
