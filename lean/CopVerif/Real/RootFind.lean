import Mathlib.Topology.Order.IntermediateValue
import Mathlib.Topology.Algebra.Order.Field
import CopVerif.Real.Inst
import CopVerif.Model.RootFind

namespace CopVerif.RootFind
open CopVerif CopVerif.Model

/-! ## numpy primitives at ℝ -/
@[simp] theorem maxNP_real (a b : ℝ) : maxNP a b = max a b := by
  unfold maxNP; simp only [isNaN_real]; rcases lt_or_ge b a with h | h
  · simp [h, max_eq_left h.le]
  · simp [not_lt.mpr h, max_eq_right h]

@[simp] theorem minNP_real (a b : ℝ) : minNP a b = min a b := by
  unfold minNP; simp only [isNaN_real]; rcases lt_or_ge a b with h | h
  · simp [h, min_eq_left h.le]
  · simp [not_lt.mpr h, min_eq_right h]

@[simp] theorem mid_real (a b : ℝ) : mid a b = (a + b) / 2 := by simp [mid]

theorem clipNP_real (x lo hi : ℝ) : clipNP x lo hi = min (max x lo) hi := by
  unfold clipNP; simp only [isNaN_real]
  rcases lt_or_ge lo x with h | h
  · rcases lt_or_ge x hi with h' | h'
    · simp [h, h', max_eq_left h.le, min_eq_left h'.le]
    · simp [h, not_lt.mpr h', max_eq_left h.le, min_eq_right h']
  · rcases lt_or_ge lo hi with h' | h'
    · simp [not_lt.mpr h, h', max_eq_right h, min_eq_left h'.le]
    · simp [not_lt.mpr h, not_lt.mpr h', max_eq_right h, min_eq_right h']

theorem clipNP_mem {x lo hi : ℝ} (h : lo ≤ hi) : lo ≤ clipNP x lo hi ∧ clipNP x lo hi ≤ hi := by
  rw [clipNP_real]; exact ⟨le_min (le_max_right _ _) h, min_le_right _ _⟩

theorem foldl_max_ge (xs : List ℝ) (x : ℝ) :
    x ≤ xs.foldl maxNP x ∧ ∀ y ∈ xs, y ≤ xs.foldl maxNP x := by
  induction xs generalizing x with
  | nil => simp
  | cons z zs ih =>
    simp only [List.foldl_cons, maxNP_real, List.mem_cons, forall_eq_or_imp]
    obtain ⟨h1, h2⟩ := ih (max x z)
    exact ⟨le_trans (le_max_left _ _) h1, le_trans (le_max_right _ _) h1, h2⟩

theorem arrMax_ge {l : List ℝ} {w : ℝ} (h : arrMax l = some w) : ∀ y ∈ l, y ≤ w := by
  cases l with
  | nil => simp [arrMax] at h
  | cons x xs =>
    simp only [arrMax, Option.some.injEq] at h
    subst h
    intro y hy
    rcases List.mem_cons.mp hy with rfl | hy
    · exact (foldl_max_ge xs _).1
    · exact (foldl_max_ge xs x).2 y hy

theorem arrMax_isSome {l : List ℝ} (h : l ≠ []) : ∃ w, arrMax l = some w := by
  cases l with
  | nil => exact absurd rfl h
  | cons x xs => exact ⟨_, rfl⟩

/-! ## bisect: lanes -/

/-- one lane of `bisectStep` on its own. -/
noncomputable def bisectLane (f : ℝ → ℝ) (p : ℝ × ℝ) : ℝ × ℝ :=
  bisectUpd (f (mid p.1 p.2)) (mid p.1 p.2) p

theorem bisectStep_evalLanes (fs : ℕ → ℝ → ℝ) (s : List (ℝ × ℝ)) :
    bisectStep (evalLanes fs) s = s.mapIdx (fun i p => bisectLane (fs i) p) := by
  apply List.ext_getElem
  · simp [bisectStep, evalLanes]
  · intro i h1 h2
    simp [bisectStep, evalLanes, bisectLane]

theorem bisectStep_iterate (fs : ℕ → ℝ → ℝ) (k : ℕ) (s : List (ℝ × ℝ)) :
    (bisectStep (evalLanes fs))^[k] s = s.mapIdx (fun i p => (bisectLane (fs i))^[k] p) := by
  induction k generalizing s with
  | zero => apply List.ext_getElem <;> simp
  | succ k ih =>
    rw [Function.iterate_succ_apply, bisectStep_evalLanes, ih]
    apply List.ext_getElem
    · simp
    · intro i h1 h2
      simp

theorem bisectStep_iterate_getElem? (fs : ℕ → ℝ → ℝ) (k : ℕ) (s : List (ℝ × ℝ)) (i : ℕ) :
    ((bisectStep (evalLanes fs))^[k] s)[i]? = (s[i]?).map ((bisectLane (fs i))^[k]) := by
  rw [bisectStep_iterate]; simp [List.getElem?_mapIdx]

theorem bisectStep_iterate_length (fs : ℕ → ℝ → ℝ) (k : ℕ) (s : List (ℝ × ℝ)) :
    ((bisectStep (evalLanes fs))^[k] s).length = s.length := by
  rw [bisectStep_iterate]; simp

/-- the per-lane invariant after `k` iterations, relative to the initial bracket `[lo₀, hi₀]`. -/
structure BisInv (f : ℝ → ℝ) (lo₀ hi₀ : ℝ) (k : ℕ) (p : ℝ × ℝ) : Prop where
  lo_le : lo₀ ≤ p.1
  le : p.1 ≤ p.2
  le_hi : p.2 ≤ hi₀
  flo : f p.1 ≤ 0
  fhi : 0 ≤ f p.2
  width : p.2 - p.1 ≤ (hi₀ - lo₀) / 2 ^ k

theorem BisInv.init {f : ℝ → ℝ} {lo hi : ℝ} (h : lo ≤ hi) (hlo : f lo ≤ 0) (hhi : 0 ≤ f hi) :
    BisInv f lo hi 0 (lo, hi) := ⟨le_refl _, h, le_refl _, hlo, hhi, by simp⟩

theorem BisInv.step {f : ℝ → ℝ} {lo₀ hi₀ : ℝ} {k : ℕ} {p : ℝ × ℝ} (h : BisInv f lo₀ hi₀ k p) :
    BisInv f lo₀ hi₀ (k + 1) (bisectLane f p) := by
  obtain ⟨h1, h2, h3, h4, h5, h6⟩ := h
  have hw : (hi₀ - lo₀) / 2 ^ (k + 1) = (hi₀ - lo₀) / 2 ^ k / 2 := by rw [pow_succ, div_div]
  have hm1 : p.1 ≤ (p.1 + p.2) / 2 := by linarith
  have hm2 : (p.1 + p.2) / 2 ≤ p.2 := by linarith
  unfold bisectLane bisectUpd
  simp only [mid_real, ofNat_real, Nat.cast_zero]
  rcases lt_trichotomy (f ((p.1 + p.2) / 2)) 0 with hf | hf | hf
  · rw [if_pos hf.le, if_neg (not_le.mpr hf)]
    exact ⟨by linarith, hm2, h3, hf.le, h5, by rw [hw]; dsimp only; linarith⟩
  · rw [if_pos hf.le, if_pos hf.ge]
    have hnn : 0 ≤ (hi₀ - lo₀) / 2 ^ (k + 1) := by
      rw [hw]; linarith
    exact ⟨by linarith, le_refl _, by linarith, hf.le, hf.ge, by simpa using hnn⟩
  · rw [if_neg (not_le.mpr hf), if_pos hf.le]
    exact ⟨h1, hm1, by linarith, h4, hf.le, by rw [hw]; dsimp only; linarith⟩

theorem BisInv.iterate {f : ℝ → ℝ} {lo₀ hi₀ : ℝ} {p : ℝ × ℝ} (h : BisInv f lo₀ hi₀ 0 p) (k : ℕ) :
    BisInv f lo₀ hi₀ k ((bisectLane f)^[k] p) := by
  induction k with
  | zero => exact h
  | succ k ih => rw [Function.iterate_succ_apply']; exact ih.step

/-- IVT: a lane satisfying the invariant and continuous on its current bracket has a root in it,
    at distance at most half the width from the midpoint. -/
theorem BisInv.root {f : ℝ → ℝ} {lo₀ hi₀ : ℝ} {k : ℕ} {p : ℝ × ℝ} (h : BisInv f lo₀ hi₀ k p)
    (hc : ContinuousOn f (Set.Icc lo₀ hi₀)) :
    ∃ r, p.1 ≤ r ∧ r ≤ p.2 ∧ f r = 0 ∧ |mid p.1 p.2 - r| ≤ (p.2 - p.1) / 2 := by
  have hc' : ContinuousOn f (Set.Icc p.1 p.2) :=
    hc.mono (Set.Icc_subset_Icc h.lo_le h.le_hi)
  obtain ⟨r, ⟨hr1, hr2⟩, hr⟩ := intermediate_value_Icc h.le hc' ⟨h.flo, h.fhi⟩
  refine ⟨r, hr1, hr2, hr, ?_⟩
  rw [mid_real, abs_le]; constructor <;> linarith

end CopVerif.RootFind
