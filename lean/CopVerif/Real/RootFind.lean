import Mathlib.Topology.Order.IntermediateValue
import Mathlib.Topology.Algebra.Order.Field
import CopVerif.Real.Inst
import CopVerif.Model.RootFind

/-!
  Facts over ℝ about the hand-written root-finder models `CopVerif.Model.bisect` and
  `CopVerif.Model.chandrupatla` (property C18).  Method: for an element-wise function
  `evalLanes fs` one loop body on the batch is `mapIdx` of a per-lane body (`bisectLane`,
  `chLaneStep`); the loops return an iterate of the body whose index is shared by all lanes;
  per-lane invariants (`BisInv`, `ChInv`/`ChMidInv`) plus the intermediate value theorem give the
  bracket/root statements.
-/
namespace CopVerif.RootFind
open CopVerif CopVerif.Model

/-! ## numpy primitives at ℝ -/
@[simp] theorem maxNP_real (a b : ℝ) : maxNP a b = max a b := by
  unfold maxNP; simp only [isNaN_real]; rcases lt_or_ge b a with h | h
  · simp [h, max_eq_left h.le]
  · simp [not_lt.mpr h, max_eq_right h]

@[simp] theorem minNP_real (a b : ℝ) : minNP a b = min a b := by
  unfold minNP; simp only [isNaN_real]; rcases lt_or_ge a b with h | h
  · simp [h, min_eq_left h.le]
  · simp [not_lt.mpr h, min_eq_right h]

@[simp] theorem mid_real (a b : ℝ) : mid a b = (a + b) / 2 := by simp [mid]

theorem clipNP_real (x lo hi : ℝ) : clipNP x lo hi = min (max x lo) hi := by
  unfold clipNP; simp only [isNaN_real]
  rcases lt_or_ge lo x with h | h
  · rcases lt_or_ge x hi with h' | h'
    · simp [h, h', max_eq_left h.le, min_eq_left h'.le]
    · simp [h, not_lt.mpr h', max_eq_left h.le, min_eq_right h']
  · rcases lt_or_ge lo hi with h' | h'
    · simp [not_lt.mpr h, h', max_eq_right h, min_eq_left h'.le]
    · simp [not_lt.mpr h, not_lt.mpr h', max_eq_right h, min_eq_right h']

theorem clipNP_mem {x lo hi : ℝ} (h : lo ≤ hi) : lo ≤ clipNP x lo hi ∧ clipNP x lo hi ≤ hi := by
  rw [clipNP_real]; exact ⟨le_min (le_max_right _ _) h, min_le_right _ _⟩

theorem foldl_max_ge (xs : List ℝ) (x : ℝ) :
    x ≤ xs.foldl maxNP x ∧ ∀ y ∈ xs, y ≤ xs.foldl maxNP x := by
  induction xs generalizing x with
  | nil => simp
  | cons z zs ih =>
    simp only [List.foldl_cons, maxNP_real, List.mem_cons, forall_eq_or_imp]
    obtain ⟨h1, h2⟩ := ih (max x z)
    exact ⟨le_trans (le_max_left _ _) h1, le_trans (le_max_right _ _) h1, h2⟩

theorem arrMax_ge {l : List ℝ} {w : ℝ} (h : arrMax l = some w) : ∀ y ∈ l, y ≤ w := by
  cases l with
  | nil => simp [arrMax] at h
  | cons x xs =>
    simp only [arrMax, Option.some.injEq] at h
    subst h
    intro y hy
    rcases List.mem_cons.mp hy with rfl | hy
    · exact (foldl_max_ge xs _).1
    · exact (foldl_max_ge xs x).2 y hy

theorem arrMax_isSome {l : List ℝ} (h : l ≠ []) : ∃ w, arrMax l = some w := by
  cases l with
  | nil => exact absurd rfl h
  | cons x xs => exact ⟨_, rfl⟩

/-! ## bisect: lanes -/

/-- one lane of `bisectStep` on its own. -/
noncomputable def bisectLane (f : ℝ → ℝ) (p : ℝ × ℝ) : ℝ × ℝ :=
  bisectUpd (f (mid p.1 p.2)) (mid p.1 p.2) p

theorem bisectStep_evalLanes (fs : ℕ → ℝ → ℝ) (s : List (ℝ × ℝ)) :
    bisectStep (evalLanes fs) s = s.mapIdx (fun i p => bisectLane (fs i) p) := by
  apply List.ext_getElem
  · simp [bisectStep, evalLanes]
  · intro i h1 h2
    simp [bisectStep, evalLanes, bisectLane]

theorem bisectStep_iterate (fs : ℕ → ℝ → ℝ) (k : ℕ) (s : List (ℝ × ℝ)) :
    (bisectStep (evalLanes fs))^[k] s = s.mapIdx (fun i p => (bisectLane (fs i))^[k] p) := by
  induction k generalizing s with
  | zero => apply List.ext_getElem <;> simp
  | succ k ih =>
    rw [Function.iterate_succ_apply, bisectStep_evalLanes, ih]
    apply List.ext_getElem
    · simp
    · intro i h1 h2
      simp

theorem bisectStep_iterate_getElem? (fs : ℕ → ℝ → ℝ) (k : ℕ) (s : List (ℝ × ℝ)) (i : ℕ) :
    ((bisectStep (evalLanes fs))^[k] s)[i]? = (s[i]?).map ((bisectLane (fs i))^[k]) := by
  rw [bisectStep_iterate]; simp [List.getElem?_mapIdx]

theorem bisectStep_iterate_length (fs : ℕ → ℝ → ℝ) (k : ℕ) (s : List (ℝ × ℝ)) :
    ((bisectStep (evalLanes fs))^[k] s).length = s.length := by
  rw [bisectStep_iterate]; simp

/-- the per-lane invariant after `k` iterations, relative to the initial bracket `[lo₀, hi₀]`. -/
structure BisInv (f : ℝ → ℝ) (lo₀ hi₀ : ℝ) (k : ℕ) (p : ℝ × ℝ) : Prop where
  lo_le : lo₀ ≤ p.1
  le : p.1 ≤ p.2
  le_hi : p.2 ≤ hi₀
  flo : f p.1 ≤ 0
  fhi : 0 ≤ f p.2
  width : p.2 - p.1 ≤ (hi₀ - lo₀) / 2 ^ k

theorem BisInv.init {f : ℝ → ℝ} {lo hi : ℝ} (h : lo ≤ hi) (hlo : f lo ≤ 0) (hhi : 0 ≤ f hi) :
    BisInv f lo hi 0 (lo, hi) := ⟨le_refl _, h, le_refl _, hlo, hhi, by simp⟩

theorem BisInv.step {f : ℝ → ℝ} {lo₀ hi₀ : ℝ} {k : ℕ} {p : ℝ × ℝ} (h : BisInv f lo₀ hi₀ k p) :
    BisInv f lo₀ hi₀ (k + 1) (bisectLane f p) := by
  obtain ⟨h1, h2, h3, h4, h5, h6⟩ := h
  have hw : (hi₀ - lo₀) / 2 ^ (k + 1) = (hi₀ - lo₀) / 2 ^ k / 2 := by rw [pow_succ, div_div]
  have hm1 : p.1 ≤ (p.1 + p.2) / 2 := by linarith
  have hm2 : (p.1 + p.2) / 2 ≤ p.2 := by linarith
  unfold bisectLane bisectUpd
  simp only [mid_real, ofNat_real, Nat.cast_zero]
  rcases lt_trichotomy (f ((p.1 + p.2) / 2)) 0 with hf | hf | hf
  · rw [if_pos hf.le, if_neg (not_le.mpr hf)]
    exact ⟨by linarith, hm2, h3, hf.le, h5, by rw [hw]; dsimp only; linarith⟩
  · rw [if_pos hf.le, if_pos hf.ge]
    have hnn : 0 ≤ (hi₀ - lo₀) / 2 ^ (k + 1) := by
      rw [hw]; linarith
    exact ⟨by linarith, le_refl _, by linarith, hf.le, hf.ge, by simpa using hnn⟩
  · rw [if_neg (not_le.mpr hf), if_pos hf.le]
    exact ⟨h1, hm1, by linarith, h4, hf.le, by rw [hw]; dsimp only; linarith⟩

theorem BisInv.iterate {f : ℝ → ℝ} {lo₀ hi₀ : ℝ} {p : ℝ × ℝ} (h : BisInv f lo₀ hi₀ 0 p) (k : ℕ) :
    BisInv f lo₀ hi₀ k ((bisectLane f)^[k] p) := by
  induction k with
  | zero => exact h
  | succ k ih => rw [Function.iterate_succ_apply']; exact ih.step

/-- IVT: a lane satisfying the invariant and continuous on its current bracket has a root in it,
    at distance at most half the width from the midpoint. -/
theorem BisInv.root {f : ℝ → ℝ} {lo₀ hi₀ : ℝ} {k : ℕ} {p : ℝ × ℝ} (h : BisInv f lo₀ hi₀ k p)
    (hc : ContinuousOn f (Set.Icc lo₀ hi₀)) :
    ∃ r, p.1 ≤ r ∧ r ≤ p.2 ∧ f r = 0 ∧ |mid p.1 p.2 - r| ≤ (p.2 - p.1) / 2 := by
  have hc' : ContinuousOn f (Set.Icc p.1 p.2) :=
    hc.mono (Set.Icc_subset_Icc h.lo_le h.le_hi)
  obtain ⟨r, ⟨hr1, hr2⟩, hr⟩ := intermediate_value_Icc h.le hc' ⟨h.flo, h.fhi⟩
  refine ⟨r, hr1, hr2, hr, ?_⟩
  rw [mid_real, abs_le]; constructor <;> linarith

/-! ## bisect: the loop and the whole function -/

theorem bisectLoop_spec (f : List ℝ → List ℝ) (tol : ℝ) :
    ∀ (fuel k : ℕ) (s : List (ℝ × ℝ)) (r : ℕ × List (ℝ × ℝ)),
      bisectLoop f tol fuel k s = .ok r →
      ∃ j, j ≤ fuel ∧ r = (k + j, (bisectStep f)^[j] s) ∧
        (j = fuel ∨ ∃ w, arrMax (widths r.2) = some w ∧ w < tol) := by
  intro fuel
  induction fuel with
  | zero =>
    intro k s r h
    simp only [bisectLoop, Except.ok.injEq] at h
    exact ⟨0, le_refl _, by simp [← h], Or.inl rfl⟩
  | succ n ih =>
    intro k s r h
    unfold bisectLoop at h
    simp only at h
    split at h
    · cases h
    · rename_i w hw
      split at h
      · rename_i hlt
        simp only [Except.ok.injEq] at h
        subst h
        exact ⟨1, by omega, by simp, Or.inr ⟨w, hw, hlt⟩⟩
      · obtain ⟨j, hj, hr, hex⟩ := ih _ _ _ h
        refine ⟨j + 1, by omega, ?_, ?_⟩
        · rw [hr, Function.iterate_succ_apply]; congr 1; omega
        · rcases hex with hex | hex
          · exact Or.inl (by omega)
          · exact Or.inr hex

theorem bisectLoop_ok (f : List ℝ → List ℝ) (hlen : ∀ s, (bisectStep f s).length = s.length) (tol : ℝ) :
    ∀ (fuel k : ℕ) (s : List (ℝ × ℝ)), s ≠ [] → ∃ r, bisectLoop f tol fuel k s = .ok r := by
  intro fuel
  induction fuel with
  | zero => intro k s _; exact ⟨_, rfl⟩
  | succ n ih =>
    intro k s hs
    have hs' : bisectStep f s ≠ [] := by
      intro h; apply hs; apply List.eq_nil_of_length_eq_zero; rw [← hlen s, h]; rfl
    have hw : widths (bisectStep f s) ≠ [] := by
      simpa [widths] using hs'
    obtain ⟨w, hw⟩ := arrMax_isSome hw
    unfold bisectLoop
    simp only [hw]
    split
    · exact ⟨_, rfl⟩
    · exact ih _ _ hs'

/-- element-wise brackets `f(xmin) ≤ 0 ≤ f(xmax)`, `xmin ≤ xmax`, one per lane. -/
structure ValidBrackets (fs : ℕ → ℝ → ℝ) (xmin xmax : List ℝ) : Prop where
  len : xmin.length = xmax.length
  lane : ∀ i lo hi, xmin[i]? = some lo → xmax[i]? = some hi → lo ≤ hi ∧ fs i lo ≤ 0 ∧ 0 ≤ fs i hi

theorem all_evalLanes (fs : ℕ → ℝ → ℝ) (xs : List ℝ) (p : ℝ → Bool) :
    (evalLanes fs xs).all p = true ↔ ∀ i x, xs[i]? = some x → p (fs i x) = true := by
  simp only [evalLanes, List.all_eq_true, List.mem_iff_getElem?, List.getElem?_mapIdx]
  constructor
  · intro h i x hx
    exact h _ ⟨i, by simp [hx]⟩
  · rintro h y ⟨i, hi⟩
    cases hx : xs[i]? with
    | none => simp [hx] at hi
    | some x => simp [hx] at hi; subst hi; exact h i x hx

theorem bisect_checks_pass {fs : ℕ → ℝ → ℝ} {xmin xmax : List ℝ} (hv : ValidBrackets fs xmin xmax) :
    ((evalLanes fs xmin).all fun y => decide (y ≤ NumFns.ofNat 0)) = true ∧
    ((evalLanes fs xmax).all fun y => decide (NumFns.ofNat 0 ≤ y)) = true := by
  constructor
  · rw [all_evalLanes]; intro i x hx
    have hi : i < xmax.length := by rw [← hv.len]; exact (List.getElem?_eq_some_iff.mp hx).1
    simpa using (hv.lane i x xmax[i] hx (List.getElem?_eq_getElem hi)).2.1
  · rw [all_evalLanes]; intro i x hx
    have hi : i < xmin.length := by rw [hv.len]; exact (List.getElem?_eq_some_iff.mp hx).1
    simpa using (hv.lane i xmin[i] x (List.getElem?_eq_getElem hi) hx).2.2

/-- What `bisect` returns on valid element-wise brackets: the `K`-th iterate of the loop body for
    some `K ≤ maxiter`, where either the cap was reached or every lane's width is below `tol`. -/
theorem bisect_eq_iterate {fs : ℕ → ℝ → ℝ} {xmin xmax : List ℝ} (hv : ValidBrackets fs xmin xmax)
    (hne : xmin ≠ []) (tol : ℝ) (maxiter : ℕ) :
    ∃ out K, bisect (evalLanes fs) xmin xmax tol maxiter = .ok out ∧ K ≤ maxiter ∧ out.iters = K ∧
      out.xmin = ((bisectStep (evalLanes fs))^[K] (xmin.zip xmax)).map Prod.fst ∧
      out.xmax = ((bisectStep (evalLanes fs))^[K] (xmin.zip xmax)).map Prod.snd ∧
      out.result = ((bisectStep (evalLanes fs))^[K] (xmin.zip xmax)).map (fun p => mid p.1 p.2) ∧
      (K = maxiter ∨ ∀ p ∈ (bisectStep (evalLanes fs))^[K] (xmin.zip xmax), p.2 - p.1 < tol) := by
  obtain ⟨h1, h2⟩ := bisect_checks_pass hv
  have hz : xmin.zip xmax ≠ [] := by
    intro h
    have := congrArg List.length h
    simp only [List.length_zip, List.length_nil, ← hv.len, min_self] at this
    exact hne (List.eq_nil_of_length_eq_zero this)
  obtain ⟨r, hr⟩ := bisectLoop_ok (evalLanes fs)
    (fun s => by simpa using bisectStep_iterate_length fs 1 s) tol maxiter 0 _ hz
  obtain ⟨j, hj, hrj, hex⟩ := bisectLoop_spec _ _ _ _ _ _ hr
  subst hrj
  refine ⟨{ result := ((bisectStep (evalLanes fs))^[j] (xmin.zip xmax)).map fun p => mid p.1 p.2
            xmin := ((bisectStep (evalLanes fs))^[j] (xmin.zip xmax)).map (·.1)
            xmax := ((bisectStep (evalLanes fs))^[j] (xmin.zip xmax)).map (·.2)
            iters := 0 + j }, j, ?_, hj, by simp, rfl, rfl, rfl, ?_⟩
  · unfold bisect
    simp only [h1, h2, hr]
    rfl
  · rcases hex with hex | ⟨w, hw, hlt⟩
    · exact Or.inl hex
    · right
      intro p hp
      have := arrMax_ge hw (p.2 - p.1) (by simp only [widths]; exact List.mem_map_of_mem hp)
      linarith


/-- lane `i` of the batch after `K` iterations is lane `i` iterated alone. -/
theorem iterate_lane_getElem? (fs : ℕ → ℝ → ℝ) (K : ℕ) {xmin xmax : List ℝ} {i : ℕ} {lo hi : ℝ}
    (hlo : xmin[i]? = some lo) (hhi : xmax[i]? = some hi) :
    ((bisectStep (evalLanes fs))^[K] (xmin.zip xmax))[i]? = some ((bisectLane (fs i))^[K] (lo, hi)) := by
  rw [bisectStep_iterate_getElem?]
  have : (xmin.zip xmax)[i]? = some (lo, hi) := by
    rw [List.getElem?_zip_eq_some]; exact ⟨hlo, hhi⟩
  rw [this]; rfl

/-- Everything the property says about one lane of a successful `bisect` call. -/
structure BisectLaneOK (f : ℝ → ℝ) (lo hi tol : ℝ) (maxiter K : ℕ) (lo' hi' x : ℝ) : Prop where
  iterate : (lo', hi') = (bisectLane f)^[K] (lo, hi)
  inv : BisInv f lo hi K (lo', hi')
  mid : x = (lo' + hi') / 2
  inside : lo ≤ x ∧ x ≤ hi
  exit : K < maxiter → hi' - lo' < tol

theorem bisect_lanes_ok {fs : ℕ → ℝ → ℝ} {xmin xmax : List ℝ} (hv : ValidBrackets fs xmin xmax)
    (hne : xmin ≠ []) (tol : ℝ) (maxiter : ℕ) :
    ∃ out K, bisect (evalLanes fs) xmin xmax tol maxiter = .ok out ∧ K ≤ maxiter ∧ out.iters = K ∧
      ∀ i lo hi, xmin[i]? = some lo → xmax[i]? = some hi →
        ∃ lo' hi' x, out.xmin[i]? = some lo' ∧ out.xmax[i]? = some hi' ∧ out.result[i]? = some x ∧
          BisectLaneOK (fs i) lo hi tol maxiter K lo' hi' x := by
  obtain ⟨out, K, hout, hK, hit, hxmin, hxmax, hres, hex⟩ := bisect_eq_iterate hv hne tol maxiter
  refine ⟨out, K, hout, hK, hit, ?_⟩
  intro i lo hi hlo hhi
  have hs := iterate_lane_getElem? fs K hlo hhi
  obtain ⟨hle, hflo, hfhi⟩ := hv.lane i lo hi hlo hhi
  have hinv := (BisInv.init hle hflo hfhi).iterate (f := fs i) K
  set p := (bisectLane (fs i))^[K] (lo, hi) with hp
  refine ⟨p.1, p.2, mid p.1 p.2, ?_, ?_, ?_, ⟨rfl, hinv, by simp, ?_, ?_⟩⟩
  · rw [hxmin, List.getElem?_map, hs]; rfl
  · rw [hxmax, List.getElem?_map, hs]; rfl
  · rw [hres, List.getElem?_map, hs]; rfl
  · have := hinv.lo_le; have := hinv.le; have := hinv.le_hi
    rw [mid_real]; constructor <;> linarith
  · intro hlt
    rcases hex with hex | hex
    · omega
    · exact hex p (List.mem_of_getElem? hs)

theorem bisect_rejects_lo {fs : ℕ → ℝ → ℝ} {xmin : List ℝ} {i : ℕ} {lo : ℝ} (hlo : xmin[i]? = some lo)
    (hbad : 0 < fs i lo) (xmax : List ℝ) (tol : ℝ) (maxiter : ℕ) :
    bisect (evalLanes fs) xmin xmax tol maxiter = .error .assertion := by
  have h : ((evalLanes fs xmin).all fun y => decide (y ≤ NumFns.ofNat 0)) = false := by
    rw [Bool.eq_false_iff, Ne, all_evalLanes]
    intro h
    have := h i lo hlo
    simp at this; linarith
  unfold bisect; simp only [h, Bool.not_false, ↓reduceIte]

theorem bisect_rejects_hi {fs : ℕ → ℝ → ℝ} {xmax : List ℝ} {i : ℕ} {hi : ℝ} (hhi : xmax[i]? = some hi)
    (hbad : fs i hi < 0) (xmin : List ℝ) (tol : ℝ) (maxiter : ℕ) :
    bisect (evalLanes fs) xmin xmax tol maxiter = .error .assertion := by
  have h : ((evalLanes fs xmax).all fun y => decide (NumFns.ofNat 0 ≤ y)) = false := by
    rw [Bool.eq_false_iff, Ne, all_evalLanes]
    intro h
    have := h i hi hhi
    simp at this; linarith
  unfold bisect
  by_cases h1 : ((evalLanes fs xmin).all fun y => decide (y ≤ NumFns.ofNat 0)) = true
  · simp only [h1, h, Bool.not_true, Bool.not_false, Bool.false_eq_true, ↓reduceIte]
  · simp only [Bool.eq_false_iff.mpr h1, Bool.not_false, ↓reduceIte]

/-- the body of a one-lane batch is the lane step. -/
theorem bisectStep_singleton (f : ℝ → ℝ) (k : ℕ) (p : ℝ × ℝ) :
    (bisectStep (evalLanes fun _ => f))^[k] [p] = [(bisectLane f)^[k] p] := by
  rw [bisectStep_iterate]; rfl

/-! ## chandrupatla: primitives at ℝ -/

theorem signNP_real (x : ℝ) :
    signNP x = if x < 0 then -1 else if 0 < x then 1 else 0 := by
  simp [signNP]

theorem signNP_cases (x : ℝ) :
    (x < 0 ∧ signNP x = -1) ∨ (x = 0 ∧ signNP x = 0) ∨ (0 < x ∧ signNP x = 1) := by
  rw [signNP_real]
  rcases lt_trichotomy x 0 with h | h | h
  · left; simp [h]
  · right; left; simp [h]
  · right; right; simp [h, not_lt.mpr h.le]

/-- two different signs multiply to something `≤ 0`. -/
theorem signNP_mul_nonpos_of_ne {x y : ℝ} (h : signNP x ≠ signNP y) : signNP x * signNP y ≤ 0 := by
  rcases signNP_cases x with ⟨_, hx⟩ | ⟨_, hx⟩ | ⟨_, hx⟩ <;>
  rcases signNP_cases y with ⟨_, hy⟩ | ⟨_, hy⟩ | ⟨_, hy⟩ <;>
  rw [hx, hy] at h ⊢ <;> first | (exact absurd rfl h) | norm_num

/-- a sign bracket: `0` lies between the two values. -/
theorem zero_mem_uIcc_of_sign {x y : ℝ} (h : signNP x * signNP y ≤ 0) : (0:ℝ) ∈ Set.uIcc x y := by
  rw [Set.mem_uIcc]
  rcases signNP_cases x with ⟨hx', hx⟩ | ⟨hx', hx⟩ | ⟨hx', hx⟩ <;>
  rcases signNP_cases y with ⟨hy', hy⟩ | ⟨hy', hy⟩ | ⟨hy', hy⟩ <;>
  rw [hx, hy] at h <;> first | (norm_num at h; done) | (left; constructor <;> linarith) | (right; constructor <;> linarith)

theorem sign_mul_pos_of_same {x y : ℝ} (h : (0 < x ∧ 0 < y) ∨ (x < 0 ∧ y < 0)) :
    ¬ (signNP x * signNP y ≤ 0) := by
  rcases h with ⟨hx, hy⟩ | ⟨hx, hy⟩
  · simp [signNP_real, hx, hy, not_lt.mpr hx.le, not_lt.mpr hy.le]
  · simp [signNP_real, hx, hy]

/-! ## chandrupatla: lanes -/

/-- lines 98-120 for one lane on its own. -/
noncomputable def chLaneHalf (f : ℝ → ℝ) (epsM epsA : ℝ) (l : ChPre ℝ) : ChMid ℝ :=
  chUpd epsM epsA (chXt l) (f (chXt l)) l

/-- one full loop body for one lane on its own. -/
noncomputable def chLaneStep (f : ℝ → ℝ) (sq : ℝ → ℝ) (epsM epsA : ℝ) (l : ChPre ℝ) : ChPre ℝ :=
  chNext sq (chLaneHalf f epsM epsA l)

/-- one full loop body on the batch. -/
noncomputable def chStep (f : List ℝ → List ℝ) (sq : ℝ → ℝ) (epsM epsA : ℝ) (s : List (ChPre ℝ)) :
    List (ChPre ℝ) := (chHalf f epsM epsA s).map (chNext sq)

theorem chHalf_evalLanes (fs : ℕ → ℝ → ℝ) (epsM epsA : ℝ) (s : List (ChPre ℝ)) :
    chHalf (evalLanes fs) epsM epsA s = s.mapIdx (fun i l => chLaneHalf (fs i) epsM epsA l) := by
  apply List.ext_getElem
  · simp [chHalf, evalLanes]
  · intro i h1 h2
    simp [chHalf, evalLanes, chLaneHalf]

theorem chStep_evalLanes (fs : ℕ → ℝ → ℝ) (sq : ℝ → ℝ) (epsM epsA : ℝ) (s : List (ChPre ℝ)) :
    chStep (evalLanes fs) sq epsM epsA s = s.mapIdx (fun i l => chLaneStep (fs i) sq epsM epsA l) := by
  unfold chStep; rw [chHalf_evalLanes]
  apply List.ext_getElem
  · simp
  · intro i h1 h2; simp [chLaneStep]

theorem chStep_iterate (fs : ℕ → ℝ → ℝ) (sq : ℝ → ℝ) (epsM epsA : ℝ) (k : ℕ) (s : List (ChPre ℝ)) :
    (chStep (evalLanes fs) sq epsM epsA)^[k] s
      = s.mapIdx (fun i l => (chLaneStep (fs i) sq epsM epsA)^[k] l) := by
  induction k generalizing s with
  | zero => apply List.ext_getElem <;> simp
  | succ k ih =>
    rw [Function.iterate_succ_apply, chStep_evalLanes, ih]
    apply List.ext_getElem
    · simp
    · intro i h1 h2; simp

/-- the state at the `break` test of iteration `j+1`, lane by lane. -/
theorem chHalf_iterate_getElem? (fs : ℕ → ℝ → ℝ) (sq : ℝ → ℝ) (epsM epsA : ℝ) (j : ℕ)
    (s : List (ChPre ℝ)) (i : ℕ) :
    (chHalf (evalLanes fs) epsM epsA ((chStep (evalLanes fs) sq epsM epsA)^[j] s))[i]?
      = (s[i]?).map fun l => chLaneHalf (fs i) epsM epsA ((chLaneStep (fs i) sq epsM epsA)^[j] l) := by
  rw [chHalf_evalLanes, chStep_iterate]
  simp [List.getElem?_mapIdx, Function.comp_def]

/-- The loop: it stops after `j+1 ≤ fuel` bodies, returning the `xm` of the last one; it stops
    early only when every lane is flagged, and it did not stop at any earlier body. -/
theorem chLoop_spec (f : List ℝ → List ℝ) (sq : ℝ → ℝ) (epsM epsA : ℝ) :
    ∀ (fuel k : ℕ) (s : List (ChPre ℝ)) (xm0 : List ℝ), 0 < fuel →
      ∃ j, j < fuel ∧
        chLoop f sq epsM epsA fuel k s xm0
          = (k + j + 1, (chHalf f epsM epsA ((chStep f sq epsM epsA)^[j] s)).map (·.xm)) ∧
        (j + 1 = fuel ∨
          (chHalf f epsM epsA ((chStep f sq epsM epsA)^[j] s)).all (·.term) = true) ∧
        ∀ j' < j, (chHalf f epsM epsA ((chStep f sq epsM epsA)^[j'] s)).all (·.term) = false := by
  intro fuel
  induction fuel with
  | zero => intro k s xm0 h; omega
  | succ n ih =>
    intro k s xm0 _
    unfold chLoop
    simp only
    split
    · rename_i hall
      exact ⟨0, by omega, by simp, Or.inr (by simpa using hall), by intro j' hj'; omega⟩
    · rename_i hnall
      rcases Nat.eq_zero_or_pos n with hn | hn
      · subst hn
        exact ⟨0, by omega, by simp [chLoop], Or.inl rfl, by intro j' hj'; omega⟩
      · obtain ⟨j, hj, heq, hex, hprev⟩ := ih (k + 1) ((chHalf f epsM epsA s).map (chNext sq))
          ((chHalf f epsM epsA s).map (·.xm)) hn
        refine ⟨j + 1, by omega, ?_, ?_, ?_⟩
        · rw [heq, Function.iterate_succ_apply]
          simp only [chStep]; congr 1; omega
        · rw [Function.iterate_succ_apply]
          rcases hex with hex | hex
          · exact Or.inl (by omega)
          · exact Or.inr hex
        · intro j' hj'
          rcases Nat.eq_zero_or_pos j' with h0 | h0
          · subst h0
            simpa using hnall
          · obtain ⟨j'', rfl⟩ : ∃ j'', j' = j'' + 1 := ⟨j' - 1, by omega⟩
            rw [Function.iterate_succ_apply]
            exact hprev j'' (by omega)

/-! ## chandrupatla: the per-lane invariant -/

/-- invariant of one lane at the top of the loop body. -/
structure ChInv (f : ℝ → ℝ) (l : ChPre ℝ) : Prop where
  lohi : l.lo ≤ l.hi
  hfa : l.fa = f l.a
  hfb : l.fb = f l.b
  hfc : l.fc = f l.c
  sign : signNP l.fa * signNP l.fb ≤ 0
  a_mem : l.lo ≤ l.a ∧ l.a ≤ l.hi
  b_mem : l.lo ≤ l.b ∧ l.b ≤ l.hi
  c_mem : l.lo ≤ l.c ∧ l.c ≤ l.hi
  /-- a lane that has not been flagged interpolates inside its current bracket -/
  t_mem : l.term = false → 0 ≤ l.t ∧ l.t ≤ 1

/-- invariant of one lane at the `break` test. -/
structure ChMidInv (f : ℝ → ℝ) (epsM epsA : ℝ) (m : ChMid ℝ) : Prop where
  lohi : m.lo ≤ m.hi
  hfa : m.fa = f m.a
  hfb : m.fb = f m.b
  hfc : m.fc = f m.c
  sign : signNP m.fa * signNP m.fb ≤ 0
  a_mem : m.lo ≤ m.a ∧ m.a ≤ m.hi
  b_mem : m.lo ≤ m.b ∧ m.b ≤ m.hi
  c_mem : m.lo ≤ m.c ∧ m.c ≤ m.hi
  xm_end : (m.xm = m.a ∧ m.fm = m.fa) ∨ (m.xm = m.b ∧ m.fm = m.fb)
  fm_min : |m.fm| ≤ |m.fa| ∧ |m.fm| ≤ |m.fb|
  tlim_eq : m.tlim = (2 * epsM * |m.xm| + epsA) / |m.b - m.c|
  /-- an unflagged lane has `tlim ≤ 1/2` and `fm ≠ 0` -/
  unflagged : m.term = false → m.tlim ≤ 1 / 2 ∧ m.fm ≠ 0

theorem ChMidInv.hfm {f : ℝ → ℝ} {epsM epsA : ℝ} {m : ChMid ℝ} (h : ChMidInv f epsM epsA m) : m.fm = f m.xm := by
  rcases h.xm_end with ⟨h1, h2⟩ | ⟨h1, h2⟩
  · rw [h1, h2, h.hfa]
  · rw [h1, h2, h.hfb]

theorem ChMidInv.xm_mem {f : ℝ → ℝ} {epsM epsA : ℝ} {m : ChMid ℝ} (h : ChMidInv f epsM epsA m) : m.lo ≤ m.xm ∧ m.xm ≤ m.hi := by
  rcases h.xm_end with ⟨h1, _⟩ | ⟨h1, _⟩
  · rw [h1]; exact h.a_mem
  · rw [h1]; exact h.b_mem

theorem ChInv.init {f : ℝ → ℝ} {lo hi : ℝ} (hle : lo ≤ hi)
    (hs : signNP (f hi) * signNP (f lo) ≤ 0) : ChInv f (chInit lo hi (f hi) (f lo)) := by
  refine ⟨hle, rfl, rfl, rfl, hs, ⟨hle, le_refl _⟩, ⟨le_refl _, hle⟩, ⟨hle, le_refl _⟩, ?_⟩
  intro _; simp [chInit]; norm_num

theorem chXt_mem {l : ChPre ℝ} (h : l.lo ≤ l.hi) : l.lo ≤ chXt l ∧ chXt l ≤ l.hi := clipNP_mem h

/-- the first half of the body preserves the invariant (for ANY value `ft = f xt`). -/
theorem ChInv.half {f : ℝ → ℝ} {l : ChPre ℝ} (h : ChInv f l) (epsM epsA : ℝ) :
    ChMidInv f epsM epsA (chLaneHalf f epsM epsA l) := by
  obtain ⟨h0, h1, h2, h3, h4, h5, h6, h7, _⟩ := h
  have hx := chXt_mem h0
  have hterm : ∀ (t : Bool) (fm tlim : ℝ),
      (t || (NumFns.beq fm (NumFns.ofNat 0) || decide (NumFns.ofSci 5 1 < tlim))) = false →
      tlim ≤ 1 / 2 ∧ fm ≠ 0 := by
    intro t fm tlim ht
    simp only [Bool.or_eq_false_iff, decide_eq_false_iff_not, not_lt, beq_real_false, ofNat_real,
      Nat.cast_zero, ofSci_real] at ht
    exact ⟨by have := ht.2.2; norm_num at this; linarith, ht.2.1⟩
  unfold chLaneHalf chUpd
  by_cases hs : signNP (f (chXt l)) = signNP l.fa
  · have hb : NumFns.beq (signNP (f (chXt l))) (signNP l.fa) = true := by simpa using hs
    simp only [hb, if_true]
    refine ⟨h0, rfl, h2, h1, by rw [hs]; exact h4, hx, h6, h5, ?_, ?_, ?_, hterm _ _ _⟩
    · by_cases hsm : |f (chXt l)| < |l.fb|
      · left; simp [hsm]
      · right; simp [hsm]
    · by_cases hsm : |f (chXt l)| < |l.fb|
      · simp [hsm, hsm.le]
      · simp [hsm, not_lt.mp hsm]
    · simp
  · have hb : NumFns.beq (signNP (f (chXt l))) (signNP l.fa) = false := by simpa using hs
    simp only [hb, Bool.false_eq_true, if_false]
    refine ⟨h0, rfl, h1, h2, signNP_mul_nonpos_of_ne hs, hx, h5, h6, ?_, ?_, ?_, hterm _ _ _⟩
    · by_cases hsm : |f (chXt l)| < |l.fa|
      · left; simp [hsm]
      · right; simp [hsm]
    · by_cases hsm : |f (chXt l)| < |l.fa|
      · simp [hsm, hsm.le]
      · simp [hsm, not_lt.mp hsm]
    · simp

/-- the new `{b, c}` is the old `{a, b}`; the new `a` is the evaluation point. -/
theorem chLaneHalf_prev (f : ℝ → ℝ) (epsM epsA : ℝ) (l : ChPre ℝ) :
    (chLaneHalf f epsM epsA l).a = chXt l ∧
    (((chLaneHalf f epsM epsA l).b = l.b ∧ (chLaneHalf f epsM epsA l).c = l.a) ∨
     ((chLaneHalf f epsM epsA l).b = l.a ∧ (chLaneHalf f epsM epsA l).c = l.b)) := by
  unfold chLaneHalf chUpd
  by_cases hb : NumFns.beq (signNP (f (chXt l))) (signNP l.fa) = true
  · simp [hb]
  · simp [hb]

theorem chLaneHalf_term (f : ℝ → ℝ) (epsM epsA : ℝ) (l : ChPre ℝ) :
    (chLaneHalf f epsM epsA l).term
      = (l.term || (decide ((chLaneHalf f epsM epsA l).fm = 0)
          || decide (1 / 2 < (chLaneHalf f epsM epsA l).tlim))) := by
  unfold chLaneHalf chUpd
  simp only [NumFns.beq, ofNat_real, Nat.cast_zero, ofSci_real]
  norm_num

/-- the second half only chooses the next `t`; an unflagged lane gets `t ∈ [0,1]`. -/
theorem ChMidInv.next {f : ℝ → ℝ} {epsM epsA : ℝ} {m : ChMid ℝ} (h : ChMidInv f epsM epsA m)
    (hM : 0 ≤ epsM) (hA : 0 ≤ epsA) (sq : ℝ → ℝ) : ChInv f (chNext sq m) := by
  refine ⟨h.lohi, h.hfa, h.hfb, h.hfc, h.sign, h.a_mem, h.b_mem, h.c_mem, ?_⟩
  intro ht
  have ht' : m.term = false := ht
  obtain ⟨h1, _⟩ := h.unflagged ht'
  have h0 : 0 ≤ m.tlim := by
    rw [h.tlim_eq]; apply div_nonneg _ (abs_nonneg _)
    have := abs_nonneg m.xm; nlinarith
  simp only [chNext, minNP_real, maxNP_real, ofNat_real, Nat.cast_one]
  constructor
  · apply le_min
    · linarith
    · exact le_trans h0 (le_max_left _ _)
  · exact le_trans (min_le_left _ _) (by linarith)

theorem ChInv.step {f : ℝ → ℝ} {l : ChPre ℝ} (h : ChInv f l) {epsM epsA : ℝ} (hM : 0 ≤ epsM)
    (hA : 0 ≤ epsA) (sq : ℝ → ℝ) : ChInv f (chLaneStep f sq epsM epsA l) :=
  (h.half epsM epsA).next hM hA sq

theorem ChInv.iterate {f : ℝ → ℝ} {l : ChPre ℝ} (h : ChInv f l) {epsM epsA : ℝ} (hM : 0 ≤ epsM)
    (hA : 0 ≤ epsA) (sq : ℝ → ℝ) (k : ℕ) : ChInv f ((chLaneStep f sq epsM epsA)^[k] l) := by
  induction k with
  | zero => exact h
  | succ k ih => rw [Function.iterate_succ_apply']; exact ih.step hM hA sq

/-! ## chandrupatla: the whole function -/

/-- the initial per-lane states built by `chandrupatla`. -/
noncomputable def chInitBatch (fs : ℕ → ℝ → ℝ) (xmin xmax : List ℝ) : List (ChPre ℝ) :=
  List.zipWith (fun (x : ℝ × ℝ) (y : ℝ × ℝ) => chInit x.1 x.2 y.1 y.2)
    (List.zip xmin xmax) (List.zip (evalLanes fs xmax) (evalLanes fs xmin))

theorem chInitBatch_getElem? (fs : ℕ → ℝ → ℝ) {xmin xmax : List ℝ} {i : ℕ} {lo hi : ℝ}
    (hlo : xmin[i]? = some lo) (hhi : xmax[i]? = some hi) :
    (chInitBatch fs xmin xmax)[i]? = some (chInit lo hi (fs i hi) (fs i lo)) := by
  simp [chInitBatch, List.getElem?_zipWith, List.zip, evalLanes, List.getElem?_mapIdx, hlo, hhi]

theorem chInitBatch_getElem?_inv (fs : ℕ → ℝ → ℝ) {xmin xmax : List ℝ} {i : ℕ} {l : ChPre ℝ}
    (h : (chInitBatch fs xmin xmax)[i]? = some l) :
    ∃ lo hi, xmin[i]? = some lo ∧ xmax[i]? = some hi ∧ l = chInit lo hi (fs i hi) (fs i lo) := by
  cases hlo : xmin[i]? with
  | none => simp [chInitBatch, List.getElem?_zipWith, List.zip, hlo] at h
  | some lo =>
    cases hhi : xmax[i]? with
    | none => simp [chInitBatch, List.getElem?_zipWith, List.zip, hlo, hhi] at h
    | some hi =>
      rw [chInitBatch_getElem? fs hlo hhi] at h
      exact ⟨lo, hi, rfl, rfl, (Option.some.inj h).symm⟩

theorem sign_of_valid {x y : ℝ} (hx : x ≤ 0) (hy : 0 ≤ y) : signNP y * signNP x ≤ 0 := by
  rcases signNP_cases x with ⟨h, hsx⟩ | ⟨h, hsx⟩ | ⟨h, hsx⟩ <;>
  rcases signNP_cases y with ⟨h', hsy⟩ | ⟨h', hsy⟩ | ⟨h', hsy⟩ <;>
  first | (exfalso; linarith) | (rw [hsx, hsy]; norm_num)

/-- the two assertions of `chandrupatla` pass on valid element-wise brackets. -/
theorem chandrupatla_checks_pass {fs : ℕ → ℝ → ℝ} {xmin xmax : List ℝ}
    (hv : ValidBrackets fs xmin xmax) :
    (evalLanes fs xmax).length = (evalLanes fs xmin).length ∧
    ((List.zip (evalLanes fs xmax) (evalLanes fs xmin)).all
      fun p => decide (signNP p.1 * signNP p.2 ≤ NumFns.ofNat 0)) = true := by
  constructor
  · simp [evalLanes, hv.len]
  · rw [List.all_eq_true]
    intro p hp
    obtain ⟨i, hi⟩ := List.mem_iff_getElem?.mp hp
    rw [List.getElem?_zip_eq_some] at hi
    simp only [evalLanes, List.getElem?_mapIdx, Option.map_eq_some_iff] at hi
    obtain ⟨⟨hi', hhi, h1⟩, ⟨lo', hlo, h2⟩⟩ := hi
    obtain ⟨_, hflo, hfhi⟩ := hv.lane i lo' hi' hlo hhi
    rw [← h1, ← h2]
    simpa using sign_of_valid hflo hfhi

/-- What `chandrupatla` returns on valid element-wise brackets. -/
theorem chandrupatla_eq {fs : ℕ → ℝ → ℝ} {xmin xmax : List ℝ} (hv : ValidBrackets fs xmin xmax)
    (epsM epsA : ℝ) {maxiter : ℕ} (hmax : 0 < maxiter) :
    ∃ j, j < maxiter ∧
      chandrupatla (evalLanes fs) xmin xmax epsM epsA maxiter
        = .ok (j + 1, (chHalf (evalLanes fs) epsM epsA
            ((chStep (evalLanes fs) (fun x => x * x) epsM epsA)^[j] (chInitBatch fs xmin xmax))).map (·.xm)) ∧
      (j + 1 = maxiter ∨ (chHalf (evalLanes fs) epsM epsA
            ((chStep (evalLanes fs) (fun x => x * x) epsM epsA)^[j] (chInitBatch fs xmin xmax))).all (·.term) = true) ∧
      ∀ j' < j, (chHalf (evalLanes fs) epsM epsA
            ((chStep (evalLanes fs) (fun x => x * x) epsM epsA)^[j'] (chInitBatch fs xmin xmax))).all (·.term) = false := by
  obtain ⟨h1, h2⟩ := chandrupatla_checks_pass hv
  obtain ⟨j, hj, heq, hex, hprev⟩ := chLoop_spec (evalLanes fs) (fun x => x * x) epsM epsA maxiter 0
    (chInitBatch fs xmin xmax) [] hmax
  refine ⟨j, hj, ?_, hex, hprev⟩
  unfold chandrupatla
  simp only [h1, ne_eq, not_true_eq_false, ↓reduceIte, h2, Bool.not_true, Bool.false_eq_true,
    Nat.ne_of_gt hmax]
  rw [show (List.zipWith (fun (x : ℝ × ℝ) (y : ℝ × ℝ) => chInit x.1 x.2 y.1 y.2) (xmin.zip xmax)
      ((evalLanes fs xmax).zip (evalLanes fs xmin))) = chInitBatch fs xmin xmax from rfl, heq]
  simp

/-- two points of `uIcc a b` are at most `|a - b|` apart. -/
theorem abs_sub_le_of_mem_uIcc {a b x r : ℝ} (hx : x ∈ Set.uIcc a b) (hr : r ∈ Set.uIcc a b) :
    |x - r| ≤ |a - b| := by
  rw [Set.mem_uIcc] at hx hr
  rcases le_total a b with hab | hab
  · rw [abs_le, abs_of_nonpos (sub_nonpos.mpr hab)]
    rcases hx with hx | hx <;> rcases hr with hr | hr <;> constructor <;> linarith [hx.1, hx.2, hr.1, hr.2]
  · rw [abs_le, abs_of_nonneg (sub_nonneg.mpr hab)]
    rcases hx with hx | hx <;> rcases hr with hr | hr <;> constructor <;> linarith [hx.1, hx.2, hr.1, hr.2]

theorem uIcc_subset_Icc_of_mem {lo hi a b : ℝ} (ha : lo ≤ a ∧ a ≤ hi) (hb : lo ≤ b ∧ b ≤ hi) :
    Set.uIcc a b ⊆ Set.Icc lo hi := by
  intro x hx
  rw [Set.mem_uIcc] at hx
  rcases hx with hx | hx <;> constructor <;> linarith [hx.1, hx.2, ha.1, ha.2, hb.1, hb.2]

/-- IVT on a sign bracket. -/
theorem sign_bracket_root {f : ℝ → ℝ} {lo hi a b : ℝ} (hc : ContinuousOn f (Set.Icc lo hi))
    (ha : lo ≤ a ∧ a ≤ hi) (hb : lo ≤ b ∧ b ≤ hi) (hs : signNP (f a) * signNP (f b) ≤ 0) :
    ∃ r ∈ Set.uIcc a b, f r = 0 := by
  have hc' : ContinuousOn f (Set.uIcc a b) := hc.mono (uIcc_subset_Icc_of_mem ha hb)
  obtain ⟨r, hr, hfr⟩ := intermediate_value_uIcc hc' (zero_mem_uIcc_of_sign hs)
  exact ⟨r, hr, hfr⟩

/-- The returned point of a lane is an end of a sign bracket inside `[lo, hi]`; for a continuous
    lane there is a root between the ends, no farther from `xm` than the bracket is wide. -/
theorem ChMidInv.root {f : ℝ → ℝ} {epsM epsA : ℝ} {m : ChMid ℝ} (h : ChMidInv f epsM epsA m)
    (hc : ContinuousOn f (Set.Icc m.lo m.hi)) :
    ∃ r, m.lo ≤ r ∧ r ≤ m.hi ∧ f r = 0 ∧ |m.xm - r| ≤ |m.a - m.b| := by
  have hs := h.sign; rw [h.hfa, h.hfb] at hs
  obtain ⟨r, hr, hfr⟩ := sign_bracket_root hc h.a_mem h.b_mem hs
  have hrm := uIcc_subset_Icc_of_mem h.a_mem h.b_mem hr
  refine ⟨r, hrm.1, hrm.2, hfr, abs_sub_le_of_mem_uIcc ?_ hr⟩
  rcases h.xm_end with ⟨h1, _⟩ | ⟨h1, _⟩
  · rw [h1]; exact Set.left_mem_uIcc
  · rw [h1]; exact Set.right_mem_uIcc

/-- the interpolation point of an unflagged lane is inside its current bracket, so the clip is
    the identity on it. -/
theorem chXt_mem_uIcc {f : ℝ → ℝ} {l : ChPre ℝ} (h : ChInv f l) (ht : l.term = false) :
    chXt l ∈ Set.uIcc l.a l.b := by
  obtain ⟨t0, t1⟩ := h.t_mem ht
  have hy : l.a + l.t * (l.b - l.a) ∈ Set.uIcc l.a l.b := by
    rw [Set.mem_uIcc]
    rcases le_total l.a l.b with hab | hab
    · left; constructor <;> nlinarith
    · right; constructor <;> nlinarith
  have hyI := uIcc_subset_Icc_of_mem h.a_mem h.b_mem hy
  have : chXt l = l.a + l.t * (l.b - l.a) := by
    unfold chXt; rw [clipNP_real, max_eq_left hyI.1, min_eq_left hyI.2]
  rw [this]; exact hy

/-- A lane that is flagged by `tlim > 0.5` at the iteration under consideration (and was not
    flagged before) has a root within `2·tol` of its `xm`, `tol = 2·eps_m·|xm| + eps_a`. -/
theorem chLaneHalf_tlim_root {f : ℝ → ℝ} {l : ChPre ℝ} (h : ChInv f l) (ht : l.term = false)
    (hc : ContinuousOn f (Set.Icc l.lo l.hi)) (epsM epsA : ℝ)
    (hflag : 1 / 2 < (chLaneHalf f epsM epsA l).tlim) :
    ∃ r, l.lo ≤ r ∧ r ≤ l.hi ∧ f r = 0 ∧
      |(chLaneHalf f epsM epsA l).xm - r| < 2 * (2 * epsM * |(chLaneHalf f epsM epsA l).xm| + epsA) := by
  have hm := h.half epsM epsA
  set m := chLaneHalf f epsM epsA l with hmdef
  have hs := h.sign; rw [h.hfa, h.hfb] at hs
  obtain ⟨r, hr, hfr⟩ := sign_bracket_root hc h.a_mem h.b_mem hs
  have hrm := uIcc_subset_Icc_of_mem h.a_mem h.b_mem hr
  obtain ⟨ha, hbc⟩ := chLaneHalf_prev f epsM epsA l
  rw [← hmdef] at ha hbc
  have hxt := chXt_mem_uIcc h ht
  -- xm is in the previous bracket
  have hxm : m.xm ∈ Set.uIcc l.a l.b := by
    rcases hm.xm_end with ⟨h1, _⟩ | ⟨h1, _⟩
    · rw [h1, ha]; exact hxt
    · rw [h1]; rcases hbc with ⟨hb, _⟩ | ⟨hb, _⟩
      · rw [hb]; exact Set.right_mem_uIcc
      · rw [hb]; exact Set.left_mem_uIcc
  have hd : |m.b - m.c| = |l.a - l.b| := by
    rcases hbc with ⟨hb, hc'⟩ | ⟨hb, hc'⟩
    · rw [hb, hc', abs_sub_comm]
    · rw [hb, hc']
  have hle := abs_sub_le_of_mem_uIcc hxm hr
  rw [hm.tlim_eq, hd] at hflag
  have hpos : 0 < |l.a - l.b| := by
    rcases (abs_nonneg (l.a - l.b)).lt_or_eq with h0 | h0
    · exact h0
    · rw [← h0, div_zero] at hflag; norm_num at hflag
  rw [lt_div_iff₀ hpos] at hflag
  exact ⟨r, hrm.1, hrm.2, hfr, by linarith⟩

theorem chLaneStep_term (f : ℝ → ℝ) (sq : ℝ → ℝ) (epsM epsA : ℝ) (l : ChPre ℝ) :
    (chLaneStep f sq epsM epsA l).term = (chLaneHalf f epsM epsA l).term := rfl

theorem chLaneStep_lo_hi (f : ℝ → ℝ) (sq : ℝ → ℝ) (epsM epsA : ℝ) (k : ℕ) (l : ChPre ℝ) :
    ((chLaneStep f sq epsM epsA)^[k] l).lo = l.lo ∧ ((chLaneStep f sq epsM epsA)^[k] l).hi = l.hi := by
  induction k with
  | zero => exact ⟨rfl, rfl⟩
  | succ k ih => rw [Function.iterate_succ_apply']; exact ih

/-! ## chandrupatla: rejection, scalar branch -/

theorem chandrupatla_rejects_lane {fs : ℕ → ℝ → ℝ} {xmin xmax : List ℝ} {i : ℕ} {lo hi : ℝ}
    (hlo : xmin[i]? = some lo) (hhi : xmax[i]? = some hi)
    (hbad : (0 < fs i hi ∧ 0 < fs i lo) ∨ (fs i hi < 0 ∧ fs i lo < 0))
    (epsM epsA : ℝ) (maxiter : ℕ) :
    chandrupatla (evalLanes fs) xmin xmax epsM epsA maxiter = .error .assertion := by
  unfold chandrupatla
  simp only
  split
  · rfl
  · have h : ((List.zip (evalLanes fs xmax) (evalLanes fs xmin)).all
        fun p => decide (signNP p.1 * signNP p.2 ≤ NumFns.ofNat 0)) = false := by
      rw [Bool.eq_false_iff, Ne, List.all_eq_true]
      intro h
      have hmem : (fs i hi, fs i lo) ∈ List.zip (evalLanes fs xmax) (evalLanes fs xmin) := by
        apply List.mem_iff_getElem?.mpr
        refine ⟨i, ?_⟩
        rw [List.getElem?_zip_eq_some]
        simp [evalLanes, List.getElem?_mapIdx, hlo, hhi]
      have := h _ hmem
      simp only [ofNat_real, Nat.cast_zero, decide_eq_true_eq] at this
      exact sign_mul_pos_of_same hbad this
    simp only [h, Bool.not_false, ↓reduceIte]

theorem chNext_pow_eq (m : ChMid ℝ) :
    chNext (fun x => NumFns.pow x (NumFns.ofNat 2)) m = chNext (fun x => x * x) m := by
  have : (fun x : ℝ => NumFns.pow x (NumFns.ofNat 2)) = fun x => x * x := by
    funext x
    simp only [pow_real, ofNat_real, Nat.cast_ofNat, Real.rpow_two, sq]
  rw [this]

theorem chHalf_singleton (f : ℝ → ℝ) (epsM epsA : ℝ) (l : ChPre ℝ) :
    chHalf (evalLanes fun _ => f) epsM epsA [l] = [chUpd epsM epsA (chXt l) (f (chXt l)) l] := by
  simp [chHalf, evalLanes]

theorem chLoop_singleton (f : ℝ → ℝ) (epsM epsA : ℝ) :
    ∀ (fuel k : ℕ) (l : ChPre ℝ) (xs : List ℝ) (x : ℝ), (fuel = 0 → xs = [x]) →
      chLoop (evalLanes fun _ => f) (fun x => x * x) epsM epsA fuel k [l] xs
        = ((chLoopScalar f epsM epsA fuel k l x).1, [(chLoopScalar f epsM epsA fuel k l x).2]) := by
  intro fuel
  induction fuel with
  | zero => intro k l xs x h; simp [chLoop, chLoopScalar, h rfl]
  | succ n ih =>
    intro k l xs x _
    unfold chLoop chLoopScalar
    simp only [chHalf_singleton, List.all_cons, List.all_nil, Bool.and_true, List.map_cons, List.map_nil]
    split
    · rfl
    · rw [chNext_pow_eq]
      exact ih _ _ _ _ (fun _ => rfl)

/-- scalar input ≡ one-element vector (over ℝ, where `x**2` by `pow` and by `x*x` coincide). -/
theorem chandrupatla_scalar_eq (f : ℝ → ℝ) (lo hi epsM epsA : ℝ) (maxiter : ℕ) :
    chandrupatla (evalLanes fun _ => f) [lo] [hi] epsM epsA maxiter
      = (chandrupatlaScalar f lo hi epsM epsA maxiter).map (fun r => (r.1, [r.2])) := by
  unfold chandrupatla chandrupatlaScalar
  simp only [evalLanes, List.mapIdx_cons, List.mapIdx_nil, List.length_cons, List.length_nil,
    ne_eq, not_true_eq_false, ↓reduceIte, List.zip_cons_cons, List.zip_nil_right, List.all_cons,
    List.all_nil, Bool.and_true, List.zipWith_cons_cons, List.zipWith_nil_right]
  split
  · rfl
  · split
    · rfl
    · rename_i hmax
      have := chLoop_singleton f epsM epsA maxiter 0 (chInit lo hi (f hi) (f lo)) [] lo
        (fun h => absurd h hmax)
      rw [this]; rfl

/-! ## chandrupatla accepts a reversed bracket: concrete witness -/

/-- `f(x) = x - 3/10` on the reversed bracket `xmin = 1 > xmax = 0`: `f(xmin) > 0 > f(xmax)`. -/
noncomputable def revF : ℝ → ℝ := fun x => x - 3 / 10

noncomputable def revState : ChPre ℝ := chInit 1 0 (revF 0) (revF 1)

theorem rev_half (epsM : ℝ) {epsA : ℝ} (hA : epsA ≤ 1 / 2) :
    chLaneHalf revF epsM epsA revState =
      { lo := 1, hi := 0, a := 0, b := 1, c := 0, fa := -3/10, fb := 7/10, fc := -3/10,
        term := false, xm := 0, fm := -3/10, tlim := epsA } := by
  have hxt : chXt revState = 0 := by
    simp only [chXt, revState, chInit, clipNP_real, ofSci_real]; norm_num
  have h1 : revF 0 = -3/10 := by simp only [revF]; norm_num
  have h2 : revF 1 = 7/10 := by simp only [revF]; norm_num
  have hs1 : signNP (-3/10 : ℝ) = -1 := by rw [signNP_real]; norm_num
  unfold chLaneHalf
  rw [hxt, h1]
  simp only [chUpd, revState, chInit, h1, h2, hs1, NumFns.beq, decide_true, if_true,
    abs_real, ofNat_real, ofSci_real]
  have habs : |(-3/10 : ℝ)| < |(7/10 : ℝ)| := by
    rw [abs_of_neg (by norm_num), abs_of_pos (by norm_num)]; norm_num
  simp only [habs, decide_true, if_true]
  have hlt : ¬ ((5:ℕ) : ℝ) / 10 ^ 1 < epsA := by norm_num; linarith
  norm_num
  exact hA


theorem rev_next (epsM : ℝ) {epsA : ℝ} (hA : epsA ≤ 1 / 2) :
    chLaneStep revF (fun x => x * x) epsM epsA revState = revState := by
  unfold chLaneStep
  rw [rev_half epsM hA]
  simp only [chNext, revState, chInit, minNP_real, maxNP_real, ofNat_real, ofSci_real, revF]
  have h5 : ((5:ℕ):ℝ) / 10 ^ 1 = 1 / 2 := by norm_num
  norm_num
  rw [max_eq_right hA, min_eq_right (by linarith)]


theorem rev_loop (epsM : ℝ) {epsA : ℝ} (hA : epsA ≤ 1 / 2) :
    ∀ (fuel k : ℕ) (xs : List ℝ), 0 < fuel →
      chLoop (evalLanes fun _ => revF) (fun x => x * x) epsM epsA fuel k [revState] xs
        = (k + fuel, [0]) := by
  intro fuel
  induction fuel with
  | zero => intro k xs h; omega
  | succ n ih =>
    intro k xs _
    have hh : chHalf (evalLanes fun _ => revF) epsM epsA [revState]
        = [chLaneHalf revF epsM epsA revState] := by
      rw [chHalf_evalLanes]; rfl
    have hn : chNext (fun x => x * x) (chLaneHalf revF epsM epsA revState) = revState :=
      rev_next epsM hA
    unfold chLoop
    simp only [hh, List.all_cons, List.all_nil, Bool.and_true, List.map_cons, List.map_nil, hn]
    rw [rev_half epsM hA]
    simp only [Bool.false_eq_true, ↓reduceIte]
    rcases Nat.eq_zero_or_pos n with h0 | h0
    · subst h0; simp [chLoop]
    · rw [ih _ _ h0]; congr 1; omega

/-- `chandrupatla` accepts the reversed bracket `[1, 0]` for `f(x) = x - 3/10` and returns `0`
    whatever the iteration cap. -/
theorem rev_chandrupatla (epsM : ℝ) {epsA : ℝ} (hA : epsA ≤ 1 / 2) {maxiter : ℕ} (hmax : 0 < maxiter) :
    chandrupatla (evalLanes fun _ => revF) [1] [0] epsM epsA maxiter = .ok (maxiter, [0]) := by
  have hs1 : signNP (-3/10 : ℝ) = -1 := by rw [signNP_real]; norm_num
  have hs2 : signNP (7/10 : ℝ) = 1 := by rw [signNP_real]; norm_num
  have h1 : revF 0 = -3/10 := by simp only [revF]; norm_num
  have h2 : revF 1 = 7/10 := by simp only [revF]; norm_num
  unfold chandrupatla
  simp only [evalLanes, List.mapIdx_cons, List.mapIdx_nil, List.length_cons, List.length_nil,
    ne_eq, not_true_eq_false, ↓reduceIte, List.zip_cons_cons, List.zip_nil_right, List.all_cons,
    List.all_nil, Bool.and_true, List.zipWith_cons_cons, List.zipWith_nil_right, h1, h2, hs1, hs2,
    Nat.ne_of_gt hmax]
  have := rev_loop epsM hA maxiter 0 [] hmax
  simp only [revState, h1, h2] at this
  norm_num at this ⊢
  exact this

/-! ## chandrupatla: what every lane of the result satisfies -/

/-- what is proved about lane `i` of a successful `chandrupatla` call that ran `K` bodies. -/
structure ChLaneOK (f : ℝ → ℝ) (lo hi epsM epsA : ℝ) (K : ℕ) (x : ℝ) : Prop where
  /-- the returned point is `xm` of the lane iterated alone `K-1` full bodies and one half body -/
  alone : ∃ m, m = chLaneHalf f epsM epsA
      ((chLaneStep f (fun x => x * x) epsM epsA)^[K - 1] (chInit lo hi (f hi) (f lo))) ∧
      x = m.xm ∧ ChMidInv f epsM epsA m ∧ m.lo = lo ∧ m.hi = hi
  inside : lo ≤ x ∧ x ≤ hi

theorem chandrupatla_lanes_ok {fs : ℕ → ℝ → ℝ} {xmin xmax : List ℝ} (hv : ValidBrackets fs xmin xmax)
    {epsM epsA : ℝ} (hM : 0 ≤ epsM) (hA : 0 ≤ epsA) {maxiter : ℕ} (hmax : 0 < maxiter) :
    ∃ K xm, chandrupatla (evalLanes fs) xmin xmax epsM epsA maxiter = .ok (K, xm) ∧
      1 ≤ K ∧ K ≤ maxiter ∧
      ∀ i lo hi, xmin[i]? = some lo → xmax[i]? = some hi →
        ∃ x, xm[i]? = some x ∧ ChLaneOK (fs i) lo hi epsM epsA K x := by
  obtain ⟨j, hj, heq, _, _⟩ := chandrupatla_eq hv epsM epsA hmax
  refine ⟨j + 1, _, heq, by omega, by omega, ?_⟩
  intro i lo hi hlo hhi
  obtain ⟨hle, hflo, hfhi⟩ := hv.lane i lo hi hlo hhi
  have hinit := ChInv.init (f := fs i) hle (sign_of_valid hflo hfhi)
  have hinv := hinit.iterate hM hA (fun x => x * x) j
  have hmid := hinv.half epsM epsA
  obtain ⟨hl, hh⟩ := chLaneStep_lo_hi (fs i) (fun x => x * x) epsM epsA j (chInit lo hi (fs i hi) (fs i lo))
  refine ⟨_, ?_, ⟨⟨_, rfl, rfl, hmid, hl, hh⟩, ?_⟩⟩
  · rw [List.getElem?_map, chHalf_iterate_getElem?, chInitBatch_getElem? fs hlo hhi]; rfl
  · have := hmid.xm_mem
    rw [show (chLaneHalf (fs i) epsM epsA ((chLaneStep (fs i) (fun x => x * x) epsM epsA)^[j]
      (chInit lo hi (fs i hi) (fs i lo)))).lo = lo from hl,
      show (chLaneHalf (fs i) epsM epsA ((chLaneStep (fs i) (fun x => x * x) epsM epsA)^[j]
      (chInit lo hi (fs i hi) (fs i lo)))).hi = hi from hh] at this
    exact this

theorem chInitBatch_singleton (f : ℝ → ℝ) (lo hi : ℝ) :
    chInitBatch (fun _ => f) [lo] [hi] = [chInit lo hi (f hi) (f lo)] := by
  simp [chInitBatch, evalLanes]

theorem chHalf_iterate_singleton (f : ℝ → ℝ) (sq : ℝ → ℝ) (epsM epsA : ℝ) (j : ℕ) (l : ChPre ℝ) :
    chHalf (evalLanes fun _ => f) epsM epsA ((chStep (evalLanes fun _ => f) sq epsM epsA)^[j] [l])
      = [chLaneHalf f epsM epsA ((chLaneStep f sq epsM epsA)^[j] l)] := by
  rw [chHalf_evalLanes, chStep_iterate]; rfl

/-- A lane solved ALONE (one-element vector; by `chandrupatla_scalar_eq` also scalar input):
    the loop stops at the first flag, so the flag is explained: the cap was reached, or `f(x) = 0`
    exactly, or a root lies within `2·tol` of `x`. -/
theorem chandrupatla_single {f : ℝ → ℝ} {lo hi : ℝ} (hle : lo ≤ hi) (hflo : f lo ≤ 0) (hfhi : 0 ≤ f hi)
    (hc : ContinuousOn f (Set.Icc lo hi)) {epsM epsA : ℝ} (hM : 0 ≤ epsM) (hA : 0 ≤ epsA)
    {maxiter : ℕ} (hmax : 0 < maxiter) :
    ∃ K x, chandrupatla (evalLanes fun _ => f) [lo] [hi] epsM epsA maxiter = .ok (K, [x]) ∧
      1 ≤ K ∧ K ≤ maxiter ∧ lo ≤ x ∧ x ≤ hi ∧
      (K = maxiter ∨ f x = 0 ∨
        ∃ r, lo ≤ r ∧ r ≤ hi ∧ f r = 0 ∧ |x - r| < 2 * (2 * epsM * |x| + epsA)) := by
  have hv : ValidBrackets (fun _ => f) [lo] [hi] := by
    refine ⟨rfl, ?_⟩
    intro i lo' hi' h1 h2
    cases i with
    | zero => simp at h1 h2; subst h1; subst h2; exact ⟨hle, hflo, hfhi⟩
    | succ i => simp at h1
  obtain ⟨j, hj, heq, hex, hprev⟩ := chandrupatla_eq hv epsM epsA hmax
  rw [chInitBatch_singleton] at heq hex hprev
  set l₀ := chInit lo hi (f hi) (f lo) with hl₀
  set sq : ℝ → ℝ := fun x => x * x with hsq
  have hinit : ChInv f l₀ := ChInv.init hle (sign_of_valid hflo hfhi)
  -- the lane is unflagged at the top of body j
  have hterm : ∀ j' ≤ j, ((chLaneStep f sq epsM epsA)^[j'] l₀).term = false := by
    intro j' hj'
    cases j' with
    | zero => rfl
    | succ j'' =>
      have := hprev j'' (by omega)
      rw [chHalf_iterate_singleton] at this
      rw [Function.iterate_succ_apply', chLaneStep_term]
      simpa using this
  have hinv := hinit.iterate hM hA sq j
  have hmid := hinv.half epsM epsA
  obtain ⟨hl, hh⟩ := chLaneStep_lo_hi f sq epsM epsA j l₀
  have hlo' : ((chLaneStep f sq epsM epsA)^[j] l₀).lo = lo := hl
  have hhi' : ((chLaneStep f sq epsM epsA)^[j] l₀).hi = hi := hh
  rw [chHalf_iterate_singleton] at heq hex
  set l := (chLaneStep f sq epsM epsA)^[j] l₀ with hl
  have hxm := hmid.xm_mem
  have hmlo : (chLaneHalf f epsM epsA l).lo = lo := hlo'
  have hmhi : (chLaneHalf f epsM epsA l).hi = hi := hhi'
  rw [hmlo, hmhi] at hxm
  refine ⟨j + 1, (chLaneHalf f epsM epsA l).xm, by simpa using heq, by omega, by omega, hxm.1, hxm.2, ?_⟩
  rcases hex with hex | hex
  · exact Or.inl hex
  · right
    simp only [List.all_cons, List.all_nil, Bool.and_true] at hex
    rw [chLaneHalf_term, hterm j (le_refl _)] at hex
    simp only [Bool.false_or, Bool.or_eq_true, decide_eq_true_eq] at hex
    rcases hex with hex | hex
    · left; rw [← hmid.hfm]; exact hex
    · right
      have hc' : ContinuousOn f (Set.Icc l.lo l.hi) := by rw [hlo', hhi']; exact hc
      obtain ⟨r, hr1, hr2, hfr, hd⟩ := chLaneHalf_tlim_root hinv (hterm j (le_refl _)) hc' epsM epsA hex
      rw [hlo'] at hr1; rw [hhi'] at hr2
      exact ⟨r, hr1, hr2, hfr, hd⟩

end CopVerif.RootFind
