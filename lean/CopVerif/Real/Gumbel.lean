import CopVerif.Real.Inst
import CopVerif.Real.BridgeTac
import CopVerif.Gen.Bivariate
/-! Gumbel copula over ℝ: spec, bridge to the generated definitions, C06 facts, the part of C07
    that does not need derivatives (sign/bounds/symmetry of `h` and `c`, row independence of the
    generated `h`/`pdf`, the θ = 1 shortcut values).  Derivatives are in `GumbelDeriv.lean`.

    **`cdf_zero_partial` clause.**  No theorem in this file evaluates the *general* Gumbel formula
    at `u = 0` or `v = 0`.  In IEEE arithmetic `log 0 = -inf`, `(-log 0)^θ = +inf` and the formula
    yields `exp(-inf) = 0`; in Lean `Real.log 0 = 0`, so the same term evaluates to something else
    (`C θ 0 v = v`), which is an artefact of totalisation and not a statement about the code.
    Boundary-zero facts are therefore stated only for the `θ = 1` product branch
    (`cdf_theta_one_zero_left/right`); the general-formula boundary is left to the numeric
    correspondence run. -/
namespace CopVerif.Gumbel
open CopVerif NumFns Real

/-- `S θ u v = (-log u)^θ + (-log v)^θ`. -/
noncomputable def S (θ u v : ℝ) : ℝ := (-Real.log u) ^ θ + (-Real.log v) ^ θ

/-- Textbook Gumbel CDF `exp(-S^(1/θ))`. -/
noncomputable def C (θ u v : ℝ) : ℝ := Real.exp (-(S θ u v) ^ (1 / θ))

/-- Gumbel generator. -/
noncomputable def φ (θ t : ℝ) : ℝ := (-Real.log t) ^ θ

/-- Conditional CDF `∂C/∂v` (what the Python `partial_derivative` computes). -/
noncomputable def h (θ u v : ℝ) : ℝ :=
  C θ u v * (S θ u v) ^ (-1 + 1 / θ) * (-Real.log v) ^ (θ - 1) / v

/-- Gumbel density. -/
noncomputable def c (θ u v : ℝ) : ℝ :=
  C θ u v * (u * v) ^ (-1 : ℝ) * (S θ u v) ^ (-2 + 2 / θ) * (Real.log u * Real.log v) ^ (θ - 1)
    * (1 + (θ - 1) * (S θ u v) ^ (-1 / θ))

/-! ### bridges: generated definition = spec -/

theorem bridge_cdfRow (θ u v : ℝ) : Gen.Gumbel.cdfRow θ u v = C θ u v := by
  bridge [Gen.Gumbel.cdfRow, C, S]

theorem bridge_generator (θ t : ℝ) : Gen.Gumbel.generator θ t = φ θ t := by
  bridge [Gen.Gumbel.generator, φ]

theorem bridge_cdfPt (θ u v : ℝ) :
    Gen.Gumbel.cdfPt θ u v = if θ = 1 then u * v else C θ u v := by
  bridge [Gen.Gumbel.cdfPt, Gen.Gumbel.cdf_leaf0, bridge_cdfRow]

theorem bridge_hRow {θ : ℝ} (hθ : θ ≠ 1) (u v : ℝ) : Gen.Gumbel.hRow θ u v = h θ u v := by
  bridge [Gen.Gumbel.hRow, bridge_cdfPt, hθ, h, S]

theorem bridge_pdfRow {θ : ℝ} (hθ : θ ≠ 1) (u v : ℝ) : Gen.Gumbel.pdfRow θ u v = c θ u v := by
  bridge [Gen.Gumbel.pdfRow, bridge_cdfPt, hθ, c, S]

theorem checkFit_ok {θ : ℝ} (hθ : 1 ≤ θ) :
    checkFit (Gen.Gumbel.thetaLower (α := ℝ)) Gen.Gumbel.thetaUpper Gen.Gumbel.invalidThetas θ
      = .ok () := by
  have h0 : θ ≠ 0 := by linarith
  simp [checkFit, checkTheta, Gen.Gumbel.thetaLower, Gen.Gumbel.thetaUpper,
    Gen.Gumbel.invalidThetas, Bound.leVal, Bound.valLe, h0, hθ]

/-! ### C06 facts -/

theorem neg_log_nonneg {t : ℝ} (ht : 0 < t) (ht1 : t ≤ 1) : 0 ≤ -Real.log t := by
  have := Real.log_nonpos ht.le ht1
  linarith

theorem neg_log_pos {t : ℝ} (ht : 0 < t) (ht1 : t < 1) : 0 < -Real.log t := by
  have := Real.log_neg ht ht1
  linarith

theorem S_nonneg {θ u v : ℝ} (hu : 0 < u) (hu1 : u ≤ 1) (hv : 0 < v) (hv1 : v ≤ 1) :
    0 ≤ S θ u v := by
  have h1 := Real.rpow_nonneg (neg_log_nonneg hu hu1) θ
  have h2 := Real.rpow_nonneg (neg_log_nonneg hv hv1) θ
  simp only [S]; linarith

theorem S_symm (θ u v : ℝ) : S θ u v = S θ v u := by
  simp only [S, add_comm]

theorem C_symm (θ u v : ℝ) : C θ u v = C θ v u := by
  simp only [C, S_symm θ u v]

theorem C_one_right {θ u : ℝ} (hθ : 1 ≤ θ) (hu : 0 < u) (hu1 : u ≤ 1) : C θ u 1 = u := by
  have h0 : θ ≠ 0 := by linarith
  have ha := neg_log_nonneg hu hu1
  have : ((-Real.log u) ^ θ) ^ (1 / θ) = -Real.log u := by
    rw [← Real.rpow_mul ha]
    have : θ * (1 / θ) = 1 := by field_simp
    rw [this, Real.rpow_one]
  simp [C, S, Real.zero_rpow h0] at this ⊢
  rw [this, neg_neg, Real.exp_log hu]

theorem C_one_left {θ v : ℝ} (hθ : 1 ≤ θ) (hv : 0 < v) (hv1 : v ≤ 1) : C θ 1 v = v := by
  rw [C_symm, C_one_right hθ hv hv1]

/-- At `θ = 1` the general formula is the product copula, so the `θ == 1 → u*v` shortcut of
`cumulative_distribution` is consistent with it on `(0,∞)²`. -/
theorem C_theta_one {u v : ℝ} (hu : 0 < u) (hv : 0 < v) : C 1 u v = u * v := by
  simp only [C, S, Real.rpow_one, div_one]
  rw [show -(-Real.log u + -Real.log v) = Real.log u + Real.log v by ring,
    Real.exp_add, Real.exp_log hu, Real.exp_log hv]

theorem φ_one {θ : ℝ} (hθ : 1 ≤ θ) : φ θ 1 = 0 := by
  have h0 : θ ≠ 0 := by linarith
  simp [φ, Real.zero_rpow h0]

theorem φ_strictAntiOn {θ : ℝ} (hθ : 1 ≤ θ) : StrictAntiOn (φ θ) (Set.Ioc 0 1) := by
  intro a ha b hb hab
  simp only [φ]
  have hb0 := neg_log_nonneg hb.1 hb.2
  have : -Real.log b < -Real.log a := by
    have := Real.log_lt_log ha.1 hab
    linarith
  exact Real.rpow_lt_rpow hb0 this (by linarith)

theorem φ_nonneg {θ t : ℝ} (ht : 0 < t) (ht1 : t ≤ 1) : 0 ≤ φ θ t :=
  Real.rpow_nonneg (neg_log_nonneg ht ht1) θ

/-- Archimedean identity `φ(C(u,v)) = φ(u) + φ(v)` on `(0,1]²`. -/
theorem φ_C {θ u v : ℝ} (hθ : 1 ≤ θ) (hu : 0 < u) (hu1 : u ≤ 1) (hv : 0 < v) (hv1 : v ≤ 1) :
    φ θ (C θ u v) = φ θ u + φ θ v := by
  have h0 : θ ≠ 0 := by linarith
  have hS := S_nonneg (θ := θ) hu hu1 hv hv1
  have : ((S θ u v) ^ (1 / θ)) ^ θ = S θ u v := by
    rw [← Real.rpow_mul hS]
    have : 1 / θ * θ = 1 := by field_simp
    rw [this, Real.rpow_one]
  simp only [φ, C, Real.log_exp, neg_neg, this]
  rfl

theorem C_pos {θ u v : ℝ} (_hθ : 1 ≤ θ) (_hu : 0 < u) (_hu1 : u ≤ 1) (_hv : 0 < v)
    (_hv1 : v ≤ 1) : 0 < C θ u v :=
  Real.exp_pos _

/-- Monotone in the first argument on `(0,1]`. -/
theorem C_mono_left {θ u u' v : ℝ} (hθ : 1 ≤ θ) (hu : 0 < u) (huu : u ≤ u') (hu1 : u' ≤ 1)
    (hv : 0 < v) (hv1 : v ≤ 1) : C θ u v ≤ C θ u' v := by
  have hu'0 : 0 < u' := lt_of_lt_of_le hu huu
  have hθ0 : 0 ≤ θ := by linarith
  have ha' := neg_log_nonneg hu'0 hu1
  have hle : -Real.log u' ≤ -Real.log u := by
    have := Real.log_le_log hu huu
    linarith
  have hpow : (-Real.log u') ^ θ ≤ (-Real.log u) ^ θ := Real.rpow_le_rpow ha' hle hθ0
  have hS' := S_nonneg (θ := θ) hu'0 hu1 hv hv1
  have hSS : S θ u' v ≤ S θ u v := by simp only [S]; linarith
  have : (S θ u' v) ^ (1 / θ) ≤ (S θ u v) ^ (1 / θ) :=
    Real.rpow_le_rpow hS' hSS (by positivity)
  simp only [C]
  exact Real.exp_le_exp.mpr (by linarith)

theorem C_mono_right {θ u v v' : ℝ} (hθ : 1 ≤ θ) (hv : 0 < v) (hvv : v ≤ v') (hv1 : v' ≤ 1)
    (hu : 0 < u) (hu1 : u ≤ 1) : C θ u v ≤ C θ u v' := by
  rw [C_symm θ u v, C_symm θ u v']; exact C_mono_left hθ hv hvv hv1 hu hu1

/-- Fréchet–Hoeffding upper bound. -/
theorem C_le_min {θ u v : ℝ} (hθ : 1 ≤ θ) (hu : 0 < u) (hu1 : u ≤ 1) (hv : 0 < v) (hv1 : v ≤ 1) :
    C θ u v ≤ min u v := by
  apply le_min
  · calc C θ u v ≤ C θ u 1 := C_mono_right hθ hv hv1 le_rfl hu hu1
      _ = u := C_one_right hθ hu hu1
  · calc C θ u v ≤ C θ 1 v := C_mono_left hθ hu hu1 le_rfl hv hv1
      _ = v := C_one_left hθ hv hv1

/-- Row independence of the whole generated method, including the `θ == 1` shortcut and the
`check_fit` guard: for every admissible θ and **every** batch, the result is the row-wise map of
the spec CDF (product at `θ = 1`, general formula otherwise). -/
theorem cdf_rowwise {θ : ℝ} (hθ : 1 ≤ θ) (xs : List (ℝ × ℝ)) :
    Gen.Gumbel.cdf θ xs = .ok (xs.map fun p => if θ = 1 then p.1 * p.2 else C θ p.1 p.2) := by
  unfold Gen.Gumbel.cdf
  rw [checkFit_ok hθ]
  simp only
  split
  · rename_i hg
    simp only [beq_real, ofNat_real, Nat.cast_one] at hg
    simp [Gen.Gumbel.cdf_leaf0, hg]
  · rename_i hg
    simp only [beq_real, ofNat_real, Nat.cast_one] at hg
    simp [hg, bridge_cdfRow]

/-- Boundary zero, product branch only (see the `cdf_zero_partial` clause in the module doc). -/
theorem cdf_theta_one_zero_right (u : ℝ) : Gen.Gumbel.cdf (1 : ℝ) [(u, 0)] = .ok [0] := by
  rw [cdf_rowwise le_rfl]; simp

theorem cdf_theta_one_zero_left (v : ℝ) : Gen.Gumbel.cdf (1 : ℝ) [(0, v)] = .ok [0] := by
  rw [cdf_rowwise le_rfl]; simp

/-- Non-vacuity of the hypotheses used above. -/
example : C 2 (1 / 2) (1 / 3) ≤ min (1 / 2) (1 / 3) :=
  C_le_min (by norm_num) (by norm_num) (by norm_num) (by norm_num) (by norm_num)

/-! ### C07 facts that need no derivative -/

theorem S_pos {θ u v : ℝ} (hu : 0 < u) (hu1 : u < 1) (hv : 0 < v) (hv1 : v < 1) :
    0 < S θ u v := by
  have h1 := Real.rpow_pos_of_pos (neg_log_pos hu hu1) θ
  have h2 := Real.rpow_pos_of_pos (neg_log_pos hv hv1) θ
  simp only [S]; linarith

theorem h_nonneg {θ u v : ℝ} (_hθ : 1 ≤ θ) (hu : 0 < u) (hu1 : u ≤ 1) (hv : 0 < v) (hv1 : v ≤ 1) :
    0 ≤ h θ u v := by
  have hS := S_nonneg (θ := θ) hu hu1 hv hv1
  have hb := neg_log_nonneg hv hv1
  have hC : 0 < C θ u v := Real.exp_pos _
  have h1 := Real.rpow_nonneg hS (-1 + 1 / θ)
  have h2 := Real.rpow_nonneg hb (θ - 1)
  simp only [h]
  positivity

theorem h_le_one {θ u v : ℝ} (hθ : 1 ≤ θ) (hu : 0 < u) (hu1 : u < 1) (hv : 0 < v) (hv1 : v < 1) :
    h θ u v ≤ 1 := by
  have h0 : θ ≠ 0 := by linarith
  have hS := S_pos (θ := θ) hu hu1 hv hv1
  have hb := neg_log_pos hv hv1
  have ha := neg_log_pos hu hu1
  have hC : 0 < C θ u v := Real.exp_pos _
  have hCv : C θ u v ≤ v := le_trans (C_le_min hθ hu hu1.le hv hv1.le) (min_le_right _ _)
  -- `b ≤ S^(1/θ)`
  have hbs : -Real.log v ≤ (S θ u v) ^ (1 / θ) := by
    have e : ((-Real.log v) ^ θ) ^ (1 / θ) = -Real.log v := by
      rw [← Real.rpow_mul hb.le]
      have : θ * (1 / θ) = 1 := by field_simp
      rw [this, Real.rpow_one]
    have hle : (-Real.log v) ^ θ ≤ S θ u v := by
      have := Real.rpow_nonneg ha.le θ
      simp only [S]; linarith
    calc -Real.log v = ((-Real.log v) ^ θ) ^ (1 / θ) := e.symm
      _ ≤ (S θ u v) ^ (1 / θ) :=
        Real.rpow_le_rpow (Real.rpow_nonneg hb.le θ) hle (by positivity)
  have hpow : (-Real.log v) ^ (θ - 1) ≤ ((S θ u v) ^ (1 / θ)) ^ (θ - 1) :=
    Real.rpow_le_rpow hb.le hbs (by linarith)
  have hX : 0 < (S θ u v) ^ (-1 + 1 / θ) := Real.rpow_pos_of_pos hS _
  have hone : (S θ u v) ^ (-1 + 1 / θ) * ((S θ u v) ^ (1 / θ)) ^ (θ - 1) = 1 := by
    rw [← Real.rpow_mul hS.le, ← Real.rpow_add hS]
    have : -1 + 1 / θ + 1 / θ * (θ - 1) = 0 := by field_simp; ring
    rw [this, Real.rpow_zero]
  have hprod : (S θ u v) ^ (-1 + 1 / θ) * (-Real.log v) ^ (θ - 1) ≤ 1 := by
    calc (S θ u v) ^ (-1 + 1 / θ) * (-Real.log v) ^ (θ - 1)
        ≤ (S θ u v) ^ (-1 + 1 / θ) * ((S θ u v) ^ (1 / θ)) ^ (θ - 1) :=
          mul_le_mul_of_nonneg_left hpow hX.le
      _ = 1 := hone
  have hB : 0 ≤ (-Real.log v) ^ (θ - 1) := Real.rpow_nonneg hb.le _
  simp only [h]
  rw [div_le_one hv]
  calc C θ u v * (S θ u v) ^ (-1 + 1 / θ) * (-Real.log v) ^ (θ - 1)
      = C θ u v * ((S θ u v) ^ (-1 + 1 / θ) * (-Real.log v) ^ (θ - 1)) := by ring
    _ ≤ v * 1 := mul_le_mul hCv hprod (mul_nonneg hX.le hB) hv.le
    _ = v := mul_one v

/-- The conditional CDF takes values in `[0,1]`. -/
theorem h_mem_unit {θ u v : ℝ} (hθ : 1 ≤ θ) (hu : 0 < u) (hu1 : u < 1) (hv : 0 < v) (hv1 : v < 1) :
    0 ≤ h θ u v ∧ h θ u v ≤ 1 :=
  ⟨h_nonneg hθ hu hu1.le hv hv1.le, h_le_one hθ hu hu1 hv hv1⟩

/-- Non-vacuity: an instance of the hypotheses. -/
example : 0 ≤ h 2 (1 / 2) (1 / 3) ∧ h 2 (1 / 2) (1 / 3) ≤ 1 :=
  h_mem_unit (by norm_num) (by norm_num) (by norm_num) (by norm_num) (by norm_num)

theorem c_nonneg {θ u v : ℝ} (hθ : 1 ≤ θ) (hu : 0 < u) (hu1 : u < 1) (hv : 0 < v) (hv1 : v < 1) :
    0 ≤ c θ u v := by
  have hS := S_pos (θ := θ) hu hu1 hv hv1
  have hC : 0 < C θ u v := Real.exp_pos _
  have hl : 0 < Real.log u * Real.log v :=
    mul_pos_of_neg_of_neg (Real.log_neg hu hu1) (Real.log_neg hv hv1)
  have h1 := Real.rpow_pos_of_pos hS (-2 + 2 / θ)
  have h2 := Real.rpow_pos_of_pos hS (-1 / θ)
  have h3 := Real.rpow_pos_of_pos hl (θ - 1)
  have h4 := Real.rpow_pos_of_pos (mul_pos hu hv) (-1 : ℝ)
  have h5 : 0 ≤ θ - 1 := by linarith
  simp only [c]
  positivity

/-- The density is strictly positive on the open square. -/
theorem c_pos {θ u v : ℝ} (hθ : 1 ≤ θ) (hu : 0 < u) (hu1 : u < 1) (hv : 0 < v) (hv1 : v < 1) :
    0 < c θ u v := by
  have hS := S_pos (θ := θ) hu hu1 hv hv1
  have hC : 0 < C θ u v := Real.exp_pos _
  have hl : 0 < Real.log u * Real.log v :=
    mul_pos_of_neg_of_neg (Real.log_neg hu hu1) (Real.log_neg hv hv1)
  have h1 := Real.rpow_pos_of_pos hS (-2 + 2 / θ)
  have h2 := Real.rpow_pos_of_pos hS (-1 / θ)
  have h3 := Real.rpow_pos_of_pos hl (θ - 1)
  have h4 := Real.rpow_pos_of_pos (mul_pos hu hv) (-1 : ℝ)
  have h5 : 0 ≤ θ - 1 := by linarith
  simp only [c]
  positivity

/-- Symmetry of the density (holds for the totalised formula on all of `ℝ²`:
`(log u * log v)^(θ-1)` and `(u*v)^(-1)` are symmetric by `mul_comm`, `S` by `add_comm`). -/
theorem c_symm (θ u v : ℝ) : c θ u v = c θ v u := by
  simp only [c, C_symm θ u v, S_symm θ u v, mul_comm u v, mul_comm (Real.log u) (Real.log v)]

/-! ### The general formulas at `θ = 1` are right … -/

/-- At `θ = 1` the general conditional-CDF formula gives `∂(uv)/∂v = u`. -/
theorem h_theta_one {u v : ℝ} (hu : 0 < u) (_hu1 : u < 1) (hv : 0 < v) (_hv1 : v < 1) :
    h 1 u v = u := by
  simp only [h, C_theta_one hu hv]
  norm_num
  field_simp

/-- At `θ = 1` the general density formula gives the independence density `1`. -/
theorem c_theta_one {u v : ℝ} (hu : 0 < u) (_hu1 : u < 1) (hv : 0 < v) (_hv1 : v < 1) :
    c 1 u v = 1 := by
  have huv : u * v ≠ 0 := (mul_pos hu hv).ne'
  simp only [c, C_theta_one hu hv, Real.rpow_neg_one]
  norm_num
  field_simp

/-! ### row-wise theorems for the generated `partial_derivative` / `probability_density` -/

/-- Row independence of the generated `partial_derivative`, as found: general formula for
`θ > 1`. -/
theorem h_rowwise {θ : ℝ} (hθ : 1 < θ) (xs : List (ℝ × ℝ)) :
    Gen.Gumbel.h θ xs = .ok (xs.map fun p => h θ p.1 p.2) := by
  unfold Gen.Gumbel.h
  rw [checkFit_ok hθ.le]
  have hne : θ ≠ 1 := hθ.ne'
  simp [hne, bridge_hRow hne]

/-- Row independence of the generated `probability_density`: general formula for `θ > 1`. -/
theorem pdf_rowwise {θ : ℝ} (hθ : 1 < θ) (xs : List (ℝ × ℝ)) :
    Gen.Gumbel.pdf θ xs = .ok (xs.map fun p => c θ p.1 p.2) := by
  unfold Gen.Gumbel.pdf
  rw [checkFit_ok hθ.le]
  have hne : θ ≠ 1 := hθ.ne'
  simp [hne, bridge_pdfRow hne]

/-- What the generated methods return at `θ = 1` (after the repair `fix: Gumbel theta == 1
shortcuts …`): the first coordinate, resp. the constant `1` — for every batch. -/
theorem h_theta_one_rowwise (xs : List (ℝ × ℝ)) :
    Gen.Gumbel.h (1 : ℝ) xs = .ok (xs.map fun p => p.1) := by
  unfold Gen.Gumbel.h
  rw [checkFit_ok le_rfl]
  simp [Gen.Gumbel.h_leaf0]

theorem pdf_theta_one_rowwise (xs : List (ℝ × ℝ)) :
    Gen.Gumbel.pdf (1 : ℝ) xs = .ok (xs.map fun _ => (1 : ℝ)) := by
  unfold Gen.Gumbel.pdf
  rw [checkFit_ok le_rfl]
  simp [Gen.Gumbel.pdf_leaf0]

/-- Row independence for every `θ ≥ 1` on the open unit square: at `θ = 1` the shortcut agrees with
the general formula (`h_theta_one`, `c_theta_one`). -/
theorem h_rowwise_ge_one {θ : ℝ} (hθ : 1 ≤ θ) (xs : List (ℝ × ℝ))
    (hdom : ∀ p ∈ xs, 0 < p.1 ∧ p.1 < 1 ∧ 0 < p.2 ∧ p.2 < 1) :
    Gen.Gumbel.h θ xs = .ok (xs.map fun p => h θ p.1 p.2) := by
  rcases hθ.eq_or_lt with rfl | hlt
  · rw [h_theta_one_rowwise]; congr 1
    apply List.map_congr_left; intro p hp
    obtain ⟨a, b, c', d⟩ := hdom p hp
    exact (h_theta_one a b c' d).symm
  · exact h_rowwise hlt xs

theorem pdf_rowwise_ge_one {θ : ℝ} (hθ : 1 ≤ θ) (xs : List (ℝ × ℝ))
    (hdom : ∀ p ∈ xs, 0 < p.1 ∧ p.1 < 1 ∧ 0 < p.2 ∧ p.2 < 1) :
    Gen.Gumbel.pdf θ xs = .ok (xs.map fun p => c θ p.1 p.2) := by
  rcases hθ.eq_or_lt with rfl | hlt
  · rw [pdf_theta_one_rowwise]; congr 1
    apply List.map_congr_left; intro p hp
    obtain ⟨a, b, c', d⟩ := hdom p hp
    exact (c_theta_one a b c' d).symm
  · exact pdf_rowwise hlt xs

end CopVerif.Gumbel
