import Mathlib.Analysis.SpecialFunctions.Pow.Real
import Mathlib.Analysis.SpecialFunctions.Sqrt
import Mathlib.Analysis.SpecialFunctions.Gaussian.GaussianIntegral
import Mathlib.Algebra.BigOperators.Group.List.Basic
import Mathlib.Algebra.Order.BigOperators.Group.List
import CopVerif.Real.Inst
import CopVerif.Gen.Estimators
import CopVerif.Model.KDE
/-!
  C04 over ℝ: canonical estimator specs (`mean`, `popVar`, list minimum / maximum), bridge lemmas
  `Gen.Estimators.* = spec`, and the facts the property theorems in `Props/C04.lean` use.
-/
namespace CopVerif.Estimators
open CopVerif NumFns CopVerif.Gen.Estimators

/-! ### the numpy table at ℝ -/

theorem sumList_eq_sum (xs : List ℝ) : sumList xs = xs.sum := by
  simp [sumList, List.sum_eq_foldl]

/-- sample mean `(Σ x)/n`. -/
noncomputable def mean (xs : List ℝ) : ℝ := xs.sum / xs.length

/-- population variance `Σ (x − mean)² / n`. -/
noncomputable def popVar (xs : List ℝ) : ℝ := (xs.map fun x => (x - mean xs) ^ 2).sum / xs.length

theorem npMean_eq (xs : List ℝ) : npMean xs = mean xs := by
  simp [npMean, mean, sumList_eq_sum]

theorem npVar_eq (xs : List ℝ) : npVar xs = popVar xs := by
  simp [npVar, npVarDdof, popVar, sumList_eq_sum, npMean_eq, sq]

theorem npStd_eq (xs : List ℝ) : npStd xs = Real.sqrt (popVar xs) := by
  simp [npStd, npStdDdof, ← npVar_eq, npVar]

theorem sum_sq_nonneg (f : ℝ → ℝ) (xs : List ℝ) : 0 ≤ (xs.map fun x => (f x) ^ 2).sum := by
  apply List.sum_nonneg
  intro y hy
  obtain ⟨x, _, rfl⟩ := List.mem_map.1 hy
  positivity

theorem sum_sq_eq_zero_iff (f : ℝ → ℝ) (xs : List ℝ) :
    (xs.map fun x => (f x) ^ 2).sum = 0 ↔ ∀ x ∈ xs, f x = 0 := by
  induction xs with
  | nil => simp
  | cons a l ih =>
    have h1 : 0 ≤ (f a) ^ 2 := by positivity
    have h2 := sum_sq_nonneg f l
    simp only [List.map_cons, List.sum_cons, List.mem_cons, forall_eq_or_imp]
    constructor
    · intro h
      have ha : (f a) ^ 2 = 0 := by linarith
      have hl : (l.map fun x => (f x) ^ 2).sum = 0 := by linarith
      exact ⟨by simpa using ha, ih.1 hl⟩
    · rintro ⟨ha, hl⟩
      rw [ih.2 hl, ha]; simp

theorem popVar_nonneg (xs : List ℝ) : 0 ≤ popVar xs :=
  div_nonneg (sum_sq_nonneg _ xs) (Nat.cast_nonneg _)

theorem length_pos_real {xs : List ℝ} (h : xs ≠ []) : (0 : ℝ) < xs.length := by
  exact_mod_cast List.length_pos_iff.2 h

theorem popVar_eq_zero_iff {xs : List ℝ} (h : xs ≠ []) : popVar xs = 0 ↔ ∀ x ∈ xs, x = mean xs := by
  have hn := length_pos_real h
  unfold popVar
  rw [div_eq_zero_iff, sum_sq_eq_zero_iff (fun x => x - mean xs)]
  constructor
  · rintro (h0 | h0)
    · intro x hx; linarith [h0 x hx]
    · exact absurd h0 hn.ne'
  · intro h0; left; intro x hx; rw [h0 x hx]; simp

/-- all elements equal to the mean iff all elements equal to each other. -/
theorem all_eq_mean_iff {xs : List ℝ} (h : xs ≠ []) :
    (∀ x ∈ xs, x = mean xs) ↔ ∀ x ∈ xs, ∀ y ∈ xs, x = y := by
  constructor
  · intro h0 x hx y hy; rw [h0 x hx, h0 y hy]
  · intro h0
    obtain ⟨c, l, rfl⟩ := List.exists_cons_of_ne_nil h
    have hall : ∀ b ∈ c :: l, b = c := fun b hb => h0 b hb c (List.mem_cons_self)
    have hrep : c :: l = List.replicate (c :: l).length c := List.eq_replicate_iff.2 ⟨rfl, hall⟩
    have hn := length_pos_real h
    have hm : mean (c :: l) = c := by
      unfold mean
      rw [hrep]
      simp only [List.sum_replicate, List.length_replicate, nsmul_eq_mul]
      field_simp
    intro x hx; rw [hm]; exact hall x hx

/-- the population standard deviation is positive iff the sample is not constant. -/
theorem sqrt_popVar_pos_iff {xs : List ℝ} (h : xs ≠ []) :
    0 < Real.sqrt (popVar xs) ↔ ∃ x ∈ xs, ∃ y ∈ xs, x ≠ y := by
  rw [Real.sqrt_pos]
  have h0 := popVar_nonneg xs
  have h1 := (popVar_eq_zero_iff h).trans (all_eq_mean_iff h)
  constructor
  · intro hp
    by_contra hne
    push Not at hne
    exact hp.ne' (h1.2 hne)
  · rintro ⟨x, hx, y, hy, hxy⟩
    rcases h0.lt_or_eq with hlt | heq
    · exact hlt
    · exact absurd (h1.1 heq.symm x hx y hy) hxy

/-! ### minimum / maximum as the left folds numpy's table uses -/

theorem foldl_min_spec (l : List ℝ) (a : ℝ) :
    let m := l.foldl (fun a b => if b < a then b else a) a
    (m ≤ a ∧ ∀ x ∈ l, m ≤ x) ∧ (m = a ∨ m ∈ l) := by
  induction l generalizing a with
  | nil => simp
  | cons b l ih =>
    simp only [List.foldl_cons, List.mem_cons, forall_eq_or_imp]
    by_cases hba : b < a
    · simp only [hba, if_true]
      obtain ⟨⟨h1, h2⟩, h3⟩ := ih b
      refine ⟨⟨by linarith, h1, h2⟩, ?_⟩
      rcases h3 with h3 | h3
      · exact Or.inr (Or.inl h3)
      · exact Or.inr (Or.inr h3)
    · simp only [hba, if_false]
      obtain ⟨⟨h1, h2⟩, h3⟩ := ih a
      refine ⟨⟨h1, by linarith [not_lt.1 hba], h2⟩, ?_⟩
      rcases h3 with h3 | h3
      · exact Or.inl h3
      · exact Or.inr (Or.inr h3)

theorem foldl_max_spec (l : List ℝ) (a : ℝ) :
    let m := l.foldl (fun a b => if a < b then b else a) a
    (a ≤ m ∧ ∀ x ∈ l, x ≤ m) ∧ (m = a ∨ m ∈ l) := by
  induction l generalizing a with
  | nil => simp
  | cons b l ih =>
    simp only [List.foldl_cons, List.mem_cons, forall_eq_or_imp]
    by_cases hba : a < b
    · simp only [hba, if_true]
      obtain ⟨⟨h1, h2⟩, h3⟩ := ih b
      refine ⟨⟨by linarith, h1, h2⟩, ?_⟩
      rcases h3 with h3 | h3
      · exact Or.inr (Or.inl h3)
      · exact Or.inr (Or.inr h3)
    · simp only [hba, if_false]
      obtain ⟨⟨h1, h2⟩, h3⟩ := ih a
      refine ⟨⟨h1, by linarith [not_lt.1 hba], h2⟩, ?_⟩
      rcases h3 with h3 | h3
      · exact Or.inl h3
      · exact Or.inr (Or.inr h3)

theorem npMin_mem {xs : List ℝ} (h : xs ≠ []) : npMin xs ∈ xs := by
  obtain ⟨c, l, rfl⟩ := List.exists_cons_of_ne_nil h
  have := (foldl_min_spec l c).2
  simp only [npMin, List.mem_cons]
  exact this

theorem npMin_le {xs : List ℝ} {x : ℝ} (hx : x ∈ xs) : npMin xs ≤ x := by
  obtain ⟨c, l, rfl⟩ := List.exists_cons_of_ne_nil (List.ne_nil_of_mem hx)
  have := (foldl_min_spec l c).1
  simp only [npMin]
  rcases List.mem_cons.1 hx with rfl | hx
  · exact this.1
  · exact this.2 x hx

theorem npMax_mem {xs : List ℝ} (h : xs ≠ []) : npMax xs ∈ xs := by
  obtain ⟨c, l, rfl⟩ := List.exists_cons_of_ne_nil h
  have := (foldl_max_spec l c).2
  simp only [npMax, List.mem_cons]
  exact this

theorem le_npMax {xs : List ℝ} {x : ℝ} (hx : x ∈ xs) : x ≤ npMax xs := by
  obtain ⟨c, l, rfl⟩ := List.exists_cons_of_ne_nil (List.ne_nil_of_mem hx)
  have := (foldl_max_spec l c).1
  simp only [npMax]
  rcases List.mem_cons.1 hx with rfl | hx
  · exact this.1
  · exact this.2 x hx

/-- `m` is the minimum of `xs`: attained and a lower bound. -/
def IsListMin (xs : List ℝ) (m : ℝ) : Prop := m ∈ xs ∧ ∀ x ∈ xs, m ≤ x
def IsListMax (xs : List ℝ) (m : ℝ) : Prop := m ∈ xs ∧ ∀ x ∈ xs, x ≤ m

theorem isListMin_npMin {xs : List ℝ} (h : xs ≠ []) : IsListMin xs (npMin xs) :=
  ⟨npMin_mem h, fun _ hx => npMin_le hx⟩
theorem isListMax_npMax {xs : List ℝ} (h : xs ≠ []) : IsListMax xs (npMax xs) :=
  ⟨npMax_mem h, fun _ hx => le_npMax hx⟩

theorem IsListMin.unique {xs : List ℝ} {a b : ℝ} (ha : IsListMin xs a) (hb : IsListMin xs b) : a = b :=
  le_antisymm (ha.2 b hb.1) (hb.2 a ha.1)
theorem IsListMax.unique {xs : List ℝ} {a b : ℝ} (ha : IsListMax xs a) (hb : IsListMax xs b) : a = b :=
  le_antisymm (hb.2 a ha.1) (ha.2 b hb.1)

/-! ### bridges: generated estimator = spec -/

theorem bridge_gaussianFit (xs : List ℝ) :
    gaussianFit xs = { loc := mean xs, scale := Real.sqrt (popVar xs) } := by
  simp [gaussianFit, npMean_eq, npStd_eq]

theorem bridge_uniformFit (xs : List ℝ) :
    uniformFit xs = { loc := npMin xs, scale := npMax xs - npMin xs } := by
  simp [uniformFit]

theorem bridge_betaFitInit (xs : List ℝ) :
    betaFitInit xs = { loc := some (npMin xs), scale := some (npMax xs - npMin xs) } := by
  simp [betaFitInit]

theorem epsilon_eq : (epsilon : ℝ) = 1 / 8388608 := by
  simp [epsilon]

theorem epsilon_pos : (0 : ℝ) < epsilon := by
  rw [epsilon_eq]; norm_num

theorem bridge_truncMin_none (xs : List ℝ) : truncMin none xs = npMin xs - epsilon := by
  simp [truncMin]
theorem bridge_truncMax_none (xs : List ℝ) : truncMax none xs = npMax xs + epsilon := by
  simp [truncMax]
theorem bridge_truncMin_some (m : ℝ) (xs : List ℝ) : truncMin (some m) xs = m := by
  simp [truncMin]
theorem bridge_truncMax_some (m : ℝ) (xs : List ℝ) : truncMax (some m) xs = m := by
  simp [truncMax]

theorem bridge_truncParams (mn mx loc scale : ℝ) :
    truncParams mn mx (loc, scale)
      = { a := (mn - loc) / scale, b := (mx - loc) / scale, loc := loc, scale := scale } := by
  simp [truncParams]

theorem bridge_truncObjectiveArgs (mn mx loc scale : ℝ) :
    truncObjectiveArgs mn mx (loc, scale)
      = { a := (mn - loc) / scale, b := (mx - loc) / scale, loc := loc, scale := scale } := by
  simp [truncObjectiveArgs]

theorem bridge_truncBounds (mn mx : ℝ) :
    truncBounds mn mx = [(mn, mx), (0, (mx - mn) ^ 2)] := by
  simp [truncBounds]

theorem bridge_truncInitialParams (xs : List ℝ) :
    truncInitialParams xs = (mean xs, Real.sqrt (popVar xs)) := by
  simp [truncInitialParams, npMean_eq, npStd_eq]

/-- `v` lies in the box `b` (`bounds=` of `fmin_slsqp`: one `(lower, upper)` pair per variable). -/
def InBox (b : List (ℝ × ℝ)) (v : List ℝ) : Prop := List.Forall₂ (fun r x => r.1 ≤ x ∧ x ≤ r.2) b v

theorem inBox_truncBounds (mn mx loc scale : ℝ) :
    InBox (truncBounds mn mx) [loc, scale]
      ↔ (mn ≤ loc ∧ loc ≤ mx) ∧ (0 ≤ scale ∧ scale ≤ (mx - mn) ^ 2) := by
  simp [InBox, bridge_truncBounds]

/-! ### the kernel estimate is a density (non-negativity) -/
open CopVerif.Model

theorem sumList_nonneg {l : List ℝ} (h : ∀ x ∈ l, 0 ≤ x) : 0 ≤ sumList l := by
  rw [sumList_eq_sum]; exact List.sum_nonneg h

theorem gaussKernel_nonneg {c : ℝ} (hc : 0 ≤ c) (z : ℝ) : 0 ≤ gaussKernel c z := by
  simp only [gaussKernel, exp_real]
  exact mul_nonneg hc (Real.exp_pos _).le

theorem invSqrt2Pi_pos : (0 : ℝ) < invSqrt2Pi := by
  simp only [invSqrt2Pi, ofSci_real]; positivity

theorem kdePdfWith_nonneg {c h : ℝ} (hc : 0 ≤ c) (hh : 0 < h) (xs ws : List ℝ)
    (hw : ∀ w ∈ ws, 0 ≤ w) (x : ℝ) : 0 ≤ kdePdfWith c xs ws h x := by
  unfold kdePdfWith
  apply sumList_nonneg
  intro y hy
  obtain ⟨i, hi, rfl⟩ := List.mem_iff_getElem.1 hy
  simp only [List.getElem_zipWith]
  have hwi : 0 ≤ ws[i]'(by simp at hi; omega) := hw _ (List.getElem_mem _)
  exact div_nonneg (mul_nonneg hwi (gaussKernel_nonneg hc _)) hh.le

/-! ### equal weights: the classical kernel estimate -/

theorem nEff_unweighted {n : ℕ} (hn : 0 < n) : nEff (normWeights (α := ℝ) n none) = n := by
  have h : (n : ℝ) ≠ 0 := by exact_mod_cast hn.ne'
  simp [nEff, sumSq, normWeights, sumList_eq_sum, List.map_replicate, List.sum_replicate]

theorem zipWith_replicate_sum (f : ℝ → ℝ) (c : ℝ) (xs : List ℝ) :
    (List.zipWith (fun xi wi => wi * f xi) xs (List.replicate xs.length c)).sum = c * (xs.map f).sum := by
  induction xs with
  | nil => simp
  | cons a l ih => simp [List.replicate_succ, ih]; ring

theorem weightedMean_unweighted {xs : List ℝ} (h : xs ≠ []) :
    weightedMean xs (normWeights xs.length none) = mean xs := by
  have hn := length_pos_real h
  have := zipWith_replicate_sum (fun x => x) (1 / (xs.length : ℝ)) xs
  simp only [weightedMean, normWeights, sumList_eq_sum, ofNat_real, mean, Nat.cast_one]
  rw [this]; simp; field_simp

theorem weightedVar_unweighted {xs : List ℝ} (h2 : 2 ≤ xs.length) :
    weightedVar xs (normWeights xs.length none)
      = (xs.map fun x => (x - mean xs) ^ 2).sum / ((xs.length : ℝ) - 1) := by
  have h : xs ≠ [] := by intro h0; simp [h0] at h2
  have hn := length_pos_real h
  have hn1 : (xs.length : ℝ) - 1 ≠ 0 := by
    have : (2 : ℝ) ≤ xs.length := by exact_mod_cast h2
    linarith
  have hm := weightedMean_unweighted h
  have := zipWith_replicate_sum (fun x => (x - mean xs) * (x - mean xs)) (1 / (xs.length : ℝ)) xs
  unfold weightedVar
  rw [hm]
  simp only [normWeights, sumList_eq_sum, ofNat_real, sumSq, List.map_replicate, List.sum_replicate, Nat.cast_one] at this ⊢
  rw [this]
  simp only [nsmul_eq_mul, sq]
  field_simp

/-! ### the kernel estimate integrates to the total weight -/

noncomputable def g0 (z : ℝ) : ℝ := Real.exp (-((z * z) / 2))

theorem g0_eq : g0 = fun z => Real.exp (-(1 / 2) * z ^ 2) := by
  funext z; unfold g0; congr 1; ring

theorem integrable_g0 : MeasureTheory.Integrable g0 := by
  rw [g0_eq]; exact integrable_exp_neg_mul_sq (by norm_num)

theorem integral_g0 : ∫ z, g0 z = Real.sqrt (2 * Real.pi) := by
  rw [g0_eq, integral_gaussian]; congr 1; ring

theorem gaussKernel_eq (c z : ℝ) : gaussKernel c z = c * g0 z := by
  simp [gaussKernel, g0]

theorem term_eq (c w h xi : ℝ) :
    (fun x => w * gaussKernel c ((x - xi) / h) / h) = fun x => (w * c / h) * g0 ((x - xi) / h) := by
  funext x; rw [gaussKernel_eq]; ring

theorem term_integrable (c w xi : ℝ) {h : ℝ} (hh : h ≠ 0) :
    MeasureTheory.Integrable (fun x => w * gaussKernel c ((x - xi) / h) / h) := by
  rw [term_eq]
  exact ((integrable_g0.comp_div hh).comp_sub_right xi).const_mul _

theorem term_integral (c w xi : ℝ) {h : ℝ} (hh : 0 < h) :
    ∫ x, w * gaussKernel c ((x - xi) / h) / h = w * (c * Real.sqrt (2 * Real.pi)) := by
  rw [term_eq, MeasureTheory.integral_const_mul, MeasureTheory.integral_sub_right_eq_self (fun y => g0 (y / h)) xi,
    MeasureTheory.Measure.integral_comp_div, integral_g0, abs_of_pos hh, smul_eq_mul]
  field_simp

theorem kdePdfWith_integrable (c : ℝ) {h : ℝ} (hh : h ≠ 0) (xs ws : List ℝ) :
    MeasureTheory.Integrable (fun x => kdePdfWith c xs ws h x) := by
  simp only [kdePdfWith, sumList_eq_sum]
  induction xs generalizing ws with
  | nil => simp
  | cons a l ih =>
    cases ws with
    | nil => simp
    | cons w ws =>
      simp only [List.zipWith_cons_cons, List.sum_cons]
      exact (term_integrable c w a hh).add (ih ws)

theorem kdePdfWith_integral (c : ℝ) {h : ℝ} (hh : 0 < h) (xs ws : List ℝ) (hlen : xs.length = ws.length) :
    ∫ x, kdePdfWith c xs ws h x = ws.sum * (c * Real.sqrt (2 * Real.pi)) := by
  induction xs generalizing ws with
  | nil =>
    have : ws = [] := List.length_eq_zero_iff.1 (by simpa using hlen.symm)
    simp [kdePdfWith, sumList_eq_sum, this]
  | cons a l ih =>
    cases ws with
    | nil => simp at hlen
    | cons w ws =>
      have hl : l.length = ws.length := by simpa using hlen
      have h1 := term_integrable c w a hh.ne'
      have h2 := kdePdfWith_integrable c hh.ne' l ws
      have : (fun x => kdePdfWith c (a :: l) (w :: ws) h x)
          = fun x => w * gaussKernel c ((x - a) / h) / h + kdePdfWith c l ws h x := by
        funext x; simp [kdePdfWith, sumList_eq_sum]
      rw [this, MeasureTheory.integral_add h1 h2, term_integral c w a hh, ih ws hl]
      simp only [List.sum_cons]; ring

/-- with the exact normalising constant the kernel estimate integrates to the total weight. -/
theorem kdePdf_integrates {h : ℝ} (hh : 0 < h) (xs ws : List ℝ) (hlen : xs.length = ws.length) :
    ∫ x, kdePdfWith (1 / Real.sqrt (2 * Real.pi)) xs ws h x = ws.sum := by
  rw [kdePdfWith_integral _ hh xs ws hlen]
  have : Real.sqrt (2 * Real.pi) ≠ 0 := by positivity
  field_simp


theorem normWeights_sum {n : ℕ} (hn : 0 < n) (w : Option (List ℝ))
    (hw : ∀ ws, w = some ws → ws.sum ≠ 0) : (normWeights n w).sum = 1 := by
  have hn' : (n : ℝ) ≠ 0 := by exact_mod_cast hn.ne'
  cases w with
  | none => simp [normWeights, List.sum_replicate, hn']
  | some ws =>
    have hs := hw ws rfl
    have : ∀ (l : List ℝ) (s : ℝ), (l.map (· / s)).sum = l.sum / s := by
      intro l s; induction l with
      | nil => simp
      | cons a l ih => simp [ih, add_div]
    simp only [normWeights, sumList_eq_sum, this]
    exact div_self hs

theorem normWeights_length (n : ℕ) (w : Option (List ℝ)) (hw : ∀ ws, w = some ws → ws.length = n) :
    (normWeights n w).length = n := by
  cases w with
  | none => simp [normWeights]
  | some ws => simp [normWeights, hw ws rfl]

end CopVerif.Estimators
