import CopVerif.Real.VolumeFrank
import CopVerif.Real.VolumeClayton
import CopVerif.Real.VolumeGumbel
/-! Umbrella: for each Archimedean family the density integrates over every rectangle to the
rectangle's `C`-volume (`Frank.integral_c_rect`, `Clayton.integral_c_rect`,
`Gumbel.integral_c_rect_of_pos` / `Gumbel.integral_c_rect`), total mass one
(`*.integral_c_unit_square`), and the Frank family is positively ordered in `θ`
(`Frank.mul_le_C`, `Frank.C_le_mul`, `Frank.C_le_C_of_theta_le`). -/
