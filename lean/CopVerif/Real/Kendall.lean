import Mathlib.Order.Monotone.Basic
import Mathlib.Tactic.Linarith
import Mathlib.Tactic.Ring
import Mathlib.Tactic.Tauto
import CopVerif.Model.Kendall
import CopVerif.Real.Inst
/-!
  Facts about the executable Kendall tau-b model `CopVerif.Model.Kendall` (C10, shared with C01).

  All statements are about the model's own `conc`, `disc`, `tiedX`, `tiedY`, `npairs`, `tauB`, for
  lists of **any** length over a linear order.  The `DecidableLT` instance is an arbitrary one
  (not necessarily the one of the `LinearOrder`), so the lemmas apply verbatim at `ℝ`.
-/
namespace CopVerif.Kendall
open CopVerif CopVerif.Model.Kendall

/-! ### generic lemmas on `countPairs` -/
section generic
variable {γ δ : Type}

theorem countP_or_of_disjoint (a b : γ → Bool) (h : ∀ x, a x = true → b x = true → False)
    (l : List γ) : l.countP (fun x => a x || b x) = l.countP a + l.countP b := by
  induction l with
  | nil => simp
  | cons x l ih =>
    have hx := h x
    simp only [List.countP_cons, ih]
    cases ha : a x <;> cases hb : b x <;> simp_all <;> omega

theorem countPairs_or (a b : γ → γ → Bool) (h : ∀ p q, a p q = true → b p q = true → False)
    (xs : List γ) :
    countPairs (fun p q => a p q || b p q) xs = countPairs a xs + countPairs b xs := by
  induction xs with
  | nil => rfl
  | cons p ps ih =>
    simp only [countPairs, ih, countP_or_of_disjoint _ _ (h p)]
    omega

theorem countPairs_congr {a b : γ → γ → Bool} {xs : List γ}
    (h : xs.Pairwise (fun p q => a p q = b p q)) : countPairs a xs = countPairs b xs := by
  induction xs with
  | nil => rfl
  | cons p ps ih =>
    rw [List.pairwise_cons] at h
    simp only [countPairs, ih h.2]
    congr 1
    exact List.countP_congr (fun q hq => by rw [h.1 q hq])

theorem countPairs_congr_all {a b : γ → γ → Bool} (h : ∀ p q, a p q = b p q) (xs : List γ) :
    countPairs a xs = countPairs b xs := by
  have : a = b := by funext p q; exact h p q
  rw [this]

theorem countPairs_mono {a b : γ → γ → Bool} (h : ∀ p q, a p q = true → b p q = true)
    (xs : List γ) : countPairs a xs ≤ countPairs b xs := by
  induction xs with
  | nil => exact Nat.le_refl _
  | cons p ps ih =>
    simp only [countPairs]
    exact Nat.add_le_add (List.countP_mono_left (fun q _ => h p q)) ih

theorem countPairs_map (r : δ → δ → Bool) (f : γ → δ) (xs : List γ) :
    countPairs r (xs.map f) = countPairs (fun p q => r (f p) (f q)) xs := by
  induction xs with
  | nil => rfl
  | cons p ps ih =>
    simp only [List.map_cons, countPairs, ih, List.countP_map]
    rfl

theorem countPairs_false (xs : List γ) : countPairs (fun _ _ => false) xs = 0 := by
  induction xs with
  | nil => rfl
  | cons p ps ih => simp [countPairs, ih]

theorem countPairs_true (xs : List γ) :
    2 * countPairs (fun _ _ => true) xs = xs.length * (xs.length - 1) := by
  induction xs with
  | nil => rfl
  | cons p ps ih =>
    simp only [countPairs, List.countP_true, List.length_cons, Nat.add_sub_cancel, Nat.mul_add, ih]
    cases ps with
    | nil => rfl
    | cons q qs =>
      simp only [List.length_cons, Nat.add_sub_cancel]
      ring

end generic

/-! ### the pointwise classification of a pair in a linear order -/
section lin
variable {α : Type} [LinearOrder α] [DecidableLT α]

theorem eqv_iff (a b : α) : eqv a b = true ↔ a = b := by
  simp only [eqv, Bool.and_eq_true, Bool.not_eq_true', decide_eq_false_iff_not, not_lt]
  exact ⟨fun h => le_antisymm h.2 h.1, fun h => ⟨h.ge, h.le⟩⟩

theorem concB_iff (p q : α × α) :
    concB p q = true ↔ (p.1 < q.1 ∧ p.2 < q.2) ∨ (q.1 < p.1 ∧ q.2 < p.2) := by
  simp [concB]

theorem discB_iff (p q : α × α) :
    discB p q = true ↔ (p.1 < q.1 ∧ q.2 < p.2) ∨ (q.1 < p.1 ∧ p.2 < q.2) := by
  simp [discB]

theorem tiedXB_iff (p q : α × α) : tiedXB p q = true ↔ p.1 = q.1 := eqv_iff _ _

theorem tiedYB_iff (p q : α × α) : tiedYB p q = true ↔ p.2 = q.2 := eqv_iff _ _

/-- pairs tied in at least one coordinate -/
def tiedAny (xs : List (α × α)) : Nat := countPairs (fun p q => tiedXB p q || tiedYB p q) xs

theorem conc_disc_disjoint (p q : α × α) : concB p q = true → discB p q = true → False := by
  rw [concB_iff, discB_iff]
  rintro (⟨h1, h2⟩ | ⟨h1, h2⟩) (⟨h3, h4⟩ | ⟨h3, h4⟩)
  · exact lt_asymm h2 h4
  · exact lt_asymm h1 h3
  · exact lt_asymm h1 h3
  · exact lt_asymm h2 h4

theorem concdisc_tiedX_disjoint (p q : α × α) :
    (concB p q || discB p q) = true → tiedXB p q = true → False := by
  rw [Bool.or_eq_true, concB_iff, discB_iff, tiedXB_iff]
  rintro ((⟨h1, -⟩ | ⟨h1, -⟩) | (⟨h1, -⟩ | ⟨h1, -⟩)) h <;> exact absurd h (by first | exact h1.ne | exact h1.ne')

theorem concdisc_tiedY_disjoint (p q : α × α) :
    (concB p q || discB p q) = true → tiedYB p q = true → False := by
  rw [Bool.or_eq_true, concB_iff, discB_iff, tiedYB_iff]
  rintro ((⟨-, h1⟩ | ⟨-, h1⟩) | (⟨-, h1⟩ | ⟨-, h1⟩)) h <;> exact absurd h (by first | exact h1.ne | exact h1.ne')

theorem concdisc_tiedAny_disjoint (p q : α × α) :
    (concB p q || discB p q) = true → (tiedXB p q || tiedYB p q) = true → False := by
  intro h h'
  rw [Bool.or_eq_true] at h'
  rcases h' with h' | h'
  · exact concdisc_tiedX_disjoint p q h h'
  · exact concdisc_tiedY_disjoint p q h h'

theorem pair_classified (p q : α × α) :
    ((concB p q || discB p q) || (tiedXB p q || tiedYB p q)) = true := by
  simp only [Bool.or_eq_true, concB_iff, discB_iff, tiedXB_iff, tiedYB_iff]
  rcases lt_trichotomy p.1 q.1 with h | h | h <;> rcases lt_trichotomy p.2 q.2 with h' | h' | h' <;>
    tauto

/-! ### partition and range -/

/-- Every pair is exactly one of: concordant, discordant, tied in `x` or `y`. -/
theorem partition (xs : List (α × α)) : conc xs + disc xs + tiedAny xs = npairs xs := by
  unfold conc disc tiedAny npairs
  rw [← countPairs_or _ _ conc_disc_disjoint, ← countPairs_or _ _ concdisc_tiedAny_disjoint]
  exact countPairs_congr_all (fun p q => pair_classified p q) xs

theorem conc_disc_tiedX_le (xs : List (α × α)) : conc xs + disc xs + tiedX xs ≤ npairs xs := by
  unfold conc disc tiedX npairs
  rw [← countPairs_or _ _ conc_disc_disjoint, ← countPairs_or _ _ concdisc_tiedX_disjoint]
  exact countPairs_mono (fun _ _ _ => rfl) xs

theorem conc_disc_tiedY_le (xs : List (α × α)) : conc xs + disc xs + tiedY xs ≤ npairs xs := by
  unfold conc disc tiedY npairs
  rw [← countPairs_or _ _ conc_disc_disjoint, ← countPairs_or _ _ concdisc_tiedY_disjoint]
  exact countPairs_mono (fun _ _ _ => rfl) xs

theorem conc_add_disc_le_sub_tiedX (xs : List (α × α)) :
    conc xs + disc xs ≤ npairs xs - tiedX xs := by
  have := conc_disc_tiedX_le xs; omega

theorem conc_add_disc_le_sub_tiedY (xs : List (α × α)) :
    conc xs + disc xs ≤ npairs xs - tiedY xs := by
  have := conc_disc_tiedY_le xs; omega

theorem tiedX_le_npairs (xs : List (α × α)) : tiedX xs ≤ npairs xs := by
  have := conc_disc_tiedX_le xs; omega

theorem tiedY_le_npairs (xs : List (α × α)) : tiedY xs ≤ npairs xs := by
  have := conc_disc_tiedY_le xs; omega

omit [LinearOrder α] [DecidableLT α] in
theorem two_mul_npairs (xs : List (α × α)) : 2 * npairs xs = xs.length * (xs.length - 1) :=
  countPairs_true xs

/-- `(conc − disc)² ≤ (npairs − tiedX)(npairs − tiedY)` over `ℤ`: the numerator of tau-b is bounded
by its denominator, i.e. `|tau-b| ≤ 1` whenever it is defined. -/
theorem sq_le_denominator (xs : List (α × α)) :
    ((conc xs : ℤ) - disc xs) ^ 2 ≤
      ((npairs xs : ℤ) - tiedX xs) * ((npairs xs : ℤ) - tiedY xs) := by
  have hx : ((conc xs + disc xs + tiedX xs : ℕ) : ℤ) ≤ npairs xs := by
    exact_mod_cast conc_disc_tiedX_le xs
  have hy : ((conc xs + disc xs + tiedY xs : ℕ) : ℤ) ≤ npairs xs := by
    exact_mod_cast conc_disc_tiedY_le xs
  push_cast at hx hy
  have hc : (0 : ℤ) ≤ conc xs := Int.natCast_nonneg _
  have hd : (0 : ℤ) ≤ disc xs := Int.natCast_nonneg _
  have h1 : ((conc xs : ℤ) - disc xs) ^ 2 ≤ ((conc xs : ℤ) + disc xs) ^ 2 := by nlinarith
  have h2 : ((conc xs : ℤ) + disc xs) ^ 2 ≤
      ((npairs xs : ℤ) - tiedX xs) * ((npairs xs : ℤ) - tiedY xs) := by nlinarith
  exact le_trans h1 h2

/-! ### symmetry -/

theorem conc_swap (xs : List (α × α)) : conc (xs.map Prod.swap) = conc xs := by
  unfold conc
  rw [countPairs_map]
  refine countPairs_congr_all (fun p q => ?_) xs
  simp only [concB, Prod.fst_swap, Prod.snd_swap, Bool.and_comm]

theorem disc_swap (xs : List (α × α)) : disc (xs.map Prod.swap) = disc xs := by
  unfold disc
  rw [countPairs_map]
  refine countPairs_congr_all (fun p q => ?_) xs
  simp only [discB, Prod.fst_swap, Prod.snd_swap, Bool.and_comm, Bool.or_comm]

theorem tiedX_swap (xs : List (α × α)) : tiedX (xs.map Prod.swap) = tiedY xs := by
  unfold tiedX tiedY
  rw [countPairs_map]
  rfl

theorem tiedY_swap (xs : List (α × α)) : tiedY (xs.map Prod.swap) = tiedX xs := by
  unfold tiedX tiedY
  rw [countPairs_map]
  rfl

omit [LinearOrder α] [DecidableLT α] in
theorem npairs_swap (xs : List (α × α)) : npairs (xs.map Prod.swap) = npairs xs := by
  unfold npairs
  rw [countPairs_map]

/-! ### strictly monotone / antimonotone data -/

/-- On strictly increasing data every pair is concordant: tau-b = 1. -/
theorem monotone_data {xs : List (α × α)}
    (h : xs.Pairwise (fun p q => p.1 < q.1 ∧ p.2 < q.2)) :
    disc xs = 0 ∧ tiedX xs = 0 ∧ tiedY xs = 0 ∧ conc xs = npairs xs := by
  refine ⟨?_, ?_, ?_, ?_⟩
  · unfold disc
    rw [← countPairs_false xs]
    refine countPairs_congr (h.imp ?_)
    rintro p q ⟨h1, h2⟩
    rw [Bool.eq_false_iff, Ne, discB_iff]
    rintro (⟨-, h3⟩ | ⟨h3, -⟩)
    · exact lt_asymm h2 h3
    · exact lt_asymm h1 h3
  · unfold tiedX
    rw [← countPairs_false xs]
    refine countPairs_congr (h.imp ?_)
    rintro p q ⟨h1, -⟩
    rw [Bool.eq_false_iff, Ne, tiedXB_iff]
    exact h1.ne
  · unfold tiedY
    rw [← countPairs_false xs]
    refine countPairs_congr (h.imp ?_)
    rintro p q ⟨-, h2⟩
    rw [Bool.eq_false_iff, Ne, tiedYB_iff]
    exact h2.ne
  · unfold conc npairs
    refine countPairs_congr (h.imp ?_)
    rintro p q h12
    rw [concB_iff]
    exact Or.inl h12

/-- On strictly antimonotone data every pair is discordant: tau-b = −1. -/
theorem antimonotone_data {xs : List (α × α)}
    (h : xs.Pairwise (fun p q => p.1 < q.1 ∧ q.2 < p.2)) :
    conc xs = 0 ∧ tiedX xs = 0 ∧ tiedY xs = 0 ∧ disc xs = npairs xs := by
  refine ⟨?_, ?_, ?_, ?_⟩
  · unfold conc
    rw [← countPairs_false xs]
    refine countPairs_congr (h.imp ?_)
    rintro p q ⟨h1, h2⟩
    rw [Bool.eq_false_iff, Ne, concB_iff]
    rintro (⟨-, h3⟩ | ⟨h3, -⟩)
    · exact lt_asymm h2 h3
    · exact lt_asymm h1 h3
  · unfold tiedX
    rw [← countPairs_false xs]
    refine countPairs_congr (h.imp ?_)
    rintro p q ⟨h1, -⟩
    rw [Bool.eq_false_iff, Ne, tiedXB_iff]
    exact h1.ne
  · unfold tiedY
    rw [← countPairs_false xs]
    refine countPairs_congr (h.imp ?_)
    rintro p q ⟨-, h2⟩
    rw [Bool.eq_false_iff, Ne, tiedYB_iff]
    exact h2.ne'
  · unfold disc npairs
    refine countPairs_congr (h.imp ?_)
    rintro p q h12
    rw [discB_iff]
    exact Or.inl h12

/-! ### constant column -/

/-- A constant first column ties every pair in `x`: the denominator of tau-b vanishes. -/
theorem constant_column_x {xs : List (α × α)} {c : α} (h : ∀ p ∈ xs, p.1 = c) :
    tiedX xs = npairs xs := by
  unfold tiedX npairs
  refine countPairs_congr (List.pairwise_of_forall_mem_list (fun p hp q hq => ?_))
  rw [tiedXB_iff, h p hp, h q hq]

theorem constant_column_y {xs : List (α × α)} {c : α} (h : ∀ p ∈ xs, p.2 = c) :
    tiedY xs = npairs xs := by
  unfold tiedY npairs
  refine countPairs_congr (List.pairwise_of_forall_mem_list (fun p hp q hq => ?_))
  rw [tiedYB_iff, h p hp, h q hq]

end lin

/-! ### invariance under strictly increasing transformations of the margins -/
section invariance
variable {α α' : Type} [LinearOrder α] [DecidableLT α] [LinearOrder α'] [DecidableLT α']

/-- The general form: `f`, `g` only need to preserve and reflect `<` on the values that occur. -/
theorem invariant_on {f g : α → α'} {xs : List (α × α)}
    (hf : ∀ p ∈ xs, ∀ q ∈ xs, (f p.1 < f q.1 ↔ p.1 < q.1))
    (hg : ∀ p ∈ xs, ∀ q ∈ xs, (g p.2 < g q.2 ↔ p.2 < q.2)) :
    let ys := xs.map (fun p => (f p.1, g p.2))
    conc ys = conc xs ∧ disc ys = disc xs ∧ tiedX ys = tiedX xs ∧ tiedY ys = tiedY xs ∧
      npairs ys = npairs xs := by
  intro ys
  refine ⟨?_, ?_, ?_, ?_, ?_⟩
  · simp only [ys, conc, countPairs_map]
    refine countPairs_congr (List.pairwise_of_forall_mem_list (fun p hp q hq => ?_))
    simp only [concB, hf p hp q hq, hf q hq p hp, hg p hp q hq, hg q hq p hp]
  · simp only [ys, disc, countPairs_map]
    refine countPairs_congr (List.pairwise_of_forall_mem_list (fun p hp q hq => ?_))
    simp only [discB, hf p hp q hq, hf q hq p hp, hg p hp q hq, hg q hq p hp]
  · simp only [ys, tiedX, countPairs_map]
    refine countPairs_congr (List.pairwise_of_forall_mem_list (fun p hp q hq => ?_))
    simp only [tiedXB, eqv, hf p hp q hq, hf q hq p hp]
  · simp only [ys, tiedY, countPairs_map]
    refine countPairs_congr (List.pairwise_of_forall_mem_list (fun p hp q hq => ?_))
    simp only [tiedYB, eqv, hg p hp q hq, hg q hq p hp]
  · simp only [ys, npairs, countPairs_map]

theorem invariant {f g : α → α'} (hf : StrictMono f) (hg : StrictMono g) (xs : List (α × α)) :
    let ys := xs.map (fun p => (f p.1, g p.2))
    conc ys = conc xs ∧ disc ys = disc xs ∧ tiedX ys = tiedX xs ∧ tiedY ys = tiedY xs ∧
      npairs ys = npairs xs :=
  invariant_on (fun _ _ _ _ => hf.lt_iff_lt) (fun _ _ _ _ => hg.lt_iff_lt)

end invariance

/-! ### tau-b at ℝ -/
section real
variable {α : Type} [LinearOrder α] [DecidableLT α]

theorem tauB_real (xs : List (α × α)) :
    tauB (β := ℝ) xs = ((conc xs : ℝ) - disc xs) /
      Real.sqrt (((npairs xs : ℝ) - tiedX xs) * ((npairs xs : ℝ) - tiedY xs)) := by
  simp [tauB]

/-- `|tau-b| ≤ 1` whenever it is defined (neither column constant). -/
theorem abs_tauB_le_one (xs : List (α × α)) (hx : tiedX xs < npairs xs)
    (hy : tiedY xs < npairs xs) : |tauB (β := ℝ) xs| ≤ 1 := by
  rw [tauB_real]
  have hx' : (0 : ℝ) < (npairs xs : ℝ) - tiedX xs := by
    have : (tiedX xs : ℝ) < npairs xs := by exact_mod_cast hx
    linarith
  have hy' : (0 : ℝ) < (npairs xs : ℝ) - tiedY xs := by
    have : (tiedY xs : ℝ) < npairs xs := by exact_mod_cast hy
    linarith
  have hden : 0 < Real.sqrt (((npairs xs : ℝ) - tiedX xs) * ((npairs xs : ℝ) - tiedY xs)) :=
    Real.sqrt_pos.2 (mul_pos hx' hy')
  have hsq : ((conc xs : ℝ) - disc xs) ^ 2 ≤
      ((npairs xs : ℝ) - tiedX xs) * ((npairs xs : ℝ) - tiedY xs) := by
    exact_mod_cast sq_le_denominator xs
  rw [abs_div, abs_of_pos hden, div_le_one hden]
  exact Real.abs_le_sqrt hsq

/-- tau-b = 1 on strictly increasing data with at least two rows. -/
theorem tauB_monotone_data {xs : List (α × α)}
    (h : xs.Pairwise (fun p q => p.1 < q.1 ∧ p.2 < q.2)) (hn : 2 ≤ xs.length) :
    tauB (β := ℝ) xs = 1 := by
  obtain ⟨hd, hx, hy, hc⟩ := monotone_data h
  have hnp : 0 < npairs xs := by
    have := two_mul_npairs xs
    rcases Nat.eq_zero_or_pos (npairs xs) with h0 | h0
    · rw [h0] at this
      have : xs.length * (xs.length - 1) ≠ 0 := Nat.mul_ne_zero (by omega) (by omega)
      omega
    · exact h0
  have hpos : (0 : ℝ) < npairs xs := by exact_mod_cast hnp
  rw [tauB_real, hd, hx, hy, hc]
  simp only [Nat.cast_zero, sub_zero]
  rw [Real.sqrt_mul_self hpos.le, div_self hpos.ne']

/-- tau-b = −1 on strictly antimonotone data with at least two rows. -/
theorem tauB_antimonotone_data {xs : List (α × α)}
    (h : xs.Pairwise (fun p q => p.1 < q.1 ∧ q.2 < p.2)) (hn : 2 ≤ xs.length) :
    tauB (β := ℝ) xs = -1 := by
  obtain ⟨hc, hx, hy, hd⟩ := antimonotone_data h
  have hnp : 0 < npairs xs := by
    have := two_mul_npairs xs
    rcases Nat.eq_zero_or_pos (npairs xs) with h0 | h0
    · rw [h0] at this
      have : xs.length * (xs.length - 1) ≠ 0 := Nat.mul_ne_zero (by omega) (by omega)
      omega
    · exact h0
  have hpos : (0 : ℝ) < npairs xs := by exact_mod_cast hnp
  rw [tauB_real, hd, hx, hy, hc]
  simp only [Nat.cast_zero, sub_zero, zero_sub]
  rw [Real.sqrt_mul_self hpos.le, neg_div, div_self hpos.ne']

end real

/-! ### non-vacuity: a concrete sample with ties -/

example : (conc [((1 : ℕ), (2 : ℕ)), (2, 3), (3, 1), (3, 1)], disc [((1 : ℕ), (2 : ℕ)), (2, 3), (3, 1), (3, 1)],
    tiedX [((1 : ℕ), (2 : ℕ)), (2, 3), (3, 1), (3, 1)], tiedY [((1 : ℕ), (2 : ℕ)), (2, 3), (3, 1), (3, 1)],
    npairs [((1 : ℕ), (2 : ℕ)), (2, 3), (3, 1), (3, 1)]) = (1, 4, 1, 1, 6) := by decide

example : [((1 : ℕ), (5 : ℕ)), (2, 7), (4, 9)].Pairwise (fun p q => p.1 < q.1 ∧ p.2 < q.2) := by
  decide

end CopVerif.Kendall
