import CopVerif.Real.Inst
import CopVerif.Real.BridgeTac
import CopVerif.Gen.Bivariate
/-! Clayton copula over ℝ: spec, bridge to the generated definitions, C06 facts. -/
namespace CopVerif.Clayton
open CopVerif NumFns Real

/-- Textbook Clayton CDF with the code's explicit boundary branch. -/
noncomputable def C (θ u v : ℝ) : ℝ :=
  if 0 < u ∧ 0 < v then (u ^ (-θ) + v ^ (-θ) - 1) ^ (-1 / θ) else 0

/-- Clayton generator. -/
noncomputable def φ (θ t : ℝ) : ℝ := (1 / θ) * (t ^ (-θ) - 1)

/-! ### bridges: generated definition = spec -/

theorem bridge_cdfRow (θ u v : ℝ) : Gen.Clayton.cdfRow θ u v = C θ u v := by
  bridge [Gen.Clayton.cdfRow, C]

theorem bridge_generator (θ t : ℝ) : Gen.Clayton.generator θ t = φ θ t := by
  bridge [Gen.Clayton.generator, φ]

theorem checkFit_ok {θ : ℝ} (hθ : 0 < θ) :
    checkFit (Gen.Clayton.thetaLower (α := ℝ)) Gen.Clayton.thetaUpper Gen.Clayton.invalidThetas θ
      = .ok () := by
  simp [checkFit, checkTheta, Gen.Clayton.thetaLower, Gen.Clayton.thetaUpper,
    Gen.Clayton.invalidThetas, Bound.leVal, Bound.valLe, hθ.ne', hθ.le]

end CopVerif.Clayton

namespace CopVerif.Clayton
open CopVerif NumFns Real

/-! ### C06 facts -/

theorem S_ge_one {θ u v : ℝ} (hθ : 0 < θ) (hu : 0 < u) (hu1 : u ≤ 1) (hv : 0 < v) (hv1 : v ≤ 1) :
    1 ≤ u ^ (-θ) + v ^ (-θ) - 1 := by
  have h1 : 1 ≤ u ^ (-θ) := Real.one_le_rpow_of_pos_of_le_one_of_nonpos hu hu1 (by linarith)
  have h2 : 1 ≤ v ^ (-θ) := Real.one_le_rpow_of_pos_of_le_one_of_nonpos hv hv1 (by linarith)
  linarith

theorem C_one_right {θ u : ℝ} (hθ : 0 < θ) (hu : 0 < u) : C θ u 1 = u := by
  have : (u ^ (-θ)) ^ (-1 / θ) = u := by
    rw [← Real.rpow_mul hu.le]
    have : -θ * (-1 / θ) = 1 := by field_simp
    rw [this, Real.rpow_one]
  simp [C, hu, this]

theorem C_symm (θ u v : ℝ) : C θ u v = C θ v u := by
  simp only [C, and_comm, add_comm]

theorem C_one_left {θ v : ℝ} (hθ : 0 < θ) (hv : 0 < v) : C θ 1 v = v := by
  rw [C_symm, C_one_right hθ hv]

theorem C_zero_right (θ u : ℝ) : C θ u 0 = 0 := by simp [C]
theorem C_zero_left (θ v : ℝ) : C θ 0 v = 0 := by simp [C]

theorem φ_one (θ : ℝ) : φ θ 1 = 0 := by simp [φ]

theorem φ_strictAntiOn {θ : ℝ} (hθ : 0 < θ) : StrictAntiOn (φ θ) (Set.Ioi 0) := by
  intro a ha b hb hab
  simp only [φ]
  have : b ^ (-θ) < a ^ (-θ) := Real.rpow_lt_rpow_of_neg ha hab (by linarith)
  have hpos : 0 < 1 / θ := by positivity
  nlinarith

/-- Archimedean identity `φ(C(u,v)) = φ(u) + φ(v)` on `(0,1]²`. -/
theorem φ_C {θ u v : ℝ} (hθ : 0 < θ) (hu : 0 < u) (hu1 : u ≤ 1) (hv : 0 < v) (hv1 : v ≤ 1) :
    φ θ (C θ u v) = φ θ u + φ θ v := by
  have hS := S_ge_one hθ hu hu1 hv hv1
  have hS0 : 0 ≤ u ^ (-θ) + v ^ (-θ) - 1 := by linarith
  have : ((u ^ (-θ) + v ^ (-θ) - 1) ^ (-1 / θ)) ^ (-θ) = u ^ (-θ) + v ^ (-θ) - 1 := by
    rw [← Real.rpow_mul hS0]
    have : -1 / θ * -θ = 1 := by field_simp
    rw [this, Real.rpow_one]
  simp only [φ, C, hu, hv, and_self, if_true, this]
  ring

theorem C_pos {θ u v : ℝ} (hθ : 0 < θ) (hu : 0 < u) (hu1 : u ≤ 1) (hv : 0 < v) (hv1 : v ≤ 1) :
    0 < C θ u v := by
  have hS := S_ge_one hθ hu hu1 hv hv1
  simp only [C, hu, hv, and_self, if_true]
  exact Real.rpow_pos_of_pos (by linarith) _

/-- Monotone in the first argument on `[0,1]` (second argument in `[0,1]`). -/
theorem C_mono_left {θ u u' v : ℝ} (hθ : 0 < θ) (hu : 0 ≤ u) (huu : u ≤ u') (hu1 : u' ≤ 1)
    (hv : 0 ≤ v) (hv1 : v ≤ 1) : C θ u v ≤ C θ u' v := by
  rcases hv.eq_or_lt with rfl | hv0
  · simp [C]
  rcases hu.eq_or_lt with rfl | hu0
  · have hu'0 : 0 ≤ u' := le_trans hu huu
    rcases hu'0.eq_or_lt with rfl | h'
    · simp [C]
    · simp only [C_zero_left]; exact (C_pos hθ h' hu1 hv0 hv1).le
  have hu'0 : 0 < u' := lt_of_lt_of_le hu0 huu
  have hS := S_ge_one hθ hu0 (le_trans huu hu1) hv0 hv1
  have hS' := S_ge_one hθ hu'0 hu1 hv0 hv1
  simp only [C, hu0, hu'0, hv0, and_self, if_true]
  have hle : u' ^ (-θ) ≤ u ^ (-θ) := Real.rpow_le_rpow_of_nonpos hu0 huu (by linarith)
  apply Real.rpow_le_rpow_of_nonpos (by linarith) (by linarith)
  have : 0 < 1 / θ := by positivity
  have : -1 / θ = -(1 / θ) := by ring
  linarith

theorem C_mono_right {θ u v v' : ℝ} (hθ : 0 < θ) (hv : 0 ≤ v) (hvv : v ≤ v') (hv1 : v' ≤ 1)
    (hu : 0 ≤ u) (hu1 : u ≤ 1) : C θ u v ≤ C θ u v' := by
  rw [C_symm θ u v, C_symm θ u v']; exact C_mono_left hθ hv hvv hv1 hu hu1

/-- Fréchet–Hoeffding upper bound. -/
theorem C_le_min {θ u v : ℝ} (hθ : 0 < θ) (hu : 0 ≤ u) (hu1 : u ≤ 1) (hv : 0 ≤ v) (hv1 : v ≤ 1) :
    C θ u v ≤ min u v := by
  apply le_min
  · rcases hu.eq_or_lt with rfl | hu0
    · simp [C]
    · calc C θ u v ≤ C θ u 1 := C_mono_right hθ hv hv1 le_rfl hu hu1
        _ = u := C_one_right hθ hu0
  · rcases hv.eq_or_lt with rfl | hv0
    · simp [C]
    · calc C θ u v ≤ C θ 1 v := C_mono_left hθ hu hu1 le_rfl hv hv1
        _ = v := C_one_left hθ hv0

theorem C_nonneg {θ u v : ℝ} (hθ : 0 < θ) (hu : 0 ≤ u) (hu1 : u ≤ 1) (hv : 0 ≤ v) (hv1 : v ≤ 1) :
    0 ≤ C θ u v := by
  have := C_mono_left hθ le_rfl hu hu1 hv hv1
  simpa [C_zero_left] using this

/-- Row independence of the whole generated method, including the all-zero shortcut and the
`check_fit` guard: for every admissible θ and **every** batch, the result is the row-wise map of
the spec CDF. -/
theorem cdf_rowwise {θ : ℝ} (hθ : 0 < θ) (xs : List (ℝ × ℝ)) :
    Gen.Clayton.cdf θ xs = .ok (xs.map fun p => C θ p.1 p.2) := by
  unfold Gen.Clayton.cdf
  rw [checkFit_ok hθ]
  simp only
  split
  · rename_i hg
    congr 1
    apply List.map_congr_left
    intro p hp
    simp only [Bool.or_eq_true, List.all_eq_true, decide_eq_true_eq, beq_real] at hg
    rcases hg with hg | hg
    · have := hg p hp
      simp [Gen.Clayton.cdf_leaf0, C, this]
    · have := hg p hp
      simp [Gen.Clayton.cdf_leaf0, C, this]
  · congr 1
    apply List.map_congr_left
    intro p _
    exact bridge_cdfRow θ p.1 p.2

end CopVerif.Clayton
