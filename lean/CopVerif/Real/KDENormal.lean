import Mathlib.Probability.CDF
import Mathlib.Probability.Distributions.Gaussian.Real
import Mathlib.MeasureTheory.Integral.IntervalIntegral.FundThmCalculus
import Mathlib.Analysis.Calculus.Deriv.MeanValue
import Mathlib.Analysis.Calculus.Deriv.Inv
import Mathlib.Analysis.Calculus.Deriv.Pow
import Mathlib.Analysis.SpecialFunctions.ExpDeriv
import Mathlib.Analysis.Complex.ExponentialBounds
import Mathlib.Analysis.Real.Pi.Bounds
import CopVerif.Real.KDE
import CopVerif.Real.PITMeasure
/-!
# The kernel of `GaussianKDE` is the TRUE standard normal CDF (property C03)

`CopVerif/Real/KDE.lean` and `CopVerif/Props/C03.lean` state every fact about the kernel-sum CDF for
an abstract `Φ` with `Uni.IsCDF Φ` (plus continuity / limits / derivative where needed).  This file
discharges those hypothesis bundles for `PIT.stdPhi = cdf (gaussianReal 0 1)` and proves the numeric
clause the tolerance of C03's range law rests on.

* `stdPhi_isCDF`, `stdPhi_tendsto_atBot/atTop`, `stdPhi_eq_integral`, `stdPhi_hasDerivAt`
  (`Φ' = gaussianPDFReal 0 1`), `stdPhi_hasDerivAt_neg`.
* `stdPhi_neg_le_of_dominating`: any `U → 0` with `U' ≤ −φ` on `(0,∞)` dominates the lower tail.
* `stdPhi_neg_le_mills`: `Φ(−x) ≤ exp(−x²/2) / (x √(2π))` for `x > 0` (Mills ratio).
* `stdPhi_neg_le_mills3`: `Φ(−x) ≤ exp(−x²/2) / (x √(2π)) · (1 − 1/x² + 3/x⁴)` for `x > 0`.
* `stdPhi_tail_const`: `Φ(−5·√(4/5)) < 39/10⁷`, hence `< 4/10⁶` (`stdPhi_tail_const'`).
-/
open MeasureTheory ProbabilityTheory Set Filter
open scoped Topology

namespace CopVerif.KDENormal
open CopVerif PIT

/-- the standard normal density -/
noncomputable abbrev stdPdf : ℝ → ℝ := gaussianPDFReal 0 1

theorem stdPdf_apply (z : ℝ) : stdPdf z = (√(2 * Real.pi))⁻¹ * Real.exp (-(z ^ 2) / 2) := by
  simp [stdPdf, gaussianPDFReal]

theorem stdPdf_nonneg (z : ℝ) : 0 ≤ stdPdf z := gaussianPDFReal_nonneg 0 1 z

theorem stdPdf_pos (z : ℝ) : 0 < stdPdf z := gaussianPDFReal_pos 0 1 z one_ne_zero

theorem stdPdf_neg (z : ℝ) : stdPdf (-z) = stdPdf z := by
  simp [stdPdf_apply]

theorem stdPdf_continuous : Continuous stdPdf := by
  have : stdPdf = fun z => (√(2 * Real.pi))⁻¹ * Real.exp (-(z ^ 2) / 2) := funext stdPdf_apply
  rw [this]
  fun_prop

/-! ## 1. `stdPhi` discharges the hypothesis bundles of `KDE.lean` / `Props/C03.lean` -/

theorem stdPhi_isCDF : Uni.IsCDF stdPhi :=
  ⟨stdPhi_strictMono.monotone, stdPhi_nonneg, stdPhi_le_one⟩

theorem stdPhi_tendsto_atBot : Tendsto stdPhi atBot (𝓝 0) := tendsto_cdf_atBot (gaussianReal 0 1)

theorem stdPhi_tendsto_atTop : Tendsto stdPhi atTop (𝓝 1) := tendsto_cdf_atTop (gaussianReal 0 1)

/-- `Φ(x) = ∫_{−∞}^{x} φ` -/
theorem stdPhi_eq_integral (x : ℝ) : stdPhi x = ∫ t in Iic x, stdPdf t := by
  rw [stdPhi_apply, cdf_eq_real, Measure.real, gaussianReal_apply_eq_integral 0 one_ne_zero,
    ENNReal.toReal_ofReal]
  exact setIntegral_nonneg measurableSet_Iic fun t _ => stdPdf_nonneg t

/-- `Φ' = φ`: the derivative of the standard normal CDF is the standard normal density. -/
theorem stdPhi_hasDerivAt (x : ℝ) : HasDerivAt stdPhi (stdPdf x) x := by
  have hint : ∀ a : ℝ, IntegrableOn stdPdf (Iic a) volume := fun a =>
    (integrable_gaussianPDFReal 0 1).integrableOn
  have e : stdPhi = fun x => (∫ t in Iic (0 : ℝ), stdPdf t) + ∫ t in (0 : ℝ)..x, stdPdf t := by
    funext y
    rw [stdPhi_eq_integral, ← intervalIntegral.integral_Iic_sub_Iic (hint 0) (hint y)]
    ring
  rw [e]
  exact (intervalIntegral.integral_hasDerivAt_right (stdPdf_continuous.intervalIntegrable _ _)
    stdPdf_continuous.aestronglyMeasurable.stronglyMeasurableAtFilter
    stdPdf_continuous.continuousAt).const_add _

/-- `d/dt Φ(−t) = −φ(t)` -/
theorem stdPhi_hasDerivAt_neg (t : ℝ) : HasDerivAt (fun t => stdPhi (-t)) (-stdPdf t) t := by
  have := (stdPhi_hasDerivAt (-t)).comp t (hasDerivAt_neg t)
  simpa [stdPdf_neg, Function.comp_def] using this

/-! ## 3. Tail bounds -/

/-- Comparison principle: a function `U` on `(0,∞)` that vanishes at `+∞` and decreases at least as
fast as the lower tail `t ↦ Φ(−t)` (whose derivative is `−φ(t)`) dominates that tail. -/
theorem stdPhi_neg_le_of_dominating {U u : ℝ → ℝ} (hU : ∀ t, 0 < t → HasDerivAt U (u t) t)
    (hu : ∀ t, 0 < t → u t ≤ -stdPdf t) (hlim : Tendsto U atTop (𝓝 0)) {x : ℝ} (hx : 0 < x) :
    stdPhi (-x) ≤ U x := by
  set G : ℝ → ℝ := fun t => U t - stdPhi (-t) with hG
  have hGd : ∀ t, 0 < t → HasDerivAt G (u t - -stdPdf t) t := fun t ht =>
    (hU t ht).sub (stdPhi_hasDerivAt_neg t)
  have hanti : AntitoneOn G (Ioi 0) := by
    apply antitoneOn_of_deriv_nonpos (convex_Ioi 0)
    · exact fun t ht => (hGd t ht).continuousAt.continuousWithinAt
    · rw [interior_Ioi]
      exact fun t ht => (hGd t ht).differentiableAt.differentiableWithinAt
    · rw [interior_Ioi]
      intro t ht
      rw [(hGd t ht).deriv]
      linarith [hu t ht]
  have hGlim : Tendsto G atTop (𝓝 (0 - 0)) :=
    hlim.sub (stdPhi_tendsto_atBot.comp tendsto_neg_atTop_atBot)
  have h0 : (0 : ℝ) - 0 ≤ G x := by
    apply le_of_tendsto hGlim
    filter_upwards [eventually_ge_atTop x] with t ht
    exact hanti (mem_Ioi.mpr hx) (mem_Ioi.mpr (lt_of_lt_of_le hx ht)) ht
  simp only [hG] at h0
  linarith

theorem stdPdf_hasDerivAt (t : ℝ) : HasDerivAt stdPdf (-t * stdPdf t) t := by
  have e : stdPdf = fun z => (√(2 * Real.pi))⁻¹ * Real.exp (-(z ^ 2) / 2) := funext stdPdf_apply
  have h1 : HasDerivAt (fun z : ℝ => -(z ^ 2) / 2) (-t) t := by
    have : HasDerivAt (fun z : ℝ => -(z ^ 2) / 2) _ t := ((hasDerivAt_pow 2 t).neg).div_const 2
    refine this.congr_deriv ?_
    norm_num
    ring
  have h2 : HasDerivAt (fun z : ℝ => (√(2 * Real.pi))⁻¹ * Real.exp (-(z ^ 2) / 2)) _ t :=
    (h1.exp).const_mul (√(2 * Real.pi))⁻¹
  rw [stdPdf_apply, e]
  refine h2.congr_deriv ?_
  ring

theorem stdPdf_tendsto_atTop : Tendsto stdPdf atTop (𝓝 0) := by
  have e : stdPdf = fun z => (√(2 * Real.pi))⁻¹ * Real.exp (-(z ^ 2 / 2)) := by
    funext z; rw [stdPdf_apply, neg_div]
  rw [e]
  have h1 : Tendsto (fun z : ℝ => z ^ 2 / 2) atTop atTop :=
    (tendsto_pow_atTop two_ne_zero).atTop_div_const two_pos
  have h2 := (Real.tendsto_exp_neg_atTop_nhds_zero.comp h1).const_mul (√(2 * Real.pi))⁻¹
  simpa [Function.comp_def] using h2

/-- `φ(t)/t` as a function with its derivative `−φ(t)(1 + t⁻²)` -/
private theorem mills_hasDerivAt {t : ℝ} (ht : 0 < t) :
    HasDerivAt (fun t => stdPdf t * t⁻¹) (-stdPdf t * (1 + (t⁻¹) ^ 2)) t := by
  have h : HasDerivAt (fun t => stdPdf t * t⁻¹) _ t :=
    (stdPdf_hasDerivAt t).mul (hasDerivAt_inv ht.ne')
  refine h.congr_deriv ?_
  field_simp
  ring

/-- Mills-ratio bound, kernel form: `Φ(−x) ≤ φ(x)/x`. -/
theorem stdPhi_neg_le_pdf_div {x : ℝ} (hx : 0 < x) : stdPhi (-x) ≤ stdPdf x * x⁻¹ := by
  apply stdPhi_neg_le_of_dominating (U := fun t => stdPdf t * t⁻¹)
    (u := fun t => -stdPdf t * (1 + (t⁻¹) ^ 2)) (fun t ht => mills_hasDerivAt ht) _ _ hx
  · intro t ht
    have := stdPdf_nonneg t
    nlinarith [sq_nonneg (t⁻¹), mul_nonneg this (sq_nonneg (t⁻¹))]
  · simpa using stdPdf_tendsto_atTop.mul tendsto_inv_atTop_zero

/-- **Mills-ratio (Gaussian tail) bound**: `Φ(−x) ≤ exp(−x²/2) / (x √(2π))` for `x > 0`. -/
theorem stdPhi_neg_le_mills {x : ℝ} (hx : 0 < x) :
    stdPhi (-x) ≤ Real.exp (-(x ^ 2) / 2) / (x * Real.sqrt (2 * Real.pi)) := by
  refine (stdPhi_neg_le_pdf_div hx).trans (le_of_eq ?_)
  rw [stdPdf_apply]
  have : (0 : ℝ) < √(2 * Real.pi) := Real.sqrt_pos.mpr (by positivity)
  field_simp

/-- the three-term asymptotic majorant `φ(t)(t⁻¹ − t⁻³ + 3t⁻⁵)` has derivative `−φ(t)(1 + 15t⁻⁶)` -/
private theorem mills3_hasDerivAt {t : ℝ} (ht : 0 < t) :
    HasDerivAt (fun t => stdPdf t * (t⁻¹ - (t⁻¹) ^ 3 + 3 * (t⁻¹) ^ 5))
      (-stdPdf t * (1 + 15 * (t⁻¹) ^ 6)) t := by
  have hi := hasDerivAt_inv ht.ne'
  have hp : HasDerivAt (fun t : ℝ => t⁻¹ - (t⁻¹) ^ 3 + 3 * (t⁻¹) ^ 5) _ t :=
    (hi.sub (hi.pow 3)).add ((hi.pow 5).const_mul 3)
  have h : HasDerivAt (fun t => stdPdf t * (t⁻¹ - (t⁻¹) ^ 3 + 3 * (t⁻¹) ^ 5)) _ t :=
    (stdPdf_hasDerivAt t).mul hp
  refine h.congr_deriv ?_
  have e3 : (3 : ℕ) - 1 = 2 := rfl
  have e5 : (5 : ℕ) - 1 = 4 := rfl
  simp only [Nat.cast_ofNat, inv_pow, e3, e5]
  field_simp
  ring

/-- Refined Gaussian tail bound, kernel form: `Φ(−x) ≤ φ(x)(x⁻¹ − x⁻³ + 3x⁻⁵)`. -/
theorem stdPhi_neg_le_pdf_mul3 {x : ℝ} (hx : 0 < x) :
    stdPhi (-x) ≤ stdPdf x * (x⁻¹ - (x⁻¹) ^ 3 + 3 * (x⁻¹) ^ 5) := by
  apply stdPhi_neg_le_of_dominating (U := fun t => stdPdf t * (t⁻¹ - (t⁻¹) ^ 3 + 3 * (t⁻¹) ^ 5))
    (u := fun t => -stdPdf t * (1 + 15 * (t⁻¹) ^ 6)) (fun t ht => mills3_hasDerivAt ht) _ _ hx
  · intro t ht
    have := stdPdf_nonneg t
    have h6 : 0 ≤ (t⁻¹) ^ 6 := by positivity
    nlinarith [mul_nonneg this h6]
  · have hi : Tendsto (fun t : ℝ => t⁻¹) atTop (𝓝 0) := tendsto_inv_atTop_zero
    have hp := (hi.sub (hi.pow 3)).add ((hi.pow 5).const_mul 3)
    simpa using stdPdf_tendsto_atTop.mul hp

/-- **Refined Gaussian tail bound** (two more terms of the asymptotic series):
`Φ(−x) ≤ exp(−x²/2) / (x √(2π)) · (1 − 1/x² + 3/x⁴)` for `x > 0`. -/
theorem stdPhi_neg_le_mills3 {x : ℝ} (hx : 0 < x) :
    stdPhi (-x) ≤
      Real.exp (-(x ^ 2) / 2) / (x * Real.sqrt (2 * Real.pi)) * (1 - 1 / x ^ 2 + 3 / x ^ 4) := by
  refine (stdPhi_neg_le_pdf_mul3 hx).trans (le_of_eq ?_)
  rw [stdPdf_apply]
  have : (0 : ℝ) < √(2 * Real.pi) := Real.sqrt_pos.mpr (by positivity)
  field_simp

/-! ## the numeric clause: `Φ(−5·√(4/5)) < 3.9·10⁻⁶` -/

theorem five_sqrt_sq : (5 * Real.sqrt (4 / 5)) ^ 2 = 20 := by
  rw [mul_pow, Real.sq_sqrt (by norm_num)]; norm_num

theorem exp_ten_gt : (22000 : ℝ) < Real.exp 10 := by
  have h : Real.exp 10 = Real.exp 1 ^ 10 := by
    rw [← Real.exp_nat_mul]; norm_num
  rw [h]
  calc (22000 : ℝ) < 2.7182 ^ 10 := by norm_num
    _ ≤ Real.exp 1 ^ 10 :=
      pow_le_pow_left₀ (by norm_num) (le_of_lt (lt_trans (by norm_num) Real.exp_one_gt_d9)) 10

/-- `√(2π) · 5√(4/5) = √(40π) > 11.2` -/
theorem sqrt_two_pi_mul_gt : (11.2 : ℝ) < √(2 * Real.pi) * (5 * Real.sqrt (4 / 5)) := by
  have hx0 : (0 : ℝ) < 5 * Real.sqrt (4 / 5) := by positivity
  have hx' : 5 * Real.sqrt (4 / 5) = √20 := by
    rw [← five_sqrt_sq, Real.sqrt_sq hx0.le]
  have h112 : (11.2 : ℝ) = √(11.2 ^ 2) := (Real.sqrt_sq (by norm_num)).symm
  rw [hx', ← Real.sqrt_mul (by positivity), h112]
  apply Real.sqrt_lt_sqrt (by norm_num)
  nlinarith [Real.pi_gt_d2]

/-- **The constant behind C03's range tolerance**: the standard normal mass below `−5·√(4/5) = −√20`
is `< 3.9·10⁻⁶` (true value `≈ 3.872·10⁻⁶`).  From the refined tail bound with `x² = 20`:
`Φ(−x) ≤ (383/400) / (e¹⁰ · √(40π))`, `e¹⁰ > 22000`, `√(40π) > 11.2`. -/
theorem stdPhi_tail_const : stdPhi (-(5 * Real.sqrt (4 / 5))) < 39 / 10 ^ 7 := by
  have hx2 := five_sqrt_sq
  have hs := sqrt_two_pi_mul_gt
  have hE := exp_ten_gt
  set x : ℝ := 5 * Real.sqrt (4 / 5) with hx
  have hx0 : 0 < x := by positivity
  have hb := stdPhi_neg_le_pdf_mul3 hx0
  have hinv2 : (x⁻¹) ^ 2 = 1 / 20 := by rw [inv_pow, hx2]; norm_num
  have hx4 : x⁻¹ - (x⁻¹) ^ 3 + 3 * (x⁻¹) ^ 5 = x⁻¹ * (383 / 400) := by
    calc x⁻¹ - (x⁻¹) ^ 3 + 3 * (x⁻¹) ^ 5
        = x⁻¹ * (1 - (x⁻¹) ^ 2 + 3 * ((x⁻¹) ^ 2) ^ 2) := by ring
      _ = x⁻¹ * (383 / 400) := by rw [hinv2]; norm_num
  have hexp : Real.exp (-(20 : ℝ) / 2) = (Real.exp 10)⁻¹ := by
    rw [← Real.exp_neg]; norm_num
  rw [stdPdf_apply, hx2, hx4, hexp] at hb
  have hspos : (0 : ℝ) < √(2 * Real.pi) := Real.sqrt_pos.mpr (by positivity)
  have hEpos : (0 : ℝ) < Real.exp 10 := Real.exp_pos 10
  calc stdPhi (-x) ≤ (√(2 * Real.pi))⁻¹ * (Real.exp 10)⁻¹ * (x⁻¹ * (383 / 400)) := hb
    _ = (383 / 400) / (Real.exp 10 * (√(2 * Real.pi) * x)) := by field_simp
    _ < 39 / 10 ^ 7 := by
      rw [div_lt_iff₀ (by positivity)]
      nlinarith [mul_pos (sub_pos.2 hE) (sub_pos.2 hs)]

/-- the constant in the form quoted by DESIGN section 8 / `kde_deficit_small_factor` -/
theorem stdPhi_tail_const' : stdPhi (-(5 * Real.sqrt (4 / 5))) < 4 / 10 ^ 6 :=
  stdPhi_tail_const.trans (by norm_num)

end CopVerif.KDENormal
