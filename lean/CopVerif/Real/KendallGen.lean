import Mathlib.Analysis.SpecialFunctions.Pow.Deriv
import Mathlib.Analysis.SpecialFunctions.Integrals.Basic
import Mathlib.Analysis.SpecialFunctions.Log.NegMulLog
import Mathlib.MeasureTheory.Integral.IntervalIntegral.FundThmCalculus
import CopVerif.Real.Clayton
import CopVerif.Real.Gumbel
import CopVerif.Real.Frank
import CopVerif.Real.BivFit
/-!
  The link between the calibration maps `τ ↦ θ` of `compute_theta` and the Archimedean generators
  (C10b).  For an Archimedean copula with generator `φ`, Kendall's tau is
  `τ = 1 + 4 ∫₀¹ φ(t)/φ'(t) dt` (Genest–MacKay; that general theorem is classical and NOT proved
  here).  This file evaluates the one-dimensional functional `tauGen φ = 1 + 4 ∫₀¹ φ/φ'` for the
  three generators and shows that it is the closed form the library inverts:

  * Clayton, `θ > 0`: `tauGen (Clayton.φ θ) = θ/(θ+2)`;
  * Gumbel, `θ ≥ 1`: `tauGen (Gumbel.φ θ) = 1 − 1/θ`;
  * Frank, `θ ≠ 0`: `tauGen (Frank.φ θ) = 1 + 4 (D₁(θ) − 1)/θ`, `D₁(θ) = (1/θ) ∫₀^θ s/(eˢ−1) ds`.

  `φ'` is Mathlib's `deriv φ` (so no hand-written derivative has to be trusted); the explicit
  derivatives are the `…_hasDerivAt` lemmas.  The integrals are interval integrals over `(0,1]`;
  the integrands are only evaluated on `(0,1)` (a null-set change), where `rpow`, `log` and the
  divisions are the genuine mathematical functions.  Each integrand is shown to be interval
  integrable (`…_ratio_intervalIntegrable`), so no value is the junk `0` of a non-integrable
  Bochner integral.
-/
namespace CopVerif.KendallGen
open CopVerif Real MeasureTheory Set intervalIntegral

/-- The Genest–MacKay functional of a generator: `1 + 4 ∫₀¹ φ(t)/φ'(t) dt`. -/
noncomputable def tauGen (φ : ℝ → ℝ) : ℝ := 1 + 4 * ∫ t in (0 : ℝ)..1, φ t / deriv φ t

/-! ## Clayton: `φ(t) = (t^(−θ) − 1)/θ` -/

theorem clayton_hasDerivAt {θ t : ℝ} (hθ : θ ≠ 0) (ht : 0 < t) :
    HasDerivAt (Clayton.φ θ) (-t ^ (-θ - 1)) t := by
  have h := ((Real.hasDerivAt_rpow_const (p := -θ) (Or.inl ht.ne')).sub_const 1).const_mul (1 / θ)
  have h' : HasDerivAt (Clayton.φ θ) (1 / θ * (-θ * t ^ (-θ - 1))) t := h
  refine h'.congr_deriv ?_
  field_simp

/-- `φ/φ' = (t^(θ+1) − t)/θ` on `(0, ∞)`. -/
theorem clayton_ratio {θ t : ℝ} (hθ : θ ≠ 0) (ht : 0 < t) :
    Clayton.φ θ t / deriv (Clayton.φ θ) t = (t ^ (θ + 1) - t) / θ := by
  rw [(clayton_hasDerivAt hθ ht).deriv]
  have hb : 0 < t ^ (θ + 1) := rpow_pos_of_pos ht _
  have h1 : t ^ (-θ - 1) = (t ^ (θ + 1))⁻¹ := by
    rw [← rpow_neg ht.le]; congr 1; ring
  have h2 : t ^ (-θ) = (t ^ (θ + 1))⁻¹ * t := by
    rw [← h1, ← rpow_add_one ht.ne']; congr 1; ring
  simp only [Clayton.φ, h1, h2]
  generalize t ^ (θ + 1) = b at hb
  field_simp
  ring

theorem clayton_ratio_intervalIntegrable {θ : ℝ} (hθ : 0 < θ) :
    IntervalIntegrable (fun t => Clayton.φ θ t / deriv (Clayton.φ θ) t) volume 0 1 := by
  have h : IntervalIntegrable (fun t : ℝ => (t ^ (θ + 1) - t) / θ) volume 0 1 :=
    ((intervalIntegrable_rpow' (by linarith)).sub intervalIntegrable_id).div_const θ
  refine h.congr_uIoo ?_
  intro t ht
  rw [uIoo_of_le zero_le_one] at ht
  exact (clayton_ratio hθ.ne' ht.1).symm

/-- `∫₀¹ φ/φ' = −1/(2(θ+2))`. -/
theorem clayton_integral {θ : ℝ} (hθ : 0 < θ) :
    ∫ t in (0 : ℝ)..1, Clayton.φ θ t / deriv (Clayton.φ θ) t = -1 / (2 * (θ + 2)) := by
  have hc : ∫ t in (0 : ℝ)..1, Clayton.φ θ t / deriv (Clayton.φ θ) t
      = ∫ t in (0 : ℝ)..1, (t ^ (θ + 1) - t) / θ :=
    integral_congr_Ioo_of_le zero_le_one (fun t ht => clayton_ratio hθ.ne' ht.1)
  rw [hc, intervalIntegral.integral_div, integral_sub (intervalIntegrable_rpow' (by linarith)) intervalIntegrable_id,
    integral_rpow (Or.inl (by linarith)), integral_id]
  have h0 : (0 : ℝ) ^ (θ + 1 + 1) = 0 := zero_rpow (by linarith)
  rw [h0, one_rpow]
  field_simp
  ring

/-- Clayton: the Genest–MacKay functional of the generator is `θ/(θ+2)`. -/
theorem clayton_tauGen {θ : ℝ} (hθ : 0 < θ) : tauGen (Clayton.φ θ) = θ / (θ + 2) := by
  rw [tauGen, clayton_integral hθ]
  field_simp
  ring

/-! ## Gumbel: `φ(t) = (−log t)^θ` -/

theorem gumbel_hasDerivAt {θ t : ℝ} (hθ : 1 ≤ θ) (ht : 0 < t) :
    HasDerivAt (Gumbel.φ θ) (-θ * (-Real.log t) ^ (θ - 1) / t) t := by
  have h1 : HasDerivAt (fun t => -Real.log t) (-(t⁻¹)) t := (Real.hasDerivAt_log ht.ne').neg
  have h2 := h1.rpow_const (p := θ) (Or.inr hθ)
  have h' : HasDerivAt (Gumbel.φ θ) (-(t⁻¹) * θ * (-Real.log t) ^ (θ - 1)) t := h2
  refine h'.congr_deriv ?_
  field_simp

/-- `φ/φ' = t·log t/θ` on `(0,1)`. -/
theorem gumbel_ratio {θ t : ℝ} (hθ : 1 ≤ θ) (ht : 0 < t) (ht1 : t < 1) :
    Gumbel.φ θ t / deriv (Gumbel.φ θ) t = t * Real.log t / θ := by
  rw [(gumbel_hasDerivAt hθ ht).deriv]
  have hx : 0 < -Real.log t := Gumbel.neg_log_pos ht ht1
  have hp : 0 < (-Real.log t) ^ (θ - 1) := rpow_pos_of_pos hx _
  have h2 : (-Real.log t) ^ θ = (-Real.log t) ^ (θ - 1) * (-Real.log t) := by
    rw [← rpow_add_one hx.ne']; congr 1; ring
  have hθ0 : θ ≠ 0 := by linarith
  simp only [Gumbel.φ, h2]
  generalize (-Real.log t) ^ (θ - 1) = p at hp
  field_simp

/-- antiderivative of `t·log t`, written so that continuity at `0` is `continuous_mul_log` -/
noncomputable def mulLogPrim (t : ℝ) : ℝ := t / 2 * (t * Real.log t) - t ^ 2 / 4

theorem mulLogPrim_continuous : Continuous mulLogPrim :=
  ((continuous_id.div_const 2).mul Real.continuous_mul_log).sub ((continuous_pow 2).div_const 4)

theorem mulLogPrim_hasDerivAt {t : ℝ} (ht : t ≠ 0) :
    HasDerivAt mulLogPrim (t * Real.log t) t := by
  have h := ((((hasDerivAt_id t).div_const 2).mul
    ((hasDerivAt_id t).mul (Real.hasDerivAt_log ht))).sub ((hasDerivAt_pow 2 t).div_const 4))
  have h' : HasDerivAt mulLogPrim _ t := h
  refine h'.congr_deriv ?_
  simp only [id, Pi.mul_apply]
  field_simp
  ring

/-- `∫₀¹ t log t dt = −1/4` (improper at `0`, where the integrand extends continuously by `0`). -/
theorem integral_mul_log_zero_one : ∫ t in (0 : ℝ)..1, t * Real.log t = -1 / 4 := by
  rw [integral_eq_sub_of_hasDerivAt_of_le zero_le_one mulLogPrim_continuous.continuousOn
    (fun x hx => mulLogPrim_hasDerivAt hx.1.ne') (Real.continuous_mul_log.intervalIntegrable 0 1)]
  simp [mulLogPrim]
  norm_num

theorem gumbel_ratio_intervalIntegrable {θ : ℝ} (hθ : 1 ≤ θ) :
    IntervalIntegrable (fun t => Gumbel.φ θ t / deriv (Gumbel.φ θ) t) volume 0 1 := by
  have h : IntervalIntegrable (fun t : ℝ => t * Real.log t / θ) volume 0 1 :=
    (Real.continuous_mul_log.intervalIntegrable 0 1).div_const θ
  refine h.congr_uIoo ?_
  intro t ht
  rw [uIoo_of_le zero_le_one] at ht
  exact (gumbel_ratio hθ ht.1 ht.2).symm

/-- `∫₀¹ φ/φ' = −1/(4θ)`. -/
theorem gumbel_integral {θ : ℝ} (hθ : 1 ≤ θ) :
    ∫ t in (0 : ℝ)..1, Gumbel.φ θ t / deriv (Gumbel.φ θ) t = -1 / (4 * θ) := by
  have hc : ∫ t in (0 : ℝ)..1, Gumbel.φ θ t / deriv (Gumbel.φ θ) t
      = ∫ t in (0 : ℝ)..1, t * Real.log t / θ :=
    integral_congr_Ioo_of_le zero_le_one (fun t ht => gumbel_ratio hθ ht.1 ht.2)
  have hθ0 : θ ≠ 0 := by linarith
  rw [hc, intervalIntegral.integral_div, integral_mul_log_zero_one]
  field_simp

/-- Gumbel: the Genest–MacKay functional of the generator is `1 − 1/θ`. -/
theorem gumbel_tauGen {θ : ℝ} (hθ : 1 ≤ θ) : tauGen (Gumbel.φ θ) = 1 - 1 / θ := by
  have hθ0 : θ ≠ 0 := by linarith
  rw [tauGen, gumbel_integral hθ]
  field_simp
  ring

/-! ## Frank: `φ(t) = −log((e^{−θt} − 1)/(e^{−θ} − 1))`

`φ/φ' = ((e^{θt} − 1)/θ)·log r(t)` with `r(t) = (e^{−θt}−1)/(e^{−θ}−1) ∈ (0,1]`.  Integration by
parts with `B(t) = (e^{θt} − 1)/θ − t` (so `B(0) = 0` kills the logarithmic singularity at `0`) and
`B·(log r)' = 1 − θt/(e^{θt} − 1)`, then the substitution `s = θt`. -/

open CopVerif.BivFit (dbe)

theorem exp_sub_one_ne_zero {x : ℝ} (hx : x ≠ 0) : Real.exp x - 1 ≠ 0 := by
  rw [sub_ne_zero]
  simpa using hx

/-- `(eˣ − 1)/x > 0` for `x ≠ 0`. -/
theorem exp_sub_one_div_pos {x : ℝ} (hx : x ≠ 0) : 0 < (Real.exp x - 1) / x := by
  rcases lt_or_gt_of_ne hx with h | h
  · have : Real.exp x < 1 := Real.exp_lt_one_iff.2 h
    exact div_pos_of_neg_of_neg (by linarith) h
  · have : 1 < Real.exp x := Real.one_lt_exp_iff.2 h
    exact div_pos (by linarith) h

theorem one_sub_mul_exp_le (x : ℝ) : (1 - x) * Real.exp x ≤ 1 := by
  have h := Real.add_one_le_exp (-x)
  have hp := Real.exp_pos x
  have he : Real.exp (-x) * Real.exp x = 1 := by rw [← Real.exp_add]; simp
  nlinarith

/-- the Debye integrand `s/(eˢ−1)` (value `0` at the removable singularity `s = 0`) is locally
bounded -/
theorem dbe_abs_le (s : ℝ) : |dbe s| ≤ 1 + |s| := by
  unfold dbe
  rcases lt_trichotomy s 0 with hs | rfl | hs
  · have he : Real.exp s - 1 < 0 := by have := Real.exp_lt_one_iff.2 hs; linarith
    have hpos : 0 < s / (Real.exp s - 1) := div_pos_of_neg_of_neg hs he
    rw [abs_of_pos hpos, abs_of_neg hs, div_le_iff_of_neg he]
    have := one_sub_mul_exp_le s
    nlinarith
  · simp
  · have he : s + 1 < Real.exp s := Real.add_one_lt_exp hs.ne'
    have hpos : 0 < s / (Real.exp s - 1) := div_pos hs (by linarith)
    rw [abs_of_pos hpos, abs_of_pos hs, div_le_iff₀ (by linarith)]
    nlinarith

theorem dbe_measurable : Measurable dbe := by
  unfold dbe
  exact measurable_id.div (Real.measurable_exp.sub_const 1)

theorem dbe_intervalIntegrable (a b : ℝ) : IntervalIntegrable dbe volume a b := by
  rw [intervalIntegrable_iff]
  refine Measure.integrableOn_of_bounded (M := 1 + (|a| + |b|)) ?_
    dbe_measurable.aestronglyMeasurable ?_
  · exact measure_Ioc_lt_top.ne
  · refine ae_restrict_of_forall_mem measurableSet_uIoc (fun s hs => ?_)
    rw [Real.norm_eq_abs]
    refine (dbe_abs_le s).trans ?_
    have h1 := le_abs_self a
    have h2 := neg_abs_le a
    have h3 := le_abs_self b
    have h4 := neg_abs_le b
    have hs' : |s| ≤ |a| + |b| := by
      rcases le_total a b with hab | hab
      · rw [uIoc_of_le hab] at hs
        exact abs_le.2 ⟨by linarith [hs.1, abs_nonneg b], by linarith [hs.2, abs_nonneg a]⟩
      · rw [uIoc_of_ge hab] at hs
        exact abs_le.2 ⟨by linarith [hs.1, abs_nonneg a], by linarith [hs.2, abs_nonneg b]⟩
    linarith

/-- `J x = ∫₀ˣ s/(eˢ−1) ds` -/
noncomputable def J (x : ℝ) : ℝ := ∫ s in (0 : ℝ)..x, dbe s

theorem J_continuous : Continuous J := intervalIntegral.continuous_primitive dbe_intervalIntegrable 0

theorem dbe_continuousAt {x : ℝ} (hx : x ≠ 0) : ContinuousAt dbe x := by
  unfold dbe
  exact continuousAt_id.div (by fun_prop) (exp_sub_one_ne_zero hx)

theorem J_hasDerivAt {x : ℝ} (hx : x ≠ 0) : HasDerivAt J (dbe x) x :=
  intervalIntegral.integral_hasDerivAt_right (dbe_intervalIntegrable 0 x)
    dbe_measurable.stronglyMeasurable.stronglyMeasurableAtFilter (dbe_continuousAt hx)

/-- The first Debye function `D₁(θ) = (1/θ) ∫₀^θ s/(eˢ−1) ds` (lower limit `0`; the integrand is
bounded near `0`). -/
noncomputable def debye1 (θ : ℝ) : ℝ := (∫ s in (0 : ℝ)..θ, s / (Real.exp s - 1)) / θ

theorem debye1_eq (θ : ℝ) : debye1 θ = J θ / θ := rfl

theorem frank_hasDerivAt {θ t : ℝ} (hθ : θ ≠ 0) (ht : 0 < t) :
    HasDerivAt (Frank.φ θ)
      (θ * Real.exp (-θ * t) / (Real.exp (-θ * t) - 1)) t := by
  have hr : Frank.r θ t ≠ 0 := (Frank.r_pos hθ ht).ne'
  have h1 : HasDerivAt (Frank.r θ) (-θ * (1 + Frank.g θ t) / Frank.g θ 1) t :=
    (Frank.hasDerivAt_g θ t).div_const (Frank.g θ 1)
  have h2 := (h1.log hr).neg
  have hfun : Frank.φ θ = fun t => -Real.log (Frank.r θ t) := funext (Frank.φ_eq_r θ)
  rw [hfun]
  refine h2.congr_deriv ?_
  have hg1 := Frank.g_one_ne_zero hθ
  have hgt : Frank.g θ t ≠ 0 := by
    intro h; apply hr; simp [Frank.r, h]
  rw [Frank.one_add_g]
  simp only [Frank.r]
  have : Real.exp (-θ * t) - 1 = Frank.g θ t := rfl
  rw [this]
  field_simp

/-- the integrand `φ/φ'` in closed form -/
noncomputable def frankRatio (θ t : ℝ) : ℝ :=
  (Real.exp (θ * t) - 1) / θ * Real.log (Frank.r θ t)

theorem frank_ratio {θ t : ℝ} (hθ : θ ≠ 0) (ht : 0 < t) :
    Frank.φ θ t / deriv (Frank.φ θ) t = frankRatio θ t := by
  rw [(frank_hasDerivAt hθ ht).deriv, Frank.φ_eq_r, frankRatio]
  have hE : Real.exp (-θ * t) = (Real.exp (θ * t))⁻¹ := by rw [← Real.exp_neg]; congr 1; ring
  have hE0 : Real.exp (θ * t) ≠ 0 := (Real.exp_pos _).ne'
  have hE1 : Real.exp (θ * t) - 1 ≠ 0 := exp_sub_one_ne_zero (mul_ne_zero hθ ht.ne')
  have hE1' : 1 - Real.exp (θ * t) ≠ 0 := fun h => hE1 (by linarith)
  rw [hE]
  generalize Real.exp (θ * t) = E at *
  generalize Real.log (Frank.r θ t) = L
  field_simp
  ring

/-- `φ/φ' ≤ 0` on `(0,1]` (either sign of θ). -/
theorem frankRatio_nonpos {θ t : ℝ} (hθ : θ ≠ 0) (ht : 0 < t) (ht1 : t ≤ 1) :
    frankRatio θ t ≤ 0 := by
  have h1 : 0 < (Real.exp (θ * t) - 1) / θ := by
    have e : (Real.exp (θ * t) - 1) / θ = (Real.exp (θ * t) - 1) / (θ * t) * t := by
      field_simp
    rw [e]
    exact mul_pos (exp_sub_one_div_pos (mul_ne_zero hθ ht.ne')) ht
  have h2 : Real.log (Frank.r θ t) ≤ 0 :=
    Real.log_nonpos (Frank.r_pos hθ ht).le (Frank.r_le_one hθ ht1)
  exact mul_nonpos_of_nonneg_of_nonpos h1.le h2

/-- `r(t) ≥ c·t` on `(0,1]` for some `c > 0`: the logarithmic singularity of `log r` at `0` is no
worse than that of `log t`.  (θ > 0) -/
theorem frank_r_lower_pos {θ t : ℝ} (hθ : 0 < θ) (ht : 0 < t) (ht1 : t ≤ 1) :
    θ / (1 + θ) * t ≤ Frank.r θ t := by
  have hx : 0 < θ * t := mul_pos hθ ht
  have hxθ : θ * t ≤ θ := by nlinarith
  have hy : Real.exp (-θ * t) ≤ 1 / (1 + θ * t) := by
    have h := Real.add_one_le_exp (θ * t)
    rw [show -θ * t = -(θ * t) by ring, Real.exp_neg, ← one_div]
    exact one_div_le_one_div_of_le (by linarith) (by linarith)
  have hw0 : 0 < Real.exp (-θ * 1) := Real.exp_pos _
  have hw1 : Real.exp (-θ * 1) < 1 := Real.exp_lt_one_iff.2 (by linarith)
  have h1 : θ / (1 + θ) * t ≤ 1 - Real.exp (-θ * t) := by
    have e1 : θ / (1 + θ) * t = θ * t / (1 + θ) := by ring
    have e2 : θ * t / (1 + θ * t) = 1 - 1 / (1 + θ * t) := by field_simp; ring
    have e3 : θ * t / (1 + θ) ≤ θ * t / (1 + θ * t) :=
      div_le_div_of_nonneg_left hx.le (by linarith) (by linarith)
    linarith
  have h2 : 1 - Real.exp (-θ * t) ≤ Frank.r θ t := by
    have hn : 0 ≤ 1 - Real.exp (-θ * t) := by
      have := Real.exp_lt_one_iff.2 (show -θ * t < 0 by linarith); linarith
    have : Frank.r θ t = (1 - Real.exp (-θ * t)) / (1 - Real.exp (-θ * 1)) := by
      simp only [Frank.r, Frank.g]; rw [← neg_div_neg_eq]; congr 1 <;> ring
    rw [this, le_div_iff₀ (by linarith)]
    nlinarith
  linarith

/-- `t·log r(t) → 0` as `t → 0⁺` (squeeze between `t·log(c t)` and `0`). -/
theorem tendsto_mul_log_r {θ c : ℝ} (hθ : θ ≠ 0) (hc : 0 < c)
    (hlow : ∀ t, 0 < t → t ≤ 1 → c * t ≤ Frank.r θ t) :
    Filter.Tendsto (fun t => t * Real.log (Frank.r θ t)) (nhdsWithin 0 (Icc 0 1)) (nhds 0) := by
  have hb : Filter.Tendsto (fun t : ℝ => t * |Real.log c| - t * Real.log t)
      (nhdsWithin 0 (Icc 0 1)) (nhds 0) := by
    have hcont : Continuous (fun t : ℝ => t * |Real.log c| - t * Real.log t) :=
      (continuous_id.mul continuous_const).sub Real.continuous_mul_log
    have := (hcont.tendsto 0).mono_left (nhdsWithin_le_nhds (s := Icc 0 1))
    simpa using this
  refine squeeze_zero_norm' ?_ hb
  filter_upwards [self_mem_nhdsWithin] with t ht
  rw [Real.norm_eq_abs]
  rcases ht.1.eq_or_lt with rfl | ht0
  · simp
  · have hr := Frank.r_pos hθ ht0
    have hr1 := Frank.r_le_one hθ ht.2
    have hl : Real.log (Frank.r θ t) ≤ 0 := Real.log_nonpos hr.le hr1
    have hl2 : Real.log (c * t) ≤ Real.log (Frank.r θ t) :=
      Real.log_le_log (mul_pos hc ht0) (hlow t ht0 ht.2)
    rw [Real.log_mul hc.ne' ht0.ne'] at hl2
    rw [abs_mul, abs_of_pos ht0, abs_of_nonpos hl]
    have h3 : -Real.log (Frank.r θ t) ≤ |Real.log c| - Real.log t := by
      have := neg_abs_le (Real.log c); linarith
    have := mul_le_mul_of_nonneg_left h3 ht0.le
    linarith

theorem continuousOn_mul_log_r {θ c : ℝ} (hθ : θ ≠ 0) (hc : 0 < c)
    (hlow : ∀ t, 0 < t → t ≤ 1 → c * t ≤ Frank.r θ t) :
    ContinuousOn (fun t => t * Real.log (Frank.r θ t)) (Icc 0 1) := by
  intro t ht
  rcases ht.1.eq_or_lt with rfl | ht0
  · have := tendsto_mul_log_r hθ hc hlow
    unfold ContinuousWithinAt
    simpa using this
  · have hrc : ContinuousAt (Frank.r θ) t :=
      ((Frank.continuous_g θ).div_const (Frank.g θ 1)).continuousAt
    exact (continuousAt_id.mul (hrc.log (Frank.r_pos hθ ht0).ne')).continuousWithinAt

/-- antiderivative of `frankRatio θ` on `(0,1)`:
`(B(t)·log r(t) − t + (1/θ)∫₀^{θt} s/(eˢ−1) ds)/θ`, `B(t) = (e^{θt}−1)/θ − t`. -/
noncomputable def frankPrim (θ t : ℝ) : ℝ :=
  (((Real.exp (θ * t) - 1) / θ - t) * Real.log (Frank.r θ t) - t + J (θ * t) / θ) / θ

theorem frankPrim_hasDerivAt {θ t : ℝ} (hθ : θ ≠ 0) (ht : 0 < t) :
    HasDerivAt (frankPrim θ) (frankRatio θ t) t := by
  have hx : θ * t ≠ 0 := mul_ne_zero hθ ht.ne'
  have hB : HasDerivAt (fun t => (Real.exp (θ * t) - 1) / θ - t)
      (Real.exp (θ * t) * (θ * 1) / θ - 1) t :=
    ((((hasDerivAt_id t).const_mul θ).exp.sub_const 1).div_const θ).sub (hasDerivAt_id t)
  have hr : HasDerivAt (Frank.r θ) (-θ * (1 + Frank.g θ t) / Frank.g θ 1) t :=
    (Frank.hasDerivAt_g θ t).div_const (Frank.g θ 1)
  have hL := hr.log (Frank.r_pos hθ ht).ne'
  have hJ : HasDerivAt (fun t => J (θ * t)) (dbe (θ * t) * (θ * 1)) t :=
    (J_hasDerivAt hx).comp t ((hasDerivAt_id t).const_mul θ)
  have h := ((((hB.mul hL).sub (hasDerivAt_id t)).add (hJ.div_const θ)).div_const θ)
  have h' : HasDerivAt (frankPrim θ) _ t := h
  refine h'.congr_deriv ?_
  have hE : Real.exp (-θ * t) = (Real.exp (θ * t))⁻¹ := by rw [← Real.exp_neg]; congr 1; ring
  have hgt : Frank.g θ t = (Real.exp (θ * t))⁻¹ - 1 := by rw [Frank.g, hE]
  have hg1 := Frank.g_one_ne_zero hθ
  have hE0 : Real.exp (θ * t) ≠ 0 := (Real.exp_pos _).ne'
  have hE1 : Real.exp (θ * t) - 1 ≠ 0 := exp_sub_one_ne_zero hx
  have hE1' : 1 - Real.exp (θ * t) ≠ 0 := fun h => hE1 (by linarith)
  simp only [frankRatio, Frank.r, dbe, hgt]
  generalize Real.exp (θ * t) = E at *
  generalize Frank.g θ 1 = w at *
  generalize Real.log (((E)⁻¹ - 1) / w) = L
  field_simp
  ring

theorem frankPrim_continuousOn {θ c : ℝ} (hθ : θ ≠ 0) (hc : 0 < c)
    (hlow : ∀ t, 0 < t → t ≤ 1 → c * t ≤ Frank.r θ t) :
    ContinuousOn (frankPrim θ) (Icc 0 1) := by
  have hrc : Continuous (Frank.r θ) := (Frank.continuous_g θ).div_const (Frank.g θ 1)
  have h1 : Continuous (fun t => -(Real.exp (θ * t) * Frank.g θ 1 / θ) *
      (Frank.r θ t * Real.log (Frank.r θ t))) :=
    (by fun_prop : Continuous fun t => -(Real.exp (θ * t) * Frank.g θ 1 / θ)).mul
      (Real.continuous_mul_log.comp hrc)
  have h2 := continuousOn_mul_log_r hθ hc hlow
  have h3 : Continuous (fun t => J (θ * t) / θ) :=
    (J_continuous.comp (continuous_const.mul continuous_id)).div_const θ
  have h4 : ContinuousOn (fun t => ((-(Real.exp (θ * t) * Frank.g θ 1 / θ) *
      (Frank.r θ t * Real.log (Frank.r θ t)) - t * Real.log (Frank.r θ t)) - t
        + J (θ * t) / θ) / θ) (Icc 0 1) :=
    (((h1.continuousOn.sub h2).sub continuousOn_id).add h3.continuousOn).div_const θ
  refine h4.congr (fun t _ => ?_)
  have hg1 := Frank.g_one_ne_zero hθ
  have hE : Real.exp (-θ * t) = (Real.exp (θ * t))⁻¹ := by rw [← Real.exp_neg]; congr 1; ring
  have hE0 : Real.exp (θ * t) ≠ 0 := (Real.exp_pos _).ne'
  have key : (Real.exp (θ * t) - 1) / θ = -(Real.exp (θ * t) * Frank.g θ 1 / θ) * Frank.r θ t := by
    have hgt : Frank.g θ t = (Real.exp (θ * t))⁻¹ - 1 := by rw [Frank.g, hE]
    rw [Frank.r, hgt]
    field_simp
    ring
  simp only [frankPrim]
  rw [key]
  ring

/-- `∫₀¹ ((e^{θt}−1)/θ)·log r(t) dt = (D₁(θ) − 1)/θ`, and the integrand is integrable. -/
theorem frankRatio_integral_aux {θ c : ℝ} (hθ : θ ≠ 0) (hc : 0 < c)
    (hlow : ∀ t, 0 < t → t ≤ 1 → c * t ≤ Frank.r θ t) :
    IntervalIntegrable (frankRatio θ) volume 0 1 ∧
      ∫ t in (0 : ℝ)..1, frankRatio θ t = (debye1 θ - 1) / θ := by
  have hcont := frankPrim_continuousOn hθ hc hlow
  have hint : IntervalIntegrable (frankRatio θ) volume 0 1 := by
    have hneg : IntegrableOn (fun t => -frankRatio θ t) (Ioc 0 1) :=
      intervalIntegral.integrableOn_deriv_of_nonneg (g := fun t => -frankPrim θ t) hcont.neg
        (fun x hx => (frankPrim_hasDerivAt hθ hx.1).neg)
        (fun x hx => neg_nonneg.2 (frankRatio_nonpos hθ hx.1 hx.2.le))
    rw [intervalIntegrable_iff_integrableOn_Ioc_of_le zero_le_one]
    simpa using hneg.neg
  refine ⟨hint, ?_⟩
  rw [integral_eq_sub_of_hasDerivAt_of_le zero_le_one hcont
    (fun x hx => frankPrim_hasDerivAt hθ hx.1) hint]
  simp [frankPrim, J, debye1_eq, Frank.r_one hθ]
  ring

/-- same for θ < 0 -/
theorem frank_r_lower_neg {θ t : ℝ} (hθ : θ < 0) (_ht : 0 < t) :
    -θ / (Real.exp (-θ) - 1) * t ≤ Frank.r θ t := by
  have hd : 0 < Real.exp (-θ) - 1 := by
    have := Real.add_one_lt_exp (x := -θ) (by linarith); linarith
  have hn := Real.add_one_le_exp (-θ * t)
  simp only [Frank.r, Frank.g, mul_one]
  rw [div_mul_eq_mul_div]
  exact div_le_div_of_nonneg_right (by linarith) hd.le

theorem frank_r_lower {θ : ℝ} (hθ : θ ≠ 0) :
    ∃ c : ℝ, 0 < c ∧ ∀ t, 0 < t → t ≤ 1 → c * t ≤ Frank.r θ t := by
  rcases lt_or_gt_of_ne hθ with h | h
  · have hd : 0 < Real.exp (-θ) - 1 := by
      have := Real.add_one_lt_exp (x := -θ) (by linarith); linarith
    exact ⟨-θ / (Real.exp (-θ) - 1), div_pos (by linarith) hd,
      fun _ ht _ => frank_r_lower_neg h ht⟩
  · exact ⟨θ / (1 + θ), by positivity, fun _ ht ht1 => frank_r_lower_pos h ht ht1⟩

theorem frank_ratio_intervalIntegrable {θ : ℝ} (hθ : θ ≠ 0) :
    IntervalIntegrable (fun t => Frank.φ θ t / deriv (Frank.φ θ) t) volume 0 1 := by
  obtain ⟨c, hc, hlow⟩ := frank_r_lower hθ
  refine (frankRatio_integral_aux hθ hc hlow).1.congr_uIoo ?_
  intro t ht
  rw [uIoo_of_le zero_le_one] at ht
  exact (frank_ratio hθ ht.1).symm

/-- `∫₀¹ φ/φ' = (D₁(θ) − 1)/θ` (either sign of θ). -/
theorem frank_integral {θ : ℝ} (hθ : θ ≠ 0) :
    ∫ t in (0 : ℝ)..1, Frank.φ θ t / deriv (Frank.φ θ) t = (debye1 θ - 1) / θ := by
  obtain ⟨c, hc, hlow⟩ := frank_r_lower hθ
  rw [← (frankRatio_integral_aux hθ hc hlow).2]
  exact integral_congr_Ioo_of_le zero_le_one (fun t ht => frank_ratio hθ ht.1)

/-- Frank: the Genest–MacKay functional of the generator is `1 + 4 (D₁(θ) − 1)/θ`
(either sign of θ). -/
theorem frank_tauGen {θ : ℝ} (hθ : θ ≠ 0) :
    tauGen (Frank.φ θ) = 1 + 4 * (debye1 θ - 1) / θ := by
  rw [tauGen, frank_integral hθ]
  ring

/-- The residual handed to `least_squares`, with `quad` read as the exact interval integral and
lower limit `0` (the code passes `EPSILON`, not `0`), is `tauGen (φ_a) − τ`. -/
theorem frank_tauResidual_eq {τ a : ℝ} (ha : a ≠ 0) :
    Gen.Frank.tauResidual (fun f lo hi => ∫ t in lo..hi, f t) 0 τ a = tauGen (Frank.φ a) - τ := by
  rw [BivFit.bridge_tauResidual, frank_tauGen ha, BivFit.T, BivFit.I, debye1_eq, J]
  ring

/-- For `θ > 0`, `0 < D₁(θ) < 1` (the integrand lies in `(0,1)`), so the value is not a
totalisation artefact and the Frank functional is `< 1`. -/
theorem debye1_mem_Ioo {θ : ℝ} (hθ : 0 < θ) : 0 < debye1 θ ∧ debye1 θ < 1 := by
  rw [debye1_eq]
  have hpos : 0 < J θ :=
    intervalIntegral.intervalIntegral_pos_of_pos_on (dbe_intervalIntegrable 0 θ)
      (fun x hx => div_pos hx.1 (BivFit.exp_sub_one_pos hx.1)) hθ
  have hlt : 0 < ∫ s in (0 : ℝ)..θ, (1 - dbe s) := by
    refine intervalIntegral.intervalIntegral_pos_of_pos_on
      (intervalIntegrable_const.sub (dbe_intervalIntegrable 0 θ)) (fun x hx => ?_) hθ
    have := BivFit.debyeIntegrand_lt_one hx.1
    rw [BivFit.bridge_dbe] at this
    linarith
  rw [integral_sub intervalIntegrable_const (dbe_intervalIntegrable 0 θ),
    intervalIntegral.integral_const] at hlt
  refine ⟨div_pos hpos hθ, ?_⟩
  rw [div_lt_one hθ]
  simp only [sub_zero, smul_eq_mul, mul_one] at hlt
  unfold J
  linarith

theorem frank_tauGen_lt_one {θ : ℝ} (hθ : 0 < θ) : tauGen (Frank.φ θ) < 1 := by
  rw [frank_tauGen hθ.ne']
  have h := (debye1_mem_Ioo hθ).2
  have : 4 * (debye1 θ - 1) / θ < 0 := div_neg_of_neg_of_pos (by linarith) hθ
  linarith

/-! ## non-vacuity -/

example : tauGen (Clayton.φ 2) = 1 / 2 := by rw [clayton_tauGen (by norm_num)]; norm_num
example : tauGen (Gumbel.φ 2) = 1 / 2 := by rw [gumbel_tauGen (by norm_num)]; norm_num
/-- `θ = 1` is the independence copula for Gumbel: `τ = 0`. -/
example : tauGen (Gumbel.φ 1) = 0 := by rw [gumbel_tauGen le_rfl]; norm_num
example : tauGen (Frank.φ 3) = 1 + 4 * (debye1 3 - 1) / 3 := frank_tauGen (by norm_num)
example : tauGen (Frank.φ (-3)) = 1 + 4 * (debye1 (-3) - 1) / (-3) := frank_tauGen (by norm_num)
example : HasDerivAt (Clayton.φ 2) (-(1 / 2 : ℝ) ^ (-2 - 1 : ℝ)) (1 / 2) :=
  clayton_hasDerivAt (by norm_num) (by norm_num)

end CopVerif.KendallGen
