import Mathlib.Analysis.SpecialFunctions.Sqrt
import Mathlib.Algebra.BigOperators.Fin
import Mathlib.Algebra.Order.Chebyshev
import Mathlib.LinearAlgebra.Matrix.PosDef
import Mathlib.Algebra.Order.Star.Real
import Mathlib.Algebra.BigOperators.Field
import CopVerif.Real.Inst
import CopVerif.Model.Pearson

/-!
  C02 over ℝ: the executable model `CopVerif.Model.pearsonPair` (pandas' one-pass Welford `nancorr`)
  equals the textbook Pearson correlation `rho` (mean, centred sums, `none` for `0/0`); Cauchy–Schwarz
  range; the `nan → 0` matrix is a Gram matrix (PSD); ridge `R + εI` is positive definite; bridges
  from the list-of-lists model to `Matrix (Fin k) (Fin k) ℝ`.
-/
namespace CopVerif.Pearson
open CopVerif Model NumFns

/-- `Σ_{p ∈ l} f p`. -/
noncomputable def sumf (f : ℝ × ℝ → ℝ) (l : List (ℝ × ℝ)) : ℝ := (l.map f).sum

@[simp] theorem sumf_nil (f) : sumf f [] = 0 := by simp [sumf]
@[simp] theorem sumf_append (f) (l₁ l₂) : sumf f (l₁ ++ l₂) = sumf f l₁ + sumf f l₂ := by
  simp [sumf]
@[simp] theorem sumf_singleton (f) (p) : sumf f [p] = f p := by simp [sumf]

/-- closed form of the Welford state after the rows `l`, in raw moments. -/
noncomputable def closed (l : List (ℝ × ℝ)) : WState ℝ :=
  let n : ℝ := l.length
  let A := sumf (fun p => p.1) l
  let B := sumf (fun p => p.2) l
  { nobs := n, meanx := A / n, meany := B / n,
    ssx := sumf (fun p => p.1 * p.1) l - A * A / n,
    ssy := sumf (fun p => p.2 * p.2) l - B * B / n,
    cov := sumf (fun p => p.1 * p.2) l - A * B / n }

theorem welford_closed (l : List (ℝ × ℝ)) : l.foldl wStep wInit = closed l := by
  induction l using List.reverseRecOn with
  | nil => simp [closed, wInit]
  | append_singleton l p ih =>
    rw [List.foldl_append, ih]
    simp only [List.foldl_cons, List.foldl_nil]
    by_cases hl : l = []
    · subst hl; simp [closed, wStep]
    · have hpos : 0 < (l.length : ℝ) := by
        have := List.length_pos_of_ne_nil hl
        exact_mod_cast this
      have hn : (l.length : ℝ) ≠ 0 := hpos.ne'
      have hn1 : (l.length : ℝ) + 1 ≠ 0 := by positivity
      simp only [closed, wStep, sumf_append, sumf_singleton, List.length_append,
        List.length_cons, List.length_nil, ofNat_real, Nat.cast_add, Nat.cast_one,
        zero_add, WState.mk.injEq]
      refine ⟨trivial, ?_, ?_, ?_, ?_, ?_⟩ <;> (field_simp; ring)

/-! ### the textbook (two-pass) definition over `Fin n → ℝ` -/

/-- column `xs` as a function of the row index. -/
noncomputable def vec (n : ℕ) (xs : List ℝ) : Fin n → ℝ := fun r => xs.getD r 0

variable {n : ℕ}

/-- sample mean. -/
noncomputable def mean (x : Fin n → ℝ) : ℝ := (∑ r, x r) / n
/-- centred value. -/
noncomputable def cen (x : Fin n → ℝ) (r : Fin n) : ℝ := x r - mean x
/-- centred cross sum `Σ (x_r − x̄)(y_r − ȳ)`. -/
noncomputable def S (x y : Fin n → ℝ) : ℝ := ∑ r, cen x r * cen y r

/-- Pearson correlation; `none` when the denominator vanishes (`0/0`, NaN in pandas). -/
noncomputable def rho (x y : Fin n → ℝ) : Option ℝ :=
  if Real.sqrt (S x x * S y y) = 0 then none else some (S x y / Real.sqrt (S x x * S y y))

theorem S_comm (x y : Fin n → ℝ) : S x y = S y x := by
  simp only [S]; exact Finset.sum_congr rfl fun _ _ => mul_comm _ _

theorem S_self_nonneg (x : Fin n → ℝ) : 0 ≤ S x x :=
  Finset.sum_nonneg fun _ _ => mul_self_nonneg _

theorem rho_comm (x y : Fin n → ℝ) : rho x y = rho y x := by
  simp only [rho, S_comm x y, mul_comm (S x x)]

theorem S_eq_raw (hn : n ≠ 0) (x y : Fin n → ℝ) :
    S x y = (∑ r, x r * y r) - (∑ r, x r) * (∑ r, y r) / n := by
  have hn' : (n : ℝ) ≠ 0 := by exact_mod_cast hn
  have h : ∀ r, cen x r * cen y r
      = x r * y r - mean x * y r - mean y * x r + mean x * mean y := by
    intro r; simp only [cen]; ring
  simp only [S, h, Finset.sum_add_distrib, Finset.sum_sub_distrib, ← Finset.mul_sum,
    Finset.sum_const, Finset.card_univ, Fintype.card_fin, nsmul_eq_mul, mean]
  field_simp; ring

/-- Cauchy–Schwarz for the centred sums. -/
theorem S_sq_le (x y : Fin n → ℝ) : S x y ^ 2 ≤ S x x * S y y := by
  have := Finset.sum_mul_sq_le_sq_mul_sq Finset.univ (cen x) (cen y)
  simpa [S, pow_two] using this

theorem abs_S_le (x y : Fin n → ℝ) : |S x y| ≤ Real.sqrt (S x x * S y y) :=
  Real.abs_le_sqrt (S_sq_le x y)

/-- the unclipped quotient is already in `[-1, 1]`. -/
theorem rho_range {x y : Fin n → ℝ} {v : ℝ} (h : rho x y = some v) : -1 ≤ v ∧ v ≤ 1 := by
  unfold rho at h
  split_ifs at h with h0
  have hv : v = S x y / Real.sqrt (S x x * S y y) := by simpa using h.symm
  have hpos : 0 < Real.sqrt (S x x * S y y) := lt_of_le_of_ne (Real.sqrt_nonneg _) (Ne.symm h0)
  have := abs_S_le x y
  have habs : |v| ≤ 1 := by
    rw [hv, abs_div, abs_of_pos hpos]; exact (div_le_one hpos).2 this
  exact abs_le.1 habs

/-- sums over zipped lists are sums over the row index. -/
theorem sumf_zip (f : ℝ × ℝ → ℝ) : ∀ (n : ℕ) (xs ys : List ℝ), xs.length = n → ys.length = n →
    sumf f (xs.zip ys) = ∑ r : Fin n, f (vec n xs r, vec n ys r)
  | 0, xs, ys, hx, hy => by
    simp [List.length_eq_zero_iff.1 hx]
  | n + 1, a :: xs, b :: ys, hx, hy => by
    have hx' : xs.length = n := by simpa using hx
    have hy' : ys.length = n := by simpa using hy
    have ih := sumf_zip f n xs ys hx' hy'
    simp only [sumf] at ih ⊢
    rw [Fin.sum_univ_succ]
    simp only [List.zip_cons_cons, List.map_cons, List.sum_cons, ih]
    simp [vec]

/-! ### bridge: the executable Welford model at ℝ = the textbook definition -/

theorem filter_finite (l : List (ℝ × ℝ)) :
    l.filter (fun p => isFinite p.1 && isFinite p.2) = l := by
  simp [isFinite]

theorem clipUnit_of_range {v : ℝ} (h : -1 ≤ v ∧ v ≤ 1) : clipUnit v = v := by
  simp only [clipUnit, ofNat_real, Nat.cast_one]
  rw [if_neg (not_lt.2 h.2), if_neg (not_lt.2 h.1)]

/-- Welford's final state holds the centred sums. -/
theorem welford_S {xs ys : List ℝ} (hx : xs.length = n) (hy : ys.length = n) :
    let s := (xs.zip ys).foldl wStep wInit
    s.ssx = S (vec n xs) (vec n xs) ∧ s.ssy = S (vec n ys) (vec n ys)
      ∧ s.cov = S (vec n xs) (vec n ys) := by
  intro s
  have hs : s = closed (xs.zip ys) := welford_closed _
  have hlen : (xs.zip ys).length = n := by simp [hx, hy]
  rcases Nat.eq_zero_or_pos n with h0 | hpos
  · subst h0
    have : xs.zip ys = [] := List.length_eq_zero_iff.1 hlen
    simp [hs, this, closed, S]
  · have hn : n ≠ 0 := hpos.ne'
    simp only [hs, closed, hlen, sumf_zip _ n xs ys hx hy, S_eq_raw hn]
    trivial

theorem pearsonPair_eq_rho {xs ys : List ℝ} (hx : xs.length = n) (hy : ys.length = n) :
    pearsonPair xs ys = rho (vec n xs) (vec n ys) := by
  obtain ⟨h1, h2, h3⟩ := welford_S hx hy
  simp only [pearsonPair, filter_finite, sqrt_real, ofNat_real, Nat.cast_zero, beq_real_false, h1, h2, h3]
  by_cases h0 : Real.sqrt (S (vec n xs) (vec n xs) * S (vec n ys) (vec n ys)) = 0
  · simp [rho, h0]
  · have hr : rho (vec n xs) (vec n ys)
        = some (S (vec n xs) (vec n ys) / Real.sqrt (S (vec n xs) (vec n xs) * S (vec n ys) (vec n ys))) := by
      simp [rho, h0]
    rw [if_pos h0, hr, clipUnit_of_range (rho_range hr)]

/-! ### the correlation matrix as a Gram matrix -/

/-- a column is constant. -/
def IsConst (x : Fin n → ℝ) : Prop := ∀ r s, x r = x s

theorem S_self_eq_zero_iff (x : Fin n → ℝ) : S x x = 0 ↔ IsConst x := by
  constructor
  · intro h r s
    have h0 : ∀ t ∈ Finset.univ, cen x t * cen x t = 0 :=
      (Finset.sum_eq_zero_iff_of_nonneg fun t _ => mul_self_nonneg _).1 h
    have hr := mul_self_eq_zero.1 (h0 r (Finset.mem_univ _))
    have hs := mul_self_eq_zero.1 (h0 s (Finset.mem_univ _))
    simp only [cen] at hr hs; linarith
  · intro h
    rcases Nat.eq_zero_or_pos n with h0 | hpos
    · subst h0; simp [S]
    · have hn : (n : ℝ) ≠ 0 := by exact_mod_cast hpos.ne'
      have hm : ∀ t, x t = mean x := by
        intro t
        have : (∑ r, x r) = n * x t := by
          rw [Finset.sum_congr rfl fun r _ => h r t]; simp
        simp only [mean, this]; field_simp
      simp only [S, cen]
      exact Finset.sum_eq_zero fun r _ => by rw [hm r]; ring

theorem sqrt_SS_eq_zero_iff (x y : Fin n → ℝ) :
    Real.sqrt (S x x * S y y) = 0 ↔ S x x = 0 ∨ S y y = 0 := by
  rw [Real.sqrt_eq_zero (mul_nonneg (S_self_nonneg x) (S_self_nonneg y)), mul_eq_zero]

theorem rho_eq_none_iff (x y : Fin n → ℝ) : rho x y = none ↔ IsConst x ∨ IsConst y := by
  rw [← S_self_eq_zero_iff, ← S_self_eq_zero_iff, ← sqrt_SS_eq_zero_iff]
  simp [rho]

theorem rho_self {x : Fin n → ℝ} (h : ¬ IsConst x) : rho x x = some 1 := by
  have h0 : S x x ≠ 0 := fun e => h ((S_self_eq_zero_iff x).1 e)
  have : Real.sqrt (S x x * S x x) = S x x := Real.sqrt_mul_self (S_self_nonneg x)
  simp [rho, this, h0]

variable {k : ℕ}

/-- `nan_to_num(corr(X), nan = 0)` as a matrix; `X i` is column `i` of the score table. -/
noncomputable def corrMat (X : Fin k → Fin n → ℝ) : Matrix (Fin k) (Fin k) ℝ :=
  fun i j => (rho (X i) (X j)).getD 0

/-- standardised columns (the zero vector for a constant column). -/
noncomputable def stdMat (X : Fin k → Fin n → ℝ) : Matrix (Fin n) (Fin k) ℝ :=
  fun r i => if S (X i) (X i) = 0 then 0 else cen (X i) r / Real.sqrt (S (X i) (X i))

theorem corrMat_eq_gram (X : Fin k → Fin n → ℝ) :
    corrMat X = (stdMat X).conjTranspose * stdMat X := by
  ext i j
  simp only [corrMat, Matrix.mul_apply, Matrix.conjTranspose_apply, stdMat, star_trivial]
  by_cases hi : S (X i) (X i) = 0
  · have : rho (X i) (X j) = none := by
      simp [rho, (sqrt_SS_eq_zero_iff _ _).2 (Or.inl hi)]
    simp [this, hi]
  by_cases hj : S (X j) (X j) = 0
  · have : rho (X i) (X j) = none := by
      simp [rho, (sqrt_SS_eq_zero_iff _ _).2 (Or.inr hj)]
    simp [this, hj]
  have h0 : Real.sqrt (S (X i) (X i) * S (X j) (X j)) ≠ 0 := by
    rw [Ne, sqrt_SS_eq_zero_iff]; tauto
  have : rho (X i) (X j)
      = some (S (X i) (X j) / Real.sqrt (S (X i) (X i) * S (X j) (X j))) := by simp [rho, h0]
  rw [this, Option.getD_some, Real.sqrt_mul (S_self_nonneg _)]
  simp only [if_neg hi, if_neg hj, div_mul_div_comm, ← Finset.sum_div]
  simp only [S]

theorem corrMat_posSemidef (X : Fin k → Fin n → ℝ) : (corrMat X).PosSemidef := by
  rw [corrMat_eq_gram]; exact Matrix.posSemidef_conjTranspose_mul_self _

theorem corrMat_symm (X : Fin k → Fin n → ℝ) (i j : Fin k) : corrMat X i j = corrMat X j i := by
  simp only [corrMat, rho_comm (X i) (X j)]

/-- ridge: `R + ε I` is positive definite for PSD `R` and `ε > 0`. -/
theorem ridge_posDef {R : Matrix (Fin k) (Fin k) ℝ} (hR : R.PosSemidef) {ε : ℝ} (hε : 0 < ε) :
    (R + ε • (1 : Matrix (Fin k) (Fin k) ℝ)).PosDef :=
  Matrix.PosDef.posSemidef_add hR (Matrix.PosDef.one.smul hε)

/-! ### from the list-of-lists model to matrices -/

theorem entryD_table {β : Type} (d : β) (f : ℕ → ℕ → β) {k i j : ℕ} (hi : i < k) (hj : j < k) :
    entryD d (table k f) i j = f i j := by
  simp [entryD, table, List.getD_eq_getElem?_getD, hi, hj]

theorem entryD_table_row_ge {β : Type} (d : β) (f : ℕ → ℕ → β) {k i : ℕ} (j : ℕ) (hi : k ≤ i) :
    entryD d (table k f) i j = d := by
  simp [entryD, table, List.getD_eq_getElem?_getD, hi]

theorem entryD_table_col_ge {β : Type} (d : β) (f : ℕ → ℕ → β) {k j : ℕ} (i : ℕ) (hj : k ≤ j) :
    entryD d (table k f) i j = d := by
  by_cases hi : i < k
  · simp [entryD, table, List.getD_eq_getElem?_getD, hi, hj]
  · exact entryD_table_row_ge d f j (not_lt.1 hi)

theorem table_length {β : Type} (k : ℕ) (f : ℕ → ℕ → β) : (table k f).length = k := by
  simp [table]

theorem table_row_length {β : Type} (k : ℕ) (f : ℕ → ℕ → β) : ∀ row ∈ table k f, row.length = k := by
  intro row h
  simp only [table, List.mem_map] at h
  obtain ⟨i, _, rfl⟩ := h
  simp

section generic
set_option linter.unusedSectionVars false
variable {α : Type} [Add α] [Sub α] [Mul α] [Div α] [Neg α] [LT α] [LE α]
  [DecidableLT α] [DecidableLE α] [NumFns α]

theorem nanToZero_table (k : ℕ) (f : ℕ → ℕ → Option α) :
    nanToZero (table k f) = table k fun i j => nanToZero1 (f i j) := by
  simp [nanToZero, table, List.map_map, Function.comp_def]

theorem addDiag_table (ε : α) (k : ℕ) (f : ℕ → ℕ → α) :
    addDiag ε (table k f)
      = table k fun i j => f i j + (if i = j then ofNat 1 else ofNat 0) * ε := by
  apply List.ext_getElem
  · simp [addDiag, table]
  · intro i h1 h2
    apply List.ext_getElem
    · simp [addDiag, table]
    · intro j h3 h4
      simp [addDiag, table]

theorem preRidge_eq_table (cols : List (List α)) :
    preRidge cols = table cols.length fun i j => nanToZero1 (pearsonEntry cols i j) := by
  simp [preRidge, pearson, nanToZero_table]

theorem corrModel_eq_table (cols : List (List α)) (c : α) :
    corrModel cols c = table cols.length fun i j =>
      if Gen.GaussCorr.condThreshold < c then
        nanToZero1 (pearsonEntry cols i j)
          + (if i = j then ofNat 1 else ofNat 0) * Gen.GaussCorr.ridgeConst
      else nanToZero1 (pearsonEntry cols i j) := by
  simp only [corrModel, ridge, preRidge_eq_table]
  split_ifs
  · rw [addDiag_table]
  · rfl

theorem pearsonEntry_symm (cols : List (List α)) (i j : ℕ) :
    pearsonEntry cols i j = pearsonEntry cols j i := by
  simp only [pearsonEntry]
  rcases lt_trichotomy i j with h | h | h
  · rw [if_neg (not_le.2 h), if_pos h.le]
  · subst h; rfl
  · rw [if_pos h.le, if_neg (not_le.2 h)]

end generic

/-- every column of the score table has `n` rows. -/
def Rect (cols : List (List ℝ)) (n : ℕ) : Prop := ∀ c ∈ cols, c.length = n

/-- column `i` of the score table as a vector. -/
noncomputable def colVec (cols : List (List ℝ)) (n i : ℕ) : Fin n → ℝ := vec n (cols.getD i [])

/-- the score table as a family of column vectors. -/
noncomputable def scoreFn (cols : List (List ℝ)) (n : ℕ) : Fin cols.length → Fin n → ℝ :=
  fun i => colVec cols n i

/-- list-of-rows matrix as a `Matrix`. -/
def toMat (k : ℕ) (M : List (List ℝ)) : Matrix (Fin k) (Fin k) ℝ := fun i j => entryD 0 M i j

theorem Rect.getD_length {cols : List (List ℝ)} {n : ℕ} (h : Rect cols n) {i : ℕ}
    (hi : i < cols.length) : (cols.getD i []).length = n := by
  have e : cols.getD i [] = cols[i] := by simp [List.getD_eq_getElem?_getD, hi]
  rw [e]; exact h _ (List.getElem_mem hi)

theorem nanToZero1_real (v : Option ℝ) : nanToZero1 v = v.getD 0 := by
  cases v <;> simp [nanToZero1, Gen.GaussCorr.nanReplacement]

theorem pearsonEntry_eq_rho {cols : List (List ℝ)} {n : ℕ} (h : Rect cols n) {i j : ℕ}
    (hi : i < cols.length) (hj : j < cols.length) :
    pearsonEntry cols i j = rho (colVec cols n i) (colVec cols n j) := by
  simp only [pearsonEntry, colVec]
  split_ifs
  · exact pearsonPair_eq_rho (h.getD_length hi) (h.getD_length hj)
  · rw [rho_comm]; exact pearsonPair_eq_rho (h.getD_length hj) (h.getD_length hi)

theorem toMat_preRidge {cols : List (List ℝ)} {n : ℕ} (h : Rect cols n) :
    toMat cols.length (preRidge cols) = corrMat (scoreFn cols n) := by
  ext i j
  simp only [toMat, preRidge_eq_table, entryD_table _ _ i.2 j.2, nanToZero1_real,
    pearsonEntry_eq_rho h i.2 j.2, corrMat, scoreFn]

theorem epsilon_pos : (0 : ℝ) < Gen.GaussCorr.ridgeConst := by
  simp [Gen.GaussCorr.ridgeConst, Gen.GaussCorr.epsilon]

theorem toMat_corrModel_ridge {cols : List (List ℝ)} {n : ℕ} (h : Rect cols n) {c : ℝ}
    (hc : Gen.GaussCorr.condThreshold < c) :
    toMat cols.length (corrModel cols c)
      = corrMat (scoreFn cols n)
        + (Gen.GaussCorr.ridgeConst : ℝ) • (1 : Matrix (Fin cols.length) (Fin cols.length) ℝ) := by
  rw [← toMat_preRidge h]
  ext i j
  simp only [toMat, corrModel_eq_table, preRidge_eq_table, entryD_table _ _ i.2 j.2, if_pos hc,
    Matrix.add_apply, Matrix.smul_apply, Matrix.one_apply, ofNat_real, Fin.ext_iff, smul_eq_mul]
  by_cases hij : (i : ℕ) = j <;> simp [hij]

theorem corrModel_noridge (cols : List (List ℝ)) {c : ℝ} (hc : ¬ Gen.GaussCorr.condThreshold < c) :
    corrModel cols c = preRidge cols := by
  simp [corrModel, ridge, hc]

/-! ### `_transform_to_normal` -/

theorem clipLo_pos : (0 : ℝ) < Gen.GaussCorr.clipLo := by
  simp [Gen.GaussCorr.clipLo, Gen.GaussCorr.epsilon]

theorem clipHi_lt_one : (Gen.GaussCorr.clipHi : ℝ) < 1 := by
  simp [Gen.GaussCorr.clipHi, Gen.GaussCorr.epsilon]

theorem clipLo_le_clipHi : (Gen.GaussCorr.clipLo : ℝ) ≤ Gen.GaussCorr.clipHi := by
  simp [Gen.GaussCorr.clipLo, Gen.GaussCorr.clipHi, Gen.GaussCorr.epsilon]; norm_num

theorem clip_mem {lo hi : ℝ} (h : lo ≤ hi) (x : ℝ) : lo ≤ clip lo hi x ∧ clip lo hi x ≤ hi := by
  unfold clip
  split_ifs with h1 h2
  · exact ⟨le_refl _, h⟩
  · exact ⟨h, le_refl _⟩
  · exact ⟨not_lt.1 h1, not_lt.1 h2⟩

/-- score column `i`: `norm.ppf(cdf_i(column_i).clip(EPSILON, 1 - EPSILON))`. -/
noncomputable def scoreCol (ppf : ℝ → ℝ) (cdfs : List (ℝ → ℝ)) (X : List (List ℝ)) (i : ℕ) : List ℝ :=
  (X.getD i []).map fun x =>
    ppf (clip Gen.GaussCorr.clipLo Gen.GaussCorr.clipHi (cdfs.getD i id x))

theorem transformToNormal_length (ppf : ℝ → ℝ) (cdfs : List (ℝ → ℝ)) (X : List (List ℝ))
    (hF : cdfs.length = X.length) : (transformToNormal ppf cdfs X).length = X.length := by
  simp [transformToNormal, hF]

theorem transformToNormal_getD (ppf : ℝ → ℝ) (cdfs : List (ℝ → ℝ)) (X : List (List ℝ))
    (hF : cdfs.length = X.length) {i : ℕ} (hi : i < X.length) :
    (transformToNormal ppf cdfs X).getD i [] = scoreCol ppf cdfs X i := by
  have hi' : i < cdfs.length := hF ▸ hi
  simp [transformToNormal, scoreCol, List.getD_eq_getElem?_getD, hi, hi']

theorem transformToNormal_rect (ppf : ℝ → ℝ) (cdfs : List (ℝ → ℝ)) {X : List (List ℝ)} {n : ℕ}
    (hX : Rect X n) : Rect (transformToNormal ppf cdfs X) n := by
  intro c hc
  simp only [transformToNormal, List.mem_map] at hc
  obtain ⟨⟨F, col⟩, hmem, rfl⟩ := hc
  simpa using hX col (List.of_mem_zip hmem).2

/-- list form of constancy. -/
theorem isConst_vec_iff {xs : List ℝ} (hx : xs.length = n) :
    IsConst (vec n xs) ↔ ∀ a ∈ xs, ∀ b ∈ xs, a = b := by
  subst hx
  have hv : ∀ r : Fin xs.length, vec xs.length xs r = xs[r.1] := by
    intro r; simp [vec, List.getD_eq_getElem?_getD]
  constructor
  · intro h a ha b hb
    obtain ⟨p, hp, rfl⟩ := List.mem_iff_getElem.1 ha
    obtain ⟨q, hq, rfl⟩ := List.mem_iff_getElem.1 hb
    simpa [hv] using h ⟨p, hp⟩ ⟨q, hq⟩
  · intro h r s
    rw [hv, hv]; exact h _ (List.getElem_mem _) _ (List.getElem_mem _)
end CopVerif.Pearson
