import Mathlib.MeasureTheory.Integral.IntervalIntegral.FundThmCalculus
import Mathlib.Analysis.MeanInequalitiesPow
import CopVerif.Real.GumbelDeriv
/-! Gumbel copula over ℝ, all `θ ≥ 1`: the Rosenblatt identity `∫ h(u,t) dt = C(u,·)` (proper on
`[a,b] ⊂ (0,1]`, improper and proper at the singular edge `0`), monotonicity of `h` in `u`, the
rectangle inequality (2-increasing) on `(0,1]²`, the Fréchet–Hoeffding lower bound and the
concordance ordering in `θ`.

Totalisation caveats.  `Real.log 0 = 0` makes the *formula* `C θ u 0` evaluate to `u`, not `0`;
no statement below evaluates `C` or `h` at `0` (the proper integral `∫₀ᵛ` only sees the integrand
on the null set `{0}`), and the edge is handled by the limit `tendsto_C_right_zero`.  At `t = 1`
the formula `h θ u 1` is `0` for `θ > 1` and `u` for `θ = 1`; the integral identities reach the
endpoint `b = 1` without using the value of `h` there. -/
namespace CopVerif.Gumbel
open CopVerif Real Filter Set MeasureTheory
open scoped Topology

/-! ### the derivative lemmas extended to `θ = 1` -/

/-- At `θ = 1` the general conditional-CDF formula is `u` on the whole open quadrant. -/
theorem h_theta_one_of_pos {u v : ℝ} (hu : 0 < u) (hv : 0 < v) : h 1 u v = u := by
  simp only [h, C_theta_one hu hv]
  norm_num
  field_simp

/-- `∂C/∂v = h` on the open unit square for every `θ ≥ 1`. -/
theorem hasDerivAt_C_right_ge_one {θ u v : ℝ} (hθ : 1 ≤ θ) (hu : 0 < u) (hu1 : u < 1)
    (hv : 0 < v) (hv1 : v < 1) : HasDerivAt (fun v => C θ u v) (h θ u v) v := by
  rcases hθ.eq_or_lt with rfl | hlt
  · rw [h_theta_one_of_pos hu hv]
    have : HasDerivAt (fun v => u * v) u v := by simpa using (hasDerivAt_id v).const_mul u
    refine this.congr_of_eventuallyEq ?_
    filter_upwards [lt_mem_nhds hv] with w hw
    exact C_theta_one hu hw
  · exact hasDerivAt_C_right hlt hu hu1 hv hv1

/-- `∂h/∂u = c` on the open unit square for every `θ ≥ 1`. -/
theorem hasDerivAt_h_left_ge_one {θ u v : ℝ} (hθ : 1 ≤ θ) (hu : 0 < u) (hu1 : u < 1)
    (hv : 0 < v) (hv1 : v < 1) : HasDerivAt (fun u => h θ u v) (c θ u v) u := by
  rcases hθ.eq_or_lt with rfl | hlt
  · rw [c_theta_one hu hu1 hv hv1]
    refine (hasDerivAt_id u).congr_of_eventuallyEq ?_
    filter_upwards [lt_mem_nhds hu] with w hw
    exact h_theta_one_of_pos hw hv
  · exact hasDerivAt_h_left hlt hu hu1 hv hv1

/-! ### monotonicity of `h` in `u` -/

/-- `h(·, v)` is strictly increasing on `(0,1)` for `v ∈ (0,1)` (positive density): the conditional
inverse is unique. -/
theorem h_strictMonoOn {θ v : ℝ} (hθ : 1 ≤ θ) (hv : 0 < v) (hv1 : v < 1) :
    StrictMonoOn (fun u => h θ u v) (Ioo 0 1) := by
  apply strictMonoOn_of_deriv_pos (convex_Ioo 0 1)
  · exact fun u hu => (hasDerivAt_h_left_ge_one hθ hu.1 hu.2 hv hv1).continuousAt.continuousWithinAt
  · intro u hu
    rw [interior_Ioo] at hu
    rw [(hasDerivAt_h_left_ge_one hθ hu.1 hu.2 hv hv1).deriv]
    exact c_pos hθ hu.1 hu.2 hv hv1

theorem h_mono {θ u u' v : ℝ} (hθ : 1 ≤ θ) (hu : 0 < u) (huu : u ≤ u') (hu1 : u' < 1)
    (hv : 0 < v) (hv1 : v < 1) : h θ u v ≤ h θ u' v :=
  (h_strictMonoOn hθ hv hv1).monotoneOn ⟨hu, lt_of_le_of_lt huu hu1⟩ ⟨lt_of_lt_of_le hu huu, hu1⟩
    huu

example : h 2 (1 / 3) (1 / 2) ≤ h 2 (1 / 2) (1 / 2) :=
  h_mono (by norm_num) (by norm_num) (by norm_num) (by norm_num) (by norm_num) (by norm_num)

/-- Push-forward through the conditional inverse (which for Gumbel has no closed form and is found
by root-finding): if `u₀ ∈ (0,1)` solves `h(u₀, t) = y`, then `{u₀ ≤ u}` is the event
`{y ≤ h(u,t)}`. -/
theorem root_le_iff {θ y t u₀ u : ℝ} (hθ : 1 ≤ θ) (ht : 0 < t) (ht1 : t < 1) (hu₀ : 0 < u₀)
    (hu₀1 : u₀ < 1) (hu : 0 < u) (hu1 : u < 1) (hroot : h θ u₀ t = y) :
    u₀ ≤ u ↔ y ≤ h θ u t := by
  rw [← hroot]
  exact ((h_strictMonoOn hθ ht ht1).le_iff_le ⟨hu₀, hu₀1⟩ ⟨hu, hu1⟩).symm

example : (1 / 3 : ℝ) ≤ 1 / 2 ↔ h 2 (1 / 3) (1 / 2) ≤ h 2 (1 / 2) (1 / 2) :=
  root_le_iff (by norm_num) (by norm_num) (by norm_num) (by norm_num) (by norm_num) (by norm_num)
    (by norm_num) rfl

/-! ### the fundamental theorem of calculus for `h(u,·)` -/

/-- `C(u,·)` is continuous on `(0,∞)`, in particular at the endpoint `t = 1` of the unit interval
(`x ↦ x^p` is continuous everywhere for `p ≥ 0`). -/
theorem continuousOn_C_right {θ : ℝ} (hθ : 0 ≤ θ) (u : ℝ) :
    ContinuousOn (fun t => C θ u t) (Ioi 0) := by
  unfold C S
  have hlog : ContinuousOn (fun t : ℝ => -Real.log t) (Ioi 0) :=
    (Real.continuousOn_log.mono (fun t ht => ne_of_gt ht)).neg
  have h1 : ContinuousOn (fun t : ℝ => (-Real.log t) ^ θ) (Ioi 0) :=
    hlog.rpow_const (fun _ _ => Or.inr hθ)
  have h2 : ContinuousOn (fun t : ℝ => ((-Real.log u) ^ θ + (-Real.log t) ^ θ) ^ (1 / θ))
      (Ioi 0) :=
    (continuousOn_const.add h1).rpow_const (fun _ _ => Or.inr (one_div_nonneg.mpr hθ))
  exact Real.continuous_exp.comp_continuousOn h2.neg

/-- `h(u,·)` is interval-integrable between any two points of `(0,1]` (it is the nonnegative
derivative of the continuous function `C(u,·)`). -/
theorem intervalIntegrable_h {θ u a b : ℝ} (hθ : 1 ≤ θ) (hu : 0 < u) (hu1 : u < 1) (ha : 0 < a)
    (ha1 : a ≤ 1) (hb : 0 < b) (hb1 : b ≤ 1) :
    IntervalIntegrable (fun t => h θ u t) volume a b := by
  have hsub : uIcc a b ⊆ Ioi 0 := fun t ht => lt_of_lt_of_le (lt_min ha hb) ht.1
  have hIoo : ∀ t ∈ Ioo (min a b) (max a b), 0 < t ∧ t < 1 := fun t ht =>
    ⟨lt_trans (lt_min ha hb) ht.1, lt_of_lt_of_le ht.2 (max_le ha1 hb1)⟩
  apply intervalIntegral.intervalIntegrable_deriv_of_nonneg (g := fun t => C θ u t)
  · exact (continuousOn_C_right (by linarith) u).mono hsub
  · exact fun t ht => hasDerivAt_C_right_ge_one hθ hu hu1 (hIoo t ht).1 (hIoo t ht).2
  · exact fun t ht => h_nonneg hθ hu hu1.le (hIoo t ht).1 (hIoo t ht).2.le

theorem integral_h_sub_of_le {θ u a b : ℝ} (hθ : 1 ≤ θ) (hu : 0 < u) (hu1 : u < 1) (ha : 0 < a)
    (hab : a ≤ b) (hb1 : b ≤ 1) : ∫ t in a..b, h θ u t = C θ u b - C θ u a :=
  intervalIntegral.integral_eq_sub_of_hasDerivAt_of_le hab
    ((continuousOn_C_right (by linarith) u).mono (fun t ht => lt_of_lt_of_le ha ht.1))
    (fun t ht => hasDerivAt_C_right_ge_one hθ hu hu1 (ha.trans ht.1) (lt_of_lt_of_le ht.2 hb1))
    (intervalIntegrable_h hθ hu hu1 ha (hab.trans hb1) (ha.trans_le hab) hb1)

/-- Fundamental theorem of calculus for `h(u,·)` between arbitrary limits in `(0,1]` (the closed
endpoint `1` included), `u ∈ (0,1)`, `θ ≥ 1`: `∫ₐᵇ h(u,t) dt = C(u,b) − C(u,a)`. -/
theorem integral_h_sub {θ u a b : ℝ} (hθ : 1 ≤ θ) (hu : 0 < u) (hu1 : u < 1) (ha : 0 < a)
    (ha1 : a ≤ 1) (hb : 0 < b) (hb1 : b ≤ 1) :
    ∫ t in a..b, h θ u t = C θ u b - C θ u a := by
  rcases le_total a b with hab | hab
  · exact integral_h_sub_of_le hθ hu hu1 ha hab hb1
  · rw [intervalIntegral.integral_symm, integral_h_sub_of_le hθ hu hu1 hb hab ha1]
    ring

example : ∫ t in (1 / 3 : ℝ)..1, h 2 (1 / 2) t = C 2 (1 / 2) 1 - C 2 (1 / 2) (1 / 3) :=
  integral_h_sub (by norm_num) (by norm_num) (by norm_num) (by norm_num) (by norm_num)
    (by norm_num) (by norm_num)

/-! ### the singular edge `t → 0⁺` -/

/-- `C(u,δ) → 0` as `δ → 0⁺` (squeeze with the Fréchet upper bound `C ≤ min u δ`). -/
theorem tendsto_C_right_zero {θ u : ℝ} (hθ : 1 ≤ θ) (hu : 0 < u) (hu1 : u ≤ 1) :
    Tendsto (fun δ => C θ u δ) (𝓝[>] 0) (𝓝 0) := by
  have h0 : Tendsto (fun δ : ℝ => δ) (𝓝[>] 0) (𝓝 0) :=
    tendsto_nhdsWithin_of_tendsto_nhds tendsto_id
  refine tendsto_of_tendsto_of_tendsto_of_le_of_le' tendsto_const_nhds h0 ?_ ?_
  · exact Eventually.of_forall fun δ => (Real.exp_pos _).le
  · filter_upwards [Ioc_mem_nhdsGT (zero_lt_one' ℝ)] with δ hδ
    exact (C_le_min hθ hu hu1 hδ.1 hδ.2).trans (min_le_right _ _)

/-- Rosenblatt identity, improper form: `lim_{δ→0⁺} ∫_δ^v h(u,t) dt = C(u,v)` for `u ∈ (0,1)`,
`v ∈ (0,1]`. -/
theorem tendsto_integral_h {θ u v : ℝ} (hθ : 1 ≤ θ) (hu : 0 < u) (hu1 : u < 1) (hv : 0 < v)
    (hv1 : v ≤ 1) : Tendsto (fun δ => ∫ t in δ..v, h θ u t) (𝓝[>] 0) (𝓝 (C θ u v)) := by
  have h1 : Tendsto (fun δ => C θ u v - C θ u δ) (𝓝[>] 0) (𝓝 (C θ u v - 0)) :=
    tendsto_const_nhds.sub (tendsto_C_right_zero hθ hu hu1.le)
  rw [sub_zero] at h1
  refine h1.congr' ?_
  filter_upwards [Ioc_mem_nhdsGT (zero_lt_one' ℝ)] with δ hδ
  exact (integral_h_sub hθ hu hu1 hδ.1 hδ.2 hv hv1).symm

example : Tendsto (fun δ => ∫ t in δ..(1 / 3 : ℝ), h 2 (1 / 2) t) (𝓝[>] 0)
    (𝓝 (C 2 (1 / 2) (1 / 3))) :=
  tendsto_integral_h (by norm_num) (by norm_num) (by norm_num) (by norm_num) (by norm_num)

/-- Rosenblatt identity, proper form: `h(u,·)` is interval-integrable down to the singular edge and
`∫₀ᵛ h(u,t) dt = C(u,v)` for `u ∈ (0,1)`, `v ∈ (0,1]`.  (The antiderivative used is `C(u,·)` with
its value at `0` replaced by the limit `0`; the integrand at the single point `t = 0` is
irrelevant.) -/
theorem integral_h {θ u v : ℝ} (hθ : 1 ≤ θ) (hu : 0 < u) (hu1 : u < 1) (hv : 0 < v)
    (hv1 : v ≤ 1) :
    IntervalIntegrable (fun t => h θ u t) volume 0 v ∧ ∫ t in (0 : ℝ)..v, h θ u t = C θ u v := by
  set g : ℝ → ℝ := Function.update (fun t => C θ u t) 0 0 with hg
  have hg0 : g 0 = 0 := by simp [hg]
  have hgpos : ∀ t : ℝ, 0 < t → g t = C θ u t := fun t ht => by
    simp [hg, Function.update_of_ne ht.ne']
  have hev : ∀ t : ℝ, 0 < t → g =ᶠ[𝓝 t] fun t => C θ u t := fun t ht => by
    filter_upwards [lt_mem_nhds ht] with w hw using hgpos w hw
  have hcont : ContinuousOn g (Icc 0 v) := by
    intro t ht
    rcases ht.1.eq_or_lt with rfl | ht0
    · apply ContinuousWithinAt.mono _ Icc_subset_Ici_self
      rw [← continuousWithinAt_Ioi_iff_Ici]
      show Tendsto g (𝓝[>] 0) (𝓝 (g 0))
      rw [hg0]
      refine (tendsto_C_right_zero hθ hu hu1.le).congr' ?_
      filter_upwards [self_mem_nhdsWithin] with w hw using (hgpos w hw).symm
    · have : ContinuousAt (fun t => C θ u t) t :=
        (continuousOn_C_right (by linarith) u).continuousAt (Ioi_mem_nhds ht0)
      exact (this.congr (hev t ht0).symm).continuousWithinAt
  have hderiv : ∀ t ∈ Ioo 0 v, HasDerivAt g (h θ u t) t := fun t ht =>
    (hasDerivAt_C_right_ge_one hθ hu hu1 ht.1 (lt_of_lt_of_le ht.2 hv1)).congr_of_eventuallyEq
      (hev t ht.1)
  have hint : IntervalIntegrable (fun t => h θ u t) volume 0 v := by
    apply intervalIntegral.intervalIntegrable_deriv_of_nonneg (g := g)
    · rwa [uIcc_of_le hv.le]
    · rwa [min_eq_left hv.le, max_eq_right hv.le]
    · rw [min_eq_left hv.le, max_eq_right hv.le]
      intro t ht
      exact h_nonneg hθ hu hu1.le ht.1 (ht.2.le.trans hv1)
  refine ⟨hint, ?_⟩
  rw [intervalIntegral.integral_eq_sub_of_hasDerivAt_of_le hv.le hcont hderiv hint, hg0,
    hgpos v hv, sub_zero]

example : ∫ t in (0 : ℝ)..1, h 2 (1 / 2) t = C 2 (1 / 2) 1 :=
  (integral_h (by norm_num) (by norm_num) (by norm_num) (by norm_num) (by norm_num)).2

/-! ### 2-increasing and the Fréchet–Hoeffding lower bound -/

/-- `C(u,v') − C(u,v) ≤ v' − v` (the conditional CDF is at most one). -/
theorem C_sub_le {θ u v v' : ℝ} (hθ : 1 ≤ θ) (hu : 0 < u) (hu1 : u < 1) (hv : 0 < v)
    (hvv : v ≤ v') (hv1 : v' ≤ 1) : C θ u v' - C θ u v ≤ v' - v := by
  have hv' : 0 < v' := hv.trans_le hvv
  have key : ∫ t in v..v', h θ u t ≤ ∫ _t in v..v', (1 : ℝ) :=
    intervalIntegral.integral_mono_on_of_le_Ioo hvv
      (intervalIntegrable_h hθ hu hu1 hv (hvv.trans hv1) hv' hv1) intervalIntegrable_const
      (fun t ht => h_le_one hθ hu hu1 (hv.trans ht.1) (lt_of_lt_of_le ht.2 hv1))
  rw [integral_h_sub_of_le hθ hu hu1 hv hvv hv1, intervalIntegral.integral_const, smul_eq_mul,
    mul_one] at key
  exact key

/-- Rectangle inequality on `(0,1]²`, every `θ ≥ 1`: every rectangle `[u,u'] × [v,v'] ⊆ (0,1]²` has
nonnegative `C`-volume. -/
theorem C_two_increasing {θ u u' v v' : ℝ} (hθ : 1 ≤ θ) (hu : 0 < u) (huu : u ≤ u')
    (hu1 : u' ≤ 1) (hv : 0 < v) (hvv : v ≤ v') (hv1 : v' ≤ 1) :
    0 ≤ C θ u' v' - C θ u' v - C θ u v' + C θ u v := by
  have hv' : 0 < v' := hv.trans_le hvv
  have hva1 : v ≤ 1 := hvv.trans hv1
  rcases hu1.eq_or_lt with rfl | hu'1
  · -- right edge `u' = 1`
    rw [C_one_left hθ hv' hv1, C_one_left hθ hv hva1]
    rcases huu.eq_or_lt with rfl | hu1'
    · rw [C_one_left hθ hv' hv1, C_one_left hθ hv hva1]; linarith
    · have := C_sub_le hθ hu hu1' hv hvv hv1
      linarith
  · have hu' : 0 < u' := hu.trans_le huu
    have hu1' : u < 1 := lt_of_le_of_lt huu hu'1
    have key : ∫ t in v..v', h θ u t ≤ ∫ t in v..v', h θ u' t :=
      intervalIntegral.integral_mono_on_of_le_Ioo hvv
        (intervalIntegrable_h hθ hu hu1' hv hva1 hv' hv1)
        (intervalIntegrable_h hθ hu' hu'1 hv hva1 hv' hv1)
        (fun t ht => h_mono hθ hu huu hu'1 (hv.trans ht.1) (lt_of_lt_of_le ht.2 hv1))
    rw [integral_h_sub_of_le hθ hu hu1' hv hvv hv1,
      integral_h_sub_of_le hθ hu' hu'1 hv hvv hv1] at key
    linarith

example : 0 ≤ C 2 1 1 - C 2 1 (1 / 3) - C 2 (1 / 2) 1 + C 2 (1 / 2) (1 / 3) :=
  C_two_increasing (by norm_num) (by norm_num) (by norm_num) (by norm_num) (by norm_num)
    (by norm_num) (by norm_num)

/-- Fréchet–Hoeffding lower bound `W(u,v) = max(u+v-1, 0) ≤ C(u,v)` on `(0,1]²`. -/
theorem max_le_C {θ u v : ℝ} (hθ : 1 ≤ θ) (hu : 0 < u) (hu1 : u ≤ 1) (hv : 0 < v) (hv1 : v ≤ 1) :
    max (u + v - 1) 0 ≤ C θ u v := by
  apply max_le _ (C_pos hθ hu hu1 hv hv1).le
  have := C_two_increasing hθ hu hu1 le_rfl hv hv1 le_rfl
  rw [C_one_left hθ one_pos le_rfl, C_one_left hθ hv hv1, C_one_right hθ hu hu1] at this
  linarith

example : max ((0.3 : ℝ) + 0.9 - 1) 0 ≤ C 2 0.3 0.9 :=
  max_le_C (by norm_num) (by norm_num) (by norm_num) (by norm_num) (by norm_num)

/-! ### concordance ordering in `θ` -/

/-- The Gumbel family is positively ordered: `θ₁ ≤ θ₂ → C_{θ₁} ≤ C_{θ₂}` pointwise on `(0,1]²`
(the `ℓ^θ` norm of `(-log u, -log v)` is non-increasing in `θ`).  Stated for `0 < θ₁`, which
contains the family's parameter range `1 ≤ θ₁`. -/
theorem C_le_C_of_theta_le {θ₁ θ₂ u v : ℝ} (h1 : 0 < θ₁) (h12 : θ₁ ≤ θ₂) (hu : 0 < u)
    (hu1 : u ≤ 1) (hv : 0 < v) (hv1 : v ≤ 1) : C θ₁ u v ≤ C θ₂ u v := by
  have hx := neg_log_nonneg hu hu1
  have hy := neg_log_nonneg hv hv1
  obtain ⟨x, hx'⟩ : ∃ x : NNReal, (x : ℝ) = -Real.log u := ⟨⟨_, hx⟩, rfl⟩
  obtain ⟨y, hy'⟩ : ∃ y : NNReal, (y : ℝ) = -Real.log v := ⟨⟨_, hy⟩, rfl⟩
  have key' : ((-Real.log u) ^ θ₂ + (-Real.log v) ^ θ₂) ^ (1 / θ₂)
      ≤ ((-Real.log u) ^ θ₁ + (-Real.log v) ^ θ₁) ^ (1 / θ₁) := by
    rw [← hx', ← hy']
    exact_mod_cast NNReal.rpow_add_rpow_le x y h1 h12
  simp only [C, S]
  exact Real.exp_le_exp.mpr (neg_le_neg key')

example : C 1 (1 / 2) (1 / 3) ≤ C 2 (1 / 2) (1 / 3) :=
  C_le_C_of_theta_le (by norm_num) (by norm_num) (by norm_num) (by norm_num) (by norm_num)
    (by norm_num)

end CopVerif.Gumbel
