import Mathlib.MeasureTheory.Integral.IntervalIntegral.FundThmCalculus
import CopVerif.Real.RosenblattClayton
/-! Clayton copula over ℝ: the density integrates over every rectangle of the closed unit square
(more generally `[u₁,u₂] ⊆ [0,1]`, `[v₁,v₂] ⊆ [0,∞)`) to the `C`-volume of that rectangle, as an
iterated interval integral.

Totalisation caveats.  At `s = 0` / `t = 0` the formulas `c θ s t`, `h θ s t` are evaluated with
`0 ^ negative = 0`; these values sit on null sets and never enter a proof: the inner antiderivative
is `h` *extended by its limit* `0` at `u = 0` (`h0`), and on the `C` side the code's own boundary
branch `C θ 0 v = C θ u 0 = 0` is what appears. -/
namespace CopVerif.Clayton
open CopVerif Real Filter Set MeasureTheory
open scoped Topology

/-! ### inner integral -/

/-- Inner integral away from the singular edge: `∫_{u₁}^{u₂} c(s,t) ds = h(u₂,t) − h(u₁,t)` for
`u₁, u₂ ∈ (0,1]` (either order), `t > 0`; the density is interval-integrable there. -/
theorem integral_c_left_of_pos {θ u₁ u₂ t : ℝ} (hθ : 0 < θ) (h1 : 0 < u₁) (h1' : u₁ ≤ 1)
    (h2 : 0 < u₂) (h2' : u₂ ≤ 1) (ht : 0 < t) :
    IntervalIntegrable (fun s => c θ s t) volume u₁ u₂ ∧
      ∫ s in u₁..u₂, c θ s t = h θ u₂ t - h θ u₁ t := by
  have hsub : uIcc u₁ u₂ ⊆ Ioc 0 1 := fun s hs =>
    ⟨lt_of_lt_of_le (lt_min h1 h2) hs.1, hs.2.trans (max_le h1' h2')⟩
  have hd : ∀ s ∈ uIcc u₁ u₂, HasDerivAt (fun s => h θ s t) (c θ s t) s := fun s hs =>
    hasDerivAt_h_left_of_pos hθ (hsub hs).1 ht
      (S_pos_of_le_one_left hθ (hsub hs).1 (hsub hs).2 ht)
  have hint : IntervalIntegrable (fun s => c θ s t) volume u₁ u₂ := by
    apply intervalIntegral.intervalIntegrable_deriv_of_nonneg (g := fun s => h θ s t)
    · exact fun s hs => (hd s hs).continuousAt.continuousWithinAt
    · exact fun s hs => hd s (Ioo_subset_Icc_self hs)
    · intro s hs
      have := hsub (Ioo_subset_Icc_self hs)
      exact (c_pos_of_pos hθ this.1 ht (S_pos_of_le_one_left hθ this.1 this.2 ht)).le
  exact ⟨hint, intervalIntegral.integral_eq_sub_of_hasDerivAt hd hint⟩

/-- The conditional CDF `h(·,t)` extended to the edge `u = 0` by its limit `0`
(`h_tendsto_zero`); for `u > 0` it is `h`. -/
noncomputable def h0 (θ u t : ℝ) : ℝ := if 0 < u then h θ u t else 0

theorem h0_of_pos {θ u : ℝ} (hu : 0 < u) (t : ℝ) : h0 θ u t = h θ u t := by simp [h0, hu]

@[simp] theorem h0_zero (θ t : ℝ) : h0 θ 0 t = 0 := by simp [h0]

/-- For `u ∈ (0,1]`, `t > 0`: `∂h0/∂u = c` (two-sided derivative). -/
theorem hasDerivAt_h0_left {θ u t : ℝ} (hθ : 0 < θ) (hu : 0 < u) (hu1 : u ≤ 1) (ht : 0 < t) :
    HasDerivAt (fun s => h0 θ s t) (c θ u t) u := by
  refine (hasDerivAt_h_left_of_pos hθ hu ht (S_pos_of_le_one_left hθ hu hu1 ht)).congr_of_eventuallyEq
    ?_
  filter_upwards [lt_mem_nhds hu] with w hw using h0_of_pos hw t

/-- `h0(·,t)` is continuous on `[0,1]` for `t > 0` (at `0` by `h_tendsto_zero`). -/
theorem continuousOn_h0_left {θ t : ℝ} (hθ : 0 < θ) (ht : 0 < t) :
    ContinuousOn (fun s => h0 θ s t) (Icc 0 1) := by
  intro s hs
  rcases hs.1.eq_or_lt with rfl | hs0
  · apply ContinuousWithinAt.mono _ Icc_subset_Ici_self
    rw [← continuousWithinAt_Ioi_iff_Ici]
    show Tendsto (fun s => h0 θ s t) (𝓝[>] 0) (𝓝 (h0 θ 0 t))
    rw [h0_zero]
    refine (h_tendsto_zero hθ ht).congr' ?_
    filter_upwards [self_mem_nhdsWithin] with w hw using (h0_of_pos hw t).symm
  · exact (hasDerivAt_h0_left hθ hs0 hs.2 ht).continuousAt.continuousWithinAt

/-- Inner integral on the closed interval: for `u₁, u₂ ∈ [0,1]` (either order, the singular edge `0`
included) and `t > 0` the density `c(·,t)` is interval-integrable and
`∫_{u₁}^{u₂} c(s,t) ds = h0(u₂,t) − h0(u₁,t)`. -/
theorem integral_c_left {θ u₁ u₂ t : ℝ} (hθ : 0 < θ) (h1 : 0 ≤ u₁) (h1' : u₁ ≤ 1)
    (h2 : 0 ≤ u₂) (h2' : u₂ ≤ 1) (ht : 0 < t) :
    IntervalIntegrable (fun s => c θ s t) volume u₁ u₂ ∧
      ∫ s in u₁..u₂, c θ s t = h0 θ u₂ t - h0 θ u₁ t := by
  have hsub : uIcc u₁ u₂ ⊆ Icc 0 1 := uIcc_subset_Icc ⟨h1, h1'⟩ ⟨h2, h2'⟩
  have hIoo : ∀ s ∈ Ioo (min u₁ u₂) (max u₁ u₂), 0 < s ∧ s ≤ 1 := fun s hs =>
    ⟨lt_of_le_of_lt (le_min h1 h2) hs.1, hs.2.le.trans (max_le h1' h2')⟩
  have hcont : ContinuousOn (fun s => h0 θ s t) (uIcc u₁ u₂) :=
    (continuousOn_h0_left hθ ht).mono hsub
  have hd : ∀ s ∈ Ioo (min u₁ u₂) (max u₁ u₂), HasDerivAt (fun s => h0 θ s t) (c θ s t) s :=
    fun s hs => hasDerivAt_h0_left hθ (hIoo s hs).1 (hIoo s hs).2 ht
  have hint : IntervalIntegrable (fun s => c θ s t) volume u₁ u₂ := by
    apply intervalIntegral.intervalIntegrable_deriv_of_nonneg (g := fun s => h0 θ s t) hcont hd
    intro s hs
    exact (c_pos_of_pos hθ (hIoo s hs).1 ht
      (S_pos_of_le_one_left hθ (hIoo s hs).1 (hIoo s hs).2 ht)).le
  exact ⟨hint, intervalIntegral.integral_eq_sub_of_hasDeriv_right hcont
    (fun s hs => (hd s hs).hasDerivWithinAt) hint⟩

/-! ### outer integral -/

/-- `h0(u,·)` is interval-integrable between nonnegative limits and integrates to the increment of
`C(u,·)`, for every `u ∈ [0,1]` (for `u = 0` both sides vanish by the boundary branch of `C`). -/
theorem integral_h0_sub {θ u a b : ℝ} (hθ : 0 < θ) (hu : 0 ≤ u) (hu1 : u ≤ 1) (ha : 0 ≤ a)
    (hb : 0 ≤ b) :
    IntervalIntegrable (fun t => h0 θ u t) volume a b ∧
      ∫ t in a..b, h0 θ u t = C θ u b - C θ u a := by
  rcases hu.eq_or_lt with rfl | hu0
  · simp [C_zero_left]
  · have e : (fun t => h0 θ u t) = fun t => h θ u t := funext fun t => h0_of_pos hu0 t
    rw [e]
    obtain ⟨ia, ea⟩ := integral_h hθ hu0 hu1 ha
    obtain ⟨ib, eb⟩ := integral_h hθ hu0 hu1 hb
    refine ⟨ia.symm.trans ib, ?_⟩
    rw [← intervalIntegral.integral_interval_sub_left ib ia, ea, eb]

/-! ### the rectangle -/

/-- **The density integrates over a rectangle to the rectangle's `C`-volume.**  `θ > 0`,
`u₁, u₂ ∈ [0,1]`, `v₁, v₂ ≥ 0` (in particular every sub-rectangle of the closed unit square, the
singular edges `u = 0`, `v = 0` included; limits in either order). -/
theorem integral_c_rect {θ u₁ u₂ v₁ v₂ : ℝ} (hθ : 0 < θ) (h1 : 0 ≤ u₁) (h1' : u₁ ≤ 1)
    (h2 : 0 ≤ u₂) (h2' : u₂ ≤ 1) (hv₁ : 0 ≤ v₁) (hv₂ : 0 ≤ v₂) :
    ∫ t in v₁..v₂, (∫ s in u₁..u₂, c θ s t)
      = C θ u₂ v₂ - C θ u₂ v₁ - C θ u₁ v₂ + C θ u₁ v₁ := by
  have hin : ∫ t in v₁..v₂, (∫ s in u₁..u₂, c θ s t)
      = ∫ t in v₁..v₂, (h0 θ u₂ t - h0 θ u₁ t) := by
    apply intervalIntegral.integral_congr_ae
    refine Eventually.of_forall fun t ht => ?_
    have ht0 : 0 < t := lt_of_le_of_lt (le_min hv₁ hv₂) ht.1
    exact (integral_c_left hθ h1 h1' h2 h2' ht0).2
  obtain ⟨i2, e2⟩ := integral_h0_sub hθ h2 h2' hv₁ hv₂
  obtain ⟨i1, e1⟩ := integral_h0_sub hθ h1 h1' hv₁ hv₂
  rw [hin, intervalIntegral.integral_sub i2 i1, e2, e1]
  ring

/-- Non-vacuity: a rectangle touching the singular edges `u = 0` and `v = 0`. -/
example : ∫ t in (0 : ℝ)..(2 / 3), (∫ s in (0 : ℝ)..(1 / 2), c 2 s t)
    = C 2 (1 / 2) (2 / 3) - C 2 (1 / 2) 0 - C 2 0 (2 / 3) + C 2 0 0 :=
  integral_c_rect (by norm_num) (by norm_num) (by norm_num) (by norm_num) (by norm_num)
    (by norm_num) (by norm_num)

/-- The classical open-rectangle form, with the closed-form `h` nowhere evaluated at an edge:
`0 < u₁ ≤ u₂ ≤ 1`, `0 < v₁ ≤ v₂ ≤ 1`. -/
theorem integral_c_rect_of_pos {θ u₁ u₂ v₁ v₂ : ℝ} (hθ : 0 < θ) (h1 : 0 < u₁) (h12 : u₁ ≤ u₂)
    (h2' : u₂ ≤ 1) (hv₁ : 0 < v₁) (hv12 : v₁ ≤ v₂) (_hv₂ : v₂ ≤ 1) :
    ∫ t in v₁..v₂, (∫ s in u₁..u₂, c θ s t)
      = C θ u₂ v₂ - C θ u₂ v₁ - C θ u₁ v₂ + C θ u₁ v₁ :=
  integral_c_rect hθ h1.le (h12.trans h2') (h1.le.trans h12) h2' hv₁.le (hv₁.le.trans hv12)

example : ∫ t in (1 / 3 : ℝ)..(2 / 3), (∫ s in (1 / 4 : ℝ)..(1 / 2), c 2 s t)
    = C 2 (1 / 2) (2 / 3) - C 2 (1 / 2) (1 / 3) - C 2 (1 / 4) (2 / 3) + C 2 (1 / 4) (1 / 3) :=
  integral_c_rect_of_pos (by norm_num) (by norm_num) (by norm_num) (by norm_num) (by norm_num)
    (by norm_num) (by norm_num)

/-- The density has total mass one on the unit square (both singular edges included). -/
theorem integral_c_unit_square {θ : ℝ} (hθ : 0 < θ) :
    ∫ t in (0 : ℝ)..1, (∫ s in (0 : ℝ)..1, c θ s t) = 1 := by
  rw [integral_c_rect hθ le_rfl zero_le_one zero_le_one le_rfl le_rfl zero_le_one,
    C_one_right hθ one_pos, C_zero_right, C_zero_left, C_zero_left]
  ring

example : ∫ t in (0 : ℝ)..1, (∫ s in (0 : ℝ)..1, c 2 s t) = 1 :=
  integral_c_unit_square (by norm_num)

end CopVerif.Clayton
