import Mathlib.Probability.Distributions.Gaussian.Multivariate
import Mathlib.Probability.Distributions.Gaussian.HasGaussianLaw.Independence
import Mathlib.Probability.Distributions.Gaussian.HasGaussianLaw.Basic
import Mathlib.Probability.Distributions.Gaussian.CharFun
import Mathlib.Probability.Kernel.CondDistrib
import Mathlib.LinearAlgebra.Matrix.NonsingularInverse

/-!
  C12b: the classical conditional-law theorem for a partitioned multivariate normal vector, on top
  of Mathlib's `ProbabilityTheory.multivariateGaussian`.

  Setting: `Z : Ω → EuclideanSpace ℝ ι` with law `N(m, S)` (`S` positive semi-definite), two
  arbitrary coordinate selections `e1 : α → ι`, `e2 : β → ι` (`α`, `β` finite), `X₁ = pick e1 ∘ Z`,
  `X₂ = pick e2 ∘ Z`, `S₂₂ = S.submatrix e2 e2` invertible, `G = gain S e1 e2 = S₁₂ S₂₂⁻¹`,
  `Σ̄ = schur S e1 e2 = S₁₁ − S₁₂ S₂₂⁻¹ S₂₁`.

  * `map_mulE_multivariateGaussian`: the image of `N(m, S)` under `x ↦ M x` is `N(M m, M S Mᵀ)`
    (any rectangular `M`); `cov_mulE`: cross-covariances of two linear images;
  * `indepFun_mulE`: two linear images with `M₁ S M₂ᵀ = 0` are independent (Mathlib's
    `HasGaussianLaw.indepFun_of_covariance_inner`: jointly Gaussian + uncorrelated ⇒ independent);
  * `hasLaw_resid`, `indepFun_resid`: `R = X₁ − G X₂ ~ N(m₁ − G m₂, Σ̄)` and `R ⟂ X₂`;
  * `condKernel G c C : z ↦ N(G z + c, C)` as a Markov kernel; `map_pair_eq_compProd`: the
    disintegration of the joint law of `(X₂, X₁)`;
  * `map_pick_pair`, `measure_inter_pick`, `condDistrib_pick`, `map_sampling_scheme`: the
    conditional law `X₁ | X₂ = z ~ N(m₁ + G (z − m₂), Σ̄)` in kernel / integral / `condDistrib` /
    sampling-scheme form.
-/
set_option linter.unusedSectionVars false

open MeasureTheory ProbabilityTheory Matrix WithLp
open scoped RealInnerProductSpace MatrixOrder

namespace CopVerif.CondLaw

section mulE
variable {ι κ : Type*} [Fintype ι] [DecidableEq ι] [Fintype κ]

/-- a rectangular real matrix as a continuous linear map between Euclidean spaces. -/
noncomputable def mulE (M : Matrix κ ι ℝ) : EuclideanSpace ℝ ι →L[ℝ] EuclideanSpace ℝ κ :=
  LinearMap.toContinuousLinearMap (Matrix.toEuclideanLin M)

@[simp] theorem mulE_apply (M : Matrix κ ι ℝ) (x : EuclideanSpace ℝ ι) :
    mulE M x = toLp 2 (M *ᵥ ofLp x) := rfl

variable [DecidableEq κ]

theorem mulE_adjoint (M : Matrix κ ι ℝ) : (mulE M).adjoint = mulE Mᵀ := by
  unfold mulE
  rw [← LinearMap.adjoint_toContinuousLinearMap, ← Matrix.toEuclideanLin_conjTranspose_eq_adjoint]
  simp [Matrix.conjTranspose_eq_transpose_of_trivial]

/-- The image of `N(μ, S)` under `x ↦ M x` is `N(M μ, M S Mᵀ)`. -/
theorem map_mulE_multivariateGaussian (μ : EuclideanSpace ℝ ι) {S : Matrix ι ι ℝ} (hS : S.PosSemidef)
    (M : Matrix κ ι ℝ) :
    (multivariateGaussian μ S).map (mulE M) = multivariateGaussian (mulE M μ) (M * S * Mᵀ) := by
  have hS' : (M * S * Mᵀ).PosSemidef := by
    have := hS.mul_mul_conjTranspose_same M
    simpa using this
  apply IsGaussian.ext
  · simp only [id_eq, integral_id_multivariateGaussian]
    rw [ContinuousLinearMap.integral_id_map, integral_id_multivariateGaussian]
    exact IsGaussian.integrable_id
  · ext u v
    rw [covarianceBilin_map IsGaussian.memLp_two_id, covarianceBilin_multivariateGaussian hS,
      covarianceBilin_multivariateGaussian hS', mulE_adjoint]
    simp only [mulE_apply]
    rw [Matrix.dotProduct_mulVec, Matrix.vecMul_mulVec, ← Matrix.dotProduct_mulVec,
      Matrix.transpose_transpose, Matrix.mulVec_mulVec]

end mulE

section cov
variable {ι α β Ω : Type*} [Fintype ι] [DecidableEq ι] [Fintype α] [DecidableEq α] [Fintype β]
  [DecidableEq β] {mΩ : MeasurableSpace Ω} {P : Measure Ω} {Z : Ω → EuclideanSpace ℝ ι}
  {m : EuclideanSpace ℝ ι} {S : Matrix ι ι ℝ}

/-- cross-covariance of two linear images of a Gaussian vector. -/
theorem cov_mulE (hZ : HasLaw Z (multivariateGaussian m S) P) (hS : S.PosSemidef)
    (M1 : Matrix α ι ℝ) (M2 : Matrix β ι ℝ) (x : EuclideanSpace ℝ α) (y : EuclideanSpace ℝ β) :
    cov[fun ω => ⟪x, mulE M1 (Z ω)⟫, fun ω => ⟪y, mulE M2 (Z ω)⟫; P]
      = ofLp x ⬝ᵥ (M1 * S * M2ᵀ) *ᵥ ofLp y := by
  have h1 : (fun ω => ⟪x, mulE M1 (Z ω)⟫) = (fun z => ⟪(mulE M1).adjoint x, z⟫) ∘ Z := by
    ext ω; simp [ContinuousLinearMap.adjoint_inner_left]
  have h2 : (fun ω => ⟪y, mulE M2 (Z ω)⟫) = (fun z => ⟪(mulE M2).adjoint y, z⟫) ∘ Z := by
    ext ω; simp [ContinuousLinearMap.adjoint_inner_left]
  rw [h1, h2, ← covariance_map (by fun_prop) (by fun_prop) hZ.aemeasurable, hZ.map_eq,
    ← covarianceBilin_apply_eq_cov IsGaussian.memLp_two_id, covarianceBilin_multivariateGaussian hS,
    mulE_adjoint, mulE_adjoint]
  simp only [mulE_apply]
  rw [Matrix.dotProduct_mulVec, Matrix.vecMul_mulVec, ← Matrix.dotProduct_mulVec,
    Matrix.transpose_transpose, Matrix.mulVec_mulVec]

end cov


section partition
variable {ι α β Ω : Type*} [Fintype ι] [DecidableEq ι] [Fintype α] [DecidableEq α] [Fintype β]
  [DecidableEq β] {mΩ : MeasurableSpace Ω} {P : Measure Ω} {Z : Ω → EuclideanSpace ℝ ι}
  {m : EuclideanSpace ℝ ι} {S : Matrix ι ι ℝ}

/-- linear images of a Gaussian vector are Gaussian with the expected parameters. -/
theorem hasLaw_mulE (hZ : HasLaw Z (multivariateGaussian m S) P) (hS : S.PosSemidef)
    (M : Matrix α ι ℝ) :
    HasLaw (fun ω => mulE M (Z ω)) (multivariateGaussian (mulE M m) (M * S * Mᵀ)) P :=
  HasLaw.fun_comp ⟨by fun_prop, map_mulE_multivariateGaussian m hS M⟩ hZ

/-- two linear images of a Gaussian vector with vanishing cross-covariance are independent. -/
theorem indepFun_mulE (hZ : HasLaw Z (multivariateGaussian m S) P) (hS : S.PosSemidef)
    (M1 : Matrix α ι ℝ) (M2 : Matrix β ι ℝ) (h0 : M1 * S * M2ᵀ = 0) :
    IndepFun (fun ω => mulE M1 (Z ω)) (fun ω => mulE M2 (Z ω)) P := by
  have hG : HasGaussianLaw (fun ω => (mulE M1 (Z ω), mulE M2 (Z ω))) P :=
    hZ.hasGaussianLaw.map_fun ((mulE M1).prod (mulE M2))
  refine hG.indepFun_of_covariance_inner fun x y => ?_
  rw [cov_mulE hZ hS, h0]
  simp

/-- the 0/1 matrix selecting the coordinates `e a`. -/
def sel (e : α → ι) : Matrix α ι ℝ := (1 : Matrix ι ι ℝ).submatrix e id

theorem sel_mulVec (e : α → ι) (x : ι → ℝ) : sel e *ᵥ x = x ∘ e := by
  ext a
  simp [sel, Matrix.mulVec, dotProduct, Matrix.one_apply]

theorem sel_mul_mul (e1 : α → ι) (e2 : β → ι) (S : Matrix ι ι ℝ) :
    sel e1 * S * (sel e2)ᵀ = S.submatrix e1 e2 := by
  ext a b
  simp [sel, Matrix.mul_apply, Matrix.one_apply]

/-- coordinates `e a` of a vector, as a continuous linear map. -/
noncomputable def pick (e : α → ι) : EuclideanSpace ℝ ι →L[ℝ] EuclideanSpace ℝ α := mulE (sel e)

@[simp] theorem pick_apply (e : α → ι) (x : EuclideanSpace ℝ ι) (a : α) : pick e x a = x (e a) := by
  simp [pick, sel_mulVec]

/-- regression matrix `G = S₁₂ S₂₂⁻¹`. -/
noncomputable def gain (S : Matrix ι ι ℝ) (e1 : α → ι) (e2 : β → ι) : Matrix α β ℝ :=
  S.submatrix e1 e2 * (S.submatrix e2 e2)⁻¹

/-- Schur complement `S₁₁ − S₁₂ S₂₂⁻¹ S₂₁`. -/
noncomputable def schur (S : Matrix ι ι ℝ) (e1 : α → ι) (e2 : β → ι) : Matrix α α ℝ :=
  S.submatrix e1 e1 - S.submatrix e1 e2 * (S.submatrix e2 e2)⁻¹ * S.submatrix e2 e1

/-- the matrix of the residual map `x ↦ x₁ − G x₂`. -/
noncomputable def residM (S : Matrix ι ι ℝ) (e1 : α → ι) (e2 : β → ι) : Matrix α ι ℝ :=
  sel e1 - gain S e1 e2 * sel e2

theorem mulE_residM (S : Matrix ι ι ℝ) (e1 : α → ι) (e2 : β → ι) (x : EuclideanSpace ℝ ι) :
    mulE (residM S e1 e2) x = pick e1 x - mulE (gain S e1 e2) (pick e2 x) := by
  simp [residM, pick, Matrix.sub_mulVec, Matrix.mulVec_mulVec]

theorem residM_cross (S : Matrix ι ι ℝ) (e1 : α → ι) (e2 : β → ι)
    (hdet : IsUnit (S.submatrix e2 e2).det) :
    residM S e1 e2 * S * (sel e2)ᵀ = 0 := by
  rw [residM, Matrix.sub_mul, Matrix.sub_mul, sel_mul_mul, Matrix.mul_assoc _ (sel e2),
    Matrix.mul_assoc _ (sel e2 * S), sel_mul_mul, gain, Matrix.mul_assoc,
    Matrix.nonsing_inv_mul _ hdet, Matrix.mul_one, sub_self]

theorem residM_self (S : Matrix ι ι ℝ) (e1 : α → ι) (e2 : β → ι)
    (hdet : IsUnit (S.submatrix e2 e2).det) :
    residM S e1 e2 * S * (residM S e1 e2)ᵀ = schur S e1 e2 := by
  have h := residM_cross S e1 e2 hdet
  conv_lhs => rw [residM, Matrix.transpose_sub, Matrix.mul_sub, ← residM, Matrix.transpose_mul,
    ← Matrix.mul_assoc, h, Matrix.zero_mul, sub_zero]
  rw [residM, Matrix.sub_mul, Matrix.sub_mul, sel_mul_mul, Matrix.mul_assoc _ (sel e2),
    Matrix.mul_assoc _ (sel e2 * S), sel_mul_mul, gain, schur]

end partition


section main
variable {ι α β Ω : Type*} [Fintype ι] [DecidableEq ι] [Fintype α] [DecidableEq α] [Fintype β]
  [DecidableEq β] {mΩ : MeasurableSpace Ω} {P : Measure Ω} {Z : Ω → EuclideanSpace ℝ ι}
  {m : EuclideanSpace ℝ ι} {S : Matrix ι ι ℝ}

/-- marginal law of the coordinates `e`. -/
theorem hasLaw_pick (hZ : HasLaw Z (multivariateGaussian m S) P) (hS : S.PosSemidef) (e : α → ι) :
    HasLaw (fun ω => pick e (Z ω)) (multivariateGaussian (pick e m) (S.submatrix e e)) P := by
  have := hasLaw_mulE hZ hS (sel e)
  rwa [sel_mul_mul] at this

/-- law of the residual `X₁ − G X₂`. -/
theorem hasLaw_resid (hZ : HasLaw Z (multivariateGaussian m S) P) (hS : S.PosSemidef)
    (e1 : α → ι) (e2 : β → ι) (hdet : IsUnit (S.submatrix e2 e2).det) :
    HasLaw (fun ω => pick e1 (Z ω) - mulE (gain S e1 e2) (pick e2 (Z ω)))
      (multivariateGaussian (pick e1 m - mulE (gain S e1 e2) (pick e2 m)) (schur S e1 e2)) P := by
  have := hasLaw_mulE hZ hS (residM S e1 e2)
  rw [residM_self S e1 e2 hdet] at this
  simpa only [mulE_residM] using this

/-- the residual is independent of the conditioning coordinates. -/
theorem indepFun_resid (hZ : HasLaw Z (multivariateGaussian m S) P) (hS : S.PosSemidef)
    (e1 : α → ι) (e2 : β → ι) (hdet : IsUnit (S.submatrix e2 e2).det) :
    IndepFun (fun ω => pick e1 (Z ω) - mulE (gain S e1 e2) (pick e2 (Z ω)))
      (fun ω => pick e2 (Z ω)) P := by
  have := indepFun_mulE hZ hS (residM S e1 e2) (sel e2) (residM_cross S e1 e2 hdet)
  simp only [mulE_residM] at this
  exact this

theorem map_const_add_multivariateGaussian (a c : EuclideanSpace ℝ α) (C : Matrix α α ℝ) :
    (multivariateGaussian c C).map (fun r => a + r) = multivariateGaussian (a + c) C := by
  unfold multivariateGaussian
  rw [Measure.map_map (by fun_prop) (by fun_prop)]
  congr 1
  ext x
  simp [add_assoc]

/-- the kernel `z ↦ N(G z + c, C)`. -/
noncomputable def condKernel (G : Matrix α β ℝ) (c : EuclideanSpace ℝ α) (C : Matrix α α ℝ) :
    Kernel (EuclideanSpace ℝ β) (EuclideanSpace ℝ α) :=
  ((Kernel.deterministic (mulE G) (by fun_prop)) ×ₖ
    (Kernel.const (EuclideanSpace ℝ β) (multivariateGaussian c C))).map (fun p => p.1 + p.2)

theorem condKernel_apply' (G : Matrix α β ℝ) (c : EuclideanSpace ℝ α) (C : Matrix α α ℝ)
    (z : EuclideanSpace ℝ β) :
    condKernel G c C z = (multivariateGaussian c C).map (fun r => mulE G z + r) := by
  rw [condKernel, Kernel.map_apply _ (by fun_prop), Kernel.prod_apply, Kernel.deterministic_apply,
    Kernel.const_apply, Measure.dirac_prod, Measure.map_map (by fun_prop) (by fun_prop)]
  rfl

theorem condKernel_apply (G : Matrix α β ℝ) (c : EuclideanSpace ℝ α) (C : Matrix α α ℝ)
    (z : EuclideanSpace ℝ β) :
    condKernel G c C z = multivariateGaussian (mulE G z + c) C := by
  rw [condKernel_apply', map_const_add_multivariateGaussian]

theorem condKernel_apply_zero (G : Matrix α β ℝ) (C : Matrix α α ℝ) (z : EuclideanSpace ℝ β) :
    condKernel G 0 C z = multivariateGaussian (mulE G z) C := by
  rw [condKernel_apply, add_zero]

instance (G : Matrix α β ℝ) (c : EuclideanSpace ℝ α) (C : Matrix α α ℝ) :
    IsMarkovKernel (condKernel G c C) :=
  ⟨fun z => by rw [condKernel_apply]; infer_instance⟩

/-- **Disintegration.**  If `X₁ − G X₂ ~ N(c, C)` is independent of `X₂`, the joint law of
`(X₂, X₁)` is the law of `X₂` composed with the kernel `z ↦ N(G z + c, C)`. -/
theorem map_pair_eq_compProd [IsFiniteMeasure P] {X1 : Ω → EuclideanSpace ℝ α}
    {X2 : Ω → EuclideanSpace ℝ β} (G : Matrix α β ℝ) (c : EuclideanSpace ℝ α) (C : Matrix α α ℝ)
    (hX2 : AEMeasurable X2 P)
    (hR : HasLaw (fun ω => X1 ω - mulE G (X2 ω)) (multivariateGaussian c C) P)
    (hind : IndepFun (fun ω => X1 ω - mulE G (X2 ω)) X2 P) :
    P.map (fun ω => (X2 ω, X1 ω)) = P.map X2 ⊗ₘ condKernel G c C := by
  have hprod := hind.symm.map_prod_eq_prod_map_map hX2 hR.aemeasurable
  rw [hR.map_eq] at hprod
  set φ : EuclideanSpace ℝ β × EuclideanSpace ℝ α → EuclideanSpace ℝ β × EuclideanSpace ℝ α :=
    fun p => (p.1, mulE G p.1 + p.2) with hφ
  have hφm : Measurable φ := by fun_prop
  have h1 : (fun ω => (X2 ω, X1 ω)) = φ ∘ (fun ω => (X2 ω, X1 ω - mulE G (X2 ω))) := by
    ext ω <;> simp [hφ]
  rw [h1, ← AEMeasurable.map_map_of_aemeasurable hφm.aemeasurable (hX2.prodMk hR.aemeasurable),
    hprod]
  ext s hs
  rw [Measure.map_apply hφm hs, Measure.prod_apply (hφm hs), Measure.compProd_apply hs]
  congr 1
  ext z
  rw [condKernel_apply', Measure.map_apply (by fun_prop) (measurable_prodMk_left hs)]
  rfl

/-- the conditional mean in its textbook form `m₁ + G (z − m₂)`. -/
theorem condMean_eq (G : Matrix α β ℝ) (m1 : EuclideanSpace ℝ α) (m2 z : EuclideanSpace ℝ β) :
    mulE G z + (m1 - mulE G m2) = m1 + mulE G (z - m2) := by
  rw [map_sub]; abel

/-- **Conditional law of a partitioned normal vector**, kernel form: the joint law of `(X₂, X₁)` is
`N(m₂, S₂₂) ⊗ (z ↦ N(m₁ + G (z − m₂), Σ̄))`. -/
theorem map_pick_pair (hZ : HasLaw Z (multivariateGaussian m S) P) (hS : S.PosSemidef)
    (e1 : α → ι) (e2 : β → ι) (hdet : IsUnit (S.submatrix e2 e2).det) :
    P.map (fun ω => (pick e2 (Z ω), pick e1 (Z ω)))
      = multivariateGaussian (pick e2 m) (S.submatrix e2 e2) ⊗ₘ
          condKernel (gain S e1 e2) (pick e1 m - mulE (gain S e1 e2) (pick e2 m))
            (schur S e1 e2) := by
  have := hZ.isProbabilityMeasure
  have h2 := hasLaw_pick hZ hS e2
  rw [map_pair_eq_compProd (gain S e1 e2) _ (schur S e1 e2) h2.aemeasurable
    (hasLaw_resid hZ hS e1 e2 hdet) (indepFun_resid hZ hS e1 e2 hdet), h2.map_eq]

/-- … integral form:
`P(X₁ ∈ A, X₂ ∈ B) = ∫_{z ∈ B} N(m₁ + G (z − m₂), Σ̄)(A) dN(m₂, S₂₂)(z)`. -/
theorem measure_inter_pick (hZ : HasLaw Z (multivariateGaussian m S) P) (hS : S.PosSemidef)
    (e1 : α → ι) (e2 : β → ι) (hdet : IsUnit (S.submatrix e2 e2).det)
    {A : Set (EuclideanSpace ℝ α)} {B : Set (EuclideanSpace ℝ β)} (hA : MeasurableSet A)
    (hB : MeasurableSet B) :
    P ((fun ω => pick e1 (Z ω)) ⁻¹' A ∩ (fun ω => pick e2 (Z ω)) ⁻¹' B)
      = ∫⁻ z in B, multivariateGaussian (pick e1 m + mulE (gain S e1 e2) (z - pick e2 m))
            (schur S e1 e2) A ∂(multivariateGaussian (pick e2 m) (S.submatrix e2 e2)) := by
  have h := congrFun (congrArg DFunLike.coe (map_pick_pair hZ hS e1 e2 hdet)) (B ×ˢ A)
  rw [Measure.compProd_apply_prod hB hA, Measure.map_apply_of_aemeasurable
    (((hasLaw_pick hZ hS e2).aemeasurable).prodMk ((hasLaw_pick hZ hS e1).aemeasurable))
    (hB.prod hA)] at h
  simp only [condKernel_apply, condMean_eq] at h
  rw [← h]
  congr 1
  ext ω
  simp [and_comm]

/-- … `condDistrib` form: `z ↦ N(m₁ + G (z − m₂), Σ̄)` is (a version of) the regular conditional
distribution of `X₁` given `X₂`. -/
theorem condDistrib_pick (hZ : HasLaw Z (multivariateGaussian m S) P) (hS : S.PosSemidef)
    (e1 : α → ι) (e2 : β → ι) (hdet : IsUnit (S.submatrix e2 e2).det) :
    haveI := hZ.isProbabilityMeasure
    ∀ᵐ z ∂(multivariateGaussian (pick e2 m) (S.submatrix e2 e2)),
      condDistrib (fun ω => pick e1 (Z ω)) (fun ω => pick e2 (Z ω)) P z
        = multivariateGaussian (pick e1 m + mulE (gain S e1 e2) (z - pick e2 m))
            (schur S e1 e2) := by
  have := hZ.isProbabilityMeasure
  have h2 := hasLaw_pick hZ hS e2
  have h := condDistrib_ae_eq_of_measure_eq_compProd (μ := P) (fun ω => pick e2 (Z ω))
    (hasLaw_pick hZ hS e1).aemeasurable
    (κ := condKernel (gain S e1 e2) (pick e1 m - mulE (gain S e1 e2) (pick e2 m)) (schur S e1 e2))
    (by rw [map_pick_pair hZ hS e1 e2 hdet, h2.map_eq])
  rw [h2.map_eq] at h
  filter_upwards [h] with z hz
  rw [hz, condKernel_apply, condMean_eq]

/-- **The sampling scheme.**  On any probability space, if `Y ~ N(m₂, S₂₂)` and `R' ~ N(0, Σ̄)` are
independent, then `(Y, m₁ + G (Y − m₂) + R')` has the joint law of `(X₂, X₁)`. -/
theorem map_sampling_scheme (hZ : HasLaw Z (multivariateGaussian m S) P) (hS : S.PosSemidef)
    (e1 : α → ι) (e2 : β → ι) (hdet : IsUnit (S.submatrix e2 e2).det)
    {Ω' : Type*} {mΩ' : MeasurableSpace Ω'} {P' : Measure Ω'}
    {Y : Ω' → EuclideanSpace ℝ β} {R' : Ω' → EuclideanSpace ℝ α}
    (hY : HasLaw Y (multivariateGaussian (pick e2 m) (S.submatrix e2 e2)) P')
    (hR' : HasLaw R' (multivariateGaussian 0 (schur S e1 e2)) P') (hind : IndepFun R' Y P') :
    P'.map (fun ω => (Y ω, pick e1 m + mulE (gain S e1 e2) (Y ω - pick e2 m) + R' ω))
      = P.map (fun ω => (pick e2 (Z ω), pick e1 (Z ω))) := by
  have := hY.isProbabilityMeasure
  set c := pick e1 m - mulE (gain S e1 e2) (pick e2 m) with hc
  have hsub : (fun ω => (pick e1 m + mulE (gain S e1 e2) (Y ω - pick e2 m) + R' ω)
      - mulE (gain S e1 e2) (Y ω)) = fun ω => c + R' ω := by
    ext ω; rw [hc, map_sub]; abel_nf
  have hcR : HasLaw (fun ω => c + R' ω) (multivariateGaussian c (schur S e1 e2)) P' := by
    have := HasLaw.fun_comp (X := R') (P := P') (Y := fun r => c + r)
      ⟨by fun_prop, map_const_add_multivariateGaussian c 0 (schur S e1 e2)⟩ hR'
    rwa [add_zero] at this
  have hci : IndepFun (fun ω => c + R' ω) Y P' :=
    hind.comp (φ := fun r => c + r) (ψ := id) (by fun_prop) measurable_id
  rw [map_pick_pair hZ hS e1 e2 hdet, map_pair_eq_compProd (gain S e1 e2) c (schur S e1 e2)
    hY.aemeasurable (by rw [hsub]; exact hcR) (by rw [hsub]; exact hci), hY.map_eq]

end main

end CopVerif.CondLaw
