import Mathlib.Order.Monotone.Basic
import Mathlib.Data.Real.Basic
import Mathlib.Tactic.Linarith
import Mathlib.Tactic.NormNum
/-!
# Quantile transform, pointwise (property C01)

`GaussianMultivariate.sample` turns a standard-normal draw `z` into `univariate.percent_point(
scipy.stats.norm.cdf(z))`.  The two external functions appear here as hypotheses (DESIGN 3.2):

* `IsQuantileOf Q F` — `Q` is the (generalised) quantile function of the distribution function `F`:
  the Galois connection `Q q ≤ x ↔ q ≤ F x` on `0 < q < 1`.  This is what a fitted
  `percent_point`/`cdf` pair is assumed to satisfy (validated on the real fitted objects on a grid
  by `tools/props/c01.py`, "assumption validation").
* `IsStdNormalCDF Φ Φinv` — the facts used about `scipy.stats.norm.cdf`: strictly increasing, values in
  `(0,1)`, a two-sided inverse `Φinv` on `(0,1)`.  (A continuous strictly increasing bijection
  `ℝ → (0,1)` has exactly these properties; continuity itself is not used by the pointwise statement.)

`quantile_transform_le_iff` is the pointwise form of "if `z` is standard normal then `Q (Φ z)` has
distribution function `F`": the event `{Q (Φ z) ≤ x}` IS the event `{z ≤ Φinv (F x)}`, whose
probability under the standard normal is `Φ (Φinv (F x)) = F x`.
-/
namespace CopVerif.PIT

/-- `Q` is the quantile function of `F` (Galois connection on the open unit interval). -/
structure IsQuantileOf (Q F : ℝ → ℝ) : Prop where
  gc : ∀ q x, 0 < q → q < 1 → (Q q ≤ x ↔ q ≤ F x)

/-- the facts used about the standard normal distribution function and its inverse. -/
structure IsStdNormalCDF (Φ Φinv : ℝ → ℝ) : Prop where
  strictMono : StrictMono Φ
  pos : ∀ z, 0 < Φ z
  lt_one : ∀ z, Φ z < 1
  left_inv : ∀ z, Φinv (Φ z) = z
  right_inv : ∀ p, 0 < p → p < 1 → Φ (Φinv p) = p

variable {Q F Φ Φinv : ℝ → ℝ}

/-- the sampled value is `≤ x` exactly when the uniform score `Φ z` is `≤ F x` (no condition on `F x`). -/
theorem quantile_transform_le_iff_score (hQ : IsQuantileOf Q F) (hΦ : IsStdNormalCDF Φ Φinv) (z x : ℝ) :
    Q (Φ z) ≤ x ↔ Φ z ≤ F x :=
  hQ.gc (Φ z) x (hΦ.pos z) (hΦ.lt_one z)

/-- **pointwise probability integral transform.** -/
theorem quantile_transform_le_iff (hQ : IsQuantileOf Q F) (hΦ : IsStdNormalCDF Φ Φinv) (z x : ℝ)
    (h0 : 0 < F x) (h1 : F x < 1) : Q (Φ z) ≤ x ↔ z ≤ Φinv (F x) := by
  rw [quantile_transform_le_iff_score hQ hΦ]
  conv_lhs => rw [← hΦ.right_inv (F x) h0 h1]
  exact hΦ.strictMono.le_iff_le

/-- below the support (`F x ≤ 0`) the sampled value is never `≤ x`. -/
theorem quantile_transform_not_le (hQ : IsQuantileOf Q F) (hΦ : IsStdNormalCDF Φ Φinv) (z x : ℝ)
    (h0 : F x ≤ 0) : ¬ Q (Φ z) ≤ x := by
  rw [quantile_transform_le_iff_score hQ hΦ]
  have := hΦ.pos z
  intro h; linarith

/-- above the support (`1 ≤ F x`) the sampled value is always `≤ x`. -/
theorem quantile_transform_le (hQ : IsQuantileOf Q F) (hΦ : IsStdNormalCDF Φ Φinv) (z x : ℝ)
    (h1 : 1 ≤ F x) : Q (Φ z) ≤ x := by
  rw [quantile_transform_le_iff_score hQ hΦ]
  have := hΦ.lt_one z
  linarith

/-- a quantile function in this sense is non-decreasing on `(0,1)` as soon as `F` only takes the
    value of a distribution function there (`F (Q q)` is compared through the connection). -/
theorem IsQuantileOf.mono (hQ : IsQuantileOf Q F) {p q : ℝ} (hp : 0 < p) (hpq : p ≤ q) (hq : q < 1) :
    Q p ≤ Q q := by
  have hq0 : 0 < q := lt_of_lt_of_le hp hpq
  have h1 : q ≤ F (Q q) := (hQ.gc q (Q q) hq0 hq).1 le_rfl
  exact (hQ.gc p (Q q) hp (lt_of_le_of_lt hpq hq)).2 (le_trans hpq h1)

/-! ## Non-vacuity: a concrete step quantile pair

The fair coin on `{0, 1}`: `F x = 0` for `x < 0`, `1/2` on `[0,1)`, `1` from `1` on;
`Q q = 0` for `q ≤ 1/2`, `1` above.  `Q` is only non-decreasing (not strictly increasing, not
continuous), which is the general situation for the fitted marginals' `percent_point`. -/

noncomputable def coinF (x : ℝ) : ℝ := if x < 0 then 0 else if x < 1 then 1 / 2 else 1
noncomputable def coinQ (q : ℝ) : ℝ := if q ≤ 1 / 2 then 0 else 1

theorem coin_isQuantileOf : IsQuantileOf coinQ coinF := by
  refine ⟨fun q x hq0 hq1 => ?_⟩
  unfold coinQ coinF
  split_ifs <;> constructor <;> intro _ <;> linarith

end CopVerif.PIT
