import Mathlib.MeasureTheory.Integral.IntervalIntegral.FundThmCalculus
import Mathlib.Analysis.Convex.SpecificFunctions.Basic
import CopVerif.Real.ClaytonDeriv
/-! Clayton copula over ℝ: the Rosenblatt identity `∫ h(u,t) dt = C(u,·)` (proper on `[a,b] ⊂ (0,∞)`,
improper and proper at the singular edge `0`), the push-forward equivalence for the closed-form
conditional inverse, the rectangle inequality (2-increasing), the Fréchet–Hoeffding lower bound and
the concordance ordering in `θ`. -/
namespace CopVerif.Clayton
open CopVerif Real Filter Set
open scoped Topology

/-! ### continuity of `h(u,·)` and the fundamental theorem of calculus -/

/-- The inner sum is positive as soon as `u ∈ (0,1]` and `t > 0` (no upper bound on `t`). -/
theorem S_pos_of_le_one_left {θ u t : ℝ} (hθ : 0 < θ) (hu : 0 < u) (hu1 : u ≤ 1) (ht : 0 < t) :
    0 < u ^ (-θ) + t ^ (-θ) - 1 := by
  have := S_pos_of_le_one_right hθ ht hu hu1
  linarith

/-- `t ↦ h θ u t` is continuous on `(0,∞)` for `u ∈ (0,1]`. -/
theorem continuousOn_h_right {θ u : ℝ} (hθ : 0 < θ) (hu : 0 < u) (hu1 : u ≤ 1) :
    ContinuousOn (fun t => h θ u t) (Ioi 0) := by
  unfold h
  have hpow : ∀ p : ℝ, ContinuousOn (fun t : ℝ => t ^ p) (Ioi 0) := fun p =>
    continuousOn_id.rpow_const (fun t ht => Or.inl (ne_of_gt ht))
  apply (hpow _).mul
  apply ContinuousOn.rpow_const
  · exact ((hpow _).add continuousOn_const).sub continuousOn_const
  · intro t ht
    left
    have := S_pos_of_le_one_left hθ hu hu1 ht
    linarith

/-- Fundamental theorem of calculus for `h(u,·)` between arbitrary positive limits (in particular
on every `[a,b] ⊂ (0,1]`): `∫ₐᵇ h(u,t) dt = C(u,b) − C(u,a)` for `u ∈ (0,1]`. -/
theorem integral_h_sub {θ u a b : ℝ} (hθ : 0 < θ) (hu : 0 < u) (hu1 : u ≤ 1) (ha : 0 < a)
    (hb : 0 < b) : ∫ t in a..b, h θ u t = C θ u b - C θ u a := by
  have hsub : uIcc a b ⊆ Ioi 0 := fun t ht => lt_of_lt_of_le (lt_min ha hb) ht.1
  exact intervalIntegral.integral_eq_sub_of_hasDerivAt (f := fun t => C θ u t)
    (fun t ht => hasDerivAt_C_right_of_pos hθ hu (hsub ht)
      (S_pos_of_le_one_left hθ hu hu1 (hsub ht)))
    ((continuousOn_h_right hθ hu hu1).mono hsub).intervalIntegrable

example : ∫ t in (1 / 3 : ℝ)..(1 / 2), h 2 (1 / 2) t = C 2 (1 / 2) (1 / 2) - C 2 (1 / 2) (1 / 3) :=
  integral_h_sub (by norm_num) (by norm_num) (by norm_num) (by norm_num) (by norm_num)

/-! ### the singular edge `t → 0⁺` -/

/-- `C(u,δ) → 0` as `δ → 0⁺` (squeeze with the Fréchet upper bound `C ≤ min u δ`). -/
theorem tendsto_C_right_zero {θ u : ℝ} (hθ : 0 < θ) (hu : 0 < u) (hu1 : u ≤ 1) :
    Tendsto (fun δ => C θ u δ) (𝓝[>] 0) (𝓝 0) := by
  have h0 : Tendsto (fun δ : ℝ => δ) (𝓝[>] 0) (𝓝 0) :=
    tendsto_nhdsWithin_of_tendsto_nhds tendsto_id
  refine tendsto_of_tendsto_of_tendsto_of_le_of_le' tendsto_const_nhds h0 ?_ ?_
  · filter_upwards [Ioc_mem_nhdsGT (zero_lt_one' ℝ)] with δ hδ
    exact C_nonneg hθ hu.le hu1 hδ.1.le hδ.2
  · filter_upwards [Ioc_mem_nhdsGT (zero_lt_one' ℝ)] with δ hδ
    exact (C_le_min hθ hu.le hu1 hδ.1.le hδ.2).trans (min_le_right _ _)

/-- Rosenblatt identity, improper form: `lim_{δ→0⁺} ∫_δ^v h(u,t) dt = C(u,v)` for `u ∈ (0,1]` and
every `v > 0` (in particular `v ∈ (0,1]`). -/
theorem tendsto_integral_h {θ u v : ℝ} (hθ : 0 < θ) (hu : 0 < u) (hu1 : u ≤ 1) (hv : 0 < v) :
    Tendsto (fun δ => ∫ t in δ..v, h θ u t) (𝓝[>] 0) (𝓝 (C θ u v)) := by
  have h1 : Tendsto (fun δ => C θ u v - C θ u δ) (𝓝[>] 0) (𝓝 (C θ u v - 0)) :=
    tendsto_const_nhds.sub (tendsto_C_right_zero hθ hu hu1)
  rw [sub_zero] at h1
  refine h1.congr' ?_
  filter_upwards [self_mem_nhdsWithin] with δ hδ
  exact (integral_h_sub hθ hu hu1 hδ hv).symm

example : Tendsto (fun δ => ∫ t in δ..(1 / 3 : ℝ), h 2 (1 / 2) t) (𝓝[>] 0)
    (𝓝 (C 2 (1 / 2) (1 / 3))) :=
  tendsto_integral_h (by norm_num) (by norm_num) (by norm_num) (by norm_num)

/-- `C(u,·)` is continuous on `[0,∞)` for `u ∈ (0,1]` (at `0` through the boundary branch
`C θ u 0 = 0`). -/
theorem continuousOn_C_right {θ u : ℝ} (hθ : 0 < θ) (hu : 0 < u) (hu1 : u ≤ 1) :
    ContinuousOn (fun t => C θ u t) (Ici 0) := by
  intro t ht
  rcases (mem_Ici.mp ht).eq_or_lt with rfl | ht0
  · rw [← continuousWithinAt_Ioi_iff_Ici]
    show Tendsto (fun t => C θ u t) (𝓝[>] 0) (𝓝 (C θ u 0))
    rw [C_zero_right]
    exact tendsto_C_right_zero hθ hu hu1
  · exact (hasDerivAt_C_right_of_pos hθ hu ht0
      (S_pos_of_le_one_left hθ hu hu1 ht0)).continuousAt.continuousWithinAt

/-- Rosenblatt identity, proper form: `h(u,·)` is interval-integrable down to the singular edge and
`∫₀ᵛ h(u,t) dt = C(u,v)` for `u ∈ (0,1]`, `v ≥ 0`.  (The value of the integrand at the single point
`t = 0`, where `Real.rpow` is totalised, is irrelevant for the integral.) -/
theorem integral_h {θ u v : ℝ} (hθ : 0 < θ) (hu : 0 < u) (hu1 : u ≤ 1) (hv : 0 ≤ v) :
    IntervalIntegrable (fun t => h θ u t) MeasureTheory.volume 0 v ∧
      ∫ t in (0 : ℝ)..v, h θ u t = C θ u v := by
  have hcont : ContinuousOn (fun t => C θ u t) (Icc 0 v) :=
    (continuousOn_C_right hθ hu hu1).mono Icc_subset_Ici_self
  have hderiv : ∀ t ∈ Ioo 0 v, HasDerivAt (fun t => C θ u t) (h θ u t) t := fun t ht =>
    hasDerivAt_C_right_of_pos hθ hu ht.1 (S_pos_of_le_one_left hθ hu hu1 ht.1)
  have hint : IntervalIntegrable (fun t => h θ u t) MeasureTheory.volume 0 v := by
    apply intervalIntegral.intervalIntegrable_deriv_of_nonneg (g := fun t => C θ u t)
    · rwa [uIcc_of_le hv]
    · rwa [min_eq_left hv, max_eq_right hv]
    · rw [min_eq_left hv, max_eq_right hv]
      intro t ht
      exact (h_bounds hθ hu hu1 ht.1).1
  refine ⟨hint, ?_⟩
  rw [intervalIntegral.integral_eq_sub_of_hasDerivAt_of_le hv hcont hderiv hint, C_zero_right,
    sub_zero]

example : ∫ t in (0 : ℝ)..(1 / 3), h 2 (1 / 2) t = C 2 (1 / 2) (1 / 3) :=
  (integral_h (by norm_num) (by norm_num) (by norm_num) (by norm_num)).2

/-! ### push-forward through the closed-form conditional inverse -/

/-- The event `{ppf(c,t) ≤ u}` is the event `{c ≤ h(u,t)}`: with `c ~ U(0,1)` this is
`P(U ≤ u | V = t) = h(u,t)`. -/
theorem ppf_le_iff {θ y t u : ℝ} (hθ : 0 < θ) (hy : 0 < y) (hy1 : y ≤ 1) (ht : 0 < t)
    (hu : 0 < u) (hu1 : u ≤ 1) : ppf θ y t ≤ u ↔ y ≤ h θ u t := by
  have hp := ppf_mem_Ioc hθ hy hy1 ht
  have := (h_strictMonoOn hθ ht).le_iff_le ⟨hp.1, hp.2⟩ ⟨hu, hu1⟩
  simp only [h_ppf hθ hy hy1 ht] at this
  exact this.symm

example : ppf 2 (1 / 2) (1 / 3) ≤ 1 / 4 ↔ 1 / 2 ≤ h 2 (1 / 4) (1 / 3) :=
  ppf_le_iff (by norm_num) (by norm_num) (by norm_num) (by norm_num) (by norm_num) (by norm_num)

/-- Set form: the `c`-section of the event is the interval `(0, h(u,t)]`. -/
theorem ppf_le_setOf {θ t u : ℝ} (hθ : 0 < θ) (ht : 0 < t) (hu : 0 < u) (hu1 : u ≤ 1) :
    {y | y ∈ Ioc (0 : ℝ) 1 ∧ ppf θ y t ≤ u} = Ioc 0 (h θ u t) := by
  ext y
  have hb := (h_bounds hθ hu hu1 ht).2
  constructor
  · rintro ⟨hy, hle⟩
    exact ⟨hy.1, (ppf_le_iff hθ hy.1 hy.2 ht hu hu1).mp hle⟩
  · rintro ⟨hy0, hyh⟩
    have hy1 : y ≤ 1 := hyh.trans hb
    exact ⟨⟨hy0, hy1⟩, (ppf_le_iff hθ hy0 hy1 ht hu hu1).mpr hyh⟩

/-- Measure form: under Lebesgue measure on `(0,1]` (the law of the uniform draw `c`),
`P(ppf(c,t) ≤ u) = h(u,t)`. -/
theorem volume_ppf_le {θ t u : ℝ} (hθ : 0 < θ) (ht : 0 < t) (hu : 0 < u) (hu1 : u ≤ 1) :
    MeasureTheory.volume {y | y ∈ Ioc (0 : ℝ) 1 ∧ ppf θ y t ≤ u} = ENNReal.ofReal (h θ u t) := by
  rw [ppf_le_setOf hθ ht hu hu1, Real.volume_Ioc, sub_zero]

/-! ### 2-increasing and the Fréchet–Hoeffding lower bound -/

/-- Rectangle inequality on `(0,1] × (0,∞)`. -/
theorem C_two_increasing_of_pos {θ u u' v v' : ℝ} (hθ : 0 < θ) (hu : 0 < u) (huu : u ≤ u')
    (hu1 : u' ≤ 1) (hv : 0 < v) (hvv : v ≤ v') :
    0 ≤ C θ u' v' - C θ u' v - C θ u v' + C θ u v := by
  have hu' : 0 < u' := hu.trans_le huu
  have hu1' : u ≤ 1 := huu.trans hu1
  have hv' : 0 < v' := hv.trans_le hvv
  have hsub : uIcc v v' ⊆ Ioi 0 := fun t ht => lt_of_lt_of_le (lt_min hv hv') ht.1
  have key : 0 ≤ ∫ t in v..v', (h θ u' t - h θ u t) :=
    intervalIntegral.integral_nonneg hvv
      (fun t ht => sub_nonneg.mpr (h_mono hθ hu huu hu1 (hv.trans_le ht.1)))
  rw [intervalIntegral.integral_sub
      ((continuousOn_h_right hθ hu' hu1).mono hsub).intervalIntegrable
      ((continuousOn_h_right hθ hu hu1').mono hsub).intervalIntegrable,
    integral_h_sub hθ hu' hu1 hv hv', integral_h_sub hθ hu hu1' hv hv'] at key
  linarith

/-- 2-increasing on the closed unit square: every rectangle `[u,u'] × [v,v'] ⊆ [0,1]²` has
nonnegative `C`-volume. -/
theorem C_two_increasing {θ u u' v v' : ℝ} (hθ : 0 < θ) (hu : 0 ≤ u) (huu : u ≤ u')
    (hu1 : u' ≤ 1) (hv : 0 ≤ v) (hvv : v ≤ v') (hv1 : v' ≤ 1) :
    0 ≤ C θ u' v' - C θ u' v - C θ u v' + C θ u v := by
  rcases hu.eq_or_lt with rfl | hu0
  · have := C_mono_right hθ hv hvv hv1 huu hu1
    simp only [C_zero_left]
    linarith
  rcases hv.eq_or_lt with rfl | hv0
  · have := C_mono_left hθ hu huu hu1 hvv hv1
    simp only [C_zero_right]
    linarith
  exact C_two_increasing_of_pos hθ hu0 huu hu1 hv0 hvv

example : 0 ≤ C 2 (1 / 2) (2 / 3) - C 2 (1 / 2) (1 / 3) - C 2 0 (2 / 3) + C 2 0 (1 / 3) :=
  C_two_increasing (by norm_num) (by norm_num) (by norm_num) (by norm_num) (by norm_num)
    (by norm_num) (by norm_num)

/-- Fréchet–Hoeffding lower bound `W(u,v) = max(u+v-1, 0) ≤ C(u,v)` on the closed unit square. -/
theorem max_le_C {θ u v : ℝ} (hθ : 0 < θ) (hu : 0 ≤ u) (hu1 : u ≤ 1) (hv : 0 ≤ v) (hv1 : v ≤ 1) :
    max (u + v - 1) 0 ≤ C θ u v := by
  apply max_le _ (C_nonneg hθ hu hu1 hv hv1)
  rcases hu.eq_or_lt with rfl | hu0
  · rw [C_zero_left]; linarith
  rcases hv.eq_or_lt with rfl | hv0
  · rw [C_zero_right]; linarith
  have := C_two_increasing hθ hu hu1 le_rfl hv hv1 le_rfl
  rw [C_one_left hθ one_pos, C_one_left hθ hv0, C_one_right hθ hu0] at this
  linarith

example : max ((0.3 : ℝ) + 0.9 - 1) 0 ≤ C 2 0.3 0.9 :=
  max_le_C (by norm_num) (by norm_num) (by norm_num) (by norm_num) (by norm_num)

/-! ### concordance ordering in `θ` -/

/-- Superadditivity of `t ↦ t^r - 1` above `1` (from convexity of `t ↦ t^r`):
`x^r + y^r - 1 ≤ (x + y - 1)^r` for `x, y ≥ 1`, `r ≥ 1`. -/
theorem rpow_add_rpow_sub_one_le {x y r : ℝ} (hx : 1 ≤ x) (hy : 1 ≤ y) (hr : 1 ≤ r) :
    x ^ r + y ^ r - 1 ≤ (x + y - 1) ^ r := by
  have hconv := convexOn_rpow hr
  rcases eq_or_lt_of_le (show 0 ≤ x + y - 1 - 1 by linarith) with h0 | hD
  · have hx1 : x = 1 := by linarith
    have hy1 : y = 1 := by linarith
    simp [hx1, hy1]
  · have hl0 : 0 ≤ (x - 1) / (x + y - 1 - 1) := div_nonneg (by linarith) hD.le
    have hm0 : 0 ≤ (y - 1) / (x + y - 1 - 1) := div_nonneg (by linarith) hD.le
    have hsum : (x - 1) / (x + y - 1 - 1) + (y - 1) / (x + y - 1 - 1) = 1 := by
      rw [← add_div, div_eq_one_iff_eq hD.ne']
      ring
    have hs0 : x + y - 1 ∈ Ici (0 : ℝ) := mem_Ici.mpr (by linarith)
    have h10 : (1 : ℝ) ∈ Ici (0 : ℝ) := mem_Ici.mpr zero_le_one
    have h1 := hconv.2 hs0 h10 hl0 hm0 hsum
    have h2 := hconv.2 hs0 h10 hm0 hl0 (by rw [add_comm]; exact hsum)
    simp only [smul_eq_mul, Real.one_rpow, mul_one] at h1 h2
    have e1 : (x - 1) / (x + y - 1 - 1) * (x + y - 1) + (y - 1) / (x + y - 1 - 1) = x := by
      field_simp
      ring
    have e2 : (y - 1) / (x + y - 1 - 1) * (x + y - 1) + (x - 1) / (x + y - 1 - 1) = y := by
      field_simp
      ring
    rw [e1] at h1
    rw [e2] at h2
    have : ((x - 1) / (x + y - 1 - 1) + (y - 1) / (x + y - 1 - 1)) * (x + y - 1) ^ r
        = (x + y - 1) ^ r := by rw [hsum, one_mul]
    nlinarith

/-- The Clayton family is positively ordered: `θ₁ ≤ θ₂ → C_{θ₁} ≤ C_{θ₂}` pointwise on `(0,1]²`. -/
theorem C_le_C_of_theta_le_of_pos {θ₁ θ₂ u v : ℝ} (h1 : 0 < θ₁) (h12 : θ₁ ≤ θ₂) (hu : 0 < u)
    (hu1 : u ≤ 1) (hv : 0 < v) (hv1 : v ≤ 1) : C θ₁ u v ≤ C θ₂ u v := by
  have h2 : 0 < θ₂ := h1.trans_le h12
  have hr : 1 ≤ θ₂ / θ₁ := (one_le_div h1).mpr h12
  have hx : 1 ≤ u ^ (-θ₁) := Real.one_le_rpow_of_pos_of_le_one_of_nonpos hu hu1 (by linarith)
  have hy : 1 ≤ v ^ (-θ₁) := Real.one_le_rpow_of_pos_of_le_one_of_nonpos hv hv1 (by linarith)
  have ex : u ^ (-θ₂) = (u ^ (-θ₁)) ^ (θ₂ / θ₁) := by
    rw [← Real.rpow_mul hu.le]; congr 1; field_simp
  have ey : v ^ (-θ₂) = (v ^ (-θ₁)) ^ (θ₂ / θ₁) := by
    rw [← Real.rpow_mul hv.le]; congr 1; field_simp
  have key := rpow_add_rpow_sub_one_le hx hy hr
  rw [← ex, ← ey] at key
  have hS2 := S_ge_one h2 hu hu1 hv hv1
  have hS1 := S_ge_one h1 hu hu1 hv hv1
  simp only [C, hu, hv, and_self, if_true]
  calc (u ^ (-θ₁) + v ^ (-θ₁) - 1) ^ (-1 / θ₁)
      = ((u ^ (-θ₁) + v ^ (-θ₁) - 1) ^ (θ₂ / θ₁)) ^ (-1 / θ₂) := by
        rw [← Real.rpow_mul (by linarith)]; congr 1; field_simp
    _ ≤ (u ^ (-θ₂) + v ^ (-θ₂) - 1) ^ (-1 / θ₂) :=
        Real.rpow_le_rpow_of_nonpos (by linarith) key
          (div_neg_of_neg_of_pos (by norm_num) h2).le

/-- Concordance ordering on the closed unit square (on the edges `u = 0` / `v = 0` both sides are
the boundary branch `0`). -/
theorem C_le_C_of_theta_le {θ₁ θ₂ u v : ℝ} (h1 : 0 < θ₁) (h12 : θ₁ ≤ θ₂) (hu : 0 ≤ u)
    (hu1 : u ≤ 1) (hv : 0 ≤ v) (hv1 : v ≤ 1) : C θ₁ u v ≤ C θ₂ u v := by
  rcases hu.eq_or_lt with rfl | hu0
  · simp only [C_zero_left, le_refl]
  rcases hv.eq_or_lt with rfl | hv0
  · simp only [C_zero_right, le_refl]
  exact C_le_C_of_theta_le_of_pos h1 h12 hu0 hu1 hv0 hv1

example : C 1 (1 / 2) (1 / 3) ≤ C 2 (1 / 2) (1 / 3) :=
  C_le_C_of_theta_le (by norm_num) (by norm_num) (by norm_num) (by norm_num) (by norm_num)
    (by norm_num)

end CopVerif.Clayton
