import Mathlib.Tactic.FieldSimp
import Mathlib.Tactic.Linarith
import Mathlib.Tactic.Ring
import Mathlib.Analysis.SpecialFunctions.Exp
import Mathlib.Analysis.SpecialFunctions.ExpDeriv
import Mathlib.Analysis.SpecialFunctions.Trigonometric.DerivHyp
import Mathlib.Analysis.Calculus.Deriv.MeanValue
import Mathlib.MeasureTheory.Integral.IntervalIntegral.FundThmCalculus
import CopVerif.Real.Inst
import CopVerif.Model.BivFit
/-!
  Facts about the model of `Bivariate.fit` (`CopVerif.Model.fit`, base.py:170-187) and about the
  GENERATED calibration maps `Gen.Clayton.computeTheta`, `Gen.Gumbel.computeTheta`,
  `Gen.Frank.tauResidual` and admissible sets (`theta_interval`, `invalid_thetas`).  (C10)

  The first section is for an arbitrary numeric type `α` (so it also speaks about the `Float`
  reading, NaN included); the second is the `ℝ` reading.
-/
namespace CopVerif.BivFit
open CopVerif NumFns CopVerif.Model

/-! ### any numeric type: the control flow of `fit` -/
section generic
set_option linter.unusedSectionVars false
variable {α : Type} [Add α] [Sub α] [Mul α] [Div α] [Neg α] [LT α] [LE α]
  [DecidableLT α] [DecidableLE α] [NumFns α]

/-- `check_marginal` raises on one of the two columns: some value is `< 0` or `> 1`. -/
def margBad (inp : FitInput α) : Prop :=
  inp.uMin < ofNat 0 ∨ ofNat 1 < inp.uMax ∨ inp.vMin < ofNat 0 ∨ ofNat 1 < inp.vMax

/-- state after `self.tau = kendalltau(...)`: only `tau` written. -/
def st1 (inp : FitInput α) (st : FitState α) : FitState α := { st with tau := some inp.tau }

/-- state after `self.theta = self.compute_theta()`: both attributes written. -/
def st2 (inp : FitInput α) (θ : Bound α) : FitState α := { tau := some inp.tau, theta := some θ }

theorem marginalOk_iff (lo hi : α) :
    marginalOk lo hi = true ↔ ¬ lo < ofNat 0 ∧ ¬ ofNat 1 < hi := by
  simp [marginalOk]

theorem not_margBad_iff (inp : FitInput α) :
    ¬ margBad inp ↔
      marginalOk inp.uMin inp.uMax = true ∧ marginalOk inp.vMin inp.vMax = true := by
  simp only [margBad, marginalOk_iff, not_or, and_assoc]

/-- The five exits of `fit`, exhaustively and exclusively: what is returned and which state is left
behind at each. -/
theorem fit_cases (fam : Family) (s : α → α) (inp : FitInput α) (st : FitState α) :
    (margBad inp ∧ fit fam s inp st = (.error .valueError, st)) ∨
    (¬ margBad inp ∧ NumFns.isNaN inp.tau = true ∧
      fit fam s inp st = (.error .valueError, st1 inp st)) ∨
    (¬ margBad inp ∧ NumFns.isNaN inp.tau = false ∧
      ∃ e, computeThetaFam fam s inp.tau = .error e ∧ fit fam s inp st = (.error e, st1 inp st)) ∨
    (¬ margBad inp ∧ NumFns.isNaN inp.tau = false ∧
      ∃ θ, computeThetaFam fam s inp.tau = .ok θ ∧ checkThetaB fam θ = false ∧
        fit fam s inp st = (.error .valueError, st2 inp θ)) ∨
    (¬ margBad inp ∧ NumFns.isNaN inp.tau = false ∧
      ∃ θ, computeThetaFam fam s inp.tau = .ok θ ∧ checkThetaB fam θ = true ∧
        fit fam s inp st = (.ok (), st2 inp θ)) := by
  by_cases hm : margBad inp
  · left
    refine ⟨hm, ?_⟩
    unfold fit
    by_cases hu : marginalOk inp.uMin inp.uMax = true
    · have hv : marginalOk inp.vMin inp.vMax = false := by
        by_contra hv
        rw [Bool.not_eq_false] at hv
        exact (not_margBad_iff inp).2 ⟨hu, hv⟩ hm
      simp [hu, hv]
    · rw [Bool.not_eq_true] at hu
      simp [hu]
  · right
    obtain ⟨hu, hv⟩ := (not_margBad_iff inp).1 hm
    cases hn : NumFns.isNaN inp.tau
    · right
      cases hc : computeThetaFam fam s inp.tau with
      | error e =>
        left
        refine ⟨hm, rfl, e, rfl, ?_⟩
        simp [fit, hu, hv, hn, hc, st1]
      | ok θ =>
        right
        cases hk : checkThetaB fam θ
        · left
          refine ⟨hm, rfl, θ, rfl, hk, ?_⟩
          simp [fit, hu, hv, hn, hc, hk, st2]
        · right
          refine ⟨hm, rfl, θ, rfl, hk, ?_⟩
          simp [fit, hu, hv, hn, hc, hk, st2]
    · left
      refine ⟨hm, rfl, ?_⟩
      simp [fit, hu, hv, hn, st1]

/-! #### the individual exits -/

theorem fit_of_margBad {fam : Family} {s : α → α} {inp : FitInput α} {st : FitState α}
    (h : margBad inp) : fit fam s inp st = (.error .valueError, st) := by
  rcases fit_cases fam s inp st with ⟨_, e⟩ | ⟨hm, _⟩ | ⟨hm, _⟩ | ⟨hm, _⟩ | ⟨hm, _⟩
  · exact e
  all_goals exact absurd h hm

theorem fit_of_nan {fam : Family} {s : α → α} {inp : FitInput α} {st : FitState α}
    (hm : ¬ margBad inp) (hn : NumFns.isNaN inp.tau = true) :
    fit fam s inp st = (.error .valueError, st1 inp st) := by
  rcases fit_cases fam s inp st with ⟨h, _⟩ | ⟨_, _, e⟩ | ⟨_, h, _⟩ | ⟨_, h, _⟩ | ⟨_, h, _⟩
  · exact absurd h hm
  · exact e
  all_goals rw [hn] at h; exact absurd h (by decide)

theorem fit_of_compute_error {fam : Family} {s : α → α} {inp : FitInput α} {st : FitState α}
    {e : Err} (hm : ¬ margBad inp) (hn : NumFns.isNaN inp.tau = false)
    (hc : computeThetaFam fam s inp.tau = .error e) :
    fit fam s inp st = (.error e, st1 inp st) := by
  rcases fit_cases fam s inp st with ⟨h, _⟩ | ⟨_, h, _⟩ | ⟨_, _, e', he, h⟩ | ⟨_, _, θ, hθ, _⟩ |
    ⟨_, _, θ, hθ, _⟩
  · exact absurd h hm
  · rw [hn] at h; exact absurd h (by decide)
  · rw [hc] at he; cases he; exact h
  · rw [hc] at hθ; cases hθ
  · rw [hc] at hθ; cases hθ

theorem fit_of_computed {fam : Family} {s : α → α} {inp : FitInput α} {st : FitState α}
    {θ : Bound α} (hm : ¬ margBad inp) (hn : NumFns.isNaN inp.tau = false)
    (hc : computeThetaFam fam s inp.tau = .ok θ) :
    fit fam s inp st =
      (if checkThetaB fam θ = true then .ok () else .error .valueError, st2 inp θ) := by
  rcases fit_cases fam s inp st with ⟨h, _⟩ | ⟨_, h, _⟩ | ⟨_, _, e', he, _⟩ |
    ⟨_, _, θ', hθ, hk, h⟩ | ⟨_, _, θ', hθ, hk, h⟩
  · exact absurd h hm
  · rw [hn] at h; exact absurd h (by decide)
  · rw [hc] at he; cases he
  · rw [hc] at hθ; cases hθ; rw [h, hk]; simp
  · rw [hc] at hθ; cases hθ; rw [h, hk]; simp

/-- `compute_theta` can only fail with `ValueError` (Gumbel, τ = 1). -/
theorem computeThetaFam_error {fam : Family} {s : α → α} {τ : α} {e : Err}
    (h : computeThetaFam fam s τ = .error e) : e = .valueError ∧ fam = .gumbel := by
  cases fam with
  | clayton =>
    simp only [computeThetaFam, Gen.Clayton.computeTheta] at h
    split at h <;> cases h
  | frank => simp only [computeThetaFam] at h; cases h
  | gumbel =>
    simp only [computeThetaFam, Gen.Gumbel.computeTheta] at h
    split at h
    · cases h; exact ⟨rfl, rfl⟩
    · cases h

/-- Whatever `fit` raises is a `ValueError`. -/
theorem error_is_valueError {fam : Family} {s : α → α} {inp : FitInput α} {st : FitState α}
    {e : Err} (h : (fit fam s inp st).1 = .error e) : e = .valueError := by
  rcases fit_cases fam s inp st with ⟨_, h'⟩ | ⟨_, _, h'⟩ | ⟨_, _, e', he, h'⟩ |
    ⟨_, _, θ, _, _, h'⟩ | ⟨_, _, θ, _, _, h'⟩ <;> rw [h'] at h
  · cases h; rfl
  · cases h; rfl
  · cases h; exact (computeThetaFam_error he).1
  · cases h; rfl
  · cases h

/-- An accepted fit has written `tau := kendalltau`, `theta := compute_theta()` and that θ passed
`check_theta`. -/
theorem accepted_state {fam : Family} {s : α → α} {inp : FitInput α} {st : FitState α}
    (h : (fit fam s inp st).1 = .ok ()) :
    ¬ margBad inp ∧ NumFns.isNaN inp.tau = false ∧
      ∃ θ, computeThetaFam fam s inp.tau = .ok θ ∧ checkThetaB fam θ = true ∧
        (fit fam s inp st).2 = { tau := some inp.tau, theta := some θ } := by
  rcases fit_cases fam s inp st with ⟨_, h'⟩ | ⟨_, _, h'⟩ | ⟨_, _, e', he, h'⟩ |
    ⟨_, _, θ, _, _, h'⟩ | ⟨hm, hn, θ, hc, hk, h'⟩ <;> rw [h'] at h
  · cases h
  · cases h
  · cases h
  · cases h
  · exact ⟨hm, hn, θ, hc, hk, by rw [h']; rfl⟩

/-- A refused fit that started from the unfitted object cannot be used silently: `check_fit` on the
state left behind does not pass (either `theta` is still `None`, or the stored θ fails
`check_theta`/is zero). -/
theorem refused_not_usable {fam : Family} {s : α → α} {inp : FitInput α} {st : FitState α}
    {e : Err} (hst : st.theta = none) (h : (fit fam s inp st).1 = .error e) :
    usable fam (fit fam s inp st).2 ≠ .ok () := by
  rcases fit_cases fam s inp st with ⟨_, h'⟩ | ⟨_, _, h'⟩ | ⟨_, _, e', he, h'⟩ |
    ⟨_, _, θ, _, hk, h'⟩ | ⟨_, _, θ, _, _, h'⟩ <;> rw [h'] at h ⊢
  · simp [usable, hst]
  · simp [usable, st1, hst]
  · simp [usable, st1, hst]
  · cases θ with
    | fin t =>
      simp only [usable, st2, checkFit]
      simp only [checkThetaB] at hk
      rw [hk]
      split <;> simp
    | posInf => simp [usable, st2, hk]
    | negInf => simp [usable, st2, hk]
  · cases h

/-- Gumbel's `compute_theta` raises at τ = 1, before `theta` is assigned. -/
theorem gumbel_tau_one_state {s : α → α} {inp : FitInput α} {st : FitState α}
    (hm : ¬ margBad inp) (hn : NumFns.isNaN inp.tau = false)
    (h1 : NumFns.beq inp.tau (ofNat 1) = true) :
    fit .gumbel s inp st = (.error .valueError, st1 inp st) :=
  fit_of_compute_error hm hn (by simp [computeThetaFam, Gen.Gumbel.computeTheta, h1])

end generic

/-! ### the ℝ reading -/
section real

theorem not_margBad_real (inp : FitInput ℝ) :
    ¬ margBad inp ↔ 0 ≤ inp.uMin ∧ inp.uMax ≤ 1 ∧ 0 ≤ inp.vMin ∧ inp.vMax ≤ 1 := by
  simp [margBad, not_or]

theorem margBad_real (inp : FitInput ℝ) :
    margBad inp ↔ inp.uMin < 0 ∨ 1 < inp.uMax ∨ inp.vMin < 0 ∨ 1 < inp.vMax := by
  simp [margBad]

/-! #### calibration maps -/

section bridges
/- The closing tactic is written to survive harmless rewrites of the Python formula (operand order,
   sign conventions); some of its alternatives are therefore unused for the current source. -/
set_option linter.unreachableTactic false
set_option linter.unusedTactic false

/-- bridge: what the generated Clayton `compute_theta` returns for `τ ≠ 1`, characterised by the
equation `θ (1 − τ) = 2 τ`. -/
theorem clayton_computeTheta_spec {τ : ℝ} (h : τ ≠ 1) :
    ∃ θ : ℝ, Gen.Clayton.computeTheta τ = .ok (.fin θ) ∧ θ * (1 - τ) = 2 * τ := by
  have h1 : 1 - τ ≠ 0 := sub_ne_zero.2 (Ne.symm h)
  have h2 : τ - 1 ≠ 0 := sub_ne_zero.2 h
  refine ⟨_, by
    simp only [Gen.Clayton.computeTheta, beq_real, ofNat_real, Nat.cast_one, h, if_false]; rfl, ?_⟩
  push_cast
  first | (field_simp; done) | (field_simp; ring1)

/-- bridge: Gumbel `compute_theta` for `τ ≠ 1`, characterised by `θ (1 − τ) = 1`. -/
theorem gumbel_computeTheta_spec {τ : ℝ} (h : τ ≠ 1) :
    ∃ θ : ℝ, Gen.Gumbel.computeTheta τ = .ok (.fin θ) ∧ θ * (1 - τ) = 1 := by
  have h1 : 1 - τ ≠ 0 := sub_ne_zero.2 (Ne.symm h)
  have h2 : τ - 1 ≠ 0 := sub_ne_zero.2 h
  refine ⟨_, by
    simp only [Gen.Gumbel.computeTheta, beq_real, ofNat_real, Nat.cast_one, h, if_false]; rfl, ?_⟩
  push_cast
  first | (field_simp; done) | (field_simp; ring1)

end bridges

theorem clayton_computeTheta_of_ne_one {τ : ℝ} (h : τ ≠ 1) :
    Gen.Clayton.computeTheta τ = .ok (.fin (2 * τ / (1 - τ))) := by
  obtain ⟨θ, hθ, hv⟩ := clayton_computeTheta_spec h
  rw [hθ, (eq_div_iff (sub_ne_zero.2 (Ne.symm h))).2 hv]

theorem gumbel_computeTheta_of_ne_one {τ : ℝ} (h : τ ≠ 1) :
    Gen.Gumbel.computeTheta τ = .ok (.fin (1 / (1 - τ))) := by
  obtain ⟨θ, hθ, hv⟩ := gumbel_computeTheta_spec h
  rw [hθ, (eq_div_iff (sub_ne_zero.2 (Ne.symm h))).2 hv]

theorem clayton_computeTheta_one : Gen.Clayton.computeTheta (1 : ℝ) = .ok .posInf := by
  simp [Gen.Clayton.computeTheta]

theorem gumbel_computeTheta_one : Gen.Gumbel.computeTheta (1 : ℝ) = .error .valueError := by
  simp [Gen.Gumbel.computeTheta]

/-- Clayton: the calibrated θ is `2τ/(1−τ)` and its theoretical Kendall tau `θ/(θ+2)` is τ. -/
theorem clayton_roundtrip {τ θ : ℝ} (h : τ ≠ 1)
    (hc : Gen.Clayton.computeTheta τ = .ok (.fin θ)) :
    θ = 2 * τ / (1 - τ) ∧ θ / (θ + 2) = τ := by
  rw [clayton_computeTheta_of_ne_one h] at hc
  have hθ : θ = 2 * τ / (1 - τ) := by
    injection hc with hc; injection hc with hc; exact hc.symm
  refine ⟨hθ, ?_⟩
  have h1 : (1 - τ) ≠ 0 := sub_ne_zero.2 (Ne.symm h)
  have h2 : θ + 2 = 2 / (1 - τ) := by rw [hθ]; field_simp; ring
  rw [h2, hθ]
  field_simp

/-- Gumbel: the calibrated θ is `1/(1−τ)` and its theoretical Kendall tau `1 − 1/θ` is τ. -/
theorem gumbel_roundtrip {τ θ : ℝ} (h : τ ≠ 1)
    (hc : Gen.Gumbel.computeTheta τ = .ok (.fin θ)) :
    θ = 1 / (1 - τ) ∧ 1 - 1 / θ = τ := by
  rw [gumbel_computeTheta_of_ne_one h] at hc
  have hθ : θ = 1 / (1 - τ) := by
    injection hc with hc; injection hc with hc; exact hc.symm
  refine ⟨hθ, ?_⟩
  have h1 : (1 - τ) ≠ 0 := sub_ne_zero.2 (Ne.symm h)
  rw [hθ]
  field_simp
  ring

/-! #### admissible sets (generated `theta_interval` / `invalid_thetas`) -/

theorem clayton_checkThetaB_fin (θ : ℝ) : checkThetaB .clayton (.fin θ) = true ↔ 0 < θ := by
  simp only [checkThetaB, checkTheta, thetaLower, thetaUpper, invalidThetas,
    Gen.Clayton.thetaLower, Gen.Clayton.thetaUpper, Gen.Clayton.invalidThetas, Bound.leVal,
    Bound.valLe]
  simp
  constructor
  · intro h
    exact lt_of_le_of_ne h.1 (fun e => h.2 e.symm)
  · intro h
    exact ⟨h.le, h.ne'⟩

theorem clayton_checkThetaB_posInf : checkThetaB (α := ℝ) .clayton .posInf = true := by
  simp [checkThetaB, thetaUpper, Gen.Clayton.thetaUpper]

theorem gumbel_checkThetaB_fin (θ : ℝ) : checkThetaB .gumbel (.fin θ) = true ↔ 1 ≤ θ := by
  simp [checkThetaB, checkTheta, thetaLower, thetaUpper, invalidThetas,
    Gen.Gumbel.thetaLower, Gen.Gumbel.thetaUpper, Gen.Gumbel.invalidThetas, Bound.leVal,
    Bound.valLe]

theorem frank_checkThetaB_fin (θ : ℝ) : checkThetaB .frank (.fin θ) = true ↔ θ ≠ 0 := by
  simp [checkThetaB, checkTheta, thetaLower, thetaUpper, invalidThetas,
    Gen.Frank.thetaLower, Gen.Frank.thetaUpper, Gen.Frank.invalidThetas, Bound.leVal,
    Bound.valLe]

/-- In every family an admissible finite θ is non-zero, so `check_fit` passes on it. -/
theorem checkThetaB_fin_ne_zero {fam : Family} {θ : ℝ} (h : checkThetaB fam (.fin θ) = true) :
    θ ≠ 0 := by
  cases fam with
  | clayton => exact ((clayton_checkThetaB_fin θ).1 h).ne'
  | frank => exact (frank_checkThetaB_fin θ).1 h
  | gumbel =>
    have := (gumbel_checkThetaB_fin θ).1 h
    intro h0; rw [h0] at this; linarith

theorem usable_of_checkThetaB {fam : Family} {τ : Option ℝ} {θ : Bound ℝ}
    (h : checkThetaB fam θ = true) : usable fam { tau := τ, theta := some θ } = .ok () := by
  cases θ with
  | fin t =>
    have h0 := checkThetaB_fin_ne_zero h
    simp only [checkThetaB] at h
    simp [usable, checkFit, h0, h]
  | posInf => simp [usable, h]
  | negInf => simp [usable, h]

/-- A successful fit never leaves a silently invalid model: `check_fit` passes on the state it
leaves (all three families; includes Clayton's `τ = 1 ⇒ θ = +∞`, which `check_theta` and
`check_fit` both accept). -/
theorem accepted_is_usable {fam : Family} {s : ℝ → ℝ} {inp : FitInput ℝ} {st : FitState ℝ}
    (h : (fit fam s inp st).1 = .ok ()) : usable fam (fit fam s inp st).2 = .ok () := by
  obtain ⟨_, _, θ, _, hk, hst⟩ := accepted_state h
  rw [hst]
  exact usable_of_checkThetaB hk

/-- The only way an accepted fit stores a non-finite θ is Clayton with `τ = 1`. -/
theorem accepted_theta_finite {fam : Family} {s : ℝ → ℝ} {inp : FitInput ℝ} {st : FitState ℝ}
    (h : (fit fam s inp st).1 = .ok ()) (h1 : inp.tau ≠ 1) :
    ∃ θ : ℝ, (fit fam s inp st).2 = { tau := some inp.tau, theta := some (.fin θ) } ∧ θ ≠ 0 ∧
      computeThetaFam fam s inp.tau = .ok (.fin θ) := by
  obtain ⟨_, _, θ, hc, hk, hst⟩ := accepted_state h
  cases fam with
  | clayton =>
    simp only [computeThetaFam, clayton_computeTheta_of_ne_one h1] at hc
    cases hc
    exact ⟨_, hst, checkThetaB_fin_ne_zero hk, by
      simp only [computeThetaFam, clayton_computeTheta_of_ne_one h1]⟩
  | frank =>
    simp only [computeThetaFam] at hc
    cases hc
    exact ⟨_, hst, checkThetaB_fin_ne_zero hk, rfl⟩
  | gumbel =>
    simp only [computeThetaFam, gumbel_computeTheta_of_ne_one h1] at hc
    cases hc
    exact ⟨_, hst, checkThetaB_fin_ne_zero hk, by
      simp only [computeThetaFam, gumbel_computeTheta_of_ne_one h1]⟩

/-! #### acceptance -/

theorem fit_ok_iff {fam : Family} {s : ℝ → ℝ} {inp : FitInput ℝ} {st : FitState ℝ} :
    (fit fam s inp st).1 = .ok () ↔
      ¬ margBad inp ∧ ∃ θ, computeThetaFam fam s inp.tau = .ok θ ∧ checkThetaB fam θ = true := by
  constructor
  · intro h
    obtain ⟨hm, _, θ, hc, hk, _⟩ := accepted_state h
    exact ⟨hm, θ, hc, hk⟩
  · rintro ⟨hm, θ, hc, hk⟩
    rw [fit_of_computed hm (isNaN_real _) hc, hk]
    simp

/-- Clayton, all τ: accepted iff the marginals are in range and `0 < τ ≤ 1`. -/
theorem clayton_accepts_iff_full {s : ℝ → ℝ} {inp : FitInput ℝ} {st : FitState ℝ} :
    (fit .clayton s inp st).1 = .ok () ↔
      (0 ≤ inp.uMin ∧ inp.uMax ≤ 1 ∧ 0 ≤ inp.vMin ∧ inp.vMax ≤ 1) ∧ 0 < inp.tau ∧ inp.tau ≤ 1 := by
  rw [fit_ok_iff, not_margBad_real]
  refine and_congr_right (fun _ => ?_)
  by_cases h1 : inp.tau = 1
  · simp only [computeThetaFam, h1, clayton_computeTheta_one]
    constructor
    · intro _; exact ⟨one_pos, le_rfl⟩
    · intro _; exact ⟨_, rfl, clayton_checkThetaB_posInf⟩
  · simp only [computeThetaFam, clayton_computeTheta_of_ne_one h1]
    constructor
    · rintro ⟨θ, hθ, hk⟩
      cases hθ
      rw [clayton_checkThetaB_fin] at hk
      by_cases hlt : inp.tau < 1
      · have hpos : 0 < 1 - inp.tau := by linarith
        have : 0 < 2 * inp.tau := by
          have := mul_pos hk hpos
          rwa [div_mul_cancel₀ _ hpos.ne'] at this
        exact ⟨by linarith, hlt.le⟩
      · have hgt : 1 < inp.tau := lt_of_le_of_ne (not_lt.1 hlt) (Ne.symm h1)
        have hneg : 1 - inp.tau < 0 := by linarith
        have : 2 * inp.tau / (1 - inp.tau) < 0 := div_neg_of_pos_of_neg (by linarith) hneg
        linarith
    · rintro ⟨h0, hle⟩
      have hlt : inp.tau < 1 := lt_of_le_of_ne hle h1
      refine ⟨_, rfl, ?_⟩
      rw [clayton_checkThetaB_fin]
      exact div_pos (by linarith) (by linarith)

/-- Clayton on the property's range `τ < 1`: accepted iff marginals in range and `0 < τ`
(`τ = 0 ⇒ θ = 0 ∈ invalid_thetas` and `τ < 0 ⇒ θ < 0` are refused). -/
theorem clayton_accepts_iff {s : ℝ → ℝ} {inp : FitInput ℝ} {st : FitState ℝ} (h1 : inp.tau < 1) :
    (fit .clayton s inp st).1 = .ok () ↔
      (0 ≤ inp.uMin ∧ inp.uMax ≤ 1 ∧ 0 ≤ inp.vMin ∧ inp.vMax ≤ 1) ∧ 0 < inp.tau := by
  rw [clayton_accepts_iff_full]
  constructor
  · rintro ⟨hm, h0, _⟩; exact ⟨hm, h0⟩
  · rintro ⟨hm, h0⟩; exact ⟨hm, h0, h1.le⟩

/-- Gumbel, all τ: accepted iff marginals in range and `0 ≤ τ < 1`. -/
theorem gumbel_accepts_iff {s : ℝ → ℝ} {inp : FitInput ℝ} {st : FitState ℝ} :
    (fit .gumbel s inp st).1 = .ok () ↔
      (0 ≤ inp.uMin ∧ inp.uMax ≤ 1 ∧ 0 ≤ inp.vMin ∧ inp.vMax ≤ 1) ∧ 0 ≤ inp.tau ∧ inp.tau < 1 := by
  rw [fit_ok_iff, not_margBad_real]
  refine and_congr_right (fun _ => ?_)
  by_cases h1 : inp.tau = 1
  · simp only [computeThetaFam, h1, gumbel_computeTheta_one]
    constructor
    · rintro ⟨θ, hθ, _⟩; cases hθ
    · rintro ⟨_, h⟩; exact absurd h (lt_irrefl _)
  · simp only [computeThetaFam, gumbel_computeTheta_of_ne_one h1]
    constructor
    · rintro ⟨θ, hθ, hk⟩
      cases hθ
      rw [gumbel_checkThetaB_fin] at hk
      by_cases hlt : inp.tau < 1
      · have hpos : 0 < 1 - inp.tau := by linarith
        have := (le_div_iff₀ hpos).1 hk
        exact ⟨by linarith, hlt⟩
      · have hgt : 1 < inp.tau := lt_of_le_of_ne (not_lt.1 hlt) (Ne.symm h1)
        have hneg : 1 - inp.tau < 0 := by linarith
        have : 1 / (1 - inp.tau) < 0 := div_neg_of_pos_of_neg one_pos hneg
        linarith
    · rintro ⟨h0, hlt⟩
      refine ⟨_, rfl, ?_⟩
      rw [gumbel_checkThetaB_fin]
      have hpos : 0 < 1 - inp.tau := by linarith
      rw [le_div_iff₀ hpos]
      linarith

/-- Frank: accepted iff marginals in range and the solver's θ is non-zero. -/
theorem frank_accepts_iff {s : ℝ → ℝ} {inp : FitInput ℝ} {st : FitState ℝ} :
    (fit .frank s inp st).1 = .ok () ↔
      (0 ≤ inp.uMin ∧ inp.uMax ≤ 1 ∧ 0 ≤ inp.vMin ∧ inp.vMax ≤ 1) ∧ s inp.tau ≠ 0 := by
  rw [fit_ok_iff, not_margBad_real]
  refine and_congr_right (fun _ => ?_)
  simp only [computeThetaFam]
  constructor
  · rintro ⟨θ, hθ, hk⟩
    cases hθ
    exact (frank_checkThetaB_fin _).1 hk
  · intro h
    exact ⟨_, rfl, (frank_checkThetaB_fin _).2 h⟩

/-! #### Frank: the residual the solver minimises -/

/-- `_tau_to_theta(a) = τ(a) − τ` with `τ(a) = 1 + 4 (D₁(a) − 1)/a`, `D₁(a) = quad(debye, ε, a)/a`
(no hypothesis on `a` is needed: both sides use the same totalised division). -/
theorem frank_residual_zero_iff (quad : (ℝ → ℝ) → ℝ → ℝ → ℝ) (ε τ a : ℝ) :
    Gen.Frank.tauResidual quad ε τ a = 0 ↔
      1 + 4 * (quad Gen.Frank.debyeIntegrand ε a / a - 1) / a = τ := by
  simp only [Gen.Frank.tauResidual, ofNat_real, Nat.cast_ofNat, Nat.cast_one]
  constructor <;> intro h <;> linear_combination h

theorem debyeIntegrand_eq (t : ℝ) : Gen.Frank.debyeIntegrand t = t / (Real.exp t - 1) := by
  simp [Gen.Frank.debyeIntegrand]

/-- The Debye integrand `t/(eᵗ − 1)` lies in `(0,1)` for `t > 0`. -/
theorem debyeIntegrand_pos {t : ℝ} (ht : 0 < t) : 0 < Gen.Frank.debyeIntegrand t := by
  rw [debyeIntegrand_eq]
  have : t + 1 < Real.exp t := Real.add_one_lt_exp ht.ne'
  exact div_pos ht (by linarith)

theorem debyeIntegrand_lt_one {t : ℝ} (ht : 0 < t) : Gen.Frank.debyeIntegrand t < 1 := by
  rw [debyeIntegrand_eq]
  have : t + 1 < Real.exp t := Real.add_one_lt_exp ht.ne'
  rw [div_lt_one (by linarith)]
  linarith

/-- Also for `t < 0` the integrand is positive (the solver's bounds allow negative θ). -/
theorem debyeIntegrand_pos_of_neg {t : ℝ} (ht : t < 0) : 0 < Gen.Frank.debyeIntegrand t := by
  rw [debyeIntegrand_eq]
  have : Real.exp t < 1 := by
    rw [← Real.exp_zero]; exact Real.exp_lt_exp.2 ht
  exact div_pos_of_neg_of_neg ht (by linarith)

end real

/-! ### Frank: monotonicity of `τ(θ)` on the positive branch (partial)

With `quad` read as the exact interval integral and a lower limit `ε > 0` (the code's `EPSILON`),
the residual `a ↦ τ(a) − τ` is strictly increasing on `[ε, ∞)`:
`τ'(a) = 4 N(a)/a³`, `N(a) = a + a d(a) − 2∫_ε^a d`, `N(ε) > 0`,
`N'(a) = ((eᵃ−1)² − a² eᵃ)/(eᵃ−1)² ≥ 0` because `sinh (a/2) ≥ a/2`. -/
section frankMono
open Real MeasureTheory intervalIntegral

/-- the Debye integrand `t/(eᵗ−1)` -/
noncomputable def dbe (t : ℝ) : ℝ := t / (Real.exp t - 1)

theorem bridge_dbe : (Gen.Frank.debyeIntegrand : ℝ → ℝ) = dbe := by
  funext t; simp [Gen.Frank.debyeIntegrand, dbe]

theorem exp_sub_one_pos {t : ℝ} (ht : 0 < t) : 0 < Real.exp t - 1 := by
  have := Real.add_one_lt_exp ht.ne'; linarith

theorem dbe_continuousOn : ContinuousOn dbe (Set.Ioi 0) := by
  unfold dbe
  refine ContinuousOn.div continuousOn_id (by fun_prop) ?_
  intro t ht; exact (exp_sub_one_pos ht).ne'

theorem dbe_hasDerivAt {t : ℝ} (ht : 0 < t) :
    HasDerivAt dbe ((1 * (Real.exp t - 1) - t * Real.exp t) / (Real.exp t - 1) ^ 2) t := by
  have h1 : HasDerivAt (fun t => Real.exp t - 1) (Real.exp t) t :=
    (Real.hasDerivAt_exp t).sub_const 1
  exact (hasDerivAt_id t).div h1 (exp_sub_one_pos ht).ne'

/-- `I ε a = ∫_ε^a t/(eᵗ−1) dt` -/
noncomputable def I (ε a : ℝ) : ℝ := ∫ t in ε..a, dbe t

theorem I_hasDerivAt {ε a : ℝ} (hε : 0 < ε) (ha : 0 < a) : HasDerivAt (I ε) (dbe a) a := by
  unfold I
  apply intervalIntegral.integral_hasDerivAt_right
  · apply ContinuousOn.intervalIntegrable
    apply dbe_continuousOn.mono
    intro x hx
    rcases Set.mem_uIcc.1 hx with h | h
    · exact lt_of_lt_of_le hε h.1
    · exact lt_of_lt_of_le ha h.1
  · exact dbe_continuousOn.stronglyMeasurableAtFilter isOpen_Ioi a ha
  · exact dbe_continuousOn.continuousAt (Ioi_mem_nhds ha)

theorem key_ineq {a : ℝ} (ha : 0 ≤ a) : a ^ 2 * Real.exp a ≤ (Real.exp a - 1) ^ 2 := by
  have hs : a / 2 ≤ Real.sinh (a / 2) := Real.self_le_sinh_iff.2 (by linarith)
  rw [Real.sinh_eq] at hs
  have hy0 : 0 < Real.exp (a / 2) := Real.exp_pos _
  have hinv : Real.exp (-(a / 2)) = (Real.exp (a / 2))⁻¹ := Real.exp_neg _
  have hsq : Real.exp a = Real.exp (a / 2) ^ 2 := by
    rw [sq, ← Real.exp_add]; congr 1; ring
  rw [hinv] at hs
  generalize Real.exp (a / 2) = y at *
  have h1 : a * y ≤ y ^ 2 - 1 := by
    have h2 : a ≤ y - y⁻¹ := by linarith
    have h3 := mul_le_mul_of_nonneg_right h2 hy0.le
    rw [sub_mul, inv_mul_cancel₀ hy0.ne'] at h3
    nlinarith
  rw [hsq]
  have h0 : 0 ≤ a * y := mul_nonneg ha hy0.le
  have := pow_le_pow_left₀ h0 h1 2
  nlinarith

/-- numerator of `τ'(a)`: `N(a) = a + a·d(a) − 2 I(a)` -/
noncomputable def N (ε a : ℝ) : ℝ := a + a * dbe a - 2 * I ε a

theorem N_hasDerivAt {ε a : ℝ} (hε : 0 < ε) (ha : 0 < a) :
    HasDerivAt (N ε)
      (((Real.exp a - 1) ^ 2 - a ^ 2 * Real.exp a) / (Real.exp a - 1) ^ 2) a := by
  have hd := dbe_hasDerivAt ha
  have hI := I_hasDerivAt hε ha
  have h : HasDerivAt (fun x => x + x * dbe x - 2 * I ε x)
      (1 + (1 * dbe a + a * ((1 * (Real.exp a - 1) - a * Real.exp a) / (Real.exp a - 1) ^ 2))
        - 2 * dbe a) a :=
    ((hasDerivAt_id' a).add ((hasDerivAt_id' a).mul hd)).sub (hI.const_mul 2)
  have hne : Real.exp a - 1 ≠ 0 := (exp_sub_one_pos ha).ne'
  have h' : HasDerivAt (N ε) _ a := h
  refine h'.congr_deriv ?_
  simp only [dbe]
  field_simp
  ring

theorem N_pos {ε a : ℝ} (hε : 0 < ε) (ha : ε ≤ a) : 0 < N ε a := by
  have hmono : MonotoneOn (N ε) (Set.Ici ε) := by
    apply monotoneOn_of_deriv_nonneg (convex_Ici ε)
    · intro x hx
      exact (N_hasDerivAt hε (lt_of_lt_of_le hε hx)).continuousAt.continuousWithinAt
    · intro x hx
      rw [interior_Ici] at hx
      exact (N_hasDerivAt hε (lt_trans hε hx)).differentiableAt.differentiableWithinAt
    · intro x hx
      rw [interior_Ici] at hx
      have hx0 : 0 < x := lt_trans hε hx
      rw [(N_hasDerivAt hε hx0).deriv]
      apply div_nonneg
      · have := key_ineq hx0.le; linarith
      · positivity
  have h0 : 0 < N ε ε := by
    simp only [N, I, intervalIntegral.integral_same, mul_zero, sub_zero]
    have : 0 < dbe ε := div_pos hε (exp_sub_one_pos hε)
    have := mul_pos hε this
    linarith
  exact lt_of_lt_of_le h0 (hmono Set.self_mem_Ici ha ha)

/-- `τ(a) − τ` with the exact integral for `quad` -/
noncomputable def T (ε τ a : ℝ) : ℝ := 4 * (I ε a / a - 1) / a + 1 - τ

theorem T_hasDerivAt {ε τ a : ℝ} (hε : 0 < ε) (ha : 0 < a) :
    HasDerivAt (T ε τ) (4 * N ε a / a ^ 3) a := by
  have hI := I_hasDerivAt hε ha
  have h1 : HasDerivAt (fun x => I ε x / x) ((dbe a * a - I ε a * 1) / a ^ 2) a :=
    hI.div (hasDerivAt_id' a) ha.ne'
  have h2 : HasDerivAt (fun x => 4 * (I ε x / x - 1) / x)
      ((4 * ((dbe a * a - I ε a * 1) / a ^ 2) * a - 4 * (I ε a / a - 1) * 1) / a ^ 2) a :=
    ((h1.sub_const 1).const_mul 4).div (hasDerivAt_id' a) ha.ne'
  have h3 : HasDerivAt (T ε τ) _ a := (h2.add_const 1).sub_const τ
  refine h3.congr_deriv ?_
  simp only [N]
  field_simp
  ring

theorem T_strictMonoOn {ε τ : ℝ} (hε : 0 < ε) : StrictMonoOn (T ε τ) (Set.Ici ε) := by
  apply strictMonoOn_of_deriv_pos (convex_Ici ε)
  · intro x hx
    exact (T_hasDerivAt hε (lt_of_lt_of_le hε hx)).continuousAt.continuousWithinAt
  · intro x hx
    rw [interior_Ici] at hx
    have hx0 : 0 < x := lt_trans hε hx
    rw [(T_hasDerivAt hε hx0).deriv]
    have := N_pos hε hx.le
    positivity

theorem bridge_tauResidual (ε τ a : ℝ) :
    Gen.Frank.tauResidual (fun f lo hi => ∫ t in lo..hi, f t) ε τ a = T ε τ a := by
  simp only [Gen.Frank.tauResidual, bridge_dbe, T, I, ofNat_real]
  push_cast
  ring


/-- Two zeros of the residual in `[ε, ∞)` coincide. -/
theorem frank_root_unique {ε τ a b : ℝ} (hε : 0 < ε) (ha : ε ≤ a) (hb : ε ≤ b)
    (ra : Gen.Frank.tauResidual (fun f lo hi => ∫ t in lo..hi, f t) ε τ a = 0)
    (rb : Gen.Frank.tauResidual (fun f lo hi => ∫ t in lo..hi, f t) ε τ b = 0) : a = b := by
  rw [bridge_tauResidual] at ra rb
  exact (T_strictMonoOn (τ := τ) hε).injOn ha hb (ra.trans rb.symm)

end frankMono

end CopVerif.BivFit
