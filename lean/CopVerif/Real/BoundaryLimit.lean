import Mathlib.Topology.Order.Basic
import CopVerif.Real.RosenblattGumbel
import CopVerif.Real.RosenblattClayton
/-!
  The boundary `u = 0` / `v = 0` of the Gumbel and Clayton CDFs as a LIMIT (C06b).  The Gumbel closed
  form goes through `log 0`; over ℝ (`Real.log 0 = 0`) the formula evaluates to the junk value
  `C θ 0 v = v`.  What is true of the mathematical function is that it tends to `0` at the boundary
  and that its extension by `0` is continuous on the closed unit square.
-/
namespace CopVerif.BoundaryLimit
open CopVerif Real Filter Set
open scoped Topology

/-- squeeze lemma: a function on the closed unit square that is continuous at the points with both
coordinates positive and lies between `0` and `min u v` is continuous on the closed square. -/
theorem continuousOn_of_squeeze {F : ℝ × ℝ → ℝ}
    (hint : ∀ p : ℝ × ℝ, 0 < p.1 → 0 < p.2 → p.1 ≤ 1 → p.2 ≤ 1 → ContinuousAt F p)
    (hb : ∀ p ∈ Icc (0 : ℝ) 1 ×ˢ Icc (0 : ℝ) 1, 0 ≤ F p ∧ F p ≤ min p.1 p.2) :
    ContinuousOn F (Icc (0 : ℝ) 1 ×ˢ Icc (0 : ℝ) 1) := by
  intro p hp
  have hp1 := hp.1
  have hp2 := hp.2
  by_cases hpos : 0 < p.1 ∧ 0 < p.2
  · exact (hint p hpos.1 hpos.2 hp1.2 hp2.2).continuousWithinAt
  · have hmin : min p.1 p.2 = 0 := by
      rcases not_and_or.1 hpos with h | h
      · have : p.1 = 0 := le_antisymm (not_lt.1 h) hp1.1
        rw [this]; exact min_eq_left hp2.1
      · have : p.2 = 0 := le_antisymm (not_lt.1 h) hp2.1
        rw [this]; exact min_eq_right hp1.1
    have hF : F p = 0 := by
      have := hb p hp
      rw [hmin] at this
      exact le_antisymm this.2 this.1
    have hm : Tendsto (fun q : ℝ × ℝ => min q.1 q.2) (𝓝[Icc (0 : ℝ) 1 ×ˢ Icc (0 : ℝ) 1] p) (𝓝 0) := by
      have hc : Continuous (fun q : ℝ × ℝ => min q.1 q.2) := continuous_fst.min continuous_snd
      have := hc.continuousWithinAt (s := Icc (0 : ℝ) 1 ×ˢ Icc (0 : ℝ) 1) (x := p)
      unfold ContinuousWithinAt at this
      simp only [hmin] at this
      exact this
    unfold ContinuousWithinAt
    rw [hF]
    refine tendsto_of_tendsto_of_tendsto_of_le_of_le' tendsto_const_nhds hm ?_ ?_
    · filter_upwards [self_mem_nhdsWithin] with q hq using (hb q hq).1
    · filter_upwards [self_mem_nhdsWithin] with q hq using (hb q hq).2

/-! ## Gumbel -/
section gumbel
open CopVerif.Gumbel

/-- the value computed by `Gumbel.cumulative_distribution` on positive arguments is the closed form
(also at `θ = 1`, where the code returns `u·v`) -/
theorem gumbel_cdfPt_of_pos {θ u v : ℝ} (hu : 0 < u) (hv : 0 < v) :
    Gen.Gumbel.cdfPt θ u v = C θ u v := by
  rw [bridge_cdfPt]
  split_ifs with h
  · rw [h, C_theta_one hu hv]
  · rfl

theorem gumbel_tendsto_right {θ u : ℝ} (hθ : 1 ≤ θ) (hu : 0 < u) (hu1 : u ≤ 1) :
    Tendsto (fun v => Gen.Gumbel.cdfPt θ u v) (𝓝[>] 0) (𝓝 0) := by
  refine (tendsto_C_right_zero hθ hu hu1).congr' ?_
  filter_upwards [self_mem_nhdsWithin] with v hv
  exact (gumbel_cdfPt_of_pos hu hv).symm

theorem gumbel_tendsto_left {θ v : ℝ} (hθ : 1 ≤ θ) (hv : 0 < v) (hv1 : v ≤ 1) :
    Tendsto (fun u => Gen.Gumbel.cdfPt θ u v) (𝓝[>] 0) (𝓝 0) := by
  refine (tendsto_C_right_zero hθ hv hv1).congr' ?_
  filter_upwards [self_mem_nhdsWithin] with u hu
  rw [gumbel_cdfPt_of_pos hu hv, C_symm]

/-- joint continuity of the closed form at points with non-zero coordinates -/
theorem gumbel_C_continuousAt {θ : ℝ} (hθ : 1 ≤ θ) {p : ℝ × ℝ} (h1 : p.1 ≠ 0) (h2 : p.2 ≠ 0) :
    ContinuousAt (fun q : ℝ × ℝ => C θ q.1 q.2) p := by
  have hS : ContinuousAt (fun q : ℝ × ℝ => S θ q.1 q.2) p := by
    unfold S
    exact ((((Real.continuousAt_log h1).comp continuousAt_fst).neg).rpow_const
        (Or.inr (by linarith))).add
      ((((Real.continuousAt_log h2).comp continuousAt_snd).neg).rpow_const (Or.inr (by linarith)))
  unfold C
  exact ((hS.rpow_const (Or.inr (by positivity))).neg).rexp

/-- the CDF extended by `0` to the edges `u = 0`, `v = 0` -/
noncomputable def gumbelExt (θ : ℝ) (p : ℝ × ℝ) : ℝ :=
  if 0 < p.1 ∧ 0 < p.2 then Gen.Gumbel.cdfPt θ p.1 p.2 else 0

theorem gumbelExt_continuousOn {θ : ℝ} (hθ : 1 ≤ θ) :
    ContinuousOn (gumbelExt θ) (Icc (0 : ℝ) 1 ×ˢ Icc (0 : ℝ) 1) := by
  apply continuousOn_of_squeeze
  · intro p h1 h2 _ _
    have hc := gumbel_C_continuousAt hθ h1.ne' h2.ne'
    refine hc.congr ?_
    have hopen : IsOpen {q : ℝ × ℝ | 0 < q.1 ∧ 0 < q.2} :=
      (isOpen_lt continuous_const continuous_fst).inter (isOpen_lt continuous_const continuous_snd)
    filter_upwards [hopen.mem_nhds (show p ∈ {q : ℝ × ℝ | 0 < q.1 ∧ 0 < q.2} from ⟨h1, h2⟩)]
      with q hq
    simp only [gumbelExt, if_pos hq, gumbel_cdfPt_of_pos hq.1 hq.2]
  · intro p hp
    by_cases hpos : 0 < p.1 ∧ 0 < p.2
    · simp only [gumbelExt, if_pos hpos, gumbel_cdfPt_of_pos hpos.1 hpos.2]
      exact ⟨(C_pos hθ hpos.1 hp.1.2 hpos.2 hp.2.2).le, C_le_min hθ hpos.1 hp.1.2 hpos.2 hp.2.2⟩
    · simp only [gumbelExt, if_neg hpos]
      exact ⟨le_rfl, le_min hp.1.1 hp.2.1⟩

/-- the totalisation artefact: with `Real.log 0 = 0` the closed form at `u = 0` is `v`, not `0` -/
theorem gumbel_formula_junk {θ v : ℝ} (hθ : 1 ≤ θ) (hv : 0 < v) (hv1 : v ≤ 1) : C θ 0 v = v := by
  have h := C_one_left hθ hv hv1
  simp only [C, S, Real.log_zero, Real.log_one] at h ⊢
  exact h

end gumbel

/-! ## Clayton -/
section clayton
open CopVerif.Clayton

theorem clayton_tendsto_right {θ u : ℝ} (hθ : 0 < θ) (hu : 0 < u) (hu1 : u ≤ 1) :
    Tendsto (fun v => Gen.Clayton.cdfRow θ u v) (𝓝[>] 0) (𝓝 0) := by
  simp only [bridge_cdfRow]; exact tendsto_C_right_zero hθ hu hu1

theorem clayton_tendsto_left {θ v : ℝ} (hθ : 0 < θ) (hv : 0 < v) (hv1 : v ≤ 1) :
    Tendsto (fun u => Gen.Clayton.cdfRow θ u v) (𝓝[>] 0) (𝓝 0) := by
  simp only [bridge_cdfRow]
  refine (tendsto_C_right_zero hθ hv hv1).congr' ?_
  filter_upwards with u
  rw [C_symm]

theorem clayton_C_continuousOn {θ : ℝ} (hθ : 0 < θ) :
    ContinuousOn (fun p : ℝ × ℝ => Gen.Clayton.cdfRow θ p.1 p.2)
      (Icc (0 : ℝ) 1 ×ˢ Icc (0 : ℝ) 1) := by
  simp only [bridge_cdfRow]
  apply continuousOn_of_squeeze
  · intro p h1 h2 h1' h2'
    have hbase : ContinuousAt (fun q : ℝ × ℝ => q.1 ^ (-θ) + q.2 ^ (-θ) - 1) p :=
      ((continuousAt_fst.rpow_const (Or.inl h1.ne')).add
        (continuousAt_snd.rpow_const (Or.inl h2.ne'))).sub continuousAt_const
    have hne : p.1 ^ (-θ) + p.2 ^ (-θ) - 1 ≠ 0 := by
      have := S_ge_one hθ h1 h1' h2 h2'
      linarith
    have hc : ContinuousAt (fun q : ℝ × ℝ => (q.1 ^ (-θ) + q.2 ^ (-θ) - 1) ^ (-1 / θ)) p :=
      hbase.rpow_const (Or.inl hne)
    refine hc.congr ?_
    have hopen : IsOpen {q : ℝ × ℝ | 0 < q.1 ∧ 0 < q.2} :=
      (isOpen_lt continuous_const continuous_fst).inter (isOpen_lt continuous_const continuous_snd)
    filter_upwards [hopen.mem_nhds (show p ∈ {q : ℝ × ℝ | 0 < q.1 ∧ 0 < q.2} from ⟨h1, h2⟩)]
      with q hq
    simp only [C, if_pos hq]
  · intro p hp
    exact ⟨C_nonneg hθ hp.1.1 hp.1.2 hp.2.1 hp.2.2, C_le_min hθ hp.1.1 hp.1.2 hp.2.1 hp.2.2⟩

end clayton

end CopVerif.BoundaryLimit
