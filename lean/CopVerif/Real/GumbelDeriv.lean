import Mathlib.Analysis.SpecialFunctions.Pow.Deriv
import CopVerif.Real.Gumbel
/-! Gumbel copula over ℝ, C07 derivative facts: on the open unit square and for `θ > 1`,
    `h = ∂C/∂v` and `c = ∂h/∂u = ∂²C/∂u∂v`; at `θ = 1` the (repaired) shortcuts of the generated
    `partial_derivative` (returns `u`) and `probability_density` (returns `1`) are the derivatives
    of the `θ = 1` CDF `u*v` and agree with the general formulas (`Gumbel.h_theta_one`,
    `Gumbel.c_theta_one`).  Before the repair they returned `v` and `u*v`; the former witness
    `(1/4, 1/2)` is kept as a regression theorem. -/
namespace CopVerif.Gumbel
open CopVerif NumFns Real

/-- `d/dt (-log t)^p = -(1/t) · p · (-log t)^(p-1)` on `(0,1)`. -/
theorem hasDerivAt_negLog_rpow (p : ℝ) {t : ℝ} (ht : 0 < t) (ht1 : t < 1) :
    HasDerivAt (fun t => (-Real.log t) ^ p) (-(t⁻¹) * p * (-Real.log t) ^ (p - 1)) t := by
  have h1 : HasDerivAt (fun t => -Real.log t) (-(t⁻¹)) t := (Real.hasDerivAt_log ht.ne').neg
  exact h1.rpow_const (Or.inl (neg_log_pos ht ht1).ne')

theorem hasDerivAt_S_right (θ u : ℝ) {v : ℝ} (hv : 0 < v) (hv1 : v < 1) :
    HasDerivAt (fun v => S θ u v) (-(v⁻¹) * θ * (-Real.log v) ^ (θ - 1)) v := by
  have := (hasDerivAt_negLog_rpow θ hv hv1).const_add ((-Real.log u) ^ θ)
  exact this

theorem hasDerivAt_S_left (θ v : ℝ) {u : ℝ} (hu : 0 < u) (hu1 : u < 1) :
    HasDerivAt (fun u => S θ u v) (-(u⁻¹) * θ * (-Real.log u) ^ (θ - 1)) u := by
  have := (hasDerivAt_negLog_rpow θ hu hu1).add_const ((-Real.log v) ^ θ)
  exact this

/-- Chain rule for `x ↦ exp(-(s x)^(1/θ))` where `s x > 0`. -/
theorem hasDerivAt_exp_neg_rpow {s : ℝ → ℝ} {s' x θ : ℝ} (hs : HasDerivAt s s' x)
    (hpos : 0 < s x) :
    HasDerivAt (fun x => Real.exp (-(s x) ^ (1 / θ)))
      (Real.exp (-(s x) ^ (1 / θ)) * -(s' * (1 / θ) * (s x) ^ (1 / θ - 1))) x :=
  ((hs.rpow_const (p := 1 / θ) (Or.inl hpos.ne')).neg).exp

/-- `h` is the partial derivative of `C` in the second argument. -/
theorem hasDerivAt_C_right {θ u v : ℝ} (hθ : 1 < θ) (hu : 0 < u) (hu1 : u < 1) (hv : 0 < v)
    (hv1 : v < 1) : HasDerivAt (fun v => C θ u v) (h θ u v) v := by
  have h0 : θ ≠ 0 := by linarith
  have hS := S_pos (θ := θ) hu hu1 hv hv1
  have key := hasDerivAt_exp_neg_rpow (θ := θ) (hasDerivAt_S_right θ u hv hv1) hS
  have e : h θ u v = Real.exp (-(S θ u v) ^ (1 / θ)) *
      -(-(v⁻¹) * θ * (-Real.log v) ^ (θ - 1) * (1 / θ) * (S θ u v) ^ (1 / θ - 1)) := by
    simp only [h, C]
    rw [show (-1 + 1 / θ : ℝ) = 1 / θ - 1 by ring]
    field_simp
  rw [e]
  exact key

/-- Non-vacuity: an instance of the hypotheses. -/
example : HasDerivAt (fun v => C 2 (1 / 2) v) (h 2 (1 / 2) (1 / 3)) (1 / 3) :=
  hasDerivAt_C_right (by norm_num) (by norm_num) (by norm_num) (by norm_num) (by norm_num)

/-- By symmetry: `∂C/∂u (u,v) = h θ v u`. -/
theorem hasDerivAt_C_left {θ u v : ℝ} (hθ : 1 < θ) (hu : 0 < u) (hu1 : u < 1) (hv : 0 < v)
    (hv1 : v < 1) : HasDerivAt (fun u => C θ u v) (h θ v u) u := by
  have := hasDerivAt_C_right hθ hv hv1 hu hu1
  simpa only [C_symm θ v] using this

/-- The density `c` is the partial derivative of the conditional CDF `h` in the first argument,
i.e. `c = ∂²C/∂u∂v`. -/
theorem hasDerivAt_h_left {θ u v : ℝ} (hθ : 1 < θ) (hu : 0 < u) (hu1 : u < 1) (hv : 0 < v)
    (hv1 : v < 1) : HasDerivAt (fun u => h θ u v) (c θ u v) u := by
  have h0 : θ ≠ 0 := by linarith
  have hS := S_pos (θ := θ) hu hu1 hv hv1
  have ha := neg_log_pos hu hu1
  have hb := neg_log_pos hv hv1
  have dS := hasDerivAt_S_left θ v hu hu1
  have dC := hasDerivAt_exp_neg_rpow (θ := θ) dS hS
  have dX := dS.rpow_const (p := -1 + 1 / θ) (Or.inl hS.ne')
  have key := ((dC.mul dX).mul_const ((-Real.log v) ^ (θ - 1))).div_const v
  -- express every power of `S` through `X = S^(-1+1/θ)` and `Y = S^(-1/θ)`
  have e1 : (S θ u v) ^ (1 / θ - 1) = (S θ u v) ^ (-1 + 1 / θ) := by
    rw [show (1 / θ - 1 : ℝ) = -1 + 1 / θ by ring]
  have e2 : (S θ u v) ^ (-1 + 1 / θ - 1) =
      (S θ u v) ^ (-1 + 1 / θ) * (S θ u v) ^ (-1 + 1 / θ) * (S θ u v) ^ (-1 / θ) := by
    rw [← Real.rpow_add hS, ← Real.rpow_add hS]
    congr 1; ring
  have e3 : (S θ u v) ^ (-2 + 2 / θ) = (S θ u v) ^ (-1 + 1 / θ) * (S θ u v) ^ (-1 + 1 / θ) := by
    rw [← Real.rpow_add hS]
    congr 1; ring
  have e4 : (Real.log u * Real.log v) ^ (θ - 1) =
      (-Real.log u) ^ (θ - 1) * (-Real.log v) ^ (θ - 1) := by
    rw [← Real.mul_rpow ha.le hb.le]
    congr 1; ring
  have e5 : (u * v) ^ (-1 : ℝ) = u⁻¹ * v⁻¹ := by
    rw [Real.rpow_neg_one, mul_inv]
  have e : c θ u v =
      (Real.exp (-(S θ u v) ^ (1 / θ)) *
            -(-(u⁻¹) * θ * (-Real.log u) ^ (θ - 1) * (1 / θ) * (S θ u v) ^ (1 / θ - 1)) *
          (S θ u v) ^ (-1 + 1 / θ) +
        Real.exp (-(S θ u v) ^ (1 / θ)) *
          (-(u⁻¹) * θ * (-Real.log u) ^ (θ - 1) * (-1 + 1 / θ) *
            (S θ u v) ^ (-1 + 1 / θ - 1))) *
        (-Real.log v) ^ (θ - 1) / v := by
    simp only [c, C]
    rw [e1, e2, e3, e4, e5]
    generalize (S θ u v) ^ (-1 + 1 / θ) = X
    generalize (S θ u v) ^ (-1 / θ) = Y
    generalize (-Real.log u) ^ (θ - 1) = A
    generalize (-Real.log v) ^ (θ - 1) = B
    generalize Real.exp (-(S θ u v) ^ (1 / θ)) = E
    field_simp
    ring
  rw [e]
  exact key

/-- Non-vacuity: an instance of the hypotheses. -/
example : HasDerivAt (fun u => h 2 u (1 / 3)) (c 2 (1 / 2) (1 / 3)) (1 / 2) :=
  hasDerivAt_h_left (by norm_num) (by norm_num) (by norm_num) (by norm_num) (by norm_num)

/-! ### the `θ = 1` shortcut defect, as kernel-checked counter-examples -/

/-- θ = 1 after the repair: the shortcut of `partial_derivative` returns `u`, which IS the
`v`-derivative of the θ = 1 CDF `u·v` (regression witness `(1/4, 1/2)` of the former defect). -/
theorem h_theta_one_is_derivative (u v : ℝ) :
    Gen.Gumbel.h (1 : ℝ) [(u, v)] = .ok [u] ∧
      Gen.Gumbel.cdf (1 : ℝ) [(u, v)] = .ok [u * v] ∧
      HasDerivAt (fun v => u * v) u v := by
  refine ⟨by rw [h_theta_one_rowwise]; simp, ?_, ?_⟩
  · rw [cdf_rowwise le_rfl]; simp
  · simpa using (hasDerivAt_id v).const_mul u

theorem h_theta_one_regression :
    Gen.Gumbel.h (1 : ℝ) [(1 / 4, 1 / 2)] = .ok [1 / 4] := (h_theta_one_is_derivative _ _).1

/-- θ = 1 after the repair: the density shortcut returns `1`, the mixed derivative of `u·v`, and
agrees with the general formula. -/
theorem pdf_theta_one_is_derivative (u v : ℝ) :
    Gen.Gumbel.pdf (1 : ℝ) [(u, v)] = .ok [1] ∧
      HasDerivAt (fun u' : ℝ => u') 1 u := by
  refine ⟨by rw [pdf_theta_one_rowwise]; simp, hasDerivAt_id u⟩

theorem pdf_theta_one_regression :
    Gen.Gumbel.pdf (1 : ℝ) [(1 / 4, 1 / 2)] = .ok [1] ∧ c 1 (1 / 4) (1 / 2) = 1 :=
  ⟨(pdf_theta_one_is_derivative _ _).1,
    c_theta_one (by norm_num) (by norm_num) (by norm_num) (by norm_num)⟩

end CopVerif.Gumbel
