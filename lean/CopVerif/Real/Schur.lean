import Mathlib.LinearAlgebra.Matrix.PosDef
import Mathlib.LinearAlgebra.Matrix.NonsingularInverse
import Mathlib.Data.List.Perm.Lattice
import Mathlib.Algebra.BigOperators.Fin
import Mathlib.Algebra.Order.Star.Real
import CopVerif.Real.Inst
import CopVerif.Model.GaussCond
/-!
  C12: facts about the executable model `CopVerif.Model.GaussCond`.

  Part A (any carrier): label bookkeeping — `_transform_to_normal`'s walk, the re-labelling, the
  sorted complement, the plan of `sample`.
  Part B (ℝ): bridge from the list-of-rows matrices of the model to `Matrix (Fin m) (Fin n) ℝ`; the
  conditional covariance is the Schur complement of the `columns2` block, symmetric and positive
  semi-definite (`Matrix.PosDef.fromBlocks₂₂`); the algebraic core of the conditional law.
-/
namespace CopVerif.GaussCond
open CopVerif CopVerif.Model.GaussCond NumFns

/-! ## Part A — labels -/
section labels
variable {ι α : Type} [DecidableEq ι]

theorem lookup_eq_none_iff_not_mem_keys (items : List (ι × α)) (c : ι) :
    items.lookup c = none ↔ c ∉ items.map Prod.fst := by
  induction items with
  | nil => simp
  | cons p rest ih =>
    obtain ⟨k, x⟩ := p
    by_cases h : c = k
    · subst h; simp [List.lookup]
    · have : (c == k) = false := by simpa using h
      simp [List.lookup, this, ih, h]

theorem lookup_isSome_iff_mem_keys (items : List (ι × α)) (c : ι) :
    (∃ x, items.lookup c = some x) ↔ c ∈ items.map Prod.fst := by
  rw [← not_iff_not, ← lookup_eq_none_iff_not_mem_keys]
  cases items.lookup c <;> simp

/-- a successful lookup returns an item of the list. -/
theorem mem_of_lookup_eq_some {items : List (ι × α)} {c : ι} {x : α} (h : items.lookup c = some x) :
    (c, x) ∈ items := by
  induction items with
  | nil => simp at h
  | cons p rest ih =>
    obtain ⟨k, y⟩ := p
    by_cases hk : c = k
    · subst hk; simp [List.lookup] at h; simp [h]
    · have : (c == k) = false := by simpa using hk
      simp only [List.lookup, this] at h
      exact List.mem_cons_of_mem _ (ih h)

/-- with distinct keys, lookup finds exactly the listed value. -/
theorem lookup_eq_some_of_mem {items : List (ι × α)} (hnd : (items.map Prod.fst).Nodup) {c : ι} {x : α}
    (h : (c, x) ∈ items) : items.lookup c = some x := by
  induction items with
  | nil => simp at h
  | cons p rest ih =>
    obtain ⟨k, y⟩ := p
    simp only [List.map_cons, List.nodup_cons] at hnd
    rcases List.mem_cons.1 h with h' | h'
    · cases h'; simp [List.lookup]
    · have hk : c ≠ k := by
        intro hck
        apply hnd.1
        rw [← hck]
        exact List.mem_map_of_mem (f := Prod.fst) h'
      have : (c == k) = false := by simpa using hk
      simp only [List.lookup, this]
      exact ih hnd.2 h'

/-- the labels of the walked scores are the training columns present in the conditions, in
    TRAINING order. -/
theorem walkedScores_fst (cols : List ι) (score : ι → α → α) (items : List (ι × α)) :
    (walkedScores cols score items).map Prod.fst = walked cols (items.map Prod.fst) := by
  induction cols with
  | nil => simp [walkedScores, walked]
  | cons c rest ih =>
    simp only [walkedScores, walked] at ih ⊢
    rw [List.filterMap_cons, List.filter_cons]
    cases h : items.lookup c with
    | none =>
      have := (lookup_eq_none_iff_not_mem_keys items c).1 h
      simp [this, ih]
    | some x =>
      have : c ∈ items.map Prod.fst := (lookup_isSome_iff_mem_keys items c).1 ⟨x, h⟩
      simp [this, ih]

/-- every walked score is the score of its OWN label's value. -/
theorem mem_walkedScores {cols : List ι} {score : ι → α → α} {items : List (ι × α)} {k : ι} {s : α}
    (h : (k, s) ∈ walkedScores cols score items) :
    k ∈ cols ∧ ∃ x, items.lookup k = some x ∧ s = score k x := by
  simp only [walkedScores, List.mem_filterMap] at h
  obtain ⟨c, hc, hm⟩ := h
  cases hl : items.lookup c with
  | none => simp [hl] at hm
  | some x =>
    simp only [hl, Option.map_some, Option.some.injEq, Prod.mk.injEq] at hm
    obtain ⟨rfl, rfl⟩ := hm
    exact ⟨hc, x, hl, rfl⟩

theorem walkedScores_mem_of {cols : List ι} {score : ι → α → α} {items : List (ι × α)} {k : ι} {x : α}
    (hk : k ∈ cols) (hl : items.lookup k = some x) : (k, score k x) ∈ walkedScores cols score items := by
  simp only [walkedScores, List.mem_filterMap]
  exact ⟨k, hk, by simp [hl]⟩

/-- a score that does not look at the value: the walk is a plain map over `walked`. -/
theorem walkedScores_const (cols : List ι) (g : ι → α) (items : List (ι × α)) :
    walkedScores cols (fun c _ => g c) items = (walked cols (items.map Prod.fst)).map fun c => (c, g c) := by
  induction cols with
  | nil => simp [walkedScores, walked]
  | cons c rest ih =>
    simp only [walkedScores, walked] at ih ⊢
    rw [List.filterMap_cons, List.filter_cons]
    cases h : items.lookup c with
    | none =>
      have := (lookup_eq_none_iff_not_mem_keys items c).1 h
      simp [this, ih]
    | some x =>
      have : c ∈ items.map Prod.fst := (lookup_isSome_iff_mem_keys items c).1 ⟨x, h⟩
      simp [this, ih]

/-- distinct keys that are all training columns: the walk visits exactly the keys. -/
theorem walked_perm {cols keys : List ι} (hc : cols.Nodup) (hk : keys.Nodup) (hsub : ∀ k ∈ keys, k ∈ cols) :
    (walked cols keys).Perm keys := by
  unfold walked
  rw [List.perm_ext_iff_of_nodup (hc.filter _) hk]
  intro a
  simp only [List.mem_filter, decide_eq_true_eq]
  exact ⟨fun h => h.2, fun h => ⟨hsub a h, h⟩⟩

theorem walked_mem {cols keys : List ι} {a : ι} : a ∈ walked cols keys ↔ a ∈ cols ∧ a ∈ keys := by
  simp [walked]

/-- zipping a list of pairs' first and second components gives the list back. -/
theorem zip_fst_snd {β γ : Type} (l : List (β × γ)) : (l.map Prod.fst).zip (l.map Prod.snd) = l := by
  induction l with
  | nil => rfl
  | cons p rest ih => simp [ih]

/-- if relabelling `l₂` by the labels of `l₁` is right for EVERY score function, the two label
    lists are the same list. -/
theorem eq_of_zip_aligned {a b : α} (hab : a ≠ b) :
    ∀ (l₁ l₂ : List ι), l₁.length = l₂.length →
      (∀ g : ι → α, ∀ p ∈ l₁.zip (l₂.map g), p.2 = g p.1) → l₂ = l₁
  | [], [], _, _ => rfl
  | [], _ :: _, h, _ => by simp at h
  | _ :: _, [], h, _ => by simp at h
  | k :: t₁, w :: t₂, h, hall => by
    have hw : w = k := by
      have := hall (fun c => if c = k then a else b) (k, if w = k then a else b) (by simp)
      by_contra hne
      simp [hne] at this
      exact hab this.symm
    have ht := eq_of_zip_aligned hab t₁ t₂ (by simpa using h) (fun g p hp => hall g p (by
      simp only [List.map_cons, List.zip_cons_cons]
      exact List.mem_cons_of_mem _ hp))
    rw [hw, ht]

/-- members of the sorted complement. -/
theorem mem_columns1 {le : ι → ι → Bool} {cols c2 : List ι} {a : ι} :
    a ∈ columns1 le cols c2 ↔ a ∈ cols ∧ a ∉ c2 := by
  simp [columns1, List.mem_mergeSort]

theorem columns1_nodup {le : ι → ι → Bool} {cols c2 : List ι} (h : cols.Nodup) :
    (columns1 le cols c2).Nodup :=
  (List.mergeSort_perm _ le).nodup_iff.2 (h.filter _)


/-! ### the quantifier of the property, and what "correctly labelled" means -/

/-- a call inside the property's quantifier: distinct training columns, distinct condition keys
    forming a non-empty proper subset of the training columns. -/
structure WellFormed (cols : List ι) (c : Conditions ι α) : Prop where
  cols_nodup : cols.Nodup
  keys_nodup : c.keys.Nodup
  keys_sub : ∀ k ∈ c.keys, k ∈ cols
  nonempty : c.items ≠ []
  proper : ∃ col ∈ cols, col ∉ c.keys

/-- `nc` attaches to every condition key exactly the score of THAT key's own value. -/
def Aligned (score : ι → α → α) (items nc : List (ι × α)) : Prop :=
  (nc.map Prod.fst).Perm (items.map Prod.fst) ∧
    ∀ k s, (k, s) ∈ nc → ∃ x, (k, x) ∈ items ∧ s = score k x

/-- the conditions are listed in the same relative order as the training columns. -/
def InTrainingOrder (cols keys : List ι) : Prop := walked cols keys = keys

theorem walkedScores_aligned {cols : List ι} {score : ι → α → α} {c : Conditions ι α}
    (hw : WellFormed cols c) : Aligned score c.items (walkedScores cols score c.items) := by
  refine ⟨?_, ?_⟩
  · rw [walkedScores_fst]
    exact walked_perm hw.cols_nodup hw.keys_nodup hw.keys_sub
  · intro k s h
    obtain ⟨_, x, hl, rfl⟩ := mem_walkedScores h
    exact ⟨x, mem_of_lookup_eq_some hl, rfl⟩

theorem walkedScores_length {cols : List ι} {score : ι → α → α} {c : Conditions ι α}
    (hw : WellFormed cols c) : (walkedScores cols score c.items).length = c.items.length := by
  have h := (walked_perm hw.cols_nodup hw.keys_nodup hw.keys_sub).length_eq
  have h2 := congrArg List.length (walkedScores_fst cols score c.items)
  simp only [List.length_map] at h2
  rw [h2]
  simpa [Conditions.keys] using h

theorem walkedScores_ne_nil {cols : List ι} {score : ι → α → α} {c : Conditions ι α}
    (hw : WellFormed cols c) : (walkedScores cols score c.items).isEmpty = false := by
  have h := walkedScores_length (score := score) hw
  have hne := hw.nonempty
  cases hws : walkedScores cols score c.items with
  | nil => rw [hws] at h; exact absurd (List.length_eq_zero_iff.1 h.symm) hne
  | cons _ _ => rfl

/-- labels of `normal_conditions` are always among the caller's keys. -/
theorem normalConditions_labels_sub {v : Variant} {cols : List ι} {score : ι → α → α} {c : Conditions ι α}
    {nc : List (ι × α)} (h : normalConditions v cols score c = .ok nc) :
    ∀ k ∈ nc.map Prod.fst, k ∈ c.keys := by
  unfold normalConditions at h
  simp only at h
  split at h
  · simp at h
  · cases hv : v.labelling with
    | callerOrder =>
      simp only [hv] at h
      split at h
      · simp only [Except.ok.injEq] at h
        subst h
        intro k hk
        rw [List.map_fst_zip] at hk
        · exact hk
        · simp_all [Conditions.keys]
      · simp at h
    | walked =>
      simp only [hv, Except.ok.injEq] at h
      subst h
      intro k hk
      rw [walkedScores_fst] at hk
      exact (walked_mem.1 hk).2

/-! ### the loop of `sample` -/

theorem planCols_spec {v : Variant} {c : Conditions ι α} :
    ∀ {cols : List ι} {ps : List (ι × ColPlan ι α)}, planCols v c cols = .ok ps →
      ps.map Prod.fst = cols ∧ ∀ q ∈ ps, colPlan v c q.1 = .ok q.2
  | [], ps, h => by
    simp only [planCols, Except.ok.injEq] at h; subst h; simp
  | col :: rest, ps, h => by
    simp only [planCols] at h
    cases hp : colPlan v c col with
    | error e => simp [hp] at h
    | ok p =>
      cases hr : planCols v c rest with
      | error e => simp [hp, hr] at h
      | ok qs =>
        simp only [hp, hr, Except.ok.injEq] at h
        subst h
        obtain ⟨h1, h2⟩ := planCols_spec hr
        refine ⟨by simp [h1], ?_⟩
        intro q hq
        rcases List.mem_cons.1 hq with rfl | hq
        · exact hp
        · exact h2 q hq

theorem planCols_ok_of {v : Variant} {c : Conditions ι α} :
    ∀ {cols : List ι}, (∀ col ∈ cols, ∃ p, colPlan v c col = .ok p) → ∃ ps, planCols v c cols = .ok ps
  | [], _ => ⟨[], rfl⟩
  | col :: rest, h => by
    obtain ⟨p, hp⟩ := h col (by simp)
    obtain ⟨ps, hps⟩ := planCols_ok_of (cols := rest) (fun x hx => h x (List.mem_cons_of_mem _ hx))
    exact ⟨(col, p) :: ps, by simp [planCols, hp, hps]⟩

/-- under a truth test that succeeds, a conditioned column is filled with the caller's value and any
    other column is drawn. -/
theorem colPlan_of_truthy {v : Variant} {c : Conditions ι α} {col : ι} {p : ColPlan ι α}
    (h : colPlan v c col = .ok p) :
    (col ∈ c.keys → (∃ x, c.items.lookup col = some x ∧ p = .fixed x) ∨ (truthy v c = .ok false ∧ p = .draw col))
      ∧ (col ∉ c.keys → p = .draw col) := by
  simp only [colPlan] at h
  cases ht : truthy v c with
  | error e => simp [ht] at h
  | ok t =>
    simp only [ht] at h
    constructor
    · intro hk
      cases t with
      | false =>
        simp at h
        exact Or.inr ⟨rfl, h.symm⟩
      | true =>
        simp only [hk, decide_true, Bool.and_self, if_true] at h
        cases hl : c.items.lookup col with
        | none => simp [hl] at h
        | some x =>
          simp only [hl, Except.ok.injEq] at h
          exact Or.inl ⟨x, rfl, h.symm⟩
    · intro hk
      simp [hk] at h
      exact h.symm

omit [DecidableEq ι] in
/-- the truth test can only say `false` for an empty dict. -/
theorem truthy_false {v : Variant} {c : Conditions ι α} (h : truthy v c = .ok false) : c.items = [] := by
  simp only [truthy] at h
  cases hv : v.truth <;> cases hk : c.kind <;> simp [hv, hk] at h
  exact h

end labels
/-! ## Part B — matrices over ℝ -/
section matrices
open Matrix

theorem table_getD {β : Type} (m n : ℕ) (f : ℕ → ℕ → β) {i : ℕ} (hi : i < m) :
    (table m n f).getD i [] = (List.range n).map fun j => f i j := by
  simp [table, List.getD_eq_getElem?_getD, hi]

theorem table_length {β : Type} (m n : ℕ) (f : ℕ → ℕ → β) : (table m n f).length = m := by
  simp [table]

theorem entry_table (m n : ℕ) (f : ℕ → ℕ → ℝ) {i j : ℕ} (hi : i < m) (hj : j < n) :
    entry (table m n f) i j = f i j := by
  unfold entry
  rw [table_getD m n f hi]
  simp [List.getD_eq_getElem?_getD, hj]

theorem sumRange_eq (k : ℕ) (f : ℕ → ℝ) : sumRange k f = ∑ l ∈ Finset.range k, f l := by
  unfold sumRange
  induction k with
  | zero => simp
  | succ k ih => rw [List.range_succ, List.foldl_append, ih, Finset.sum_range_succ]; simp

/-- a list-of-rows matrix of the model as a Mathlib matrix (entries outside the lists are `0`). -/
noncomputable def toM (m n : ℕ) (A : List (List ℝ)) : Matrix (Fin m) (Fin n) ℝ :=
  Matrix.of fun i j => entry A i j

/-- a list as a vector. -/
noncomputable def toV (n : ℕ) (x : List ℝ) : Fin n → ℝ := fun i => x.getD i 0

@[simp] theorem toM_apply (m n : ℕ) (A : List (List ℝ)) (i : Fin m) (j : Fin n) :
    toM m n A i j = entry A i j := rfl

theorem toM_matMul (m k n : ℕ) (A B : List (List ℝ)) :
    toM m n (matMul m k n A B) = toM m k A * toM k n B := by
  ext i j
  simp only [toM_apply, matMul, entry_table _ _ _ i.2 j.2, sumRange_eq, Matrix.mul_apply]
  rw [Finset.sum_range]

theorem toM_matSub (m n : ℕ) (A B : List (List ℝ)) :
    toM m n (matSub m n A B) = toM m n A - toM m n B := by
  ext i j
  simp only [toM_apply, matSub, entry_table _ _ _ i.2 j.2, Matrix.sub_apply]

theorem toV_affineMean (m k : ℕ) (A : List (List ℝ)) (z : List ℝ) :
    toV m (affineMean m k A z) = (toM m k A).mulVec (toV k z) := by
  funext i
  simp only [toV, affineMean, Matrix.mulVec, dotProduct, toM_apply]
  rw [List.getD_eq_getElem?_getD, List.getElem?_map, List.getElem?_range i.2]
  simp only [Option.map_some, Option.getD_some, sumRange_eq, ofNat_real, Nat.cast_zero, zero_add, sub_zero]
  rw [Finset.sum_range]

variable {ι : Type} [DecidableEq ι]

/-- the fitted correlation as a matrix indexed by labels. -/
noncomputable def corrM (S : Corr ι ℝ) : Matrix ι ι ℝ := Matrix.of fun r c => S.loc1 r c

@[simp] theorem corrM_apply (S : Corr ι ℝ) (r c : ι) : corrM S r c = S.loc1 r c := rfl

/-- `.loc[rows, cols]` picks the entries of Σ by label. -/
theorem entry_loc (S : Corr ι ℝ) (rows cs : List ι) {i j : ℕ} (hi : i < rows.length) (hj : j < cs.length) :
    entry (S.loc rows cs) i j = S.loc1 rows[i] cs[j] := by
  simp [entry, Corr.loc, List.getD_eq_getElem?_getD, hi, hj]

/-- `.loc[rows, cols].to_numpy()` IS the sub-matrix of Σ for the two label lists. -/
theorem toM_loc (S : Corr ι ℝ) (rows cs : List ι) :
    toM rows.length cs.length (S.loc rows cs) = (corrM S).submatrix rows.get cs.get := by
  ext i j
  simp [entry_loc S rows cs i.2 j.2]

/-- `sigma_bar` of the model is `S11 - S12 * inv(S22) * S21` on the sub-matrices of Σ. -/
theorem toM_condCov (inv : List (List ℝ) → List (List ℝ)) (S : Corr ι ℝ) (c1 c2 : List ι) :
    toM c1.length c1.length (condCov inv S c1 c2)
      = (corrM S).submatrix c1.get c1.get
        - (corrM S).submatrix c1.get c2.get * toM c2.length c2.length (inv (S.loc c2 c2))
          * (corrM S).submatrix c2.get c1.get := by
  simp only [condCov, gain, toM_matSub, toM_matMul, toM_loc]

/-- `mu_bar` of the model is `(S12 * inv(S22)) z`. -/
theorem toV_condMean (inv : List (List ℝ) → List (List ℝ)) (S : Corr ι ℝ) (c1 c2 : List ι) (z : List ℝ) :
    toV c1.length (condMean inv S c1 c2 z)
      = ((corrM S).submatrix c1.get c2.get * toM c2.length c2.length (inv (S.loc c2 c2))).mulVec
          (toV c2.length z) := by
  simp only [condMean, gain, toV_affineMean, toM_matMul, toM_loc]

/-- Schur complement of a symmetric matrix is symmetric. -/
theorem schur_isSymm {m k : Type} [Fintype m] [Fintype k] [DecidableEq k] (A : Matrix m m ℝ) (B : Matrix m k ℝ)
    (C : Matrix k m ℝ) (D : Matrix k k ℝ) (hA : A.IsSymm) (hBC : Bᵀ = C) (hD : D.IsSymm) :
    (A - B * D⁻¹ * C).IsSymm := by
  unfold Matrix.IsSymm
  rw [Matrix.transpose_sub, Matrix.transpose_mul, Matrix.transpose_mul, Matrix.transpose_nonsing_inv,
    hA.eq, hD.eq, ← hBC, Matrix.transpose_transpose, Matrix.mul_assoc]

omit [DecidableEq ι] in
/-- Σ PSD and the `columns2` block PD ⇒ the Schur complement of that block is PSD. -/
theorem schur_posSemidef (M : Matrix ι ι ℝ) (hM : M.PosSemidef) {m k : ℕ} (e1 : Fin m → ι) (e2 : Fin k → ι)
    (hD : (M.submatrix e2 e2).PosDef) :
    (M.submatrix e1 e1 - M.submatrix e1 e2 * (M.submatrix e2 e2)⁻¹ * M.submatrix e2 e1).PosSemidef := by
  have : Invertible (M.submatrix e2 e2) := hD.isUnit.invertible
  have h21 : M.submatrix e2 e1 = (M.submatrix e1 e2)ᴴ := by
    ext i j
    simp only [Matrix.submatrix_apply, Matrix.conjTranspose_apply]
    exact (hM.1.apply (e2 i) (e1 j)).symm
  have hblk : M.submatrix (Sum.elim e1 e2) (Sum.elim e1 e2)
      = Matrix.fromBlocks (M.submatrix e1 e1) (M.submatrix e1 e2) (M.submatrix e1 e2)ᴴ (M.submatrix e2 e2) := by
    rw [← h21]
    ext (i | i) (j | j) <;> rfl
  have := hM.submatrix (Sum.elim e1 e2)
  rw [hblk, Matrix.PosDef.fromBlocks₂₂ _ _ hD] at this
  rw [h21]
  exact this

/-! ### algebraic core of the conditional law of a partitioned normal

For `X = (X1, X2)` with covariance `[[A, B], [Bᵀ, D]]` and `G = B D⁻¹`, the residual
`R = X1 - G X2` has `Cov(R, X2) = B - G D = 0` and `Cov(R) = A - G Bᵀ - B Gᵀ + G D Gᵀ = A - B D⁻¹ Bᵀ`. -/

theorem residual_uncorrelated {m k : Type} [Fintype m] [Fintype k] [DecidableEq k] (B : Matrix m k ℝ)
    (D : Matrix k k ℝ) (hD : IsUnit D.det) : B - B * D⁻¹ * D = 0 := by
  rw [Matrix.mul_assoc, Matrix.nonsing_inv_mul _ hD, Matrix.mul_one, sub_self]

theorem residual_cov {m k : Type} [Fintype m] [Fintype k] [DecidableEq k] (A : Matrix m m ℝ) (B : Matrix m k ℝ)
    (D : Matrix k k ℝ) (hD : IsUnit D.det) :
    A - B * D⁻¹ * Bᵀ - B * (B * D⁻¹)ᵀ + B * D⁻¹ * D * (B * D⁻¹)ᵀ = A - B * D⁻¹ * Bᵀ := by
  have h1 : B * D⁻¹ * D = B := by rw [Matrix.mul_assoc, Matrix.nonsing_inv_mul _ hD, Matrix.mul_one]
  rw [h1]
  abel

end matrices

end CopVerif.GaussCond
