import Mathlib.Topology.Order.IntermediateValue
import CopVerif.Real.KendallGen
/-!
  The IDEAL Frank calibration map (C10c): `τ(θ) = 1 + 4 (D₁(θ) − 1)/θ` with the first Debye function
  `D₁(θ) = (1/θ) ∫₀^θ s/(eˢ−1) ds` (lower integration limit `0`).

  * `dbe_neg`, `J_neg`, `debye1_neg`, `tau_neg`: the reflection `D₁(−θ) = D₁(θ) + θ/2`, `τ(−θ) = −τ(θ)`;
  * `dbe_lower`, `dbe_upper`, `J_lower`, `J_upper`, `tau_nonneg`, `tau_le`: `0 ≤ τ(θ) ≤ θ/3` for `θ > 0`;
  * `N0_pos`, `tau_hasDerivAt`, `tau_strictMonoOn_Ioi/Iio`: strict monotonicity on each branch;
  * `tauExt` (value `0` at `θ = 0`): continuous, strictly monotone on ℝ, limits `±1`, bijective onto
    `(−1,1)` (`tauExt_exists_unique`);
  * `tauEps`: the code's map (lower limit `ε`): `τ_ε(θ) = τ(θ) − 4 J(ε)/θ²`, `|τ_ε − τ| ≤ 4ε/θ²`, and the
    positive branch of the code's residual has a root for EVERY `τ₀ < 1`, also `τ₀ ≤ 0`
    (`T_exists_unique`).
-/
namespace CopVerif.FrankTau
open CopVerif Real MeasureTheory Set intervalIntegral Filter Topology
open CopVerif.BivFit (dbe)
open CopVerif.KendallGen (J debye1 debye1_eq dbe_intervalIntegrable J_hasDerivAt J_continuous
  dbe_continuousAt dbe_abs_le debye1_mem_Ioo)

/-- the ideal calibration map: Kendall's tau of the Frank copula with parameter `θ ≠ 0` -/
noncomputable def tau (θ : ℝ) : ℝ := 1 + 4 * (debye1 θ - 1) / θ

theorem tau_eq (θ : ℝ) : tau θ = 1 + 4 * (J θ / θ - 1) / θ := rfl

theorem J_zero : J 0 = 0 := by simp [J]

/-! ## reflection -/

theorem dbe_neg (s : ℝ) : dbe (-s) = dbe s + s := by
  unfold dbe
  rcases eq_or_ne s 0 with rfl | hs
  · simp
  · have hE : Real.exp (-s) = (Real.exp s)⁻¹ := Real.exp_neg s
    have hE0 : Real.exp s ≠ 0 := (Real.exp_pos _).ne'
    have hE1 : Real.exp s - 1 ≠ 0 := KendallGen.exp_sub_one_ne_zero hs
    have hE1' : 1 - Real.exp s ≠ 0 := fun h => hE1 (by linarith)
    rw [hE]
    generalize Real.exp s = E at *
    field_simp
    ring

theorem J_neg (x : ℝ) : J (-x) = -J x - x ^ 2 / 2 := by
  have h1 : ∫ s in (0 : ℝ)..x, dbe (-s) = -J (-x) := by
    rw [intervalIntegral.integral_comp_neg, neg_zero, intervalIntegral.integral_symm]; rfl
  have h2 : ∫ s in (0 : ℝ)..x, dbe (-s) = J x + x ^ 2 / 2 := by
    simp_rw [dbe_neg]
    rw [intervalIntegral.integral_add (dbe_intervalIntegrable 0 x) intervalIntegrable_id, integral_id]
    simp [J]
  linarith

/-- `D₁(−θ) = D₁(θ) + θ/2` -/
theorem debye1_neg {θ : ℝ} (hθ : θ ≠ 0) : debye1 (-θ) = debye1 θ + θ / 2 := by
  rw [debye1_eq, debye1_eq, J_neg]
  field_simp
  ring

/-- `τ(−θ) = −τ(θ)` -/
theorem tau_neg {θ : ℝ} (hθ : θ ≠ 0) : tau (-θ) = -tau θ := by
  rw [tau, tau, debye1_neg hθ]
  field_simp
  ring

/-! ## bounds on the integrand and on `J` -/

/-- `(2 − s) eˢ ≤ 2 + s` for `s ≥ 0` -/
theorem pade_le {s : ℝ} (hs : 0 ≤ s) : (2 - s) * Real.exp s ≤ 2 + s := by
  have hd : ∀ x : ℝ, HasDerivAt (fun x => (2 - x) * Real.exp x - (2 + x))
      ((1 - x) * Real.exp x - 1) x := by
    intro x
    have h := (((hasDerivAt_id x).const_sub 2).mul (Real.hasDerivAt_exp x)).sub
      ((hasDerivAt_id x).const_add 2)
    refine h.congr_deriv ?_
    simp only [id]
    ring
  have hanti : AntitoneOn (fun x => (2 - x) * Real.exp x - (2 + x)) (Ici 0) := by
    apply antitoneOn_of_deriv_nonpos (convex_Ici 0)
    · exact fun x _ => (hd x).continuousAt.continuousWithinAt
    · exact fun x _ => (hd x).differentiableAt.differentiableWithinAt
    · intro x _
      rw [(hd x).deriv]
      have := KendallGen.one_sub_mul_exp_le x
      linarith
  have := hanti (mem_Ici.2 le_rfl) (mem_Ici.2 hs) hs
  simp at this
  linarith

/-- `1 − s/2 ≤ s/(eˢ−1)` for `s > 0` -/
theorem dbe_lower {s : ℝ} (hs : 0 < s) : 1 - s / 2 ≤ dbe s := by
  unfold dbe
  have he : 0 < Real.exp s - 1 := BivFit.exp_sub_one_pos hs
  rw [le_div_iff₀ he]
  have := pade_le hs.le
  nlinarith

/-- `s/(eˢ−1) ≤ 1 − s/2 + s²/4` for `s > 0` -/
theorem dbe_upper {s : ℝ} (hs : 0 < s) : dbe s ≤ 1 - s / 2 + s ^ 2 / 4 := by
  unfold dbe
  have he : 0 < Real.exp s - 1 := BivFit.exp_sub_one_pos hs
  rw [div_le_iff₀ he]
  have h := Real.quadratic_le_exp_of_nonneg hs.le
  have h1 : s + s ^ 2 / 2 ≤ Real.exp s - 1 := by linarith
  have h2 : 0 ≤ 1 - s / 2 + s ^ 2 / 4 := by nlinarith [sq_nonneg (s - 1)]
  have h3 : s ≤ (1 - s / 2 + s ^ 2 / 4) * (s + s ^ 2 / 2) := by
    have : (1 - s / 2 + s ^ 2 / 4) * (s + s ^ 2 / 2) = s + s ^ 4 / 8 := by ring
    rw [this]; have := pow_pos hs 4; linarith
  exact h3.trans (mul_le_mul_of_nonneg_left h1 h2)

theorem J_lower {a : ℝ} (ha : 0 ≤ a) : a - a ^ 2 / 4 ≤ J a := by
  have h : ∫ s in (0 : ℝ)..a, (1 - s / 2) ≤ J a :=
    integral_mono_on_of_le_Ioo ha
      (intervalIntegrable_const.sub (intervalIntegrable_id.div_const 2))
      (dbe_intervalIntegrable 0 a) (fun x hx => dbe_lower hx.1)
  rw [intervalIntegral.integral_sub intervalIntegrable_const (intervalIntegrable_id.div_const 2),
    intervalIntegral.integral_div, integral_id, intervalIntegral.integral_const] at h
  simp at h
  linarith

theorem J_upper {a : ℝ} (ha : 0 ≤ a) : J a ≤ a - a ^ 2 / 4 + a ^ 3 / 12 := by
  have hi1 : IntervalIntegrable (fun s : ℝ => 1 - s / 2) volume 0 a :=
    intervalIntegrable_const.sub (intervalIntegrable_id.div_const 2)
  have hi2 : IntervalIntegrable (fun s : ℝ => s ^ 2 / 4) volume 0 a :=
    (intervalIntegrable_pow 2).div_const 4
  have h : J a ≤ ∫ s in (0 : ℝ)..a, (1 - s / 2 + s ^ 2 / 4) :=
    integral_mono_on_of_le_Ioo ha (dbe_intervalIntegrable 0 a) (hi1.add hi2)
      (fun x hx => dbe_upper hx.1)
  rw [intervalIntegral.integral_add hi1 hi2,
    intervalIntegral.integral_sub intervalIntegrable_const (intervalIntegrable_id.div_const 2),
    intervalIntegral.integral_div, intervalIntegral.integral_div, integral_id, integral_pow,
    intervalIntegral.integral_const] at h
  simp at h
  norm_num at h
  linarith

theorem J_nonneg {a : ℝ} (ha : 0 ≤ a) : 0 ≤ J a := by
  rcases ha.eq_or_lt with rfl | h
  · rw [J_zero]
  · have := (debye1_mem_Ioo h).1
    rw [debye1_eq] at this
    have := mul_pos this h
    rw [div_mul_cancel₀ _ h.ne'] at this
    exact this.le

theorem J_le_self {a : ℝ} (ha : 0 ≤ a) : J a ≤ a := by
  rcases ha.eq_or_lt with rfl | h
  · rw [J_zero]
  · have := (debye1_mem_Ioo h).2
    rw [debye1_eq, div_lt_one h] at this
    exact this.le

/-- `0 ≤ τ(a)` for `a > 0` -/
theorem tau_nonneg {a : ℝ} (ha : 0 < a) : 0 ≤ tau a := by
  have h := J_lower ha.le
  have e : tau a = (a ^ 2 - 4 * a + 4 * J a) / a ^ 2 := by rw [tau_eq]; field_simp; ring
  rw [e]
  apply div_nonneg _ (sq_nonneg a)
  nlinarith

/-- `τ(a) ≤ a/3` for `a > 0` -/
theorem tau_le {a : ℝ} (ha : 0 < a) : tau a ≤ a / 3 := by
  have h := J_upper ha.le
  have e : tau a = (a ^ 2 - 4 * a + 4 * J a) / a ^ 2 := by rw [tau_eq]; field_simp; ring
  rw [e, div_le_iff₀ (by positivity)]
  nlinarith

/-- `1 − 4/a ≤ τ(a) < 1` for `a > 0` -/
theorem tau_ge {a : ℝ} (ha : 0 < a) : 1 - 4 / a ≤ tau a := by
  have h := J_nonneg ha.le
  have e : tau a - (1 - 4 / a) = 4 * J a / a ^ 2 := by rw [tau_eq]; field_simp; ring
  have : 0 ≤ 4 * J a / a ^ 2 := by positivity
  linarith

theorem tau_lt_one {a : ℝ} (ha : 0 < a) : tau a < 1 := by
  have h := (debye1_mem_Ioo ha).2
  have : 4 * (debye1 a - 1) / a < 0 := div_neg_of_neg_of_pos (by linarith) ha
  rw [tau]; linarith

/-! ## strict monotonicity on the positive branch -/

theorem key_ineq_strict {a : ℝ} (ha : 0 < a) : a ^ 2 * Real.exp a < (Real.exp a - 1) ^ 2 := by
  have hs : a / 2 < Real.sinh (a / 2) := Real.self_lt_sinh_iff.2 (by linarith)
  rw [Real.sinh_eq] at hs
  have hy0 : 0 < Real.exp (a / 2) := Real.exp_pos _
  have hinv : Real.exp (-(a / 2)) = (Real.exp (a / 2))⁻¹ := Real.exp_neg _
  have hsq : Real.exp a = Real.exp (a / 2) ^ 2 := by
    rw [sq, ← Real.exp_add]; congr 1; ring
  rw [hinv] at hs
  generalize Real.exp (a / 2) = y at *
  have h1 : a * y < y ^ 2 - 1 := by
    have h2 : a < y - y⁻¹ := by linarith
    have h3 := mul_lt_mul_of_pos_right h2 hy0
    rw [sub_mul, inv_mul_cancel₀ hy0.ne'] at h3
    nlinarith
  rw [hsq]
  have h0 : 0 ≤ a * y := mul_nonneg ha.le hy0.le
  have := pow_lt_pow_left₀ h1 h0 (by norm_num : (2 : ℕ) ≠ 0)
  nlinarith

/-- numerator of `τ'(a)`: `N₀(a) = a + a·d(a) − 2 J(a)` -/
noncomputable def N0 (a : ℝ) : ℝ := a + a * dbe a - 2 * J a

theorem N0_zero : N0 0 = 0 := by simp [N0, J_zero]

theorem N0_hasDerivAt {a : ℝ} (ha : 0 < a) :
    HasDerivAt N0 (((Real.exp a - 1) ^ 2 - a ^ 2 * Real.exp a) / (Real.exp a - 1) ^ 2) a := by
  have hd := BivFit.dbe_hasDerivAt ha
  have hJ := J_hasDerivAt ha.ne'
  have h : HasDerivAt (fun x => x + x * dbe x - 2 * J x)
      (1 + (1 * dbe a + a * ((1 * (Real.exp a - 1) - a * Real.exp a) / (Real.exp a - 1) ^ 2))
        - 2 * dbe a) a :=
    ((hasDerivAt_id' a).add ((hasDerivAt_id' a).mul hd)).sub (hJ.const_mul 2)
  have hne : Real.exp a - 1 ≠ 0 := (BivFit.exp_sub_one_pos ha).ne'
  have h' : HasDerivAt N0 _ a := h
  refine h'.congr_deriv ?_
  simp only [dbe]
  field_simp
  ring

theorem mul_dbe_continuousAt_zero : ContinuousAt (fun a => a * dbe a) 0 := by
  have hb : Tendsto (fun a : ℝ => |a| * (1 + |a|)) (𝓝 0) (𝓝 0) := by
    have hc : Continuous (fun a : ℝ => |a| * (1 + |a|)) := by fun_prop
    simpa using hc.tendsto 0
  have : Tendsto (fun a => a * dbe a) (𝓝 0) (𝓝 0) := by
    refine squeeze_zero_norm (fun a => ?_) hb
    rw [Real.norm_eq_abs, abs_mul]
    exact mul_le_mul_of_nonneg_left (dbe_abs_le a) (abs_nonneg a)
  unfold ContinuousAt
  simpa using this

theorem N0_continuousOn : ContinuousOn N0 (Ici 0) := by
  intro a ha
  rcases (mem_Ici.1 ha).eq_or_lt with rfl | h
  · have h1 : ContinuousAt N0 0 :=
      (continuousAt_id.add mul_dbe_continuousAt_zero).sub
        (J_continuous.continuousAt.const_mul 2)
    exact h1.continuousWithinAt
  · exact (N0_hasDerivAt h).continuousAt.continuousWithinAt

theorem N0_pos {a : ℝ} (ha : 0 < a) : 0 < N0 a := by
  have hmono : StrictMonoOn N0 (Ici 0) := by
    apply strictMonoOn_of_deriv_pos (convex_Ici 0) N0_continuousOn
    intro x hx
    rw [interior_Ici] at hx
    rw [(N0_hasDerivAt hx).deriv]
    apply div_pos
    · have := key_ineq_strict hx; linarith
    · have := BivFit.exp_sub_one_pos hx; positivity
  have := hmono (mem_Ici.2 le_rfl) (mem_Ici.2 ha.le) ha
  rwa [N0_zero] at this

theorem tau_hasDerivAt {a : ℝ} (ha : 0 < a) : HasDerivAt tau (4 * N0 a / a ^ 3) a := by
  have hJ := J_hasDerivAt ha.ne'
  have h1 : HasDerivAt (fun x => J x / x) ((dbe a * a - J a * 1) / a ^ 2) a :=
    hJ.div (hasDerivAt_id' a) ha.ne'
  have h2 : HasDerivAt (fun x => 4 * (J x / x - 1) / x)
      ((4 * ((dbe a * a - J a * 1) / a ^ 2) * a - 4 * (J a / a - 1) * 1) / a ^ 2) a :=
    ((h1.sub_const 1).const_mul 4).div (hasDerivAt_id' a) ha.ne'
  have h3 : HasDerivAt tau _ a := h2.const_add 1
  refine h3.congr_deriv ?_
  simp only [N0]
  field_simp
  ring

/-- `τ` is strictly increasing on `(0, ∞)` -/
theorem tau_strictMonoOn_Ioi : StrictMonoOn tau (Ioi 0) := by
  apply strictMonoOn_of_deriv_pos (convex_Ioi 0)
  · exact fun x hx => (tau_hasDerivAt hx).continuousAt.continuousWithinAt
  · intro x hx
    rw [interior_Ioi] at hx
    rw [(tau_hasDerivAt hx).deriv]
    have := N0_pos hx
    have hx' : 0 < x := hx
    positivity

/-- `τ` is strictly increasing on `(−∞, 0)` -/
theorem tau_strictMonoOn_Iio : StrictMonoOn tau (Iio 0) := by
  intro a ha b hb hab
  have ha' : a < 0 := ha
  have hb' : b < 0 := hb
  have h := tau_strictMonoOn_Ioi (show -b ∈ Ioi 0 from neg_pos.2 hb') (show -a ∈ Ioi 0 from neg_pos.2 ha')
    (neg_lt_neg hab)
  rw [tau_neg hb'.ne, tau_neg ha'.ne] at h
  linarith

theorem tau_pos {a : ℝ} (ha : 0 < a) : 0 < tau a := by
  have h1 : 0 ≤ tau (a / 2) := tau_nonneg (by linarith)
  have h2 := tau_strictMonoOn_Ioi (show a / 2 ∈ Ioi 0 from by simp; linarith) (show a ∈ Ioi 0 from ha)
    (by linarith)
  linarith

theorem tau_neg_of_neg {a : ℝ} (ha : a < 0) : tau a < 0 := by
  have h := tau_pos (neg_pos.2 ha)
  rw [tau_neg ha.ne] at h
  linarith

theorem neg_one_lt_tau {a : ℝ} (ha : a < 0) : -1 < tau a := by
  have h := tau_lt_one (neg_pos.2 ha)
  rw [tau_neg ha.ne] at h
  linarith

/-- `|τ(θ)| ≤ |θ|/3` for `θ ≠ 0` -/
theorem abs_tau_le {θ : ℝ} (hθ : θ ≠ 0) : |tau θ| ≤ |θ| / 3 := by
  rcases lt_or_gt_of_ne hθ with h | h
  · have h1 := tau_le (neg_pos.2 h)
    have h2 := tau_nonneg (neg_pos.2 h)
    rw [tau_neg h.ne] at h1 h2
    rw [abs_of_neg h, abs_of_nonpos (by linarith)]
    linarith
  · rw [abs_of_pos h, abs_of_nonneg (tau_nonneg h)]
    exact tau_le h

/-- `−1 < τ(θ) < 1` for `θ ≠ 0` -/
theorem tau_mem_Ioo {θ : ℝ} (hθ : θ ≠ 0) : -1 < tau θ ∧ tau θ < 1 := by
  rcases lt_or_gt_of_ne hθ with h | h
  · exact ⟨neg_one_lt_tau h, (tau_neg_of_neg h).trans one_pos⟩
  · exact ⟨by have := tau_pos h; linarith, tau_lt_one h⟩

theorem tau_continuousAt {θ : ℝ} (hθ : θ ≠ 0) : ContinuousAt tau θ := by
  rcases lt_or_gt_of_ne hθ with h | h
  · have h1 : ContinuousAt (fun x => -tau (-x)) θ :=
      (ContinuousAt.comp (g := tau) (f := fun x : ℝ => -x)
        (tau_hasDerivAt (neg_pos.2 h)).continuousAt continuous_neg.continuousAt).neg
    refine h1.congr ?_
    filter_upwards [Iio_mem_nhds h] with x hx
    have hx' : x < 0 := hx
    rw [tau_neg hx'.ne, neg_neg]
  · exact (tau_hasDerivAt h).continuousAt

/-! ## the continuous extension -/

/-- `τ` extended by `τ(0) = 0` (independence) -/
noncomputable def tauExt (θ : ℝ) : ℝ := if θ = 0 then 0 else tau θ

theorem tauExt_zero : tauExt 0 = 0 := by simp [tauExt]
theorem tauExt_of_ne {θ : ℝ} (hθ : θ ≠ 0) : tauExt θ = tau θ := by simp [tauExt, hθ]

theorem abs_tauExt_le (θ : ℝ) : |tauExt θ| ≤ |θ| / 3 := by
  rcases eq_or_ne θ 0 with rfl | h
  · simp [tauExt_zero]
  · rw [tauExt_of_ne h]; exact abs_tau_le h

/-- `τ(θ) → 0` as `θ → 0`, `θ ≠ 0` -/
theorem tau_tendsto_zero : Tendsto tau (𝓝[≠] 0) (𝓝 0) := by
  have hb : Tendsto (fun a : ℝ => |a| / 3) (𝓝[≠] 0) (𝓝 0) := by
    have hc : Continuous (fun a : ℝ => |a| / 3) := by fun_prop
    have := (hc.tendsto 0).mono_left (nhdsWithin_le_nhds (s := {0}ᶜ))
    simpa using this
  refine squeeze_zero_norm' ?_ hb
  filter_upwards [self_mem_nhdsWithin] with a ha
  rw [Real.norm_eq_abs]
  exact abs_tau_le ha

theorem tauExt_continuous : Continuous tauExt := by
  rw [continuous_iff_continuousAt]
  intro θ
  rcases eq_or_ne θ 0 with rfl | h
  · have hb : Tendsto (fun a : ℝ => |a| / 3) (𝓝 0) (𝓝 0) := by
      have hc : Continuous (fun a : ℝ => |a| / 3) := by fun_prop
      simpa using hc.tendsto 0
    have : Tendsto tauExt (𝓝 0) (𝓝 0) :=
      squeeze_zero_norm (fun a => by rw [Real.norm_eq_abs]; exact abs_tauExt_le a) hb
    unfold ContinuousAt
    rwa [tauExt_zero]
  · refine (tau_continuousAt h).congr ?_
    filter_upwards [isOpen_ne.mem_nhds h] with x hx
    exact (tauExt_of_ne hx).symm

theorem tauExt_strictMono : StrictMono tauExt := by
  intro a b hab
  rcases lt_trichotomy a 0 with ha | rfl | ha
  · rcases lt_trichotomy b 0 with hb | rfl | hb
    · rw [tauExt_of_ne ha.ne, tauExt_of_ne hb.ne]; exact tau_strictMonoOn_Iio ha hb hab
    · rw [tauExt_of_ne ha.ne, tauExt_zero]; exact tau_neg_of_neg ha
    · rw [tauExt_of_ne ha.ne, tauExt_of_ne hb.ne']
      exact (tau_neg_of_neg ha).trans (tau_pos hb)
  · rw [tauExt_zero, tauExt_of_ne hab.ne']; exact tau_pos hab
  · have hb : 0 < b := ha.trans hab
    rw [tauExt_of_ne ha.ne', tauExt_of_ne hb.ne']; exact tau_strictMonoOn_Ioi ha hb hab

/-- `τ(θ) → 1` as `θ → +∞` -/
theorem tau_tendsto_atTop : Tendsto tau atTop (𝓝 1) := by
  have h1 : Tendsto (fun a : ℝ => 1 - 4 / a) atTop (𝓝 1) := by
    have := (tendsto_const_nhds (x := (1 : ℝ))).sub
      ((tendsto_const_nhds (x := (4 : ℝ))).div_atTop tendsto_id)
    simpa using this
  refine tendsto_of_tendsto_of_tendsto_of_le_of_le' h1 tendsto_const_nhds ?_ ?_
  · filter_upwards [eventually_gt_atTop 0] with a ha using tau_ge ha
  · filter_upwards [eventually_gt_atTop 0] with a ha using (tau_lt_one ha).le

/-- `τ(θ) → −1` as `θ → −∞` -/
theorem tau_tendsto_atBot : Tendsto tau atBot (𝓝 (-1)) := by
  have h := (tau_tendsto_atTop.comp tendsto_neg_atBot_atTop).neg
  refine h.congr' ?_
  filter_upwards [eventually_lt_atBot 0] with a ha
  simp only [Function.comp]
  rw [tau_neg ha.ne, neg_neg]

/-- existence on the positive branch -/
theorem tau_exists_pos {τ₀ : ℝ} (h0 : 0 < τ₀) (h1 : τ₀ < 1) : ∃ θ, 0 < θ ∧ tau θ = τ₀ := by
  have hd : 0 < 1 - τ₀ := by linarith
  have hlt : τ₀ < 8 / (1 - τ₀) := by
    rw [lt_div_iff₀ hd]; nlinarith
  have hcont : ContinuousOn tau (Icc τ₀ (8 / (1 - τ₀))) := fun x hx =>
    (tau_hasDerivAt (lt_of_lt_of_le h0 hx.1)).continuousAt.continuousWithinAt
  have hlo : tau τ₀ ≤ τ₀ := by have := tau_le h0; linarith
  have hhi : τ₀ ≤ tau (8 / (1 - τ₀)) := by
    have := tau_ge (a := 8 / (1 - τ₀)) (by positivity)
    have e : 4 / (8 / (1 - τ₀)) = (1 - τ₀) / 2 := by field_simp; ring
    rw [e] at this
    linarith
  obtain ⟨θ, hθ, he⟩ := intermediate_value_Icc hlt.le hcont ⟨hlo, hhi⟩
  exact ⟨θ, lt_of_lt_of_le h0 hθ.1, he⟩

/-- EXISTENCE AND UNIQUENESS: `tauExt` is a bijection of ℝ onto `(−1,1)`. -/
theorem tauExt_exists_unique {τ₀ : ℝ} (h0 : -1 < τ₀) (h1 : τ₀ < 1) : ∃! θ, tauExt θ = τ₀ := by
  have hex : ∃ θ, tauExt θ = τ₀ := by
    rcases lt_trichotomy τ₀ 0 with h | rfl | h
    · obtain ⟨θ, hθ, he⟩ := tau_exists_pos (τ₀ := -τ₀) (by linarith) (by linarith)
      refine ⟨-θ, ?_⟩
      rw [tauExt_of_ne (neg_ne_zero.2 hθ.ne'), tau_neg hθ.ne', he, neg_neg]
    · exact ⟨0, tauExt_zero⟩
    · obtain ⟨θ, hθ, he⟩ := tau_exists_pos h h1
      exact ⟨θ, by rw [tauExt_of_ne hθ.ne', he]⟩
  obtain ⟨θ, hθ⟩ := hex
  exact ⟨θ, hθ, fun θ' h' => tauExt_strictMono.injective (h'.trans hθ.symm)⟩

/-- for `τ₀ ∈ (−1,1)∖{0}` exactly one `θ ≠ 0` has `τ(θ) = τ₀`, and it has the sign of `τ₀` -/
theorem tau_exists_unique {τ₀ : ℝ} (h0 : -1 < τ₀) (h1 : τ₀ < 1) (hne : τ₀ ≠ 0) :
    ∃! θ, θ ≠ 0 ∧ tau θ = τ₀ := by
  obtain ⟨θ, hθ, huniq⟩ := tauExt_exists_unique h0 h1
  have hθ0 : θ ≠ 0 := by
    rintro rfl; rw [tauExt_zero] at hθ; exact hne hθ.symm
  refine ⟨θ, ⟨hθ0, by rw [← tauExt_of_ne hθ0]; exact hθ⟩, ?_⟩
  rintro θ' ⟨h0', he'⟩
  exact huniq θ' (by show tauExt θ' = τ₀; rw [tauExt_of_ne h0']; exact he')

theorem tau_sign {θ : ℝ} (hθ : θ ≠ 0) : (0 < tau θ ↔ 0 < θ) ∧ (tau θ < 0 ↔ θ < 0) := by
  rcases lt_or_gt_of_ne hθ with h | h
  · have := tau_neg_of_neg h
    exact ⟨⟨fun h' => by linarith, fun h' => by linarith⟩, ⟨fun _ => h, fun _ => this⟩⟩
  · have := tau_pos h
    exact ⟨⟨fun _ => h, fun _ => this⟩, ⟨fun h' => by linarith, fun h' => by linarith⟩⟩

/-! ## the code's map: lower limit `ε` instead of `0` -/

/-- the code's `τ_ε(θ) = 1 + 4 ((1/θ)∫_ε^θ s/(eˢ−1) ds − 1)/θ` -/
noncomputable def tauEps (ε θ : ℝ) : ℝ := 1 + 4 * (BivFit.I ε θ / θ - 1) / θ

theorem I_eq (ε θ : ℝ) : BivFit.I ε θ = J θ - J ε := by
  unfold BivFit.I J
  rw [intervalIntegral.integral_interval_sub_left (dbe_intervalIntegrable 0 θ)
    (dbe_intervalIntegrable 0 ε)]

theorem T_eq (ε τ₀ θ : ℝ) : BivFit.T ε τ₀ θ = tauEps ε θ - τ₀ := by
  unfold BivFit.T tauEps; ring

/-- `τ_ε(θ) = τ(θ) − 4 J(ε)/θ²` -/
theorem tauEps_eq {ε θ : ℝ} (hθ : θ ≠ 0) : tauEps ε θ = tau θ - 4 * J ε / θ ^ 2 := by
  rw [tauEps, tau_eq, I_eq]
  field_simp
  ring

/-- `τ(θ) − 4ε/θ² ≤ τ_ε(θ) ≤ τ(θ)` for `ε ≥ 0` -/
theorem tauEps_bounds {ε θ : ℝ} (hε : 0 ≤ ε) (hθ : θ ≠ 0) :
    tau θ - 4 * ε / θ ^ 2 ≤ tauEps ε θ ∧ tauEps ε θ ≤ tau θ := by
  rw [tauEps_eq hθ]
  have h1 := J_nonneg hε
  have h2 := J_le_self hε
  have hp : 0 < θ ^ 2 := by positivity
  constructor
  · have : 4 * J ε / θ ^ 2 ≤ 4 * ε / θ ^ 2 := div_le_div_of_nonneg_right (by linarith) hp.le
    linarith
  · have : 0 ≤ 4 * J ε / θ ^ 2 := by positivity
    linarith

theorem abs_tauEps_sub_le {ε θ : ℝ} (hε : 0 ≤ ε) (hθ : θ ≠ 0) :
    |tauEps ε θ - tau θ| ≤ 4 * ε / θ ^ 2 := by
  obtain ⟨h1, h2⟩ := tauEps_bounds hε hθ
  rw [abs_le]
  constructor <;> linarith [show 0 ≤ 4 * ε / θ ^ 2 by positivity]

/-- for `ε > 0` the shift is strict: `τ_ε(θ) < τ(θ)` -/
theorem tauEps_lt {ε θ : ℝ} (hε : 0 < ε) (hθ : θ ≠ 0) : tauEps ε θ < tau θ := by
  rw [tauEps_eq hθ]
  have h1 : 0 < J ε := by
    have := (debye1_mem_Ioo hε).1
    rw [debye1_eq] at this
    have := mul_pos this hε
    rwa [div_mul_cancel₀ _ hε.ne'] at this
  have : 0 < 4 * J ε / θ ^ 2 := by positivity
  linarith

/-- The code's residual on the positive branch `[ε, ∞)` has exactly one zero for EVERY
`τ₀ ∈ [1 − 4/ε, 1)` — also for `τ₀ ≤ 0`, where the ideal map has no positive solution. -/
theorem T_exists_unique {ε τ₀ : ℝ} (hε : 0 < ε) (hlo : 1 - 4 / ε ≤ τ₀) (h1 : τ₀ < 1) :
    ∃! a, ε ≤ a ∧ BivFit.T ε τ₀ a = 0 := by
  have hd : 0 < 1 - τ₀ := by linarith
  set b := max ε (16 / (1 - τ₀)) with hb
  have hεb : ε ≤ b := le_max_left _ _
  have hb0 : 0 < b := lt_of_lt_of_le hε hεb
  have hcont : ContinuousOn (BivFit.T ε τ₀) (Icc ε b) := fun x hx =>
    (BivFit.T_hasDerivAt hε (lt_of_lt_of_le hε hx.1)).continuousAt.continuousWithinAt
  have hlo' : BivFit.T ε τ₀ ε ≤ 0 := by
    have e : BivFit.T ε τ₀ ε = 1 - 4 / ε - τ₀ := by
      simp only [BivFit.T, BivFit.I, intervalIntegral.integral_same]
      field_simp
      ring
    rw [e]; linarith
  have hhi : 0 ≤ BivFit.T ε τ₀ b := by
    rw [T_eq]
    have h2 := (tauEps_bounds hε.le hb0.ne').1
    have h3 := tau_ge hb0
    have h16 : 16 / (1 - τ₀) ≤ b := le_max_right _ _
    have h4 : 4 / b ≤ (1 - τ₀) / 4 := by
      rw [div_le_iff₀ hb0]
      have := (div_le_iff₀ hd).1 h16
      nlinarith
    have h5 : 4 * ε / b ^ 2 ≤ 4 / b := by
      rw [div_le_div_iff₀ (by positivity) hb0]
      nlinarith
    linarith
  obtain ⟨a, ha, he⟩ := intermediate_value_Icc hεb hcont ⟨hlo', hhi⟩
  refine ⟨a, ⟨ha.1, he⟩, ?_⟩
  rintro a' ⟨ha', he'⟩
  exact (BivFit.T_strictMonoOn (τ := τ₀) hε).injOn ha' ha.1 (he'.trans he.symm)

/-- On the NEGATIVE branch the code's map is not monotone (for `0 < ε ≤ 1`): it tends to `−∞` as
`θ → 0⁻`.  Explicitly `τ_ε(−2) > −2 > −4 ≥ τ_ε(−J(ε))` with `−2 < −J(ε) < 0`. -/
theorem tauEps_not_monotone_neg {ε : ℝ} (hε : 0 < ε) (hε1 : ε ≤ 1) :
    ∃ a b : ℝ, a < b ∧ b < 0 ∧ tauEps ε b < tauEps ε a := by
  have hc0 : 0 < J ε := by
    have := (debye1_mem_Ioo hε).1
    rw [debye1_eq] at this
    have := mul_pos this hε
    rwa [div_mul_cancel₀ _ hε.ne'] at this
  have hc1 : J ε ≤ 1 := (J_le_self hε.le).trans hε1
  refine ⟨-2, -J ε, by linarith, by linarith, ?_⟩
  rw [tauEps_eq (by linarith : -J ε ≠ 0), tauEps_eq (by norm_num : (-2 : ℝ) ≠ 0)]
  have h1 : tau (-J ε) < 0 := tau_neg_of_neg (by linarith)
  have h2 : -1 < tau (-2) := neg_one_lt_tau (by norm_num)
  have e1 : 4 * J ε / (-J ε) ^ 2 = 4 / J ε := by field_simp
  have e2 : 4 * J ε / (-2 : ℝ) ^ 2 = J ε := by ring
  rw [e1, e2]
  have h3 : 4 ≤ 4 / J ε := by rw [le_div_iff₀ hc0]; linarith
  linarith

/-! ## bridges to the generated code -/

theorem tauEps_zero (θ : ℝ) : tauEps 0 θ = tau θ := rfl

/-- the explicit ideal map written with the GENERATED Debye integrand -/
theorem bridge_idealTau (θ : ℝ) :
    1 + 4 * ((∫ s in (0 : ℝ)..θ, Gen.Frank.debyeIntegrand s) / θ - 1) / θ = tau θ := by
  rw [BivFit.bridge_dbe]; rfl

/-- the GENERATED residual with the exact integral for `quad` and lower limit `ε` -/
theorem bridge_residual (ε τ₀ a : ℝ) :
    Gen.Frank.tauResidual (fun f lo hi => ∫ t in lo..hi, f t) ε τ₀ a = tauEps ε a - τ₀ := by
  rw [BivFit.bridge_tauResidual, T_eq]

theorem bridge_J (x : ℝ) : (∫ s in (0 : ℝ)..x, Gen.Frank.debyeIntegrand s) = J x := by
  rw [BivFit.bridge_dbe]; rfl

/-! ## non-vacuity -/

example : ∃! θ, θ ≠ 0 ∧ tau θ = 1 / 2 := tau_exists_unique (by norm_num) (by norm_num) (by norm_num)
example : ∃! θ, θ ≠ 0 ∧ tau θ = -1 / 2 := tau_exists_unique (by norm_num) (by norm_num) (by norm_num)
example : ∃! a, (2 : ℝ)⁻¹ ^ 23 ≤ a ∧ BivFit.T ((2 : ℝ)⁻¹ ^ 23) 0 a = 0 :=
  T_exists_unique (by positivity) (by
    have : (1 : ℝ) ≤ 4 / (2 : ℝ)⁻¹ ^ 23 := by rw [le_div_iff₀ (by positivity)]; norm_num
    linarith) (by norm_num)

end CopVerif.FrankTau
