import Mathlib.Analysis.SpecialFunctions.Pow.Real
import Mathlib.Analysis.SpecialFunctions.Sqrt
import CopVerif.Base.Num
/-!
  The `ℝ` reading of the numeric signature.  `pow` is `Real.rpow`, `log` is `Real.log` (total:
  theorems carry the positivity hypotheses under which these agree with the mathematical
  functions), `isPosInf`/`isNaN` are constantly false (no overflow in ℝ), `beq` is equality.
-/
namespace CopVerif
open NumFns

noncomputable instance instNumFnsReal : NumFns ℝ where
  exp := Real.exp
  log := Real.log
  pow := fun a b => a ^ b
  sqrt := Real.sqrt
  abs := fun a => |a|
  ofNat := fun n => (n : ℝ)
  ofSci := fun m e => (m : ℝ) / (10 : ℝ) ^ e
  beq := fun a b => decide (a = b)
  isPosInf := fun _ => false
  isNaN := fun _ => false

@[simp] theorem exp_real (x : ℝ) : NumFns.exp x = Real.exp x := rfl
@[simp] theorem log_real (x : ℝ) : NumFns.log x = Real.log x := rfl
@[simp] theorem pow_real (x y : ℝ) : NumFns.pow x y = x ^ y := rfl
@[simp] theorem sqrt_real (x : ℝ) : NumFns.sqrt x = Real.sqrt x := rfl
@[simp] theorem abs_real (x : ℝ) : NumFns.abs x = |x| := rfl
@[simp] theorem ofNat_real (n : ℕ) : (NumFns.ofNat n : ℝ) = (n : ℝ) := rfl
@[simp] theorem ofSci_real (m e : ℕ) : (NumFns.ofSci m e : ℝ) = (m : ℝ) / (10 : ℝ) ^ e := rfl
@[simp] theorem beq_real (x y : ℝ) : (NumFns.beq x y = true) ↔ x = y := by
  simp [NumFns.beq]
@[simp] theorem beq_real_false (x y : ℝ) : (NumFns.beq x y = false) ↔ x ≠ y := by
  simp [NumFns.beq]
@[simp] theorem isPosInf_real (x : ℝ) : NumFns.isPosInf x = false := rfl
@[simp] theorem isNaN_real (x : ℝ) : NumFns.isNaN x = false := rfl

end CopVerif
