import Mathlib.Topology.Order.IntermediateValue
import Mathlib.Analysis.SpecialFunctions.Log.Deriv
import Mathlib.Analysis.SpecialFunctions.Exponential
import Mathlib.Analysis.Complex.ExponentialBounds
import CopVerif.Real.Frank
import CopVerif.Real.RosenblattGumbel
/-!
  The lower bracket end of the generic `percent_point` (C08b): `brentq(h(·,v) − y, ε, 1)` needs
  `h(ε,v) ≤ y`.  Frank: exact criterion, validity on the whole property domain.  Gumbel: the root is
  in the bracket iff `h(ε,v) ≤ y`, a lower bound for `h`, and a witness inside the property's domain
  where the root lies below the bracket.
-/
namespace CopVerif.Bracket
open CopVerif Real Set

/-! ## Frank -/
section frank
open CopVerif.Frank

/-- exact criterion: `h(ε,v) ≤ y ⇔ r(ε)·(y + (1−y)e^{−θv}) ≤ y` -/
theorem frank_h_le_iff {θ ε : ℝ} (hθ : θ ≠ 0) (hε : 0 ≤ ε) (hε1 : ε ≤ 1) (y v : ℝ) :
    h θ ε v ≤ y ↔ r θ ε * (y + (1 - y) * Real.exp (-θ * v)) ≤ y := by
  have hden := h_den_pos hθ hε hε1 v
  rw [h_eq hθ, div_le_iff₀ hden]
  constructor <;> intro hh <;> nlinarith

theorem frank_lt_h_iff {θ ε : ℝ} (hθ : θ ≠ 0) (hε : 0 ≤ ε) (hε1 : ε ≤ 1) (y v : ℝ) :
    y < h θ ε v ↔ y < r θ ε * (y + (1 - y) * Real.exp (-θ * v)) := by
  rw [← not_le, ← not_le, frank_h_le_iff hθ hε hε1]

/-- `r(ε) ≤ ε(1+θ)` for `θ > 0`, `ε ≥ 0` -/
theorem frank_r_le_pos {θ ε : ℝ} (hθ : 0 < θ) (hε : 0 ≤ ε) : r θ ε ≤ ε * (1 + θ) := by
  have h1 : 1 - θ * ε ≤ Real.exp (-θ * ε) := by
    have := Real.add_one_le_exp (-θ * ε); linarith
  have h2 : Real.exp (-θ * 1) ≤ 1 / (1 + θ) := by
    have h := Real.add_one_le_exp θ
    rw [show -θ * 1 = -θ by ring, Real.exp_neg, ← one_div]
    exact one_div_le_one_div_of_le (by linarith) (by linarith)
  have h3 : θ / (1 + θ) ≤ 1 - Real.exp (-θ * 1) := by
    have e : θ / (1 + θ) = 1 - 1 / (1 + θ) := by field_simp; ring
    linarith
  have hpos : 0 < 1 - Real.exp (-θ * 1) := lt_of_lt_of_le (by positivity) h3
  have e : r θ ε = (1 - Real.exp (-θ * ε)) / (1 - Real.exp (-θ * 1)) := by
    simp only [r, g]; rw [← neg_div_neg_eq]; congr 1 <;> ring
  rw [e, div_le_iff₀ hpos]
  have h4 : ε * (1 + θ) * (θ / (1 + θ)) = θ * ε := by field_simp
  have h5 : ε * (1 + θ) * (θ / (1 + θ)) ≤ ε * (1 + θ) * (1 - Real.exp (-θ * 1)) :=
    mul_le_mul_of_nonneg_left h3 (by positivity)
  linarith

/-- `r(ε)·e^{−θ} ≤ 2ε(1−θ)` for `θ < 0`, `0 ≤ ε`, `−θ ε ≤ 1/2` -/
theorem frank_r_le_neg {θ ε : ℝ} (hθ : θ < 0) (hε : 0 ≤ ε) (hs : -θ * ε ≤ 1 / 2) :
    r θ ε * Real.exp (-θ * 1) ≤ 2 * ε * (1 - θ) := by
  have hx0 : 0 ≤ -θ * ε := by nlinarith
  have h1 : Real.exp (-θ * ε) - 1 ≤ 2 * (-θ * ε) := by
    have hb : Real.exp (-θ * ε) ≤ 1 / (1 - (-θ * ε)) := by
      have h := Real.add_one_le_exp (-(-θ * ε))
      have hp : 0 < 1 - (-θ * ε) := by linarith
      have : Real.exp (-θ * ε) = (Real.exp (-(-θ * ε)))⁻¹ := by rw [Real.exp_neg, inv_inv]
      rw [this, ← one_div]
      exact one_div_le_one_div_of_le hp (by linarith)
    have hp : 0 < 1 - (-θ * ε) := by linarith
    have : 1 / (1 - (-θ * ε)) ≤ 1 + 2 * (-θ * ε) := by
      rw [div_le_iff₀ hp]; nlinarith
    linarith
  have h2 : Real.exp (-(-θ)) ≤ 1 / (1 + -θ) := by
    have h := Real.add_one_le_exp (-θ)
    rw [Real.exp_neg, ← one_div]
    exact one_div_le_one_div_of_le (by linarith) (by linarith)
  -- with E = e^{−θ} > 1:  r·E = (e^{−θε} − 1)·E/(E − 1) = (e^{−θε} − 1)/(1 − 1/E)
  have hE : 1 < Real.exp (-θ * 1) := Real.one_lt_exp_iff.2 (by linarith)
  have hEinv : (Real.exp (-θ * 1))⁻¹ ≤ 1 / (1 + -θ) := by
    rw [← Real.exp_neg]; simpa using h2
  have e : r θ ε * Real.exp (-θ * 1)
      = (Real.exp (-θ * ε) - 1) / (1 - (Real.exp (-θ * 1))⁻¹) := by
    simp only [r, g]
    have : Real.exp (-θ * 1) - 1 ≠ 0 := by linarith
    have h0 : Real.exp (-θ * 1) ≠ 0 := (Real.exp_pos _).ne'
    field_simp
  have hden : -θ / (1 + -θ) ≤ 1 - (Real.exp (-θ * 1))⁻¹ := by
    have e' : -θ / (1 + -θ) = 1 - 1 / (1 + -θ) := by
      have : (1 + -θ) ≠ 0 := by linarith
      field_simp; ring
    linarith
  have hdpos : 0 < 1 - (Real.exp (-θ * 1))⁻¹ := lt_of_lt_of_le (by
    apply div_pos <;> linarith) hden
  rw [e, div_le_iff₀ hdpos]
  have h4 : 2 * ε * (1 - θ) * (-θ / (1 + -θ)) = 2 * (-θ * ε) := by
    have : (1 + -θ) ≠ 0 := by linarith
    field_simp; ring
  have h5 : 2 * ε * (1 - θ) * (-θ / (1 + -θ)) ≤ 2 * ε * (1 - θ) * (1 - (Real.exp (-θ * 1))⁻¹) :=
    mul_le_mul_of_nonneg_left hden (by nlinarith)
  linarith

/-- sufficient condition for the bracket to be valid, either sign of θ -/
theorem frank_h_le_of_small {θ ε y v : ℝ} (hθ : θ ≠ 0) (hε : 0 ≤ ε) (hε1 : ε ≤ 1)
    (hs : |θ| * ε ≤ 1 / 2) (hy : 2 * ε * (1 + |θ|) ≤ y) (hy1 : y ≤ 1) (hv : 0 ≤ v) (hv1 : v ≤ 1) :
    h θ ε v ≤ y := by
  rw [frank_h_le_iff hθ hε hε1]
  have hr0 := r_nonneg hθ hε
  have hy0 : 0 ≤ y := le_trans (by positivity) hy
  rcases lt_or_gt_of_ne hθ with hneg | hpos
  · rw [abs_of_neg hneg] at hs hy
    have hY : Real.exp (-θ * v) ≤ Real.exp (-θ * 1) := Real.exp_le_exp.2 (by nlinarith)
    have hY1 : 1 ≤ Real.exp (-θ * v) := Real.one_le_exp (by nlinarith)
    have hb : y + (1 - y) * Real.exp (-θ * v) ≤ Real.exp (-θ * 1) := by nlinarith
    have := frank_r_le_neg hneg hε (by linarith)
    calc r θ ε * (y + (1 - y) * Real.exp (-θ * v)) ≤ r θ ε * Real.exp (-θ * 1) :=
          mul_le_mul_of_nonneg_left hb hr0
      _ ≤ 2 * ε * (1 - θ) := this
      _ ≤ y := by linarith
  · rw [abs_of_pos hpos] at hs hy
    have hY : Real.exp (-θ * v) ≤ 1 := Real.exp_le_one_iff.2 (by nlinarith)
    have hb : y + (1 - y) * Real.exp (-θ * v) ≤ 1 := by nlinarith
    have := frank_r_le_pos hpos hε
    calc r θ ε * (y + (1 - y) * Real.exp (-θ * v)) ≤ r θ ε * 1 :=
          mul_le_mul_of_nonneg_left hb hr0
      _ ≤ ε * (1 + θ) := by linarith
      _ ≤ y := by nlinarith

/-- existence and uniqueness of the root inside the bracket `[ε,1]` once `h(ε,v) ≤ y ≤ 1` -/
theorem frank_root_in_bracket {θ ε y : ℝ} (hθ : θ ≠ 0) (hε : 0 ≤ ε) (hε1 : ε ≤ 1) (v : ℝ)
    (hlo : h θ ε v ≤ y) (hy1 : y ≤ 1) : ∃! u, u ∈ Icc ε 1 ∧ h θ u v = y := by
  have hcont : ContinuousOn (fun u => h θ u v) (Icc ε 1) := fun u hu =>
    (hasDerivAt_h_left hθ (hε.trans hu.1) hu.2 v).continuousAt.continuousWithinAt
  obtain ⟨u, hu, hyu⟩ := intermediate_value_Icc hε1 hcont ⟨hlo, by rw [h_one_left hθ]; exact hy1⟩
  refine ⟨u, ⟨hu, hyu⟩, ?_⟩
  rintro u' ⟨hu', hy'⟩
  by_contra hne
  rcases lt_or_gt_of_ne hne with hlt | hgt
  · have := h_strictMono_left hθ (hε.trans hu'.1) hlt hu.2 v
    simp only at hyu; rw [hy', hyu] at this; exact lt_irrefl _ this
  · have := h_strictMono_left hθ (hε.trans hu.1) hgt hu'.2 v
    simp only at hyu; rw [hy', hyu] at this; exact lt_irrefl _ this

/-- no root in the bracket when `y < h(ε,v)` -/
theorem frank_no_root_in_bracket {θ ε y u : ℝ} (hθ : θ ≠ 0) (hε : 0 ≤ ε) (v : ℝ)
    (hlo : y < h θ ε v) (hu : ε ≤ u) (hu1 : u ≤ 1) : y < h θ u v :=
  lt_of_lt_of_le hlo (h_mono_left hθ hε hu hu1 v)

end frank

/-! ## Gumbel -/
section gumbel
open CopVerif.Gumbel

/-- `h(1,v) = 1` for `v ∈ (0,1)`, `θ ≥ 1` (genuine: `S = b^θ > 0`) -/
theorem gumbel_h_one_left {θ v : ℝ} (hθ : 1 ≤ θ) (hv : 0 < v) (hv1 : v < 1) : h θ 1 v = 1 := by
  have hb := neg_log_pos hv hv1
  have h0 : θ ≠ 0 := by linarith
  have hS : S θ 1 v = (-Real.log v) ^ θ := by
    simp only [S, Real.log_one, neg_zero]
    rw [Real.zero_rpow h0, zero_add]
  have hC : C θ 1 v = v := C_one_left hθ hv hv1.le
  simp only [h]
  rw [hC, hS, ← Real.rpow_mul hb.le]
  have e : v * (-Real.log v) ^ (θ * (-1 + 1 / θ)) * (-Real.log v) ^ (θ - 1)
      = v * ((-Real.log v) ^ (θ * (-1 + 1 / θ)) * (-Real.log v) ^ (θ - 1)) := by ring
  rw [e, ← Real.rpow_add hb]
  have : θ * (-1 + 1 / θ) + (θ - 1) = 0 := by field_simp; ring
  rw [this, Real.rpow_zero, mul_one, div_self hv.ne']

/-- `u ↦ h(u,v)` is continuous at every `u ∈ (0,1]` -/
theorem gumbel_h_continuousAt {θ u v : ℝ} (hθ : 1 ≤ θ) (hu : 0 < u) (hu1 : u ≤ 1) (hv : 0 < v)
    (hv1 : v < 1) : ContinuousAt (fun u => h θ u v) u := by
  have hb := neg_log_pos hv hv1
  have hSpos : 0 < S θ u v := by
    have h1 := Real.rpow_nonneg (neg_log_nonneg hu hu1) θ
    have h2 := Real.rpow_pos_of_pos hb θ
    simp only [S]; linarith
  have hS : ContinuousAt (fun u => S θ u v) u := by
    unfold S
    exact (((Real.continuousAt_log hu.ne').neg).rpow_const (Or.inr (by linarith))).add
      continuousAt_const
  have hC : ContinuousAt (fun u => C θ u v) u := by
    unfold C
    exact ((hS.rpow_const (Or.inl hSpos.ne')).neg).rexp
  have hX : ContinuousAt (fun u => (S θ u v) ^ (-1 + 1 / θ)) u :=
    hS.rpow_const (Or.inl hSpos.ne')
  unfold h
  exact ((hC.mul hX).mul continuousAt_const).div_const v

/-- The root of `h(·,v) = y` lies in the bracket `[ε,1]` iff `h(ε,v) ≤ y`. -/
theorem gumbel_root_in_bracket_iff {θ ε y v : ℝ} (hθ : 1 ≤ θ) (hε : 0 < ε) (hε1 : ε < 1)
    (hv : 0 < v) (hv1 : v < 1) (hy1 : y ≤ 1) :
    (∃ u, u ∈ Icc ε 1 ∧ h θ u v = y) ↔ h θ ε v ≤ y := by
  constructor
  · rintro ⟨u, ⟨hu, hu1⟩, rfl⟩
    rcases hu1.eq_or_lt with rfl | hlt
    · rw [gumbel_h_one_left hθ hv hv1]; exact h_le_one hθ hε hε1 hv hv1
    · exact h_mono hθ hε hu hlt hv hv1
  · intro hlo
    have hcont : ContinuousOn (fun u => h θ u v) (Icc ε 1) := fun u hu =>
      (gumbel_h_continuousAt hθ (lt_of_lt_of_le hε hu.1) hu.2 hv hv1).continuousWithinAt
    exact intermediate_value_Icc hε1.le hcont
      ⟨hlo, by rw [gumbel_h_one_left hθ hv hv1]; exact hy1⟩

/-- when `y < h(ε,v)`, `h(u,v) − y > 0` on the whole bracket (both ends included) -/
theorem gumbel_no_root_in_bracket {θ ε y u v : ℝ} (hθ : 1 ≤ θ) (hε : 0 < ε) (hε1 : ε < 1)
    (hv : 0 < v) (hv1 : v < 1) (hlo : y < h θ ε v) (hu : ε ≤ u) (hu1 : u ≤ 1) : y < h θ u v := by
  rcases hu1.eq_or_lt with rfl | hlt
  · rw [gumbel_h_one_left hθ hv hv1]
    exact lt_of_lt_of_le hlo (h_le_one hθ hε hε1 hv hv1)
  · exact lt_of_lt_of_le hlo (h_mono hθ hε hu hlt hv hv1)

/-- uniqueness of the root in `(0,1)` -/
theorem gumbel_root_unique {θ y u u' v : ℝ} (hθ : 1 ≤ θ) (hv : 0 < v) (hv1 : v < 1)
    (hu : u ∈ Ioo (0 : ℝ) 1) (hu' : u' ∈ Ioo (0 : ℝ) 1) (h1 : h θ u v = y) (h2 : h θ u' v = y) :
    u = u' :=
  (h_strictMonoOn hθ hv hv1).injOn hu hu' (h1.trans h2.symm)

/-- lower bound: if `S(u,v) ≤ t^θ` then `e^{−t}·t^{1−θ}·(−log v)^{θ−1}/v ≤ h(u,v)` -/
theorem gumbel_h_lower {θ u v t : ℝ} (hθ : 1 ≤ θ) (hu : 0 < u) (hu1 : u < 1) (hv : 0 < v)
    (hv1 : v < 1) (ht : 0 < t) (hS : S θ u v ≤ t ^ θ) :
    Real.exp (-t) * t ^ (1 - θ) * (-Real.log v) ^ (θ - 1) / v ≤ h θ u v := by
  have h0 : θ ≠ 0 := by linarith
  have hSpos := S_pos (θ := θ) hu hu1 hv hv1
  have hb := neg_log_pos hv hv1
  have h1 : (S θ u v) ^ (1 / θ) ≤ t := by
    have := Real.rpow_le_rpow hSpos.le hS (show 0 ≤ 1 / θ by positivity)
    rwa [← Real.rpow_mul ht.le, mul_one_div_cancel h0, Real.rpow_one] at this
  have h2 : t ^ (1 - θ) ≤ (S θ u v) ^ (-1 + 1 / θ) := by
    have := Real.rpow_le_rpow_of_nonpos hSpos hS (show -1 + 1 / θ ≤ 0 by
      have : 1 / θ ≤ 1 := by rw [div_le_one (by linarith)]; exact hθ
      linarith)
    rw [← Real.rpow_mul ht.le] at this
    have e : θ * (-1 + 1 / θ) = 1 - θ := by field_simp; ring
    rwa [e] at this
  have h3 : Real.exp (-t) ≤ C θ u v := by
    unfold C; exact Real.exp_le_exp.2 (by linarith)
  have hB : 0 ≤ (-Real.log v) ^ (θ - 1) := Real.rpow_nonneg hb.le _
  unfold h
  apply div_le_div_of_nonneg_right _ hv.le
  have hp : 0 ≤ t ^ (1 - θ) := Real.rpow_nonneg ht.le _
  exact mul_le_mul_of_nonneg_right (mul_le_mul h3 h2 hp (Real.exp_pos _).le) hB

/-- `h(u,v) ≤ C(u,v)/v ≤ u/v`: the bracket is certainly valid when `ε ≤ y·v` -/
theorem gumbel_h_le_div {θ u v : ℝ} (hθ : 1 ≤ θ) (hu : 0 < u) (hu1 : u < 1) (hv : 0 < v)
    (hv1 : v < 1) : h θ u v ≤ u / v := by
  have h0 : θ ≠ 0 := by linarith
  have hS := S_pos (θ := θ) hu hu1 hv hv1
  have hb := neg_log_pos hv hv1
  have ha := neg_log_pos hu hu1
  have hC : 0 < C θ u v := Real.exp_pos _
  have hCu : C θ u v ≤ u := le_trans (C_le_min hθ hu hu1.le hv hv1.le) (min_le_left _ _)
  have hbs : -Real.log v ≤ (S θ u v) ^ (1 / θ) := by
    have e : ((-Real.log v) ^ θ) ^ (1 / θ) = -Real.log v := by
      rw [← Real.rpow_mul hb.le, mul_one_div_cancel h0, Real.rpow_one]
    have hle : (-Real.log v) ^ θ ≤ S θ u v := by
      have := Real.rpow_nonneg ha.le θ
      simp only [S]; linarith
    calc -Real.log v = ((-Real.log v) ^ θ) ^ (1 / θ) := e.symm
      _ ≤ (S θ u v) ^ (1 / θ) :=
        Real.rpow_le_rpow (Real.rpow_nonneg hb.le θ) hle (by positivity)
  have hpow : (-Real.log v) ^ (θ - 1) ≤ ((S θ u v) ^ (1 / θ)) ^ (θ - 1) :=
    Real.rpow_le_rpow hb.le hbs (by linarith)
  have hX : 0 < (S θ u v) ^ (-1 + 1 / θ) := Real.rpow_pos_of_pos hS _
  have hone : (S θ u v) ^ (-1 + 1 / θ) * ((S θ u v) ^ (1 / θ)) ^ (θ - 1) = 1 := by
    rw [← Real.rpow_mul hS.le, ← Real.rpow_add hS]
    have : -1 + 1 / θ + 1 / θ * (θ - 1) = 0 := by field_simp; ring
    rw [this, Real.rpow_zero]
  have hprod : (S θ u v) ^ (-1 + 1 / θ) * (-Real.log v) ^ (θ - 1) ≤ 1 := by
    calc (S θ u v) ^ (-1 + 1 / θ) * (-Real.log v) ^ (θ - 1)
        ≤ (S θ u v) ^ (-1 + 1 / θ) * ((S θ u v) ^ (1 / θ)) ^ (θ - 1) :=
          mul_le_mul_of_nonneg_left hpow hX.le
      _ = 1 := hone
  have hB : 0 ≤ (-Real.log v) ^ (θ - 1) := Real.rpow_nonneg hb.le _
  simp only [h]
  apply div_le_div_of_nonneg_right _ hv.le
  calc C θ u v * (S θ u v) ^ (-1 + 1 / θ) * (-Real.log v) ^ (θ - 1)
      = C θ u v * ((S θ u v) ^ (-1 + 1 / θ) * (-Real.log v) ^ (θ - 1)) := by ring
    _ ≤ u * 1 := mul_le_mul hCu hprod (mul_nonneg hX.le hB) hu.le
    _ = u := mul_one u

/-! ### the witness `θ = 4`, `v = y = 10⁻⁴`, `ε = 2⁻²³` -/

theorem log_ten_bounds : 2.3 < Real.log 10 ∧ Real.log 10 < 2.305 := by
  have h2a := Real.log_two_gt_d9
  have h2b := Real.log_two_lt_d9
  -- 3 log 10 = 10 log 2 − log 1.024
  have e : 3 * Real.log 10 = 10 * Real.log 2 - Real.log (1.024 : ℝ) := by
    have h1 : Real.log (1000 : ℝ) = 3 * Real.log 10 := by
      rw [show (1000 : ℝ) = 10 ^ 3 by norm_num, Real.log_pow]; norm_num
    have h2 : Real.log (1024 : ℝ) = 10 * Real.log 2 := by
      rw [show (1024 : ℝ) = 2 ^ 10 by norm_num, Real.log_pow]; norm_num
    have h3 : Real.log (1.024 : ℝ) = Real.log 1024 - Real.log 1000 := by
      rw [← Real.log_div (by norm_num) (by norm_num)]; norm_num
    linarith
  have u1 : Real.log (1.024 : ℝ) ≤ 1.024 - 1 := Real.log_le_sub_one_of_pos (by norm_num)
  have u2 : 1 - (1.024 : ℝ)⁻¹ ≤ Real.log (1.024 : ℝ) := Real.one_sub_inv_le_log_of_pos (by norm_num)
  norm_num at u1 u2 h2a h2b ⊢
  constructor <;> linarith

theorem exp_bound_164 : Real.exp (16.4 : ℝ) < 15000000 := by
  have h1 : Real.exp (16 : ℝ) < 2.72 ^ 16 := by
    have := Real.exp_one_lt_d9
    have e : Real.exp (16 : ℝ) = Real.exp 1 ^ 16 := by
      rw [← Real.exp_nat_mul]; norm_num
    rw [e]
    exact pow_lt_pow_left₀ (by linarith) (Real.exp_pos 1).le (by norm_num)
  have h2 : Real.exp (0.4 : ℝ) < 1 / (1 - 0.4) :=
    Real.exp_bound_div_one_sub_of_interval' (by norm_num) (by norm_num)
  have e : Real.exp (16.4 : ℝ) = Real.exp 16 * Real.exp 0.4 := by
    rw [← Real.exp_add]; norm_num
  rw [e]
  calc Real.exp 16 * Real.exp 0.4 < 2.72 ^ 16 * (1 / (1 - 0.4)) :=
        mul_lt_mul'' h1 h2 (Real.exp_pos _).le (Real.exp_pos _).le
    _ < 15000000 := by norm_num

/-- WITNESS inside the property's domain (`θ = 4`, i.e. `τ = 0.75`; `y = v = 10⁻⁴`): the conditional
CDF at the lower bracket end `ε = 2⁻²³` already exceeds `y`. -/
theorem gumbel_witness : (1 / 10000 : ℝ) < h 4 (1 / 8388608) (1 / 10000) := by
  obtain ⟨l1, l2⟩ := log_ten_bounds
  have h2b := Real.log_two_lt_d9
  have ha : -Real.log (1 / 8388608 : ℝ) = 23 * Real.log 2 := by
    rw [one_div, Real.log_inv, neg_neg, show (8388608 : ℝ) = 2 ^ 23 by norm_num, Real.log_pow]
    norm_num
  have hb : -Real.log (1 / 10000 : ℝ) = 4 * Real.log 10 := by
    rw [one_div, Real.log_inv, neg_neg, show (10000 : ℝ) = 10 ^ 4 by norm_num, Real.log_pow]
    norm_num
  have hl2 : 0 < Real.log 2 := Real.log_pos (by norm_num)
  have hS : S 4 (1 / 8388608) (1 / 10000) ≤ (16.4 : ℝ) ^ (4 : ℝ) := by
    simp only [S]
    rw [ha, hb, Real.rpow_ofNat, Real.rpow_ofNat, Real.rpow_ofNat]
    have a1 : 23 * Real.log 2 ≤ 15.95 := by norm_num at h2b ⊢; linarith
    have b1 : 4 * Real.log 10 ≤ 9.22 := by norm_num at l2 ⊢; linarith
    have a4 : (23 * Real.log 2) ^ 4 ≤ (15.95 : ℝ) ^ 4 :=
      pow_le_pow_left₀ (by positivity) a1 4
    have b4 : (4 * Real.log 10) ^ 4 ≤ (9.22 : ℝ) ^ 4 :=
      pow_le_pow_left₀ (by linarith) b1 4
    norm_num at a4 b4 ⊢
    linarith
  have hlow := gumbel_h_lower (θ := 4) (u := 1 / 8388608) (v := 1 / 10000) (t := 16.4)
    (by norm_num) (by norm_num) (by norm_num) (by norm_num) (by norm_num) (by norm_num) hS
  refine lt_of_lt_of_le ?_ hlow
  rw [hb, show (1 - 4 : ℝ) = -3 by norm_num, show (4 - 1 : ℝ) = 3 by norm_num,
    Real.rpow_neg (by norm_num), Real.rpow_ofNat, Real.rpow_ofNat, Real.exp_neg]
  have he := exp_bound_164
  have hepos := Real.exp_pos (16.4 : ℝ)
  have b3 : (9.2 : ℝ) ^ 3 ≤ (4 * Real.log 10) ^ 3 :=
    pow_le_pow_left₀ (by norm_num) (by norm_num at l1 ⊢; linarith) 3
  rw [lt_div_iff₀ (by norm_num)]
  generalize (4 * Real.log 10) ^ 3 = X at b3 ⊢
  generalize Real.exp (16.4 : ℝ) = E at he hepos ⊢
  have e : E⁻¹ * ((16.4 : ℝ) ^ 3)⁻¹ * X = X / (E * (16.4 : ℝ) ^ 3) := by field_simp
  rw [e, lt_div_iff₀ (by positivity)]
  norm_num at b3 ⊢
  linarith

end gumbel

end CopVerif.Bracket
