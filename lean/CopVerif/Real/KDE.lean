import Mathlib.Analysis.SpecialFunctions.Pow.Real
import Mathlib.Analysis.SpecialFunctions.Sqrt
import Mathlib.Topology.Order.IntermediateValue
import Mathlib.Analysis.Calculus.Deriv.Add
import Mathlib.Analysis.Calculus.Deriv.Mul
import Mathlib.MeasureTheory.Integral.DivergenceTheorem
import CopVerif.Real.Inst
import CopVerif.Gen.UniConst
/-!
# Univariate models over ℝ (property C03)

* `CopVerif.Uni`: the laws of a distribution function (`C03Laws`), the hypothesis structure that
  stands for a `scipy.stats` family at one parameter value (`FamilyCoherent`), and the derivation of
  the former from the latter (generalised-inverse algebra, FTC with countably many kinks).
* `CopVerif.KDE`: the kernel-sum CDF of `GaussianKDE` as a spec over ℝ (`KDE.cdf`), the bridge from
  the GENERATED definition `Gen.UniConst.kdeCdf`, and the facts about it for an arbitrary kernel CDF
  `Φ` (`IsCDF`), weights `≥ 0` summing to one and bandwidth `h > 0`.
-/
namespace CopVerif.Uni
open CopVerif Filter Topology MeasureTheory

/-- An external cumulative distribution function (`scipy.special.ndtr`, DESIGN 3.2). -/
structure IsCDF (F : ℝ → ℝ) : Prop where
  mono : Monotone F
  nonneg : ∀ x, 0 ≤ F x
  le_one : ∀ x, F x ≤ 1

/-- The C03 laws for the four pointwise queries of a fitted model. -/
structure C03Laws (pdf cdf ppf logpdf : ℝ → ℝ) : Prop where
  cdf_mono : Monotone cdf
  cdf_nonneg : ∀ x, 0 ≤ cdf x
  cdf_le_one : ∀ x, cdf x ≤ 1
  cdf_atBot : Tendsto cdf atBot (𝓝 0)
  cdf_atTop : Tendsto cdf atTop (𝓝 1)
  pdf_nonneg : ∀ x, 0 ≤ pdf x
  /-- the density integrates to the CDF increment over any interval -/
  pdf_integral : ∀ a b, a ≤ b → ∫ x in a..b, pdf x = cdf b - cdf a
  ppf_mono : ∀ q₁ q₂, 0 < q₁ → q₁ ≤ q₂ → q₂ < 1 → ppf q₁ ≤ ppf q₂
  /-- `cdf(ppf(q)) = q` on `(0,1)` (the CDF is continuous) -/
  cdf_ppf : ∀ q, 0 < q → q < 1 → cdf (ppf q) = q
  /-- `ppf(cdf(x)) = x` wherever the CDF is strictly increasing from the left at `x`
      (in particular where the density is positive) -/
  ppf_cdf : ∀ x, 0 < cdf x → cdf x < 1 → (∀ y, y < x → cdf y < cdf x) → ppf (cdf x) = x
  logpdf_eq : ∀ x, 0 < pdf x → logpdf x = Real.log (pdf x)

/-- What is ASSUMED of a `scipy.stats` family evaluated at ONE parameter value: the four functions
`pdf, cdf, ppf, logpdf` are coherent.  `S` is the (countable) set of kinks of the CDF (empty for
norm/t/gamma with a > 1, the end points of the support for uniform/beta/truncnorm/loglaplace). -/
structure FamilyCoherent (pdf cdf ppf logpdf : ℝ → ℝ) (S : Set ℝ) : Prop where
  cdf_mono : Monotone cdf
  cdf_nonneg : ∀ x, 0 ≤ cdf x
  cdf_le_one : ∀ x, cdf x ≤ 1
  cdf_atBot : Tendsto cdf atBot (𝓝 0)
  cdf_atTop : Tendsto cdf atTop (𝓝 1)
  cdf_cont : Continuous cdf
  pdf_nonneg : ∀ x, 0 ≤ pdf x
  S_countable : S.Countable
  cdf_deriv : ∀ x, x ∉ S → HasDerivAt cdf (pdf x) x
  pdf_integrable : ∀ a b, IntervalIntegrable pdf volume a b
  /-- `ppf` is the generalised inverse (quantile function) of `cdf` -/
  ppf_gc : ∀ q x, 0 < q → q < 1 → (ppf q ≤ x ↔ q ≤ cdf x)
  logpdf_eq : ∀ x, 0 < pdf x → logpdf x = Real.log (pdf x)

section gc
variable {cdf ppf : ℝ → ℝ}

theorem le_cdf_ppf (gc : ∀ q x, 0 < q → q < 1 → (ppf q ≤ x ↔ q ≤ cdf x)) {q : ℝ} (h0 : 0 < q)
    (h1 : q < 1) : q ≤ cdf (ppf q) := (gc q (ppf q) h0 h1).1 le_rfl

theorem ppf_mono_of_gc (gc : ∀ q x, 0 < q → q < 1 → (ppf q ≤ x ↔ q ≤ cdf x)) {q₁ q₂ : ℝ}
    (h0 : 0 < q₁) (h12 : q₁ ≤ q₂) (h1 : q₂ < 1) : ppf q₁ ≤ ppf q₂ :=
  (gc q₁ (ppf q₂) h0 (lt_of_le_of_lt h12 h1)).2
    (le_trans h12 (le_cdf_ppf gc (lt_of_lt_of_le h0 h12) h1))

theorem cdf_ppf_of_gc (gc : ∀ q x, 0 < q → q < 1 → (ppf q ≤ x ↔ q ≤ cdf x)) (hc : Continuous cdf)
    {q : ℝ} (h0 : 0 < q) (h1 : q < 1) : cdf (ppf q) = q := by
  refine le_antisymm ?_ (le_cdf_ppf gc h0 h1)
  by_contra hlt
  rw [not_le] at hlt
  have hev : ∀ᶠ x in 𝓝 (ppf q), q < cdf x := hc.continuousAt.eventually (lt_mem_nhds hlt)
  have hev' : ∀ᶠ x in 𝓝[<] (ppf q), q < cdf x := hev.filter_mono nhdsWithin_le_nhds
  obtain ⟨x, hx, hxlt⟩ := (hev'.and self_mem_nhdsWithin).exists
  have : ppf q ≤ x := (gc q x h0 h1).2 hx.le
  exact absurd hxlt (not_lt.mpr this)

theorem ppf_cdf_of_gc (gc : ∀ q x, 0 < q → q < 1 → (ppf q ≤ x ↔ q ≤ cdf x)) {x : ℝ}
    (h0 : 0 < cdf x) (h1 : cdf x < 1) (hs : ∀ y, y < x → cdf y < cdf x) : ppf (cdf x) = x := by
  refine le_antisymm ((gc (cdf x) x h0 h1).2 le_rfl) ?_
  by_contra hlt
  rw [not_le] at hlt
  have := (gc (cdf x) (ppf (cdf x)) h0 h1).1 le_rfl
  exact absurd (hs _ hlt) (not_lt.mpr this)

end gc

/-- Coherence of the family at one parameter value gives the C03 laws for those four functions. -/
theorem FamilyCoherent.laws {pdf cdf ppf logpdf : ℝ → ℝ} {S : Set ℝ}
    (h : FamilyCoherent pdf cdf ppf logpdf S) : C03Laws pdf cdf ppf logpdf where
  cdf_mono := h.cdf_mono
  cdf_nonneg := h.cdf_nonneg
  cdf_le_one := h.cdf_le_one
  cdf_atBot := h.cdf_atBot
  cdf_atTop := h.cdf_atTop
  pdf_nonneg := h.pdf_nonneg
  pdf_integral := fun a b hab =>
    integral_eq_of_hasDerivAt_off_countable_of_le cdf pdf hab h.S_countable
      h.cdf_cont.continuousOn (fun x hx => h.cdf_deriv x hx.2) (h.pdf_integrable a b)
  ppf_mono := fun _ _ h0 h12 h1 => ppf_mono_of_gc h.ppf_gc h0 h12 h1
  cdf_ppf := fun _ h0 h1 => cdf_ppf_of_gc h.ppf_gc h.cdf_cont h0 h1
  ppf_cdf := fun _ h0 h1 hs => ppf_cdf_of_gc h.ppf_gc h0 h1 hs
  logpdf_eq := h.logpdf_eq

end CopVerif.Uni

namespace CopVerif.KDE
open CopVerif NumFns Gen.UniConst Uni

/-! ## list vocabulary at ℝ -/

theorem sumList_eq_sum (xs : List ℝ) : sumList xs = xs.sum := by
  simp [sumList, List.sum_eq_foldl]

private theorem foldl_min_le (l : List ℝ) (m : ℝ) :
    List.foldl (fun m y => if y < m then y else m) m l ≤ m ∧
      ∀ y ∈ l, List.foldl (fun m y => if y < m then y else m) m l ≤ y := by
  induction l generalizing m with
  | nil => simp
  | cons a l ih =>
    simp only [List.foldl_cons, List.mem_cons, forall_eq_or_imp]
    obtain ⟨h1, h2⟩ := ih (if a < m then a else m)
    have hle : (if a < m then a else m) ≤ m ∧ (if a < m then a else m) ≤ a := by
      split_ifs with h
      · exact ⟨h.le, le_rfl⟩
      · exact ⟨le_rfl, not_lt.mp h⟩
    exact ⟨le_trans h1 hle.1, le_trans h1 hle.2, h2⟩

private theorem le_foldl_max (l : List ℝ) (m : ℝ) :
    m ≤ List.foldl (fun m y => if m < y then y else m) m l ∧
      ∀ y ∈ l, y ≤ List.foldl (fun m y => if m < y then y else m) m l := by
  induction l generalizing m with
  | nil => simp
  | cons a l ih =>
    simp only [List.foldl_cons, List.mem_cons, forall_eq_or_imp]
    obtain ⟨h1, h2⟩ := ih (if m < a then a else m)
    have hle : m ≤ (if m < a then a else m) ∧ a ≤ (if m < a then a else m) := by
      split_ifs with h
      · exact ⟨h.le, le_rfl⟩
      · exact ⟨le_rfl, not_lt.mp h⟩
    exact ⟨le_trans hle.1 h1, le_trans hle.2 h1, h2⟩

/-- `np.min(X) ≤ x` for every data point. -/
theorem listMin_le {xs : List ℝ} {x : ℝ} (hx : x ∈ xs) : listMin xs ≤ x := by
  cases xs with
  | nil => simp at hx
  | cons a l =>
    rcases List.mem_cons.mp hx with rfl | h
    · exact (foldl_min_le l x).1
    · exact (foldl_min_le l a).2 x h

/-- `x ≤ np.max(X)` for every data point. -/
theorem le_listMax {xs : List ℝ} {x : ℝ} (hx : x ∈ xs) : x ≤ listMax xs := by
  cases xs with
  | nil => simp at hx
  | cons a l =>
    rcases List.mem_cons.mp hx with rfl | h
    · exact (le_foldl_max l x).1
    · exact (le_foldl_max l a).2 x h

theorem popStd_nonneg (xs : List ℝ) : 0 ≤ popStd xs := by
  unfold popStd
  exact Real.sqrt_nonneg _

/-! ## weighted sums `Σ_i f(x_i) · w_i` over `zip xs ws` -/

/-- `Σ_i f(x_i) w_i` -/
noncomputable def wsum (f : ℝ → ℝ) (xs ws : List ℝ) : ℝ :=
  (List.zipWith (fun xi wi => f xi * wi) xs ws).sum

theorem wsum_nil_left (f : ℝ → ℝ) (ws : List ℝ) : wsum f [] ws = 0 := by simp [wsum]
theorem wsum_nil_right (f : ℝ → ℝ) (xs : List ℝ) : wsum f xs [] = 0 := by simp [wsum]
theorem wsum_cons (f : ℝ → ℝ) (a w : ℝ) (xs ws : List ℝ) :
    wsum f (a :: xs) (w :: ws) = f a * w + wsum f xs ws := by simp [wsum]

theorem wsum_mono {f g : ℝ → ℝ} {xs ws : List ℝ} (hfg : ∀ x ∈ xs, f x ≤ g x)
    (hw : ∀ w ∈ ws, 0 ≤ w) : wsum f xs ws ≤ wsum g xs ws := by
  induction xs generalizing ws with
  | nil => simp [wsum_nil_left]
  | cons a xs ih =>
    cases ws with
    | nil => simp [wsum_nil_right]
    | cons w ws =>
      rw [wsum_cons, wsum_cons]
      have h1 : f a * w ≤ g a * w :=
        mul_le_mul_of_nonneg_right (hfg a (List.mem_cons_self ..)) (hw w (List.mem_cons_self ..))
      have h2 := ih (ws := ws) (fun x hx => hfg x (List.mem_cons_of_mem _ hx))
        (fun v hv => hw v (List.mem_cons_of_mem _ hv))
      linarith

theorem wsum_const (c : ℝ) {xs ws : List ℝ} (hlen : xs.length = ws.length) :
    wsum (fun _ => c) xs ws = c * ws.sum := by
  induction xs generalizing ws with
  | nil =>
    cases ws with
    | nil => simp [wsum_nil_left]
    | cons w ws => simp at hlen
  | cons a xs ih =>
    cases ws with
    | nil => simp at hlen
    | cons w ws =>
      rw [wsum_cons, ih (by simpa using hlen), List.sum_cons]; ring

theorem wsum_sub (f g : ℝ → ℝ) (xs ws : List ℝ) :
    wsum (fun x => f x - g x) xs ws = wsum f xs ws - wsum g xs ws := by
  induction xs generalizing ws with
  | nil => simp [wsum_nil_left]
  | cons a xs ih =>
    cases ws with
    | nil => simp [wsum_nil_right]
    | cons w ws => rw [wsum_cons, wsum_cons, wsum_cons, ih]; ring

theorem wsum_nonneg {f : ℝ → ℝ} {xs ws : List ℝ} (hf : ∀ x ∈ xs, 0 ≤ f x)
    (hw : ∀ w ∈ ws, 0 ≤ w) : 0 ≤ wsum f xs ws := by
  have := wsum_mono (f := fun _ => 0) (g := f) (xs := xs) (ws := ws) hf hw
  have h0 : wsum (fun _ => (0 : ℝ)) xs ws = 0 := by
    induction xs generalizing ws with
    | nil => simp [wsum_nil_left]
    | cons a xs ih =>
      cases ws with
      | nil => simp [wsum_nil_right]
      | cons w ws =>
        rw [wsum_cons, ih (fun x hx => hf x (List.mem_cons_of_mem _ hx))
          (fun v hv => hw v (List.mem_cons_of_mem _ hv))
          (wsum_mono (fun x hx => hf x (List.mem_cons_of_mem _ hx))
            (fun v hv => hw v (List.mem_cons_of_mem _ hv)))]
        ring
  linarith

theorem wsum_continuous {F : ℝ → ℝ → ℝ} (hF : ∀ xi, Continuous fun x => F x xi) (xs ws : List ℝ) :
    Continuous fun x => wsum (F x) xs ws := by
  induction xs generalizing ws with
  | nil => simp only [wsum_nil_left]; exact continuous_const
  | cons a xs ih =>
    cases ws with
    | nil => simp only [wsum_nil_right]; exact continuous_const
    | cons w ws =>
      simp only [wsum_cons]
      exact ((hF a).mul continuous_const).add (ih ws)

theorem wsum_hasDerivAt {F F' : ℝ → ℝ → ℝ} {x : ℝ}
    (hF : ∀ xi, HasDerivAt (fun x => F x xi) (F' x xi) x) (xs ws : List ℝ) :
    HasDerivAt (fun x => wsum (F x) xs ws) (wsum (F' x) xs ws) x := by
  induction xs generalizing ws with
  | nil => simp only [wsum_nil_left]; exact hasDerivAt_const x 0
  | cons a xs ih =>
    cases ws with
    | nil => simp only [wsum_nil_right]; exact hasDerivAt_const x 0
    | cons w ws =>
      simp only [wsum_cons]
      exact HasDerivAt.add (HasDerivAt.mul_const (hF a) w) (ih ws)

/-! ## the kernel-sum CDF: spec, bridge, facts -/

/-- `Σ_i w_i Φ((x − x_i)/h)`: the untruncated kernel estimate of the CDF. -/
noncomputable def mass (Φ : ℝ → ℝ) (xs ws : List ℝ) (h x : ℝ) : ℝ :=
  wsum (fun xi => Φ ((x - xi) / h)) xs ws

/-- Spec of `GaussianKDE.cumulative_distribution`: `Σ_i w_i (Φ((x − x_i)/h) − Φ((L − x_i)/h))`. -/
noncomputable def cdf (Φ : ℝ → ℝ) (xs ws : List ℝ) (h L x : ℝ) : ℝ :=
  wsum (fun xi => Φ ((x - xi) / h) - Φ ((L - xi) / h)) xs ws

/-- bandwidth and lower/upper bound as the generated code computes them -/
noncomputable def bw (cov : ℝ) : ℝ := Real.sqrt cov
noncomputable def lower (xs : List ℝ) : ℝ := (kdeBounds xs).1
noncomputable def upper (xs : List ℝ) : ℝ := (kdeBounds xs).2

/-- The mass the code subtracts: `Σ_i w_i Φ((L − x_i)/h)` with `L = lower xs`, `h = √cov`. -/
noncomputable def deficit (Φ : ℝ → ℝ) (xs ws : List ℝ) (cov : ℝ) : ℝ :=
  mass Φ xs ws (bw cov) (lower xs)

/-- bridge: the generated term is the spec. -/
theorem bridge_kdeCdf (Φ : ℝ → ℝ) (xs ws : List ℝ) (cov x : ℝ) :
    kdeCdf Φ xs ws cov x = cdf Φ xs ws (bw cov) (lower xs) x := by
  simp [kdeCdf, cdf, wsum, bw, lower, sumList_eq_sum]

theorem cdf_eq_mass_sub (Φ : ℝ → ℝ) (xs ws : List ℝ) (h L x : ℝ) :
    cdf Φ xs ws h L x = mass Φ xs ws h x - mass Φ xs ws h L := by
  simp only [cdf, mass]; exact wsum_sub _ _ xs ws

theorem kdeCdf_eq_mass_sub_deficit (Φ : ℝ → ℝ) (xs ws : List ℝ) (cov x : ℝ) :
    kdeCdf Φ xs ws cov x = mass Φ xs ws (bw cov) x - deficit Φ xs ws cov := by
  rw [bridge_kdeCdf, cdf_eq_mass_sub, deficit]

section facts
variable {Φ : ℝ → ℝ} {xs ws : List ℝ} {h : ℝ}

theorem mass_mono (hΦ : IsCDF Φ) (hw : ∀ w ∈ ws, 0 ≤ w) (hh : 0 < h) : Monotone (mass Φ xs ws h) := by
  intro x y hxy
  apply wsum_mono _ hw
  intro xi _
  apply hΦ.mono
  apply div_le_div_of_nonneg_right _ hh.le
  linarith

theorem mass_nonneg (hΦ : IsCDF Φ) (hw : ∀ w ∈ ws, 0 ≤ w) (x : ℝ) : 0 ≤ mass Φ xs ws h x :=
  wsum_nonneg (fun _ _ => hΦ.nonneg _) hw

theorem mass_le_one (hΦ : IsCDF Φ) (hw : ∀ w ∈ ws, 0 ≤ w) (hsum : ws.sum = 1)
    (hlen : xs.length = ws.length) (x : ℝ) : mass Φ xs ws h x ≤ 1 := by
  have h1 := wsum_mono (f := fun xi => Φ ((x - xi) / h)) (g := fun _ => 1) (xs := xs) (ws := ws)
    (fun _ _ => hΦ.le_one _) hw
  rw [wsum_const 1 hlen, hsum] at h1
  simpa [mass] using h1

/-- every kernel's argument at `x` is at most `z`  ⇒  `mass x ≤ Φ z` -/
theorem mass_le_of_args_le (hΦ : IsCDF Φ) (hw : ∀ w ∈ ws, 0 ≤ w) (hsum : ws.sum = 1)
    (hlen : xs.length = ws.length) {x z : ℝ} (hz : ∀ xi ∈ xs, (x - xi) / h ≤ z) :
    mass Φ xs ws h x ≤ Φ z := by
  have h1 := wsum_mono (f := fun xi => Φ ((x - xi) / h)) (g := fun _ => Φ z) (xs := xs) (ws := ws)
    (fun xi hxi => hΦ.mono (hz xi hxi)) hw
  rw [wsum_const _ hlen, hsum] at h1
  simpa [mass] using h1

theorem le_mass_of_le_args (hΦ : IsCDF Φ) (hw : ∀ w ∈ ws, 0 ≤ w) (hsum : ws.sum = 1)
    (hlen : xs.length = ws.length) {x z : ℝ} (hz : ∀ xi ∈ xs, z ≤ (x - xi) / h) :
    Φ z ≤ mass Φ xs ws h x := by
  have h1 := wsum_mono (f := fun _ => Φ z) (g := fun xi => Φ ((x - xi) / h)) (xs := xs) (ws := ws)
    (fun xi hxi => hΦ.mono (hz xi hxi)) hw
  rw [wsum_const _ hlen, hsum] at h1
  simpa [mass] using h1

theorem mass_continuous (hc : Continuous Φ) : Continuous (mass Φ xs ws h) := by
  unfold mass
  exact wsum_continuous (F := fun x xi => Φ ((x - xi) / h))
    (fun xi => hc.comp ((continuous_id.sub continuous_const).div_const h)) xs ws

end facts

/-- `L − x_i ≤ −5σ` for every data point. -/
theorem lower_sub_le {xs : List ℝ} {xi : ℝ} (hxi : xi ∈ xs) :
    lower xs - xi ≤ -(5 * popStd xs) := by
  have := listMin_le hxi
  simp only [lower, kdeBounds, ofNat_real]
  push_cast
  linarith

/-- `5σ ≤ U − x_i` for every data point. -/
theorem le_upper_sub {xs : List ℝ} {xi : ℝ} (hxi : xi ∈ xs) :
    5 * popStd xs ≤ upper xs - xi := by
  have := le_listMax hxi
  simp only [upper, kdeBounds, ofNat_real]
  push_cast
  linarith

theorem lower_le_upper {xs : List ℝ} (hne : xs ≠ []) : lower xs ≤ upper xs := by
  obtain ⟨a, l, rfl⟩ := List.exists_cons_of_ne_nil hne
  have h1 := lower_sub_le (xs := a :: l) (xi := a) (List.mem_cons_self ..)
  have h2 := le_upper_sub (xs := a :: l) (xi := a) (List.mem_cons_self ..)
  have := popStd_nonneg (a :: l)
  linarith

end CopVerif.KDE

namespace CopVerif.Uni
open CopVerif Filter Topology MeasureTheory

/-! ## non-vacuity: the uniform law on `[0,1]` is a coherent family (kinks at 0 and 1) -/

noncomputable def unifCdf (x : ℝ) : ℝ := max 0 (min 1 x)
noncomputable def unifPdf (x : ℝ) : ℝ := Set.indicator (Set.Ioo 0 1) (fun _ => (1 : ℝ)) x

theorem uniform_coherent :
    FamilyCoherent unifPdf unifCdf (fun q => q) (fun x => Real.log (unifPdf x)) {0, 1} where
  cdf_mono := fun x y h => max_le_max le_rfl (min_le_min le_rfl h)
  cdf_nonneg := fun x => le_max_left _ _
  cdf_le_one := fun x => max_le zero_le_one (min_le_left _ _)
  cdf_atBot := by
    apply tendsto_const_nhds.congr'
    filter_upwards [eventually_le_atBot (0 : ℝ)] with x hx
    simp [unifCdf, min_eq_right (hx.trans zero_le_one), hx]
  cdf_atTop := by
    apply tendsto_const_nhds.congr'
    filter_upwards [eventually_ge_atTop (1 : ℝ)] with x hx
    simp [unifCdf, min_eq_left hx]
  cdf_cont := continuous_const.max (continuous_const.min continuous_id)
  pdf_nonneg := fun x => Set.indicator_nonneg (fun _ _ => zero_le_one) x
  S_countable := (Set.countable_singleton 1).insert 0
  cdf_deriv := by
    intro x hx
    simp only [Set.mem_insert_iff, Set.mem_singleton_iff, not_or] at hx
    rcases lt_or_gt_of_ne hx.1 with h0 | h0
    · have : unifPdf x = 0 := by simp [unifPdf, Set.indicator, not_lt.mpr h0.le]
      rw [this]
      apply (hasDerivAt_const x (0 : ℝ)).congr_of_eventuallyEq
      filter_upwards [Iio_mem_nhds h0] with y hy
      have hy' : y ≤ 0 := le_of_lt (Set.mem_Iio.mp hy)
      show max 0 (min 1 y) = 0
      rw [min_eq_right (hy'.trans zero_le_one), max_eq_left hy']
    · rcases lt_or_gt_of_ne hx.2 with h1 | h1
      · have : unifPdf x = 1 := by simp [unifPdf, Set.indicator, h0, h1]
        rw [this]
        apply (hasDerivAt_id x).congr_of_eventuallyEq
        filter_upwards [Ioo_mem_nhds h0 h1] with y hy
        simp [unifCdf, min_eq_right hy.2.le, hy.1.le]
      · have : unifPdf x = 0 := by simp [unifPdf, Set.indicator, not_lt.mpr h1.le]
        rw [this]
        apply (hasDerivAt_const x (1 : ℝ)).congr_of_eventuallyEq
        filter_upwards [Ioi_mem_nhds h1] with y hy
        have hy' : 1 ≤ y := le_of_lt (Set.mem_Ioi.mp hy)
        show max 0 (min 1 y) = 1
        rw [min_eq_left hy', max_eq_right zero_le_one]
  pdf_integrable := fun a b =>
    ⟨(intervalIntegrable_const (c := (1 : ℝ)) (a := a) (b := b)).1.indicator measurableSet_Ioo,
     (intervalIntegrable_const (c := (1 : ℝ)) (a := a) (b := b)).2.indicator measurableSet_Ioo⟩
  ppf_gc := by
    intro q x h0 h1
    simp only [unifCdf, le_max_iff, le_min_iff]
    constructor
    · intro h; exact Or.inr ⟨h1.le, h⟩
    · rintro (h | h)
      · exact absurd h0 (not_lt.mpr h)
      · exact h.2
  logpdf_eq := fun _ _ => rfl

/-- the same function as a kernel CDF (non-vacuity of `IsCDF`, continuous) -/
theorem unifCdf_isCDF : IsCDF unifCdf :=
  ⟨uniform_coherent.cdf_mono, uniform_coherent.cdf_nonneg, uniform_coherent.cdf_le_one⟩

theorem unifCdf_continuous : Continuous unifCdf := uniform_coherent.cdf_cont

end CopVerif.Uni
