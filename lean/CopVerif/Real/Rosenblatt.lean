import CopVerif.Real.RosenblattClayton
import CopVerif.Real.RosenblattGumbel
/-! Rosenblatt identity, rectangle inequality, Fréchet–Hoeffding lower bound and `θ`-ordering for
the two singular Archimedean families: see `RosenblattClayton.lean` (namespace `CopVerif.Clayton`)
and `RosenblattGumbel.lean` (namespace `CopVerif.Gumbel`).  The Frank versions are in `Frank.lean`. -/
