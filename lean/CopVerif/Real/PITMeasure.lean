import Mathlib.Probability.CDF
import Mathlib.Probability.Distributions.Gaussian.Real
import Mathlib.Topology.Order.IntermediateValue
import Mathlib.Topology.Order.LeftRightLim
import Mathlib.MeasureTheory.Measure.Stieltjes
import Mathlib.MeasureTheory.Constructions.BorelSpace.Order
import CopVerif.Real.PIT
/-!
# Quantile transform, measure-theoretic form (property C01)

`CopVerif.Real.PIT` proves the *pointwise* probability integral transform from two hypothesis
bundles (`IsQuantileOf Q F`, `IsStdNormalCDF Φ Φinv`).  This file discharges the second bundle with
the REAL standard normal distribution function of Mathlib and states the result as a statement about
the standard Gaussian measure `ProbabilityTheory.gaussianReal 0 1`:

* `stdPhi z := ProbabilityTheory.cdf (gaussianReal 0 1) z` — the true standard normal cdf.
* `stdPhi_strictMono`, `stdPhi_continuous`, `stdPhi_pos`, `stdPhi_lt_one`, `stdPhi_surjOn` — it is a
  continuous strictly increasing bijection `ℝ → (0,1)`.
* `stdPhiInv` (chosen inverse on `(0,1)`) and `stdPhi_isStdNormalCDF : IsStdNormalCDF stdPhi stdPhiInv`
  — the non-vacuity witness of the hypothesis bundle used in `PIT.lean`.
* `quantile_transform_law` — **if `z` is standard normal then `Q (Φ z)` has distribution function `F`**:
  `gaussianReal 0 1 {z | Q (stdPhi z) ≤ x} = ENNReal.ofReal (F x)` whenever `0 ≤ F x ≤ 1`
  (`quantile_transform_law_zero` / `quantile_transform_law_one` cover `F x ≤ 0` / `1 ≤ F x`).
* `quantile_transform_measurable`, `quantile_transform_map_Iic`, `quantile_transform_cdf` — the
  push-forward form: `(gaussianReal 0 1).map (Q ∘ stdPhi) (Iic x) = ENNReal.ofReal (F x)`, and when `F`
  takes values in `[0,1]` everywhere, `cdf ((gaussianReal 0 1).map (Q ∘ stdPhi)) = F` pointwise.
  No measurability hypothesis on `Q` is needed: `Q ∘ stdPhi` is monotone, hence measurable.

Mathlib facts used:

* `ProbabilityTheory.gaussianReal_absolutelyContinuous` (`gaussianReal 0 1 ≪ volume`, so singletons are
  null) and `gaussianReal_absolutelyContinuous'` (`volume ≪ gaussianReal 0 1`, so non-degenerate
  intervals have positive mass);
* `ProbabilityTheory.measure_cdf`, `ofReal_cdf`, `cdf_nonneg`, `cdf_le_one`, `monotone_cdf`,
  `tendsto_cdf_atBot`, `tendsto_cdf_atTop`;
* `StieltjesFunction.measure_Ioc`, `StieltjesFunction.measure_singleton`, `StieltjesFunction.rightLim_eq`,
  `Monotone.continuousAt_iff_leftLim_eq_rightLim`;
* the intermediate value theorem `mem_range_of_exists_le_of_exists_ge`;
* `Monotone.measurable`, `MeasureTheory.Measure.map_apply`.
-/

open MeasureTheory ProbabilityTheory Set Filter
open scoped Topology

namespace CopVerif.PIT

/-- the true standard normal distribution function. -/
noncomputable def stdPhi : ℝ → ℝ := fun z => cdf (gaussianReal 0 1) z

theorem stdPhi_apply (z : ℝ) : stdPhi z = cdf (gaussianReal 0 1) z := rfl

/-! ## The standard Gaussian has no atoms and charges every interval -/

theorem stdGaussian_singleton (a : ℝ) : gaussianReal 0 1 {a} = 0 :=
  gaussianReal_absolutelyContinuous 0 one_ne_zero Real.volume_singleton

theorem stdGaussian_Ioc_pos {a b : ℝ} (hab : a < b) : 0 < gaussianReal 0 1 (Ioc a b) := by
  rw [pos_iff_ne_zero]
  intro h
  have hv := gaussianReal_absolutelyContinuous' 0 one_ne_zero h
  rw [Real.volume_Ioc, ENNReal.ofReal_eq_zero] at hv
  linarith

/-! ## Facts about `stdPhi` -/

theorem stdPhi_strictMono : StrictMono stdPhi := by
  intro a b hab
  have h := stdGaussian_Ioc_pos hab
  have e : (cdf (gaussianReal 0 1)).measure (Ioc a b) = gaussianReal 0 1 (Ioc a b) := by
    rw [measure_cdf]
  rw [← e, StieltjesFunction.measure_Ioc, ENNReal.ofReal_pos] at h
  simp only [stdPhi_apply]
  linarith

theorem stdPhi_nonneg (z : ℝ) : 0 ≤ stdPhi z := cdf_nonneg _ z

theorem stdPhi_le_one (z : ℝ) : stdPhi z ≤ 1 := cdf_le_one _ z

theorem stdPhi_pos (z : ℝ) : 0 < stdPhi z :=
  lt_of_le_of_lt (stdPhi_nonneg (z - 1)) (stdPhi_strictMono (by linarith))

theorem stdPhi_lt_one (z : ℝ) : stdPhi z < 1 :=
  lt_of_lt_of_le (stdPhi_strictMono (by linarith)) (stdPhi_le_one (z + 1))

theorem stdPhi_continuous : Continuous stdPhi := by
  rw [continuous_iff_continuousAt]
  intro x
  have hm : Monotone (cdf (gaussianReal 0 1)) := monotone_cdf _
  change ContinuousAt (cdf (gaussianReal 0 1)) x
  rw [hm.continuousAt_iff_leftLim_eq_rightLim, StieltjesFunction.rightLim_eq]
  have h := (cdf (gaussianReal 0 1)).measure_singleton x
  rw [measure_cdf, stdGaussian_singleton] at h
  have h1 := ENNReal.ofReal_eq_zero.mp h.symm
  have h2 := hm.leftLim_le (le_refl x)
  linarith

/-- every probability level in `(0,1)` is attained (intermediate value theorem). -/
theorem stdPhi_surjOn {p : ℝ} (hp0 : 0 < p) (hp1 : p < 1) : ∃ z, stdPhi z = p := by
  have hlo : ∃ a, stdPhi a ≤ p :=
    (((tendsto_cdf_atBot (gaussianReal 0 1)).eventually (gt_mem_nhds hp0)).exists).imp
      fun _ h => le_of_lt h
  have hhi : ∃ b, p ≤ stdPhi b :=
    (((tendsto_cdf_atTop (gaussianReal 0 1)).eventually (lt_mem_nhds hp1)).exists).imp
      fun _ h => le_of_lt h
  exact mem_range_of_exists_le_of_exists_ge stdPhi_continuous hlo hhi

/-! ## The inverse and the non-vacuity witness -/

/-- the standard normal quantile function on `(0,1)` (junk value `0` outside). -/
noncomputable def stdPhiInv (p : ℝ) : ℝ :=
  if h : 0 < p ∧ p < 1 then Classical.choose (stdPhi_surjOn h.1 h.2) else 0

theorem stdPhi_stdPhiInv {p : ℝ} (hp0 : 0 < p) (hp1 : p < 1) : stdPhi (stdPhiInv p) = p := by
  unfold stdPhiInv
  rw [dif_pos ⟨hp0, hp1⟩]
  exact Classical.choose_spec (stdPhi_surjOn hp0 hp1)

theorem stdPhiInv_stdPhi (z : ℝ) : stdPhiInv (stdPhi z) = z :=
  stdPhi_strictMono.injective (stdPhi_stdPhiInv (stdPhi_pos z) (stdPhi_lt_one z))

/-- the hypothesis bundle of `PIT.lean` holds for the real standard normal cdf. -/
theorem stdPhi_isStdNormalCDF : IsStdNormalCDF stdPhi stdPhiInv where
  strictMono := stdPhi_strictMono
  pos := stdPhi_pos
  lt_one := stdPhi_lt_one
  left_inv := stdPhiInv_stdPhi
  right_inv := fun _ h0 h1 => stdPhi_stdPhiInv h0 h1

/-! ## The law of the transformed variable -/

variable {Q F : ℝ → ℝ}

/-- below the support the event is empty. -/
theorem quantile_transform_law_zero (hQ : IsQuantileOf Q F) (x : ℝ) (h0 : F x ≤ 0) :
    gaussianReal 0 1 {z | Q (stdPhi z) ≤ x} = 0 := by
  have : {z | Q (stdPhi z) ≤ x} = ∅ :=
    eq_empty_of_forall_notMem fun z => quantile_transform_not_le hQ stdPhi_isStdNormalCDF z x h0
  rw [this, measure_empty]

/-- above the support the event is everything. -/
theorem quantile_transform_law_one (hQ : IsQuantileOf Q F) (x : ℝ) (h1 : 1 ≤ F x) :
    gaussianReal 0 1 {z | Q (stdPhi z) ≤ x} = 1 := by
  have : {z | Q (stdPhi z) ≤ x} = univ :=
    eq_univ_of_forall fun z => quantile_transform_le hQ stdPhi_isStdNormalCDF z x h1
  rw [this, measure_univ]

/-- inside the support the event is a lower half-line. -/
theorem quantile_transform_event (hQ : IsQuantileOf Q F) (x : ℝ) (h0 : 0 < F x) (h1 : F x < 1) :
    {z | Q (stdPhi z) ≤ x} = Iic (stdPhiInv (F x)) := by
  ext z
  exact quantile_transform_le_iff hQ stdPhi_isStdNormalCDF z x h0 h1

/-- **probability integral transform.**  If `z` is standard normal, `Q (Φ z)` has distribution
    function `F`. -/
theorem quantile_transform_law (hQ : IsQuantileOf Q F) (x : ℝ) (h0 : 0 ≤ F x) (h1 : F x ≤ 1) :
    gaussianReal 0 1 {z | Q (stdPhi z) ≤ x} = ENNReal.ofReal (F x) := by
  rcases h0.eq_or_lt with h0' | h0'
  · rw [quantile_transform_law_zero hQ x h0'.symm.le, ← h0', ENNReal.ofReal_zero]
  rcases h1.eq_or_lt with h1' | h1'
  · rw [quantile_transform_law_one hQ x h1'.symm.le, h1', ENNReal.ofReal_one]
  rw [quantile_transform_event hQ x h0' h1', ← ofReal_cdf, ← stdPhi_apply,
    stdPhi_stdPhiInv h0' h1']

/-! ## Push-forward form -/

/-- `z ↦ Q (Φ z)` is non-decreasing. -/
theorem quantile_transform_monotone (hQ : IsQuantileOf Q F) : Monotone fun z => Q (stdPhi z) :=
  fun a b hab => hQ.mono (stdPhi_pos a) (stdPhi_strictMono.monotone hab) (stdPhi_lt_one b)

/-- hence Borel measurable (no assumption on `Q` beyond the Galois connection). -/
theorem quantile_transform_measurable (hQ : IsQuantileOf Q F) : Measurable fun z => Q (stdPhi z) :=
  (quantile_transform_monotone hQ).measurable

/-- the image of the standard Gaussian under `z ↦ Q (Φ z)` gives mass `F x` to `(-∞, x]`. -/
theorem quantile_transform_map_Iic (hQ : IsQuantileOf Q F) (x : ℝ) (h0 : 0 ≤ F x) (h1 : F x ≤ 1) :
    (gaussianReal 0 1).map (fun z => Q (stdPhi z)) (Iic x) = ENNReal.ofReal (F x) := by
  rw [Measure.map_apply (quantile_transform_measurable hQ) measurableSet_Iic]
  exact quantile_transform_law hQ x h0 h1

/-- the distribution function of the image measure is `F`. -/
theorem quantile_transform_cdf (hQ : IsQuantileOf Q F) (x : ℝ) (h0 : 0 ≤ F x) (h1 : F x ≤ 1) :
    cdf ((gaussianReal 0 1).map fun z => Q (stdPhi z)) x = F x := by
  have : IsProbabilityMeasure ((gaussianReal 0 1).map fun z => Q (stdPhi z)) :=
    Measure.isProbabilityMeasure_map (quantile_transform_measurable hQ).aemeasurable
  rw [cdf_eq_real, measureReal_def, quantile_transform_map_Iic hQ x h0 h1,
    ENNReal.toReal_ofReal h0]

end CopVerif.PIT
