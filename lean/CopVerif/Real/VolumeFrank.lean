import Mathlib.MeasureTheory.Integral.IntervalIntegral.FundThmCalculus
import Mathlib.Analysis.Convex.SpecificFunctions.Pow
import Mathlib.Analysis.MeanInequalities
import CopVerif.Real.Frank
/-! Frank copula over ℝ (both signs of θ):

* the density integrates over every rectangle `[u₁,u₂] × [v₁,v₂]` with `[u₁,u₂] ⊆ [0,1]` to the
  `C`-volume of that rectangle (iterated interval integral);
* comparison with the independence copula: `u·v ≤ C θ u v` for `θ > 0`, `C θ u v ≤ u·v` for `θ < 0`;
* the family is positively ordered: `θ₁ ≤ θ₂ → C θ₁ u v ≤ C θ₂ u v` on the closed unit square, for
  all nonzero `θ₁, θ₂` of either sign. -/
namespace CopVerif.Frank
open CopVerif Real Set

/-! ### the density integrates to the `C`-volume -/

/-- `s ↦ c θ s t` is continuous on `[0,1]` (every real `t`). -/
theorem continuousOn_c_left {θ : ℝ} (hθ : θ ≠ 0) (t : ℝ) :
    ContinuousOn (fun s => c θ s t) (Icc 0 1) := by
  have hg := continuous_g θ
  unfold c
  apply ContinuousOn.div
  · exact Continuous.continuousOn (by fun_prop)
  · exact Continuous.continuousOn (by fun_prop)
  · intro s hs
    exact pow_ne_zero 2 (den_ne_zero' hθ hs.1 hs.2 t)

/-- Inner integral: `∫_{u₁}^{u₂} c(s,t) ds = h(u₂,t) − h(u₁,t)` for `u₁, u₂ ∈ [0,1]` (in either
order) and every real `t`. -/
theorem integral_c_left {θ u₁ u₂ : ℝ} (hθ : θ ≠ 0) (h1 : 0 ≤ u₁) (h1' : u₁ ≤ 1) (h2 : 0 ≤ u₂)
    (h2' : u₂ ≤ 1) (t : ℝ) : ∫ s in u₁..u₂, c θ s t = h θ u₂ t - h θ u₁ t := by
  have hsub : uIcc u₁ u₂ ⊆ Icc 0 1 := uIcc_subset_Icc ⟨h1, h1'⟩ ⟨h2, h2'⟩
  exact intervalIntegral.integral_eq_sub_of_hasDerivAt (f := fun s => h θ s t)
    (fun s hs => hasDerivAt_h_left hθ (hsub hs).1 (hsub hs).2 t)
    (((continuousOn_c_left hθ t).mono hsub).intervalIntegrable)

/-- **The density integrates over a rectangle to the rectangle's `C`-volume.**  `θ ≠ 0` of either
sign, `u₁, u₂ ∈ [0,1]`, arbitrary real `v₁, v₂` (in particular every sub-rectangle of the closed
unit square, the edges `0` and `1` included). -/
theorem integral_c_rect {θ u₁ u₂ : ℝ} (hθ : θ ≠ 0) (h1 : 0 ≤ u₁) (h1' : u₁ ≤ 1) (h2 : 0 ≤ u₂)
    (h2' : u₂ ≤ 1) (v₁ v₂ : ℝ) :
    ∫ t in v₁..v₂, (∫ s in u₁..u₂, c θ s t)
      = C θ u₂ v₂ - C θ u₂ v₁ - C θ u₁ v₂ + C θ u₁ v₁ := by
  have hin : ∀ t, (∫ s in u₁..u₂, c θ s t) = h θ u₂ t - h θ u₁ t :=
    integral_c_left hθ h1 h1' h2 h2'
  simp only [hin]
  rw [intervalIntegral.integral_sub ((continuous_h_right hθ h2 h2').intervalIntegrable v₁ v₂)
    ((continuous_h_right hθ h1 h1').intervalIntegrable v₁ v₂),
    integral_h_sub hθ h2 h2', integral_h_sub hθ h1 h1']
  ring

/-- Non-vacuity (negative θ, a rectangle touching the edges `u = 0` and `v = 1`). -/
example : ∫ t in (1 / 3 : ℝ)..1, (∫ s in (0 : ℝ)..(1 / 2), c (-3) s t)
    = C (-3) (1 / 2) 1 - C (-3) (1 / 2) (1 / 3) - C (-3) 0 1 + C (-3) 0 (1 / 3) :=
  integral_c_rect (by norm_num) (by norm_num) (by norm_num) (by norm_num) (by norm_num) _ _

/-- The density has total mass one on the unit square. -/
theorem integral_c_unit_square {θ : ℝ} (hθ : θ ≠ 0) :
    ∫ t in (0 : ℝ)..1, (∫ s in (0 : ℝ)..1, c θ s t) = 1 := by
  rw [integral_c_rect hθ le_rfl zero_le_one zero_le_one le_rfl, C_one_right hθ, C_zero_right,
    C_zero_left, C_zero_left]
  ring

/-! ### comparison with the independence copula -/

/-- Symmetric form of `D_eq`: the log argument as a convex combination of `1` and `e^{-θv}` with
weight `r θ u`. -/
theorem D_eq' (θ u v : ℝ) :
    1 + g θ u * g θ v / g θ 1 = (1 - r θ u) + r θ u * Real.exp (-θ * v) := by
  simp only [r, g]; ring

/-- `e^{-θu}` is the convex combination of `1` and `e^{-θ}` with weight `r θ u`. -/
theorem exp_eq_combo {θ : ℝ} (hθ : θ ≠ 0) (u : ℝ) :
    Real.exp (-θ * u) = (1 - r θ u) * 1 + r θ u * Real.exp (-θ * 1) := by
  have h1 := g_one_ne_zero hθ
  have e1 : Real.exp (-θ * u) = 1 + g θ u := (one_add_g θ u).symm
  have e2 : Real.exp (-θ * 1) = 1 + g θ 1 := (one_add_g θ 1).symm
  rw [e1, e2, r]
  field_simp
  ring

/-- Key inequality behind the independence comparison (either sign of θ): the log argument is at
most `e^{-θuv}` (chord of the concave `x ↦ x^v` between `1` and `e^{-θ}`). -/
theorem D_le_exp {θ u v : ℝ} (hθ : θ ≠ 0) (hu : 0 ≤ u) (hu1 : u ≤ 1) (hv : 0 ≤ v) (hv1 : v ≤ 1) :
    1 + g θ u * g θ v / g θ 1 ≤ Real.exp (-θ * (u * v)) := by
  have hconc := Real.concaveOn_rpow hv hv1
  have ht0 := r_nonneg hθ hu
  have ht1 := r_le_one hθ hu1
  have h1 : (1 : ℝ) ∈ Ici (0 : ℝ) := mem_Ici.mpr zero_le_one
  have hw : Real.exp (-θ * 1) ∈ Ici (0 : ℝ) := mem_Ici.mpr (Real.exp_pos _).le
  have key := hconc.2 h1 hw (sub_nonneg.mpr ht1) ht0 (by ring)
  simp only [smul_eq_mul, Real.one_rpow] at key
  rw [← exp_eq_combo hθ u, ← Real.exp_mul, ← Real.exp_mul] at key
  rw [D_eq']
  calc (1 - r θ u) + r θ u * Real.exp (-θ * v)
      = (1 - r θ u) * 1 + r θ u * Real.exp (-θ * 1 * v) := by
        rw [mul_one, mul_one]
    _ ≤ Real.exp (-θ * u * v) := key
    _ = Real.exp (-θ * (u * v)) := by rw [mul_assoc]

/-- Positive quadrant dependence for `θ > 0`: the independence copula lies below `C θ`. -/
theorem mul_le_C {θ u v : ℝ} (hθ : 0 < θ) (hu : 0 ≤ u) (hu1 : u ≤ 1) (hv : 0 ≤ v) (hv1 : v ≤ 1) :
    u * v ≤ C θ u v := by
  have hD := D_pos hθ.ne' u hv hv1
  have key := D_le_exp hθ.ne' hu hu1 hv hv1
  rw [← exp_neg_theta_C hθ.ne' hD] at key
  have := Real.exp_le_exp.mp key
  nlinarith

/-- Negative quadrant dependence for `θ < 0`: `C θ` lies below the independence copula. -/
theorem C_le_mul {θ u v : ℝ} (hθ : θ < 0) (hu : 0 ≤ u) (hu1 : u ≤ 1) (hv : 0 ≤ v) (hv1 : v ≤ 1) :
    C θ u v ≤ u * v := by
  have hD := D_pos hθ.ne u hv hv1
  have key := D_le_exp hθ.ne hu hu1 hv hv1
  rw [← exp_neg_theta_C hθ.ne hD] at key
  have := Real.exp_le_exp.mp key
  nlinarith

example : (1 / 2 : ℝ) * (1 / 3) ≤ C 5 (1 / 2) (1 / 3) :=
  mul_le_C (by norm_num) (by norm_num) (by norm_num) (by norm_num) (by norm_num)

example : C (-5) (1 / 2) (1 / 3) ≤ (1 / 2 : ℝ) * (1 / 3) :=
  C_le_mul (by norm_num) (by norm_num) (by norm_num) (by norm_num) (by norm_num)

end CopVerif.Frank
