import Mathlib.MeasureTheory.Integral.IntervalIntegral.FundThmCalculus
import Mathlib.Analysis.Convex.SpecificFunctions.Pow
import Mathlib.Analysis.MeanInequalities
import CopVerif.Real.Frank
/-! Frank copula over ℝ (both signs of θ):

* the density integrates over every rectangle `[u₁,u₂] × [v₁,v₂]` with `[u₁,u₂] ⊆ [0,1]` to the
  `C`-volume of that rectangle (iterated interval integral);
* comparison with the independence copula: `u·v ≤ C θ u v` for `θ > 0`, `C θ u v ≤ u·v` for `θ < 0`;
* the family is positively ordered: `θ₁ ≤ θ₂ → C θ₁ u v ≤ C θ₂ u v` on the closed unit square, for
  all nonzero `θ₁, θ₂` of either sign. -/
namespace CopVerif.Frank
open CopVerif Real Set

/-! ### the density integrates to the `C`-volume -/

/-- `s ↦ c θ s t` is continuous on `[0,1]` (every real `t`). -/
theorem continuousOn_c_left {θ : ℝ} (hθ : θ ≠ 0) (t : ℝ) :
    ContinuousOn (fun s => c θ s t) (Icc 0 1) := by
  have hg := continuous_g θ
  unfold c
  apply ContinuousOn.div
  · exact Continuous.continuousOn (by fun_prop)
  · exact Continuous.continuousOn (by fun_prop)
  · intro s hs
    exact pow_ne_zero 2 (den_ne_zero' hθ hs.1 hs.2 t)

/-- Inner integral: `∫_{u₁}^{u₂} c(s,t) ds = h(u₂,t) − h(u₁,t)` for `u₁, u₂ ∈ [0,1]` (in either
order) and every real `t`. -/
theorem integral_c_left {θ u₁ u₂ : ℝ} (hθ : θ ≠ 0) (h1 : 0 ≤ u₁) (h1' : u₁ ≤ 1) (h2 : 0 ≤ u₂)
    (h2' : u₂ ≤ 1) (t : ℝ) : ∫ s in u₁..u₂, c θ s t = h θ u₂ t - h θ u₁ t := by
  have hsub : uIcc u₁ u₂ ⊆ Icc 0 1 := uIcc_subset_Icc ⟨h1, h1'⟩ ⟨h2, h2'⟩
  exact intervalIntegral.integral_eq_sub_of_hasDerivAt (f := fun s => h θ s t)
    (fun s hs => hasDerivAt_h_left hθ (hsub hs).1 (hsub hs).2 t)
    (((continuousOn_c_left hθ t).mono hsub).intervalIntegrable)

/-- **The density integrates over a rectangle to the rectangle's `C`-volume.**  `θ ≠ 0` of either
sign, `u₁, u₂ ∈ [0,1]`, arbitrary real `v₁, v₂` (in particular every sub-rectangle of the closed
unit square, the edges `0` and `1` included). -/
theorem integral_c_rect {θ u₁ u₂ : ℝ} (hθ : θ ≠ 0) (h1 : 0 ≤ u₁) (h1' : u₁ ≤ 1) (h2 : 0 ≤ u₂)
    (h2' : u₂ ≤ 1) (v₁ v₂ : ℝ) :
    ∫ t in v₁..v₂, (∫ s in u₁..u₂, c θ s t)
      = C θ u₂ v₂ - C θ u₂ v₁ - C θ u₁ v₂ + C θ u₁ v₁ := by
  have hin : ∀ t, (∫ s in u₁..u₂, c θ s t) = h θ u₂ t - h θ u₁ t :=
    integral_c_left hθ h1 h1' h2 h2'
  simp only [hin]
  rw [intervalIntegral.integral_sub ((continuous_h_right hθ h2 h2').intervalIntegrable v₁ v₂)
    ((continuous_h_right hθ h1 h1').intervalIntegrable v₁ v₂),
    integral_h_sub hθ h2 h2', integral_h_sub hθ h1 h1']
  ring

/-- Non-vacuity (negative θ, a rectangle touching the edges `u = 0` and `v = 1`). -/
example : ∫ t in (1 / 3 : ℝ)..1, (∫ s in (0 : ℝ)..(1 / 2), c (-3) s t)
    = C (-3) (1 / 2) 1 - C (-3) (1 / 2) (1 / 3) - C (-3) 0 1 + C (-3) 0 (1 / 3) :=
  integral_c_rect (by norm_num) (by norm_num) (by norm_num) (by norm_num) (by norm_num) _ _

/-- The density has total mass one on the unit square. -/
theorem integral_c_unit_square {θ : ℝ} (hθ : θ ≠ 0) :
    ∫ t in (0 : ℝ)..1, (∫ s in (0 : ℝ)..1, c θ s t) = 1 := by
  rw [integral_c_rect hθ le_rfl zero_le_one zero_le_one le_rfl, C_one_right hθ, C_zero_right,
    C_zero_left, C_zero_left]
  ring

/-! ### comparison with the independence copula -/

/-- Symmetric form of `D_eq`: the log argument as a convex combination of `1` and `e^{-θv}` with
weight `r θ u`. -/
theorem D_eq' (θ u v : ℝ) :
    1 + g θ u * g θ v / g θ 1 = (1 - r θ u) + r θ u * Real.exp (-θ * v) := by
  simp only [r, g]; ring

/-- `e^{-θu}` is the convex combination of `1` and `e^{-θ}` with weight `r θ u`. -/
theorem exp_eq_combo {θ : ℝ} (hθ : θ ≠ 0) (u : ℝ) :
    Real.exp (-θ * u) = (1 - r θ u) * 1 + r θ u * Real.exp (-θ * 1) := by
  have h1 := g_one_ne_zero hθ
  have e1 : Real.exp (-θ * u) = 1 + g θ u := (one_add_g θ u).symm
  have e2 : Real.exp (-θ * 1) = 1 + g θ 1 := (one_add_g θ 1).symm
  rw [e1, e2, r]
  field_simp
  ring

/-- Key inequality behind the independence comparison (either sign of θ): the log argument is at
most `e^{-θuv}` (chord of the concave `x ↦ x^v` between `1` and `e^{-θ}`). -/
theorem D_le_exp {θ u v : ℝ} (hθ : θ ≠ 0) (hu : 0 ≤ u) (hu1 : u ≤ 1) (hv : 0 ≤ v) (hv1 : v ≤ 1) :
    1 + g θ u * g θ v / g θ 1 ≤ Real.exp (-θ * (u * v)) := by
  have hconc := Real.concaveOn_rpow hv hv1
  have ht0 := r_nonneg hθ hu
  have ht1 := r_le_one hθ hu1
  have h1 : (1 : ℝ) ∈ Ici (0 : ℝ) := mem_Ici.mpr zero_le_one
  have hw : Real.exp (-θ * 1) ∈ Ici (0 : ℝ) := mem_Ici.mpr (Real.exp_pos _).le
  have key := hconc.2 h1 hw (sub_nonneg.mpr ht1) ht0 (by ring)
  simp only [smul_eq_mul, Real.one_rpow] at key
  rw [← exp_eq_combo hθ u, ← Real.exp_mul, ← Real.exp_mul] at key
  rw [D_eq']
  calc (1 - r θ u) + r θ u * Real.exp (-θ * v)
      = (1 - r θ u) * 1 + r θ u * Real.exp (-θ * 1 * v) := by
        rw [mul_one, mul_one]
    _ ≤ Real.exp (-θ * u * v) := key
    _ = Real.exp (-θ * (u * v)) := by rw [mul_assoc]

/-- Positive quadrant dependence for `θ > 0`: the independence copula lies below `C θ`. -/
theorem mul_le_C {θ u v : ℝ} (hθ : 0 < θ) (hu : 0 ≤ u) (hu1 : u ≤ 1) (hv : 0 ≤ v) (hv1 : v ≤ 1) :
    u * v ≤ C θ u v := by
  have hD := D_pos hθ.ne' u hv hv1
  have key := D_le_exp hθ.ne' hu hu1 hv hv1
  rw [← exp_neg_theta_C hθ.ne' hD] at key
  have := Real.exp_le_exp.mp key
  nlinarith

/-- Negative quadrant dependence for `θ < 0`: `C θ` lies below the independence copula. -/
theorem C_le_mul {θ u v : ℝ} (hθ : θ < 0) (hu : 0 ≤ u) (hu1 : u ≤ 1) (hv : 0 ≤ v) (hv1 : v ≤ 1) :
    C θ u v ≤ u * v := by
  have hD := D_pos hθ.ne u hv hv1
  have key := D_le_exp hθ.ne hu hu1 hv hv1
  rw [← exp_neg_theta_C hθ.ne hD] at key
  have := Real.exp_le_exp.mp key
  nlinarith

example : (1 / 2 : ℝ) * (1 / 3) ≤ C 5 (1 / 2) (1 / 3) :=
  mul_le_C (by norm_num) (by norm_num) (by norm_num) (by norm_num) (by norm_num)

example : C (-5) (1 / 2) (1 / 3) ≤ (1 / 2 : ℝ) * (1 / 3) :=
  C_le_mul (by norm_num) (by norm_num) (by norm_num) (by norm_num) (by norm_num)

/-! ### ordering in `θ` -/


/-- Chord inequality for the convex `x ↦ (a + b x^q)^(1/q)` (two-point Minkowski). -/
theorem chord_Lq {q a b w t : ℝ} (hq : 1 ≤ q) (ha : 0 ≤ a) (hb : 0 ≤ b) (hab : a + b = 1)
    (hw : 0 ≤ w) (ht0 : 0 ≤ t) (ht1 : t ≤ 1) :
    (a + b * ((1 - t) + t * w) ^ q) ^ (1 / q) ≤ (1 - t) + t * (a + b * w ^ q) ^ (1 / q) := by
  have hq0 : 0 < q := by linarith
  have hq' : q ≠ 0 := hq0.ne'
  have hs : 0 ≤ 1 - t := by linarith
  have hα : 0 ≤ a ^ (1 / q) := Real.rpow_nonneg ha _
  have hβ : 0 ≤ b ^ (1 / q) := Real.rpow_nonneg hb _
  have eα : (a ^ (1 / q)) ^ q = a := by
    rw [← Real.rpow_mul ha, one_div, inv_mul_cancel₀ hq', Real.rpow_one]
  have eβ : (b ^ (1 / q)) ^ q = b := by
    rw [← Real.rpow_mul hb, one_div, inv_mul_cancel₀ hq', Real.rpow_one]
  have key := Real.Lp_add_le_of_nonneg (s := (Finset.univ : Finset (Fin 2)))
    (f := ![(1 - t) * a ^ (1 / q), (1 - t) * b ^ (1 / q)])
    (g := ![t * a ^ (1 / q), t * (b ^ (1 / q) * w)]) hq
    (by intro i _; fin_cases i <;> simp <;> positivity)
    (by intro i _; fin_cases i <;> simp <;> positivity)
  simp only [Fin.sum_univ_two, Matrix.cons_val_zero, Matrix.cons_val_one] at key
  have e1 : (1 - t) * a ^ (1 / q) + t * a ^ (1 / q) = a ^ (1 / q) := by ring
  have e2 : (1 - t) * b ^ (1 / q) + t * (b ^ (1 / q) * w) = b ^ (1 / q) * ((1 - t) + t * w) := by
    ring
  have hx : 0 ≤ (1 - t) + t * w := by positivity
  rw [e1, e2, eα, Real.mul_rpow hβ hx, eβ, Real.mul_rpow hs hα, Real.mul_rpow hs hβ, eα, eβ,
    Real.mul_rpow ht0 hα, Real.mul_rpow ht0 (mul_nonneg hβ hw), Real.mul_rpow hβ hw, eα, eβ] at key
  have e3 : (1 - t) ^ q * a + (1 - t) ^ q * b = (1 - t) ^ q := by rw [← mul_add, hab, mul_one]
  have e4 : t ^ q * a + t ^ q * (b * w ^ q) = t ^ q * (a + b * w ^ q) := by ring
  have hS : 0 ≤ a + b * w ^ q := by positivity
  rw [e3, e4, Real.mul_rpow (Real.rpow_nonneg ht0 _) hS, ← Real.rpow_mul hs, ← Real.rpow_mul ht0,
    mul_one_div, div_self hq', Real.rpow_one, Real.rpow_one] at key
  exact key

/-- Key inequality behind the ordering in `θ` (either sign of θ): scaling the parameter by `q ≥ 1`
makes the log argument at most its `q`-th power, `D(qθ,u,v) ≤ D(θ,u,v)^q`, i.e.
`e^{-qθ·C_{qθ}(u,v)} ≤ e^{-qθ·C_θ(u,v)}`.  With `x = e^{-θu}` between `1` and `w = e^{-θ}` this is the
chord inequality `chord_Lq` for `x ↦ ((1-p') + p'·x^q)^{1/q}`, `p' = r (qθ) v`. -/
theorem D_scale_le {θ q u v : ℝ} (hθ : θ ≠ 0) (hq : 1 ≤ q) (hu : 0 ≤ u) (hu1 : u ≤ 1)
    (hv : 0 ≤ v) (hv1 : v ≤ 1) :
    1 + g (q * θ) u * g (q * θ) v / g (q * θ) 1 ≤ (1 + g θ u * g θ v / g θ 1) ^ q := by
  have hq0 : 0 < q := by linarith
  have hqθ : q * θ ≠ 0 := mul_ne_zero hq0.ne' hθ
  have hb0 := r_nonneg hqθ hv
  have hb1 := r_le_one hqθ hv1
  have key := chord_Lq hq (sub_nonneg.mpr hb1) hb0 (by ring) (Real.exp_pos (-θ * 1)).le
    (r_nonneg hθ hu) (r_le_one hθ hu1)
  have e1 : (1 - r θ u) + r θ u * Real.exp (-θ * 1) = Real.exp (-θ * u) := by
    rw [exp_eq_combo hθ u]; ring
  have e2 : Real.exp (-θ * u) ^ q = Real.exp (-(q * θ) * u) := by
    rw [← Real.exp_mul]; congr 1; ring
  have e3 : Real.exp (-θ * 1) ^ q = Real.exp (-(q * θ) * 1) := by
    rw [← Real.exp_mul]; congr 1; ring
  have e4 : (1 - r (q * θ) v) + r (q * θ) v * Real.exp (-(q * θ) * 1)
      = Real.exp (-(q * θ) * v) := by
    rw [exp_eq_combo hqθ v]; ring
  have e5 : Real.exp (-(q * θ) * v) ^ (1 / q) = Real.exp (-θ * v) := by
    rw [← Real.exp_mul]; congr 1; field_simp
  rw [e1, e2, e3, e4, e5, ← D_eq, ← D_eq'] at key
  have hD := D_pos hqθ u hv hv1
  calc 1 + g (q * θ) u * g (q * θ) v / g (q * θ) 1
      = ((1 + g (q * θ) u * g (q * θ) v / g (q * θ) 1) ^ (1 / q)) ^ q := by
        rw [← Real.rpow_mul hD.le, one_div, inv_mul_cancel₀ hq0.ne', Real.rpow_one]
    _ ≤ (1 + g θ u * g θ v / g θ 1) ^ q :=
        Real.rpow_le_rpow (Real.rpow_nonneg hD.le _) key hq0.le

example : 1 + g (2 * (-3)) (1 / 2) * g (2 * (-3)) (1 / 3) / g (2 * (-3)) 1
    ≤ (1 + g (-3) (1 / 2) * g (-3) (1 / 3) / g (-3) 1) ^ (2 : ℝ) :=
  D_scale_le (by norm_num) (by norm_num) (by norm_num) (by norm_num) (by norm_num) (by norm_num)

/-- Ordering in θ, both parameters positive. -/
theorem C_le_C_of_pos {θ₁ θ₂ u v : ℝ} (h1 : 0 < θ₁) (h12 : θ₁ ≤ θ₂) (hu : 0 ≤ u) (hu1 : u ≤ 1)
    (hv : 0 ≤ v) (hv1 : v ≤ 1) : C θ₁ u v ≤ C θ₂ u v := by
  have h2 : 0 < θ₂ := h1.trans_le h12
  have hq : 1 ≤ θ₂ / θ₁ := (one_le_div h1).mpr h12
  have e : θ₂ / θ₁ * θ₁ = θ₂ := div_mul_cancel₀ _ h1.ne'
  have key := D_scale_le h1.ne' hq hu hu1 hv hv1
  rw [e, ← exp_neg_theta_C h2.ne' (D_pos h2.ne' u hv hv1),
    ← exp_neg_theta_C h1.ne' (D_pos h1.ne' u hv hv1), ← Real.exp_mul] at key
  have := Real.exp_le_exp.mp key
  have e' : -θ₁ * C θ₁ u v * (θ₂ / θ₁) = -θ₂ * C θ₁ u v := by field_simp
  rw [e'] at this
  nlinarith

/-- Ordering in θ, both parameters negative. -/
theorem C_le_C_of_neg {θ₁ θ₂ u v : ℝ} (h12 : θ₁ ≤ θ₂) (h2 : θ₂ < 0) (hu : 0 ≤ u) (hu1 : u ≤ 1)
    (hv : 0 ≤ v) (hv1 : v ≤ 1) : C θ₁ u v ≤ C θ₂ u v := by
  have h1 : θ₁ < 0 := h12.trans_lt h2
  have hq : 1 ≤ θ₁ / θ₂ := (one_le_div_of_neg h2).mpr h12
  have e : θ₁ / θ₂ * θ₂ = θ₁ := div_mul_cancel₀ _ h2.ne
  have key := D_scale_le h2.ne hq hu hu1 hv hv1
  rw [e, ← exp_neg_theta_C h2.ne (D_pos h2.ne u hv hv1),
    ← exp_neg_theta_C h1.ne (D_pos h1.ne u hv hv1), ← Real.exp_mul] at key
  have := Real.exp_le_exp.mp key
  have hne := h2.ne
  have e' : -θ₂ * C θ₂ u v * (θ₁ / θ₂) = -θ₁ * C θ₂ u v := by field_simp
  rw [e'] at this
  nlinarith

/-- **The Frank family is positively ordered**: for nonzero `θ₁ ≤ θ₂` of arbitrary signs,
`C θ₁ ≤ C θ₂` pointwise on the closed unit square.  (Mixed signs go through the independence copula
`u·v`, which is the excluded limit `θ → 0`.) -/
theorem C_le_C_of_theta_le {θ₁ θ₂ u v : ℝ} (h1 : θ₁ ≠ 0) (h2 : θ₂ ≠ 0) (h12 : θ₁ ≤ θ₂)
    (hu : 0 ≤ u) (hu1 : u ≤ 1) (hv : 0 ≤ v) (hv1 : v ≤ 1) : C θ₁ u v ≤ C θ₂ u v := by
  rcases lt_or_gt_of_ne h1 with n1 | p1
  · rcases lt_or_gt_of_ne h2 with n2 | p2
    · exact C_le_C_of_neg h12 n2 hu hu1 hv hv1
    · exact (C_le_mul n1 hu hu1 hv hv1).trans (mul_le_C p2 hu hu1 hv hv1)
  · exact C_le_C_of_pos p1 h12 hu hu1 hv hv1

example : C (-3) (1 / 2) (1 / 3) ≤ C (-1) (1 / 2) (1 / 3)
    ∧ C (-1) (1 / 2) (1 / 3) ≤ C 2 (1 / 2) (1 / 3)
    ∧ C 2 (1 / 2) (1 / 3) ≤ C 7 (1 / 2) (1 / 3) :=
  ⟨C_le_C_of_theta_le (by norm_num) (by norm_num) (by norm_num) (by norm_num) (by norm_num)
      (by norm_num) (by norm_num),
    C_le_C_of_theta_le (by norm_num) (by norm_num) (by norm_num) (by norm_num) (by norm_num)
      (by norm_num) (by norm_num),
    C_le_C_of_theta_le (by norm_num) (by norm_num) (by norm_num) (by norm_num) (by norm_num)
      (by norm_num) (by norm_num)⟩

end CopVerif.Frank
