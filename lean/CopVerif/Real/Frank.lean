import Mathlib.Analysis.SpecialFunctions.Log.Deriv
import Mathlib.Analysis.SpecialFunctions.ExpDeriv
import Mathlib.MeasureTheory.Integral.IntervalIntegral.FundThmCalculus
import CopVerif.Real.Inst
import CopVerif.Real.BridgeTac
import CopVerif.Gen.Bivariate
/-! Frank copula over ℝ (both signs of θ, every statement is for `θ ≠ 0`): spec, bridge to the
    generated definitions, C06 facts (boundary, symmetry, generator, Archimedean identity,
    monotonicity, Fréchet bounds, row independence) and C07 facts (`∂C/∂v = h`, `∂h/∂u = c`,
    density positivity/symmetry, `h ∈ [0,1]`, Rosenblatt integral identity, row independence of
    `partial_derivative` and `probability_density`). -/
namespace CopVerif.Frank
open CopVerif NumFns Real

/-- `g(z) = e^{-θ z} - 1`. -/
noncomputable def g (θ z : ℝ) : ℝ := Real.exp (-θ * z) - 1

/-- Frank CDF. -/
noncomputable def C (θ u v : ℝ) : ℝ := -1 / θ * Real.log (1 + g θ u * g θ v / g θ 1)

/-- Frank generator. -/
noncomputable def φ (θ t : ℝ) : ℝ :=
  -Real.log ((Real.exp (-θ * t) - 1) / (Real.exp (-θ) - 1))

/-- Conditional CDF `∂C/∂v` (`partial_derivative`). -/
noncomputable def h (θ u v : ℝ) : ℝ :=
  (g θ u * g θ v + g θ u) / (g θ u * g θ v + g θ 1)

/-- Frank density `∂²C/∂u∂v`. -/
noncomputable def c (θ u v : ℝ) : ℝ :=
  (-θ * g θ 1) * (1 + g θ (u + v)) / (g θ u * g θ v + g θ 1) ^ 2

/-- Normalised `g`: `r(z) = g(z)/g(1)`, a strictly increasing bijection with `r 0 = 0`, `r 1 = 1`
(for either sign of θ).  Helper for the sign-free proofs below. -/
noncomputable def r (θ z : ℝ) : ℝ := g θ z / g θ 1

/-! ### bridges: generated definition = spec -/

theorem bridge_g (θ z : ℝ) : Gen.Frank.g θ z = g θ z := by
  bridge [Gen.Frank.g, g]

theorem bridge_cdfRow (θ u v : ℝ) : Gen.Frank.cdfRow θ u v = C θ u v := by
  bridge [Gen.Frank.cdfRow, C, g]

theorem bridge_generator (θ t : ℝ) : Gen.Frank.generator θ t = φ θ t := by
  bridge [Gen.Frank.generator, φ]

theorem bridge_hRow (θ u v : ℝ) : Gen.Frank.hRow θ u v = h θ u v := by
  bridge [Gen.Frank.hRow, Gen.Frank.g, h, g]

theorem bridge_pdfRow (θ u v : ℝ) : Gen.Frank.pdfRow θ u v = c θ u v := by
  bridge [Gen.Frank.pdfRow, Gen.Frank.g, c, g]

theorem checkFit_ok {θ : ℝ} (hθ : θ ≠ 0) :
    checkFit (Gen.Frank.thetaLower (α := ℝ)) Gen.Frank.thetaUpper Gen.Frank.invalidThetas θ
      = .ok () := by
  simp [checkFit, checkTheta, Gen.Frank.thetaLower, Gen.Frank.thetaUpper,
    Gen.Frank.invalidThetas, Bound.leVal, Bound.valLe, hθ]

end CopVerif.Frank

namespace CopVerif.Frank
open CopVerif NumFns Real

/-! ### sign-free facts about `g` and `r` -/

@[simp] theorem g_zero (θ : ℝ) : g θ 0 = 0 := by simp [g]

theorem one_add_g (θ z : ℝ) : 1 + g θ z = Real.exp (-θ * z) := by simp [g]

theorem g_one_ne_zero {θ : ℝ} (hθ : θ ≠ 0) : g θ 1 ≠ 0 := by
  simp only [g, mul_one, ne_eq, sub_eq_zero, Real.exp_eq_one_iff, neg_eq_zero]
  exact hθ

/-- `-θ · g(1) > 0` for either sign of θ. -/
theorem neg_theta_mul_g_one_pos {θ : ℝ} (hθ : θ ≠ 0) : 0 < -θ * g θ 1 := by
  rcases lt_or_gt_of_ne hθ with hneg | hpos
  · have : 1 < Real.exp (-θ * 1) := Real.one_lt_exp_iff.mpr (by linarith)
    have : 0 < g θ 1 := by simp only [g]; linarith
    nlinarith
  · have : Real.exp (-θ * 1) < 1 := Real.exp_lt_one_iff.mpr (by linarith)
    have : g θ 1 < 0 := by simp only [g]; linarith
    nlinarith

theorem g_strictAnti {θ : ℝ} (hθ : 0 < θ) : StrictAnti (g θ) := by
  intro a b hab
  simp only [g]
  have : Real.exp (-θ * b) < Real.exp (-θ * a) := Real.exp_lt_exp.mpr (by nlinarith)
  linarith

theorem g_strictMono {θ : ℝ} (hθ : θ < 0) : StrictMono (g θ) := by
  intro a b hab
  simp only [g]
  have : Real.exp (-θ * a) < Real.exp (-θ * b) := Real.exp_lt_exp.mpr (by nlinarith)
  linarith

@[simp] theorem r_zero (θ : ℝ) : r θ 0 = 0 := by simp [r]

theorem r_one {θ : ℝ} (hθ : θ ≠ 0) : r θ 1 = 1 := div_self (g_one_ne_zero hθ)

theorem r_strictMono {θ : ℝ} (hθ : θ ≠ 0) : StrictMono (r θ) := by
  intro a b hab
  have hpos := neg_theta_mul_g_one_pos hθ
  simp only [r]
  rcases lt_or_gt_of_ne hθ with hneg | hpos
  · have h1 : 0 < g θ 1 := by nlinarith
    exact div_lt_div_of_pos_right (g_strictMono hneg hab) h1
  · have h1 : g θ 1 < 0 := by nlinarith
    exact div_lt_div_of_neg_of_lt h1 (g_strictAnti hpos hab)

theorem r_nonneg {θ z : ℝ} (hθ : θ ≠ 0) (hz : 0 ≤ z) : 0 ≤ r θ z := by
  simpa using (r_strictMono hθ).monotone hz

theorem r_pos {θ z : ℝ} (hθ : θ ≠ 0) (hz : 0 < z) : 0 < r θ z := by
  simpa using r_strictMono hθ hz

theorem r_le_one {θ z : ℝ} (hθ : θ ≠ 0) (hz : z ≤ 1) : r θ z ≤ 1 := by
  simpa [r_one hθ] using (r_strictMono hθ).monotone hz

/-- The argument of the logarithm as a convex combination of `1` and `e^{-θu}`. -/
theorem D_eq (θ u v : ℝ) :
    1 + g θ u * g θ v / g θ 1 = (1 - r θ v) + r θ v * Real.exp (-θ * u) := by
  simp only [r, g]; ring

/-- The argument of the logarithm in `C` is positive as soon as one coordinate is in `[0,1]`. -/
theorem D_pos {θ v : ℝ} (hθ : θ ≠ 0) (u : ℝ) (hv : 0 ≤ v) (hv1 : v ≤ 1) :
    0 < 1 + g θ u * g θ v / g θ 1 := by
  rw [D_eq]
  have h0 := r_nonneg hθ hv
  have h1 := r_le_one hθ hv1
  have hE := Real.exp_pos (-θ * u)
  rcases h1.eq_or_lt with h1 | h1
  · rw [h1]; linarith
  · have := mul_nonneg h0 hE.le
    linarith

theorem D_pos' {θ u : ℝ} (hθ : θ ≠ 0) (hu : 0 ≤ u) (hu1 : u ≤ 1) (v : ℝ) :
    0 < 1 + g θ u * g θ v / g θ 1 := by
  rw [mul_comm]; exact D_pos hθ v hu hu1

/-- The common denominator of `h` and `c` is `g(1)` times the (positive) log argument. -/
theorem den_eq {θ : ℝ} (hθ : θ ≠ 0) (u v : ℝ) :
    g θ u * g θ v + g θ 1 = g θ 1 * (1 + g θ u * g θ v / g θ 1) := by
  have := g_one_ne_zero hθ
  field_simp; ring

theorem den_ne_zero {θ v : ℝ} (hθ : θ ≠ 0) (u : ℝ) (hv : 0 ≤ v) (hv1 : v ≤ 1) :
    g θ u * g θ v + g θ 1 ≠ 0 := by
  rw [den_eq hθ]
  exact mul_ne_zero (g_one_ne_zero hθ) (D_pos hθ u hv hv1).ne'

theorem den_ne_zero' {θ u : ℝ} (hθ : θ ≠ 0) (hu : 0 ≤ u) (hu1 : u ≤ 1) (v : ℝ) :
    g θ u * g θ v + g θ 1 ≠ 0 := by
  rw [mul_comm]; exact den_ne_zero hθ v hu hu1

/-! ### C06 facts -/

/-- Grounded: `g(0) = 0`, so the log argument is exactly `1` (for θ ≠ 0 no totalised operation is
involved; at the inadmissible θ = 0 the equation also holds, by the junk value `-1/0 = 0`). -/
theorem C_zero_right (θ u : ℝ) : C θ u 0 = 0 := by simp [C]
/-- See `C_zero_right`. -/
theorem C_zero_left (θ v : ℝ) : C θ 0 v = 0 := by simp [C]

theorem C_symm (θ u v : ℝ) : C θ u v = C θ v u := by
  simp only [C, mul_comm (g θ u)]

theorem C_one_right {θ : ℝ} (hθ : θ ≠ 0) (u : ℝ) : C θ u 1 = u := by
  have h1 := g_one_ne_zero hθ
  have : 1 + g θ u * g θ 1 / g θ 1 = Real.exp (-θ * u) := by
    rw [mul_div_assoc, div_self h1, mul_one, one_add_g]
  rw [C, this, Real.log_exp]
  field_simp

theorem C_one_left {θ : ℝ} (hθ : θ ≠ 0) (v : ℝ) : C θ 1 v = v := by
  rw [C_symm, C_one_right hθ]

/-- `e^{-θ·C(u,v)}` is the log argument: the defining relation of the Frank copula. -/
theorem exp_neg_theta_C {θ u v : ℝ} (hθ : θ ≠ 0) (hD : 0 < 1 + g θ u * g θ v / g θ 1) :
    Real.exp (-θ * C θ u v) = 1 + g θ u * g θ v / g θ 1 := by
  have : -θ * C θ u v = Real.log (1 + g θ u * g θ v / g θ 1) := by
    rw [C]; field_simp
  rw [this, Real.exp_log hD]

theorem φ_eq_r (θ t : ℝ) : φ θ t = -Real.log (r θ t) := by simp [φ, r, g]

theorem φ_one {θ : ℝ} (hθ : θ ≠ 0) : φ θ 1 = 0 := by
  rw [φ_eq_r, r_one hθ]; simp

/-- The generator is strictly decreasing on `(0, ∞)`, in particular on `(0,1]`. -/
theorem φ_strictAntiOn_Ioi {θ : ℝ} (hθ : θ ≠ 0) : StrictAntiOn (φ θ) (Set.Ioi 0) := by
  intro a ha b _ hab
  rw [φ_eq_r, φ_eq_r]
  have := Real.log_lt_log (r_pos hθ ha) (r_strictMono hθ hab)
  linarith

theorem φ_strictAntiOn {θ : ℝ} (hθ : θ ≠ 0) : StrictAntiOn (φ θ) (Set.Ioc 0 1) :=
  (φ_strictAntiOn_Ioi hθ).mono Set.Ioc_subset_Ioi_self

/-- The generator is nonnegative on `(0,1]`. -/
theorem φ_nonneg {θ t : ℝ} (hθ : θ ≠ 0) (ht : 0 < t) (ht1 : t ≤ 1) : 0 ≤ φ θ t := by
  rw [φ_eq_r]
  have := Real.log_nonpos (r_pos hθ ht).le (r_le_one hθ ht1)
  linarith

/-- `r(C(u,v)) = r(u)·r(v)`: the multiplicative form of the Archimedean identity. -/
theorem r_C {θ u v : ℝ} (hθ : θ ≠ 0) (hD : 0 < 1 + g θ u * g θ v / g θ 1) :
    r θ (C θ u v) = r θ u * r θ v := by
  have h1 := g_one_ne_zero hθ
  have : g θ (C θ u v) = g θ u * g θ v / g θ 1 := by
    rw [g, exp_neg_theta_C hθ hD]; ring
  rw [r, this, r, r]; field_simp

/-- Archimedean identity, slightly more general than `(0,1]²`: only one coordinate needs `≤ 1`. -/
theorem φ_C_of_pos {θ u v : ℝ} (hθ : θ ≠ 0) (hu : 0 < u) (hv : 0 < v) (hv1 : v ≤ 1) :
    φ θ (C θ u v) = φ θ u + φ θ v := by
  rw [φ_eq_r, φ_eq_r, φ_eq_r, r_C hθ (D_pos hθ u hv.le hv1),
    Real.log_mul (r_pos hθ hu).ne' (r_pos hθ hv).ne']
  ring

/-- Archimedean identity `φ(C(u,v)) = φ(u) + φ(v)` on `(0,1]²`. -/
theorem φ_C {θ u v : ℝ} (hθ : θ ≠ 0) (hu : 0 < u) (_hu1 : u ≤ 1) (hv : 0 < v) (hv1 : v ≤ 1) :
    φ θ (C θ u v) = φ θ u + φ θ v :=
  φ_C_of_pos hθ hu hv hv1

/-- Monotone in the first argument (second argument in `[0,1]`; first argument unrestricted). -/
theorem C_mono_left {θ u u' v : ℝ} (hθ : θ ≠ 0) (huu : u ≤ u') (hv : 0 ≤ v) (hv1 : v ≤ 1) :
    C θ u v ≤ C θ u' v := by
  have hD := D_pos hθ u hv hv1
  have hD' := D_pos hθ u' hv hv1
  have hr := r_nonneg hθ hv
  simp only [C]
  rw [D_eq] at hD hD' ⊢
  rw [D_eq]
  rcases lt_or_gt_of_ne hθ with hneg | hpos
  · have hE : Real.exp (-θ * u) ≤ Real.exp (-θ * u') := Real.exp_le_exp.mpr (by nlinarith)
    have hc : 0 ≤ -1 / θ := by
      rw [neg_div]; exact neg_nonneg.mpr (div_nonpos_of_nonneg_of_nonpos zero_le_one hneg.le)
    apply mul_le_mul_of_nonneg_left _ hc
    apply Real.log_le_log hD
    nlinarith
  · have hE : Real.exp (-θ * u') ≤ Real.exp (-θ * u) := Real.exp_le_exp.mpr (by nlinarith)
    have hc : -1 / θ ≤ 0 := by
      rw [neg_div]; exact neg_nonpos.mpr (div_nonneg zero_le_one hpos.le)
    apply mul_le_mul_of_nonpos_left _ hc
    apply Real.log_le_log hD'
    nlinarith

theorem C_mono_right {θ u v v' : ℝ} (hθ : θ ≠ 0) (hvv : v ≤ v') (hu : 0 ≤ u) (hu1 : u ≤ 1) :
    C θ u v ≤ C θ u v' := by
  rw [C_symm θ u v, C_symm θ u v']; exact C_mono_left hθ hvv hu hu1

/-- Fréchet–Hoeffding upper bound. -/
theorem C_le_min {θ u v : ℝ} (hθ : θ ≠ 0) (hu : 0 ≤ u) (hu1 : u ≤ 1) (hv : 0 ≤ v) (hv1 : v ≤ 1) :
    C θ u v ≤ min u v := by
  apply le_min
  · calc C θ u v ≤ C θ u 1 := C_mono_right hθ hv1 hu hu1
      _ = u := C_one_right hθ u
  · calc C θ u v ≤ C θ 1 v := C_mono_left hθ hu1 hv hv1
      _ = v := C_one_left hθ v

theorem C_nonneg {θ u v : ℝ} (hθ : θ ≠ 0) (hu : 0 ≤ u) (hv : 0 ≤ v) (hv1 : v ≤ 1) :
    0 ≤ C θ u v := by
  have := C_mono_left hθ hu hv hv1
  simpa [C_zero_left] using this

/-- Fréchet–Hoeffding lower bound `W(u,v) = max(u+v-1, 0) ≤ C(u,v)`. -/
theorem max_le_C {θ u v : ℝ} (hθ : θ ≠ 0) (hu : 0 ≤ u) (hu1 : u ≤ 1) (hv : 0 ≤ v) (hv1 : v ≤ 1) :
    max (u + v - 1) 0 ≤ C θ u v := by
  apply max_le _ (C_nonneg hθ hu hv hv1)
  -- `u + v - 1 = C(u+v-1, 1)`-style comparison through `e^{-θ·}`:
  -- `D(u,v) - e^{-θ(u+v-1)} = (w-x)(w-y)/(w(w-1))` with `x=e^{-θu}`, `y=e^{-θv}`, `w=e^{-θ}`.
  have hD := D_pos hθ u hv hv1
  have hexp := exp_neg_theta_C hθ hD
  set x := Real.exp (-θ * u) with hx
  set y := Real.exp (-θ * v) with hy
  set w := Real.exp (-θ * 1) with hw
  have hxy : Real.exp (-θ * (u + v - 1)) = x * y / w := by
    rw [hx, hy, hw, ← Real.exp_add, ← Real.exp_sub]; congr 1; ring
  have hwpos : 0 < w := Real.exp_pos _
  have hDxy : 1 + g θ u * g θ v / g θ 1 = 1 + (x - 1) * (y - 1) / (w - 1) := by simp [g, hx, hy, hw]
  have hw1 : w - 1 ≠ 0 := by simpa [g, hw] using g_one_ne_zero hθ
  rcases lt_or_gt_of_ne hθ with hneg | hpos
  · -- θ < 0: need e^{-θ(u+v-1)} ≤ e^{-θ C}
    have hxw : x ≤ w := Real.exp_le_exp.mpr (by nlinarith)
    have hyw : y ≤ w := Real.exp_le_exp.mpr (by nlinarith)
    have hw1' : 0 < w - 1 := by
      have : 1 < w := Real.one_lt_exp_iff.mpr (by linarith)
      linarith
    have key : Real.exp (-θ * (u + v - 1)) ≤ Real.exp (-θ * C θ u v) := by
      rw [hexp, hxy, hDxy, div_le_iff₀ hwpos, ← sub_nonneg]
      have : (1 + (x - 1) * (y - 1) / (w - 1)) * w - x * y = (w - x) * (w - y) / (w - 1) := by
        field_simp; ring
      rw [this]
      exact div_nonneg (mul_nonneg (by linarith) (by linarith)) hw1'.le
    have := Real.exp_le_exp.mp key
    nlinarith
  · have hxw : w ≤ x := Real.exp_le_exp.mpr (by nlinarith)
    have hyw : w ≤ y := Real.exp_le_exp.mpr (by nlinarith)
    have hw1' : w - 1 < 0 := by
      have : w < 1 := Real.exp_lt_one_iff.mpr (by linarith)
      linarith
    have key : Real.exp (-θ * C θ u v) ≤ Real.exp (-θ * (u + v - 1)) := by
      rw [hexp, hxy, hDxy, le_div_iff₀ hwpos, ← sub_nonneg]
      have : x * y - (1 + (x - 1) * (y - 1) / (w - 1)) * w = (w - x) * (w - y) / (-(w - 1)) := by
        field_simp; ring
      rw [this]
      exact div_nonneg (mul_nonneg_of_nonpos_of_nonpos (by linarith) (by linarith)) (by linarith)
    have := Real.exp_le_exp.mp key
    nlinarith

example : (0.3 : ℝ) + 0.9 - 1 ≤ C (-2) 0.3 0.9 :=
  le_trans (le_max_left _ _) (max_le_C (by norm_num) (by norm_num) (by norm_num) (by norm_num)
    (by norm_num))

/-- Row independence of the whole generated method, including the `check_fit` guard: for every
θ ≠ 0 (either sign) and **every** batch, the result is the row-wise map of the spec CDF. -/
theorem cdf_rowwise {θ : ℝ} (hθ : θ ≠ 0) (xs : List (ℝ × ℝ)) :
    Gen.Frank.cdf θ xs = .ok (xs.map fun p => C θ p.1 p.2) := by
  unfold Gen.Frank.cdf
  rw [checkFit_ok hθ]
  simp only
  congr 1
  apply List.map_congr_left
  intro p _
  exact bridge_cdfRow θ p.1 p.2

/-- `θ = 0` (the independence limit) is rejected by `check_fit`: the method raises. -/
theorem cdf_theta_zero (xs : List (ℝ × ℝ)) : Gen.Frank.cdf (0 : ℝ) xs = .error .notFitted := by
  simp [Gen.Frank.cdf, checkFit]

end CopVerif.Frank

namespace CopVerif.Frank
open CopVerif NumFns Real

/-! ### C07 facts: derivatives, density, conditional CDF -/

theorem one_add_g_add (θ u v : ℝ) : 1 + g θ (u + v) = (1 + g θ u) * (1 + g θ v) := by
  rw [one_add_g, one_add_g, one_add_g, ← Real.exp_add]; congr 1; ring

theorem one_add_g_pos (θ z : ℝ) : 0 < 1 + g θ z := by rw [one_add_g]; exact Real.exp_pos _

theorem continuous_g (θ : ℝ) : Continuous (g θ) := by unfold g; fun_prop

theorem hasDerivAt_g (θ z : ℝ) : HasDerivAt (g θ) (-θ * (1 + g θ z)) z := by
  have := (((hasDerivAt_id' z).const_mul (-θ)).exp).sub_const 1
  rw [one_add_g]
  exact this.congr_deriv (by ring)

/-- `∂C/∂v = h` wherever the log argument is positive. -/
theorem hasDerivAt_C_right_of_pos {θ u v : ℝ} (hθ : θ ≠ 0)
    (hD : 0 < 1 + g θ u * g θ v / g θ 1) :
    HasDerivAt (fun v => C θ u v) (h θ u v) v := by
  have h1 := g_one_ne_zero hθ
  have hden : g θ u * g θ v + g θ 1 ≠ 0 := by
    rw [den_eq hθ]; exact mul_ne_zero h1 hD.ne'
  have hin : HasDerivAt (fun v => 1 + g θ u * g θ v / g θ 1)
      (g θ u * (-θ * (1 + g θ v)) / g θ 1) v :=
    (((hasDerivAt_g θ v).const_mul (g θ u)).div_const (g θ 1)).const_add 1
  have := (hin.log hD.ne').const_mul (-1 / θ)
  refine this.congr_deriv ?_
  have e : 1 + g θ u * g θ v / g θ 1 = (g θ u * g θ v + g θ 1) / g θ 1 := by
    field_simp; ring
  rw [e, h]
  field_simp
  ring

/-- `∂C/∂v = h` on `[0,1] × ℝ` (in particular on the open and the closed unit square). -/
theorem hasDerivAt_C_right {θ u : ℝ} (hθ : θ ≠ 0) (hu : 0 ≤ u) (hu1 : u ≤ 1) (v : ℝ) :
    HasDerivAt (fun v => C θ u v) (h θ u v) v :=
  hasDerivAt_C_right_of_pos hθ (D_pos' hθ hu hu1 v)

/-- `∂C/∂v = h` on `ℝ × [0,1]`. -/
theorem hasDerivAt_C_right' {θ v : ℝ} (hθ : θ ≠ 0) (u : ℝ) (hv : 0 ≤ v) (hv1 : v ≤ 1) :
    HasDerivAt (fun v => C θ u v) (h θ u v) v :=
  hasDerivAt_C_right_of_pos hθ (D_pos hθ u hv hv1)

/-- `∂h/∂u = c` wherever the common denominator does not vanish. -/
theorem hasDerivAt_h_left_of_ne {θ u v : ℝ} (hden : g θ u * g θ v + g θ 1 ≠ 0) :
    HasDerivAt (fun u => h θ u v) (c θ u v) u := by
  have hg := hasDerivAt_g θ u
  have hnum : HasDerivAt (fun u => g θ u * g θ v + g θ u)
      (-θ * (1 + g θ u) * g θ v + -θ * (1 + g θ u)) u := (hg.mul_const (g θ v)).add hg
  have hd : HasDerivAt (fun u => g θ u * g θ v + g θ 1) (-θ * (1 + g θ u) * g θ v) u :=
    (hg.mul_const (g θ v)).add_const (g θ 1)
  have := hnum.div hd hden
  refine this.congr_deriv ?_
  simp only [c, one_add_g_add]
  congr 1
  ring

/-- `∂h/∂u = c` on `[0,1] × ℝ`. -/
theorem hasDerivAt_h_left {θ u : ℝ} (hθ : θ ≠ 0) (hu : 0 ≤ u) (hu1 : u ≤ 1) (v : ℝ) :
    HasDerivAt (fun u => h θ u v) (c θ u v) u :=
  hasDerivAt_h_left_of_ne (den_ne_zero' hθ hu hu1 v)

/-- `∂h/∂u = c` on `ℝ × [0,1]`. -/
theorem hasDerivAt_h_left' {θ v : ℝ} (hθ : θ ≠ 0) (u : ℝ) (hv : 0 ≤ v) (hv1 : v ≤ 1) :
    HasDerivAt (fun u => h θ u v) (c θ u v) u :=
  hasDerivAt_h_left_of_ne (den_ne_zero hθ u hv hv1)

/-- The density is strictly positive wherever its denominator does not vanish. -/
theorem c_pos_of_ne {θ u v : ℝ} (hθ : θ ≠ 0) (hden : g θ u * g θ v + g θ 1 ≠ 0) :
    0 < c θ u v := by
  have h1 := neg_theta_mul_g_one_pos hθ
  have h2 := one_add_g_pos θ (u + v)
  have h3 : 0 < (g θ u * g θ v + g θ 1) ^ 2 := by positivity
  exact div_pos (mul_pos h1 h2) h3

/-- The density is strictly positive on the closed unit square (and on `[0,1] × ℝ`). -/
theorem c_pos {θ u : ℝ} (hθ : θ ≠ 0) (hu : 0 ≤ u) (hu1 : u ≤ 1) (v : ℝ) : 0 < c θ u v :=
  c_pos_of_ne hθ (den_ne_zero' hθ hu hu1 v)

theorem c_symm (θ u v : ℝ) : c θ u v = c θ v u := by
  simp only [c, add_comm u v, mul_comm (g θ u)]

/-- `h` as a Möbius image of `p = r(u) ∈ [0,1]`: `h = p·y / ((1-p) + p·y)` with `y = e^{-θv}`. -/
theorem h_eq {θ : ℝ} (hθ : θ ≠ 0) (u v : ℝ) :
    h θ u v = r θ u * Real.exp (-θ * v) / ((1 - r θ u) + r θ u * Real.exp (-θ * v)) := by
  have h1 := g_one_ne_zero hθ
  have hn : r θ u * Real.exp (-θ * v) = (g θ u * g θ v + g θ u) / g θ 1 := by
    rw [← one_add_g, r]; ring
  have hd : (1 - r θ u) + r θ u * Real.exp (-θ * v) = (g θ u * g θ v + g θ 1) / g θ 1 := by
    rw [← one_add_g, r]; field_simp; ring
  rw [hd, hn, div_div_div_cancel_right₀ h1, h]

theorem h_den_pos {θ u : ℝ} (hθ : θ ≠ 0) (hu : 0 ≤ u) (hu1 : u ≤ 1) (v : ℝ) :
    0 < (1 - r θ u) + r θ u * Real.exp (-θ * v) := by
  rw [← D_eq]; exact D_pos hθ v hu hu1

/-- The conditional CDF takes values in `[0,1]` (for `u ∈ [0,1]`, every real `v`). -/
theorem h_mem_Icc {θ u : ℝ} (hθ : θ ≠ 0) (hu : 0 ≤ u) (hu1 : u ≤ 1) (v : ℝ) :
    0 ≤ h θ u v ∧ h θ u v ≤ 1 := by
  have hp0 := r_nonneg hθ hu
  have hp1 := r_le_one hθ hu1
  have hy := Real.exp_pos (-θ * v)
  have hden := h_den_pos hθ hu hu1 v
  rw [h_eq hθ]
  refine ⟨div_nonneg (mul_nonneg hp0 hy.le) hden.le, (div_le_one hden).mpr ?_⟩
  linarith

/-- `h(0,v) = 0/g(1) = 0`; the denominator `g(1)` is nonzero for θ ≠ 0 (`g_one_ne_zero`), so the
value is genuine there (at the inadmissible θ = 0 it is the junk `0/0 = 0`). -/
theorem h_zero_left (θ v : ℝ) : h θ 0 v = 0 := by simp [h]

theorem h_one_left {θ : ℝ} (hθ : θ ≠ 0) (v : ℝ) : h θ 1 v = 1 := by
  have : g θ 1 * g θ v + g θ 1 ≠ 0 := by
    have : g θ 1 * g θ v + g θ 1 = g θ 1 * (1 + g θ v) := by ring
    rw [this]; exact mul_ne_zero (g_one_ne_zero hθ) (one_add_g_pos θ v).ne'
  rw [h, div_self this]

/-- `h(·, v)` is nondecreasing on `[0,1]` (conditional CDF in its own argument). -/
theorem h_mono_left {θ u u' : ℝ} (hθ : θ ≠ 0) (hu : 0 ≤ u) (huu : u ≤ u') (hu1 : u' ≤ 1)
    (v : ℝ) : h θ u v ≤ h θ u' v := by
  have hpp : r θ u ≤ r θ u' := (r_strictMono hθ).monotone huu
  have hy := Real.exp_pos (-θ * v)
  have hden := h_den_pos hθ hu (huu.trans hu1) v
  have hden' := h_den_pos hθ (hu.trans huu) hu1 v
  rw [h_eq hθ, h_eq hθ, div_le_div_iff₀ hden hden']
  nlinarith [mul_nonneg (sub_nonneg.mpr hpp) hy.le]

theorem h_strictMono_left {θ u u' : ℝ} (hθ : θ ≠ 0) (hu : 0 ≤ u) (huu : u < u') (hu1 : u' ≤ 1)
    (v : ℝ) : h θ u v < h θ u' v := by
  have hpp : r θ u < r θ u' := r_strictMono hθ huu
  have hy := Real.exp_pos (-θ * v)
  have hden := h_den_pos hθ hu (huu.le.trans hu1) v
  have hden' := h_den_pos hθ (hu.trans huu.le) hu1 v
  rw [h_eq hθ, h_eq hθ, div_lt_div_iff₀ hden hden']
  nlinarith [mul_pos (sub_pos.mpr hpp) hy]

/-- Row independence of the generated `partial_derivative`: the `θ == 0` branch after
`check_fit` is dead, so for every θ ≠ 0 and every batch the result is the row-wise map of `h`. -/
theorem h_rowwise {θ : ℝ} (hθ : θ ≠ 0) (xs : List (ℝ × ℝ)) :
    Gen.Frank.h θ xs = .ok (xs.map fun p => h θ p.1 p.2) := by
  unfold Gen.Frank.h
  rw [checkFit_ok hθ]
  simp only
  rw [if_neg (by simp [hθ])]
  congr 1
  apply List.map_congr_left
  intro p _
  exact bridge_hRow θ p.1 p.2

/-- Row independence of the generated `probability_density` (dead `θ == 0` branch included). -/
theorem pdf_rowwise {θ : ℝ} (hθ : θ ≠ 0) (xs : List (ℝ × ℝ)) :
    Gen.Frank.pdf θ xs = .ok (xs.map fun p => c θ p.1 p.2) := by
  unfold Gen.Frank.pdf
  rw [checkFit_ok hθ]
  simp only
  rw [if_neg (by simp [hθ])]
  congr 1
  apply List.map_congr_left
  intro p _
  exact bridge_pdfRow θ p.1 p.2

/-- The `θ == 0` leaves (`h = v`, `pdf = u·v`) of the generated methods are unreachable: with
`θ = 0` both methods raise `NotFittedError` in `check_fit`. -/
theorem h_pdf_theta_zero (xs : List (ℝ × ℝ)) :
    Gen.Frank.h (0 : ℝ) xs = .error .notFitted ∧ Gen.Frank.pdf (0 : ℝ) xs = .error .notFitted := by
  simp [Gen.Frank.h, Gen.Frank.pdf, checkFit]

/-! ### Rosenblatt identity -/

theorem continuous_h_right {θ u : ℝ} (hθ : θ ≠ 0) (hu : 0 ≤ u) (hu1 : u ≤ 1) :
    Continuous fun t => h θ u t := by
  have hg := continuous_g θ
  unfold h
  exact Continuous.div (by fun_prop) (by fun_prop) (fun t => den_ne_zero' hθ hu hu1 t)

/-- Rosenblatt identity: integrating the conditional CDF `h(u,·)` from `0` recovers `C(u,·)`
(for `u ∈ [0,1]` and every real upper limit `v`, in particular `v ∈ [0,1]`). -/
theorem integral_h {θ u : ℝ} (hθ : θ ≠ 0) (hu : 0 ≤ u) (hu1 : u ≤ 1) (v : ℝ) :
    ∫ t in (0 : ℝ)..v, h θ u t = C θ u v := by
  have := intervalIntegral.integral_eq_sub_of_hasDerivAt (f := fun t => C θ u t)
    (f' := fun t => h θ u t) (a := 0) (b := v)
    (fun t _ => hasDerivAt_C_right hθ hu hu1 t)
    ((continuous_h_right hθ hu hu1).intervalIntegrable 0 v)
  rw [this, C_zero_right, sub_zero]

/-- Fundamental theorem of calculus for `h(u,·)` between arbitrary limits. -/
theorem integral_h_sub {θ u : ℝ} (hθ : θ ≠ 0) (hu : 0 ≤ u) (hu1 : u ≤ 1) (a b : ℝ) :
    ∫ t in a..b, h θ u t = C θ u b - C θ u a :=
  intervalIntegral.integral_eq_sub_of_hasDerivAt (f := fun t => C θ u t)
    (fun t _ => hasDerivAt_C_right hθ hu hu1 t)
    ((continuous_h_right hθ hu hu1).intervalIntegrable a b)

/-- 2-increasing: every rectangle `[u,u'] × [v,v']` with `[u,u'] ⊆ [0,1]` has nonnegative
`C`-volume (so together with the boundary conditions `C` is a copula on the unit square). -/
theorem C_two_increasing {θ u u' v v' : ℝ} (hθ : θ ≠ 0) (hu : 0 ≤ u) (huu : u ≤ u')
    (hu1 : u' ≤ 1) (hvv : v ≤ v') : 0 ≤ C θ u' v' - C θ u' v - C θ u v' + C θ u v := by
  have hu' : 0 ≤ u' := hu.trans huu
  have hu1' : u ≤ 1 := huu.trans hu1
  have key : 0 ≤ ∫ t in v..v', (h θ u' t - h θ u t) :=
    intervalIntegral.integral_nonneg hvv
      (fun t _ => sub_nonneg.mpr (h_mono_left hθ hu huu hu1 t))
  rw [intervalIntegral.integral_sub ((continuous_h_right hθ hu' hu1).intervalIntegrable v v')
    ((continuous_h_right hθ hu hu1').intervalIntegrable v v'),
    integral_h_sub hθ hu' hu1, integral_h_sub hθ hu hu1'] at key
  linarith

/-! ### non-vacuity of the hypotheses used above -/

example : HasDerivAt (fun v => C (-3) (1/2) v) (h (-3) (1/2) (1/3)) (1/3) :=
  hasDerivAt_C_right (by norm_num) (by norm_num) (by norm_num) _

example : HasDerivAt (fun u => h 5 u (1/3)) (c 5 (1/2) (1/3)) (1/2) :=
  hasDerivAt_h_left (by norm_num) (by norm_num) (by norm_num) _

example : φ (-3) (C (-3) (1/2) (1/3)) = φ (-3) (1/2) + φ (-3) (1/3) :=
  φ_C (by norm_num) (by norm_num) (by norm_num) (by norm_num) (by norm_num)

example : 0 < c (-3) (1/2) (1/3) ∧ 0 < c 3 0 1 :=
  ⟨c_pos (by norm_num) (by norm_num) (by norm_num) _,
   c_pos (by norm_num) (by norm_num) (by norm_num) _⟩

end CopVerif.Frank
