import Mathlib.MeasureTheory.Integral.IntervalIntegral.FundThmCalculus
import CopVerif.Real.RosenblattGumbel
/-! Gumbel copula over ℝ, all `θ ≥ 1`: the density integrates over every rectangle to the
`C`-volume of that rectangle, as an iterated interval integral.

* `integral_c_rect_of_pos`: `u₁, u₂ ∈ (0,1)`, `v₁, v₂ ∈ (0,1]`, in terms of the plain formula `C`;
* `integral_c_rect`: every rectangle of the **closed** unit square, in terms of the grounded CDF
  `C0` (the formula `C` with the edges `u = 0` / `v = 0` set to `0`).

Totalisation caveats.  `Real.log 0 = 0` makes the formulas `C θ 0 v`, `C θ u 0`, `h θ 0 t`, `c θ 0 t`
evaluate to artefacts (`C θ 0 v = v`); in IEEE arithmetic the same expressions give
`exp(-inf) = 0`.  No proof below uses a value of `C`, `h` or `c` at a zero coordinate: the inner
antiderivative is `h` *extended by its limit* `0` at `u = 0` (`h0`, limit proved in
`h_tendsto_zero`), the edge `v = 0` is reached through the proper integral
`Gumbel.integral_h`, and the statement on the closed square is phrased with `C0`.  At `u = 1` and
at `t = 1` the formulas are genuine (`h θ 1 t = 1`; `t = 1` is a null set for the outer
integral). -/
namespace CopVerif.Gumbel
open CopVerif Real Filter Set MeasureTheory
open scoped Topology

/-! ### interior form -/

/-- Inner integral on the open interval: `∫_{u₁}^{u₂} c(s,t) ds = h(u₂,t) − h(u₁,t)` for
`u₁, u₂ ∈ (0,1)` (either order), `t ∈ (0,1)`; the density is interval-integrable there. -/
theorem integral_c_left_of_pos {θ u₁ u₂ t : ℝ} (hθ : 1 ≤ θ) (h1 : 0 < u₁) (h1' : u₁ < 1)
    (h2 : 0 < u₂) (h2' : u₂ < 1) (ht : 0 < t) (ht1 : t < 1) :
    IntervalIntegrable (fun s => c θ s t) volume u₁ u₂ ∧
      ∫ s in u₁..u₂, c θ s t = h θ u₂ t - h θ u₁ t := by
  have hsub : uIcc u₁ u₂ ⊆ Ioo 0 1 := fun s hs =>
    ⟨lt_of_lt_of_le (lt_min h1 h2) hs.1, lt_of_le_of_lt hs.2 (max_lt h1' h2')⟩
  have hd : ∀ s ∈ uIcc u₁ u₂, HasDerivAt (fun s => h θ s t) (c θ s t) s := fun s hs =>
    hasDerivAt_h_left_ge_one hθ (hsub hs).1 (hsub hs).2 ht ht1
  have hint : IntervalIntegrable (fun s => c θ s t) volume u₁ u₂ := by
    apply intervalIntegral.intervalIntegrable_deriv_of_nonneg (g := fun s => h θ s t)
    · exact fun s hs => (hd s hs).continuousAt.continuousWithinAt
    · exact fun s hs => hd s (Ioo_subset_Icc_self hs)
    · intro s hs
      have := hsub (Ioo_subset_Icc_self hs)
      exact c_nonneg hθ this.1 this.2 ht ht1
  exact ⟨hint, intervalIntegral.integral_eq_sub_of_hasDerivAt hd hint⟩

/-- **The density integrates over a rectangle to the rectangle's `C`-volume**, interior form:
`θ ≥ 1`, `u₁, u₂ ∈ (0,1)`, `v₁, v₂ ∈ (0,1]` (limits in either order; the edge `v = 1` included). -/
theorem integral_c_rect_of_pos {θ u₁ u₂ v₁ v₂ : ℝ} (hθ : 1 ≤ θ) (h1 : 0 < u₁) (h1' : u₁ < 1)
    (h2 : 0 < u₂) (h2' : u₂ < 1) (hv₁ : 0 < v₁) (hv₁' : v₁ ≤ 1) (hv₂ : 0 < v₂) (hv₂' : v₂ ≤ 1) :
    ∫ t in v₁..v₂, (∫ s in u₁..u₂, c θ s t)
      = C θ u₂ v₂ - C θ u₂ v₁ - C θ u₁ v₂ + C θ u₁ v₁ := by
  have hin : ∫ t in v₁..v₂, (∫ s in u₁..u₂, c θ s t)
      = ∫ t in v₁..v₂, (h θ u₂ t - h θ u₁ t) := by
    apply intervalIntegral.integral_congr_ae
    filter_upwards [compl_mem_ae_iff.mpr (measure_singleton (1 : ℝ))] with t ht htI
    have ht0 : 0 < t := lt_trans (lt_min hv₁ hv₂) htI.1
    have ht1 : t < 1 := lt_of_le_of_ne (htI.2.trans (max_le hv₁' hv₂')) ht
    exact (integral_c_left_of_pos hθ h1 h1' h2 h2' ht0 ht1).2
  rw [hin, intervalIntegral.integral_sub (intervalIntegrable_h hθ h2 h2' hv₁ hv₁' hv₂ hv₂')
    (intervalIntegrable_h hθ h1 h1' hv₁ hv₁' hv₂ hv₂'),
    integral_h_sub hθ h2 h2' hv₁ hv₁' hv₂ hv₂', integral_h_sub hθ h1 h1' hv₁ hv₁' hv₂ hv₂']
  ring

example : ∫ t in (1 / 3 : ℝ)..1, (∫ s in (1 / 4 : ℝ)..(1 / 2), c 2 s t)
    = C 2 (1 / 2) 1 - C 2 (1 / 2) (1 / 3) - C 2 (1 / 4) 1 + C 2 (1 / 4) (1 / 3) :=
  integral_c_rect_of_pos (by norm_num) (by norm_num) (by norm_num) (by norm_num) (by norm_num)
    (by norm_num) (by norm_num) (by norm_num) (by norm_num)

/-- The independence case `θ = 1` is covered (the density is `1` there). -/
example : ∫ t in (1 / 3 : ℝ)..(2 / 3), (∫ s in (1 / 4 : ℝ)..(1 / 2), c 1 s t)
    = C 1 (1 / 2) (2 / 3) - C 1 (1 / 2) (1 / 3) - C 1 (1 / 4) (2 / 3) + C 1 (1 / 4) (1 / 3) :=
  integral_c_rect_of_pos le_rfl (by norm_num) (by norm_num) (by norm_num) (by norm_num)
    (by norm_num) (by norm_num) (by norm_num) (by norm_num)

/-! ### the edges `u = 1` and `u = 0` of the conditional CDF -/

/-- `h θ 1 t = 1` for `t ∈ (0,1)` (genuine value of the formula: `log 1 = 0`, `0 ^ θ = 0`). -/
theorem h_one_left {θ t : ℝ} (hθ : 1 ≤ θ) (ht : 0 < t) (ht1 : t < 1) : h θ 1 t = 1 := by
  have h0 : θ ≠ 0 := by linarith
  have hb := neg_log_pos ht ht1
  have hS : S θ 1 t = (-Real.log t) ^ θ := by simp [S, Real.zero_rpow h0]
  have hC : C θ 1 t = t := C_one_left hθ ht ht1.le
  have e : ((-Real.log t) ^ θ) ^ (-1 + 1 / θ) * (-Real.log t) ^ (θ - 1) = 1 := by
    rw [← Real.rpow_mul hb.le, ← Real.rpow_add hb]
    have : θ * (-1 + 1 / θ) + (θ - 1) = 0 := by field_simp; ring
    rw [this, Real.rpow_zero]
  rw [h, hC, hS, mul_assoc, e, mul_one, div_self ht.ne']

/-- `h θ u t ≤ u / t` on `(0,1] × (0,1)`. -/
theorem h_le_div {θ u t : ℝ} (hθ : 1 ≤ θ) (hu : 0 < u) (hu1 : u ≤ 1) (ht : 0 < t) (ht1 : t < 1) :
    h θ u t ≤ u / t := by
  have hb := neg_log_pos ht ht1
  have hbθ : 0 < (-Real.log t) ^ θ := Real.rpow_pos_of_pos hb θ
  have hCu : C θ u t ≤ u := (C_le_min hθ hu hu1 ht ht1.le).trans (min_le_left _ _)
  have hSb : (-Real.log t) ^ θ ≤ S θ u t := by
    have := Real.rpow_nonneg (neg_log_nonneg hu hu1) θ
    simp only [S]; linarith
  have he : -1 + 1 / θ ≤ 0 := by
    have : 1 / θ ≤ 1 := by rw [div_le_one (by linarith)]; exact hθ
    linarith
  have hSe : (S θ u t) ^ (-1 + 1 / θ) ≤ ((-Real.log t) ^ θ) ^ (-1 + 1 / θ) :=
    Real.rpow_le_rpow_of_nonpos hbθ hSb he
  have e : ((-Real.log t) ^ θ) ^ (-1 + 1 / θ) * (-Real.log t) ^ (θ - 1) = 1 := by
    rw [← Real.rpow_mul hb.le, ← Real.rpow_add hb]
    have : θ * (-1 + 1 / θ) + (θ - 1) = 0 := by field_simp; ring
    rw [this, Real.rpow_zero]
  have hS0 : 0 ≤ (S θ u t) ^ (-1 + 1 / θ) := Real.rpow_nonneg (hbθ.le.trans hSb) _
  calc h θ u t = (C θ u t * (S θ u t) ^ (-1 + 1 / θ)) * ((-Real.log t) ^ (θ - 1) / t) := by
        rw [h]; ring
    _ ≤ (u * ((-Real.log t) ^ θ) ^ (-1 + 1 / θ)) * ((-Real.log t) ^ (θ - 1) / t) :=
        mul_le_mul_of_nonneg_right (mul_le_mul hCu hSe hS0 hu.le)
          (div_nonneg (Real.rpow_nonneg hb.le _) ht.le)
    _ = u * (((-Real.log t) ^ θ) ^ (-1 + 1 / θ) * (-Real.log t) ^ (θ - 1)) / t := by ring
    _ = u / t := by rw [e, mul_one]

/-- `h θ u t → 0` as `u → 0⁺`, for `t ∈ (0,1)`. -/
theorem h_tendsto_zero {θ t : ℝ} (hθ : 1 ≤ θ) (ht : 0 < t) (ht1 : t < 1) :
    Tendsto (fun u => h θ u t) (𝓝[>] 0) (𝓝 0) := by
  have h0 : Tendsto (fun u : ℝ => u / t) (𝓝[>] 0) (𝓝 0) := by
    have : Tendsto (fun u : ℝ => u / t) (𝓝 0) (𝓝 (0 / t)) := tendsto_id.div_const t
    rw [zero_div] at this
    exact tendsto_nhdsWithin_of_tendsto_nhds this
  refine tendsto_of_tendsto_of_tendsto_of_le_of_le' tendsto_const_nhds h0 ?_ ?_
  · filter_upwards [Ioc_mem_nhdsGT (zero_lt_one' ℝ)] with u hu
    exact h_nonneg hθ hu.1 hu.2 ht ht1.le
  · filter_upwards [Ioc_mem_nhdsGT (zero_lt_one' ℝ)] with u hu
    exact h_le_div hθ hu.1 hu.2 ht ht1

/-- `h(·,t)` is continuous on `(0,1]` (the endpoint `u = 1` included) for `t ∈ (0,1)`. -/
theorem continuousOn_h_left {θ t : ℝ} (hθ : 1 ≤ θ) (ht : 0 < t) (ht1 : t < 1) :
    ContinuousOn (fun u => h θ u t) (Ioc 0 1) := by
  have hθ0 : 0 ≤ θ := by linarith
  have hb := neg_log_pos ht ht1
  have hC : ContinuousOn (fun u => C θ u t) (Ioc 0 1) := by
    have : ContinuousOn (fun s => C θ t s) (Ioc 0 1) :=
      (continuousOn_C_right hθ0 t).mono Ioc_subset_Ioi_self
    simpa only [C_symm θ t] using this
  have hlog : ContinuousOn (fun u : ℝ => -Real.log u) (Ioc 0 1) :=
    (Real.continuousOn_log.mono (fun u hu => ne_of_gt hu.1)).neg
  have hS : ContinuousOn (fun u => S θ u t) (Ioc 0 1) :=
    (hlog.rpow_const (fun _ _ => Or.inr hθ0)).add continuousOn_const
  have hSe : ContinuousOn (fun u => (S θ u t) ^ (-1 + 1 / θ)) (Ioc 0 1) := by
    apply hS.rpow_const
    intro u hu
    left
    have h1 := Real.rpow_nonneg (neg_log_nonneg hu.1 hu.2) θ
    have h2 := Real.rpow_pos_of_pos hb θ
    simp only [S]
    linarith
  exact ((hC.mul hSe).mul continuousOn_const).div_const t

/-- The conditional CDF `h(·,t)` extended to the edge `u = 0` by its limit `0`
(`h_tendsto_zero`); for `u > 0` it is `h`. -/
noncomputable def h0 (θ u t : ℝ) : ℝ := if 0 < u then h θ u t else 0

theorem h0_of_pos {θ u : ℝ} (hu : 0 < u) (t : ℝ) : h0 θ u t = h θ u t := by simp [h0, hu]

@[simp] theorem h0_zero (θ t : ℝ) : h0 θ 0 t = 0 := by simp [h0]

/-- For `u, t ∈ (0,1)`: `∂h0/∂u = c` (two-sided derivative). -/
theorem hasDerivAt_h0_left {θ u t : ℝ} (hθ : 1 ≤ θ) (hu : 0 < u) (hu1 : u < 1) (ht : 0 < t)
    (ht1 : t < 1) : HasDerivAt (fun s => h0 θ s t) (c θ u t) u := by
  refine (hasDerivAt_h_left_ge_one hθ hu hu1 ht ht1).congr_of_eventuallyEq ?_
  filter_upwards [lt_mem_nhds hu] with w hw using h0_of_pos hw t

/-- `h0(·,t)` is continuous on `[0,1]` for `t ∈ (0,1)`. -/
theorem continuousOn_h0_left {θ t : ℝ} (hθ : 1 ≤ θ) (ht : 0 < t) (ht1 : t < 1) :
    ContinuousOn (fun s => h0 θ s t) (Icc 0 1) := by
  intro s hs
  rcases hs.1.eq_or_lt with rfl | hs0
  · apply ContinuousWithinAt.mono _ Icc_subset_Ici_self
    rw [← continuousWithinAt_Ioi_iff_Ici]
    show Tendsto (fun s => h0 θ s t) (𝓝[>] 0) (𝓝 (h0 θ 0 t))
    rw [h0_zero]
    refine (h_tendsto_zero hθ ht ht1).congr' ?_
    filter_upwards [self_mem_nhdsWithin] with w hw using (h0_of_pos hw t).symm
  · have h1 : ContinuousWithinAt (fun u => h θ u t) (Ioc 0 1) s :=
      continuousOn_h_left hθ ht ht1 s ⟨hs0, hs.2⟩
    have h2 : ContinuousWithinAt (fun u => h0 θ u t) (Ioc 0 1) s :=
      h1.congr (fun w hw => h0_of_pos hw.1 t) (h0_of_pos hs0 t)
    have hmem : Ioc (0 : ℝ) 1 ∈ 𝓝[Icc 0 1] s :=
      mem_nhdsWithin.mpr ⟨Ioi 0, isOpen_Ioi, hs0, fun w hw => ⟨hw.1, hw.2.2⟩⟩
    exact h2.mono_of_mem_nhdsWithin hmem

/-- Inner integral on the closed interval: for `u₁, u₂ ∈ [0,1]` (either order, both edges
included) and `t ∈ (0,1)` the density `c(·,t)` is interval-integrable and
`∫_{u₁}^{u₂} c(s,t) ds = h0(u₂,t) − h0(u₁,t)`. -/
theorem integral_c_left {θ u₁ u₂ t : ℝ} (hθ : 1 ≤ θ) (h1 : 0 ≤ u₁) (h1' : u₁ ≤ 1)
    (h2 : 0 ≤ u₂) (h2' : u₂ ≤ 1) (ht : 0 < t) (ht1 : t < 1) :
    IntervalIntegrable (fun s => c θ s t) volume u₁ u₂ ∧
      ∫ s in u₁..u₂, c θ s t = h0 θ u₂ t - h0 θ u₁ t := by
  have hsub : uIcc u₁ u₂ ⊆ Icc 0 1 := uIcc_subset_Icc ⟨h1, h1'⟩ ⟨h2, h2'⟩
  have hIoo : ∀ s ∈ Ioo (min u₁ u₂) (max u₁ u₂), 0 < s ∧ s < 1 := fun s hs =>
    ⟨lt_of_le_of_lt (le_min h1 h2) hs.1, lt_of_lt_of_le hs.2 (max_le h1' h2')⟩
  have hcont : ContinuousOn (fun s => h0 θ s t) (uIcc u₁ u₂) :=
    (continuousOn_h0_left hθ ht ht1).mono hsub
  have hd : ∀ s ∈ Ioo (min u₁ u₂) (max u₁ u₂), HasDerivAt (fun s => h0 θ s t) (c θ s t) s :=
    fun s hs => hasDerivAt_h0_left hθ (hIoo s hs).1 (hIoo s hs).2 ht ht1
  have hint : IntervalIntegrable (fun s => c θ s t) volume u₁ u₂ := by
    apply intervalIntegral.intervalIntegrable_deriv_of_nonneg (g := fun s => h0 θ s t) hcont hd
    intro s hs
    exact c_nonneg hθ (hIoo s hs).1 (hIoo s hs).2 ht ht1
  exact ⟨hint, intervalIntegral.integral_eq_sub_of_hasDeriv_right hcont
    (fun s hs => (hd s hs).hasDerivWithinAt) hint⟩

/-! ### the grounded CDF and the outer integral -/

/-- The Gumbel CDF with grounded edges: the formula `C` on `(0,∞)²` and `0` when a coordinate is
`≤ 0` (what the IEEE evaluation `exp(-inf) = 0` of the Python formula returns at `u = 0` or
`v = 0`, and the limit of `C` there, `tendsto_C_right_zero`). -/
noncomputable def C0 (θ u v : ℝ) : ℝ := if 0 < u ∧ 0 < v then C θ u v else 0

theorem C0_of_pos {θ u v : ℝ} (hu : 0 < u) (hv : 0 < v) : C0 θ u v = C θ u v := by
  simp [C0, hu, hv]

@[simp] theorem C0_zero_left (θ v : ℝ) : C0 θ 0 v = 0 := by simp [C0]

@[simp] theorem C0_zero_right (θ u : ℝ) : C0 θ u 0 = 0 := by simp [C0]

/-- Rosenblatt identity on the closed square: for `u, v ∈ [0,1]`, `h0(u,·)` is interval-integrable
on `[0,v]` and `∫₀ᵛ h0(u,t) dt = C0(u,v)`. -/
theorem integral_h0 {θ u v : ℝ} (hθ : 1 ≤ θ) (hu : 0 ≤ u) (hu1 : u ≤ 1) (hv : 0 ≤ v)
    (hv1 : v ≤ 1) :
    IntervalIntegrable (fun t => h0 θ u t) volume 0 v ∧ ∫ t in (0 : ℝ)..v, h0 θ u t = C0 θ u v := by
  rcases hv.eq_or_lt with rfl | hv0
  · simp
  rcases hu.eq_or_lt with rfl | hu0
  · simp
  have e : (fun t => h0 θ u t) = fun t => h θ u t := funext fun t => h0_of_pos hu0 t
  rw [e, C0_of_pos hu0 hv0]
  rcases hu1.eq_or_lt with rfl | hu1'
  · -- `u = 1`: `h θ 1 t = 1` for almost every `t ∈ (0,v]`
    have hae : ∀ᵐ t ∂volume, t ∈ uIoc 0 v → (fun _ : ℝ => (1 : ℝ)) t = h θ 1 t := by
      filter_upwards [compl_mem_ae_iff.mpr (measure_singleton (1 : ℝ))] with t ht htI
      rw [uIoc_of_le hv] at htI
      exact (h_one_left hθ htI.1 (lt_of_le_of_ne (htI.2.trans hv1) ht)).symm
    refine ⟨(intervalIntegrable_const (c := (1 : ℝ))).congr_ae
      ((ae_restrict_iff' measurableSet_uIoc).mpr hae), ?_⟩
    rw [← intervalIntegral.integral_congr_ae hae, intervalIntegral.integral_const, smul_eq_mul,
      mul_one, sub_zero, C_one_left hθ hv0 hv1]
  · exact integral_h hθ hu0 hu1' hv0 hv1

/-- `h0(u,·)` between arbitrary limits of `[0,1]`. -/
theorem integral_h0_sub {θ u a b : ℝ} (hθ : 1 ≤ θ) (hu : 0 ≤ u) (hu1 : u ≤ 1) (ha : 0 ≤ a)
    (ha1 : a ≤ 1) (hb : 0 ≤ b) (hb1 : b ≤ 1) :
    IntervalIntegrable (fun t => h0 θ u t) volume a b ∧
      ∫ t in a..b, h0 θ u t = C0 θ u b - C0 θ u a := by
  obtain ⟨ia, ea⟩ := integral_h0 hθ hu hu1 ha ha1
  obtain ⟨ib, eb⟩ := integral_h0 hθ hu hu1 hb hb1
  refine ⟨ia.symm.trans ib, ?_⟩
  rw [← intervalIntegral.integral_interval_sub_left ib ia, ea, eb]

/-! ### the rectangle, closed unit square -/

/-- **The density integrates over a rectangle to the rectangle's `C`-volume**, closed form:
`θ ≥ 1`, all four limits in `[0,1]` (either order; every edge of the unit square included), with
the grounded CDF `C0` (`= C` on `(0,1]²`, `= 0` on the edges `u = 0`, `v = 0`). -/
theorem integral_c_rect {θ u₁ u₂ v₁ v₂ : ℝ} (hθ : 1 ≤ θ) (h1 : 0 ≤ u₁) (h1' : u₁ ≤ 1)
    (h2 : 0 ≤ u₂) (h2' : u₂ ≤ 1) (hv₁ : 0 ≤ v₁) (hv₁' : v₁ ≤ 1) (hv₂ : 0 ≤ v₂) (hv₂' : v₂ ≤ 1) :
    ∫ t in v₁..v₂, (∫ s in u₁..u₂, c θ s t)
      = C0 θ u₂ v₂ - C0 θ u₂ v₁ - C0 θ u₁ v₂ + C0 θ u₁ v₁ := by
  have hin : ∫ t in v₁..v₂, (∫ s in u₁..u₂, c θ s t)
      = ∫ t in v₁..v₂, (h0 θ u₂ t - h0 θ u₁ t) := by
    apply intervalIntegral.integral_congr_ae
    filter_upwards [compl_mem_ae_iff.mpr (measure_singleton (1 : ℝ))] with t ht htI
    have ht0 : 0 < t := lt_of_le_of_lt (le_min hv₁ hv₂) htI.1
    have ht1 : t < 1 := lt_of_le_of_ne (htI.2.trans (max_le hv₁' hv₂')) ht
    exact (integral_c_left hθ h1 h1' h2 h2' ht0 ht1).2
  obtain ⟨i2, e2⟩ := integral_h0_sub hθ h2 h2' hv₁ hv₁' hv₂ hv₂'
  obtain ⟨i1, e1⟩ := integral_h0_sub hθ h1 h1' hv₁ hv₁' hv₂ hv₂'
  rw [hin, intervalIntegral.integral_sub i2 i1, e2, e1]
  ring

example : ∫ t in (0 : ℝ)..(2 / 3), (∫ s in (1 / 2 : ℝ)..1, c 2 s t)
    = C0 2 1 (2 / 3) - C0 2 1 0 - C0 2 (1 / 2) (2 / 3) + C0 2 (1 / 2) 0 :=
  integral_c_rect (by norm_num) (by norm_num) (by norm_num) (by norm_num) (by norm_num)
    (by norm_num) (by norm_num) (by norm_num) (by norm_num)

/-- The density has total mass one on the unit square (all four edges included). -/
theorem integral_c_unit_square {θ : ℝ} (hθ : 1 ≤ θ) :
    ∫ t in (0 : ℝ)..1, (∫ s in (0 : ℝ)..1, c θ s t) = 1 := by
  rw [integral_c_rect hθ le_rfl zero_le_one zero_le_one le_rfl le_rfl zero_le_one zero_le_one
    le_rfl, C0_of_pos one_pos one_pos, C_one_right hθ one_pos le_rfl, C0_zero_right,
    C0_zero_left, C0_zero_left]
  ring

example : ∫ t in (0 : ℝ)..1, (∫ s in (0 : ℝ)..1, c 2 s t) = 1 :=
  integral_c_unit_square (by norm_num)

end CopVerif.Gumbel
