import Mathlib.MeasureTheory.Integral.IntervalIntegral.DerivIntegrable
import Mathlib.Analysis.SpecialFunctions.Pow.Deriv
import CopVerif.Real.KDENormal
/-!
# Closed-form `scipy.stats` families are coherent (property C03)

`CopVerif/Real/KDE.lean` states what is ASSUMED of a `scipy.stats` family at one parameter value as
the hypothesis structure `Uni.FamilyCoherent pdf cdf ppf logpdf S`.  This file PROVES that structure
for the explicit closed forms of the families whose four functions have one:

* generic tools: `Uni.pdf_intervalIntegrable_of_monotone` (the density of a monotone CDF is interval
  integrable, so `pdf_integrable` never has to be shown by hand), `Uni.FamilyCoherent.congr`,
  `Uni.FamilyCoherent.locScale` (scipy's `loc`/`scale` mechanism: `x ↦ (x − loc)/scale`,
  `pdf/scale`, `loc + scale·ppf`, `logpdf − log scale`), `Uni.FamilyCoherent.truncate`;
* `Families.uniform_coherent`   — `scipy.stats.uniform(loc, scale)`, `scale > 0`;
* `Families.norm_coherent`      — `scipy.stats.norm(loc, scale)`, `scale > 0`, with
  `Φ = PIT.stdPhi = cdf (gaussianReal 0 1)` and `ppf = loc + scale·Φ⁻¹`;
* `Families.loglaplace_coherent` — `scipy.stats.loglaplace(c, loc, scale)`, `c > 0`, `scale > 0`;
* `Families.truncnorm_coherent` — `scipy.stats.truncnorm(a, b, loc, scale)`, `a < b`, `scale > 0`.
-/
open MeasureTheory Set Filter
open scoped Topology NNReal

namespace CopVerif.Uni

/-! ## generic tools -/

/-- The density of a monotone CDF (derivative off a countable set) is interval integrable: the
`pdf_integrable` field of `FamilyCoherent` follows from the others. -/
theorem pdf_intervalIntegrable_of_monotone {pdf cdf : ℝ → ℝ} {S : Set ℝ} (hm : Monotone cdf)
    (hS : S.Countable) (hd : ∀ x, x ∉ S → HasDerivAt cdf (pdf x) x) (a b : ℝ) :
    IntervalIntegrable pdf volume a b := by
  have h := (hm.monotoneOn (uIcc a b)).intervalIntegrable_deriv
  refine h.congr_ae ?_
  have hnull : volume S = 0 := hS.measure_zero volume
  have : ∀ᵐ x ∂(volume : Measure ℝ), x ∉ S := by
    rw [ae_iff]; simpa using hnull
  refine (ae_restrict_of_ae this).mono ?_
  intro x hx
  exact (hd x hx).deriv

/-- A coherent family stays coherent when `ppf` is changed outside `(0,1)` and `logpdf` outside the
set where the density is positive (there scipy returns `nan` / `−∞`, which have no real value). -/
theorem FamilyCoherent.congr {pdf cdf ppf logpdf pdf' cdf' ppf' logpdf' : ℝ → ℝ} {S S' : Set ℝ}
    (h : FamilyCoherent pdf cdf ppf logpdf S) (hpdf : ∀ x, pdf' x = pdf x)
    (hcdf : ∀ x, cdf' x = cdf x) (hppf : ∀ q, 0 < q → q < 1 → ppf' q = ppf q)
    (hlog : ∀ x, 0 < pdf x → logpdf' x = logpdf x) (hS : S' = S) :
    FamilyCoherent pdf' cdf' ppf' logpdf' S' := by
  obtain rfl : pdf' = pdf := funext hpdf
  obtain rfl : cdf' = cdf := funext hcdf
  subst hS
  exact
  { h with
    ppf_gc := fun q x h0 h1 => by rw [hppf q h0 h1]; exact h.ppf_gc q x h0 h1
    logpdf_eq := fun x hx => by rw [hlog x hx]; exact h.logpdf_eq x hx }

theorem tendsto_standardize_atBot (loc : ℝ) {scale : ℝ} (hs : 0 < scale) :
    Tendsto (fun x : ℝ => (x - loc) / scale) atBot atBot :=
  (tendsto_atBot_add_const_right _ (-loc) tendsto_id).atBot_div_const hs

theorem tendsto_standardize_atTop (loc : ℝ) {scale : ℝ} (hs : 0 < scale) :
    Tendsto (fun x : ℝ => (x - loc) / scale) atTop atTop :=
  (tendsto_atTop_add_const_right _ (-loc) tendsto_id).atTop_div_const hs

/-- **scipy's `loc`/`scale` mechanism preserves coherence** (`rv_continuous.pdf/cdf/ppf/logpdf`:
`y = (x − loc)/scale`, `pdf = _pdf(y)/scale`, `cdf = _cdf(y)`, `ppf = loc + scale·_ppf(q)`,
`logpdf = _logpdf(y) − log scale`), for every `loc` and every `scale > 0`. -/
theorem FamilyCoherent.locScale {pdf cdf ppf logpdf : ℝ → ℝ} {S : Set ℝ}
    (h : FamilyCoherent pdf cdf ppf logpdf S) (loc : ℝ) {scale : ℝ} (hs : 0 < scale) :
    FamilyCoherent (fun x => pdf ((x - loc) / scale) / scale) (fun x => cdf ((x - loc) / scale))
      (fun q => loc + scale * ppf q) (fun x => logpdf ((x - loc) / scale) - Real.log scale)
      ((fun z => loc + scale * z) '' S) := by
  have hmono : Monotone fun x : ℝ => (x - loc) / scale := fun x y hxy =>
    div_le_div_of_nonneg_right (by linarith) hs.le
  have hS : ((fun z => loc + scale * z) '' S).Countable := h.S_countable.image _
  have hd : ∀ x, x ∉ (fun z => loc + scale * z) '' S →
      HasDerivAt (fun x => cdf ((x - loc) / scale)) (pdf ((x - loc) / scale) / scale) x := by
    intro x hx
    have hz : (x - loc) / scale ∉ S := fun hz => hx ⟨_, hz, by field_simp; ring⟩
    have hin : HasDerivAt (fun x : ℝ => (x - loc) / scale) (1 / scale) x := by
      simpa using ((hasDerivAt_id x).sub_const loc).div_const scale
    have := (h.cdf_deriv _ hz).comp x hin
    simpa [div_eq_mul_inv, Function.comp_def] using this
  have hm : Monotone fun x => cdf ((x - loc) / scale) := h.cdf_mono.comp hmono
  exact
  { cdf_mono := hm
    cdf_nonneg := fun x => h.cdf_nonneg _
    cdf_le_one := fun x => h.cdf_le_one _
    cdf_atBot := h.cdf_atBot.comp (tendsto_standardize_atBot loc hs)
    cdf_atTop := h.cdf_atTop.comp (tendsto_standardize_atTop loc hs)
    cdf_cont := h.cdf_cont.comp ((continuous_id.sub continuous_const).div_const scale)
    pdf_nonneg := fun x => div_nonneg (h.pdf_nonneg _) hs.le
    S_countable := hS
    cdf_deriv := hd
    pdf_integrable := pdf_intervalIntegrable_of_monotone hm hS hd
    ppf_gc := by
      intro q x h0 h1
      rw [← h.ppf_gc q _ h0 h1, le_div_iff₀ hs]
      constructor <;> intro h' <;> linarith
    logpdf_eq := by
      intro x hx
      have hp : 0 < pdf ((x - loc) / scale) := by
        by_contra hn
        have := div_nonpos_of_nonpos_of_nonneg (not_lt.mp hn) hs.le
        linarith
      rw [h.logpdf_eq _ hp, Real.log_div hp.ne' hs.ne'] }

/-- positivity of the rescaled density is positivity of the standard one -/
theorem pos_of_div_pos {p scale : ℝ} (hs : 0 < scale) (h : 0 < p / scale) : 0 < p := by
  by_contra hn
  have := div_nonpos_of_nonpos_of_nonneg (not_lt.mp hn) hs.le
  linarith

/-- clamp of the renormalised CDF: value below / inside / above the truncation interval -/
theorem truncCdf_of_le {cdf : ℝ → ℝ} (hm : Monotone cdf) {a b z : ℝ} (hD : 0 < cdf b - cdf a)
    (hz : z ≤ a) : max 0 (min 1 ((cdf z - cdf a) / (cdf b - cdf a))) = 0 := by
  have : (cdf z - cdf a) / (cdf b - cdf a) ≤ 0 :=
    div_nonpos_of_nonpos_of_nonneg (by linarith [hm hz]) hD.le
  rw [min_eq_right (this.trans zero_le_one), max_eq_left this]

theorem truncCdf_of_mem {cdf : ℝ → ℝ} (hm : Monotone cdf) {a b z : ℝ} (hD : 0 < cdf b - cdf a)
    (h0 : a ≤ z) (h1 : z ≤ b) :
    max 0 (min 1 ((cdf z - cdf a) / (cdf b - cdf a))) = (cdf z - cdf a) / (cdf b - cdf a) := by
  have h0' : 0 ≤ (cdf z - cdf a) / (cdf b - cdf a) := div_nonneg (by linarith [hm h0]) hD.le
  have h1' : (cdf z - cdf a) / (cdf b - cdf a) ≤ 1 := by
    rw [div_le_one hD]; linarith [hm h1]
  rw [min_eq_right h1', max_eq_right h0']

theorem truncCdf_of_ge {cdf : ℝ → ℝ} (hm : Monotone cdf) {a b z : ℝ} (hD : 0 < cdf b - cdf a)
    (hz : b ≤ z) : max 0 (min 1 ((cdf z - cdf a) / (cdf b - cdf a))) = 1 := by
  have : 1 ≤ (cdf z - cdf a) / (cdf b - cdf a) := by
    rw [one_le_div hD]; linarith [hm hz]
  rw [min_eq_left this, max_eq_right zero_le_one]

/-- **Truncation preserves coherence.**  Conditioning a coherent family on `[a, b]` (of positive
mass `D = cdf b − cdf a`): density `pdf/D` on `[a, b]`, CDF `(cdf − cdf a)/D` clamped to `[0,1]`,
quantile `ppf(cdf a + q·D)`, `logpdf − log D`; two more kinks, at `a` and `b`. -/
theorem FamilyCoherent.truncate {pdf cdf ppf logpdf : ℝ → ℝ} {S : Set ℝ}
    (h : FamilyCoherent pdf cdf ppf logpdf S) {a b : ℝ} (hD : 0 < cdf b - cdf a) :
    FamilyCoherent (fun z => if a ≤ z ∧ z ≤ b then pdf z / (cdf b - cdf a) else 0)
      (fun z => max 0 (min 1 ((cdf z - cdf a) / (cdf b - cdf a))))
      (fun q => ppf (cdf a + q * (cdf b - cdf a)))
      (fun z => logpdf z - Real.log (cdf b - cdf a)) (S ∪ {a, b}) := by
  set D := cdf b - cdf a with hDdef
  have hm : Monotone fun z => max 0 (min 1 ((cdf z - cdf a) / D)) := by
    intro x y hxy
    exact max_le_max le_rfl (min_le_min le_rfl
      (div_le_div_of_nonneg_right (by linarith [h.cdf_mono hxy]) hD.le))
  have hS : (S ∪ {a, b}).Countable := h.S_countable.union ((Set.countable_singleton b).insert a)
  have hd : ∀ z, z ∉ S ∪ {a, b} → HasDerivAt (fun z => max 0 (min 1 ((cdf z - cdf a) / D)))
      (if a ≤ z ∧ z ≤ b then pdf z / D else 0) z := by
    intro z hz
    simp only [Set.mem_union, Set.mem_insert_iff, Set.mem_singleton_iff, not_or] at hz
    obtain ⟨hzS, hza, hzb⟩ := hz
    rcases lt_or_gt_of_ne hza with h0 | h0
    · rw [if_neg (fun hc => absurd hc.1 (not_le.mpr h0))]
      apply (hasDerivAt_const z (0 : ℝ)).congr_of_eventuallyEq
      filter_upwards [Iio_mem_nhds h0] with y hy
      exact truncCdf_of_le h.cdf_mono hD (le_of_lt hy)
    · rcases lt_or_gt_of_ne hzb with h1 | h1
      · rw [if_pos ⟨h0.le, h1.le⟩]
        have hd0 : HasDerivAt (fun y => (cdf y - cdf a) / D) (pdf z / D) z :=
          ((h.cdf_deriv z hzS).sub_const (cdf a)).div_const D
        apply hd0.congr_of_eventuallyEq
        filter_upwards [Ioo_mem_nhds h0 h1] with y hy
        exact truncCdf_of_mem h.cdf_mono hD hy.1.le hy.2.le
      · rw [if_neg (fun hc => absurd hc.2 (not_le.mpr h1))]
        apply (hasDerivAt_const z (1 : ℝ)).congr_of_eventuallyEq
        filter_upwards [Ioi_mem_nhds h1] with y hy
        exact truncCdf_of_ge h.cdf_mono hD (le_of_lt hy)
  exact
  { cdf_mono := hm
    cdf_nonneg := fun z => le_max_left _ _
    cdf_le_one := fun z => max_le zero_le_one (min_le_left _ _)
    cdf_atBot := by
      apply tendsto_const_nhds.congr'
      filter_upwards [eventually_le_atBot a] with z hz
      exact (truncCdf_of_le h.cdf_mono hD hz).symm
    cdf_atTop := by
      apply tendsto_const_nhds.congr'
      filter_upwards [eventually_ge_atTop b] with z hz
      exact (truncCdf_of_ge h.cdf_mono hD hz).symm
    cdf_cont := continuous_const.max (continuous_const.min
      ((h.cdf_cont.sub continuous_const).div_const D))
    pdf_nonneg := fun z => by
      split_ifs
      · exact div_nonneg (h.pdf_nonneg z) hD.le
      · exact le_rfl
    S_countable := hS
    cdf_deriv := hd
    pdf_integrable := pdf_intervalIntegrable_of_monotone hm hS hd
    ppf_gc := by
      intro q x h0 h1
      have hlo : 0 < cdf a + q * D := by
        have := h.cdf_nonneg a
        have := mul_pos h0 hD
        linarith
      have hhi : cdf a + q * D < 1 := by
        have := h.cdf_le_one b
        have : q * D < 1 * D := mul_lt_mul_of_pos_right h1 hD
        linarith
      rw [h.ppf_gc _ x hlo hhi]
      simp only [le_max_iff, le_min_iff, le_div_iff₀ hD]
      constructor
      · intro h'; exact Or.inr ⟨h1.le, by linarith⟩
      · rintro (h' | h')
        · exact absurd h0 (not_lt.mpr h')
        · linarith [h'.2]
    logpdf_eq := by
      intro z hz
      split_ifs at hz ⊢ with hmem
      · have hp : 0 < pdf z := pos_of_div_pos hD hz
        rw [h.logpdf_eq z hp, Real.log_div hp.ne' hD.ne']
      · exact absurd hz (lt_irrefl _) }

end CopVerif.Uni

namespace CopVerif.Families
open CopVerif Uni PIT KDENormal ProbabilityTheory NumFns Gen.UniConst

/-! ## `scipy.stats.uniform(loc, scale)` -/

/-- `uniform.pdf(x, loc, scale)`: `1/scale` on the CLOSED support `[loc, loc + scale]`, else `0`. -/
noncomputable def uniformPdf (loc scale x : ℝ) : ℝ :=
  if loc ≤ x ∧ x ≤ loc + scale then 1 / scale else 0

/-- `uniform.cdf(x, loc, scale)`: `(x − loc)/scale` clamped to `[0, 1]`. -/
noncomputable def uniformCdf (loc scale x : ℝ) : ℝ := max 0 (min 1 ((x - loc) / scale))

/-- `uniform.ppf(q, loc, scale) = loc + q·scale`. -/
def uniformPpf (loc scale q : ℝ) : ℝ := loc + q * scale

/-- `uniform.logpdf(x, loc, scale)`: `−log scale` on the support (outside it scipy returns `−∞`,
which has no real value: the value `0` there is never looked at by any law). -/
noncomputable def uniformLogpdf (loc scale x : ℝ) : ℝ :=
  if loc ≤ x ∧ x ≤ loc + scale then -Real.log scale else 0

theorem uniformCdf_std : uniformCdf 0 1 = Uni.unifCdf := by
  funext x; simp [uniformCdf, Uni.unifCdf]

theorem uniformCdf_of_le {loc scale x : ℝ} (hs : 0 < scale) (hx : x ≤ loc) :
    uniformCdf loc scale x = 0 := by
  have : (x - loc) / scale ≤ 0 := div_nonpos_of_nonpos_of_nonneg (by linarith) hs.le
  simp [uniformCdf, min_eq_right (this.trans zero_le_one), this]

theorem uniformCdf_of_mem {loc scale x : ℝ} (hs : 0 < scale) (h0 : loc ≤ x)
    (h1 : x ≤ loc + scale) : uniformCdf loc scale x = (x - loc) / scale := by
  have h0' : 0 ≤ (x - loc) / scale := div_nonneg (by linarith) hs.le
  have h1' : (x - loc) / scale ≤ 1 := by rw [div_le_one hs]; linarith
  simp [uniformCdf, min_eq_right h1', h0']

theorem uniformCdf_of_ge {loc scale x : ℝ} (hs : 0 < scale) (hx : loc + scale ≤ x) :
    uniformCdf loc scale x = 1 := by
  have h1' : 1 ≤ (x - loc) / scale := by rw [one_le_div hs]; linarith
  simp [uniformCdf, min_eq_left h1']

/-- the standard uniform law on `[0,1]` with scipy's closed-support density -/
theorem uniform_std_coherent :
    FamilyCoherent (uniformPdf 0 1) (uniformCdf 0 1) (uniformPpf 0 1) (uniformLogpdf 0 1) {0, 1} := by
  have hm : Monotone (uniformCdf 0 1) := by
    rw [uniformCdf_std]; exact Uni.uniform_coherent.cdf_mono
  have hS : ({0, 1} : Set ℝ).Countable := (Set.countable_singleton 1).insert 0
  have hd : ∀ x, x ∉ ({0, 1} : Set ℝ) → HasDerivAt (uniformCdf 0 1) (uniformPdf 0 1 x) x := by
    intro x hx
    have := Uni.uniform_coherent.cdf_deriv x hx
    rw [uniformCdf_std]
    convert this using 1
    simp only [Set.mem_insert_iff, Set.mem_singleton_iff, not_or] at hx
    simp only [uniformPdf, Uni.unifPdf, Set.indicator, Set.mem_Ioo, zero_add, div_one]
    by_cases h : 0 < x ∧ x < 1
    · rw [if_pos h, if_pos ⟨h.1.le, h.2.le⟩]
    · rw [if_neg h, if_neg]
      rintro ⟨h0, h1⟩
      exact h ⟨lt_of_le_of_ne h0 (Ne.symm hx.1), lt_of_le_of_ne h1 hx.2⟩
  exact
  { cdf_mono := hm
    cdf_nonneg := by rw [uniformCdf_std]; exact Uni.uniform_coherent.cdf_nonneg
    cdf_le_one := by rw [uniformCdf_std]; exact Uni.uniform_coherent.cdf_le_one
    cdf_atBot := by rw [uniformCdf_std]; exact Uni.uniform_coherent.cdf_atBot
    cdf_atTop := by rw [uniformCdf_std]; exact Uni.uniform_coherent.cdf_atTop
    cdf_cont := by rw [uniformCdf_std]; exact Uni.uniform_coherent.cdf_cont
    pdf_nonneg := fun x => by unfold uniformPdf; split_ifs <;> norm_num
    S_countable := hS
    cdf_deriv := hd
    pdf_integrable := pdf_intervalIntegrable_of_monotone hm hS hd
    ppf_gc := by
      intro q x h0 h1
      have := Uni.uniform_coherent.ppf_gc q x h0 h1
      rw [uniformCdf_std]
      simpa [uniformPpf] using this
    logpdf_eq := by
      intro x hx
      unfold uniformPdf at hx ⊢
      unfold uniformLogpdf
      split_ifs at hx ⊢ with h
      · simp
      · exact absurd hx (lt_irrefl _) }

theorem uniform_support_iff (loc : ℝ) {scale : ℝ} (hs : 0 < scale) (x : ℝ) :
    (0 ≤ (x - loc) / scale ∧ (x - loc) / scale ≤ 0 + 1) ↔ (loc ≤ x ∧ x ≤ loc + scale) := by
  rw [zero_add, div_le_one hs, le_div_iff₀ hs]
  constructor <;> rintro ⟨h1, h2⟩ <;> constructor <;> linarith

/-- **`scipy.stats.uniform(loc, scale)` is a coherent family for every `loc` and `scale > 0`**
(kinks of the CDF at the two end points of the support). -/
theorem uniform_coherent (loc : ℝ) {scale : ℝ} (hs : 0 < scale) :
    FamilyCoherent (uniformPdf loc scale) (uniformCdf loc scale) (uniformPpf loc scale)
      (uniformLogpdf loc scale) {loc, loc + scale} := by
  refine (uniform_std_coherent.locScale loc hs).congr ?_ ?_ ?_ ?_ ?_
  · intro x
    simp only [uniformPdf, uniform_support_iff loc hs x]
    split_ifs <;> simp
  · intro x; simp [uniformCdf]
  · intro q _ _; simp [uniformPpf]; ring
  · intro x hx
    have hp : 0 < uniformPdf 0 1 ((x - loc) / scale) := pos_of_div_pos hs hx
    have hmem : loc ≤ x ∧ x ≤ loc + scale := by
      rw [← uniform_support_iff loc hs x]
      by_contra hn
      simp only [uniformPdf] at hp
      rw [if_neg hn] at hp
      exact lt_irrefl _ hp
    simp only [uniformLogpdf, uniform_support_iff loc hs x, if_pos hmem]
    simp
  · simp [Set.image_pair]

/-! ## `scipy.stats.norm(loc, scale)` -/

/-- `norm.pdf(x, loc, scale) = exp(−y²/2)/√(2π)/scale`, `y = (x − loc)/scale` (`_norm_pdf`). -/
noncomputable def normPdf (loc scale x : ℝ) : ℝ :=
  Real.exp (-((x - loc) / scale) ^ 2 / 2) / Real.sqrt (2 * Real.pi) / scale

/-- `norm.cdf(x, loc, scale) = Φ((x − loc)/scale)`, `Φ = cdf (gaussianReal 0 1)` (`ndtr`). -/
noncomputable def normCdf (loc scale x : ℝ) : ℝ := stdPhi ((x - loc) / scale)

/-- `norm.ppf(q, loc, scale) = loc + scale·Φ⁻¹(q)` (`ndtri`); `Φ⁻¹ = PIT.stdPhiInv` is THE inverse of
the strictly increasing continuous bijection `Φ : ℝ → (0,1)` (`normPpf_unique`). -/
noncomputable def normPpf (loc scale q : ℝ) : ℝ := loc + scale * stdPhiInv q

/-- `norm.logpdf(x, loc, scale) = −y²/2 − log √(2π) − log scale` (`_norm_logpdf`). -/
noncomputable def normLogpdf (loc scale x : ℝ) : ℝ :=
  -((x - loc) / scale) ^ 2 / 2 - Real.log (Real.sqrt (2 * Real.pi)) - Real.log scale

theorem stdPdf_eq (z : ℝ) : stdPdf z = Real.exp (-z ^ 2 / 2) / Real.sqrt (2 * Real.pi) := by
  rw [stdPdf_apply]; ring

theorem log_stdPdf (z : ℝ) :
    Real.log (stdPdf z) = -z ^ 2 / 2 - Real.log (Real.sqrt (2 * Real.pi)) := by
  have h : (0 : ℝ) < √(2 * Real.pi) := Real.sqrt_pos.mpr (by positivity)
  rw [stdPdf_eq, Real.log_div (Real.exp_pos _).ne' h.ne', Real.log_exp]

/-- the standard normal law: `Φ' = φ` everywhere (no kinks), `Φ⁻¹` the quantile function -/
theorem norm_std_coherent :
    FamilyCoherent stdPdf stdPhi stdPhiInv
      (fun z => -z ^ 2 / 2 - Real.log (Real.sqrt (2 * Real.pi))) ∅ := by
  have hm : Monotone stdPhi := stdPhi_strictMono.monotone
  have hd : ∀ x, x ∉ (∅ : Set ℝ) → HasDerivAt stdPhi (stdPdf x) x := fun x _ => stdPhi_hasDerivAt x
  exact
  { cdf_mono := hm
    cdf_nonneg := stdPhi_nonneg
    cdf_le_one := stdPhi_le_one
    cdf_atBot := stdPhi_tendsto_atBot
    cdf_atTop := stdPhi_tendsto_atTop
    cdf_cont := stdPhi_continuous
    pdf_nonneg := stdPdf_nonneg
    S_countable := Set.countable_empty
    cdf_deriv := hd
    pdf_integrable := pdf_intervalIntegrable_of_monotone hm Set.countable_empty hd
    ppf_gc := by
      intro q x h0 h1
      rw [← stdPhi_strictMono.le_iff_le (a := stdPhiInv q), stdPhi_stdPhiInv h0 h1]
    logpdf_eq := fun x _ => (log_stdPdf x).symm }

/-- **`scipy.stats.norm(loc, scale)` is a coherent family for every `loc` and `scale > 0`**
(the CDF is differentiable everywhere: no kinks). -/
theorem norm_coherent (loc : ℝ) {scale : ℝ} (hs : 0 < scale) :
    FamilyCoherent (normPdf loc scale) (normCdf loc scale) (normPpf loc scale)
      (normLogpdf loc scale) ∅ := by
  refine (norm_std_coherent.locScale loc hs).congr ?_ ?_ ?_ ?_ ?_
  · intro x; simp only [normPdf, stdPdf_eq]
  · intro x; rfl
  · intro q _ _; rfl
  · intro x _; rfl
  · simp

/-- the explicit density is Mathlib's Gaussian density with mean `loc` and variance `scale²` -/
theorem normPdf_eq_gaussianPDFReal (loc : ℝ) {scale : ℝ} (hs : 0 < scale) (x : ℝ) :
    normPdf loc scale x = gaussianPDFReal loc (NNReal.mk (scale ^ 2) (sq_nonneg scale)) x := by
  have h2 : √(2 * Real.pi * scale ^ 2) = √(2 * Real.pi) * scale := by
    rw [Real.sqrt_mul (by positivity), Real.sqrt_sq hs.le]
  have h : (0 : ℝ) < √(2 * Real.pi) := Real.sqrt_pos.mpr (by positivity)
  simp only [normPdf, gaussianPDFReal, NNReal.coe_mk, h2]
  have e : -((x - loc) / scale) ^ 2 / 2 = -(x - loc) ^ 2 / (2 * scale ^ 2) := by
    field_simp
  rw [e]
  field_simp

/-- the CDF is the distribution function of Mathlib's `gaussianReal loc scale²` -/
theorem normCdf_eq_cdf_gaussianReal (loc : ℝ) {scale : ℝ} (hs : 0 < scale) (x : ℝ) :
    normCdf loc scale x = cdf (gaussianReal loc (NNReal.mk (scale ^ 2) (sq_nonneg scale))) x := by
  have hmap : gaussianReal loc (NNReal.mk (scale ^ 2) (sq_nonneg scale)) =
      (gaussianReal 0 1).map (fun z => loc + scale * z) := by
    have : (fun z : ℝ => loc + scale * z) = (fun y => loc + y) ∘ fun z => scale * z := rfl
    rw [this, ← Measure.map_map (by fun_prop) (by fun_prop), gaussianReal_map_const_mul,
      gaussianReal_map_const_add]
    simp
  have hpre : (fun z : ℝ => loc + scale * z) ⁻¹' Iic x = Iic ((x - loc) / scale) := by
    ext z
    simp only [mem_preimage, mem_Iic, le_div_iff₀ hs]
    constructor <;> intro h <;> linarith
  rw [normCdf, stdPhi_apply, cdf_eq_real, cdf_eq_real, hmap, Measure.real, Measure.real,
    Measure.map_apply (by fun_prop) measurableSet_Iic, hpre]

/-- `ppf ∘ cdf = id` on all of ℝ … -/
theorem normPpf_normCdf (loc : ℝ) {scale : ℝ} (hs : 0 < scale) (x : ℝ) :
    normPpf loc scale (normCdf loc scale x) = x := by
  rw [normPpf, normCdf, stdPhiInv_stdPhi]
  field_simp
  ring

/-- … and `cdf ∘ ppf = id` on `(0,1)`: `normPpf` is THE inverse of the bijection `cdf : ℝ → (0,1)`. -/
theorem normCdf_normPpf (loc : ℝ) {scale : ℝ} (hs : 0 < scale) {q : ℝ} (h0 : 0 < q) (h1 : q < 1) :
    normCdf loc scale (normPpf loc scale q) = q := by
  have : (loc + scale * stdPhiInv q - loc) / scale = stdPhiInv q := by field_simp; ring
  rw [normPpf, normCdf, this, stdPhi_stdPhiInv h0 h1]

/-- symmetry of the standard normal law: `Φ(x) + Φ(−x) = 1` -/
theorem stdPhi_add_stdPhi_neg (x : ℝ) : stdPhi x + stdPhi (-x) = 1 := by
  have hd : ∀ t, HasDerivAt (fun t => stdPhi t + stdPhi (-t)) 0 t := by
    intro t
    have h := HasDerivAt.add (f := fun t => stdPhi t) (stdPhi_hasDerivAt t) (stdPhi_hasDerivAt_neg t)
    rw [add_neg_cancel] at h
    exact h
  have hconst : ∀ t, stdPhi t + stdPhi (-t) = stdPhi x + stdPhi (-x) := fun t =>
    is_const_of_deriv_eq_zero (fun t => (hd t).differentiableAt) (fun t => (hd t).deriv) t x
  have hlim : Tendsto (fun t => stdPhi t + stdPhi (-t)) atTop (𝓝 (1 + 0)) :=
    stdPhi_tendsto_atTop.add (stdPhi_tendsto_atBot.comp tendsto_neg_atTop_atBot)
  have hlim' : Tendsto (fun t => stdPhi t + stdPhi (-t)) atTop (𝓝 (stdPhi x + stdPhi (-x))) :=
    tendsto_const_nhds.congr fun t => (hconst t).symm
  have := tendsto_nhds_unique hlim' hlim
  linarith

theorem stdPhi_zero : stdPhi 0 = 1 / 2 := by
  have := stdPhi_add_stdPhi_neg 0
  rw [neg_zero] at this
  linarith

theorem stdPhiInv_half : stdPhiInv (1 / 2) = 0 := by
  rw [← stdPhi_zero, stdPhiInv_stdPhi]

/-- `np.std(X) > 0` on every sample with two distinct values -/
theorem popStd_pos_of_ne {xs : List ℝ} {a b : ℝ} (ha : a ∈ xs) (hb : b ∈ xs) (hab : a ≠ b) :
    0 < popStd xs := by
  unfold popStd
  simp only [sqrt_real, ofNat_real]
  apply Real.sqrt_pos.mpr
  set m := listMean xs
  have hlen : (0 : ℝ) < (xs.length : ℝ) := by
    exact_mod_cast List.length_pos_of_mem ha
  apply div_pos _ hlen
  rw [KDE.sumList_eq_sum]
  obtain ⟨c, hc, hcm⟩ : ∃ c ∈ xs, c ≠ m := by
    by_cases h : a = m
    · exact ⟨b, hb, fun hbm => hab (h.trans hbm.symm)⟩
    · exact ⟨a, ha, h⟩
  have hnn : ∀ y ∈ xs.map (fun x => (x - m) * (x - m)), 0 ≤ y := by
    intro y hy
    obtain ⟨x, _, rfl⟩ := List.mem_map.mp hy
    exact mul_self_nonneg _
  have hle := List.single_le_sum hnn _ (List.mem_map.mpr ⟨c, hc, rfl⟩)
  have : 0 < (c - m) * (c - m) := mul_self_pos.mpr (sub_ne_zero.mpr hcm)
  linarith

/-! ## `scipy.stats.loglaplace(c, loc, scale)` -/

/-- `loglaplace._pdf(y, c)`: `c/2·y^(c−1)` for `0 ≤ y < 1`, `c/2·y^(−c−1)` for `y ≥ 1`, `0` below the
support. -/
noncomputable def llPdf (c y : ℝ) : ℝ :=
  if y < 0 then 0 else if y < 1 then c / 2 * y ^ (c - 1) else c / 2 * y ^ (-c - 1)

/-- `loglaplace._cdf(y, c)`: `y^c/2` for `0 < y < 1`, `1 − y^(−c)/2` for `y ≥ 1`, `0` for `y ≤ 0`. -/
noncomputable def llCdf (c y : ℝ) : ℝ :=
  if y ≤ 0 then 0 else if y < 1 then y ^ c / 2 else 1 - y ^ (-c) / 2

/-- `loglaplace._ppf(q, c)`: `(2q)^(1/c)` for `q < 1/2`, `(2(1−q))^(−1/c)` otherwise. -/
noncomputable def llPpf (c q : ℝ) : ℝ :=
  if q < 1 / 2 then (2 * q) ^ (1 / c) else (2 * (1 - q)) ^ (-1 / c)

theorem llCdf_of_nonpos (c : ℝ) {y : ℝ} (hy : y ≤ 0) : llCdf c y = 0 := by simp [llCdf, hy]

theorem llCdf_of_lt_one (c : ℝ) {y : ℝ} (h0 : 0 < y) (h1 : y < 1) : llCdf c y = y ^ c / 2 := by
  simp [llCdf, not_le.mpr h0, h1]

theorem llCdf_of_one_le (c : ℝ) {y : ℝ} (h1 : 1 ≤ y) : llCdf c y = 1 - y ^ (-c) / 2 := by
  simp [llCdf, not_le.mpr (lt_of_lt_of_le one_pos h1), not_lt.mpr h1]

/-- the CDF without case distinction -/
theorem llCdf_eq {c : ℝ} (hc : 0 < c) (y : ℝ) :
    llCdf c y = (min (max y 0) 1) ^ c / 2 + (1 - (max y 1) ^ (-c)) / 2 := by
  rcases le_or_gt y 0 with h0 | h0
  · rw [llCdf_of_nonpos c h0, max_eq_right h0, min_eq_left zero_le_one,
      max_eq_right (h0.trans zero_le_one), Real.zero_rpow hc.ne', Real.one_rpow]
    ring
  · rcases lt_or_ge y 1 with h1 | h1
    · rw [llCdf_of_lt_one c h0 h1, max_eq_left h0.le, min_eq_left h1.le, max_eq_right h1.le,
        Real.one_rpow]
      ring
    · rw [llCdf_of_one_le c h1, max_eq_left h0.le, min_eq_right h1, max_eq_left h1, Real.one_rpow]
      ring

theorem llCdf_mono {c : ℝ} (hc : 0 < c) : Monotone (llCdf c) := by
  intro x y hxy
  rw [llCdf_eq hc, llCdf_eq hc]
  have h1 : (min (max x 0) 1) ^ c ≤ (min (max y 0) 1) ^ c :=
    Real.rpow_le_rpow (le_min (le_max_right _ _) zero_le_one)
      (min_le_min (max_le_max hxy le_rfl) le_rfl) hc.le
  have h2 : (max y 1) ^ (-c) ≤ (max x 1) ^ (-c) :=
    Real.rpow_le_rpow_of_nonpos (lt_of_lt_of_le one_pos (le_max_right _ _)) (max_le_max hxy le_rfl)
      (by linarith)
  linarith

theorem llCdf_continuous {c : ℝ} (hc : 0 < c) : Continuous (llCdf c) := by
  have e : llCdf c = fun y => (min (max y 0) 1) ^ c / 2 + (1 - (max y 1) ^ (-c)) / 2 :=
    funext (llCdf_eq hc)
  rw [e]
  have h1 : Continuous fun y : ℝ => (min (max y 0) 1) ^ c :=
    ((continuous_id.max continuous_const).min continuous_const).rpow_const fun _ => Or.inr hc.le
  have h2 : Continuous fun y : ℝ => (max y 1) ^ (-c) :=
    (continuous_id.max continuous_const).rpow_const fun y =>
      Or.inl (lt_of_lt_of_le one_pos (le_max_right y 1)).ne'
  exact (h1.div_const 2).add ((continuous_const.sub h2).div_const 2)

theorem llCdf_nonneg {c : ℝ} (hc : 0 < c) (y : ℝ) : 0 ≤ llCdf c y := by
  have := llCdf_mono hc (min_le_left y 0)
  rwa [llCdf_of_nonpos c (min_le_right y 0)] at this

theorem llCdf_lt_one {c : ℝ} (hc : 0 < c) (y : ℝ) : llCdf c y < 1 := by
  have h := llCdf_mono hc (le_max_left y 1)
  rw [llCdf_of_one_le c (le_max_right y 1)] at h
  have : 0 < (max y 1) ^ (-c) := Real.rpow_pos_of_pos (lt_of_lt_of_le one_pos (le_max_right y 1)) _
  linarith

theorem llCdf_lt_half {c : ℝ} (hc : 0 < c) {y : ℝ} (h1 : y < 1) : llCdf c y < 1 / 2 := by
  rcases le_or_gt y 0 with h0 | h0
  · rw [llCdf_of_nonpos c h0]; norm_num
  · rw [llCdf_of_lt_one c h0 h1]
    have := Real.rpow_lt_one h0.le h1 hc
    linarith

theorem llCdf_ge_half {c : ℝ} (hc : 0 < c) {y : ℝ} (h1 : 1 ≤ y) : 1 / 2 ≤ llCdf c y := by
  rw [llCdf_of_one_le c h1]
  have := Real.rpow_le_one_of_one_le_of_nonpos h1 (by linarith : -c ≤ 0)
  linarith

theorem llCdf_tendsto_atTop {c : ℝ} (hc : 0 < c) : Tendsto (llCdf c) atTop (𝓝 1) := by
  have h : Tendsto (fun y : ℝ => 1 - y ^ (-c) / 2) atTop (𝓝 (1 - 0 / 2)) :=
    tendsto_const_nhds.sub ((tendsto_rpow_neg_atTop hc).div_const 2)
  rw [zero_div, sub_zero] at h
  refine h.congr' ?_
  filter_upwards [eventually_ge_atTop (1 : ℝ)] with y hy
  exact (llCdf_of_one_le c hy).symm

theorem llCdf_hasDerivAt {c : ℝ} (y : ℝ) (hy : y ∉ ({0, 1} : Set ℝ)) :
    HasDerivAt (llCdf c) (llPdf c y) y := by
  simp only [Set.mem_insert_iff, Set.mem_singleton_iff, not_or] at hy
  rcases lt_or_gt_of_ne hy.1 with h0 | h0
  · have hp : llPdf c y = 0 := by simp [llPdf, h0]
    rw [hp]
    apply (hasDerivAt_const y (0 : ℝ)).congr_of_eventuallyEq
    filter_upwards [Iio_mem_nhds h0] with z hz
    exact llCdf_of_nonpos c (le_of_lt hz)
  · rcases lt_or_gt_of_ne hy.2 with h1 | h1
    · have hp : llPdf c y = c / 2 * y ^ (c - 1) := by simp [llPdf, not_lt.mpr h0.le, h1]
      rw [hp]
      have hd : HasDerivAt (fun z : ℝ => z ^ c / 2) (c * y ^ (c - 1) / 2) y :=
        (Real.hasDerivAt_rpow_const (Or.inl h0.ne')).div_const 2
      have hd' : HasDerivAt (fun z : ℝ => z ^ c / 2) (c / 2 * y ^ (c - 1)) y :=
        hd.congr_deriv (by ring)
      apply hd'.congr_of_eventuallyEq
      filter_upwards [Ioo_mem_nhds h0 h1] with z hz
      exact llCdf_of_lt_one c hz.1 hz.2
    · have hp : llPdf c y = c / 2 * y ^ (-c - 1) := by
        simp [llPdf, not_lt.mpr h0.le, not_lt.mpr h1.le]
      rw [hp]
      have hd : HasDerivAt (fun z : ℝ => 1 - z ^ (-c) / 2) (0 - (-c) * y ^ (-c - 1) / 2) y :=
        (hasDerivAt_const y (1 : ℝ)).sub
          ((Real.hasDerivAt_rpow_const (Or.inl h0.ne')).div_const 2)
      have hd' : HasDerivAt (fun z : ℝ => 1 - z ^ (-c) / 2) (c / 2 * y ^ (-c - 1)) y :=
        hd.congr_deriv (by ring)
      apply hd'.congr_of_eventuallyEq
      filter_upwards [Ioi_mem_nhds h1] with z hz
      exact llCdf_of_one_le c (le_of_lt hz)

theorem llPdf_nonneg {c : ℝ} (hc : 0 < c) (y : ℝ) : 0 ≤ llPdf c y := by
  unfold llPdf
  split_ifs with h0 h1
  · exact le_rfl
  · exact mul_nonneg (by linarith) (Real.rpow_nonneg (not_lt.mp h0) _)
  · exact mul_nonneg (by linarith) (Real.rpow_nonneg (not_lt.mp h0) _)

theorem llPpf_gc {c : ℝ} (hc : 0 < c) (q x : ℝ) (h0 : 0 < q) (h1 : q < 1) :
    llPpf c q ≤ x ↔ q ≤ llCdf c x := by
  have hci : 0 < c⁻¹ := inv_pos.mpr hc
  rcases lt_or_ge q (1 / 2) with hq | hq
  · -- lower half: the quantile is `(2q)^(1/c) ∈ (0,1)`
    have hp : llPpf c q = (2 * q) ^ c⁻¹ := by rw [llPpf, if_pos hq, one_div]
    have hp0 : 0 < (2 * q) ^ c⁻¹ := Real.rpow_pos_of_pos (by linarith) _
    have hp1 : (2 * q) ^ c⁻¹ < 1 := Real.rpow_lt_one (by linarith) (by linarith) hci
    rw [hp]
    rcases le_or_gt x 0 with hx0 | hx0
    · rw [llCdf_of_nonpos c hx0]
      constructor <;> intro h <;> linarith
    · rcases lt_or_ge x 1 with hx1 | hx1
      · rw [llCdf_of_lt_one c hx0 hx1, Real.rpow_inv_le_iff_of_pos (by linarith) hx0.le hc]
        constructor <;> intro h <;> linarith
      · have := llCdf_ge_half hc hx1
        constructor <;> intro _ <;> linarith
  · -- upper half: the quantile is `(2(1−q))^(−1/c) ≥ 1`
    have hr0 : 0 < 2 * (1 - q) := by linarith
    have hr1 : 2 * (1 - q) ≤ 1 := by linarith
    have hp : llPpf c q = ((2 * (1 - q)) ^ c⁻¹)⁻¹ := by
      have : -1 / c = -c⁻¹ := by rw [neg_div, one_div]
      rw [llPpf, if_neg (not_lt.mpr hq), this, Real.rpow_neg hr0.le]
    have hb0 : 0 < (2 * (1 - q)) ^ c⁻¹ := Real.rpow_pos_of_pos hr0 _
    have hb1 : (2 * (1 - q)) ^ c⁻¹ ≤ 1 := Real.rpow_le_one hr0.le hr1 hci.le
    have hp1 : 1 ≤ ((2 * (1 - q)) ^ c⁻¹)⁻¹ := (one_le_inv₀ hb0).mpr hb1
    rw [hp]
    rcases lt_or_ge x 1 with hx1 | hx1
    · have := llCdf_lt_half hc hx1
      constructor <;> intro _ <;> linarith
    · have hx0 : 0 < x := lt_of_lt_of_le one_pos hx1
      rw [llCdf_of_one_le c hx1, inv_le_comm₀ hb0 hx0,
        Real.le_rpow_inv_iff_of_pos (inv_nonneg.mpr hx0.le) hr0.le hc, Real.inv_rpow hx0.le,
        ← Real.rpow_neg hx0.le]
      constructor <;> intro h <;> linarith

/-- the standard log-Laplace law with shape `c > 0` -/
theorem loglaplace_std_coherent {c : ℝ} (hc : 0 < c) :
    FamilyCoherent (llPdf c) (llCdf c) (llPpf c) (fun y => Real.log (llPdf c y)) {0, 1} := by
  have hS : ({0, 1} : Set ℝ).Countable := (Set.countable_singleton 1).insert 0
  exact
  { cdf_mono := llCdf_mono hc
    cdf_nonneg := llCdf_nonneg hc
    cdf_le_one := fun y => (llCdf_lt_one hc y).le
    cdf_atBot := by
      apply tendsto_const_nhds.congr'
      filter_upwards [eventually_le_atBot (0 : ℝ)] with y hy
      exact (llCdf_of_nonpos c hy).symm
    cdf_atTop := llCdf_tendsto_atTop hc
    cdf_cont := llCdf_continuous hc
    pdf_nonneg := llPdf_nonneg hc
    S_countable := hS
    cdf_deriv := llCdf_hasDerivAt
    pdf_integrable := pdf_intervalIntegrable_of_monotone (llCdf_mono hc) hS llCdf_hasDerivAt
    ppf_gc := llPpf_gc hc
    logpdf_eq := fun _ _ => rfl }

/-- `loglaplace.pdf(x, c, loc, scale) = _pdf(y, c)/scale`, `y = (x − loc)/scale`.  (At the single
point `x = loc` scipy evaluates `0^(c−1)`, which is `+∞` for `c < 1`; here it is Lean's
`0^(c−1) = 0`: the point is a kink of the CDF, and no law reads the density there.) -/
noncomputable def loglaplacePdf (c loc scale x : ℝ) : ℝ := llPdf c ((x - loc) / scale) / scale

/-- `loglaplace.cdf(x, c, loc, scale) = _cdf(y, c)` -/
noncomputable def loglaplaceCdf (c loc scale x : ℝ) : ℝ := llCdf c ((x - loc) / scale)

/-- `loglaplace.ppf(q, c, loc, scale) = loc + scale·_ppf(q, c)` -/
noncomputable def loglaplacePpf (c loc scale q : ℝ) : ℝ := loc + scale * llPpf c q

/-- `loglaplace.logpdf(x, c, loc, scale) = log(_pdf(y, c)) − log scale` (scipy's generic `_logpdf`) -/
noncomputable def loglaplaceLogpdf (c loc scale x : ℝ) : ℝ :=
  Real.log (llPdf c ((x - loc) / scale)) - Real.log scale

/-- **`scipy.stats.loglaplace(c, loc, scale)` is a coherent family for every `c > 0`, `loc`,
`scale > 0`** (possible kinks of the CDF at `loc` and at `loc + scale`, i.e. `y = 0` and `y = 1`). -/
theorem loglaplace_coherent {c : ℝ} (hc : 0 < c) (loc : ℝ) {scale : ℝ} (hs : 0 < scale) :
    FamilyCoherent (loglaplacePdf c loc scale) (loglaplaceCdf c loc scale)
      (loglaplacePpf c loc scale) (loglaplaceLogpdf c loc scale) {loc, loc + scale} :=
  ((loglaplace_std_coherent hc).locScale loc hs).congr (fun _ => rfl) (fun _ => rfl)
    (fun _ _ _ => rfl) (fun _ _ => rfl) (by simp [Set.image_pair])

/-! ## `scipy.stats.truncnorm(a, b, loc, scale)` -/

/-- `truncnorm._pdf(y, a, b) = φ(y)/(Φ(b) − Φ(a))` on `[a, b]`, `0` outside. -/
noncomputable def tnPdf (a b y : ℝ) : ℝ :=
  if a ≤ y ∧ y ≤ b then stdPdf y / (stdPhi b - stdPhi a) else 0

/-- `truncnorm._cdf(y, a, b) = (Φ(y) − Φ(a))/(Φ(b) − Φ(a))` on `[a, b]`, `0` below, `1` above. -/
noncomputable def tnCdf (a b y : ℝ) : ℝ :=
  max 0 (min 1 ((stdPhi y - stdPhi a) / (stdPhi b - stdPhi a)))

/-- `truncnorm._ppf(q, a, b) = Φ⁻¹(Φ(a) + q·(Φ(b) − Φ(a)))` -/
noncomputable def tnPpf (a b q : ℝ) : ℝ := stdPhiInv (stdPhi a + q * (stdPhi b - stdPhi a))

/-- `truncnorm._logpdf(y, a, b) = −y²/2 − log √(2π) − log(Φ(b) − Φ(a))` -/
noncomputable def tnLogpdf (a b y : ℝ) : ℝ :=
  -y ^ 2 / 2 - Real.log (Real.sqrt (2 * Real.pi)) - Real.log (stdPhi b - stdPhi a)

/-- the standard normal law truncated to `[a, b]`, `a < b` -/
theorem truncnorm_std_coherent {a b : ℝ} (hab : a < b) :
    FamilyCoherent (tnPdf a b) (tnCdf a b) (tnPpf a b) (tnLogpdf a b) {a, b} := by
  have hD : 0 < stdPhi b - stdPhi a := sub_pos.mpr (stdPhi_strictMono hab)
  exact (norm_std_coherent.truncate hD).congr (fun _ => rfl) (fun _ => rfl) (fun _ _ _ => rfl)
    (fun _ _ => rfl) (by simp)

/-- `truncnorm.pdf(x, a, b, loc, scale)`: `a, b` are in STANDARDISED units, the support in `x` is
`[loc + a·scale, loc + b·scale]` (`TruncatedGaussian._fit` passes `a = (min − loc)/scale`,
`b = (max − loc)/scale`, so the support is `[min, max]`). -/
noncomputable def truncnormPdf (a b loc scale x : ℝ) : ℝ := tnPdf a b ((x - loc) / scale) / scale

/-- `truncnorm.cdf(x, a, b, loc, scale) = _cdf(y, a, b)` -/
noncomputable def truncnormCdf (a b loc scale x : ℝ) : ℝ := tnCdf a b ((x - loc) / scale)

/-- `truncnorm.ppf(q, a, b, loc, scale) = loc + scale·_ppf(q, a, b)` -/
noncomputable def truncnormPpf (a b loc scale q : ℝ) : ℝ := loc + scale * tnPpf a b q

/-- `truncnorm.logpdf(x, a, b, loc, scale) = _logpdf(y, a, b) − log scale` -/
noncomputable def truncnormLogpdf (a b loc scale x : ℝ) : ℝ :=
  tnLogpdf a b ((x - loc) / scale) - Real.log scale

/-- **`scipy.stats.truncnorm(a, b, loc, scale)` is a coherent family for every `a < b`, `loc`,
`scale > 0`** (kinks of the CDF at the two end points `loc + a·scale`, `loc + b·scale`). -/
theorem truncnorm_coherent {a b : ℝ} (hab : a < b) (loc : ℝ) {scale : ℝ} (hs : 0 < scale) :
    FamilyCoherent (truncnormPdf a b loc scale) (truncnormCdf a b loc scale)
      (truncnormPpf a b loc scale) (truncnormLogpdf a b loc scale)
      {loc + scale * a, loc + scale * b} :=
  ((truncnorm_std_coherent hab).locScale loc hs).congr (fun _ => rfl) (fun _ => rfl)
    (fun _ _ _ => rfl) (fun _ _ => rfl) (by simp [Set.image_pair])

end CopVerif.Families
