import Mathlib.Analysis.SpecialFunctions.Pow.Deriv
import Mathlib.Analysis.SpecialFunctions.Pow.Asymptotics
import CopVerif.Real.Clayton
/-! Clayton copula over ℝ: conditional CDF `h = ∂C/∂v`, density `c = ∂²C/∂u∂v`, conditional
inverse `ppf`; bridges to the generated definitions; C07 / C08 facts. -/
namespace CopVerif.Clayton
open CopVerif NumFns Real

/-- Conditional CDF `∂C/∂v` as computed by Python's `partial_derivative`. -/
noncomputable def h (θ u v : ℝ) : ℝ :=
  v ^ (-θ - 1) * (v ^ (-θ) + u ^ (-θ) - 1) ^ ((-1 - θ) / θ)

/-- Clayton density. -/
noncomputable def c (θ u v : ℝ) : ℝ :=
  (θ + 1) * (u * v) ^ (-(θ + 1)) * (u ^ (-θ) + v ^ (-θ) - 1) ^ (-(2 * θ + 1) / θ)

/-- Conditional inverse (`percent_point`): solves `h θ u v = y` for `u`. -/
noncomputable def ppf (θ y v : ℝ) : ℝ :=
  ((y ^ (θ / (-1 - θ)) + v ^ θ - 1) / v ^ θ) ^ (-1 / θ)

/-! ### bridges: generated definition = spec -/

theorem bridge_hRow (θ u v : ℝ) : Gen.Clayton.hRow θ u v = h θ u v := by
  bridge [Gen.Clayton.hRow, h]

theorem bridge_pdfRow (θ u v : ℝ) : Gen.Clayton.pdfRow θ u v = c θ u v := by
  bridge [Gen.Clayton.pdfRow, c]

theorem bridge_ppfRow (θ y v : ℝ) : Gen.Clayton.ppfRow θ y v = ppf θ y v := by
  bridge [Gen.Clayton.ppfRow, ppf]

/-! ### C07: derivatives -/

/-- The sum `S = u^(-θ) + v^(-θ) - 1` is positive as soon as one argument is in `(0,1]` and the
other is positive. -/
theorem S_pos_of_le_one_right {θ u v : ℝ} (hθ : 0 < θ) (hu : 0 < u) (hv : 0 < v) (hv1 : v ≤ 1) :
    0 < u ^ (-θ) + v ^ (-θ) - 1 := by
  have h1 : 0 < u ^ (-θ) := Real.rpow_pos_of_pos hu _
  have h2 : 1 ≤ v ^ (-θ) := Real.one_le_rpow_of_pos_of_le_one_of_nonpos hv hv1 (by linarith)
  linarith

/-- `∂C/∂v = h`, general form: any point of the open quadrant where the inner sum is positive. -/
theorem hasDerivAt_C_right_of_pos {θ u v : ℝ} (hθ : 0 < θ) (hu : 0 < u) (hv : 0 < v)
    (hS : 0 < u ^ (-θ) + v ^ (-θ) - 1) :
    HasDerivAt (fun v => C θ u v) (h θ u v) v := by
  have h1 : HasDerivAt (fun v : ℝ => u ^ (-θ) + v ^ (-θ) - 1) (-θ * v ^ (-θ - 1)) v :=
    ((Real.hasDerivAt_rpow_const (Or.inl hv.ne')).const_add _).sub_const 1
  have h2 := h1.rpow_const (p := -1 / θ) (Or.inl hS.ne')
  have h3 : HasDerivAt (fun v : ℝ => (u ^ (-θ) + v ^ (-θ) - 1) ^ (-1 / θ)) (h θ u v) v := by
    convert h2 using 1
    have e : (-1 - θ) / θ = -1 / θ - 1 := by field_simp
    simp only [h, e, add_comm (v ^ (-θ))]
    field_simp
  refine h3.congr_of_eventuallyEq ?_
  filter_upwards [lt_mem_nhds hv] with w hw
  simp [C, hu, hw]

/-- `∂C/∂v = h` on `(0,1]²` (in particular on `(0,1)²`). -/
theorem hasDerivAt_C_right {θ u v : ℝ} (hθ : 0 < θ) (hu : 0 < u) (hu1 : u ≤ 1) (hv : 0 < v)
    (hv1 : v ≤ 1) : HasDerivAt (fun v => C θ u v) (h θ u v) v :=
  hasDerivAt_C_right_of_pos hθ hu hv (by linarith [S_ge_one hθ hu hu1 hv hv1])

/-- Non-vacuity: an interior point, and a point outside the unit square where the general form
still applies (`θ = 1`, `u = 2`, `v = 1/2`: `S = 3/2`). -/
example : HasDerivAt (fun v => C 1 (1 / 2) v) (h 1 (1 / 2) (1 / 2)) (1 / 2) :=
  hasDerivAt_C_right (by norm_num) (by norm_num) (by norm_num) (by norm_num) (by norm_num)

example : HasDerivAt (fun v => C 1 2 v) (h 1 2 (1 / 2)) (1 / 2) :=
  hasDerivAt_C_right_of_pos (by norm_num) (by norm_num) (by norm_num)
    (by norm_num [Real.rpow_neg_one])

/-- `∂h/∂u = c`, general form. -/
theorem hasDerivAt_h_left_of_pos {θ u v : ℝ} (hθ : 0 < θ) (hu : 0 < u) (hv : 0 < v)
    (hS : 0 < u ^ (-θ) + v ^ (-θ) - 1) :
    HasDerivAt (fun u => h θ u v) (c θ u v) u := by
  have hS' : 0 < v ^ (-θ) + u ^ (-θ) - 1 := by linarith
  have h1 : HasDerivAt (fun u : ℝ => v ^ (-θ) + u ^ (-θ) - 1) (-θ * u ^ (-θ - 1)) u :=
    ((Real.hasDerivAt_rpow_const (Or.inl hu.ne')).const_add _).sub_const 1
  have h2 := (h1.rpow_const (p := (-1 - θ) / θ) (Or.inl hS'.ne')).const_mul (v ^ (-θ - 1))
  have key : c θ u v = v ^ (-θ - 1) * (-θ * u ^ (-θ - 1) * ((-1 - θ) / θ)
      * (v ^ (-θ) + u ^ (-θ) - 1) ^ ((-1 - θ) / θ - 1)) := by
    have e1 : -(2 * θ + 1) / θ = (-1 - θ) / θ - 1 := by field_simp; ring
    have e2 : -(θ + 1) = -θ - 1 := by ring
    simp only [c, e1, e2, Real.mul_rpow hu.le hv.le, add_comm (u ^ (-θ))]
    field_simp
    ring
  rw [key]
  exact h2

/-- `∂h/∂u = c` on `(0,1]²`. -/
theorem hasDerivAt_h_left {θ u v : ℝ} (hθ : 0 < θ) (hu : 0 < u) (hu1 : u ≤ 1) (hv : 0 < v)
    (hv1 : v ≤ 1) : HasDerivAt (fun u => h θ u v) (c θ u v) u :=
  hasDerivAt_h_left_of_pos hθ hu hv (by linarith [S_ge_one hθ hu hu1 hv hv1])

/-! ### C07: density -/

theorem c_pos_of_pos {θ u v : ℝ} (hθ : 0 < θ) (hu : 0 < u) (hv : 0 < v)
    (hS : 0 < u ^ (-θ) + v ^ (-θ) - 1) : 0 < c θ u v := by
  have h1 : 0 < (u * v) ^ (-(θ + 1)) := Real.rpow_pos_of_pos (mul_pos hu hv) _
  have h2 : 0 < (u ^ (-θ) + v ^ (-θ) - 1) ^ (-(2 * θ + 1) / θ) := Real.rpow_pos_of_pos hS _
  unfold c
  positivity

theorem c_pos {θ u v : ℝ} (hθ : 0 < θ) (hu : 0 < u) (hu1 : u ≤ 1) (hv : 0 < v) (hv1 : v ≤ 1) :
    0 < c θ u v :=
  c_pos_of_pos hθ hu hv (by linarith [S_ge_one hθ hu hu1 hv hv1])

theorem c_symm (θ u v : ℝ) : c θ u v = c θ v u := by
  simp only [c, mul_comm u v, add_comm (u ^ (-θ))]

/-! ### C07: conditional CDF -/

/-- `(v^(-θ))^((-1-θ)/θ) = v^(θ+1)`. -/
theorem rpow_negθ_rpow {θ v : ℝ} (hθ : 0 < θ) (hv : 0 < v) :
    (v ^ (-θ)) ^ ((-1 - θ) / θ) = v ^ (θ + 1) := by
  rw [← Real.rpow_mul hv.le]
  congr 1
  field_simp
  ring

theorem h_pos_of_pos {θ u v : ℝ} (hv : 0 < v) (hS : 0 < v ^ (-θ) + u ^ (-θ) - 1) :
    0 < h θ u v :=
  mul_pos (Real.rpow_pos_of_pos hv _) (Real.rpow_pos_of_pos hS _)

/-- `h θ 1 v = 1` for every `v > 0`. -/
theorem h_one_left {θ v : ℝ} (hθ : 0 < θ) (hv : 0 < v) : h θ 1 v = 1 := by
  have : v ^ (-θ) + (1 : ℝ) ^ (-θ) - 1 = v ^ (-θ) := by simp
  rw [h, this, rpow_negθ_rpow hθ hv, ← Real.rpow_add hv]
  have : -θ - 1 + (θ + 1) = 0 := by ring
  rw [this, Real.rpow_zero]

/-- `h` is strictly increasing in `u` wherever the inner sum stays positive. -/
theorem h_lt_h {θ u u' v : ℝ} (hθ : 0 < θ) (hu : 0 < u) (huu : u < u') (hv : 0 < v)
    (hS : 0 < v ^ (-θ) + u' ^ (-θ) - 1) : h θ u v < h θ u' v := by
  have h1 : u' ^ (-θ) < u ^ (-θ) := Real.rpow_lt_rpow_of_neg hu huu (by linarith)
  have hp : (-1 - θ) / θ < 0 := div_neg_of_neg_of_pos (by linarith) hθ
  have h2 : (v ^ (-θ) + u ^ (-θ) - 1) ^ ((-1 - θ) / θ)
      < (v ^ (-θ) + u' ^ (-θ) - 1) ^ ((-1 - θ) / θ) :=
    Real.rpow_lt_rpow_of_neg hS (by linarith) hp
  exact mul_lt_mul_of_pos_left h2 (Real.rpow_pos_of_pos hv _)

/-- `h(·, v)` is strictly increasing on `(0,1]` for every `v > 0`: the conditional inverse is
unique. -/
theorem h_strictMonoOn {θ v : ℝ} (hθ : 0 < θ) (hv : 0 < v) :
    StrictMonoOn (fun u => h θ u v) (Set.Ioc 0 1) := by
  intro a ha b hb hab
  apply h_lt_h hθ ha.1 hab hv
  have h1 : 1 ≤ b ^ (-θ) :=
    Real.one_le_rpow_of_pos_of_le_one_of_nonpos (lt_trans ha.1 hab) hb.2 (by linarith)
  have h2 : 0 < v ^ (-θ) := Real.rpow_pos_of_pos hv _
  linarith

/-- `h(·, v)` is strictly increasing on all of `(0,∞)` when `v ∈ (0,1]`. -/
theorem h_strictMonoOn_Ioi {θ v : ℝ} (hθ : 0 < θ) (hv : 0 < v) (hv1 : v ≤ 1) :
    StrictMonoOn (fun u => h θ u v) (Set.Ioi 0) := by
  intro a ha b hb hab
  apply h_lt_h hθ ha hab hv
  have := S_pos_of_le_one_right hθ hb hv hv1
  linarith

theorem h_mono {θ u u' v : ℝ} (hθ : 0 < θ) (hu : 0 < u) (huu : u ≤ u') (hu1 : u' ≤ 1)
    (hv : 0 < v) : h θ u v ≤ h θ u' v :=
  (h_strictMonoOn hθ hv).monotoneOn ⟨hu, le_trans huu hu1⟩ ⟨lt_of_lt_of_le hu huu, hu1⟩ huu

/-- `0 < h ≤ 1` for `u ∈ (0,1]`, `v > 0` (in particular on `(0,1]²`). -/
theorem h_mem_Ioc {θ u v : ℝ} (hθ : 0 < θ) (hu : 0 < u) (hu1 : u ≤ 1) (hv : 0 < v) :
    0 < h θ u v ∧ h θ u v ≤ 1 := by
  have h1 : 1 ≤ u ^ (-θ) := Real.one_le_rpow_of_pos_of_le_one_of_nonpos hu hu1 (by linarith)
  have h2 : 0 < v ^ (-θ) := Real.rpow_pos_of_pos hv _
  refine ⟨h_pos_of_pos hv (by linarith), ?_⟩
  calc h θ u v ≤ h θ 1 v := h_mono hθ hu hu1 le_rfl hv
    _ = 1 := h_one_left hθ hv

/-- `0 ≤ h ≤ 1` on `(0,1]²` (the upper bound on `v` is not needed). -/
theorem h_bounds {θ u v : ℝ} (hθ : 0 < θ) (hu : 0 < u) (hu1 : u ≤ 1) (hv : 0 < v) :
    0 ≤ h θ u v ∧ h θ u v ≤ 1 :=
  ⟨(h_mem_Ioc hθ hu hu1 hv).1.le, (h_mem_Ioc hθ hu hu1 hv).2⟩

/-- `h θ u v → 0` as `u → 0⁺` (the proof does not use `0 < v`; the hypothesis is kept so that the
statement only speaks about the mathematical domain). -/
theorem h_tendsto_zero {θ v : ℝ} (hθ : 0 < θ) (_hv : 0 < v) :
    Filter.Tendsto (fun u => h θ u v) (nhdsWithin 0 (Set.Ioi 0)) (nhds 0) := by
  have h1 : Filter.Tendsto (fun u : ℝ => u ^ (-θ)) (nhdsWithin 0 (Set.Ioi 0)) Filter.atTop :=
    tendsto_rpow_neg_nhdsGT_zero (by linarith)
  have h2 : Filter.Tendsto (fun u : ℝ => v ^ (-θ) + u ^ (-θ) - 1) (nhdsWithin 0 (Set.Ioi 0))
      Filter.atTop := by
    have := Filter.tendsto_atTop_add_const_right _ (v ^ (-θ) - 1) h1
    refine this.congr (fun u => ?_)
    ring
  have hp : 0 < (1 + θ) / θ := by positivity
  have h3 := (tendsto_rpow_neg_atTop hp).comp h2
  have h4 := h3.const_mul (v ^ (-θ - 1))
  rw [mul_zero] at h4
  refine h4.congr (fun u => ?_)
  have : (-1 - θ) / θ = -((1 + θ) / θ) := by ring
  simp [h, this]

/-! ### C07: row independence of the generated batch methods -/

/-- `probability_density` is the row-wise map of the spec density, for every batch. -/
theorem pdf_rowwise {θ : ℝ} (hθ : 0 < θ) (xs : List (ℝ × ℝ)) :
    Gen.Clayton.pdf θ xs = .ok (xs.map fun p => c θ p.1 p.2) := by
  unfold Gen.Clayton.pdf
  rw [checkFit_ok hθ]
  simp only
  congr 1
  apply List.map_congr_left
  intro p _
  exact bridge_pdfRow θ p.1 p.2

/-- Over ℝ the `(A == inf).any()` guard of `partial_derivative` is dead. -/
theorem h_guard_dead (θ : ℝ) (xs : List (ℝ × ℝ)) :
    (xs.any fun p => decide (NumFns.isPosInf (NumFns.pow p.2 ((-θ) - (NumFns.ofNat 1))) = true))
      = false := by
  simp

/-- `partial_derivative` is the row-wise map of the spec conditional CDF, for every batch. -/
theorem h_rowwise {θ : ℝ} (hθ : 0 < θ) (xs : List (ℝ × ℝ)) :
    Gen.Clayton.h θ xs = .ok (xs.map fun p => h θ p.1 p.2) := by
  unfold Gen.Clayton.h
  rw [checkFit_ok hθ]
  simp only
  rw [if_neg (by simp)]
  congr 1
  apply List.map_congr_left
  intro p _
  exact bridge_hRow θ p.1 p.2

/-- The quantity tested by the overflow guard stays far below the binary64 maximum (≈ 1.8e308)
on the property's domain `θ ∈ (0,8]`, `v ∈ [1e-4, 1]` (the upper bound `v ≤ 1` is not needed for
the estimate; it is kept because it is part of the property's domain). -/
theorem no_overflow {θ v : ℝ} (hθ : 0 < θ) (hθ8 : θ ≤ 8) (hv : 1 / 10000 ≤ v) (_hv1 : v ≤ 1) :
    v ^ (-θ - 1) ≤ 10 ^ 36 := by
  have hv0 : (0 : ℝ) < 1 / 10000 := by norm_num
  calc v ^ (-θ - 1) ≤ (1 / 10000 : ℝ) ^ (-θ - 1) :=
        Real.rpow_le_rpow_of_nonpos hv0 hv (by linarith)
    _ = (10000 : ℝ) ^ (θ + 1) := by
        rw [one_div, Real.inv_rpow (by norm_num), ← Real.rpow_neg (by norm_num)]
        congr 1
        ring
    _ ≤ (10000 : ℝ) ^ ((9 : ℕ) : ℝ) :=
        Real.rpow_le_rpow_of_exponent_le (by norm_num) (by push_cast; linarith)
    _ = 10 ^ 36 := by
        rw [Real.rpow_natCast]
        norm_num

example : (1 / 10000 : ℝ) ^ (-(8 : ℝ) - 1) ≤ 10 ^ 36 :=
  no_overflow (by norm_num) le_rfl le_rfl (by norm_num)

/-! ### C08: conditional inverse -/

theorem ppf_a_ge_one {θ y : ℝ} (hθ : 0 < θ) (hy : 0 < y) (hy1 : y ≤ 1) :
    1 ≤ y ^ (θ / (-1 - θ)) :=
  Real.one_le_rpow_of_pos_of_le_one_of_nonpos hy hy1
    (div_neg_of_pos_of_neg hθ (by linarith)).le

/-- The base of the outer power in `ppf` is at least one. -/
theorem ppf_base_ge_one {θ y v : ℝ} (hθ : 0 < θ) (hy : 0 < y) (hy1 : y ≤ 1) (hv : 0 < v) :
    1 ≤ (y ^ (θ / (-1 - θ)) + v ^ θ - 1) / v ^ θ := by
  have ha := ppf_a_ge_one hθ hy hy1
  have hb : 0 < v ^ θ := Real.rpow_pos_of_pos hv _
  rw [le_div_iff₀ hb]
  linarith

/-- `ppf θ y v ∈ (0,1]` for `y ∈ (0,1]`, `v > 0`. -/
theorem ppf_mem_Ioc {θ y v : ℝ} (hθ : 0 < θ) (hy : 0 < y) (hy1 : y ≤ 1) (hv : 0 < v) :
    0 < ppf θ y v ∧ ppf θ y v ≤ 1 := by
  have hR := ppf_base_ge_one hθ hy hy1 hv
  refine ⟨Real.rpow_pos_of_pos (by linarith) _, ?_⟩
  exact Real.rpow_le_one_of_one_le_of_nonpos hR (div_neg_of_neg_of_pos (by norm_num) hθ).le

/-- `ppf` inverts `h` in its first argument: `h θ (ppf θ y v) v = y` for `y ∈ (0,1]`, `v > 0`. -/
theorem h_ppf {θ y v : ℝ} (hθ : 0 < θ) (hy : 0 < y) (hy1 : y ≤ 1) (hv : 0 < v) :
    h θ (ppf θ y v) v = y := by
  have ha := ppf_a_ge_one hθ hy hy1
  have hb : 0 < v ^ θ := Real.rpow_pos_of_pos hv _
  have hR := ppf_base_ge_one hθ hy hy1 hv
  have hvθ : v ^ (-θ) = (v ^ θ)⁻¹ := Real.rpow_neg hv.le θ
  -- `ppf ^ (-θ)` is the base
  have e1 : (ppf θ y v) ^ (-θ) = (y ^ (θ / (-1 - θ)) + v ^ θ - 1) / v ^ θ := by
    unfold ppf
    rw [← Real.rpow_mul (by linarith)]
    have : -1 / θ * -θ = 1 := by field_simp
    rw [this, Real.rpow_one]
  -- the inner sum collapses to `a * v^(-θ)`
  have e2 : v ^ (-θ) + (ppf θ y v) ^ (-θ) - 1 = y ^ (θ / (-1 - θ)) * v ^ (-θ) := by
    rw [e1, hvθ]
    field_simp
    ring
  have e3 : (y ^ (θ / (-1 - θ))) ^ ((-1 - θ) / θ) = y := by
    rw [← Real.rpow_mul hy.le]
    have h1 : -1 - θ ≠ 0 := by linarith
    have : θ / (-1 - θ) * ((-1 - θ) / θ) = 1 := by field_simp
    rw [this, Real.rpow_one]
  rw [h, e2, Real.mul_rpow (by linarith) (Real.rpow_pos_of_pos hv _).le, e3,
    rpow_negθ_rpow hθ hv]
  have e4 : v ^ (-θ - 1) * v ^ (θ + 1) = 1 := by
    rw [← Real.rpow_add hv]
    have : -θ - 1 + (θ + 1) = 0 := by ring
    rw [this, Real.rpow_zero]
  calc v ^ (-θ - 1) * (y * v ^ (θ + 1)) = y * (v ^ (-θ - 1) * v ^ (θ + 1)) := by ring
    _ = y := by rw [e4, mul_one]

/-- `ppf` is strictly increasing in `y`. -/
theorem ppf_lt_ppf {θ y y' v : ℝ} (hθ : 0 < θ) (hy : 0 < y) (hyy : y < y') (hy1 : y' ≤ 1)
    (hv : 0 < v) : ppf θ y v < ppf θ y' v := by
  have hb : 0 < v ^ θ := Real.rpow_pos_of_pos hv _
  have hR' := ppf_base_ge_one hθ (lt_trans hy hyy) hy1 hv
  have h1 : y' ^ (θ / (-1 - θ)) < y ^ (θ / (-1 - θ)) :=
    Real.rpow_lt_rpow_of_neg hy hyy (div_neg_of_pos_of_neg hθ (by linarith))
  have h2 : (y' ^ (θ / (-1 - θ)) + v ^ θ - 1) / v ^ θ < (y ^ (θ / (-1 - θ)) + v ^ θ - 1) / v ^ θ :=
    div_lt_div_of_pos_right (by linarith) hb
  exact Real.rpow_lt_rpow_of_neg (by linarith) h2 (div_neg_of_neg_of_pos (by norm_num) hθ)

theorem ppf_strictMonoOn {θ v : ℝ} (hθ : 0 < θ) (hv : 0 < v) :
    StrictMonoOn (fun y => ppf θ y v) (Set.Ioc 0 1) :=
  fun _ ha _ hb hab => ppf_lt_ppf hθ ha.1 hab hb.2 hv

theorem ppf_strictMonoOn_Ioo {θ v : ℝ} (hθ : 0 < θ) (hv : 0 < v) :
    StrictMonoOn (fun y => ppf θ y v) (Set.Ioo 0 1) :=
  (ppf_strictMonoOn hθ hv).mono Set.Ioo_subset_Ioc_self

example : h 2 (ppf 2 (1 / 2) (1 / 3)) (1 / 3) = 1 / 2 :=
  h_ppf (by norm_num) (by norm_num) (by norm_num) (by norm_num)

/-- Uniqueness of the conditional inverse: the only `u ∈ (0,1]` with `h θ u v = y` is `ppf θ y v`. -/
theorem ppf_unique {θ u y v : ℝ} (hθ : 0 < θ) (hu : 0 < u) (hu1 : u ≤ 1) (hy : 0 < y)
    (hy1 : y ≤ 1) (hv : 0 < v) (hh : h θ u v = y) : u = ppf θ y v := by
  have hp := ppf_mem_Ioc hθ hy hy1 hv
  exact (h_strictMonoOn hθ hv).injOn ⟨hu, hu1⟩ ⟨hp.1, hp.2⟩ (by
    show h θ u v = h θ (ppf θ y v) v
    rw [hh, h_ppf hθ hy hy1 hv])

/-- `ppf θ (h θ u v) v = u`: left inverse as well, for `u ∈ (0,1]`, `v > 0`. -/
theorem ppf_h {θ u v : ℝ} (hθ : 0 < θ) (hu : 0 < u) (hu1 : u ≤ 1) (hv : 0 < v) :
    ppf θ (h θ u v) v = u :=
  have hh := h_mem_Ioc hθ hu hu1 hv
  (ppf_unique hθ hu hu1 hh.1 hh.2 hv rfl).symm

/-- `percent_point`, whole generated method.  The exact hypothesis under which the batch shortcut
`(b == 0).all()` (which returns all ones) does not change the result: it may fire only on the empty
batch. -/
theorem ppf_rowwise_of {θ : ℝ} (hθ : 0 < θ) (xs : List (ℝ × ℝ))
    (hxs : (∀ p ∈ xs, p.2 ^ θ = 0) → xs = []) :
    Gen.Clayton.ppf θ xs = .ok (xs.map fun p => ppf θ p.1 p.2) := by
  unfold Gen.Clayton.ppf
  rw [checkFit_ok hθ]
  simp only
  rw [if_neg (by simpa using hθ.le)]
  split
  · rename_i hg
    simp only [List.all_eq_true, decide_eq_true_eq, beq_real, pow_real, ofNat_real,
      Nat.cast_zero] at hg
    rw [hxs hg]
    rfl
  · congr 1
    apply List.map_congr_left
    intro p _
    exact bridge_ppfRow θ p.1 p.2

/-- `percent_point` is the row-wise map of the spec `ppf` on every batch whose second column is
positive (the empty batch included). -/
theorem ppf_rowwise {θ : ℝ} (hθ : 0 < θ) (xs : List (ℝ × ℝ)) (hpos : ∀ p ∈ xs, 0 < p.2) :
    Gen.Clayton.ppf θ xs = .ok (xs.map fun p => ppf θ p.1 p.2) := by
  apply ppf_rowwise_of hθ
  intro hz
  cases xs with
  | nil => rfl
  | cons p ps =>
    have h1 := hz p (by simp)
    have h2 := Real.rpow_pos_of_pos (hpos p (by simp)) θ
    exact absurd h1 h2.ne'

example : Gen.Clayton.ppf 2 [(1 / 2, 1 / 3), (1 / 4, 1)]
    = .ok [ppf 2 (1 / 2) (1 / 3), ppf 2 (1 / 4) 1] :=
  ppf_rowwise (by norm_num) _ (by simp)

/-- It is enough that one row has `v > 0`. -/
theorem ppf_rowwise_of_exists {θ : ℝ} (hθ : 0 < θ) (xs : List (ℝ × ℝ))
    (hpos : ∃ p ∈ xs, 0 < p.2) :
    Gen.Clayton.ppf θ xs = .ok (xs.map fun p => ppf θ p.1 p.2) := by
  apply ppf_rowwise_of hθ
  intro hz
  obtain ⟨p, hp, hp0⟩ := hpos
  exact absurd (hz p hp) (Real.rpow_pos_of_pos hp0 θ).ne'

/-- The hypothesis of `ppf_rowwise_of` cannot be dropped: on the one-row batch `[(y, 0)]` the
method returns `1` (shortcut), not `ppf θ y 0 = 0`. -/
theorem ppf_shortcut_fires {θ : ℝ} (hθ : 0 < θ) (y : ℝ) :
    Gen.Clayton.ppf θ [(y, 0)] = .ok [1] ∧ ppf θ y 0 = 0 := by
  constructor
  · unfold Gen.Clayton.ppf
    rw [checkFit_ok hθ]
    simp [hθ.le, hθ.ne', Real.zero_rpow, Gen.Clayton.ppf_leaf1]
  · have : -1 / θ ≠ 0 := by
      have := div_neg_of_neg_of_pos (by norm_num : (-1 : ℝ) < 0) hθ
      exact this.ne
    simp [ppf, Real.zero_rpow hθ.ne', Real.zero_rpow this]

end CopVerif.Clayton
