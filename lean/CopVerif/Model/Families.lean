import CopVerif.Base.Num
/-!
  Executable, Mathlib-free closed forms of `scipy.stats.uniform / norm / loglaplace / truncnorm`
  (`pdf`, `cdf`, `ppf`, `logpdf` with `loc`, `scale`), polymorphic in the numeric signature: the SAME terms are
  evaluated at `Float` by `Driver/UniConst.lean` against what the library calls
  (`MODEL_CLASS.<fn>(x, **model._params)`, tie obligations `tv:closed-form:<family>` of property C03) and are, at
  `ℝ`, the definitions `CopVerif.Families.*` of `Real/Families.lean` about which `FamilyCoherent` is PROVED
  (bridge theorems in `Props/C03d.lean`).

  External symbols: `Φ` = the standard normal CDF (`scipy.special.ndtr`; `FloatFns.ndtr` at Float, `PIT.stdPhi`
  at ℝ) and `s2pi` = `√(2π)` (no `π` in `NumFns`).  `Φ⁻¹` (`ndtri`) is not modelled: for `norm` and `truncnorm`
  the tie checks `ppf` through `cdf(ppf(q)) = q`.
-/
namespace CopVerif.Model.Families
open CopVerif NumFns
section
variable {α : Type} [Add α] [Sub α] [Mul α] [Div α] [Neg α] [LT α] [LE α]
  [DecidableLT α] [DecidableLE α] [NumFns α]

/-- `max a b` (the clamp of the closed forms; no NaN handling: the tie only sends numbers) -/
def maxN (a b : α) : α := if a < b then b else a
/-- `min a b` -/
def minN (a b : α) : α := if b < a then b else a
/-- clamp to `[0, 1]` -/
def clamp01 (t : α) : α := maxN (ofNat 0) (minN (ofNat 1) t)

/-! ## `uniform(loc, scale)` -/
def uniformPdf (loc scale x : α) : α :=
  if loc ≤ x ∧ x ≤ loc + scale then ofNat 1 / scale else ofNat 0
def uniformCdf (loc scale x : α) : α := clamp01 ((x - loc) / scale)
def uniformPpf (loc scale q : α) : α := loc + q * scale
def uniformLogpdf (loc scale x : α) : α :=
  if loc ≤ x ∧ x ≤ loc + scale then -(log scale) else ofNat 0

/-! ## `norm(loc, scale)` -/
/-- the standard normal density `exp(−y²/2)/√(2π)` -/
def stdPdf (s2pi y : α) : α := exp (-(y * y) / ofNat 2) / s2pi
def normPdf (s2pi loc scale x : α) : α := stdPdf s2pi ((x - loc) / scale) / scale
def normCdf (Φ : α → α) (loc scale x : α) : α := Φ ((x - loc) / scale)
def normLogpdf (s2pi loc scale x : α) : α :=
  -(((x - loc) / scale) * ((x - loc) / scale)) / ofNat 2 - log s2pi - log scale

/-! ## `loglaplace(c, loc, scale)` -/
def llPdf (c y : α) : α :=
  if y < ofNat 0 then ofNat 0
  else if y < ofNat 1 then c / ofNat 2 * pow y (c - ofNat 1)
  else c / ofNat 2 * pow y (-c - ofNat 1)
def llCdf (c y : α) : α :=
  if y ≤ ofNat 0 then ofNat 0
  else if y < ofNat 1 then pow y c / ofNat 2
  else ofNat 1 - pow y (-c) / ofNat 2
def llPpf (c q : α) : α :=
  if q < ofNat 1 / ofNat 2 then pow (ofNat 2 * q) (ofNat 1 / c)
  else pow (ofNat 2 * (ofNat 1 - q)) (-(ofNat 1) / c)
def loglaplacePdf (c loc scale x : α) : α := llPdf c ((x - loc) / scale) / scale
def loglaplaceCdf (c loc scale x : α) : α := llCdf c ((x - loc) / scale)
def loglaplacePpf (c loc scale q : α) : α := loc + scale * llPpf c q
def loglaplaceLogpdf (c loc scale x : α) : α := log (llPdf c ((x - loc) / scale)) - log scale

/-! ## `truncnorm(a, b, loc, scale)` (`a`, `b` in standardised units) -/
def tnPdf (Φ : α → α) (s2pi a b y : α) : α :=
  if a ≤ y ∧ y ≤ b then stdPdf s2pi y / (Φ b - Φ a) else ofNat 0
def tnCdf (Φ : α → α) (a b y : α) : α := clamp01 ((Φ y - Φ a) / (Φ b - Φ a))
def tnLogpdf (Φ : α → α) (s2pi a b y : α) : α :=
  -(y * y) / ofNat 2 - log s2pi - log (Φ b - Φ a)
def truncnormPdf (Φ : α → α) (s2pi a b loc scale x : α) : α := tnPdf Φ s2pi a b ((x - loc) / scale) / scale
def truncnormCdf (Φ : α → α) (a b loc scale x : α) : α := tnCdf Φ a b ((x - loc) / scale)
def truncnormLogpdf (Φ : α → α) (s2pi a b loc scale x : α) : α :=
  tnLogpdf Φ s2pi a b ((x - loc) / scale) - log scale

end
end CopVerif.Model.Families
