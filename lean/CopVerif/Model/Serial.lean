/-!
# Model of serialisation (property C14)

Hand-written, Mathlib-free, executable model (K) of `to_dict` / `from_dict` / JSON for every public
model class of `copulas`:

* a value grammar `V` for what `to_dict()` returns (`num | str | bool | none | list | dict`, plus
  the two kinds of Python value that `json` cannot encode and that the vine dicts contain:
  `obj` — an `Enum` member / pandas `Index` / numpy scalar — and `set`);
* `jsonEncode / jsonDecode` — JSON at token level (`[ ] { } , :` and scalar tokens); numbers are
  *opaque tokens* (`Num.f bits` = a binary64 bit pattern, `Num.i n` = a Python int): Python's
  `json` writes `float.__repr__` and reads it back exactly, writes `NaN`/`Infinity` and reads them
  back, and keeps `int` apart from `float`;
* univariate families (`copulas/univariate/*.py`): `_params`, `_is_constant`, `_extract_constant`,
  `ScipyModel._set_params`, `GaussianKDE._set_params` (rebuild `_model`), `Univariate.to_dict`,
  `Univariate.from_dict`; the selecting `Univariate` wrapper;
* `Bivariate.to_dict/from_dict` and the `__new__` factory dispatch on `copula_type`;
* `GaussianMultivariate.to_dict/from_dict`, `Multivariate.from_dict` (dispatch on `type`);
* `VineCopula/Tree/Edge.to_dict/from_dict`, `_deserialize_trees`; objects carry an object
  identity `oid` so that "parents are deserialised as copies" can be stated.

The per-family rules (which key `_is_constant` compares to what, which key `_extract_constant`
returns, which keys `_fit` / `_fit_constant` write, which constructor options `_get_model` reads)
and the key lists of all `to_dict`/`from_dict` are *data generated from the Python source*
(`CopVerif.Gen.Serial`); the functions here take them as parameters (`Family`, `BivTable`).
-/
namespace CopVerif.Model.Serial

/-! ## 1. values -/

/-- a number as an opaque token: binary64 bit pattern or Python int. -/
inductive Num where
  | f (bits : Nat)
  | i (n : Int)
  deriving DecidableEq, Repr, Inhabited

namespace Num
def isNaN : Num → Bool
  | .f b => (b / 2 ^ 52) % 2048 == 2047 && b % 2 ^ 52 != 0
  | .i _ => false

/-- Python `x == 0` for a float or an int. -/
def isZero : Num → Bool
  | .f b => b == 0 || b == 2 ^ 63
  | .i n => n == 0

/-- Python `a == b` for two floats, or two ints; a float and an int are compared only for the
    case both are zero (the only mixed comparison the code performs is `scale == 0`). -/
def eq : Num → Num → Bool
  | .f a, .f b => (!(Num.f a).isNaN && !(Num.f b).isNaN) && (a == b || ((Num.f a).isZero && (Num.f b).isZero))
  | .i a, .i b => a == b
  | a, b => a.isZero && b.isZero

/-- `np.unique` identifies equal numbers and (numpy ≥ 1.21) all NaNs. -/
def same (a b : Num) : Bool := a.eq b || (a.isNaN && b.isNaN)
end Num

/-- what `to_dict()` returns. -/
inductive V where
  | num (t : Num)
  | str (s : String)
  | bool (b : Bool)
  | none
  | list (xs : List V)
  | dict (kvs : List (String × V))
  /-- a Python object `json` cannot encode: Enum member, pandas Index, numpy integer … -/
  | obj (cls repr : String)
  | set (xs : List V)
  deriving Repr, Inhabited

abbrev Dict := List (String × V)

def lookup : Dict → String → Option V
  | [], _ => Option.none
  | (k, v) :: r, key => if k = key then some v else lookup r key

def keys (d : Dict) : List String := d.map (·.1)

/-- `d.pop(k)` (the remaining dict). -/
def erase (d : Dict) (key : String) : Dict := d.filter (fun kv => kv.1 ≠ key)

/-- `d[k] = v` for a key not yet present (appended: Python dicts keep insertion order). -/
def insertNew (d : Dict) (key : String) (v : V) : Dict := d ++ [(key, v)]

/-! ## 2. JSON -/

inductive Tok where
  | num (t : Num) | str (s : String) | bool (b : Bool) | null
  | lbrack | rbrack | lbrace | rbrace | comma | colon
  deriving Repr, DecidableEq

mutual
/-- the JSON-able sub-grammar. -/
def isJson : V → Bool
  | .num _ | .str _ | .bool _ | .none => true
  | .list xs => isJsonL xs
  | .dict kvs => isJsonD kvs
  | .obj _ _ | .set _ => false
def isJsonL : List V → Bool
  | [] => true
  | x :: xs => isJson x && isJsonL xs
def isJsonD : List (String × V) → Bool
  | [] => true
  | (_, v) :: kvs => isJson v && isJsonD kvs
end

mutual
def enc : V → List Tok
  | .num t => [.num t]
  | .str s => [.str s]
  | .bool b => [.bool b]
  | .none => [.null]
  | .list [] => [.lbrack, .rbrack]
  | .list (x :: xs) => .lbrack :: (enc x ++ encTail xs)
  | .dict [] => [.lbrace, .rbrace]
  | .dict ((k, v) :: kvs) => .lbrace :: .str k :: .colon :: (enc v ++ encMembers kvs)
  | .obj _ _ => []
  | .set _ => []
def encTail : List V → List Tok
  | [] => [.rbrack]
  | x :: xs => .comma :: (enc x ++ encTail xs)
def encMembers : List (String × V) → List Tok
  | [] => [.rbrace]
  | (k, v) :: kvs => .comma :: .str k :: .colon :: (enc v ++ encMembers kvs)
end

/-- `json.dumps`: `TypeError` (here `none`) outside the JSON-able sub-grammar. -/
def jsonEncode (v : V) : Option (List Tok) := if isJson v then some (enc v) else Option.none

mutual
/-- recursive-descent parser; the first argument is fuel (any value ≥ the number of tokens). -/
def parseV : Nat → List Tok → Option (V × List Tok)
  | 0, _ => Option.none
  | _+1, .num t :: r => some (.num t, r)
  | _+1, .str s :: r => some (.str s, r)
  | _+1, .bool b :: r => some (.bool b, r)
  | _+1, .null :: r => some (.none, r)
  | n+1, .lbrack :: r =>
      match r with
      | .rbrack :: r' => some (.list [], r')
      | _ =>
        match parseV n r with
        | some (v, r1) => match parseTail n r1 with
          | some (vs, r2) => some (.list (v :: vs), r2)
          | Option.none => Option.none
        | Option.none => Option.none
  | n+1, .lbrace :: r =>
      match r with
      | .rbrace :: r' => some (.dict [], r')
      | .str k :: .colon :: r' =>
        match parseV n r' with
        | some (v, r1) => match parseMembers n r1 with
          | some (kvs, r2) => some (.dict ((k, v) :: kvs), r2)
          | Option.none => Option.none
        | Option.none => Option.none
      | _ => Option.none
  | _+1, _ => Option.none
def parseTail : Nat → List Tok → Option (List V × List Tok)
  | 0, _ => Option.none
  | _+1, .rbrack :: r => some ([], r)
  | n+1, .comma :: r =>
      match parseV n r with
      | some (v, r1) => match parseTail n r1 with
        | some (vs, r2) => some (v :: vs, r2)
        | Option.none => Option.none
      | Option.none => Option.none
  | _+1, _ => Option.none
def parseMembers : Nat → List Tok → Option (List (String × V) × List Tok)
  | 0, _ => Option.none
  | _+1, .rbrace :: r => some ([], r)
  | n+1, .comma :: .str k :: .colon :: r =>
      match parseV n r with
      | some (v, r1) => match parseMembers n r1 with
        | some (kvs, r2) => some ((k, v) :: kvs, r2)
        | Option.none => Option.none
      | Option.none => Option.none
  | _+1, _ => Option.none
end

/-- `json.loads`. -/
def jsonDecode (ts : List Tok) : Option V :=
  match parseV ts.length ts with
  | some (v, []) => some v
  | _ => Option.none

/-- `json.loads(json.dumps(v))`. -/
def jsonThrough (v : V) : Option V := (jsonEncode v).bind jsonDecode

/-! ## 3. univariate families -/

/-- value written by `_fit_constant` under one key, as read off the source. -/
inductive CExpr where
  /-- a numeric literal. -/
  | lit (t : Num)
  /-- the constant of the data: `np.unique(X)[0]`, `np.min(X)`, or a local bound to one of them. -/
  | theConstant
  /-- `np.max(X) - np.min(X)` on constant data (`+0.0` for finite data). -/
  | constMinusConst
  /-- `[constant] * sample_size`. -/
  | repeatConstant
  /-- whatever `_fit(X)` stored under this key (`StudentTUnivariate._fit_constant` calls `_fit`). -/
  | fromFit
  deriving DecidableEq, Repr, Inhabited

/-- `_is_constant`. -/
inductive ConstRule where
  /-- `self._params[k] == 0` -/
  | keyEqZero (k : String)
  /-- `self._params[a] == self._params[b]` -/
  | keysEqual (a b : String)
  /-- `len(np.unique(self._params[k])) == 1` -/
  | uniqueLenOne (k : String)
  deriving DecidableEq, Repr, Inhabited

/-- `_extract_constant`. -/
inductive ExtractRule where
  /-- `self._params[k]` -/
  | key (k : String)
  /-- `self._params[k][0]` -/
  | keyFirst (k : String)
  deriving DecidableEq, Repr, Inhabited

/-- one univariate family, generated from its source file. -/
structure Family where
  name : String
  qual : String
  fitKeys : List String
  fitConstant : List (String × CExpr)
  isConstant : ConstRule
  extract : ExtractRule
  /-- some distribution method reads `self._model`. -/
  usesModel : Bool
  /-- `_set_params` assigns `self._model` in the non-constant branch. -/
  rebuildsModel : Bool
  /-- constructor options read (as `self.<attr>`) when `_model` is built. -/
  modelOptions : List String
  /-- attributes set from constructor arguments (other than `random_state`), all defaulting to `None`. -/
  ctorOptions : List String
  deriving DecidableEq, Repr, Inhabited

mutual
/-- all numbers inside a (possibly nested) list value: what `np.unique` sees. -/
def flatNums : V → List Num
  | .num t => [t]
  | .list xs => flatNumsL xs
  | _ => []
def flatNumsL : List V → List Num
  | [] => []
  | x :: xs => flatNums x ++ flatNumsL xs
end

/-- `len(np.unique(xs)) == 1`. -/
def uniqueLenOne : List Num → Bool
  | [] => false
  | x :: r => r.all (fun y => x.same y)

/-- `_is_constant()`; `none` = the lookup raised. -/
def evalConstRule (r : ConstRule) (p : Dict) : Option Bool :=
  match r with
  | .keyEqZero k =>
      match lookup p k with
      | some (.num t) => some t.isZero
      | some (.bool b) => some (!b)
      | some _ => some false
      | Option.none => Option.none
  | .keysEqual a b =>
      match lookup p a, lookup p b with
      | some (.num x), some (.num y) => some (x.eq y)
      | some _, some _ => some false
      | _, _ => Option.none
  | .uniqueLenOne k =>
      match lookup p k with
      | some v => some (uniqueLenOne (flatNums v))
      | Option.none => Option.none

/-- `_extract_constant()`. -/
def evalExtract (r : ExtractRule) (p : Dict) : Option V :=
  match r with
  | .key k => lookup p k
  | .keyFirst k =>
      match lookup p k with
      | some (.list (x :: _)) => some x
      | _ => Option.none

/-- the constant the degenerate methods will use, or `none` for an ordinary model: the branch of
    `_set_params`.  Outer `none` = an exception. -/
def detectConstant (F : Family) (p : Dict) : Option (Option V) :=
  match evalConstRule F.isConstant p with
  | some true => (evalExtract F.extract p).map some
  | some false => some Option.none
  | Option.none => Option.none

/-- a univariate model object. -/
structure Uni where
  fam : Family
  fitted : Bool
  /-- `_params` (`None` before the first fit). -/
  params : Option Dict
  /-- `_constant_value`; `some c` ⇔ the four methods are replaced by the degenerate ones. -/
  constant : Option V
  /-- attributes set by the constructor (`bw_method`, `weights`, `_sample_size`, `min`, `max`). -/
  options : Dict
  deriving Repr, Inhabited

def defaultOptions (F : Family) : Dict := F.ctorOptions.map (fun k => (k, V.none))

/-- `get_instance(qualified name)`: a fresh, unfitted object with default options. -/
def freshUni (F : Family) : Uni :=
  { fam := F, fitted := false, params := Option.none, constant := Option.none, options := defaultOptions F }

/-- `ScipyModel._set_params` / `GaussianKDE._set_params`. -/
def setParams (u : Uni) (p : Dict) : Option Uni :=
  (detectConstant u.fam p).map fun c => { u with params := some p, constant := c }

/-- `Univariate.to_dict` on a concrete family (`none` = `NotFittedError`). -/
def Uni.toDict (u : Uni) : Option V :=
  if u.fitted then u.params.map fun p => V.dict (insertNew p "type" (V.str u.fam.qual)) else Option.none

def findFamily (fams : List Family) (q : String) : Option Family := fams.find? (fun F => F.qual == q)

/-- `Univariate.from_dict` (the same code for `Univariate.from_dict`, `GaussianKDE.from_dict`, …:
    the receiving class is ignored, the recorded `type` decides). -/
def uniFromDict (fams : List Family) (d : V) : Option Uni :=
  match d with
  | .dict kvs =>
      match lookup kvs "type" with
      | some (.str q) =>
          match findFamily fams q with
          | some F => (setParams (freshUni F) (erase kvs "type")).map fun u => { u with fitted := true }
          | Option.none => Option.none
      | _ => Option.none
  | _ => Option.none

/-- the selecting `Univariate` wrapper. -/
structure Wrapper where
  fitted : Bool
  inst : Option Uni
  deriving Repr, Inhabited

/-- `Univariate.to_dict` when `self.__class__ is Univariate`: the instance's params with the
    instance's qualified name. -/
def Wrapper.toDict (w : Wrapper) : Option V :=
  if w.fitted then
    match w.inst with
    | some u => u.params.map fun p => V.dict (insertNew p "type" (V.str u.fam.qual))
    | Option.none => Option.none
  else Option.none

/-- what the public methods of a univariate object depend on. -/
structure UniObs where
  qual : String
  fitted : Bool
  params : Option Dict
  constant : Option V
  /-- options the rebuilt `_model` reads (only for a family that uses `_model`, when not constant). -/
  modelOpts : Option Dict
  deriving Repr, Inhabited

def optionOf (u : Uni) (k : String) : V := (lookup u.options k).getD V.none

def Uni.obs (u : Uni) : UniObs :=
  { qual := u.fam.qual, fitted := u.fitted, params := u.params, constant := u.constant,
    modelOpts := if u.fam.usesModel && u.constant.isNone
      then some (u.fam.modelOptions.map fun k => (k, optionOf u k)) else Option.none }

/-- the wrapper delegates every method to its instance; `check_fit` uses its own flag. -/
def Wrapper.obs (w : Wrapper) : Option UniObs :=
  w.inst.map fun u => { u.obs with fitted := w.fitted }

/-- instantiate the `_fit_constant` table for data constantly `c` (`n` = `sample_size or len(X)`,
    `fit` = what `_fit` stored). -/
def evalCExpr (c : Num) (n : Nat) (fit : Dict) (k : String) : CExpr → V
  | .lit t => .num t
  | .theConstant => .num c
  | .constMinusConst => .num (.f 0)
  | .repeatConstant => .list (List.replicate n (.num c))
  | .fromFit => (lookup fit k).getD V.none

def fitConstantParams (F : Family) (c : Num) (n : Nat) (fit : Dict) : Dict :=
  F.fitConstant.map fun kv => (kv.1, evalCExpr c n fit kv.1 kv.2)

/-- state after `fit` on data constantly `c`: `_check_constant_value` stored `c` and replaced the
    methods, `_fit_constant` wrote the parameters. -/
def fitConstantState (F : Family) (opts : Dict) (c : Num) (n : Nat) (fit : Dict) : Uni :=
  { fam := F, fitted := true, params := some (fitConstantParams F c n fit), constant := some (.num c), options := opts }


/-! ### the `_fit_constant` table against the `_is_constant` / `_extract_constant` rules -/

def lookupC : List (String × CExpr) → String → Option CExpr
  | [], _ => Option.none
  | (k, e) :: r, key => if k = key then some e else lookupC r key

/-- the expression is `0` whatever the constant. -/
def zeroExpr : CExpr → Bool
  | .lit t => t.isZero
  | .constMinusConst => true
  | _ => false

/-- syntactic check: the parameters `_fit_constant` writes make `_is_constant()` true and
    `_extract_constant()` return the constant of the data. -/
def constCheck (F : Family) : Bool :=
  match F.isConstant, F.extract with
  | .keyEqZero k, .key k2 =>
      (match lookupC F.fitConstant k with
       | some e => zeroExpr e
       | Option.none => false) && lookupC F.fitConstant k2 == some .theConstant
  | .keysEqual a b, .key k2 =>
      lookupC F.fitConstant a == some .theConstant && lookupC F.fitConstant b == some .theConstant &&
        lookupC F.fitConstant k2 == some .theConstant
  | .uniqueLenOne k, .keyFirst k2 => k == k2 && lookupC F.fitConstant k == some .repeatConstant
  | _, _ => false

/-- the shape of today's `StudentTUnivariate`: detected by `scale == 0`, but the value returned by
    `_extract_constant` is whatever `_fit` (scipy's optimiser on constant data) left under that key. -/
def constFromFit (F : Family) : Bool :=
  match F.isConstant, F.extract with
  | .keyEqZero k, .key k2 =>
      (match lookupC F.fitConstant k with
       | some e => zeroExpr e
       | Option.none => false) && lookupC F.fitConstant k2 == some .fromFit
  | _, _ => false

/-! ## 4. bivariate copulas -/

/-- `CopulaTypes` member names and the subclass declaring each (`copula_type = CopulaTypes.X`). -/
structure BivTable where
  members : List String
  /-- (class name, member name) in subclass order. -/
  classes : List (String × String)
  deriving Repr, Inhabited

structure Biv where
  cls : String
  theta : V
  tau : V
  deriving Repr, Inhabited

def BivTable.memberOf (T : BivTable) (cls : String) : Option String :=
  (T.classes.find? (fun c => c.1 == cls)).map (·.2)

def BivTable.classOf (T : BivTable) (member : String) : Option String :=
  (T.classes.find? (fun c => c.2 == member)).map (·.1)

/-- `Bivariate.to_dict`; `none` = `self.copula_type.name` raised (the abstract base). -/
def Biv.toDict (T : BivTable) (b : Biv) : Option V :=
  (T.memberOf b.cls).map fun m => V.dict [("copula_type", .str m), ("theta", b.theta), ("tau", b.tau)]

/-- `Bivariate.from_dict` → `cls(copula_type=…)` → `__new__`: upper-cased member lookup, then the
    first subclass with that `copula_type`. -/
def bivFromDict (upper : String → String) (T : BivTable) (d : V) : Option Biv :=
  match d with
  | .dict kvs =>
      match lookup kvs "copula_type", lookup kvs "theta", lookup kvs "tau" with
      | some (.str s), some th, some ta =>
          if T.members.contains (upper s) then
            (T.classOf (upper s)).map fun c => { cls := c, theta := th, tau := ta }
          else Option.none
      | _, _, _ => Option.none
  | _ => Option.none

/-! ## 5. Gaussian multivariate -/

/-- an element of `GaussianMultivariate.univariates`. -/
inductive UniRef where
  | plain (u : Uni)
  | wrapped (w : Wrapper)
  deriving Repr, Inhabited

def UniRef.toDict : UniRef → Option V
  | .plain u => u.toDict
  | .wrapped w => w.toDict

def UniRef.obs : UniRef → Option UniObs
  | .plain u => some u.obs
  | .wrapped w => w.obs

structure Gauss where
  fitted : Bool
  columns : V
  univariates : List UniRef
  /-- `correlation.to_numpy().tolist()` (the frame's labels are `columns`). -/
  correlation : V
  deriving Repr, Inhabited

def gaussQual : String := "copulas.multivariate.gaussian.GaussianMultivariate"
def vineQual : String := "copulas.multivariate.vine.VineCopula"

/-- `GaussianMultivariate.to_dict` (`none` = `NotFittedError` of the model or of a marginal). -/
def Gauss.toDict (g : Gauss) : Option V :=
  if g.fitted then
    (g.univariates.mapM UniRef.toDict).map fun us =>
      V.dict [("correlation", g.correlation), ("univariates", .list us), ("columns", g.columns),
              ("type", .str gaussQual)]
  else Option.none

/-- `GaussianMultivariate.from_dict`. -/
def gaussFromDict (fams : List Family) (d : V) : Option Gauss :=
  match d with
  | .dict kvs =>
      match lookup kvs "columns", lookup kvs "univariates", lookup kvs "correlation" with
      | some cols, some (.list us), some corr =>
          (us.mapM (uniFromDict fams)).map fun us' =>
            { fitted := true, columns := cols, univariates := us'.map UniRef.plain, correlation := corr }
      | _, _, _ => Option.none
  | _ => Option.none

structure GaussObs where
  fitted : Bool
  columns : V
  univariates : List (Option UniObs)
  correlation : V
  deriving Repr, Inhabited

def Gauss.obs (g : Gauss) : GaussObs :=
  { fitted := g.fitted, columns := g.columns, univariates := g.univariates.map UniRef.obs,
    correlation := g.correlation }

/-! ## 6. vines -/

/-- an attribute that `from_dict` stores as `np.array(d[k])`: `None` becomes a 0-d object array
    (`arr0`), which `to_dict` (`x.tolist()`) turns back into `None`. -/
inductive ArrAttr where
  | absent
  | arr (m : V)
  | arr0
  deriving Repr, Inhabited

/-- what `to_dict` writes: `None if x is None else x.tolist()`. -/
def ArrAttr.view : ArrAttr → V
  | .absent => .none
  | .arr m => m
  | .arr0 => .none

def ArrAttr.ofDict : V → ArrAttr
  | .none => .arr0
  | m => .arr m

/-- object identity. -/
abbrev Oid := List Nat

/-- `copulas.multivariate.tree.Edge`.  `parents = []` stands for `None` (`to_dict` writes `None`
    for both, `from_dict` leaves `None` for both). -/
inductive Edge where
  | mk (oid : Oid) (index L R name theta : V) (U : ArrAttr) (parents : List Edge)
       (D tau likelihood neighbors : V)
  deriving Repr, Inhabited

namespace Edge
def oid : Edge → Oid | mk o .. => o
def index : Edge → V | mk _ i .. => i
def L : Edge → V | mk _ _ l .. => l
def R : Edge → V | mk _ _ _ r .. => r
def name : Edge → V | mk _ _ _ _ n .. => n
def theta : Edge → V | mk _ _ _ _ _ t .. => t
def U : Edge → ArrAttr | mk _ _ _ _ _ _ u .. => u
def parents : Edge → List Edge | mk _ _ _ _ _ _ _ ps .. => ps
def D : Edge → V | mk _ _ _ _ _ _ _ _ d .. => d
def tau : Edge → V | mk _ _ _ _ _ _ _ _ _ t .. => t
def likelihood : Edge → V | mk _ _ _ _ _ _ _ _ _ _ l _ => l
def neighbors : Edge → V | mk _ _ _ _ _ _ _ _ _ _ _ n => n
end Edge

mutual
/-- `Edge.to_dict` (parents serialised by value, recursively). -/
def Edge.toDict : Edge → V
  | .mk _ index L R name theta U parents D tau likelihood neighbors =>
      .dict [("index", index), ("L", L), ("R", R), ("D", D),
             ("parents", match parents with
                         | [] => V.none
                         | p :: ps => V.list (Edge.toDict p :: Edge.toDictL ps)),
             ("neighbors", neighbors), ("name", name), ("theta", theta), ("tau", tau),
             ("U", U.view), ("likelihood", likelihood)]
def Edge.toDictL : List Edge → List V
  | [] => []
  | e :: es => Edge.toDict e :: Edge.toDictL es
end

mutual
/-- nesting depth of the parents. -/
def Edge.depth : Edge → Nat
  | .mk _ _ _ _ _ _ _ parents _ _ _ _ => Edge.depthL parents + 1
def Edge.depthL : List Edge → Nat
  | [] => 0
  | e :: es => max (Edge.depth e) (Edge.depthL es)
end

mutual
/-- `Edge.from_dict`.  First argument: fuel (≥ the nesting depth of `parents`); second: the
    identity given to the new object — the parents get fresh identities below it. -/
def edgeFromDict : Nat → Oid → V → Option Edge
  | 0, _, _ => Option.none
  | n+1, oid, .dict kvs =>
      match lookup kvs "index", lookup kvs "L", lookup kvs "R", lookup kvs "name", lookup kvs "theta",
            lookup kvs "U", lookup kvs "parents" with
      | some index, some L, some R, some name, some theta, some U, some parents =>
          match lookup kvs "D", lookup kvs "tau", lookup kvs "likelihood", lookup kvs "neighbors" with
          | some D, some tau, some likelihood, some neighbors =>
              let ps : Option (List Edge) :=
                match parents with
                | .list vs => edgesFromDict n oid 0 vs
                | .none => some []
                | _ => Option.none
              ps.map fun ps => Edge.mk oid index L R name theta (ArrAttr.ofDict U) ps D tau likelihood neighbors
          | _, _, _, _ => Option.none
      | _, _, _, _, _, _, _ => Option.none
  | _+1, _, _ => Option.none
/-- the list comprehension over `parents`; the `i`-th new object gets identity `oid ++ [i]`. -/
def edgesFromDict : Nat → Oid → Nat → List V → Option (List Edge)
  | _, _, _, [] => some []
  | n, oid, i, v :: vs =>
      match edgeFromDict n (oid ++ [i]) v with
      | some e => (edgesFromDict n oid (i + 1) vs).map (e :: ·)
      | Option.none => Option.none
end

mutual
/-- the edge with identities erased and array attributes seen through `tolist()`: everything
    `to_dict`, `get_likelihood` and `_sample_row` can read. -/
def Edge.strip : Edge → Edge
  | .mk _ index L R name theta U parents D tau likelihood neighbors =>
      .mk [] index L R name theta (.arr U.view) (Edge.stripL parents) D tau likelihood neighbors
def Edge.stripL : List Edge → List Edge
  | [] => []
  | e :: es => Edge.strip e :: Edge.stripL es
end

/-- what `Edge.get_likelihood` reads: own `L, R, D, name, theta` and the parents' `D`. -/
def Edge.likelihoodView (e : Edge) : List V :=
  [e.L, e.R, e.D, e.name, e.theta] ++ e.parents.map Edge.D

/-- what `VineCopula._sample_row` reads of an edge. -/
def Edge.sampleView (e : Edge) : List V := [e.L, e.R, e.D, e.index, e.name, e.theta]

/-- `Tree.previous_tree`. -/
inductive Prev where
  /-- level 1: the matrix of marginal cdf values. -/
  | matrix (m : ArrAttr)
  /-- level > 1: the tree object at this position of the same vine's `trees`. -/
  | link (pos : Nat)
  | none
  deriving Repr, Inhabited

structure Tree where
  /-- `tree_type`: the class (CENTER / DIRECT / REGULAR member name). -/
  treeType : String
  fitted : Bool
  level : V
  nNodes : V
  tauMatrix : ArrAttr
  previous : Prev
  edges : List Edge
  deriving Repr, Inhabited

def treeQual (treeType : String) : String :=
  "copulas.multivariate.tree." ++ (match treeType with
    | "CENTER" => "CenterTree" | "DIRECT" => "DirectTree" | "REGULAR" => "RegularTree" | s => s)

def isLevelOne (level : V) : Bool :=
  match level with
  | .num t => t.eq (.i 1)
  | _ => false

/-- `Tree.to_dict`. -/
def Tree.toDict (t : Tree) : V :=
  let head : Dict := [("tree_type", .obj "TreeTypes" t.treeType), ("type", .str (treeQual t.treeType)),
                      ("fitted", .bool t.fitted)]
  if t.fitted then
    .dict (head ++ [("level", t.level), ("n_nodes", t.nNodes), ("tau_matrix", t.tauMatrix.view),
      ("previous_tree", match t.previous with
                        | .matrix m => if isLevelOne t.level then m.view else V.none
                        | _ => V.none),
      ("edges", .list (Edge.toDictL t.edges))])
  else .dict head

mutual
/-- a bound on the nesting of a value (fuel for `edgeFromDict`). -/
def vdepth : V → Nat
  | .list xs => vdepthL xs + 1
  | .dict kvs => vdepthD kvs + 1
  | .set xs => vdepthL xs + 1
  | _ => 1
def vdepthL : List V → Nat
  | [] => 0
  | x :: xs => max (vdepth x) (vdepthL xs)
def vdepthD : List (String × V) → Nat
  | [] => 0
  | (_, v) :: kvs => max (vdepth v) (vdepthD kvs)
end

/-- `Tree.from_dict(tree_dict, previous)`; `pos` = position of the new tree in the vine (its edges
    get identities `[pos, j]`), `previous` = position of the previously deserialised tree. -/
def treeFromDict (pos : Nat) (previous : Option Nat) (d : V) : Option Tree :=
  match d with
  | .dict kvs =>
      match lookup kvs "tree_type", lookup kvs "fitted" with
      | some (.obj "TreeTypes" tt), some (.bool fitted) =>
          if fitted then
            match lookup kvs "level", lookup kvs "n_nodes", lookup kvs "tau_matrix", lookup kvs "edges" with
            | some level, some nn, some tm, some (.list es) =>
                let prev : Option Prev :=
                  if isLevelOne level then (lookup kvs "previous_tree").map fun m => Prev.matrix (ArrAttr.ofDict m)
                  else some (match previous with | some p => Prev.link p | Option.none => Prev.none)
                match prev, edgesFromDict (vdepth (.list es)) [pos] 0 es with
                | some prev, some edges =>
                    some { treeType := tt, fitted := true, level := level, nNodes := nn,
                           tauMatrix := ArrAttr.ofDict tm, previous := prev, edges := edges }
                | _, _ => Option.none
            | _, _, _, _ => Option.none
          else
            some { treeType := tt, fitted := false, level := .none, nNodes := .none, tauMatrix := .absent,
                   previous := .none, edges := [] }
      | _, _ => Option.none
  | _ => Option.none

/-- the loop of `VineCopula._deserialize_trees` from position `pos` on. -/
def treesFromDict : Nat → Option Nat → List V → Option (List Tree)
  | _, _, [] => some []
  | pos, previous, d :: ds =>
      match treeFromDict pos previous d with
      | some t => (treesFromDict (pos + 1) (some pos) ds).map (t :: ·)
      | Option.none => Option.none

structure Vine where
  vineType : V
  fitted : Bool
  nSample : V
  nVar : V
  depth : V
  truncated : V
  trees : List Tree
  tauMat : ArrAttr
  uMatrix : ArrAttr
  unis : List Uni
  columns : V
  deriving Repr, Inhabited

/-- `VineCopula.to_dict` (`none` = a marginal's `to_dict` raised). -/
def Vine.toDict (s : Vine) : Option V :=
  let head : Dict := [("type", .str vineQual), ("vine_type", s.vineType), ("fitted", .bool s.fitted)]
  if s.fitted then
    (s.unis.mapM Uni.toDict).map fun us =>
      V.dict (head ++ [("n_sample", s.nSample), ("n_var", s.nVar), ("depth", s.depth),
        ("truncated", s.truncated), ("trees", .list (s.trees.map Tree.toDict)),
        ("tau_mat", s.tauMat.view), ("u_matrix", s.uMatrix.view), ("unis", .list us),
        ("columns", s.columns)])
  else some (.dict head)

/-- `VineCopula.from_dict`. -/
def vineFromDict (fams : List Family) (d : V) : Option Vine :=
  match d with
  | .dict kvs =>
      match lookup kvs "vine_type", lookup kvs "fitted" with
      | some vt, some (.bool fitted) =>
          if fitted then
            match lookup kvs "n_sample", lookup kvs "n_var", lookup kvs "truncated", lookup kvs "depth" with
            | some ns, some nv, some tr, some dp =>
                match lookup kvs "trees", lookup kvs "unis", lookup kvs "columns", lookup kvs "tau_mat",
                      lookup kvs "u_matrix" with
                | some (.list (t0 :: ts)), some (.list us), some cols, some tm, some um =>
                    match treesFromDict 0 Option.none (t0 :: ts), us.mapM (uniFromDict fams) with
                    | some trees, some unis =>
                        some { vineType := vt, fitted := true, nSample := ns, nVar := nv, depth := dp,
                               truncated := tr, trees := trees, tauMat := ArrAttr.ofDict tm,
                               uMatrix := ArrAttr.ofDict um, unis := unis, columns := cols }
                    | _, _ => Option.none
                | _, _, _, _, _ => Option.none
            | _, _, _, _ => Option.none
          else
            some { vineType := vt, fitted := false, nSample := .none, nVar := .none, depth := .none,
                   truncated := .none, trees := [], tauMat := .absent, uMatrix := .absent, unis := [],
                   columns := .none }
      | _, _ => Option.none
  | _ => Option.none

def Tree.strip (t : Tree) : Tree :=
  { t with tauMatrix := .arr t.tauMatrix.view, edges := Edge.stripL t.edges,
           previous := match t.previous with
                       | .matrix m => .matrix (.arr m.view)
                       | p => p }

structure VineObs where
  vineType : V
  fitted : Bool
  scalars : List V
  trees : List Tree
  tauMat : V
  uMatrix : V
  unis : List UniObs
  columns : V
  deriving Repr, Inhabited

/-- an unfitted vine has none of the fitted attributes. -/
def Vine.obs (s : Vine) : VineObs :=
  if s.fitted then
    { vineType := s.vineType, fitted := true, scalars := [s.nSample, s.nVar, s.depth, s.truncated],
      trees := s.trees.map Tree.strip, tauMat := s.tauMat.view, uMatrix := s.uMatrix.view,
      unis := s.unis.map Uni.obs, columns := s.columns }
  else
    { vineType := s.vineType, fitted := false, scalars := [], trees := [], tauMat := .none, uMatrix := .none,
      unis := [], columns := .none }

/-! ## 7. generic entry points -/

/-- a model object of any public class. -/
inductive Model where
  | uni (u : Uni)
  | wrapper (w : Wrapper)
  | biv (b : Biv)
  | gauss (g : Gauss)
  | vine (s : Vine)
  deriving Repr, Inhabited

/-- everything generated from the source that the (de)serialisers consult. -/
structure Tables where
  fams : List Family
  biv : BivTable
  upper : String → String
  /-- `Multivariate.from_dict` instantiates the class named by `type` (without arguments) before
      calling its `from_dict` (the former `get_instance(params['type'])`); `false`: it only looks
      the class up (`getattr(importlib.import_module(package), name)`). -/
  multiInstantiates : Bool
  /-- `get_instance("…GaussianMultivariate")` succeeds (the constructor needs no argument). -/
  gaussNoArg : Bool
  /-- `get_instance("…VineCopula")` succeeds. -/
  vineNoArg : Bool

def Model.toDict (T : Tables) : Model → Option V
  | .uni u => u.toDict
  | .wrapper w => w.toDict
  | .biv b => b.toDict T.biv
  | .gauss g => g.toDict
  | .vine s => s.toDict

/-- the entry point a user calls for a dict produced by a model of each kind. -/
inductive Entry where
  /-- `Univariate.from_dict` (generic: the recorded `type` decides) -/
  | univariate
  /-- `Bivariate.from_dict` (generic: `copula_type` decides) -/
  | bivariate
  /-- `GaussianMultivariate.from_dict` -/
  | gaussian
  /-- `VineCopula.from_dict` -/
  | vine
  /-- `Multivariate.from_dict` (generic: the recorded `type` decides) -/
  | multivariate
  deriving DecidableEq, Repr

def Model.entry : Model → Entry
  | .uni _ | .wrapper _ => .univariate
  | .biv _ => .bivariate
  | .gauss _ => .gaussian
  | .vine _ => .vine

/-- `Multivariate.from_dict`: the class named by `type` is looked up and its `from_dict` called; in
    the former shape `get_instance(params['type']).from_dict(params)` the class was first
    *instantiated without arguments* (`TypeError`, here `none`, if its constructor requires one). -/
def multivariateFromDict (T : Tables) (d : V) : Option Model :=
  match d with
  | .dict kvs =>
      match lookup kvs "type" with
      | some (.str q) =>
          if q = gaussQual then
            if !T.multiInstantiates || T.gaussNoArg then (gaussFromDict T.fams d).map Model.gauss else Option.none
          else if q = vineQual then
            if !T.multiInstantiates || T.vineNoArg then (vineFromDict T.fams d).map Model.vine else Option.none
          else Option.none
      | _ => Option.none
  | _ => Option.none

def fromDict (T : Tables) (e : Entry) (d : V) : Option Model :=
  match e with
  | .univariate => (uniFromDict T.fams d).map Model.uni
  | .bivariate => (bivFromDict T.upper T.biv d).map Model.biv
  | .gaussian => (gaussFromDict T.fams d).map Model.gauss
  | .vine => (vineFromDict T.fams d).map Model.vine
  | .multivariate => multivariateFromDict T d

/-- observable state of any model. -/
inductive Obs where
  | uni (o : Option UniObs)
  | biv (b : Biv)
  | gauss (g : GaussObs)
  | vine (s : VineObs)
  deriving Repr, Inhabited

def Model.obs : Model → Obs
  | .uni u => .uni (some u.obs)
  | .wrapper w => .uni w.obs
  | .biv b => .biv b
  | .gauss g => .gauss g.obs
  | .vine s => .vine s.obs

/-- one round trip `from_dict(to_dict(m))` through the entry point of `m`'s kind. -/
def trip (T : Tables) (m : Model) : Option Model := (m.toDict T).bind (fromDict T m.entry)

/-- `n` round trips. -/
def tripN (T : Tables) : Nat → Model → Option Model
  | 0, m => some m
  | n+1, m => (trip T m).bind (tripN T n)


/-! ## 8. reachable states (hypotheses of the round-trip theorems) -/

/-- a fitted univariate object as `fit` or `from_dict` leave it: its family is the one registered
    under its qualified name, `_params` has no key `type`, the constant flag agrees with
    `_is_constant()` on its own parameters, and — when its methods use `_model` — the options the
    model was built with are the defaults (`to_dict` does not record them). -/
structure UniWF (fams : List Family) (u : Uni) : Prop where
  mem : findFamily fams u.fam.qual = some u.fam
  fitted : u.fitted = true
  params : ∃ p, u.params = some p ∧ lookup p "type" = Option.none ∧ detectConstant u.fam p = some u.constant
  opts : u.fam.usesModel = true → u.constant = Option.none → ∀ k ∈ u.fam.modelOptions, optionOf u k = V.none

structure WrapperWF (fams : List Family) (w : Wrapper) : Prop where
  fitted : w.fitted = true
  inst : ∃ u, w.inst = some u ∧ UniWF fams u

def UniRefWF (fams : List Family) : UniRef → Prop
  | .plain u => UniWF fams u
  | .wrapped w => WrapperWF fams w

/-- a concrete bivariate subclass registered in the factory table, with an upper-case member name. -/
structure BivWF (T : Tables) (b : Biv) : Prop where
  member : ∃ m, T.biv.memberOf b.cls = some m ∧ T.biv.members.contains (T.upper m) = true ∧
    T.biv.classOf (T.upper m) = some b.cls

structure GaussWF (fams : List Family) (g : Gauss) : Prop where
  fitted : g.fitted = true
  unis : ∀ r ∈ g.univariates, UniRefWF fams r

/-- trees of a fitted vine from position `pos` on: all fitted, the first has level 1 and holds the
    matrix, every later one has a level ≠ 1 and links to its predecessor. -/
def TreesWF : Nat → List Tree → Prop
  | _, [] => True
  | pos, t :: ts =>
      t.fitted = true ∧
      (pos = 0 → isLevelOne t.level = true ∧ ∃ m, t.previous = Prev.matrix m) ∧
      (pos ≠ 0 → isLevelOne t.level = false ∧ t.previous = Prev.link (pos - 1)) ∧
      TreesWF (pos + 1) ts

structure VineWF (fams : List Family) (s : Vine) : Prop where
  trees : s.fitted = true → s.trees ≠ [] ∧ TreesWF 0 s.trees
  unis : s.fitted = true → ∀ u ∈ s.unis, UniWF fams u

def ModelWF (T : Tables) : Model → Prop
  | .uni u => UniWF T.fams u
  | .wrapper w => WrapperWF T.fams w
  | .biv b => BivWF T b
  | .gauss g => GaussWF T.fams g
  | .vine s => VineWF T.fams s

end CopVerif.Model.Serial
