import CopVerif.Base.Num
/-! Scalar bisection used by the bivariate driver as the stand-in for `scipy.optimize.brentq`
    (an external symbol; the harness compares within tolerance). -/
namespace CopVerif.Model
open CopVerif NumFns
section
variable {α : Type} [Add α] [Sub α] [Mul α] [Div α] [Neg α] [LT α] [LE α]
  [DecidableLT α] [DecidableLE α] [NumFns α]

def bisectRoot (f : α → α) (lo hi : α) : Nat → α
  | 0 => (lo + hi) / ofNat 2
  | n + 1 =>
    let mid := (lo + hi) / ofNat 2
    if f mid ≤ ofNat 0 then bisectRoot f mid hi n else bisectRoot f lo mid n
end
end CopVerif.Model
