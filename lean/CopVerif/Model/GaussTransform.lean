import CopVerif.Base.Num
import CopVerif.Gen.GaussTransform
/-!
  Hand-written model (K) around the GENERATED glue `CopVerif.Gen.GaussTransform` of
  `GaussianMultivariate._transform_to_normal / probability_density / cumulative_distribution`
  (`copulas/multivariate/gaussian.py`) and `Multivariate.log_probability_density`
  (`copulas/multivariate/base.py`); property C13.

  * **Containers**: `frame (labels, rows) | series (labels, row) | arr1 row | arr2 rows` — what a
    caller may pass as `X` (a `pd.DataFrame`, a `pd.Series`, a 1-d / 2-d `np.ndarray`).  A frame is
    rectangular by construction in pandas; the model does not re-check it (`zip` truncates).
  * **pandas / numpy primitives** (`prims`): `Series.to_frame().T` = one-row frame whose columns are
    the Series index; `pd.DataFrame(arr, columns=self.columns)` = frame labelled with the TRAINING
    columns, `ValueError` when the width differs; `name in X` = membership in the column labels;
    `X[name]` = ALL columns carrying that label, in frame order (one column when labels are distinct;
    a duplicated label yields a wider block, exactly as pandas does); `np.column_stack([])` raises
    `ValueError`; everything else is element-wise.
  * **Plan terms**: the fitted marginal CDFs, `ndarray.clip`, `scipy.stats.norm.ppf` and
    `scipy.stats.multivariate_normal.pdf/cdf` are *external symbols* `CDF j`, `CLIP lo hi`,
    `NORMPPF`, `MVNPDF`, `MVNCDF`; the model's output is a term over them (`Term`, `RTerm`) which the
    harness interprets with the real fitted objects (bit-equality with the real method), and
    which `Term.eval` / `RTerm.eval` interpret over any `Ext α` for the theorems.
  * **Shape quirk of the real code**, modelled as found: training columns that are absent from `X` are
    silently skipped, so the score matrix has `k < d` columns.  Then `multivariate_normal.pdf`
    computes `x - mean` by numpy broadcasting: `k = 1` is silently broadcast to `(z, …, z)`, any other
    `k ≠ d` raises `ValueError`; `k = 0` already fails in `np.column_stack` (`ValueError`);
    `multivariate_normal.cdf` raises `ValueError` for every `k ≠ d` and for an empty batch.
  * **Near-singular stored correlation** (finding `cumulative_distribution:raises[near-singular
    correlation]`, since repaired in /repo): scipy deems a covariance singular (`Corr.singular`) when
    an eigenvalue is `≤ 1e6·eps·max` (cond ≳ 4.5e9), while `fit` only regularises beyond cond 4.5e15;
    without `allow_singular=True` both scipy calls raise `LinAlgError` (a `ValueError`) for EVERY
    query.  `probability_density` always passed the flag; `cumulative_distribution` did not.  The
    flag of the cdf call is read from the source (`Gen.GaussTransform.cdfAllowSingular`), so the
    model follows the code in either state.
  * An executable zero-mean MVN density (Cholesky, forward substitution) polymorphic in the numeric
    signature: run at `Float` against scipy on the real scores, reasoned about at `ℝ`.
-/
namespace CopVerif.Model.GaussTransform
open CopVerif NumFns

/-! ### containers -/

/-- what the caller passes as `X`. -/
inductive Container (L α : Type) where
  | frame (labels : List L) (rows : List (List α))
  | series (labels : List L) (row : List α)
  | arr1 (row : List α)
  | arr2 (rows : List (List α))
  deriving Repr

/-- a `pd.DataFrame`: column labels and rows. -/
structure Frame (L α : Type) where
  labels : List L
  rows : List (List α)
  deriving Repr

/-- an `n × width` block (`width` is kept explicitly so that it is known for `n = 0`). -/
structure Block (β : Type) where
  width : Nat
  rows : List (List β)
  deriving Repr

def Block.map {β γ : Type} (f : β → γ) (b : Block β) : Block γ :=
  { width := b.width, rows := b.rows.map fun r => r.map f }

/-! ### plan terms -/

/-- scalar plan term over the external symbols `CDF j`, `CLIP`, `NORMPPF`. -/
inductive Term (α : Type) where
  | cell (x : α)
  | cdf (j : Nat) (t : Term α)
  | clip (lo hi : α) (t : Term α)
  | normppf (t : Term α)
  deriving Repr

/-- per-row result term: `MVNPDF Σ allow_singular row`, `MVNCDF Σ row` (Σ = the STORED correlation),
    `LOG`. -/
inductive RTerm (α : Type) where
  | mvnpdf (allowSingular : Bool) (row : List (Term α))
  | mvncdf (allowSingular : Bool) (row : List (Term α))
  | log (t : RTerm α)
  deriving Repr

/-- what the glue (and scipy's argument checks) read of the stored correlation `self.correlation`:
    its dimension, and scipy's verdict on it (`_PSD`: some eigenvalue `≤ 1e6·eps·max|eigenvalue|`, i.e.
    "singular"; with `allow_singular=False` scipy then raises `LinAlgError`, a `ValueError`). -/
structure Corr where
  dim : Nat
  singular : Bool
  deriving Repr, DecidableEq

/-- the fitted state that the three methods read. -/
structure GModel (L : Type) where
  fitted : Bool
  /-- `self.columns` (training order); `self.univariates[j]` is the symbol `CDF j`. -/
  cols : List L
  corr : Corr

section
variable {L α : Type} [DecidableEq L]

/-- the cells of row `r` whose label is `l`, in frame order (`X[l]` restricted to one row). -/
def pick (labels : List L) (l : L) (r : List α) : List α :=
  ((labels.zip r).filter fun c => c.1 = l).map (·.2)

/-- `X[l]`: every column labelled `l`. -/
def getitem (f : Frame L α) (l : L) : Block α :=
  { width := (f.labels.filter fun l' => l' = l).length, rows := f.rows.map (pick f.labels l) }

/-- `np.column_stack`: horizontal concatenation; raises on the empty list. -/
def columnStack {β : Type} : List (Block β) → Except Err (Block β)
  | [] => .error .valueError
  | b :: rest => .ok (rest.foldl (fun acc b' =>
      { width := acc.width + b'.width, rows := List.zipWith (· ++ ·) acc.rows b'.rows }) b)

/-- `pd.DataFrame(X, columns=self.columns)` for a 2-d array (`[X]` for a 1-d one). -/
def dataFrame (x : Container L α) (cols : List L) : Except Err (Frame L α) :=
  match x with
  | .arr2 rows => if rows.all (fun r => r.length = cols.length) then .ok ⟨cols, rows⟩ else .error .valueError
  | .arr1 _ => .error .valueError      -- a bare 1-d array is never passed: it is wrapped first
  | .frame ls rows => .ok ⟨ls, rows⟩   -- not reached
  | .series ls row => .ok ⟨ls, [row]⟩  -- not reached

/-- the pandas / numpy / scipy operations the generated glue is instantiated with. -/
def prims : Gen.GaussTransform.Prims (Container L α) (Frame L α) L Nat (Block α) (Block (Term α))
    (Block (Term α)) α where
  isSeries x := match x with | .series _ _ => true | _ => false
  isDataFrame x := match x with | .frame _ _ => true | _ => false
  shapeLenIsOne x := match x with | .arr1 _ => true | _ => false
  toFrameT x := match x with
    | .series ls row => .ok ⟨ls, [row]⟩
    | _ => .error .other
  asFrame x := match x with
    | .frame ls rows => .ok ⟨ls, rows⟩
    | _ => .error .other
  listOf x := match x with | .arr1 row => .arr2 [row] | y => y
  dataFrame := dataFrame
  contains f l := decide (l ∈ f.labels)
  getitem := getitem
  cdf j b := b.map fun x => Term.cdf j (Term.cell x)
  clip b lo hi := b.map (Term.clip lo hi)
  columnStack := columnStack
  normPpf b := b.map Term.normppf

variable [Add α] [Sub α] [Mul α] [Div α] [Neg α] [NumFns α]

/-- `model._transform_to_normal(X)` as a plan: the generated glue over `prims`, with
    `self.univariates = [CDF 0, CDF 1, …]`. -/
def transformToNormal (m : GModel L) (x : Container L α) : Except Err (Block (Term α)) :=
  Gen.GaussTransform.transformToNormal prims m.cols (List.range m.cols.length) x

/-- the plan term of one score: `NORMPPF (CLIP ε (1-ε) (CDF j x))`. -/
def scoreTerm (j : Nat) (x : α) : Term α :=
  .normppf (.clip Gen.GaussTransform.clipLo Gen.GaussTransform.clipHi (.cdf j (.cell x)))

/-- the plan of ONE row of a frame labelled `labels`: walk the training columns in training order,
    take the cell(s) carrying that label. -/
def rowPlan (m : GModel L) (labels : List L) (r : List α) : List (Term α) :=
  (m.cols.zip (List.range m.cols.length)).flatMap fun cj =>
    (pick labels cj.1 r).map (scoreTerm cj.2)

/-- `check_fit`. -/
def checkFit (m : GModel L) : Except Err Unit := if m.fitted then .ok () else .error .notFitted

/-- `stats.multivariate_normal.pdf(scores, cov=Σ, allow_singular=…)` on an `n × k` score block for a
    `d × d` Σ: parameter check first (`singular` and not allowed ⇒ `LinAlgError`), then numpy
    broadcasting of `x - mean` (see the header). -/
def mvnPdfBatch (S : Block (Term α)) (corr : Corr) (allowSingular : Bool) :
    Except Err (List (RTerm α)) :=
  if corr.singular && !allowSingular then .error .valueError
  else if S.width = corr.dim then .ok (S.rows.map (RTerm.mvnpdf allowSingular))
  else if S.width = 1 then
    .ok (S.rows.map fun r => RTerm.mvnpdf allowSingular (r.flatMap fun t => List.replicate corr.dim t))
  else .error .valueError

/-- `stats.multivariate_normal.cdf(scores, cov=Σ, allow_singular=…)`: parameter check first; every
    `k ≠ d` raises; an EMPTY batch raises too (`np.apply_along_axis` on zero rows: `ValueError`). -/
def mvnCdfBatch (S : Block (Term α)) (corr : Corr) (allowSingular : Bool) : Except Err (List (RTerm α)) :=
  if corr.singular && !allowSingular then .error .valueError
  else if S.width = corr.dim then
    (if S.rows.isEmpty then .error .valueError else .ok (S.rows.map (RTerm.mvncdf allowSingular)))
  else .error .valueError

/-- `model.probability_density(X)` as a plan (generated glue). -/
def pdfPlan (m : GModel L) (x : Container L α) : Except Err (List (RTerm α)) :=
  Gen.GaussTransform.probabilityDensity (checkFit m) (transformToNormal m) mvnPdfBatch m.corr x

/-- `model.cumulative_distribution(X)` as a plan (generated glue). -/
def cdfPlan (m : GModel L) (x : Container L α) : Except Err (List (RTerm α)) :=
  Gen.GaussTransform.cumulativeDistribution (checkFit m) (transformToNormal m) mvnCdfBatch m.corr x

/-- `model.log_probability_density(X)` as a plan (generated glue; `np.log` is element-wise). -/
def logPdfPlan (m : GModel L) (x : Container L α) : Except Err (List (RTerm α)) :=
  Gen.GaussTransform.logProbabilityDensity (fun ys => ys.map RTerm.log) (pdfPlan m) x

/-! ### interpretation of the external symbols -/

/-- an interpretation of the external symbols. -/
structure Ext (α : Type) where
  /-- `self.univariates[j].cdf` -/
  cdf : Nat → α → α
  /-- `scipy.stats.norm.ppf` -/
  normppf : α → α
  /-- `x ↦ multivariate_normal.pdf(x, cov=Σ, allow_singular=b)` for the stored Σ -/
  mvnpdf : Bool → List α → α
  /-- `x ↦ multivariate_normal.cdf(x, cov=Σ, allow_singular=b)` for the stored Σ -/
  mvncdf : Bool → List α → α

variable [LT α] [DecidableLT α]

/-- `ndarray.clip(lo, hi)` on one element (`minimum(maximum(x, lo), hi)`). -/
def clipFn (lo hi x : α) : α := if x < lo then lo else if hi < x then hi else x

def Term.eval (E : Ext α) : Term α → α
  | .cell x => x
  | .cdf j t => E.cdf j (t.eval E)
  | .clip lo hi t => clipFn lo hi (t.eval E)
  | .normppf t => E.normppf (t.eval E)

def RTerm.eval (E : Ext α) : RTerm α → α
  | .mvnpdf b row => E.mvnpdf b (row.map (Term.eval E))
  | .mvncdf b row => E.mvncdf b (row.map (Term.eval E))
  | .log t => NumFns.log (t.eval E)

/-- the score matrix (rows) under `E`. -/
def scores (E : Ext α) (m : GModel L) (x : Container L α) : Except Err (List (List α)) :=
  (transformToNormal m x).map fun S => S.rows.map fun r => r.map (Term.eval E)

def pdf (E : Ext α) (m : GModel L) (x : Container L α) : Except Err (List α) :=
  (pdfPlan m x).map fun ys => ys.map (RTerm.eval E)

def cdf (E : Ext α) (m : GModel L) (x : Container L α) : Except Err (List α) :=
  (cdfPlan m x).map fun ys => ys.map (RTerm.eval E)

def logPdf (E : Ext α) (m : GModel L) (x : Container L α) : Except Err (List α) :=
  (logPdfPlan m x).map fun ys => ys.map (RTerm.eval E)

end

/-! ### executable zero-mean multivariate normal density (Cholesky) -/
section
variable {α : Type} [Add α] [Sub α] [Mul α] [Div α] [Neg α] [LT α] [DecidableLT α] [NumFns α]

/-- `Σ_k x_k y_k` over the common prefix. -/
def dot (xs ys : List α) : α := (List.zipWith (· * ·) xs ys).foldl (· + ·) (ofNat 0)

/-- one step of a forward substitution against the lower-triangular row `lj` (its last entry is the
    diagonal): append `(a - Σ_{k<j} cur_k lj_k) / lj_j`. -/
def subst (cur : List α) (lj : List α) (a : α) : List α :=
  cur ++ [(a - dot cur lj) / lj.getLastD (ofNat 1)]

/-- forward substitution `L y = a` (`L` = list of lower-triangular rows, row `j` of length `j+1`). -/
def forward (L : List (List α)) (a : List α) : List α :=
  (L.zip a).foldl (fun cur la => subst cur la.1 la.2) []

/-- row `i = L.length` of the Cholesky factor from row `i` of `A`; `none` when the pivot is not
    positive (numpy: `LinAlgError`). -/
def cholRow (L : List (List α)) (arow : List α) : Option (List α) :=
  let off := forward L arow
  let p := arow.getD L.length (ofNat 0) - dot off off
  if ofNat 0 < p then some (off ++ [sqrt p]) else none

def cholAux : List (List α) → List (List α) → Option (List (List α))
  | L, [] => some L
  | L, arow :: rest =>
    match cholRow L arow with
    | none => none
    | some r => cholAux (L ++ [r]) rest

/-- Cholesky–Banachiewicz: lower-triangular `L` (rows) with `L Lᵀ = A`, `none` unless every pivot is
    positive. -/
def cholesky (A : List (List α)) : Option (List (List α)) := cholAux [] A

def diag (L : List (List α)) : List α := L.map fun r => r.getLastD (ofNat 1)

def sumL (xs : List α) : α := xs.foldl (· + ·) (ofNat 0)
def prodL (xs : List α) : α := xs.foldl (· * ·) (ofNat 1)

/-- the Mahalanobis form `zᵀ A⁻¹ z = |L⁻¹ z|²`. -/
def maha (L : List (List α)) (z : List α) : α := let y := forward L z; dot y y

/-- `log` of the zero-mean MVN density: `-(d/2) log τ - Σ log L_ii - q/2` with `τ = 2π`. -/
def mvnLogPdfChol (τ : α) (L : List (List α)) (z : List α) : α :=
  -(((ofNat L.length) / (ofNat 2)) * log τ) - sumL ((diag L).map log) - maha L z / (ofNat 2)

/-- the density itself in the textbook shape `exp(-q/2) / sqrt(τ^d · det A)`, `det A = (Π L_ii)²`. -/
def mvnPdfChol (τ : α) (L : List (List α)) (z : List α) : α :=
  exp (-(maha L z / (ofNat 2))) /
    sqrt (prodL (List.replicate L.length τ) * (prodL (diag L) * prodL (diag L)))

def mvnLogPdf (τ : α) (A : List (List α)) (z : List α) : Option α :=
  (cholesky A).map fun L => mvnLogPdfChol τ L z

def mvnPdf (τ : α) (A : List (List α)) (z : List α) : Option α :=
  (cholesky A).map fun L => mvnPdfChol τ L z

end
end CopVerif.Model.GaussTransform
