import CopVerif.Gen.SelectCopula
/-!
  Hand-written model (K) of `copulas.bivariate.select_copula` and its helpers `_compute_empirical`,
  `_compute_candidates` (copulas/bivariate/__init__.py).  Every formula, guard, constant and order
  that the Python source fixes is read from the GENERATED `CopVerif.Gen.SelectCopula`
  (`leftPred`, `rightPred`, `ratio`, `leftGuard`, `rightGuard`, `leftVal`, `rightVal`,
  `rightReadsZRight`, `candLeft`, `candRight`, `frankOnly`, `extraFamilies`, `sqDiff`,
  `rankAscending`, `scoreSum`, `pickMax`, `steps`); the candidates' CDFs and closed-form calibrations
  are the generated `CopVerif.Gen.{Clayton,Frank,Gumbel}.cdf / computeTheta`; `fit` is `Model.fit`.

  External symbols (parameters, never re-implemented):
  * the base grid `np.linspace(lo, hi, n)` — a `List α` (hypothesis used by the theorems: strictly
    increasing, at least `steps` elements; validated by the harness on the real grid);
  * what `Frank.fit` reads off `X` (`FitInput`: column minima/maxima, `scipy.stats.kendalltau`) and
    Frank's `least_squares` calibration `frankSolve`;
  * `inf : α`, the value `float('inf')` (only reached through `Clayton.compute_theta` at τ = 1).

  Quirks modelled as found:
  * `R.append(right / (1 - z_right[k]) ** 2)` indexes the *Python list* `z_right` at the loop index
    `k` right after `z_right.append(base[k])`; `zr[k]?` = `none` is the `IndexError`
    (`Err.other`).  `Props.C11.empirical_index_safe` proves it is never raised.
  * `sum(…) / N` with `N = 0` is `0 / 0` on Python ints: `ZeroDivisionError` (`Err.other`).
  * only `ValueError` is swallowed while building the candidates.
  * NaN distances: pandas `rank` keeps NaN (`none`), NaN propagates through the score sum,
    `np.argmax`/`np.argmin` return the first NaN position.
  The model is a function of its arguments alone: no RNG, no set/dict iteration.
-/
namespace CopVerif.Model.SelectCopula
open CopVerif NumFns CopVerif.Model

section
variable {α : Type} [Add α] [Sub α] [Mul α] [Div α] [Neg α] [LT α] [LE α]
  [DecidableLT α] [DecidableLE α] [NumFns α]

/-! ### `_compute_empirical` -/

/-- `sum(np.logical_and(U <= base[k], V <= base[k]))` -/
def countLeft (data : List (α × α)) (b : α) : Nat :=
  data.countP fun p => Gen.SelectCopula.leftPred p.1 p.2 b

/-- `sum(np.logical_and(U >= base[k], V >= base[k]))` -/
def countRight (data : List (α × α)) (b : α) : Nat :=
  data.countP fun p => Gen.SelectCopula.rightPred p.1 p.2 b

/-- the four Python lists `z_left, L, z_right, R` (append = at the end). -/
structure Emp (α : Type) where
  zLeft : List α
  L : List α
  zRight : List α
  R : List α

def Emp.empty : Emp α := ⟨[], [], [], []⟩

/-- One pass through the loop body at index `k`, grid value `b = base[k]`, with the two ratios
    already computed. -/
def stepEmp (k : Nat) (b left right : α) (st : Emp α) : Except Err (Emp α) :=
  let st1 : Emp α :=
    if Gen.SelectCopula.leftGuard left then
      { st with zLeft := st.zLeft ++ [b], L := st.L ++ [Gen.SelectCopula.leftVal left b] }
    else st
  if Gen.SelectCopula.rightGuard right then
    let zr := st1.zRight ++ [b]
    if Gen.SelectCopula.rightReadsZRight then
      match zr[k]? with
      | none => .error .other                -- IndexError: list index out of range
      | some z => .ok { st1 with zRight := zr, R := st1.R ++ [Gen.SelectCopula.rightVal right b z] }
    else .ok { st1 with zRight := zr, R := st1.R ++ [Gen.SelectCopula.rightVal right b b] }
  else .ok st1

/-- the `for k in range(STEPS)` loop over the grid values still to visit. -/
def loopEmp (leftOf rightOf : α → α) : List α → Nat → Emp α → Except Err (Emp α)
  | [], _, st => .ok st
  | b :: bs, k, st =>
    match stepEmp k b (leftOf b) (rightOf b) st with
    | .error e => .error e
    | .ok st' => loopEmp leftOf rightOf bs (k + 1) st'

/-- `_compute_empirical(X)` given the grid `base`. -/
def computeEmpirical (base : List α) (data : List (α × α)) : Except Err (Emp α) :=
  let n := data.length
  if base.length < Gen.SelectCopula.steps then .error .other          -- base[k]: IndexError
  else if n = 0 ∧ 0 < Gen.SelectCopula.steps then .error .other       -- 0 / 0: ZeroDivisionError
  else loopEmp (fun b => Gen.SelectCopula.ratio (countLeft data b) n)
         (fun b => Gen.SelectCopula.ratio (countRight data b) n)
         (base.take Gen.SelectCopula.steps) 0 Emp.empty

/-- The same four lists written without any index arithmetic (`base[k]` used on both sides):
    the specification `empirical_index_safe` compares the loop with. -/
def empSpec (leftOf rightOf : α → α) (bs : List α) : Emp α :=
  let ls := bs.filter fun b => Gen.SelectCopula.leftGuard (leftOf b)
  let rs := bs.filter fun b => Gen.SelectCopula.rightGuard (rightOf b)
  ⟨ls, ls.map fun b => Gen.SelectCopula.leftVal (leftOf b) b,
   rs, rs.map fun b => Gen.SelectCopula.rightVal (rightOf b) b b⟩

/-! ### candidates -/

/-- a (fully built) copula object: class, `tau`, `theta`. -/
structure Cand (α : Type) where
  fam : Family
  tau : α
  theta : Bound α

/-- the `try:` block for one class: `.ok (some c)` = appended, `.ok none` = `ValueError` swallowed,
    `.error e` = any other exception propagates. -/
def tryCandidate (frankSolve : α → α) (τ : α) (fam : Family) : Except Err (Option (Cand α)) :=
  match computeThetaFam fam frankSolve τ with
  | .error .valueError => .ok none
  | .error e => .error e
  | .ok θ => if checkThetaB fam θ then .ok (some ⟨fam, τ, θ⟩) else .ok none

/-- the `for copula_class in [...]` loop. -/
def extraCandidates (frankSolve : α → α) (τ : α) : List Family → Except Err (List (Cand α))
  | [] => .ok []
  | f :: fs =>
    match tryCandidate frankSolve τ f with
    | .error e => .error e
    | .ok o =>
      match extraCandidates frankSolve τ fs with
      | .error e => .error e
      | .ok cs => .ok (o.toList ++ cs)

/-! ### candidate curves -/

def boundVal (inf : α) : Bound α → α
  | .fin x => x
  | .posInf => inf
  | .negInf => -inf

/-- `copula.cumulative_distribution(np.column_stack((zs, zs)))` -/
def cdfDiag (inf : α) (c : Cand α) (zs : List α) : Except Err (List α) :=
  let θ := boundVal inf c.theta
  let xs := zs.map fun z => (z, z)
  match c.fam with
  | .clayton => Gen.Clayton.cdf θ xs
  | .frank => Gen.Frank.cdf θ xs
  | .gumbel => Gen.Gumbel.cdf θ xs

structure Curves (α : Type) where
  left : List α
  right : List α

/-- one iteration of `_compute_candidates` (left curve first, then right). -/
def candCurves (inf : α) (zl zr : List α) (c : Cand α) : Except Err (Curves α) :=
  match cdfDiag inf c zl with
  | .error e => .error e
  | .ok cl =>
    match cdfDiag inf c zr with
    | .error e => .error e
    | .ok cr => .ok ⟨List.zipWith Gen.SelectCopula.candLeft cl zl,
                      List.zipWith Gen.SelectCopula.candRight cr zr⟩

def allCurves (inf : α) (zl zr : List α) : List (Cand α) → Except Err (List (Curves α))
  | [] => .ok []
  | c :: cs =>
    match candCurves inf zl zr c with
    | .error e => .error e
    | .ok x =>
      match allCurves inf zl zr cs with
      | .error e => .error e
      | .ok xs => .ok (x :: xs)

/-! ### distances, ranks, arg-max -/

/-- `np.sum((e - c) ** 2)` (left fold; numpy sums pairwise — the harness allows for it). -/
def dist (e c : List α) : α := sumList (List.zipWith Gen.SelectCopula.sqDiff e c)

/-- `(diff_left[i], diff_right[i], diff_both[i])` of one candidate. -/
def distTriple (L R : List α) (c : Curves α) : α × α × α :=
  (dist L c.left, dist R c.right, dist (L ++ R) (c.left ++ c.right))

/-- pandas `Series.rank(ascending=asc)` (method='average', na_option='keep') of the entry `x` of the
    series `d`: the tie group of `x` occupies positions `before+1 … before+eq`, its average is
    `(2·before + eq + 1)/2`; `none` = NaN. -/
def rankOf (asc : Bool) (d : List α) (x : α) : Option α :=
  if NumFns.isNaN x then none
  else
    let before := d.countP fun y => if asc then decide (y < x) else decide (x < y)
    let eq := d.countP fun y => NumFns.beq x y
    some (ofNat (2 * before + eq + 1) / ofNat 2)

/-- `score_left + score_right + score_both` for one candidate (NaN absorbs). -/
def scoreOf (l r b : Option α) : Option α :=
  match l, r, b with
  | some l, some r, some b => some (Gen.SelectCopula.scoreSum l r b)
  | _, _, _ => none

def scores (asc : Bool) (ts : List (α × α × α)) : List (Option α) :=
  let dl := ts.map fun t => t.1
  let dr := ts.map fun t => t.2.1
  let db := ts.map fun t => t.2.2
  ts.map fun t => scoreOf (rankOf asc dl t.1) (rankOf asc dr t.2.1) (rankOf asc db t.2.2)

/-- index of the first element that no later element strictly beats and that strictly beats every
    earlier one: `np.argmax` (`better y x := x < y`) / `np.argmin` on NaN-free input. -/
def argBest (better : α → α → Bool) : List α → Nat
  | [] => 0
  | x :: xs =>
    let j := argBest better xs
    match xs[j]? with
    | some y => if better y x then j + 1 else 0
    | none => 0

/-- `np.argmax` / `np.argmin` of a float vector: the first NaN position if there is one. -/
def pickIdx (max : Bool) (s : List (Option α)) : Nat :=
  match s.findIdx? Option.isNone with
  | some i => i
  | none =>
    argBest (fun y x => if max then decide (x < y) else decide (y < x)) (s.filterMap id)

/-! ### `select_copula` -/

/-- the external quantities (see the header). -/
structure Ext (α : Type) where
  fitInput : FitInput α
  frankSolve : α → α
  inf : α

/-- everything `select_copula` computes on the ranking path. -/
structure Trace (α : Type) where
  cands : List (Cand α)
  emp : Emp α
  curves : List (Curves α)
  triples : List (α × α × α)
  score : List (Option α)
  idx : Nat

inductive Outcome (α : Type) where
  /-- `if frank.tau <= 0: return frank` -/
  | early (frank : Cand α)
  | ranked (t : Trace α) (chosen : Cand α)

def Outcome.cand : Outcome α → Cand α
  | .early c => c
  | .ranked _ c => c

/-- the ranking path, given the fitted Frank object's attributes. -/
def rankPath (ext : Ext α) (base : List α) (data : List (α × α)) (τ : α) (θF : Bound α) :
    Except Err (Outcome α) :=
  match extraCandidates ext.frankSolve τ Gen.SelectCopula.extraFamilies with
  | .error e => .error e
  | .ok extra =>
    let cands : List (Cand α) := ⟨.frank, τ, θF⟩ :: extra
    match computeEmpirical base data with
    | .error e => .error e
    | .ok emp =>
      match allCurves ext.inf emp.zLeft emp.zRight cands with
      | .error e => .error e
      | .ok curves =>
        let ts := curves.map (distTriple emp.L emp.R)
        let sc := scores Gen.SelectCopula.rankAscending ts
        let idx := pickIdx Gen.SelectCopula.pickMax sc
        match cands[idx]? with
        | some c => .ok (.ranked ⟨cands, emp, curves, ts, sc, idx⟩ c)
        | none => .error .other

def selectOutcome (ext : Ext α) (base : List α) (data : List (α × α)) : Except Err (Outcome α) :=
  match Model.fit .frank ext.frankSolve ext.fitInput { tau := none, theta := none } with
  | (.error e, _) => .error e
  | (.ok _, st) =>
    match st.tau, st.theta with
    | some τ, some θF =>
      if Gen.SelectCopula.frankOnly τ then .ok (.early ⟨.frank, τ, θF⟩)
      else rankPath ext base data τ θF
    | _, _ => .error .other

/-- `select_copula(X)`: the returned object. -/
def selectCopula (ext : Ext α) (base : List α) (data : List (α × α)) : Except Err (Cand α) :=
  match selectOutcome ext base data with
  | .error e => .error e
  | .ok o => .ok o.cand

end
end CopVerif.Model.SelectCopula
