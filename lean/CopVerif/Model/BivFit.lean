import CopVerif.Gen.Bivariate
/-!
  Hand-written model (K) of `Bivariate.fit` / `_compute_theta` / `check_marginal`
  (copulas/bivariate/base.py) as decision logic.  The data enter through the quantities the code
  computes from them with numpy/scipy (external symbols): column minima/maxima, `kendalltau`, the
  constant-column test, and — for Frank — the `least_squares` solution.  The closed-form
  calibrations and admissible sets are the GENERATED ones (`Gen.*.computeTheta`, `theta…`).
-/
namespace CopVerif.Model
open CopVerif NumFns

inductive Family where
  | clayton | frank | gumbel
  deriving DecidableEq, Repr

/-- What `fit` reads off the data. -/
structure FitInput (α : Type) where
  uMin : α
  uMax : α
  vMin : α
  vMax : α
  /-- `stats.kendalltau(U, V)[0]` (NaN when a column is constant). -/
  tau : α
  uConst : Bool
  vConst : Bool

/-- The two attributes `fit` writes (`none` = the class default `None`). -/
structure FitState (α : Type) where
  tau : Option α
  theta : Option (Bound α)

section
variable {α : Type} [Add α] [Sub α] [Mul α] [Div α] [Neg α] [LT α] [LE α]
  [DecidableLT α] [DecidableLE α] [NumFns α]

def thetaLower : Family → Bound α
  | .clayton => Gen.Clayton.thetaLower
  | .frank => Gen.Frank.thetaLower
  | .gumbel => Gen.Gumbel.thetaLower

def thetaUpper : Family → Bound α
  | .clayton => Gen.Clayton.thetaUpper
  | .frank => Gen.Frank.thetaUpper
  | .gumbel => Gen.Gumbel.thetaUpper

def invalidThetas : Family → List α
  | .clayton => Gen.Clayton.invalidThetas
  | .frank => Gen.Frank.invalidThetas
  | .gumbel => Gen.Gumbel.invalidThetas

/-- `check_theta` on a possibly infinite θ (`Clayton.compute_theta` returns `inf` for τ = 1):
    `lower <= inf <= upper` holds iff `upper = inf`; `inf in invalid_thetas` is false. -/
def checkThetaB (fam : Family) : Bound α → Bool
  | .fin θ => checkTheta (thetaLower fam) (thetaUpper fam) (invalidThetas fam) θ
  | .posInf => match (thetaUpper fam : Bound α) with
      | .posInf => true
      | _ => false
  | .negInf => match (thetaLower fam : Bound α) with
      | .negInf => true
      | _ => false

/-- `compute_theta`: generated closed forms; Frank's solver is the parameter `frankSolve`. -/
def computeThetaFam (fam : Family) (frankSolve : α → α) (τ : α) : Except Err (Bound α) :=
  match fam with
  | .clayton => Gen.Clayton.computeTheta τ
  | .gumbel => Gen.Gumbel.computeTheta τ
  | .frank => .ok (.fin (frankSolve τ))

/-- `check_marginal`: only the range test raises (the KS test merely warns). -/
def marginalOk (lo hi : α) : Bool := !(decide (lo < ofNat 0) || decide (ofNat 1 < hi))

/-- `Bivariate.fit`: result and the state left behind (attributes are written as the code writes
    them: `tau` before the NaN test, `theta` before `check_theta`). -/
def fit (fam : Family) (frankSolve : α → α) (inp : FitInput α) (st : FitState α) :
    Except Err Unit × FitState α :=
  if !(marginalOk inp.uMin inp.uMax) then (.error .valueError, st)
  else if !(marginalOk inp.vMin inp.vMax) then (.error .valueError, st)
  else
    let st1 : FitState α := { st with tau := some inp.tau }
    if NumFns.isNaN inp.tau then (.error .valueError, st1)
    else match computeThetaFam fam frankSolve inp.tau with
      | .error e => (.error e, st1)
      | .ok θ =>
        let st2 : FitState α := { st1 with theta := some θ }
        if checkThetaB fam θ then (.ok (), st2) else (.error .valueError, st2)

/-- `check_fit` on a state: `not self.theta` (None or 0) ⇒ NotFitted; else `check_theta`. -/
def usable (fam : Family) (st : FitState α) : Except Err Unit :=
  match st.theta with
  | none => .error .notFitted
  | some (.fin θ) => checkFit (thetaLower fam) (thetaUpper fam) (invalidThetas fam) θ
  | some b => if checkThetaB fam b then .ok () else .error .valueError

end
end CopVerif.Model
