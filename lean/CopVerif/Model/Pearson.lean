import CopVerif.Base.Num
import CopVerif.Gen.Tables
/-!
  Hand-written model (K) of `GaussianMultivariate._get_correlation` / `_transform_to_normal`
  (`copulas/multivariate/gaussian.py`), property C02.

  ```
  result      = self._transform_to_normal(X)                  -- transformToNormal
  correlation = pd.DataFrame(data=result).corr().to_numpy()   -- pearson
  correlation = np.nan_to_num(correlation, nan=0.0)           -- nanToZero
  if np.linalg.cond(correlation) > 1.0 / sys.float_info.epsilon:
      correlation = correlation + np.identity(k) * EPSILON    -- ridge
  return pd.DataFrame(correlation, index=self.columns, columns=self.columns)   -- fitCorrelation
  ```

  `DataFrame.corr()` (method='pearson', min_periods=1) is pandas' `libalgos.nancorr`, written out
  here exactly as pandas 3 computes it (including its quirks, because the model is run at `Float`
  against the real thing):
  * only the lower triangle `yi ≤ xi` is computed, with column `xi` in the role of `x`, and mirrored;
  * rows where either value is not finite are skipped;
  * ONE pass of Welford's update for the two means, the two centred sums of squares and the centred
    cross sum (the ℝ reading of which is proved equal to the textbook two-pass `mean / centred sums`
    formulas in `CopVerif/Real/Pearson.lean`);
  * `divisor = sqrt(ssqdm_x * ssqdm_y)`; `divisor != 0` ⇒ `covxy / divisor` clipped to `[-1, 1]`,
    otherwise (a constant column: `0/0`) NaN.  NaN is modelled explicitly as `none`, never through
    `x / 0 = 0`.
  `np.linalg.cond` (SVD) is an external symbol: its value is a parameter.  `stats.norm.ppf` and
  the fitted marginal CDFs are external symbols: parameters of `transformToNormal`.
  The constants come from the GENERATED `CopVerif.Gen.GaussCorr`.  Matrices are lists of rows;
  the score table is a list of COLUMNS (in `self.columns` order).
-/
namespace CopVerif.Model
open CopVerif NumFns

/-- `k × k` list-of-rows matrix with entry `f i j`. -/
def table {β : Type} (k : Nat) (f : Nat → Nat → β) : List (List β) :=
  (List.range k).map fun i => (List.range k).map fun j => f i j

/-- entry `(i, j)` of a list-of-rows matrix, `d` outside its shape. -/
def entryD {β : Type} (d : β) (M : List (List β)) (i j : Nat) : β := (M.getD i []).getD j d

section
variable {α : Type} [Add α] [Sub α] [Mul α] [Div α] [Neg α] [LT α] [LE α]
  [DecidableLT α] [DecidableLE α] [NumFns α]

/-- `np.isfinite` (pandas: `mask = np.isfinite(mat)`); constantly `true` at `ℝ`. -/
def isFinite (x : α) : Bool :=
  !(NumFns.isNaN x) && !(NumFns.isPosInf x) && !(NumFns.isPosInf (-x))

/-- loop state of `nancorr` for one pair of columns. -/
structure WState (α : Type) where
  nobs : α
  meanx : α
  meany : α
  ssx : α
  ssy : α
  cov : α

def wInit : WState α :=
  { nobs := ofNat 0, meanx := ofNat 0, meany := ofNat 0, ssx := ofNat 0, ssy := ofNat 0, cov := ofNat 0 }

/-- one row `(vx, vy)`:
```
nobs += 1; dx = vx - meanx; dy = vy - meany
meanx += 1. / nobs * dx;  meany += 1. / nobs * dy
ssqdm_x += (vx - meanx) * dx;  ssqdm_y += (vy - meany) * dy;  covxy += (vx - meanx) * dy
``` -/
def wStep (s : WState α) (p : α × α) : WState α :=
  let nobs := s.nobs + ofNat 1
  let dx := p.1 - s.meanx
  let dy := p.2 - s.meany
  let meanx := s.meanx + ofNat 1 / nobs * dx
  let meany := s.meany + ofNat 1 / nobs * dy
  { nobs := nobs, meanx := meanx, meany := meany,
    ssx := s.ssx + (p.1 - meanx) * dx,
    ssy := s.ssy + (p.2 - meany) * dy,
    cov := s.cov + (p.1 - meanx) * dy }

/-- `if val > 1.0: val = 1.0 elif val < -1.0: val = -1.0`. -/
def clipUnit (v : α) : α :=
  if ofNat 1 < v then ofNat 1 else if v < -(ofNat 1) then -(ofNat 1) else v

/-- Pearson correlation of column `xs` (role `x`) with `ys` (role `y`); `none` = NaN (`0/0`). -/
def pearsonPair (xs ys : List α) : Option α :=
  let rows := (xs.zip ys).filter fun p => isFinite p.1 && isFinite p.2
  let s := rows.foldl wStep wInit
  let divisor := sqrt (s.ssx * s.ssy)
  if NumFns.beq divisor (ofNat 0) = false then some (clipUnit (s.cov / divisor)) else none

/-- entry `(i, j)` of `DataFrame.corr()`: computed for `j ≤ i`, mirrored otherwise. -/
def pearsonEntry (cols : List (List α)) (i j : Nat) : Option α :=
  if j ≤ i then pearsonPair (cols.getD i []) (cols.getD j [])
  else pearsonPair (cols.getD j []) (cols.getD i [])

/-- `pd.DataFrame(scores).corr().to_numpy()`; `cols` = the columns of the score table. -/
def pearson (cols : List (List α)) : List (List (Option α)) :=
  table cols.length (pearsonEntry cols)

/-- `np.nan_to_num(·, nan=…)` on one entry (entries are clipped to `[-1,1]`, never `±inf`). -/
def nanToZero1 (v : Option α) : α :=
  match v with
  | none => Gen.GaussCorr.nanReplacement
  | some v => if NumFns.isNaN v then Gen.GaussCorr.nanReplacement else v

def nanToZero (M : List (List (Option α))) : List (List α) := M.map fun row => row.map nanToZero1

/-- `M + np.identity(k) * ε` (every entry is touched: `v + δ_ij * ε`). -/
def addDiag (ε : α) (M : List (List α)) : List (List α) :=
  M.mapIdx fun i row => row.mapIdx fun j v => v + (if i = j then ofNat 1 else ofNat 0) * ε

/-- `if np.linalg.cond(M) > threshold: M = M + np.identity(k) * EPSILON`; `cond` is the value the
    external `np.linalg.cond` returned (NaN ⇒ no ridge, as in Python). -/
def ridge (cond : α) (M : List (List α)) : List (List α) :=
  if Gen.GaussCorr.condThreshold < cond then addDiag Gen.GaussCorr.ridgeConst M else M

/-- the matrix before the ridge decision: what `np.linalg.cond` is applied to. -/
def preRidge (scores : List (List α)) : List (List α) := nanToZero (pearson scores)

/-- `_get_correlation` on the normal scores (list of columns), given the condition number. -/
def corrModel (scores : List (List α)) (cond : α) : List (List α) := ridge cond (preRidge scores)

/-- `ndarray.clip(lo, hi)` = `minimum(maximum(x, lo), hi)` (NaN propagates). -/
def clip (lo hi x : α) : α := if x < lo then lo else if hi < x then hi else x

/-- `_transform_to_normal`: column `i` ↦ `norm.ppf(cdf_i(column).clip(EPSILON, 1 - EPSILON))`.
    `ppf` and the fitted `cdfs` are external symbols. -/
def transformToNormal (ppf : α → α) (cdfs : List (α → α)) (X : List (List α)) : List (List α) :=
  (cdfs.zip X).map fun fc =>
    fc.2.map fun x => ppf (clip Gen.GaussCorr.clipLo Gen.GaussCorr.clipHi (fc.1 x))

/-- a labelled square table (`pd.DataFrame(data, index=…, columns=…)`). -/
structure Frame (L α : Type) where
  index : List L
  columns : List L
  data : List (List α)

/-- `pd.DataFrame(correlation, index=self.columns, columns=self.columns)`. -/
def fitCorrelation {L : Type} (labels : List L) (scores : List (List α)) (cond : α) : Frame L α :=
  { index := labels, columns := labels, data := corrModel scores cond }

/-- `fit`: labels are the training columns in order; scores from the fitted marginals. -/
def fitModel {L : Type} (labels : List L) (ppf : α → α) (cdfs : List (α → α)) (X : List (List α))
    (cond : α) : Frame L α :=
  fitCorrelation labels (transformToNormal ppf cdfs X) cond

/-- `to_dict()["correlation"] = self.correlation.to_numpy().tolist()`. -/
def Frame.toDictCorrelation {L : Type} (f : Frame L α) : List (List α) := f.data

end
end CopVerif.Model
