import CopVerif.Base.Num
/-!
  Hand-written executable (weighted) Gaussian kernel density estimate in one dimension: what
  `scipy.stats.gaussian_kde(dataset, bw_method, weights)` *means* (property C04).  Mathlib-free,
  polymorphic in `α`; run at `Float` by `Driver/Estimators.lean` against the real
  `GaussianKDE._model` (`factor`, `covariance`, `weights`, `evaluate`), reasoned about at `ℝ` in
  `Real/Estimators.lean`.

  * weights are normalised to sum 1 (`None` ↦ `1/n` each);  `n_eff = 1 / Σ wᵢ²`
  * bandwidth rule: Scott `n_eff^(-1/5)` (also the default `None`), Silverman `(n_eff·3/4)^(-1/5)`,
    or a scalar used directly as the factor (callables are not modelled)
  * data variance = `Σ wᵢ (xᵢ − m)² / (1 − Σ wᵢ²)` with `m = Σ wᵢ xᵢ`
    (`np.cov(…, bias=False, aweights=w)`: for equal weights the usual `1/(n−1)` sample variance)
  * `covariance = variance · factor²`,  `h = sqrt variance · factor`
  * `pdf x = Σ wᵢ φ((x − xᵢ)/h) / h`,  `φ z = c · exp(−z²/2)`, `c = 1/sqrt(2π)`
-/
namespace CopVerif.Model
open CopVerif NumFns

/-- `bw_method` of `gaussian_kde` (string or scalar; `None` is `Option.none` one level up). -/
inductive BwMethod (α : Type) where
  | scott
  | silverman
  | scalar (c : α)

/-- the fitted density object (the attributes of `scipy.stats.gaussian_kde` the property talks about). -/
structure Kde (α : Type) where
  dataset : List α
  /-- normalised weights -/
  weights : List α
  neff : α
  factor : α
  /-- weighted sample variance of the data (`_data_covariance`) -/
  dataCov : α
  /-- `covariance = dataCov · factor²` -/
  covariance : α
  /-- kernel standard deviation (`cho_cov`) -/
  h : α

section
variable {α : Type} [Add α] [Sub α] [Mul α] [Div α] [Neg α] [NumFns α]

/-- `1/sqrt(2π)` as a decimal literal (20 digits). -/
def invSqrt2Pi : α := ofSci 39894228040143267794 20

/-- standard normal density with normalising constant `c`. -/
def gaussKernel (c z : α) : α := c * exp (-((z * z) / ofNat 2))

/-- `Σ wᵢ φ((x − xᵢ)/h) / h`. -/
def kdePdfWith (c : α) (xs ws : List α) (h x : α) : α :=
  sumList (List.zipWith (fun xi wi => wi * gaussKernel c ((x - xi) / h) / h) xs ws)

def kdePdf (xs ws : List α) (h x : α) : α := kdePdfWith invSqrt2Pi xs ws h x

/-- weights normalised to sum one; `None` ↦ `ones(n)/n`. -/
def normWeights (n : Nat) (w : Option (List α)) : List α :=
  match w with
  | none => List.replicate n (ofNat 1 / ofNat n)
  | some ws => ws.map (· / sumList ws)

def sumSq (ws : List α) : α := sumList (ws.map fun a => a * a)

/-- `n_eff = 1/Σ wᵢ²`. -/
def nEff (ws : List α) : α := ofNat 1 / sumSq ws

def scottFactor (neff : α) : α := pow neff (-(ofNat 1) / ofNat 5)
def silvermanFactor (neff : α) : α := pow (neff * ofNat 3 / ofNat 4) (-(ofNat 1) / ofNat 5)

def bwFactor (bw : Option (BwMethod α)) (neff : α) : α :=
  match bw with
  | none => scottFactor neff
  | some .scott => scottFactor neff
  | some .silverman => silvermanFactor neff
  | some (.scalar c) => c

def weightedMean (xs ws : List α) : α := sumList (List.zipWith (fun xi wi => wi * xi) xs ws)

/-- weighted sample variance with scipy's `1/(1 − Σ w²)` correction. -/
def weightedVar (xs ws : List α) : α :=
  sumList (List.zipWith (fun xi wi => wi * ((xi - weightedMean xs ws) * (xi - weightedMean xs ws))) xs ws)
    / (ofNat 1 - sumSq ws)

/-- `gaussian_kde(dataset, bw_method, weights)`. -/
def gaussianKde (xs : List α) (bw : Option (BwMethod α)) (w : Option (List α)) : Kde α :=
  let ws := normWeights xs.length w
  let neff := nEff ws
  let factor := bwFactor bw neff
  let v := weightedVar xs ws
  { dataset := xs, weights := ws, neff := neff, factor := factor, dataCov := v,
    covariance := v * (factor * factor), h := sqrt v * factor }

/-- `gaussian_kde.evaluate` at one point. -/
def Kde.pdf (k : Kde α) (x : α) : α := kdePdf k.dataset k.weights k.h x

end
end CopVerif.Model
